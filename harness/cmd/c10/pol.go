// C10 harness, policy scenario: the replica map of the REAL tokenAwareHostPolicy as a function of the HISTORY of
// policy events (AddHost, AddHosts, RemoveHost, HostUp, HostDown, SetPartitioner, KeyspaceChanged) interleaved with
// changes of the environment it reads (keyspace schema readable / unreadable / altered / dropped). After every event
// the metadata snapshot Pick consults is dumped (model-vs-code) and `replicas(ks, token)` is queried: spec-backed
// (`prepl`, answered by the Lean driver from the CURRENT environment only) whenever the keyspace is settled in the sense
// of the theorem C10_pick_spec - its schema did not change behind the policy's back and it has an entry (ANY keyspace,
// KF-C10-4 repaired: every ring change recomputes every keyspace with an entry), is the session keyspace or no entry is
// expected -, model-vs-code (`xprepl`) otherwise.
package main

import (
	"errors"
	"fmt"
	"sort"
	"strings"
	"sync/atomic"
	"time"

	"github.com/gocql/gocql"
	"verifharness/vh"
)

// nullPolicy is the fallback of the token-aware policy: every host is local, Pick offers nothing.
type nullPolicy struct{}

func (nullPolicy) AddHost(*gocql.HostInfo)                   {}
func (nullPolicy) RemoveHost(*gocql.HostInfo)                {}
func (nullPolicy) HostUp(*gocql.HostInfo)                    {}
func (nullPolicy) HostDown(*gocql.HostInfo)                  {}
func (nullPolicy) SetPartitioner(string)                     {}
func (nullPolicy) KeyspaceChanged(gocql.KeyspaceUpdateEvent) {}
func (nullPolicy) Init(*gocql.Session)                       {}
func (nullPolicy) IsLocal(*gocql.HostInfo) bool              { return true }
func (nullPolicy) Pick(gocql.ExecutableQuery) gocql.NextHost {
	return func() gocql.SelectedHost { return nil }
}

type polHost struct {
	id, addr, dc, rack int
	toks               []int
	obj                *gocql.HostInfo
}

const nKs = 4 // keyspaces ks0..ks3; session keyspace 9 = "" (no keyspace)

type polEnv struct {
	pol    gocql.HostSelectionPolicy
	uni    []polHost
	sess   int
	schema map[int]string // ks -> e | u | s:<rf> | n:<dc=rf,...>
	dead   bool           // a panic escaped from the policy (its mutex stays locked)
	gate   *readGate      // conducted schedule: parks the first getKeyspaceMetadata call

	// the harness's own bookkeeping of the history, used ONLY to classify queries (spec-backed or not)
	part    string
	partBad bool           // an unsupported / empty partitioner was set by an event
	addrs   map[int]bool   // connect addresses in the policy's host list
	fresh   map[int]bool   // schema unchanged since the policy last read it (KeyspaceChanged, or a ring change while it had an entry / is the session keyspace)
	held    map[int]bool   // by the history the policy has to hold an entry: at its last read there was a ring and a usable schema
	hasRing bool           // a supported partitioner was set: the policy has a token ring from then on
	why     map[int]string // why a keyspace is not fresh: "schema"
	// scenario statistics
	hadEntry     map[int]bool // the keyspace had an entry at some point
	unreadRingEv int          // ring recomputations while a keyspace that had an entry is unreadable
}

var curPol *polEnv

func ksName(k int) string {
	if k == 9 {
		return ""
	}
	return fmt.Sprintf("ks%d", k)
}

func tok6(t string) string {
	var n int
	fmt.Sscan(t, &n)
	return fmt.Sprintf("%06d", n)
}

func (e *polEnv) read(ks string) (*gocql.KeyspaceMetadata, error) {
	var k int
	if _, err := fmt.Sscanf(ks, "ks%d", &k); err != nil {
		return nil, errors.New("verif: no such keyspace")
	}
	if g := e.gate; g != nil && atomic.CompareAndSwapInt32(&g.armed, 1, 0) {
		close(g.parked)
		<-g.release
	}
	sc, ok := e.schema[k]
	if !ok || sc == "e" {
		return nil, errors.New("verif: keyspace metadata unavailable")
	}
	switch {
	case sc == "u":
		return &gocql.KeyspaceMetadata{Name: ks, StrategyClass: "org.apache.cassandra.locator.LocalStrategy",
			StrategyOptions: map[string]interface{}{"class": "org.apache.cassandra.locator.LocalStrategy"}}, nil
	case strings.HasPrefix(sc, "s:"):
		return &gocql.KeyspaceMetadata{Name: ks, StrategyClass: simpleClass, StrategyOptions: simpleOpts(sc[2:])}, nil
	case strings.HasPrefix(sc, "n:"):
		return &gocql.KeyspaceMetadata{Name: ks, StrategyClass: ntsClass, StrategyOptions: ntsOpts(sc[2:])}, nil
	}
	return nil, errors.New("verif: bad schema")
}

func polReset(w []string) string {
	e := &polEnv{schema: map[int]string{}, addrs: map[int]bool{}, fresh: map[int]bool{}, held: map[int]bool{}, why: map[int]string{}, hadEntry: map[int]bool{}, part: "e"}
	fmt.Sscan(w[1], &e.sess)
	for _, s := range w[2:] {
		f := strings.Split(s, "/")
		if len(f) != 5 {
			return "bad-op"
		}
		var h polHost
		fmt.Sscan(f[0], &h.id)
		fmt.Sscan(f[1], &h.addr)
		fmt.Sscan(f[2], &h.dc)
		fmt.Sscan(f[3], &h.rack)
		var ts []string
		if f[4] != "-" {
			for _, t := range strings.Split(f[4], ",") {
				var n int
				fmt.Sscan(t, &n)
				h.toks = append(h.toks, n)
				ts = append(ts, tok6(t))
			}
		}
		h.obj = gocql.VerifC10NewHost(fmt.Sprint(h.id), h.addr, fmt.Sprintf("dc%d", h.dc), fmt.Sprintf("r%d", h.rack), ts)
		e.uni = append(e.uni, h)
	}
	e.pol = gocql.TokenAwareHostPolicy(nullPolicy{})
	gocql.VerifC10PolInit(e.pol, func() string { return ksName(e.sess) }, e.read)
	curPol = e
	return "ok"
}

var partFull = map[string]string{
	"m": "org.apache.cassandra.dht.Murmur3Partitioner",
	"r": "org.apache.cassandra.dht.RandomPartitioner",
	"o": "org.apache.cassandra.dht.ByteOrderedPartitioner",
	"k": "org.apache.cassandra.dht.LocalPartitioner",
	"e": "",
}

func canonEntry(s string) string { // "token:rest" with the token made canonical
	k := strings.Index(s, ":")
	return canonTok(s[:k]) + s[k:]
}

func (e *polEnv) dump() string {
	m := gocql.VerifC10PolDump(e.pol)
	var sb strings.Builder
	p := gocql.VerifC10PolPartitioner(e.pol)
	code := "?" + p
	for k, v := range partFull {
		if v == p {
			code = k
		}
	}
	sb.WriteString("part=" + code)
	hs := gocql.VerifC10PolHosts(e.pol)
	if len(hs) == 0 {
		sb.WriteString(" hosts=-")
	} else {
		sb.WriteString(" hosts=" + strings.Join(hs, ","))
	}
	switch {
	case !m.HasRing:
		sb.WriteString(" ring=nil")
	case len(m.Ring) == 0:
		sb.WriteString(" ring=empty")
	default:
		r := make([]string, len(m.Ring))
		for i, x := range m.Ring {
			r[i] = canonEntry(x)
		}
		sb.WriteString(" ring=" + strings.Join(r, ","))
	}
	known := map[string]bool{}
	for k := 0; k < nKs; k++ {
		known[ksName(k)] = true
		es, ok := m.Replicas[ksName(k)]
		switch {
		case !ok:
			fmt.Fprintf(&sb, " k%d=absent", k)
		case len(es) == 0:
			fmt.Fprintf(&sb, " k%d=empty", k)
		default:
			r := make([]string, len(es))
			for i, x := range es {
				r[i] = canonEntry(x)
			}
			fmt.Fprintf(&sb, " k%d=%s", k, strings.Join(r, ";"))
			e.hadEntry[k] = true
		}
	}
	for _, k := range m.Keys {
		if !known[k] {
			sb.WriteString(" extra=" + k)
		}
	}
	return sb.String()
}

// readKs: the policy read the keyspace's schema now (updateReplicas): bookkeeping for the classification
func (e *polEnv) readKs(k int) {
	e.fresh[k] = true
	sc := e.schema[k]
	e.held[k] = e.hasRing && (strings.HasPrefix(sc, "s:") || strings.HasPrefix(sc, "n:"))
}

// recomputed: the event rebuilt the ring and (updateAllReplicas) the entries of the session keyspace and of every
// keyspace the policy holds an entry for (bookkeeping for the classification)
func (e *polEnv) recomputed() {
	var ks []int
	for k, h := range e.held {
		if h && k != e.sess {
			ks = append(ks, k)
		}
	}
	e.readKs(e.sess)
	for _, k := range ks {
		e.readKs(k)
	}
	for k := 0; k < nKs; k++ {
		if e.hadEntry[k] && e.schema[k] == "e" {
			e.unreadRingEv++
			break
		}
	}
}

// settled: the hypothesis of C10_pick_spec (PlacementPol.settled), from the history alone
func (e *polEnv) settled(k int) bool {
	if !e.fresh[k] {
		return false
	}
	sc := e.schema[k]
	return e.held[k] || k == e.sess || !e.hasRing || !(strings.HasPrefix(sc, "s:") || strings.HasPrefix(sc, "n:"))
}

func (e *polEnv) uniAt(s string) *polHost {
	var i int
	if _, err := fmt.Sscan(s, &i); err != nil || i < 0 || i >= len(e.uni) {
		return nil
	}
	return &e.uni[i]
}

// prep resolves one policy event into the call into the REAL policy and the harness's bookkeeping of it (the
// bookkeeping classifies later queries; it is applied after the call, in the serial order of the calls)
func (e *polEnv) prep(w []string) (call func(), book func(), ok bool) {
	if len(w) < 2 {
		return nil, nil, false
	}
	switch w[0] {
	case "add":
		h := e.uniAt(w[1])
		if h == nil {
			return nil, nil, false
		}
		return func() { e.pol.AddHost(h.obj) }, func() {
			if !e.addrs[h.addr] {
				e.addrs[h.addr] = true
				e.recomputed()
			}
		}, true
	case "addmany":
		var hs []*gocql.HostInfo
		var objs []*polHost
		if w[1] != "-" {
			for _, s := range strings.Split(w[1], ",") {
				h := e.uniAt(s)
				if h == nil {
					return nil, nil, false
				}
				hs = append(hs, h.obj)
				objs = append(objs, h)
			}
		}
		return func() { e.pol.(interface{ AddHosts([]*gocql.HostInfo) }).AddHosts(hs) }, func() {
			for _, h := range objs {
				e.addrs[h.addr] = true
			}
			e.recomputed()
		}, true
	case "rem":
		h := e.uniAt(w[1])
		if h == nil {
			return nil, nil, false
		}
		return func() { e.pol.RemoveHost(h.obj) }, func() {
			if e.addrs[h.addr] {
				delete(e.addrs, h.addr)
				e.recomputed()
			}
		}, true
	case "up":
		h := e.uniAt(w[1])
		if h == nil {
			return nil, nil, false
		}
		return func() { e.pol.HostUp(h.obj) }, func() {}, true
	case "down":
		h := e.uniAt(w[1])
		if h == nil {
			return nil, nil, false
		}
		return func() { e.pol.HostDown(h.obj) }, func() {}, true
	case "part":
		full, okp := partFull[w[1]]
		if !okp {
			return nil, nil, false
		}
		return func() { e.pol.SetPartitioner(full) }, func() {
			if w[1] != e.part {
				e.part = w[1]
				if w[1] == "k" || w[1] == "e" {
					e.partBad = true
				} else {
					e.hasRing = true
				}
				e.recomputed()
			}
		}, true
	case "kc":
		var k int
		if _, err := fmt.Sscan(w[1], &k); err != nil {
			return nil, nil, false
		}
		return func() { e.pol.KeyspaceChanged(gocql.KeyspaceUpdateEvent{Keyspace: ksName(k), Change: "UPDATED"}) },
			func() { e.readKs(k) }, true
	}
	return nil, nil, false
}

func polEvent(w []string) (res string) {
	e := curPol
	if e == nil {
		return "bad-op"
	}
	if e.dead {
		return "dead"
	}
	defer func() {
		if r := recover(); r != nil {
			e.dead = true
			res = crashClass(r)
		}
	}()
	if len(w) < 3 {
		return "bad-op"
	}
	call, book, ok := e.prep(w[1:])
	if !ok {
		return "bad-op"
	}
	call()
	book()
	return e.dump()
}

// readGate parks the first getKeyspaceMetadata call made while it is armed
type readGate struct {
	armed   int32
	parked  chan struct{}
	release chan struct{}
}

// polConc: a CONDUCTED SCHEDULE of two mutators of the real policy. The harness owns getKeyspaceMetadata: mutator A is
// started on its own goroutine and parked inside that callback (if it makes the call at all); mutator B is then run on a
// second goroutine until it completes or blocks (on the unchanged code every mutator but HostUp / HostDown blocks on the
// policy mutex A holds - a legal outcome, detected by a short settle, never by timing a result: the answer does not
// contain who waited); A is released, both are awaited. The answer is the metadata dump after both: for atomic
// (linearizable) mutators it must be the dump of a serial order of the two calls (C10_mutators_linearizable) - with A
// parked before B starts that is the order A, B.
func polConc(w []string) (res string) {
	e := curPol
	if e == nil {
		return "bad-op"
	}
	if e.dead {
		return "dead"
	}
	sep := -1
	for i, x := range w {
		if x == "/" {
			sep = i
		}
	}
	if sep < 2 || sep+1 >= len(w) {
		return "bad-op"
	}
	callA, bookA, okA := e.prep(w[1:sep])
	callB, bookB, okB := e.prep(w[sep+1:])
	if !okA || !okB {
		return "bad-op"
	}
	g := &readGate{armed: 1, parked: make(chan struct{}), release: make(chan struct{})}
	e.gate = g
	defer func() { e.gate = nil }()
	crash := make(chan string, 2)
	run := func(f func(), done chan struct{}) {
		defer close(done)
		defer func() {
			if r := recover(); r != nil {
				crash <- crashClass(r)
			}
		}()
		f()
	}
	doneA, doneB := make(chan struct{}), make(chan struct{})
	go run(callA, doneA)
	select {
	case <-g.parked:
	case <-doneA:
	}
	go run(callB, doneB)
	select {
	case <-doneB:
	case <-time.After(polSettle):
	}
	atomic.StoreInt32(&g.armed, 0)
	close(g.release)
	for _, d := range []chan struct{}{doneA, doneB} {
		select {
		case <-d:
		case <-time.After(10 * time.Second):
			e.dead = true
			return "hang"
		}
	}
	select {
	case c := <-crash:
		e.dead = true
		return c
	default:
	}
	bookA()
	bookB()
	return e.dump()
}

const polSettle = 15 * time.Millisecond

func polSchema(w []string) string {
	e := curPol
	if e == nil || len(w) != 3 {
		return "bad-op"
	}
	var k int
	if _, err := fmt.Sscan(w[1], &k); err != nil {
		return "bad-op"
	}
	e.schema[k] = w[2]
	delete(e.fresh, k)
	e.why[k] = "schema"
	return "ok"
}

// polSettled: the harness's spec-backed classification of ks0..ks3, tied to the hypothesis of C10_pick_spec as the
// Lean model evaluates it (op psettled)
func polSettled() string {
	e := curPol
	if e == nil {
		return "bad-op"
	}
	var s []string
	for k := 0; k < nKs; k++ {
		if e.settled(k) {
			s = append(s, fmt.Sprint(k))
		}
	}
	if len(s) == 0 {
		return "-"
	}
	return strings.Join(s, ",")
}

// polFresh: the harness's bookkeeping of the schema reads, tied to the ghost field of the Lean model (op pfresh)
func polFresh() string {
	e := curPol
	if e == nil {
		return "bad-op"
	}
	var l []int
	for k := range e.fresh {
		l = append(l, k)
	}
	sort.Ints(l)
	s := make([]string, len(l))
	for i, k := range l {
		s[i] = fmt.Sprint(k)
	}
	if len(s) == 0 {
		return "-"
	}
	return strings.Join(s, ",")
}

func polQuery(w []string) (res string) {
	e := curPol
	if e == nil || len(w) < 2 {
		return "bad-op"
	}
	if e.dead {
		return "dead"
	}
	defer func() {
		if r := recover(); r != nil {
			res = "crash:other:" + strings.ReplaceAll(fmt.Sprint(r), " ", "_")
		}
	}()
	var k int
	if _, err := fmt.Sscan(w[1], &k); err != nil {
		return "bad-op"
	}
	parts := make([]string, 0, len(w)-2)
	// the one panic the code could raise here before the repair of KF-C10-4: a replica map computed under another
	// partitioner is searched with a token of the ring's partitioner and token.Less's type assertion fails
	typePanic := func(f func()) (p bool) {
		defer func() {
			if r := recover(); r != nil {
				if strings.HasPrefix(fmt.Sprint(r), "interface conversion: gocql.token is ") {
					p = true
					return
				}
				panic(r)
			}
		}()
		f()
		return false
	}
	switch w[0] {
	case "prepl", "xprepl":
		for _, t := range w[2:] {
			var hs []string
			var src string
			if typePanic(func() { hs, src = gocql.VerifC10PolLookup(e.pol, ksName(k), tok6(t)) }) {
				parts = append(parts, "panic:token-type")
				continue
			}
			switch {
			case src == "noring":
				parts = append(parts, "noring")
			case w[0] == "prepl":
				parts = append(parts, ids(hs))
			default:
				parts = append(parts, src[:1]+ids(hs))
			}
		}
	case "ppick", "spick":
		if e.part != "o" {
			return "n/a"
		}
		for _, t := range w[2:] {
			var hs []string
			if typePanic(func() {
				next := e.pol.Pick(gocql.VerifC10Query(ksName(k), []byte(tok6(t))))
				for i := 0; i < 64; i++ {
					h := next()
					if h == nil {
						break
					}
					hs = append(hs, h.Info().HostID())
				}
			}) {
				parts = append(parts, "panic:token-type")
				continue
			}
			parts = append(parts, ids(hs))
		}
	}
	return strings.Join(parts, " ")
}

// ---- generation

var schemaChoices = []string{"e", "e", "u", "s:1", "s:2", "s:2", "s:3", "s:0", "s:5", "n:1=1", "n:1=2", "n:1=2,2=1", "n:1=1,2=2", "n:2=1", "n:1=3,3=1", "n:1=0,2=2", "n:-", "n:4=1"}

type polGen struct {
	ru   *run
	r    *vh.Rng
	ops  []string
	e    *polEnv // mirrors curPol after the ops were executed
	toks []int   // all token values of the universe, sorted
}

func (g *polGen) do(op, class string) string {
	a := g.ru.emit(op, class, true)
	return a
}

// queries after an event: for some keyspaces, lookups at ring tokens, neighbours and the ends
func (g *polGen) queries(all bool) {
	e := curPol
	if e.dead {
		return
	}
	r := g.r
	var tl []string
	seen := map[int]bool{}
	add := func(t int) {
		if t >= 0 && t <= 999999 && !seen[t] {
			seen[t] = true
			tl = append(tl, fmt.Sprint(t))
		}
	}
	add(0)
	add(999)
	n := len(g.toks)
	for i := 0; i < 6 && n > 0; i++ {
		t := g.toks[r.Intn(n)]
		add(t + r.Intn(3) - 1)
	}
	if all {
		for _, t := range g.toks {
			add(t)
			add(t + 1)
		}
	}
	ts := strings.Join(tl, " ")
	g.do("pfresh", "pfresh")
	if !e.partBad {
		g.do("psettled", "psettled")
	}
	for k := 0; k < nKs; k++ {
		if !all && r.Intn(3) == 0 {
			continue
		}
		who := "other-ks"
		if k == e.sess {
			who = "session-ks"
		}
		st := "absent"
		if e.hadEntryNow(k) {
			st = "entry"
		}
		switch {
		case e.partBad:
			g.do(fmt.Sprintf("xprepl %d %s", k, ts), "xprepl/x-part-unsupported/"+who)
		case e.settled(k):
			sc := e.schema[k]
			if sc == "" {
				sc = "e"
			}
			g.do(fmt.Sprintf("prepl %d %s", k, ts), "prepl(spec)/"+who+"/"+st+"/schema-"+sc[:1])
			if r.Intn(3) == 0 {
				g.do(fmt.Sprintf("xprepl %d %s", k, ts), "xprepl/settled/"+who)
			}
		case e.fresh[k]:
			// its KeyspaceChanged was processed while the policy had no ring: no entry until the next KeyspaceChanged
			g.do(fmt.Sprintf("xprepl %d %s", k, ts), "xprepl/x-otherks-read-before-ring/"+st)
		case e.why[k] == "schema":
			g.do(fmt.Sprintf("xprepl %d %s", k, ts), "xprepl/x-schema-changed-unnotified/"+who+"/"+st)
		default:
			g.do(fmt.Sprintf("xprepl %d %s", k, ts), "xprepl/never-read/"+who+"/"+st)
		}
		if e.part == "o" && r.Intn(2) == 0 {
			// the REAL Pick (ordered partitioner: routing key = token): spec-backed under the same condition as prepl
			if e.settled(k) && !e.partBad {
				g.do(fmt.Sprintf("spick %d %s", k, ts), "spick(spec)/"+who+"/"+st)
			} else {
				g.do(fmt.Sprintf("ppick %d %s", k, ts), "ppick/not-settled")
			}
		}
	}
}

func (e *polEnv) hadEntryNow(k int) bool {
	m := gocql.VerifC10PolDump(e.pol)
	_, ok := m.Replicas[ksName(k)]
	return ok
}

func (ru *run) polScenario(long bool) {
	r := ru.r
	g := &polGen{ru: ru, r: r}
	// universe of host objects
	n := 2 + r.Intn(6)
	nDC := 1 + r.Intn(2)
	if r.Intn(4) == 0 {
		nDC = 3
	}
	dense := r.Intn(3) == 0
	used := map[int]bool{}
	sess := 0
	switch r.Intn(8) {
	case 0:
		sess = 9
	case 1:
		sess = 1
	}
	var sb strings.Builder
	fmt.Fprintf(&sb, "resetpol %d", sess)
	for i := 0; i < n; i++ {
		addr := i + 1
		if i > 0 && r.Intn(8) == 0 {
			addr = 1 + r.Intn(i) // a second host object on an address already used (replaced node)
		}
		nt := 1 + r.Intn(3)
		if r.Intn(3) == 0 {
			nt = 1
		}
		if r.Intn(12) == 0 {
			nt = 0
		}
		var ts []string
		for k := 0; k < nt; k++ {
			for try := 0; try < 20; try++ {
				t := r.Intn(1000)
				if dense {
					t = r.Intn(30)
				}
				if !used[t] {
					used[t] = true
					g.toks = append(g.toks, t)
					ts = append(ts, fmt.Sprint(t))
					break
				}
			}
		}
		t := "-"
		if len(ts) > 0 {
			t = strings.Join(ts, ",")
		}
		fmt.Fprintf(&sb, " %d/%d/%d/%d/%s", i+1, addr, 1+r.Intn(nDC), 1+r.Intn(2), t)
	}
	sort.Ints(g.toks)
	g.do(sb.String(), "resetpol")
	e := curPol
	supported := []string{"m", "r", "o"}
	mainPart := supported[r.Intn(3)]
	if r.Intn(3) == 0 {
		mainPart = "o"
	}
	ev := func(s string) {
		kind := strings.Fields(s)[0]
		a := g.do("pev "+s, "pev/"+kind)
		if strings.HasPrefix(a, "crash:") {
			return
		}
	}
	sch := func(k int, v string) { g.do(fmt.Sprintf("psch %d %s", k, v), "psch/"+v[:1]) }
	// a start that resembles a session: schema readable, partitioner, hosts, KeyspaceChanged — in a random order, parts optional
	start := []func(){
		func() { ev("part " + mainPart) },
		func() {
			var l []string
			for i := 0; i < n; i++ {
				if r.Intn(3) != 0 {
					l = append(l, fmt.Sprint(i))
				}
			}
			if len(l) == 0 {
				l = []string{"0"}
			}
			if r.Bool() {
				ev("addmany " + strings.Join(l, ","))
			} else {
				for _, i := range l {
					ev("add " + i)
				}
			}
		},
		func() {
			for k := 0; k < nKs; k++ {
				if r.Intn(4) != 0 {
					sch(k, schemaChoices[2+r.Intn(len(schemaChoices)-2)])
				}
			}
		},
		func() {
			for k := 0; k < nKs; k++ {
				if r.Intn(3) != 0 {
					ev(fmt.Sprintf("kc %d", k))
				}
			}
		},
	}
	for i := len(start) - 1; i > 0; i-- {
		j := r.Intn(i + 1)
		start[i], start[j] = start[j], start[i]
	}
	for _, f := range start {
		if r.Intn(10) != 0 {
			f()
		}
		if e.dead {
			return
		}
	}
	g.queries(true)
	steps := 6 + r.Intn(10)
	if long {
		steps = 20 + r.Intn(30)
	}
	mut := func(ringish bool) string {
		switch x := r.Intn(10); {
		case x < 3:
			return fmt.Sprintf("add %d", r.Intn(n))
		case x < 6:
			return fmt.Sprintf("rem %d", r.Intn(n))
		case x < 7:
			return "part " + supported[r.Intn(3)]
		case x < 8 && !ringish:
			return fmt.Sprintf("%s %d", []string{"up", "down"}[r.Intn(2)], r.Intn(n))
		case x < 9:
			return fmt.Sprintf("addmany %d,%d", r.Intn(n), r.Intn(n))
		}
		return fmt.Sprintf("kc %d", r.Intn(nKs))
	}
	for s := 0; s < steps && !e.dead; s++ {
		if r.Intn(25) == 0 {
			// a conducted schedule of two mutators: A parked inside its getKeyspaceMetadata call while B runs
			a := fmt.Sprintf("kc %d", r.Intn(nKs))
			if r.Intn(3) == 0 {
				a = mut(true)
			}
			b := mut(false)
			ka, kb := strings.Fields(a)[0], strings.Fields(b)[0]
			g.do("pconc "+a+" / "+b, "pconc(spec)/"+ka+"-in-flight/"+kb)
			ru.nConc++
			if !e.dead {
				g.queries(true)
			}
			continue
		}
		x := r.Intn(100)
		switch {
		case x < 22:
			ev(fmt.Sprintf("add %d", r.Intn(n)))
		case x < 40:
			ev(fmt.Sprintf("rem %d", r.Intn(n)))
		case x < 44:
			var l []string
			for i := 0; i < n; i++ {
				if r.Intn(3) == 0 {
					l = append(l, fmt.Sprint(i))
				}
			}
			if len(l) == 0 {
				ev("addmany -")
			} else {
				ev("addmany " + strings.Join(l, ","))
			}
		case x < 48:
			ev(fmt.Sprintf("%s %d", []string{"up", "down"}[r.Intn(2)], r.Intn(n)))
		case x < 54:
			p := mainPart
			switch r.Intn(6) {
			case 0:
				p = supported[r.Intn(3)]
			case 1:
				if r.Intn(3) == 0 {
					p = []string{"k", "e"}[r.Intn(2)]
				}
			}
			ev("part " + p)
		case x < 68:
			ev(fmt.Sprintf("kc %d", r.Intn(nKs)))
		case x < 80:
			// the schema becomes unreadable (control connection trouble, keyspace dropped) without any notification
			sch(r.Intn(nKs), "e")
			continue
		case x < 90:
			// altered / created / readable again, without notification yet
			sch(r.Intn(nKs), schemaChoices[r.Intn(len(schemaChoices))])
			continue
		default:
			// altered and notified (what handleSchemaEvent does)
			k := r.Intn(nKs)
			sch(k, schemaChoices[r.Intn(len(schemaChoices))])
			ev(fmt.Sprintf("kc %d", k))
		}
		if !e.dead {
			g.queries(r.Intn(4) == 0)
		}
	}
	ru.polUnreadRing += e.unreadRingEv
	ru.nPol++
}

// fixed histories: the seeded family (schema unreadable, then the ring changes) and the input of KF-C10-4 (repaired)
func (ru *run) polFixed() {
	seq := func(ops ...string) {
		for _, op := range ops {
			w := strings.Fields(op)
			ru.emit(op, "fixed/"+w[0], true)
		}
	}
	// session keyspace ks0, SimpleStrategy rf 2: a=10, b=30, then c=20 joins and b leaves while the schema is unreadable
	seq("resetpol 0 1/1/1/1/10 2/2/1/1/30 3/3/1/1/20",
		"psch 0 s:2", "pev add 0", "pev add 1", "pev part o", "pev kc 0",
		"pfresh", "prepl 0 5 15 25 35", "spick 0 5 15 25 35",
		"psch 0 e", "pev add 2", "pfresh", "prepl 0 5 15 25 35", "spick 0 5 15 25 35",
		"pev rem 1", "prepl 0 5 15 25 35", "spick 0 5 15 25 35",
		"psch 0 s:2", "pev kc 0", "prepl 0 5 15 25 35", "xprepl 0 5 15 25 35")
	// the same with a partitioner change and a dropped keyspace notified by KeyspaceChanged
	seq("resetpol 0 1/1/1/1/10 2/2/2/1/30 3/3/1/2/20",
		"psch 0 n:1=2,2=1", "pev part m", "pev addmany 0,1", "pev kc 0", "prepl 0 5 15 25 35",
		"psch 0 e", "pev kc 0", "prepl 0 5 15 25 35", "pev add 2", "prepl 0 5 15 25 35",
		"pev part r", "prepl 0 5 15 25 35", "psch 0 n:1=1", "pev rem 0", "prepl 0 5 15 25 35")
	// KF-C10-4 (repaired): keyspace ks1 is not the session keyspace: its entry has to follow the ring changes and the
	// partitioner change; an unreadable schema at a ring change drops it
	seq("resetpol 0 1/1/1/1/10 2/2/1/1/30 3/3/1/1/20",
		"psch 1 s:2", "pev part o", "pev add 0", "pev add 1", "pev kc 1", "prepl 1 15 25",
		"pev add 2", "pev rem 1", "pfresh", "psettled", "prepl 1 15 25", "spick 1 15 25",
		"pev part m", "prepl 1 15 25", "pev part o", "psch 1 e", "pev add 1", "psettled", "prepl 1 15 25", "spick 1 15 25",
		"psch 1 s:2", "pev rem 0", "pfresh", "psettled", "xprepl 1 15 25", "pev kc 1", "prepl 1 15 25")
	// conducted schedules: a KeyspaceChanged whose schema read is in flight while a node joins / leaves / the
	// partitioner is set; a node joining while another topology event is in flight
	seq("resetpol 0 1/1/1/1/10 2/2/1/1/20 3/3/1/1/30 4/4/1/1/40",
		"psch 0 s:2", "pev part o", "pev add 0", "pev add 1", "pev add 2", "pev kc 0", "prepl 0 5 15 25 35 40 45",
		"pconc kc 0 / add 3", "psettled", "prepl 0 5 15 25 35 40 45", "spick 0 5 15 25 35 40 45",
		"pconc kc 0 / rem 1", "prepl 0 5 15 25 35 40 45", "spick 0 5 15 25 35 40 45",
		"pconc kc 0 / part m", "prepl 0 5 15 25 35 40 45",
		"pconc add 1 / kc 0", "prepl 0 5 15 25 35 40 45", "pconc rem 0 / add 0", "prepl 0 5 15 25 35 40 45",
		"psch 1 n:1=2", "pconc kc 1 / kc 0", "psettled", "prepl 1 5 15 25 35 40 45", "pconc kc 1 / up 0", "pconc up 0 / rem 3")
	// KeyspaceChanged(ks1) before the policy has a ring: no entry, and none after the ring events (model-vs-code)
	seq("resetpol 0 1/1/1/1/10 2/2/1/1/30",
		"psch 1 s:2", "pev kc 1", "pev part o", "pev add 0", "pev add 1", "pfresh", "psettled", "xprepl 1 15 25",
		"pev kc 1", "psettled", "prepl 1 15 25")
}
