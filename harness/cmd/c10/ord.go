package main

// The ordered partitioner with ring tokens as Cassandra REPORTS them (ByteOrderedPartitioner: the lowercase hexadecimal
// rendering of the token's bytes) and lookups for raw partition keys (Hash(key) = the key) - KF-C10-5.

import (
	"bytes"
	"encoding/hex"
	"fmt"
	"sort"
	"strings"

	"github.com/gocql/gocql"
	"verifharness/vh"
)

var ordTokens [][]byte // tokens (bytes) of the cluster of the last resetord

func ordReset(w []string) string {
	hs := make([]gocql.VerifC10Host, 0, len(w)-1)
	ordTokens = nil
	for _, s := range w[1:] {
		f := strings.Split(s, "/")
		var id int
		fmt.Sscan(f[0], &id)
		h := gocql.VerifC10Host{ID: id, DC: "dc" + f[1], Rack: "r" + f[2]}
		if f[3] != "-" {
			for _, t := range strings.Split(f[3], ",") {
				h.Tokens = append(h.Tokens, t) // the text Cassandra reports, as it arrives in system.local / system.peers
				b, _ := hex.DecodeString(t)
				ordTokens = append(ordTokens, b)
			}
		}
		hs = append(hs, h)
	}
	c, err := gocql.VerifC10NewCluster(partName["o"], hs)
	if err != nil {
		curCluster = nil
		return "err"
	}
	curCluster = c
	curPart = "o"
	ring := c.Ring()
	if len(ring) == 0 {
		return "empty"
	}
	return strings.Join(ring, " ")
}

func unhexKey(s string) []byte {
	if s == "-" {
		return nil
	}
	b, _ := hex.DecodeString(s)
	return b
}

// ordKeys: GetHostForToken for the token of each partition key. For the ordered partitioner Hash(key) =
// orderedToken(key) and ParseString(str) = orderedToken(str): HostForToken(string(key)) looks up exactly Hash(key).
func ordKeys(w []string) string {
	parts := make([]string, len(w)-1)
	for i, k := range w[1:] {
		h, end := curCluster.HostForToken(string(unhexKey(k)))
		if h == "" {
			parts[i] = "nil"
		} else {
			if end == "" {
				end = "-"
			}
			parts[i] = h + "@" + end
		}
	}
	return strings.Join(parts, " ")
}

// ordAgree is the hypothesis of C10_ordered_lookup_partial: comparing the key with the reported text of every ring
// token gives the same answer as comparing it with the token.
func ordAgree(toks [][]byte, key []byte) bool {
	for _, b := range toks {
		text := []byte(hex.EncodeToString(b))
		if (bytes.Compare(text, key) < 0) != (bytes.Compare(b, key) < 0) {
			return false
		}
	}
	return true
}

// ordAgreeOp answers the harness's classification predicate per key (compared with the model's evaluation of the
// theorem's hypothesis)
func ordAgreeOp(w []string) string {
	parts := make([]string, len(w)-1)
	for i, k := range w[1:] {
		parts[i] = "0"
		if ordAgree(ordTokens, unhexKey(k)) {
			parts[i] = "1"
		}
	}
	return strings.Join(parts, " ")
}

func keyClass(key []byte) string {
	switch {
	case len(key) == 0:
		return "empty"
	case key[0] < 0x30:
		return "first<'0'"
	case key[0] <= 0x39:
		return "first-digit"
	case key[0] < 0x61:
		return "first-between"
	case key[0] <= 0x66:
		return "first-a-f"
	}
	return "first>'f'"
}

func (ru *run) ordCluster(hosts []string, toks [][]byte, keys [][]byte) {
	ru.nClust++
	ru.emit("resetord "+strings.Join(hosts, " "), "resetord", true)
	var agree, differ, all []string
	for _, k := range keys {
		if len(k) > 0 {
			all = append(all, hex.EncodeToString(k))
		} else {
			all = append(all, "-")
		}
	}
	if len(all) > 0 {
		ru.emit("oagree "+strings.Join(all, " "), "oagree", true)
	}
	for _, k := range keys {
		ks := "-"
		if len(k) > 0 {
			ks = hex.EncodeToString(k)
		}
		if ordAgree(toks, k) {
			agree = append(agree, ks)
			ru.out.Dist["okey-key/"+keyClass(k)]++
		} else {
			differ = append(differ, ks)
			ru.out.Dist["xokey-key/"+keyClass(k)]++
		}
	}
	if len(agree) > 0 {
		ru.emit("okey "+strings.Join(agree, " "), "okey(spec)", true)
	}
	if len(differ) > 0 {
		ru.emit("xokey "+strings.Join(differ, " "), "xokey/x-key-compared-with-token-text(KF-C10-5)", true)
	}
}

func (ru *run) ordScenario() {
	r := ru.r
	n := 1 + r.Intn(8)
	maxV := 1 + r.Intn(3)
	// byte alphabet of the tokens: whole range, or inside / outside the range of hexadecimal text
	mode := r.Intn(4)
	rb := func() byte {
		switch mode {
		case 0:
			return byte(0x30 + r.Intn(0x37))
		case 1:
			return byte(r.Intn(0x30))
		case 2:
			return byte(0x67 + r.Intn(0x100-0x67))
		}
		return byte(r.Intn(256))
	}
	used := map[string]bool{}
	var toks [][]byte
	var hosts []string
	for i := 0; i < n; i++ {
		v := 1 + r.Intn(maxV)
		var ts []string
		for k := 0; k < v; k++ {
			for try := 0; try < 20; try++ {
				b := make([]byte, 1+r.Intn(3))
				for j := range b {
					b[j] = rb()
				}
				if !used[string(b)] {
					used[string(b)] = true
					toks = append(toks, b)
					ts = append(ts, hex.EncodeToString(b))
					break
				}
			}
		}
		t := "-"
		if len(ts) > 0 {
			t = strings.Join(ts, ",")
		}
		hosts = append(hosts, fmt.Sprintf("%d/%d/%d/%s", i+1, 1+r.Intn(2), 1+r.Intn(2), t))
	}
	sorted := append([][]byte(nil), toks...)
	sort.Slice(sorted, func(i, j int) bool { return bytes.Compare(sorted[i], sorted[j]) < 0 })
	var keys [][]byte
	seen := map[string]bool{}
	add := func(k []byte) {
		if !seen[string(k)] && len(keys) < 40 {
			seen[string(k)] = true
			keys = append(keys, k)
		}
	}
	add(nil)
	for _, t := range sorted {
		add(t)                                     // equal to a ring token
		add(append(append([]byte(nil), t...), 0)) // just above it
		if len(t) > 0 {
			p := append([]byte(nil), t...)
			if p[len(p)-1] > 0 {
				p[len(p)-1]--
				add(append(p, 0xff)) // just below it
			}
			add(t[:len(t)-1])                  // a prefix
			add([]byte(hex.EncodeToString(t))) // the token's text used as key (the convention of the repository's tests)
		}
	}
	add([]byte{0})
	add([]byte{0xff, 0xff, 0xff, 0xff})
	for i := 0; i < 8; i++ {
		k := make([]byte, 1+r.Intn(3))
		for j := range k {
			k[j] = byte(r.Intn(256))
		}
		add(k)
	}
	ru.ordCluster(hosts, toks, keys)
}

// fixed: the input of KF-C10-5 and a ring on which every comparison agrees
func (ru *run) ordFixed() {
	ru.ordCluster([]string{"1/1/1/40", "2/1/1/80"}, [][]byte{{0x40}, {0x80}},
		[][]byte{{0x50}, {0x40}, {0x41}, {0x80}, {0x81}, {0x20}, {0xf0}, nil})
	ru.ordCluster([]string{"2/1/1/5050", "1/1/1/4040,6060"}, [][]byte{{0x50, 0x50}, {0x40, 0x40}, {0x60, 0x60}},
		[][]byte{{0x10}, {0x2f, 0xff}, {0x70}, {0xff}, nil})
}

var _ = vh.Hex
