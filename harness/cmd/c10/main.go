// Harness for C10 (replica placement): generates clusters (nodes, vnodes, datacenters, racks),
// keyspace replication settings and lookup tokens, runs the REAL gocql code (newTokenRing,
// GetHostForToken, getStrategy, simpleStrategy/networkTopology.replicaMap, replicasFor) and
// writes op lines + canonical answers for comparison with the Lean model / specification.
package main

import (
	"fmt"
	"math/big"
	"sort"
	"strings"

	"github.com/gocql/gocql"
	"verifharness/vh"
)

// ---- state of a replayed op sequence (since the last `reset`)
var (
	curPart    string
	curCluster *gocql.VerifC10Cluster
)

var partName = map[string]string{
	"m": "org.apache.cassandra.dht.Murmur3Partitioner",
	"r": "org.apache.cassandra.dht.RandomPartitioner",
	"o": "org.apache.cassandra.dht.ByteOrderedPartitioner",
}

// tokStr renders the integer token the way the partitioner's ParseString wants it; for the
// ordered partitioner a fixed-width decimal string (byte order = numeric order).
func tokStr(part, dec string) string {
	if part == "o" {
		if len(dec) > 40 || strings.HasPrefix(dec, "-") {
			panic("bad ordered token")
		}
		return strings.Repeat("0", 40-len(dec)) + dec
	}
	return dec
}

func canonTok(s string) string {
	b, ok := new(big.Int).SetString(s, 10)
	if !ok {
		return "?" + s
	}
	return b.String()
}

func crashClass(r interface{}) string {
	m := fmt.Sprint(r)
	switch {
	case strings.HasPrefix(m, "replica overflow"):
		return "crash:overflow"
	case strings.HasPrefix(m, "no replicas for token"):
		return "crash:no-replicas"
	case strings.HasPrefix(m, "first replica is not the primary"):
		return "crash:not-primary"
	case strings.HasPrefix(m, "token map different size"):
		return "crash:size-mismatch"
	}
	return "crash:other:" + strings.ReplaceAll(m, " ", "_")
}

func ids(l []string) string { return "[" + strings.Join(l, ",") + "]" }

const simpleClass = "org.apache.cassandra.locator.SimpleStrategy"
const ntsClass = "org.apache.cassandra.locator.NetworkTopologyStrategy"

// option values alternate between int and string form, as both reach getStrategy in practice
func rfVal(n int, flip int) interface{} {
	if flip%2 == 0 {
		return n
	}
	return fmt.Sprint(n)
}

func ntsOpts(spec string) map[string]interface{} {
	opts := map[string]interface{}{"class": ntsClass}
	if spec == "-" {
		return opts
	}
	for i, kv := range strings.Split(spec, ",") {
		p := strings.SplitN(kv, "=", 2)
		var n int
		fmt.Sscan(p[1], &n)
		opts["dc"+p[0]] = rfVal(n, i)
	}
	return opts
}

func simpleOpts(rf string) map[string]interface{} {
	var n int
	fmt.Sscan(rf, &n)
	return map[string]interface{}{"class": simpleClass, "replication_factor": rfVal(n, n)}
}

func showMap(r *gocql.VerifC10Replicas) string {
	if r == nil {
		return "nil-strategy"
	}
	if r.Len() == 0 {
		return "empty"
	}
	parts := make([]string, r.Len())
	for i := range parts {
		t, hs := r.Entry(i)
		parts[i] = canonTok(t) + ":" + ids(hs)
	}
	return strings.Join(parts, ";")
}

func showFor(r *gocql.VerifC10Replicas, toks []string, nilAs string) string {
	if r == nil {
		return "nil-strategy"
	}
	parts := make([]string, len(toks))
	for i, t := range toks {
		hs, ok := r.ReplicasFor(tokStr(curPart, t))
		if !ok {
			parts[i] = nilAs
		} else {
			parts[i] = ids(hs)
		}
	}
	return strings.Join(parts, " ")
}

func exec(op string) (res string) {
	defer func() {
		if r := recover(); r != nil {
			res = crashClass(r)
		}
	}()
	w := strings.Fields(op)
	if len(w) == 0 {
		return "bad-op"
	}
	switch w[0] {
	case "reset":
		curPart = w[1]
		hs := make([]gocql.VerifC10Host, 0, len(w)-2)
		for _, s := range w[2:] {
			f := strings.Split(s, "/")
			var id int
			fmt.Sscan(f[0], &id)
			h := gocql.VerifC10Host{ID: id, DC: "dc" + f[1], Rack: "r" + f[2]}
			if f[3] != "-" {
				for _, t := range strings.Split(f[3], ",") {
					h.Tokens = append(h.Tokens, tokStr(curPart, t))
				}
			}
			hs = append(hs, h)
		}
		c, err := gocql.VerifC10NewCluster(partName[curPart], hs)
		if err != nil {
			curCluster = nil
			return "err"
		}
		curCluster = c
		ring := c.Ring()
		if len(ring) == 0 {
			return "empty"
		}
		for i, e := range ring {
			k := strings.LastIndex(e, ":")
			ring[i] = canonTok(e[:k]) + e[k:]
		}
		return strings.Join(ring, " ")
	case "host":
		parts := make([]string, len(w)-1)
		for i, t := range w[1:] {
			h, end := curCluster.HostForToken(tokStr(curPart, t))
			if h == "" {
				parts[i] = "nil"
			} else {
				parts[i] = h + "@" + canonTok(end)
			}
		}
		return strings.Join(parts, " ")
	case "simple":
		return showMap(curCluster.ReplicaMap(simpleClass, simpleOpts(w[1])))
	case "nts":
		return showMap(curCluster.ReplicaMap(ntsClass, ntsOpts(w[1])))
	case "simplefor":
		return showFor(curCluster.ReplicaMap(simpleClass, simpleOpts(w[1])), w[2:], "nil")
	case "ntsfor":
		return showFor(curCluster.ReplicaMap(ntsClass, ntsOpts(w[1])), w[2:], "nil")
	case "ssimple":
		return showFor(curCluster.ReplicaMap(simpleClass, simpleOpts(w[1])), w[2:], "[]")
	case "snts":
		return showFor(curCluster.ReplicaMap(ntsClass, ntsOpts(w[1])), w[2:], "[]")
	case "resetord":
		return ordReset(w)
	case "okey", "xokey":
		return ordKeys(w)
	case "oagree":
		return ordAgreeOp(w)
	case "resetpol":
		return polReset(w)
	case "pev":
		return polEvent(w)
	case "pconc":
		return polConc(w)
	case "psch":
		return polSchema(w)
	case "pfresh":
		return polFresh()
	case "psettled":
		return polSettled()
	case "prepl", "xprepl", "ppick", "spick":
		return polQuery(w)
	case "strategy", "sstrategy":
		cls, err := vh.UnHex(w[1])
		if err != nil {
			return "bad-op"
		}
		opts := map[string]interface{}{}
		for _, kv := range w[2:] {
			p := strings.SplitN(kv, "=", 2)
			k, _ := vh.UnHex(p[0])
			switch {
			case strings.HasPrefix(p[1], "i:"):
				var n int
				fmt.Sscan(p[1][2:], &n)
				opts[string(k)] = n
			case strings.HasPrefix(p[1], "s:"):
				v, _ := vh.UnHex(p[1][2:])
				opts[string(k)] = string(v)
			case p[1] == "x:f":
				opts[string(k)] = 3.0
			case p[1] == "x:i64":
				opts[string(k)] = int64(3)
			default:
				opts[string(k)] = nil
			}
		}
		return gocql.VerifC10Strategy(string(cls), opts)
	}
	return "bad-op"
}

// ---- generation

type node struct {
	id, dc, rack int
	toks         []*big.Int
}

type cluster struct {
	part    string
	nodes   []node
	vnodes  bool // some node owns more than one token
	tokless bool // some node owns no token
}

var (
	minI64 = new(big.Int).SetInt64(-1 << 63)
	maxI64 = new(big.Int).SetInt64(1<<63 - 1)
	zero   = big.NewInt(0)
	max127 = new(big.Int).Lsh(big.NewInt(1), 127)
)

func domain(part string) (lo, hi *big.Int) {
	if part == "m" {
		return minI64, maxI64
	}
	return zero, max127
}

func randTok(r *vh.Rng, part string, mode int) *big.Int {
	lo, hi := domain(part)
	switch mode {
	case 0: // dense small range: many adjacent tokens
		if part == "m" {
			return big.NewInt(int64(r.Intn(61)) - 30)
		}
		return big.NewInt(int64(r.Intn(61)))
	case 1: // extremes of the domain
		k := big.NewInt(int64(r.Intn(4)))
		if r.Bool() {
			return new(big.Int).Add(lo, k)
		}
		return new(big.Int).Sub(hi, k)
	default:
		if part == "m" {
			return big.NewInt(int64(r.U64()))
		}
		b := new(big.Int).SetBytes(r.Bytes(16))
		return b.Rsh(b, 1+uint(r.Intn(100)))
	}
}

func genCluster(r *vh.Rng, forceSingle bool) cluster {
	c := cluster{part: []string{"m", "m", "r", "o"}[r.Intn(4)]}
	n := 1 + r.Intn(12)
	maxV := 1 + r.Intn(8)
	if forceSingle || r.Intn(3) == 0 {
		maxV = 1
	}
	nDC := 1 + r.Intn(3)
	// uneven racks: per DC 1..3 racks, nodes pick a rack with a skew towards rack 1
	nRack := make([]int, nDC+1)
	for d := 1; d <= nDC; d++ {
		nRack[d] = 1 + r.Intn(3)
	}
	mode := r.Intn(4)
	used := map[string]bool{}
	toklessOK := r.Intn(8) == 0
	for i := 0; i < n; i++ {
		dc := 1 + r.Intn(nDC)
		if r.Intn(3) == 0 {
			dc = 1 // uneven DC sizes
		}
		rack := 1 + r.Intn(nRack[dc])
		if r.Intn(3) == 0 {
			rack = 1
		}
		nd := node{id: i + 1, dc: dc, rack: rack}
		v := 1 + r.Intn(maxV)
		if toklessOK && r.Intn(4) == 0 {
			v = 0
			c.tokless = true
		}
		for k := 0; k < v; k++ {
			for try := 0; try < 50; try++ {
				m := mode
				if mode == 3 || try >= 10 {
					m = r.Intn(3)
				}
				t := randTok(r, c.part, m)
				if !used[t.String()] {
					used[t.String()] = true
					nd.toks = append(nd.toks, t)
					break
				}
			}
		}
		if len(nd.toks) > 1 {
			c.vnodes = true
		}
		if len(nd.toks) == 0 {
			c.tokless = true
		}
		c.nodes = append(c.nodes, nd)
	}
	// host order is shuffled (order of tokenRing.hosts and of the appends before the sort)
	for i := len(c.nodes) - 1; i > 0; i-- {
		j := r.Intn(i + 1)
		c.nodes[i], c.nodes[j] = c.nodes[j], c.nodes[i]
	}
	return c
}

func (c cluster) resetOp() string {
	var sb strings.Builder
	sb.WriteString("reset " + c.part)
	for _, n := range c.nodes {
		ts := "-"
		if len(n.toks) > 0 {
			s := make([]string, len(n.toks))
			for i, t := range n.toks {
				s[i] = t.String()
			}
			ts = strings.Join(s, ",")
		}
		fmt.Fprintf(&sb, " %d/%d/%d/%s", n.id, n.dc, n.rack, ts)
	}
	return sb.String()
}

// lookups: every ring token, its neighbours, midpoints, below the smallest, above the largest, domain ends
func (c cluster) lookups(r *vh.Rng, limit int) (all []string, classes map[string]int) {
	lo, hi := domain(c.part)
	var ring []*big.Int
	for _, n := range c.nodes {
		ring = append(ring, n.toks...)
	}
	sort.Slice(ring, func(i, j int) bool { return ring[i].Cmp(ring[j]) < 0 })
	classes = map[string]int{}
	seen := map[string]bool{}
	isRing := map[string]bool{}
	for _, t := range ring {
		isRing[t.String()] = true
	}
	add := func(t *big.Int) {
		if t.Cmp(lo) < 0 || t.Cmp(hi) > 0 || seen[t.String()] {
			return
		}
		seen[t.String()] = true
		all = append(all, t.String())
		switch {
		case isRing[t.String()]:
			classes["equal"]++
		case len(ring) == 0:
			classes["empty-ring"]++
		case t.Cmp(ring[0]) < 0:
			classes["below-smallest"]++
		case t.Cmp(ring[len(ring)-1]) > 0:
			classes["above-largest"]++
		default:
			classes["between"]++
		}
	}
	for _, t := range ring {
		add(t)
	}
	one := big.NewInt(1)
	var extra []*big.Int
	for i, t := range ring {
		extra = append(extra, new(big.Int).Sub(t, one), new(big.Int).Add(t, one))
		if i+1 < len(ring) {
			m := new(big.Int).Add(t, ring[i+1])
			extra = append(extra, m.Rsh(m, 1))
		}
	}
	extra = append(extra, lo, hi, new(big.Int).Add(lo, one), new(big.Int).Sub(hi, one), randTok(r, c.part, 2), randTok(r, c.part, 0))
	// keep the op lines bounded: all ring tokens always, a sample of the rest on big rings
	for len(extra) > limit {
		k := r.Intn(len(extra))
		extra[k] = extra[len(extra)-1]
		extra = extra[:len(extra)-1]
	}
	for _, t := range extra {
		add(t)
	}
	return
}

func genRfs(r *vh.Rng, single bool) string {
	// datacenters 1..3 may be in the ring, 4 and 5 never are
	var items []string
	perm := []int{1, 2, 3, 4, 5}
	for i := len(perm) - 1; i > 0; i-- {
		j := r.Intn(i + 1)
		perm[i], perm[j] = perm[j], perm[i]
	}
	k := r.Intn(5)
	if r.Intn(30) == 0 {
		k = 0
	}
	for _, dc := range perm[:k] {
		if dc >= 4 && r.Intn(3) != 0 {
			continue
		}
		rf := r.Intn(6)
		if r.Intn(4) == 0 {
			rf = 1 + r.Intn(3)
		}
		items = append(items, fmt.Sprintf("%d=%d", dc, rf))
	}
	if len(items) == 0 {
		if single || r.Bool() {
			return fmt.Sprintf("1=%d", r.Intn(4))
		}
		return "-"
	}
	return strings.Join(items, ",")
}

type run struct {
	out    *vh.Out
	r      *vh.Rng
	lookup map[string]int
	nClust int
	// policy scenario
	nPol          int
	nConc         int
	polUnreadRing int
}

func classifyMap(ans string) string {
	switch {
	case strings.HasPrefix(ans, "crash:"):
		return ans
	case ans == "empty":
		return "empty-map"
	}
	for _, e := range strings.Split(ans, ";") {
		k := strings.Index(e, ":[")
		if k < 0 {
			continue
		}
		hs := strings.Split(strings.Trim(e[k+1:], "[]"), ",")
		s := map[string]bool{}
		for _, h := range hs {
			if s[h] {
				return "node-twice"
			}
			s[h] = true
		}
	}
	return "ok"
}

func (ru *run) emit(op, class string, nontrivial bool) string {
	a := exec(op)
	ru.out.Case(op, a, class, nontrivial)
	return a
}

func (ru *run) cluster(c cluster, rfsList []string, simpleRfs []int, lookLimit int) {
	ru.nClust++
	shape := "single-token"
	if c.vnodes {
		shape = "vnodes"
	}
	if c.tokless {
		shape += "+tokenless-host"
	}
	ru.emit(c.resetOp(), "reset/"+c.part+"/"+shape, true)
	toks, cl := c.lookups(ru.r, lookLimit)
	for k, v := range cl {
		ru.lookup[k] += v
	}
	tl := strings.Join(toks, " ")
	ru.emit("host "+tl, "host", len(toks) > 0)
	for _, rf := range simpleRfs {
		ru.emit(fmt.Sprintf("simple %d", rf), fmt.Sprintf("simple/rf%d", min(rf, 6)), true)
		ru.emit(fmt.Sprintf("simplefor %d %s", rf, tl), "simplefor", true)
		ru.emit(fmt.Sprintf("ssimple %d %s", rf, tl), "ssimple(spec)", true)
	}
	for _, rfs := range rfsList {
		a := ru.emit("nts "+rfs, "", true)
		k := classifyMap(a)
		ru.out.Dist["nts/"+shape+"/"+k]++
		delete(ru.out.Dist, "")
		ru.emit("ntsfor "+rfs+" "+tl, "ntsfor", true)
		// compared with Cassandra's placement (Spec.nts) on every cluster: vnodes, token-less hosts,
		// datacenters unknown to the ring or to the keyspace
		ru.emit("snts "+rfs+" "+tl, "snts(spec)/"+shape+"/"+unknownDCs(c, rfs)+"/"+k, true)
	}
}

// unknownDCs classifies a keyspace against the ring: does it name a datacenter (rf > 0) the ring does not contain,
// does the ring contain a datacenter the keyspace does not replicate to
func unknownDCs(c cluster, rfs string) string {
	ringDC := map[string]bool{}
	for _, n := range c.nodes {
		if len(n.toks) > 0 {
			ringDC[fmt.Sprint(n.dc)] = true
		}
	}
	ksDC := map[string]bool{}
	ksOnly, ringOnly := false, false
	if rfs != "-" {
		for _, kv := range strings.Split(rfs, ",") {
			p := strings.SplitN(kv, "=", 2)
			if p[1] != "0" {
				ksDC[p[0]] = true
				if !ringDC[p[0]] {
					ksOnly = true
				}
			}
		}
	}
	for d := range ringDC {
		if !ksDC[d] {
			ringOnly = true
		}
	}
	switch {
	case ksOnly && ringOnly:
		return "ks-dc-absent+ring-dc-unreplicated"
	case ksOnly:
		return "ks-dc-absent-from-ring"
	case ringOnly:
		return "ring-dc-unreplicated"
	}
	return "dcs-match"
}

func min(a, b int) int {
	if a < b {
		return a
	}
	return b
}

// fixed clusters: the inputs of the repaired findings KF-C10-1/2/3 and the shapes of the repository's own tests
func (ru *run) fixed() {
	mk := func(part string, nodes ...node) cluster {
		c := cluster{part: part, nodes: nodes}
		for _, n := range nodes {
			if len(n.toks) > 1 {
				c.vnodes = true
			}
		}
		return c
	}
	b := func(v ...int64) []*big.Int {
		o := make([]*big.Int, len(v))
		for i, x := range v {
			o[i] = big.NewInt(x)
		}
		return o
	}
	// KF-C10-1: ring {A:0,5; B:10; C:20}, one rack, rf {dc1:2}
	ru.cluster(mk("m", node{1, 1, 1, b(0, 5)}, node{2, 1, 1, b(10)}, node{3, 1, 1, b(20)}), []string{"1=2", "1=3", "1=1"}, []int{2}, 100)
	// KF-C10-2: keyspace {dc1:1, dc2:1}, ring has dc1 and dc3
	ru.cluster(mk("m", node{1, 1, 1, b(0)}, node{2, 3, 1, b(10)}), []string{"1=1,2=1", "1=1", "1=1,3=1", "2=1"}, []int{1}, 100)
	// KF-C10-3: A(r1):0, B(r1):10, C(r2) without tokens, rf {dc1:2}
	tl := mk("m", node{1, 1, 1, b(0)}, node{2, 1, 1, b(10)}, node{3, 1, 2, nil})
	tl.tokless = true
	ru.cluster(tl, []string{"1=2", "1=1", "1=3"}, []int{2}, 100)
	// empty ring, single node
	ru.cluster(mk("m"), []string{"1=1", "-"}, []int{0, 1}, 100)
	ru.cluster(mk("r", node{1, 1, 1, b(7)}), []string{"1=1", "1=3", "2=1", "-"}, []int{0, 1, 3}, 100)
}

// the strategy classes Cassandra ships: for them getStrategy's answer is specified (Spec.strategy, theorem C10_strategy)
var shippedClasses = map[string]bool{simpleClass: true, "SimpleStrategy": true, ntsClass: true, "NetworkTopologyStrategy": true,
	"org.apache.cassandra.locator.LocalStrategy": true, "LocalStrategy": true}

func (ru *run) strategies(n int) {
	r := ru.r
	classes := []string{simpleClass, "SimpleStrategy", ntsClass, "NetworkTopologyStrategy", "org.apache.cassandra.locator.LocalStrategy", "LocalStrategy",
		simpleClass, ntsClass, ntsClass,
		"EverywhereStrategy", "", "simplestrategy", "SimpleStrategyNetworkTopologyStrategy", "xNetworkTopologyStrategySimpleStrategy", "LocalStrategySimpleStrategy"}
	keys := []string{"replication_factor", "class", "dc1", "dc2", "DC1", "", "dc3", "replication_factor "}
	strs := []string{"3", "0", "-1", "+2", "abc", "", " 1", "007", "9223372036854775807", "9223372036854775808", "-9223372036854775808", "1_0", "-", "+", "-0", "12x", "٣",
		"3/1", "18446744073709551616", "00", "2147483648", "+0", "-00", "--1", "+-1", "1 ", "0x10", "1e1", "99999999999999999999999999"}
	for i := 0; i < n; i++ {
		cls := classes[r.Intn(len(classes))]
		word := "strategy"
		if shippedClasses[cls] {
			word = "sstrategy"
		}
		var sb strings.Builder
		sb.WriteString(word + " " + vh.Hex([]byte(cls)))
		perm := r.Intn(1 << uint(len(keys)))
		for k, key := range keys {
			if perm&(1<<uint(k)) == 0 {
				continue
			}
			var v string
			switch r.Intn(8) {
			case 0, 1:
				v = fmt.Sprintf("i:%d", r.Intn(9)-2)
			case 2:
				v = "x:f"
			case 3:
				v = []string{"x:i64", "x:nil"}[r.Intn(2)]
			case 4:
				// Cassandra's own rendering of a number (Integer.toString): every magnitude
				v = "s:" + vh.Hex([]byte(fmt.Sprint(r.U64()>>uint(r.Intn(64)))))
			default:
				v = "s:" + vh.Hex([]byte(strs[r.Intn(len(strs))]))
			}
			if key == "class" && r.Intn(3) != 0 {
				v = "s:" + vh.Hex([]byte(cls))
			}
			sb.WriteString(" " + vh.Hex([]byte(key)) + "=" + v)
		}
		a := exec(sb.String())
		k := strings.Fields(a)[0]
		cl := "strategy/" + k
		if word == "sstrategy" {
			cl = "sstrategy(spec)/" + k
		}
		ru.out.Case(sb.String(), a, cl, true)
	}
}

// exhaustive small scopes: n nodes, each (dc, rack, #tokens) in {1,2}^3, several interleavings of the
// token order, every rf map over dc1, dc2 in 0..3 and an optional unknown dc
func (ru *run) exhaustive(maxN int, sampleN4 int) {
	var rfsAll []string
	for a := 0; a <= 3; a++ {
		for b := 0; b <= 3; b++ {
			for _, u := range []string{"", ",4=1"} {
				rfsAll = append(rfsAll, fmt.Sprintf("1=%d,2=%d%s", a, b, u))
			}
		}
	}
	build := func(n int, code int, inter int) cluster {
		nodes := make([]node, n)
		total := 0
		cnt := make([]int, n)
		for i := 0; i < n; i++ {
			x := (code >> uint(3*i)) & 7
			nodes[i] = node{id: i + 1, dc: 1 + x&1, rack: 1 + (x>>1)&1}
			cnt[i] = 1 + (x>>2)&1
			total += cnt[i]
		}
		// owners of ring positions 0..total-1
		var owners []int
		switch inter {
		case 0: // blocked: A A B C C
			for i := 0; i < n; i++ {
				for k := 0; k < cnt[i]; k++ {
					owners = append(owners, i)
				}
			}
		case 1: // round robin: A B C A C
			for k := 0; k < 2; k++ {
				for i := 0; i < n; i++ {
					if k < cnt[i] {
						owners = append(owners, i)
					}
				}
			}
		default: // shuffled
			for i := 0; i < n; i++ {
				for k := 0; k < cnt[i]; k++ {
					owners = append(owners, i)
				}
			}
			for i := len(owners) - 1; i > 0; i-- {
				j := ru.r.Intn(i + 1)
				owners[i], owners[j] = owners[j], owners[i]
			}
		}
		c := cluster{part: "m"}
		for p, o := range owners {
			nodes[o].toks = append(nodes[o].toks, big.NewInt(int64(10*p)))
		}
		for _, nd := range nodes {
			if len(nd.toks) > 1 {
				c.vnodes = true
			}
		}
		c.nodes = nodes
		return c
	}
	for n := 1; n <= maxN; n++ {
		for code := 0; code < 1<<uint(3*n); code++ {
			for inter := 0; inter < 4; inter++ {
				ru.cluster(build(n, code, inter), rfsAll, []int{0, 1, 2, 3}, 6)
			}
		}
	}
	for i := 0; i < sampleN4; i++ {
		ru.cluster(build(4, ru.r.Intn(1<<12), 2), rfsAll, []int{2, 3}, 6)
	}
}

// rings with EQUAL tokens (two nodes claim one token while a node is being replaced; a node listing a token twice):
// Cassandra's placement is not defined for them, the driver must still not panic and not name a node twice
// (C10_no_panic, C10_nts_nodup, C10_nts_bound, C10_simple_any_ring hold for every token list). At most 12 ring
// entries: up to that size sort.Sort is an insertion sort, stable like the model's - the order among equal tokens
// is then determined; only model-vs-code ops (ring construction, whole replica maps).
func (ru *run) dupScenario() {
	r := ru.r
	part := []string{"m", "r", "o"}[r.Intn(3)]
	n := 2 + r.Intn(4)
	nDC := 1 + r.Intn(2)
	dom := 2 + r.Intn(5) // few distinct token values: collisions
	c := cluster{part: part, vnodes: true}
	total := 0
	for i := 0; i < n; i++ {
		nd := node{id: i + 1, dc: 1 + r.Intn(nDC), rack: 1 + r.Intn(2)}
		v := 1 + r.Intn(3)
		for k := 0; k < v && total < 12; k++ {
			nd.toks = append(nd.toks, big.NewInt(int64(10*r.Intn(dom))))
			total++
		}
		c.nodes = append(c.nodes, nd)
	}
	ru.nClust++
	ru.emit(c.resetOp(), "reset/"+part+"/equal-tokens", true)
	for _, rf := range []int{1 + r.Intn(3), n + 1} {
		a := ru.emit(fmt.Sprintf("simple %d", rf), "", true)
		ru.out.Dist["simple/equal-tokens/"+classifyMap(a)]++
		delete(ru.out.Dist, "")
	}
	for k := 0; k < 2; k++ {
		a := ru.emit("nts "+genRfs(r, false), "", true)
		ru.out.Dist["nts/equal-tokens/"+classifyMap(a)]++
		delete(ru.out.Dist, "")
	}
}

func main() {
	mode, tier, path := vh.Args()
	if mode == "replay" {
		for _, l := range vh.ReadLines(path) {
			fmt.Println(exec(l))
		}
		return
	}
	// vh.NewRng(seed) and vh.NewRng(seed+1) yield the same stream shifted by one draw: scramble the seed first
	// so that VERIF_SEED=1,2,3 explore unrelated clusters (still one PRNG, fully determined by VERIF_SEED).
	seed := vh.EnvSeed()
	seed = (seed ^ (seed >> 30) ^ 0x6A09E667F3BCC909) * 0xBF58476D1CE4E5B9
	seed = (seed ^ (seed >> 27)) * 0x94D049BB133111EB
	r := vh.NewRng(seed ^ (seed >> 31))
	ru := &run{out: vh.NewOut(path), r: r, lookup: map[string]int{}}
	mult := 1
	if tier == "thorough" {
		mult = 30
	}
	ru.fixed()
	ru.strategies(1500 * mult)
	for i := 0; i < 700*mult; i++ {
		c := genCluster(r, i%5 == 0)
		var rfs []string
		for k := 0; k < 3; k++ {
			rfs = append(rfs, genRfs(r, !c.vnodes))
		}
		srf := []int{r.Intn(6), r.Intn(4)}
		if r.Intn(5) == 0 {
			srf[1] = 6 + r.Intn(9)
		}
		ru.cluster(c, rfs, srf, 40)
	}
	if tier == "thorough" {
		ru.exhaustive(3, 1500)
	} else {
		ru.exhaustive(1, 60)
	}
	for i := 0; i < 200*mult; i++ {
		ru.dupScenario()
	}
	// the ordered partitioner with ring tokens as Cassandra reports them, lookups for raw partition keys
	ru.ordFixed()
	for i := 0; i < 300*mult; i++ {
		ru.ordScenario()
	}
	// the replica map as a function of the history of policy events
	ru.polFixed()
	for i := 0; i < 500*mult; i++ {
		ru.polScenario(i%10 == 0)
	}
	ru.out.Close(map[string]interface{}{"clusters": ru.nClust, "lookup_token_classes": ru.lookup,
		"policy_histories": ru.nPol, "conducted_schedules_of_two_mutators": ru.nConc, "ring_recomputations_while_a_mapped_keyspace_is_unreadable": ru.polUnreadRing})
}
