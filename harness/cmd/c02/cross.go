package main

// CROSS-KIND round trips of the integer columns (op `rtx`, spec-backed): a Go integer of EVERY kind (named or not),
// a big.Int or a decimal string, at the boundaries of every width — in particular the unsigned upper half 2^63..2^64-1
// — is written to tinyint / smallint / int / bigint / counter / varint and read back through every documented
// destination able to represent the number (every integer kind, named or not, *big.Int, *string, time.Duration,
// pointers to them).  The expected answer is the specification's (Lean `Marshal.crossSpec`, no model of gocql in it):
// `ok <the same number in the destination type>`, or `merr` where the column cannot hold the number / gocql documents
// a refusal.  Kept OUT of rtx (emitted as model-vs-code `rt` and counted), exactly the recorded deviations:
//   KF-C02-1  an unsigned kind with 2^(8w-1) <= n < 2^(8w) bound to a w-byte column (written through the wrap);
//   KF-C12-12 a varint >= 2^63 read into uint / named unsigned kinds (only the bare *uint64 takes it);
//   KF-C02-5  a varint outside int64 read into *string;
// and destinations that cannot represent the number (an error or KF-C12-11's mask; model-vs-code).

import (
	"math/big"
	"strconv"

	"verifharness/valgen"
	"verifharness/vh"
)

func colBytes(t string) uint {
	switch t {
	case "tinyint":
		return 1
	case "smallint":
		return 2
	case "int":
		return 4
	case "bigint", "counter":
		return 8
	}
	return 0 // varint
}

func pow2(n uint) *big.Int { return new(big.Int).Lsh(big.NewInt(1), n) }

func fitsS(bytes uint, n *big.Int) bool {
	lo := new(big.Int).Neg(pow2(8*bytes - 1))
	return n.Cmp(lo) >= 0 && n.Cmp(pow2(8*bytes-1)) < 0
}

type crossSrc struct {
	tok      string // value tokens
	n        *big.Int
	unsigned bool
	bareU64  bool
	isString bool
}

// crossClass: "ok" / "merr" (spec-backed expectations) or the reason the case is compared model-vs-code only.
func crossClass(col string, s crossSrc, g *valgen.GT) string {
	w := colBytes(col)
	n := s.n
	if w > 0 {
		if !fitsS(w, n) {
			if s.unsigned && n.Cmp(pow2(8*w-1)) >= 0 && n.Cmp(pow2(8*w)) < 0 {
				return "excluded:KF-C02-1"
			}
			return "merr"
		}
	}
	// refusals of a number the varint column could hold (uint / named unsigned kinds above MaxInt64, strings outside
	// int64): Marshal may refuse; when it accepts the value has to come back
	may := w == 0 && ((s.unsigned && n.Cmp(pow2(63)) >= 0 && !s.bareU64) || (s.isString && !fitsS(8, n)))
	c := crossTargetClass(w, n, g)
	if c == "ok" && may {
		return "refuse-or-same"
	}
	return c
}

func crossTargetClass(w uint, n *big.Int, g *valgen.GT) string {
	for g.Name == "ptr" {
		g = g.Elems[0]
	}
	switch g.Name {
	case "k", "nk":
		if !valgen.KindHolds(g.Kind, n) {
			return "unrepresentable"
		}
		if w == 0 && n.Cmp(pow2(63)) >= 0 && !(g.Name == "k" && g.Kind == "uint64") {
			return "excluded:KF-C12-12"
		}
		return "ok"
	case "big":
		return "ok"
	case "string":
		if w == 0 && !fitsS(8, n) {
			return "excluded:KF-C02-5"
		}
		return "ok"
	case "dur":
		if !fitsS(8, n) {
			return "unrepresentable"
		}
		return "ok"
	}
	return "undocumented"
}

type crossCase struct{ op, class string }

func boundaryInts() []*big.Int {
	var out []*big.Int
	add := func(n *big.Int) { out = append(out, n) }
	for _, x := range []int64{0, 1, -1, 2, 100} {
		add(big.NewInt(x))
	}
	for _, e := range []uint{7, 8, 15, 16, 31, 32, 63, 64} {
		for _, d := range []int64{-1, 0, 1} {
			p := new(big.Int).Add(pow2(e), big.NewInt(d))
			add(p)
			add(new(big.Int).Neg(p))
		}
	}
	add(new(big.Int).Add(pow2(63), big.NewInt(5)))
	add(new(big.Int).Sub(pow2(64), big.NewInt(200)))
	add(pow2(71))
	add(new(big.Int).Neg(pow2(71)))
	return out
}

func genCross(r *vh.Rng, tier string) []crossCase {
	var out []crossCase
	ints := boundaryInts()
	var targets []*valgen.GT
	for _, k := range valgen.Kinds {
		targets = append(targets, &valgen.GT{Name: "k", Kind: k}, &valgen.GT{Name: "nk", Kind: k})
	}
	targets = append(targets, &valgen.GT{Name: "big"}, &valgen.GT{Name: "string"}, &valgen.GT{Name: "dur"})
	always := []*valgen.GT{{Name: "big"}, {Name: "string"}, {Name: "k", Kind: "int64"}, {Name: "k", Kind: "uint64"}, {Name: "k", Kind: "uint"}, {Name: "nk", Kind: "uint64"}}
	extra := 2
	if tier == "thorough" {
		extra = len(targets)
	}
	for _, col := range []string{"tinyint", "smallint", "int", "bigint", "counter", "varint"} {
		var srcs []crossSrc
		for _, k := range valgen.Kinds {
			for _, named := range []bool{false, true} {
				for _, n := range ints {
					if !valgen.KindHolds(k, n) {
						continue
					}
					// quick: every value of the upper half and of the window of this column; one in three of the others
					w := colBytes(col)
					hot := n.Cmp(pow2(63)) >= 0 || (w > 0 && !fitsS(w, n))
					if tier != "thorough" && !hot && r.Intn(3) != 0 {
						continue
					}
					tag := "i"
					if named {
						tag = "ni"
					}
					srcs = append(srcs, crossSrc{tok: tag + " " + k + " " + n.String(), n: n, unsigned: !valgen.KindSigned(k),
						bareU64: k == "uint64" && !named})
				}
			}
		}
		for _, n := range ints {
			if col == "bigint" || col == "counter" || col == "varint" {
				srcs = append(srcs, crossSrc{tok: "big " + n.String(), n: n})
			}
			if tier == "thorough" || r.Intn(2) == 0 {
				srcs = append(srcs, crossSrc{tok: "s " + vh.Hex([]byte(n.String())), n: n, isString: true})
			}
		}
		for _, s := range srcs {
			ts := append([]*valgen.GT{}, always...)
			for i := 0; i < extra; i++ {
				g := targets[r.Intn(len(targets))]
				if tier == "thorough" {
					g = targets[i]
				}
				if r.Intn(5) == 0 {
					g = &valgen.GT{Name: "ptr", Elems: []*valgen.GT{g}}
				}
				ts = append(ts, g)
			}
			seen := map[string]bool{}
			for _, g := range ts {
				if seen[g.String()] {
					continue
				}
				seen[g.String()] = true
				cl := crossClass(col, s, g)
				opw := "rtx"
				if cl != "ok" && cl != "merr" && cl != "refuse-or-same" {
					opw = "rt"
				}
				proto := 1 + r.Intn(5)
				out = append(out, crossCase{opw + " " + strconv.Itoa(proto) + " " + col + " " + s.tok + " " + g.String(),
					"cross/" + col + "/" + cl})
			}
		}
	}
	return out
}

// expectShown: `ok <n in a destination of type g>` as valgen.Show prints it.
func expectShown(n *big.Int, g *valgen.GT) string {
	s := "ok "
	for g.Name == "ptr" {
		s += "ptr "
		g = g.Elems[0]
	}
	switch g.Name {
	case "k":
		return s + "i " + g.Kind + " " + n.String()
	case "nk":
		return s + "ni " + g.Kind + " " + n.String()
	case "big":
		return s + "big " + n.String()
	case "string":
		return s + "s " + valgen.HexC([]byte(n.String()))
	case "dur":
		return s + "dur " + n.String()
	}
	return "?"
}

// execRtx: the real round trip; where the specification permits a refusal, `merr` and the right value are one answer.
func execRtx(w []string) string {
	p, t, v, g := valgen.ParseRT(w)
	ans := valgen.RoundTrip(p, t, v, g)
	src := crossSrc{}
	switch v.Tag {
	case "i", "ni":
		src = crossSrc{n: v.Int, unsigned: !valgen.KindSigned(v.Kind), bareU64: v.Tag == "i" && v.Kind == "uint64"}
	case "s":
		n, ok := new(big.Int).SetString(string(v.Bytes), 10)
		if !ok {
			return ans
		}
		src = crossSrc{n: n, isString: true}
	default:
		return ans
	}
	if t.IsScalar() && crossClass(t.Name, src, g) == "refuse-or-same" && (ans == "merr" || ans == expectShown(src.n, g)) {
		return "refuse-or-same"
	}
	return ans
}
