package main

// fixedOps: boundary round trips that run first on every invocation
var fixedOps = []string{
	"rtsame 4 smallint i uint16 65535 k uint16", "rt 4 smallint i uint16 65535 k int16", "rt 4 smallint i uint16 65535 k int64",
	"rtsame 4 bigint i uint64 18446744073709551615 k uint64", "rt 4 bigint i uint64 18446744073709551615 k int64",
	"rtsame 4 tinyint i int8 -128 k int8", "rtsame 4 int i int32 -2147483648 k int32", "rtsame 4 bigint i int64 -9223372036854775808 k int64",
	"rtsame 4 varint i uint64 18446744073709551615 k uint64", "rtsame 4 varint big -128 big", "rtsame 4 varint big 128 big",
	"rtsame 4 varint big 340282366920938463463374607431768211456 big", "rt 4 varint big 340282366920938463463374607431768211456 k int64",
	"rtsame 4 bigint big 5 big", "rtsame 4 decimal dec -129 -2147483648 dec",
	"rtsame 4 float f32 2139095041 f32", "rtsame 4 double f64 9218868437227405313 f64", "rtsame 4 float f32 2147483648 f32",
	"rtsame 4 timestamp t -1 999000000 time", "rt 4 timestamp t -1 999999999 time", "rtsame 4 timestamp t -62135596800 0 time",
	"rtsame 4 date t -86400 0 time", "rt 4 date t -43200 0 time", "rtsame 4 duration cd -1 -1 -1 cdur",
	"rtsame 4 blob bnil bytes", "rt 4 blob b - bytes", "rtsame 4 blob nb - nbytes", "rtsame 4 text s - string",
	"rtsame 4 int nilptr ptr k int", "rtsame 4 int ptr i int 0 ptr k int", "rt 4 int nilptr k int", "rt 4 int ptr ptr i int 7 ptr ptr k int",
	"rtsame 4 inet ip 01020304 ip", "rt 4 inet ip 00000000000000000000ffff01020304 ip",
	"rt 2 list int sl ptr k int 2 nilptr ptr i int 1 slice ptr k int", "rt 3 list int sl ptr k int 2 nilptr ptr i int 1 slice ptr k int",
	"rt 4 tuple 2 int text ifs 2 nilptr s 41 struct 2 ptr k int string", "rt 4 tuple 2 int text ifs 2 nil s 41 struct 2 ptr k int string",
	"rt 4 map text int map string k int 2 s 61 i int 1 s 62 i int 2 map string k int",
	// round trips through the repaired encoders (KF-C12-2, -4, -6, -7)
	"rtsame 4 bigint big 9223372036854775807 big", "rtsame 4 counter big -9223372036854775808 big", "rtsame 4 bigint big 9223372036854775808 big",
	"rt 4 date t -1 999999999 time", "rt 4 date i int64 -1 time",
	"rt 4 tuple 2 blob text st 2 bnil s 41 struct 2 bytes string", "rt 4 tuple 2 blob text ifs 2 bnil s 41 struct 2 ptr bytes string",
	"rt 4 tuple 2 blob blob arr bytes 2 b 41 bnil array 2 bytes", "rt 4 tuple 1 int nil struct 1 ptr k int",
	// the 2-byte framing of protocol <= 2 on both sides of 2^15 and 2^16 (lengths and counts are UNSIGNED shorts)
	"rtsame 2 list blob sl bytes 3 b 68 b rep:61:32767 b 74 slice bytes", "rtsame 2 list blob sl bytes 3 b 68 b rep:61:32768 b 74 slice bytes",
	"rtsame 1 list text sl string 2 s rep:61:65535 s 74 slice string", "rtsame 2 list text sl string 1 s rep:61:65536 slice string",
	"rtsame 2 map text int map string k int 2 s rep:6b:40000 i int 7 s 7a i int 8 map string k int",
	"rtsame 2 map int text map k int string 2 i int 1 s rep:76:65535 i int 2 s 74 map k int string",
	"rtsame 2 list text slrep string 32768 s - slice string", "rtsame 2 set tinyint slrep k int8 65535 i int8 -1 slice k int8",
	"rtsame 2 list text slrep string 65536 s - slice string", "rtsame 3 list text sl string 2 s rep:61:65536 s 74 slice string",
	// null / EMPTY / value inside tuples and UDTs (pointer fields: nil <-> null, pointer to "" <-> empty)
	"rtsame 4 tuple 3 text text text st 3 nilptr ptr s - ptr s 41 struct 3 ptr string ptr string ptr string",
	"rtsame 2 tuple 2 text text arr ptr string 2 ptr s - nilptr array 2 ptr string",
	"rtsame 4 udt 2 a text b text us 2 a ptr s - b nilptr ustruct 2 a ptr string b ptr string",
	"rtsame 3 list tuple 1 text sl struct 1 ptr string 2 st 1 ptr s - st 1 nilptr slice struct 1 ptr string",
	"rtsame 4 udt 2 a text b int um 2 a s - b i int 0 umap", "rtsame 4 tuple 2 text int ifs 2 s - i int 0 slice iface",
	// KF-C02-4: a struct field of another documented type than goType(elem) (model-vs-code: uerr; a crash before the repair of KF-C05-18)
	"rt 4 tuple 1 int st 1 i int32 5 struct 1 k int32",
}
