// STRING SOURCES (op sstr): a Go string bound to an inet / date / integer / varint column. The property: Marshal
// either refuses the string or writes bytes that decode (into *string) to a string denoting the SAME value - never a
// silently altered one (a dropped zone, a clamped day, a wrapped number). Answer of the real code:
//   merr | uerr | ok <bytes> <decoded string> re:same|re:diff|re:err   (re: the decoded string marshalled again gives
//   the same bytes); compared with the SPECIFICATION Model/StringSpec.lean (no model of gocql).
package main

import (
	"encoding/hex"
	"fmt"
	"strings"

	"github.com/gocql/gocql"

	"verifharness/valgen"
	"verifharness/vh"
)

func hexOrDash(b []byte) string {
	if len(b) == 0 {
		return "-"
	}
	return hex.EncodeToString(b)
}

func execSstr(w []string) string {
	if len(w) != 2 {
		panic("bad-op: sstr")
	}
	t := &valgen.Ty{Name: w[0]}
	if !t.IsScalar() {
		panic("bad-op: sstr column")
	}
	var s []byte
	if w[1] != "-" {
		var err error
		s, err = hex.DecodeString(w[1])
		if err != nil {
			panic("bad-op: sstr hex")
		}
	}
	info := t.Info(4)
	b, err := gocql.Marshal(info, string(s))
	if err != nil {
		return "merr"
	}
	var back string
	if err := gocql.Unmarshal(info, b, &back); err != nil {
		return "uerr"
	}
	re := "re:same"
	b2, err := gocql.Marshal(info, back)
	if err != nil {
		re = "re:err"
	} else if string(b2) != string(b) {
		re = "re:diff"
	}
	return "ok " + hexOrDash(b) + " " + hexOrDash([]byte(back)) + " " + re
}

type strCase struct{ op, class string }

var ipValid = []string{
	"0.0.0.0", "1.2.3.4", "255.255.255.255", "127.0.0.1", "10.0.0.255", "192.168.100.9",
	"::", "::1", "1::", "fe80::1", "2001:db8::68", "2001:DB8:0:0:0:0:0:1", "1:2:3:4:5:6:7:8", "1:2:3:4:5:6:7::", "::2:3:4:5:6:7:8",
	"1::8", "1:0:0:4::8", "0:0:0:0:0:0:0:0", "0001:0002:0003:0004:0005:0006:0007:0008", "ffff:ffff:ffff:ffff:ffff:ffff:ffff:ffff",
	"::ffff:1.2.3.4", "::FFFF:255.0.0.1", "0:0:0:0:0:ffff:1.2.3.4", "::1.2.3.4", "1:2:3:4:5:6:1.2.3.4", "64:ff9b::192.0.2.33", "::ffff:0102:0304",
	"fe80::a:b:c:d", "a:b:c:d:e:f:0:1", "0:0:1::", "1:0:0:2:0:0:0:3",
}

var ipZones = []string{"%eth0", "%1", "%", "%25eth0", "%eth0%1", "%e-t.h_0", "% "}

var ipInvalid = []string{
	"", " ", "1.2.3", "1.2.3.4.5", "256.1.1.1", "01.2.3.4", "1.2.3.04", "1.2.3.4 ", " 1.2.3.4", "1.2.3.-4", "1..3.4", "1.2.3.4.", ".1.2.3.4",
	"0x1.2.3.4", "1.2.3.4:80", "[::1]", "[1.2.3.4]", "::1/128", "1.2.3.4/8", ":", ":::", "1:::2", "::1::", "1::2::3", ":1::2", "1::2:",
	"1:2:3:4:5:6:7", "1:2:3:4:5:6:7:8:9", "1:2:3:4:5:6:7:8::", "::1:2:3:4:5:6:7:8", "00001::", "1::g", "1:2:3:4:5:6:7:1.2.3.4",
	"1.2.3.4::", "1:2:3:4:5:1.2.3.4", "::1.2.3", "::1.2.3.256", "::01.2.3.4", "1:2:3:4:5:6:1.2.3.4:7", "::ffff:1.2.3.4.5", "fe80::1%",
	"1.2.3.4%eth0", "%eth0", "localhost", "１.2.3.4", "1,2,3,4", "::\x00", "12345::", "-1::", "+1.2.3.4",
}

var dateValid = []string{"1970-01-01", "1969-12-31", "2024-02-29", "2000-02-29", "1900-02-28", "0000-01-01", "0001-01-01", "9999-12-31",
	"2023-12-31", "1600-02-29", "0400-02-29", "1582-10-10", "2038-01-19", "1901-12-13", "0000-02-29", ""}

var dateInvalid = []string{"2023-02-29", "1900-02-29", "2100-02-29", "2023-04-31", "2023-13-01", "2023-00-10", "2023-01-00", "2023-01-32",
	"2023-1-01", "2023-01-1", "23-01-01", "02023-01-01", "2023/01/01", "2023-01-01 ", " 2023-01-01", "2023-01-01T00:00:00Z", "2023-01-01Z",
	"+2023-01-01", "-2023-01-01", "12023-01-01", "2023-01-011", "20230101", "2023-06-31", "2023-02-30", "2023-09-31", "2023-11-31",
	"10000-01-01", "２023-01-01", "2023-0a-01", "2023--1-01"}

var intStrs = []string{"0", "-0", "+0", "7", "+7", "007", "-007", "127", "128", "-128", "-129", "255", "256", "32767", "32768", "-32768", "-32769",
	"65535", "65536", "2147483647", "2147483648", "-2147483648", "-2147483649", "4294967295", "4294967296", "9223372036854775807",
	"-9223372036854775808", "000000000000000000000005", "", "+", "-", " 5", "5 ", "5\n", "0x10", "1_000", "1e3", "5.0", "٥", "５", "--5", "+-5", "1 2", "5-"}

const strAlphabet = "0123456789abcdefABCDEFg:.%[]/ -+xTZ\x00"

func mutate(r *vh.Rng, s string) string {
	b := []byte(s)
	k := 1 + r.Intn(2)
	for i := 0; i < k; i++ {
		c := strAlphabet[r.Intn(len(strAlphabet))]
		switch r.Intn(4) {
		case 0: // insert
			p := r.Intn(len(b) + 1)
			b = append(b[:p], append([]byte{c}, b[p:]...)...)
		case 1: // delete
			if len(b) > 0 {
				p := r.Intn(len(b))
				b = append(b[:p], b[p+1:]...)
			}
		case 2: // replace
			if len(b) > 0 {
				b[r.Intn(len(b))] = c
			}
		case 3: // duplicate a character (":" -> "::", "1" -> "11")
			if len(b) > 0 {
				p := r.Intn(len(b))
				b = append(b[:p], append([]byte{b[p]}, b[p:]...)...)
			}
		}
	}
	return string(b)
}

func randIPv6(r *vh.Rng) string {
	n := 8
	ell := -1
	if r.Intn(3) > 0 {
		n = r.Intn(8)
		ell = r.Intn(n + 1)
	}
	v4 := r.Intn(4) == 0 && (n >= 2 || ell >= 0)
	var gs []string
	groups := n
	if v4 && n >= 2 {
		groups = n - 2
	} else if v4 {
		groups = n
		if groups > 5 {
			groups = 5
		}
	}
	for i := 0; i < groups; i++ {
		g := []string{"0", "1", "ffff", "db8", "00ab", "ABCD", "0000", "a"}[r.Intn(8)]
		if r.Intn(3) == 0 {
			g = fmt.Sprintf("%x", r.Intn(65536))
		}
		gs = append(gs, g)
	}
	if v4 {
		gs = append(gs, fmt.Sprintf("%d.%d.%d.%d", r.Intn(256), r.Intn(256), r.Intn(256), r.Intn(256)))
	}
	if ell < 0 {
		return strings.Join(gs, ":")
	}
	if ell > len(gs) {
		ell = len(gs)
	}
	return strings.Join(gs[:ell], ":") + "::" + strings.Join(gs[ell:], ":")
}

var uuidPool = []string{
	"00000000-0000-0000-0000-000000000000", "ffffffff-ffff-ffff-ffff-ffffffffffff", "6ba7b810-9dad-11d1-80b4-00c04fd430c8",
	"6BA7B810-9DAD-11D1-80B4-00C04FD430C8", "6ba7b8109dad11d180b400c04fd430c8", "6bA7b810-9DAD-11d1-80B4-00c04fd430C8",
	"6b-a7-b8-10-9d-ad-11-d1-80-b4-00-c0-4f-d4-30-c8", "--6ba7b810--9dad-11d1-80b4-00c04fd430c8--", "6ba7b810-9dad-11d1-80b4-00c04fd430c8-",
	"{6ba7b810-9dad-11d1-80b4-00c04fd430c8}", "urn:uuid:6ba7b810-9dad-11d1-80b4-00c04fd430c8", "6ba7b810-9dad-11d1-80b4-00c04fd430c", "6ba7b810-9dad-11d1-80b4-00c04fd430c88",
	"6-ba7b810-9dad-11d1-80b4-00c04fd430c8", "6ba7b810-9dad-11d1-80b4-00c04fd430cg", " 6ba7b810-9dad-11d1-80b4-00c04fd430c8", "6ba7b810-9dad-11d1-80b4-00c04fd430c8 ",
	"6ba7b810_9dad_11d1_80b4_00c04fd430c8", "", "-", "6ba7b810-9dad-11d1-80b4", "６ba7b810-9dad-11d1-80b4-00c04fd430c8", "0x6ba7b8109dad11d180b400c04fd430c8",
	"6ba7b810-9dad-11d1-80b4-00c04fd430c8\x00", "(6ba7b810-9dad-11d1-80b4-00c04fd430c8)", "6ba7b810-9dad-11d1-80b4-00c04fd430c8\n",
}

func randUUIDStr(r *vh.Rng) string {
	b := r.Bytes(16)
	s := fmt.Sprintf("%x-%x-%x-%x-%x", b[0:4], b[4:6], b[6:8], b[8:10], b[10:16])
	switch r.Intn(6) {
	case 0:
		s = strings.ToUpper(s)
	case 1:
		s = strings.ReplaceAll(s, "-", "")
	case 2:
		s = "{" + s + "}"
	case 3:
		s = "urn:uuid:" + s
	}
	return s
}

func genStr(r *vh.Rng, tier string) []strCase {
	var out []strCase
	add := func(col, s, class string) {
		out = append(out, strCase{"sstr " + col + " " + hexOrDash([]byte(s)), "sstr/" + col + "/" + class})
	}
	reps := 1
	if tier == "thorough" {
		reps = 30
	}
	for _, s := range ipValid {
		add("inet", s, "valid")
		for _, z := range ipZones {
			add("inet", s+z, "zone")
		}
	}
	for _, s := range ipInvalid {
		add("inet", s, "invalid")
	}
	for _, s := range dateValid {
		add("date", s, "valid")
	}
	for _, s := range dateInvalid {
		add("date", s, "invalid")
	}
	for _, col := range []string{"tinyint", "smallint", "int", "bigint", "counter", "varint"} {
		for _, s := range intStrs {
			add(col, s, "pool")
		}
	}
	for i := 0; i < 600*reps; i++ {
		s := randIPv6(r)
		if r.Intn(5) == 0 {
			s = fmt.Sprintf("%d.%d.%d.%d", r.Intn(256), r.Intn(256), r.Intn(256), r.Intn(256))
		}
		switch r.Intn(6) {
		case 0:
			add("inet", s+ipZones[r.Intn(len(ipZones))], "rand-zone")
		case 1, 2:
			add("inet", mutate(r, s), "rand-mutated")
		default:
			add("inet", s, "rand")
		}
	}
	for i := 0; i < 300*reps; i++ {
		y, m, d := r.Intn(10000), 1+r.Intn(12), 1+r.Intn(31)
		if r.Intn(4) == 0 {
			y = []int{0, 1, 4, 100, 400, 1600, 1900, 1969, 1970, 2000, 2100, 9999}[r.Intn(12)]
			m, d = 2, 28+r.Intn(2)
		}
		s := fmt.Sprintf("%04d-%02d-%02d", y, m, d)
		if r.Intn(4) == 0 {
			add("date", mutate(r, s), "rand-mutated")
		} else {
			add("date", s, "rand")
		}
	}
	for _, col := range []string{"uuid", "timeuuid"} {
		for _, s := range uuidPool {
			add(col, s, "pool")
		}
	}
	for i := 0; i < 300*reps; i++ {
		col := []string{"uuid", "timeuuid"}[r.Intn(2)]
		s := randUUIDStr(r)
		if r.Intn(3) == 0 {
			add(col, mutate(r, s), "rand-mutated")
		} else {
			add(col, s, "rand")
		}
	}
	for i := 0; i < 200*reps; i++ {
		col := []string{"tinyint", "smallint", "int", "bigint", "counter", "varint"}[r.Intn(6)]
		add(col, mutate(r, intStrs[r.Intn(28)]), "rand-mutated")
	}
	return out
}
