// Harness for C02 (Marshal then Unmarshal gives back the value): generates (protocol, type tree, Go type,
// value) cases, runs the REAL gocql.Marshal followed by gocql.Unmarshal in-process into the same Go type and
// into other target types built by reflection (named types, pointers, pointer-to-pointer, slices, arrays, maps,
// structs), and writes op lines + the implementation's answers for comparison with the Lean model (`rt`) and
// with the proved round-trip property (`rtsame`: decoded value equals the original).
package main

import (
	"fmt"
	"strings"

	"verifharness/valgen"
	"verifharness/vh"
)

func exec(op string) (res string) {
	defer func() {
		if r := recover(); r != nil {
			s := fmt.Sprint(r)
			if strings.HasPrefix(s, "bad-op") {
				res = "bad-op"
			} else {
				res = "crash"
			}
		}
	}()
	w := strings.Fields(op)
	if len(w) == 0 {
		return "bad-op"
	}
	switch w[0] {
	case "rt":
		p, t, v, g := valgen.ParseRT(w[1:])
		return valgen.RoundTrip(p, t, v, g)
	case "rtsame":
		p, t, v, g := valgen.ParseRT(w[1:])
		return valgen.RoundTripSame(p, t, v, g)
	case "rtx":
		return execRtx(w[1:])
	case "hseq":
		return execHseq(w[1:])
	case "sstr":
		return execSstr(w[1:])
	}
	return "bad-op"
}

func sizeClass(t *valgen.Ty) string {
	if t.IsScalar() {
		return t.Name
	}
	return t.Name + "<>"
}

func hasTag(s string, tags ...string) bool {
	for _, w := range strings.Fields(s) {
		for _, t := range tags {
			if w == t {
				return true
			}
		}
	}
	return false
}

// unmodelled: round trips whose decode side the model does not describe
func unmodelled(t *valgen.Ty, gt *valgen.GT) bool {
	ts, gs := " "+t.String()+" ", " "+gt.String()+" "
	if strings.Contains(ts, " timeuuid ") && strings.Contains(gs, " time ") {
		return true
	}
	if strings.Contains(ts, " date ") && strings.Contains(gs, " string ") {
		return true
	}
	return hasTag(gs, "mset", "iface") && !(t.Name == "tuple" && gt.Name == "slice")
}

// unmodelledLeaf: the leaf combinations the model does not describe (standard-library formatting / UUID timestamps)
func unmodelledLeaf(t *valgen.Ty, gt *valgen.GT) bool {
	ts, gs := " "+t.String()+" ", " "+gt.String()+" "
	return (strings.Contains(ts, " timeuuid ") && strings.Contains(gs, " time ")) ||
		(strings.Contains(ts, " date ") && strings.Contains(gs, " string "))
}

func main() {
	mode, tier, path := vh.Args()
	if mode == "replay" {
		for _, l := range vh.ReadLines(path) {
			fmt.Println(exec(l))
		}
		return
	}
	r := vh.NewRng(vh.EnvSeed() + 1000003)
	out := vh.NewOut(path)
	g := &valgen.Gen{R: r}
	n := 12000
	if tier == "thorough" {
		n = 300000
	}
	emit := func(op, class string) string {
		ans := exec(op)
		out.Case(op, ans, class+"/"+strings.SplitN(ans, " ", 2)[0][:min(4, len(strings.SplitN(ans, " ", 2)[0]))], true)
		return ans
	}
	for _, op := range fixedOps {
		emit(op, "fixed/"+strings.Fields(op)[0])
	}
	// HISTORY: sequences of same-type round trips over look-alike declared types, each sequence in a fresh process
	nseq, nlong := 120, 2
	if tier == "thorough" {
		nseq, nlong = 1500, 20
	}
	for i := 0; i < nseq+nlong; i++ {
		k := 3 + r.Intn(6)
		if i >= nseq {
			k = 40
		}
		op := genHseq(r, k)
		ans := inFreshProcess(path, op)
		out.Case(op, ans, "hseq/"+fmt.Sprint(k > 8)+"/"+hseqClass(ans), true)
	}
	// CROSS-KIND round trips of integer columns against the specification (op rtx)
	for _, c := range genCross(r, tier) {
		emit(c.op, c.class)
	}
	// STRING SOURCES of inet / date / integer columns against the specification (op sstr)
	for _, c := range genStr(r, tier) {
		emit(c.op, c.class)
	}
	// sizes and counts on both sides of every width boundary of both collection framings
	for _, c := range g.BoundaryCases(tier) {
		tv := fmt.Sprintf("%d %s %s", c.Proto, c.T.String(), c.V.String())
		if !c.EncodeOnly {
			emit("rt "+tv+" "+c.GT.String(), c.Class+"/rt")
		}
		if valgen.RTCleanAny(c.Proto, c.T, c.GT, c.V) {
			emit("rtsame "+tv+" "+c.GT.String(), c.Class+"/rtsame")
		}
	}
	// the same-type round trip through tuples, UDTs and collections nested in / around them (null, empty and zero
	// fields; pointer and non-pointer fields; struct / []interface{} / slice / array / map[string]interface{})
	for i := 0; i < n/3; i++ {
		depth := []int{1, 1, 1, 2, 2, 3}[r.Intn(6)]
		p, t, gt, v := g.RTCase(depth)
		if unmodelledLeaf(t, gt) {
			continue
		}
		tv := fmt.Sprintf("%d %s %s", p, t.String(), v.String())
		emit("rt "+tv+" "+gt.String(), "rt-shape/"+sizeClass(t))
		if valgen.RTCleanAny(p, t, gt, v) {
			emit("rtsame "+tv+" "+gt.String(), "rtsame-shape/"+sizeClass(t)+"/"+gt.Name)
		}
	}
	for i := 0; i < n; i++ {
		depth := []int{0, 0, 0, 0, 0, 1, 1, 1, 2, 3}[r.Intn(10)]
		p, t, gt, v := g.CaseTyped(depth)
		tv := fmt.Sprintf("%d %s %s", p, t.String(), v.String())
		// same Go type
		if gt != nil && !unmodelled(t, gt) {
			emit("rt "+tv+" "+gt.String(), "rt-same/"+sizeClass(t))
			if valgen.RTCleanAny(p, t, gt, v) {
				emit("rtsame "+tv+" "+gt.String(), "rtsame/"+sizeClass(t))
			}
		}
		// other targets
		for k := 0; k < 2; k++ {
			tg := g.Target(t, depth)
			if unmodelled(t, tg) {
				continue
			}
			emit("rt "+tv+" "+tg.String(), "rt-cross/"+sizeClass(t))
		}
	}
	out.Close(map[string]interface{}{"cases": n})
}

func min(a, b int) int {
	if a < b {
		return a
	}
	return b
}
