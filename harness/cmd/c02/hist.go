package main

// HISTORY-DEPENDENCE of Marshal / Unmarshal (op `hseq`): a SEQUENCE of same-type round trips executed in ONE fresh
// process, over Go types that are distinct but look alike to a careless cache key — the declared pool of decl_gen.go
// (dozens of function-local struct types that all print as main.rec / main.Rec / main.tup: same String(), same
// PkgPath and Name; permuted field orders, fields differing only in their cql tags, pointer vs value fields, a field
// tagged with a name no UDT has), the anonymous reflect.StructOf twin of each layout (named vs unnamed), and pointer /
// slice / array / map types built over them (all `[]main.rec`, `map[string]main.rec` ...).  Every call of the sequence
// is answered on its own: `same:<bytes>` when the decoded value equals the original (the bytes are part of the
// answer: the specification's encoding of the value, whatever was marshalled before), `merr`, `uerr`, `diff:…`;
// a last token `late:ok` says that no earlier result (encoded bytes, decoded value, input value) was changed by a
// later call.
//
//	hseq <k> ; <call> ; <call> …        call ::= N|A <proto> <type> <value> <gotype>
//
// N: every struct type of <gotype> is the DECLARED type of that layout (bad-op when the pool has none),
// A: the anonymous reflect.StructOf type (as in `rt` / `rtsame`).

import (
	"bytes"
	"fmt"
	"os"
	osexec "os/exec"
	"path/filepath"
	"reflect"
	"strconv"
	"strings"

	"github.com/gocql/gocql"

	"verifharness/valgen"
	"verifharness/vh"
)

var (
	declByKey = map[string]reflect.Type{}
	declGTs   []*valgen.GT
)

func gtOfType(t reflect.Type) *valgen.GT {
	switch t.Kind() {
	case reflect.String:
		return &valgen.GT{Name: "string"}
	case reflect.Bool:
		return &valgen.GT{Name: "bool"}
	case reflect.Int:
		return &valgen.GT{Name: "k", Kind: "int"}
	case reflect.Int64:
		return &valgen.GT{Name: "k", Kind: "int64"}
	case reflect.Ptr:
		return &valgen.GT{Name: "ptr", Elems: []*valgen.GT{gtOfType(t.Elem())}}
	case reflect.Struct:
		g := &valgen.GT{Name: "struct"}
		for i := 0; i < t.NumField(); i++ {
			if tag := t.Field(i).Tag.Get("cql"); tag != "" {
				g.Name = "ustruct"
				g.Names = append(g.Names, tag)
			}
			g.Elems = append(g.Elems, gtOfType(t.Field(i).Type))
		}
		if g.Name == "ustruct" && len(g.Names) != len(g.Elems) {
			panic("declared pool: partly tagged struct " + t.String())
		}
		return g
	}
	panic("declared pool: unsupported field type " + t.String())
}

func init() {
	for _, t := range declTypes {
		g := gtOfType(t)
		k := g.String()
		if _, dup := declByKey[k]; dup {
			panic("declared pool: duplicate layout " + k)
		}
		if g.RType().NumField() != t.NumField() {
			panic("declared pool: layout mismatch " + k)
		}
		declByKey[k] = t
		declGTs = append(declGTs, g)
	}
}

// declify: the Go type of descriptor g in which every struct is the declared type of its layout.
func declify(g *valgen.GT) reflect.Type {
	switch g.Name {
	case "ustruct", "struct":
		t, ok := declByKey[g.String()]
		if !ok {
			panic("bad-op: no declared type of layout " + g.String())
		}
		return t
	case "ptr":
		return reflect.PtrTo(declify(g.Elems[0]))
	case "slice":
		return reflect.SliceOf(declify(g.Elems[0]))
	case "array":
		return reflect.ArrayOf(g.N, declify(g.Elems[0]))
	case "map":
		return reflect.MapOf(declify(g.Elems[0]), declify(g.Elems[1]))
	}
	return g.RType()
}

// convert rebuilds the generic value src (anonymous structs, interface{} slots for nil pointers) in type dst.
func convert(src reflect.Value, dst reflect.Type) reflect.Value {
	if src.IsValid() && src.Kind() == reflect.Interface {
		if src.IsNil() {
			return reflect.Zero(dst)
		}
		src = src.Elem()
	}
	if !src.IsValid() {
		return reflect.Zero(dst)
	}
	out := reflect.New(dst).Elem()
	switch dst.Kind() {
	case reflect.Struct:
		if src.Kind() != reflect.Struct || src.NumField() != dst.NumField() {
			panic("bad-op: value does not have the shape of its Go type")
		}
		for i := 0; i < dst.NumField(); i++ {
			out.Field(i).Set(convert(src.Field(i), dst.Field(i).Type))
		}
	case reflect.Ptr:
		if src.Kind() != reflect.Ptr {
			panic("bad-op: value does not have the shape of its Go type")
		}
		if src.IsNil() {
			return out
		}
		p := reflect.New(dst.Elem())
		p.Elem().Set(convert(src.Elem(), dst.Elem()))
		out.Set(p)
	case reflect.Slice:
		if src.Kind() != reflect.Slice {
			panic("bad-op: value does not have the shape of its Go type")
		}
		if src.IsNil() {
			return out
		}
		s := reflect.MakeSlice(dst, src.Len(), src.Len())
		for i := 0; i < src.Len(); i++ {
			s.Index(i).Set(convert(src.Index(i), dst.Elem()))
		}
		out.Set(s)
	case reflect.Array:
		if src.Kind() != reflect.Array || src.Len() != dst.Len() {
			panic("bad-op: value does not have the shape of its Go type")
		}
		for i := 0; i < src.Len(); i++ {
			out.Index(i).Set(convert(src.Index(i), dst.Elem()))
		}
	case reflect.Map:
		if src.Kind() != reflect.Map {
			panic("bad-op: value does not have the shape of its Go type")
		}
		if src.IsNil() {
			return out
		}
		m := reflect.MakeMap(dst)
		it := src.MapRange()
		for it.Next() {
			m.SetMapIndex(convert(it.Key(), dst.Key()), convert(it.Value(), dst.Elem()))
		}
		out.Set(m)
	default:
		if src.Type() == dst {
			return src
		}
		if !src.Type().ConvertibleTo(dst) || src.Kind() != dst.Kind() {
			panic("bad-op: value does not have the shape of its Go type")
		}
		return src.Convert(dst)
	}
	return out
}

type kept struct {
	in      reflect.Value // the value handed to Marshal
	inShown string
	data    []byte // what Marshal returned (the very slice) and a private copy of its content
	copy    []byte
	out     reflect.Value // what Unmarshal filled
	shown   string
}

func histCall(w []string) (ans string, k *kept) {
	defer func() {
		if r := recover(); r != nil {
			s := fmt.Sprint(r)
			if strings.HasPrefix(s, "bad-op") {
				panic(r)
			}
			ans, k = "crash", nil
		}
	}()
	if len(w) < 5 || (w[0] != "N" && w[0] != "A") {
		panic("bad-op: call")
	}
	p, t, v, g := valgen.ParseRT(w[1:])
	ty := g.RType()
	if w[0] == "N" {
		ty = declify(g)
	}
	val := convert(reflect.ValueOf(v.Build()), ty)
	info := t.Info(p)
	k = &kept{in: val, inShown: valgen.Show(val)}
	var data []byte
	var err error
	func() {
		defer func() {
			if r := recover(); r != nil {
				err, ans = fmt.Errorf("panic"), "crash"
			}
		}()
		data, err = gocql.Marshal(info, val.Interface())
	}()
	if ans == "crash" {
		return "crash", nil
	}
	if err != nil {
		return "merr", nil
	}
	k.data, k.copy = data, append([]byte(nil), data...)
	target := reflect.New(ty)
	if err := gocql.Unmarshal(info, data, target.Interface()); err != nil {
		return "uerr", nil
	}
	k.out, k.shown = target.Elem(), valgen.Show(target.Elem())
	hx := "null"
	if data != nil {
		hx = valgen.HexC(valgen.Canon(p, t, v, append([]byte(nil), data...)))
	}
	if k.shown == k.inShown {
		return "same:" + hx, k
	}
	return "diff:" + hx + ":" + strings.ReplaceAll(k.shown, " ", "_"), k
}

func execHseq(w []string) string {
	if len(w) < 2 {
		panic("bad-op: hseq")
	}
	n, err := strconv.Atoi(w[0])
	if err != nil || n < 1 || n > 1000 {
		panic("bad-op: hseq count")
	}
	var calls [][]string
	cur := []string(nil)
	for _, x := range w[1:] {
		if x == ";" {
			if cur != nil {
				calls = append(calls, cur)
			}
			cur = []string{}
			continue
		}
		if cur == nil {
			panic("bad-op: hseq separator")
		}
		cur = append(cur, x)
	}
	if cur != nil {
		calls = append(calls, cur)
	}
	if len(calls) != n {
		panic("bad-op: hseq count")
	}
	var answers []string
	var keeps []*kept
	for _, c := range calls {
		a, k := histCall(c)
		answers = append(answers, a)
		keeps = append(keeps, k)
	}
	late := "late:ok"
	for i, k := range keeps {
		if k == nil {
			continue
		}
		if !bytes.Equal(k.data, k.copy) || valgen.Show(k.out) != k.shown || valgen.Show(k.in) != k.inShown {
			late = "late:changed:" + strconv.Itoa(i)
			break
		}
	}
	return strings.Join(append(answers, late), " ")
}

// inFreshProcess runs one op line through `replay` of this very binary: the history of the line is the whole history
// of the process, so the answer is exactly what a replay of the line gives.
func inFreshProcess(dir, op string) string {
	exe, err := os.Executable()
	if err != nil {
		return "crash:no-executable"
	}
	f := filepath.Join(dir, "hseq_op.txt")
	if err := os.WriteFile(f, []byte(op+"\n"), 0o644); err != nil {
		return "crash:tmpfile"
	}
	out, err := osexec.Command(exe, "replay", "-", f).Output()
	if err != nil {
		return "crash:child"
	}
	return strings.TrimRight(string(out), "\n")
}

// ---------- generator ----------

type udtField struct{ name, ty string }

var cqlOfTag = map[string][]string{
	"a": {"text", "varchar", "ascii", "text"}, "b": {"text", "varchar", "text", "text"},
	"c": {"int", "bigint", "varint", "smallint", "int"}, "d": {"int", "bigint", "varint", "int", "int"},
	"e": {"boolean"},
}

func genSchema(r *vh.Rng) []udtField {
	names := []string{"a", "b", "c", "d", "e"}
	for i := len(names) - 1; i > 0; i-- {
		j := r.Intn(i + 1)
		names[i], names[j] = names[j], names[i]
	}
	n := 2 + r.Intn(4)
	var fs []udtField
	for _, nm := range names[:n] {
		c := cqlOfTag[nm]
		fs = append(fs, udtField{nm, c[r.Intn(len(c))]})
	}
	return fs
}

func schemaTy(fs []udtField) string {
	s := "udt " + strconv.Itoa(len(fs))
	for _, f := range fs {
		s += " " + f.name + " " + f.ty
	}
	return s
}

var histInts = []int{0, 1, -1, 7, 100, 127, -128, 255, 256, 32767, -32768, 12345}

func genLeaf(r *vh.Rng, g *valgen.GT, zero bool) string {
	switch g.Name {
	case "ptr":
		if zero || r.Intn(4) == 0 {
			return "nilptr"
		}
		return "ptr " + genLeaf(r, g.Elems[0], false)
	case "string":
		if zero || r.Intn(8) == 0 {
			return "s -"
		}
		return "s " + vh.Hex(append([]byte{byte('a' + r.Intn(26))}, r.Bytes(1+r.Intn(2))...))
	case "bool":
		if zero || r.Bool() {
			return "bool 0"
		}
		return "bool 1"
	case "k":
		if zero {
			return "i " + g.Kind + " 0"
		}
		return "i " + g.Kind + " " + strconv.Itoa(histInts[r.Intn(len(histInts))])
	}
	panic("genLeaf " + g.Name)
}

// genStruct: a value of the declared layout g for the UDT schema fs (fields whose tag the UDT does not have stay zero:
// they are not transported) or, for an untagged layout, the tuple type that fits it.
func genStruct(r *vh.Rng, g *valgen.GT, fs []udtField) (ty, val string) {
	if g.Name == "struct" {
		ty = "tuple " + strconv.Itoa(len(g.Elems))
		val = "st " + strconv.Itoa(len(g.Elems))
		for _, e := range g.Elems {
			b := e
			if b.Name == "ptr" {
				b = b.Elems[0]
			}
			if b.Name == "string" {
				ty += " " + []string{"text", "varchar", "text"}[r.Intn(3)]
			} else {
				ty += " int" // a tuple field is filled by Set from goType(elem): int <-> int only (KF-C02-4)
			}
			val += " " + genLeaf(r, e, false)
		}
		return
	}
	val = "us " + strconv.Itoa(len(g.Elems))
	for i, e := range g.Elems {
		in := false
		for _, f := range fs {
			if f.name == g.Names[i] {
				in = true
			}
		}
		val += " " + g.Names[i] + " " + genLeaf(r, e, !in)
	}
	return schemaTy(fs), val
}

func genCall(r *vh.Rng, proto int, g *valgen.GT, fs []udtField) string {
	flag := "N"
	if r.Intn(7) == 0 {
		flag = "A"
	}
	ty, val := genStruct(r, g, fs)
	gs := g.String()
	switch r.Intn(10) {
	case 0: // pointer to the struct
		val, gs = "ptr "+val, "ptr "+gs
	case 1, 2: // slice of structs
		n := 1 + r.Intn(2)
		vs := ""
		for i := 0; i < n; i++ {
			_, v := genStructFor(r, g, fs, ty)
			vs += " " + v
		}
		ty, val, gs = "list "+ty, "sl "+gs+" "+strconv.Itoa(n)+vs, "slice "+gs
	case 3: // array
		ty, val, gs = "list "+ty, "arr "+gs+" 1 "+val, "array 1 "+gs
	case 4: // map[string]struct
		ty, val, gs = "map text "+ty, "map string "+gs+" 1 s 6b "+val, "map string "+gs
	case 5: // slice of pointers
		ty, val, gs = "list "+ty, "sl ptr "+gs+" 1 ptr "+val, "slice ptr "+gs
	}
	return fmt.Sprintf("%s %d %s %s %s", flag, proto, ty, val, gs)
}

// genStructFor: a further value of the same layout for the column type already chosen.
func genStructFor(r *vh.Rng, g *valgen.GT, fs []udtField, ty string) (string, string) {
	if g.Name == "struct" {
		val := "st " + strconv.Itoa(len(g.Elems))
		for _, e := range g.Elems {
			val += " " + genLeaf(r, e, false)
		}
		return ty, val
	}
	return genStruct(r, g, fs)
}

// genHseq: n calls over a few look-alike types (so that every type follows every other one and comes back later).
func genHseq(r *vh.Rng, n int) string {
	proto := 2 + r.Intn(3)
	fs := genSchema(r)
	// a working set of look-alike layouts: the types whose tags the schema knows best
	var cand []*valgen.GT
	for _, g := range declGTs {
		cand = append(cand, g)
	}
	k := 2 + r.Intn(4)
	var set []*valgen.GT
	for tries := 0; len(set) < k && tries < 400; tries++ {
		g := cand[r.Intn(len(cand))]
		if g.Name == "ustruct" {
			hit := 0
			for _, nm := range g.Names {
				for _, f := range fs {
					if f.name == nm {
						hit++
					}
				}
			}
			if hit < 2 && tries < 300 {
				continue
			}
		} else if r.Intn(3) != 0 {
			continue
		}
		set = append(set, g)
	}
	var calls []string
	for i := 0; i < n; i++ {
		g := set[r.Intn(len(set))]
		f := fs
		if r.Intn(6) == 0 { // the UDT of the same name with other fields
			f = genSchema(r)
		}
		calls = append(calls, genCall(r, proto, g, f))
	}
	return "hseq " + strconv.Itoa(n) + " ; " + strings.Join(calls, " ; ")
}

func hseqClass(ans string) string {
	switch {
	case strings.Contains(ans, "diff:"):
		return "diff"
	case strings.Contains(ans, "crash"):
		return "crash"
	case !strings.HasSuffix(ans, "late:ok"):
		return "late"
	case strings.Contains(ans, "err"):
		return "err"
	}
	return "same"
}
