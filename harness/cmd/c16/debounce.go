// C16, refresh-debouncer unit tier ("requests arriving DURING a refresh"): the REAL refreshDebouncer
// (gocql.VerifRefreshDeb: one hour interval, a refreshFn that reports its start and blocks until released, the
// armed timer made to expire by hand = logical time) driven through random schedules of
//
//	evdbreq    debounce()
//	evdbnow    refreshNow()
//	evdbfire   time passes until the timer (if it is running) expires
//	evdbrel    the running refreshFn returns
//	evdbdrain  evdbrel, evdbfire, evdbrel
//
// by ONE controlling goroutine. Every decision is on event order: an op waits for exactly the effects that the
// state of the real debouncer BEFORE the op makes certain (a refresh start when the idle flusher's channel gets a
// value, the value in timer.C when the timer expires while refreshFn runs), so the answer — what the debouncer
// looks like under its mutex afterwards and how many refreshes have started — does not depend on timing. The
// 15 s + 15 s watchdog only ends a wait that can no longer succeed: then the answer says `hung` together with what
// the flusher goroutine is blocked in. `evdbserved` is the property's oracle on the real history: every request
// (debounce / refreshNow) was followed by a refresh that STARTED after it (C16_refresh_request_not_lost,
// C16_debouncer_oracle_ok), and every refreshNow() caller got its answer.
package main

import (
	"fmt"
	"runtime"
	"strings"
	"time"

	"github.com/gocql/gocql"
	"verifharness/vh"
)

const debWatchdog = 15 * time.Second

type debWorld struct {
	v         *gocql.VerifRefreshDeb
	started   int // refresh starts observed
	released  int // refreshFn calls released
	reqs      []int
	listeners []debListener
	early     []int
	hung      string
}

// a caller of refreshNow(): its position among the requests, the channel it listens on
type debListener struct {
	req      int
	ch       <-chan error
	answered bool
}

// pollListeners: which callers of refreshNow() have their answer. An answer is the result of a refresh that has
// returned, i.e. of one of the first `released` refreshes: if the caller made its call when that many (or more) had
// already started, it was handed the result of a refresh that started before its call.
func (d *debWorld) pollListeners() {
	for i := range d.listeners {
		l := &d.listeners[i]
		if l.answered {
			continue
		}
		select {
		case <-l.ch:
			l.answered = true
			if d.released <= d.reqs[l.req] {
				d.early = append(d.early, l.req)
			}
		default:
		}
	}
}

func (d *debWorld) close() {
	if d != nil && d.v != nil {
		d.v.Stop()
		d.v = nil
	}
}

// flusherState: what the debouncer's flusher goroutines are blocked in, from a goroutine dump ("select", …)
func flusherState() string {
	buf := make([]byte, 1<<22)
	buf = buf[:runtime.Stack(buf, true)]
	seen := map[string]bool{}
	var out []string
	for _, g := range strings.Split(string(buf), "\n\n") {
		if !strings.Contains(g, "refreshDebouncer).flusher") {
			continue
		}
		st := g[strings.Index(g, "[")+1:]
		if i := strings.IndexAny(st, "],"); i >= 0 {
			st = st[:i]
		}
		st = strings.ReplaceAll(st, " ", "-")
		if !seen[st] {
			seen[st] = true
			out = append(out, st)
		}
	}
	if len(out) == 0 {
		return "no-flusher"
	}
	return strings.Join(out, "+")
}

// waitStart waits for the next refreshFn call to start
func (d *debWorld) waitStart() bool {
	for w := 0; w < 2; w++ { // a second window confirms the first (a stalled machine is not a lost request)
		select {
		case k := <-d.v.Started():
			d.started = k
			d.pollListeners() // the flusher is inside refreshFn: every broadcast of the refreshes before is done
			return true
		case <-time.After(debWatchdog):
		}
	}
	d.hung = "hung:no-refresh-started:flusher-in-" + flusherState()
	return false
}

// waitFired waits until the expired timer's value is in timer.C (refreshFn is running: nobody takes it)
func (d *debWorld) waitFired() bool {
	t0 := time.Now()
	for {
		if d.v.Fired() {
			return true
		}
		if time.Since(t0) > 2*debWatchdog {
			d.hung = "hung:timer-did-not-fire"
			return false
		}
		time.Sleep(50 * time.Microsecond)
	}
}

func b01(b bool) string {
	if b {
		return "1"
	}
	return "0"
}

func (d *debWorld) state() string {
	if d.hung != "" {
		return d.hung
	}
	timer, fired, tok, bc := d.v.State()
	ph := "idle"
	if d.started > d.released {
		ph = "run"
	}
	return fmt.Sprintf("ph=%s timer=%s fired=%s tok=%s bc=%s n=%d", ph, b01(timer), b01(fired), b01(tok), b01(bc), d.started)
}

func (d *debWorld) running() bool { return d.started > d.released }

func (d *debWorld) release() {
	if !d.running() {
		return
	}
	_, fired, tok, _ := d.v.State() // stable: the flusher is inside refreshFn
	if !d.v.Release(2 * debWatchdog) {
		d.hung = "hung:refreshFn-not-running"
		return
	}
	d.released++
	if fired || tok {
		d.waitStart() // the flusher finds a value in one of its channels: the next refresh starts
	}
}

func (d *debWorld) fire() {
	if !d.v.Fire() {
		return // the timer is not running: time passes, nothing happens
	}
	for t0 := time.Now(); !d.v.FireExpired(); time.Sleep(20 * time.Microsecond) {
		if time.Since(t0) > 2*debWatchdog {
			d.hung = "hung:timer-did-not-expire"
			return
		}
	}
	if d.running() {
		d.waitFired()
	} else {
		d.waitStart()
	}
}

func debExec(w *world, f []string) string {
	if f[0] == "reset" {
		w.deb.close()
		w.deb = &debWorld{v: gocql.NewVerifRefreshDeb()}
		return "ok"
	}
	d := w.deb
	if d == nil || d.v == nil {
		return "bad-op"
	}
	if d.hung != "" {
		return d.hung
	}
	switch f[0] {
	case "evdbreq":
		d.reqs = append(d.reqs, d.started)
		d.v.Debounce()
	case "evdbnow":
		_, _, _, bc := d.v.State()
		d.reqs = append(d.reqs, d.started)
		d.listeners = append(d.listeners, debListener{req: len(d.reqs) - 1, ch: d.v.RefreshNow()})
		if !d.running() && !bc {
			d.waitStart() // a token went into refreshNowCh and the flusher is in its select
		}
	case "evdbfire":
		d.fire()
	case "evdbrel":
		d.release()
	case "evdbdrain":
		d.release()
		if d.hung == "" {
			d.fire()
		}
		if d.hung == "" {
			d.release()
		}
	case "evdbserved":
		var lost []int
		for i, r := range d.reqs {
			if d.started <= r {
				lost = append(lost, i)
			}
		}
		if len(lost) > 0 {
			return "lost:" + joinInts(lost)
		}
		// every refreshNow() caller gets the result of a refresh (broadcast after refreshFn returned) that started after its call
		d.pollListeners()
		if len(d.early) > 0 {
			return "early:" + joinInts(d.early)
		}
		var un []int
		for i := range d.listeners {
			l := &d.listeners[i]
			for w := 0; w < 2 && !l.answered; w++ {
				patience := debWatchdog
				if len(un) > 0 {
					patience = time.Millisecond // the others have had the two windows of the first one as well
				}
				select {
				case <-l.ch:
					l.answered = true
				case <-time.After(patience):
				}
			}
			if !l.answered {
				un = append(un, l.req)
			}
		}
		if len(un) > 0 {
			return "unanswered:" + joinInts(un)
		}
		return "ok"
	default:
		return "bad-op"
	}
	return d.state()
}

// runDebouncer generates the schedules. Most of them put requests inside a refresh: after a start the next ops are
// drawn with the refresh still running more often than not.
func runDebouncer(r *vh.Rng, out *vh.Out, tier string) {
	scen := 400
	if tier == "thorough" {
		scen *= 30
	}
	w := &world{}
	emit := func(op, class string) string {
		a := w.exec(op)
		out.Case(op, a, class, true)
		return a
	}
	for i := 0; i < scen; i++ {
		emit("reset evdb", "evdb/new-debouncer")
		n := 3 + r.Intn(14)
		for k := 0; k < n; k++ {
			running := w.deb != nil && w.deb.running()
			x := r.Intn(100)
			when := "flusher-idle"
			cut := [4]int{40, 55, 90, 95}
			if running {
				when = "DURING-a-refresh"
				cut = [4]int{40, 52, 70, 93}
			}
			var a string
			switch {
			case x < cut[0]:
				a = emit("evdbreq", "evdb/debounce/"+when)
			case x < cut[1]:
				a = emit("evdbnow", "evdb/refreshNow/"+when)
			case x < cut[2]:
				a = emit("evdbfire", "evdb/timer-expires/"+when)
			case x < cut[3]:
				a = emit("evdbrel", "evdb/refresh-returns/"+when)
			default:
				a = emit("evdbdrain", "evdb/drain")
				emit("evdbserved", "evdbserved/spec-backed")
			}
			if strings.HasPrefix(a, "hung") || strings.HasPrefix(a, "crash") {
				break
			}
		}
		emit("evdbdrain", "evdb/drain")
		if a := emit("evdbserved", "evdbserved/spec-backed"); strings.HasPrefix(a, "hung") || strings.HasPrefix(a, "unanswered") {
			break // every further schedule of this kind would cost two watchdog windows: one concrete history is enough
		}
	}
	w.deb.close()
}
