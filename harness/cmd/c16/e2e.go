// C16, E2E tier: a REAL gocql Session created by NewSession, WITH its control connection, event
// registration, both debouncers (1 s windows) and real connection pools, on an in-memory cluster
// (harness/memcluster) whose control plane serves scripted system.local / system.peers rows that change per
// step, pushes EVENT frames on the registered control connection, drops the control connection and fails
// refresh queries. After every step the harness waits for quiescence (order-only: it polls the snapshot
// hooks until they are stable and equal to what the step is expected to produce, with a generous watchdog;
// a wrong expectation only costs time, the verdict is always the diff of the final snapshot against the
// Lean model) and the snapshot of ring / pools / policy / host states is compared with the model.
package main

import (
	"bufio"
	"errors"
	"fmt"
	"io/ioutil"
	"log"
	"net"
	"os"
	"os/exec"
	"sort"
	"strconv"
	"strings"
	"sync"
	"time"

	"github.com/gocql/gocql"
	"verifharness/memcluster"
	"verifharness/vh"
)

const e2eWatchdog = 20 * time.Second

// e2eState is the harness's own expectation of the quiesced state (used ONLY to know when to stop waiting)
type e2eExp struct{ up, pool bool }

func e2eSnapString(sn gocql.VerifEvSnap) string {
	var ips []int
	rev := map[int]string{}
	for k, v := range sn.RingByIP {
		n := evIPNum(net.ParseIP(k))
		ips = append(ips, n)
		rev[n] = v
	}
	sort.Ints(ips)
	var b []string
	for _, n := range ips {
		b = append(b, fmt.Sprintf("%d:%d", n, evIDNum(rev[n])))
	}
	return "ring=" + hostMap(sn.RingByID) + " ips=" + join(b) + " pools=" + hostMap(sn.Pools) +
		" ta=" + hostSet(sn.TA) + " loc=" + hostSet(sn.Local) + " rem=" + hostSet(sn.Remote)
}

// matches: the real snapshot shows exactly the expected hosts, each with the expected state, pool (with a live
// connection) and fallback-policy membership
func e2eMatches(sn gocql.VerifEvSnap, exp map[int]e2eExp) bool {
	if len(sn.RingByID) != len(exp) {
		return false
	}
	fb := map[*gocql.HostInfo]bool{}
	for _, l := range [][]*gocql.HostInfo{sn.Local, sn.Remote} {
		for _, h := range l {
			fb[h] = true
		}
	}
	npools := 0
	for k, h := range sn.RingByID {
		x, ok := exp[evIDNum(k)]
		if !ok || h.IsUp() != x.up {
			return false
		}
		_, pool := sn.Pools[k]
		if pool != x.pool || (pool && sn.PoolConns[k] < 1) {
			return false
		}
		if pool {
			npools++
		}
		if fb[h] != (x.up && x.pool) {
			return false
		}
	}
	return npools == len(sn.Pools)
}

// settle waits for quiescence and returns the final snapshot
func (e *evWorld) settle(exp map[int]e2eExp, waitPeers int, minWait time.Duration) gocql.VerifEvSnap {
	start := time.Now()
	if waitPeers >= 0 {
		for time.Since(start) < e2eWatchdog {
			if _, p := e.cp.Counts(); p > waitPeers {
				break
			}
			time.Sleep(5 * time.Millisecond)
		}
	}
	last := ""
	stableSince := time.Now()
	for {
		sn := e.snap()
		s := e2eSnapString(sn)
		if s != last {
			last, stableSince = s, time.Now()
		}
		el := time.Since(start)
		stable := time.Since(stableSince)
		if el >= minWait && e2eMatches(sn, exp) && stable >= 60*time.Millisecond {
			return sn
		}
		// fallback when the expectation is never met: both debounce windows have certainly elapsed and nothing moves
		if el >= minWait+3*time.Second && stable >= 2500*time.Millisecond {
			return sn
		}
		if el >= e2eWatchdog {
			return sn
		}
		time.Sleep(10 * time.Millisecond)
	}
}

func e2eAccepted(rows []evRow) map[int]specHost {
	acc := map[int]specHost{}
	for _, h := range specReported(rows) {
		if h.dc != 3 {
			acc[h.id] = h
		}
	}
	return acc
}

// expectation after a refresh with these rows: accepted ids; hosts that stay keep their expectation unless
// their address changed (replaced: new object, up, pool); new hosts are up with a pool
func (e *evWorld) expectRefresh(rows []evRow, sn gocql.VerifEvSnap) {
	acc := e2eAccepted(rows)
	cur := map[int]*gocql.HostInfo{}
	for k, h := range sn.RingByID {
		cur[evIDNum(k)] = h
	}
	ne := map[int]e2eExp{}
	for id, want := range acc {
		old, had := e.exp[id]
		h := cur[id]
		if had && h != nil {
			na, cf, _ := gocql.VerifHostAddrs(h)
			if evIPNum(na) == want.addr && evIPNum(cf) == want.caddr {
				ne[id] = old
				continue
			}
		}
		ne[id] = e2eExp{true, true}
	}
	e.exp = ne
}

func (e *evWorld) expectBatch(b []evEvent, sn gocql.VerifEvSnap) (refresh bool) {
	last := map[int]byte{}
	for _, ev := range b {
		if ev.kind == 't' {
			if !e.topoOff {
				refresh = true
			}
			continue
		}
		last[ev.addr] = ev.kind
	}
	if e.statusOff {
		return
	}
	for a, k := range last {
		id, known := sn.RingByIP[ipKey(a)]
		if !known {
			if k == 'u' {
				refresh = true
			}
			continue
		}
		h := sn.RingByID[id]
		if h == nil || !evFilter.Accept(h) {
			continue
		}
		switch k {
		case 'u':
			e.exp[evIDNum(id)] = e2eExp{true, true}
		case 'd':
			e.exp[evIDNum(id)] = e2eExp{false, false}
		}
	}
	return
}

// pushBatch sends the burst on the control connection, all frames back to back in ONE write: gocql reads them one after
// the other and hands each to the event debouncer before it reads the next (Conn.recv calls handleEvent itself since
// the repair of KF-C16-2), so the debouncer's buffer is the wire order and "the last status of an address" is the
// last one written.
func (e *evWorld) pushBatch(b []evEvent) bool {
	var bodies [][]byte
	nt := 0
	for _, ev := range b {
		switch ev.kind {
		case 't':
			bodies = append(bodies, memcluster.TopologyEventBody([]string{"NEW_NODE", "REMOVED_NODE", "MOVED_NODE"}[nt%3], evIP(77), 9042))
			nt++
		case 'u':
			bodies = append(bodies, memcluster.StatusEventBody("UP", evIP(ev.addr), 9042))
		case 'd':
			bodies = append(bodies, memcluster.StatusEventBody("DOWN", evIP(ev.addr), 9042))
		default:
			bodies = append(bodies, memcluster.StatusEventBody("JOINING", evIP(ev.addr), 9042))
		}
	}
	if len(bodies) == 0 {
		return true
	}
	return e.cp.PushEvents(bodies...)
}

func (e *evWorld) setRows(rows []evRow) {
	e.cp.Do(func() { e.local, e.peers = rows[0], rows[1:] })
}

func (e *evWorld) noteRefresh(rows []evRow) {
	e.notePrev()
	e.lastRows = rows
}

// e2eExec executes one E2E op on a real Session
func e2eExec(w *world, f []string) (res string) {
	defer func() {
		if r := recover(); r != nil {
			res = crashClass(r)
		}
	}()
	if f[0] == "reset" {
		w.ev.close()
		w.ev = nil
		if len(f) != 6 {
			return "bad-op"
		}
		pol := evPolicy(f[2])
		rows := parseEvRows(f[5])
		if pol == nil || len(rows) == 0 {
			return "bad-op"
		}
		e := &evWorld{policy: pol, objs: map[int]*gocql.HostInfo{}, tracked: map[*gocql.HostInfo]bool{}, prevIDs: map[int]bool{},
			prevObjs: map[*gocql.HostInfo]bool{}, tokenAw: strings.HasPrefix(f[2], "ta"),
			statusOff: strings.Contains(f[3], "S"), topoOff: strings.Contains(f[3], "T"), exp: map[int]e2eExp{}}
		var ips []string
		for a := 2; a <= 60; a++ {
			ips = append(ips, evIP(a).String(), evIP(100+a).String())
		}
		e.cl = memcluster.NewCluster(4, ips...)
		e.cp = memcluster.NewControlPlane(e.cl)
		e.local, e.peers = rows[0], rows[1:]
		e.cp.Local = func(string) memcluster.SysRow { return e.local.sys(true) }
		e.cp.Peers = func(string) []memcluster.SysRow {
			var out []memcluster.SysRow
			for _, r := range e.peers {
				out = append(out, r.sys(false))
			}
			return out
		}
		cfg := gocql.NewCluster(evIP(atoi(f[4])).String())
		cfg.ProtoVersion = 4
		cfg.HostDialer = e.cl
		cfg.NumConns = 1
		cfg.Timeout = 3 * time.Second
		if strings.Contains(f[3], "H") {
			// scenarios in which the control node holds an answer back (e2ehold): the hold lasts as long as the driver's
			// two debounce windows take, it must not run into the query timeout
			cfg.Timeout = 90 * time.Second
		}
		cfg.ConnectTimeout = 3 * time.Second
		cfg.ReconnectInterval = 0
		cfg.WriteCoalesceWaitTime = 0
		cfg.Logger = log.New(ioutil.Discard, "", 0)
		cfg.HostFilter = evFilter
		cfg.PoolConfig.HostSelectionPolicy = pol
		cfg.Consistency = gocql.One
		cfg.ReconnectionPolicy = &gocql.ConstantReconnectionPolicy{MaxRetries: 1, Interval: time.Millisecond}
		cfg.Events.DisableSchemaEvents = true
		cfg.Events.DisableTopologyEvents = e.topoOff
		cfg.Events.DisableNodeStatusEvents = e.statusOff
		s, err := cfg.CreateSession()
		if err != nil {
			return "err:setup"
		}
		e.sess = &gocql.VerifEvSession{S: s}
		w.ev = e
		for id := range e2eAccepted(rows) {
			e.exp[id] = e2eExp{true, true}
		}
		sn := e.settle(e.exp, -1, 0)
		return "ok " + e2eSnapString(sn)
	}
	e := w.ev
	if e == nil || e.sess == nil || e.cp == nil {
		return "bad-op"
	}
	switch f[0] {
	case "e2eevents", "e2efail":
		b := parseEvBatch(f[1])
		fail := f[0] == "e2efail"
		if !fail {
			rows := parseEvRows(f[2])
			if len(rows) == 0 {
				return "bad-op"
			}
			e.setRows(rows)
		} else {
			e.cp.Do(func() { e.cp.FailPeers = true })
		}
		sn0 := e.snap()
		e.trackBatch(sn0, b, e.statusOff)
		refresh := e.expectBatch(b, sn0)
		_, p0 := e.cp.Counts()
		e.peers0 = p0
		if !e.pushBatch(b) {
			return "err:no-control-connection"
		}
		wait := -1
		if refresh {
			wait = p0
			if !fail {
				// the refresh sees the ring as the batch left it: take the expectation after the status handlers ran
				rows := parseEvRows(f[2])
				e.noteRefreshAfterBatch(rows)
				e.expectRefresh(rows, sn0)
			}
		}
		sn := e.settle(e.exp, wait, 1050*time.Millisecond)
		if fail {
			e.cp.Do(func() { e.cp.FailPeers = false })
		}
		_, p1 := e.cp.Counts()
		r := "0"
		if p1 > p0 {
			r = "1"
		}
		return "refreshed=" + r + " " + e2eSnapString(sn)
	case "e2ehold":
		// requests arriving DURING a refresh: burst A makes the driver refresh; the control node holds its answer to
		// system.peers (the table as it was when the query arrived: rowsA); the cluster changes to rowsB and says so
		// (burst B: topology events / UP of an address the driver does not know), which the driver turns into a refresh
		// request WHILE the first refresh is still waiting; then the answer is released. After quiescence the view must
		// follow rowsB, the LATEST report.
		if len(f) != 5 {
			return "bad-op"
		}
		bA, rowsA, bB, rowsB := parseEvBatch(f[1]), parseEvRows(f[2]), parseEvBatch(f[3]), parseEvRows(f[4])
		if len(rowsA) == 0 || len(rowsB) == 0 {
			return "bad-op"
		}
		e.setRows(rowsA)
		sn0 := e.snap()
		e.trackBatch(sn0, bA, e.statusOff)
		if !e.expectBatch(bA, sn0) {
			return "err:no-refresh"
		}
		_, p0 := e.cp.Counts()
		e.peers0 = p0
		e.cp.HoldNextPeers(1)
		defer e.cp.ReleasePeers()
		if !e.pushBatch(bA) {
			return "err:no-control-connection"
		}
		for t0 := time.Now(); e.cp.HeldPeers() == 0; time.Sleep(5 * time.Millisecond) {
			if time.Since(t0) > e2eWatchdog {
				return "err:refresh-not-started"
			}
		}
		e.expectRefresh(rowsA, sn0)
		expA := e.exp
		// the first refresh is waiting for its answer; the cluster changes and tells
		e.setRows(rowsB)
		sn1 := e.snap()
		e.trackBatch(sn1, bB, e.statusOff)
		e.expectBatch(bB, sn1)
		if !e.pushBatch(bB) {
			return "err:no-control-connection"
		}
		// … until the driver has turned burst B into a refresh request (the refresh timer runs / has expired) — while the
		// first refresh is still in progress. (If that is never seen the answer is released all the same: the verdict is
		// the comparison of the quiesced view with the model, this wait only decides WHEN the node answers.)
		for t0 := time.Now(); !gocql.VerifRingRefreshPending(e.sess.S) && time.Since(t0) < e2eWatchdog; {
			time.Sleep(5 * time.Millisecond)
		}
		e.cp.ReleasePeers()
		// the ring the second refresh starts from (for the oracles' "new in the ring") is the ring after the first one
		for t0 := time.Now(); time.Since(t0) < e2eWatchdog; time.Sleep(2 * time.Millisecond) {
			if _, p := e.cp.Counts(); p > p0+1 || e2eMatches(e.snap(), expA) {
				break
			}
		}
		snA := e.snap()
		e.holdPrior = snA
		e.noteRefresh(rowsB)
		e.expectRefresh(rowsB, snA)
		sn := e.settle(e.exp, p0+1, 0)
		_, p1 := e.cp.Counts()
		return fmt.Sprintf("refreshed=%d %s", p1-p0, e2eSnapString(sn))
	case "e2edrop":
		rows := parseEvRows(f[1])
		if len(rows) == 0 {
			return "bad-op"
		}
		e.setRows(rows)
		sn0 := e.snap()
		_, p0 := e.cp.Counts()
		e.peers0 = p0
		e.noteRefreshAfterBatch(rows)
		e.expectRefresh(rows, sn0)
		if !e.cp.DropControl() {
			return "err:no-control-connection"
		}
		sn := e.settle(e.exp, p0, 0)
		return "refreshed=1 " + e2eSnapString(sn)
	case "e2efailover":
		succ := evIP(atoi(f[1])).String()
		rows := parseEvRows(f[2])
		if len(rows) == 0 {
			return "bad-op"
		}
		sn0 := e.snap()
		// every host the driver knows refuses new connections, except the successor: the reconnect loop (old control host
		// first, then the other hosts of the ring in a random order) can only end there
		var hooked []*memcluster.Node
		for _, h := range sn0.RingByID {
			_, _, ca := gocql.VerifHostAddrs(h)
			if ca == nil || ca.String() == succ {
				continue
			}
			if n := e.cl.Nodes[ca.String()]; n != nil {
				n.DialHook = func(*memcluster.Node, int) error {
					if e.cp.ControlConn() != nil {
						return nil // the driver has its control connection again: pools may connect (a new node may sit on this address)
					}
					return &net.OpError{Op: "dial", Err: errors.New("memcluster: connection refused")}
				}
				hooked = append(hooked, n)
			}
		}
		e.setRows(rows)
		_, p0 := e.cp.Counts()
		e.peers0 = p0
		e.noteRefreshAfterBatch(rows)
		e.expectRefresh(rows, sn0)
		if !e.cp.DropControl() {
			return "err:no-control-connection"
		}
		sn := e.settle(e.exp, p0, 0)
		for _, n := range hooked {
			n.DialHook = nil
		}
		reg := "0" // (with topology AND status events disabled the driver has nothing to REGISTER for)
		if sc := e.cp.ControlConn(); sc != nil && len(memcluster.Registered(sc)) > 0 {
			reg = "1"
		}
		return fmt.Sprintf("refreshed=1 ctl=%d reg=%s ", evIDNum(gocql.VerifControlHost(e.sess.S)), reg) + e2eSnapString(sn)
	case "e2eorder":
		// n STATUS_CHANGE frames for n different (unknown) addresses, written back to back: do they reach the
		// debouncer's buffer in wire order? (before the repair of KF-C16-2 each frame was handed over by its own goroutine)
		n := atoi(f[1])
		var bodies [][]byte
		var want []string
		for i := 0; i < n; i++ {
			ip := net.IPv4(10, 9, byte(i>>8), byte(i))
			bodies = append(bodies, memcluster.StatusEventBody("UP", ip, 9042))
			want = append(want, "UP "+ip.String())
		}
		if !e.cp.PushEvents(bodies...) {
			return "err:no-control-connection"
		}
		var got []string
		for t0 := time.Now(); time.Since(t0) < 900*time.Millisecond; time.Sleep(10 * time.Millisecond) {
			got = gocql.VerifNodeEventBuffer(e.sess.S)
			if len(got) >= n {
				break
			}
		}
		if len(got) != n {
			return fmt.Sprintf("incomplete:%d", len(got))
		}
		for i := range got {
			if got[i] != want[i] {
				return "reordered"
			}
		}
		return "inorder"
	case "e2ebound":
		_, p1 := e.cp.Counts()
		if d := p1 - e.peers0; d > 2 {
			return fmt.Sprintf("exceeded:%d", d)
		}
		return "ok"
	}
	return "bad-op"
}

// noteRefreshAfterBatch records, for the oracles, the ring ids the coming refresh starts from. Status events
// never change the ring, so the ids before the batch are the ids before the refresh.
func (e *evWorld) noteRefreshAfterBatch(rows []evRow) { e.noteRefresh(rows) }

// ---- generation

// runE2E runs every scenario in a CHILD PROCESS (this binary, mode `e2echild`): gocql handles events, refreshes and
// connects on its own goroutines, where a panic cannot be recovered and kills the process — in a child that is
// observed as the answer `crash:process-died` of the op in flight instead of taking the whole run down.
func runE2E(r *vh.Rng, out *vh.Out, tier string) {
	scen := 24
	if tier == "thorough" {
		scen = 160
	}
	seeds := make([]uint64, scen)
	for i := range seeds {
		seeds[i] = r.U64()
	}
	results := make([][]evCase, scen)
	var wg sync.WaitGroup
	sem := make(chan struct{}, 32)
	for i := 0; i < scen; i++ {
		wg.Add(1)
		sem <- struct{}{}
		go func(i int) {
			defer wg.Done()
			defer func() { <-sem }()
			results[i] = e2eParent(seeds[i], i)
		}(i)
	}
	wg.Wait()
	for _, cs := range results {
		for _, c := range cs {
			out.Case(c.op, c.ans, c.class, c.nt)
		}
	}
}

func e2eParent(seed uint64, idx int) []evCase {
	cmd := exec.Command(os.Args[0], "e2echild", strconv.FormatUint(seed, 10), strconv.Itoa(idx))
	cmd.Stderr = nil
	stdout, err := cmd.StdoutPipe()
	if err != nil || cmd.Start() != nil {
		return []evCase{{"reset e2e - - 0 -", "fatal:cannot-start-child", "e2e/child", false}}
	}
	var cases []evCase
	pending := "" // op announced, answer not yet seen
	pclass := ""
	sc := bufio.NewScanner(stdout)
	sc.Buffer(make([]byte, 1<<20), 1<<26)
	for sc.Scan() {
		f := strings.SplitN(sc.Text(), "\t", 3)
		switch {
		case f[0] == "B" && len(f) == 3:
			pending, pclass = f[2], f[1]
		case f[0] == "E" && len(f) >= 2 && pending != "":
			cases = append(cases, evCase{pending, strings.Join(f[1:], "\t"), pclass, true})
			pending = ""
		}
	}
	cmd.Wait()
	if pending != "" {
		cases = append(cases, evCase{pending, "crash:process-died", pclass, true})
	}
	return cases
}

// e2eChild runs one scenario and reports every op before (B) and after (E) executing it
func e2eChild(seedS, idxS string) {
	seed, _ := strconv.ParseUint(seedS, 10, 64)
	g := &evGen{r: vh.NewRng(seed), w: &world{}, child: bufio.NewWriter(os.Stdout)}
	g.e2e(atoi(idxS))
	g.w.ev.close()
	g.child.Flush()
}

func (g *evGen) e2e(idx int) {
	r := g.r
	pol, flags := g.pickPolicy()
	if idx%4 != 0 {
		flags = "-"
	}
	// a few scenarios contain one step in which the control node holds its answer to system.peers while the cluster
	// changes again (requests arriving DURING a refresh); each costs four debounce windows
	hold := idx%3 == 1 && idx%4 != 0
	if hold {
		flags = "H"
	}
	nextID, nextAddr := 1, 2
	newMember := func() member {
		m := member{id: nextID, addr: nextAddr, rpc: nextAddr, dc: 1}
		nextID++
		nextAddr++
		switch r.Intn(10) {
		case 0, 1, 2:
			m.dc = 2
		case 3:
			m.dc = 3
		}
		if r.Intn(6) == 0 {
			m.rpc = 100 + m.addr
		}
		return m
	}
	ctl := newMember()
	ctl.dc, ctl.rpc = 1, ctl.addr
	var peers []member
	for n := 2 + r.Intn(3); n > 0; n-- {
		peers = append(peers, newMember())
	}
	rows := func() []evRow {
		out := []evRow{ctl.row(true)}
		for _, p := range peers {
			out = append(out, p.row(false))
		}
		return out
	}
	ans := g.emit(fmt.Sprintf("reset e2e %s %s %d %s", pol, flags, ctl.addr, rowsStr(rows())), "e2e/new-session", true)
	if !strings.HasPrefix(ans, "ok ") {
		g.dead = true
	}
	steps := 4 + r.Intn(3)
	holdAt := -1
	if hold {
		holdAt = r.Intn(steps)
	}
	for k := 0; k < steps && !g.dead; k++ {
		sn := g.w.ev.snap()
		var known []int
		for ipS := range sn.RingByIP {
			known = append(known, evIPNum(net.ParseIP(ipS)))
		}
		sort.Ints(known)
		others := []int{nextAddr + 5, 58}
		statusBurst := func(n int) []evEvent {
			var b []evEvent
			focus := -1
			if len(known) > 0 {
				focus = known[r.Intn(len(known))]
			}
			for i := 0; i < n; i++ {
				a := focus
				if x := r.Intn(10); x < 4 && len(known) > 0 {
					a = known[r.Intn(len(known))]
				} else if x == 9 {
					a = others[r.Intn(len(others))]
				}
				kd := byte('u')
				if r.Intn(2) == 0 {
					kd = 'd'
				}
				if r.Intn(25) == 0 {
					kd = 'x'
				}
				if a == ctl.addr && kd == 'd' && r.Intn(3) != 0 {
					kd = 'u' // keep the control node mostly up (its pool is what queries would use)
				}
				b = append(b, evEvent{kd, a})
			}
			return b
		}
		// one change of the topology and the events that announce it; quiet = only what can be handled while a refresh
		// is in progress without racing with it (topology events, UP of an address the driver does not know)
		topoChange := func(quiet bool) (b []evEvent, cls string) {
			y := r.Intn(100)
			if quiet {
				y = []int{0, 10, 20, 35, 52, 95}[r.Intn(6)]
			}
			switch {
			case y < 30:
				m := newMember()
				peers = append(peers, m)
				b = append(b, evEvent{'t', 0})
				if r.Bool() {
					b = append(b, evEvent{'u', m.addr})
				}
				cls = "/new-node"
			case y < 50 && len(peers) > 1:
				i := r.Intn(len(peers))
				gone := peers[i]
				peers = append(peers[:i], peers[i+1:]...)
				b = append(b, evEvent{'t', 0})
				if r.Bool() && !quiet {
					b = append(b, evEvent{'d', gone.addr})
				}
				cls = "/removed-node"
			case y < 57 && len(peers) > 0:
				i := r.Intn(len(peers))
				peers[i].addr, peers[i].rpc = nextAddr, nextAddr
				nextAddr++
				b = append(b, evEvent{'t', 0})
				cls = "/moved-node"
			case y < 61 && len(peers) > 1:
				i := r.Intn(len(peers))
				j := (i + 1 + r.Intn(len(peers)-1)) % len(peers)
				peers[i].addr, peers[j].addr = peers[j].addr, peers[i].addr
				peers[i].rpc, peers[j].rpc = peers[j].rpc, peers[i].rpc
				b = append(b, evEvent{'t', 0})
				cls = "/swapped-addresses"
			case y < 65 && len(peers) > 0:
				i := r.Intn(len(peers))
				if r.Bool() { // a dead node replaced by a new host id on the same address
					peers[i].id = nextID
					nextID++
					cls = "/replaced-node"
				} else { // a node moves away and a new node appears on the address it left
					m := newMember()
					m.addr, m.rpc = peers[i].addr, peers[i].rpc
					peers[i].addr, peers[i].rpc = nextAddr, nextAddr
					nextAddr++
					peers = append([]member{m}, peers...)
					cls = "/moved-node+new-node-on-the-vacated-address"
				}
				b = append(b, evEvent{'t', 0})
			case y < 80 && len(peers) > 0:
				i := r.Intn(len(peers))
				peers[i].defect = []string{"norack", "nodc", "notok", "norpc"}[r.Intn(4)]
				b = append(b, evEvent{'t', 0})
				cls = "/invalid-row-" + peers[i].defect
			case y < 88 && len(peers) > 0:
				i := r.Intn(len(peers))
				peers[i].defect = ""
				b = append(b, evEvent{'t', 0})
				cls = "/row-repaired"
			default:
				m := newMember()
				peers = append(peers, m)
				b = append(b, evEvent{'u', m.addr}) // no NEW_NODE at all: the UP of an unknown address must trigger the refresh
				cls = "/new-node-seen-by-UP-only"
			}
			return
		}
		refreshed := false
		prior := sn
		x := r.Intn(100)
		if k == holdAt {
			x = 100
		}
		switch {
		case x == 100: // the topology changes twice, the second time while the refresh for the first is waiting for its answer
			bA, cA := topoChange(false)
			if r.Intn(3) == 0 {
				bA = append(bA, statusBurst(1+r.Intn(3))...)
			}
			rowsA := rows()
			bB, cB := topoChange(true)
			if r.Intn(3) == 0 { // a burst of topology events during the refresh: still one more refresh
				for i := 5 + r.Intn(40); i > 0; i-- {
					bB = append(bB, evEvent{'t', 0})
				}
				cB += "+burst"
			}
			a := g.emit(fmt.Sprintf("e2ehold %s %s %s %s", batchStr(bA), rowsStr(rowsA), batchStr(bB), rowsStr(rows())),
				"e2e/refresh-held"+cA+"/then-DURING-the-refresh"+cB, true)
			refreshed = strings.HasPrefix(a, "refreshed=") // also when the second refresh never came: the oracles judge the quiesced view against rowsB
			if g.w.ev != nil {
				prior = g.w.ev.holdPrior
			}
		case x < 30: // status events only
			b := statusBurst(1 + r.Intn(6))
			a := g.emit(fmt.Sprintf("e2eevents %s %s", batchStr(b), rowsStr(rows())), "e2e/status-burst", true)
			refreshed = strings.HasPrefix(a, "refreshed=1")
		case x < 70: // the topology changes and the cluster tells
			b, c := topoChange(false)
			cls := "e2e/topology" + c
			if r.Intn(3) == 0 {
				b = append(b, statusBurst(1+r.Intn(3))...)
			}
			if r.Intn(3) == 0 { // a big burst of topology events: still one refresh
				for i := 20 + r.Intn(100); i > 0; i-- {
					b = append(b, evEvent{'t', 0})
				}
				cls += "+burst"
			}
			a := g.emit(fmt.Sprintf("e2eevents %s %s", batchStr(b), rowsStr(rows())), cls, true)
			refreshed = strings.HasPrefix(a, "refreshed=1")
		case x < 82: // control connection reset (optionally after a change nobody announced)
			cls := "e2e/control-connection-lost"
			// a successor for the control connection: a peer the driver holds (valid row, accepted, reached at its node address)
			succ := -1
			for i, p := range peers {
				if _, inRing := sn.RingByID[evUUID(p.id)]; inRing && p.defect == "" && p.dc != 3 && p.rpc == p.addr {
					succ = i
					break
				}
			}
			if os.Getenv("VERIF_DEBUG") != "" {
				fmt.Fprintf(os.Stderr, "succ=%d peers=%v ring=%d\n", succ, peers, len(sn.RingByID))
			}
			if succ >= 0 && r.Bool() {
				// FAILOVER: the control host is gone for good; while no control connection exists the cluster changes (the
				// events are lost); the driver lands on the successor, whose tables are the cluster as it is now
				cls = "e2e/control-host-gone/failover-to-another-host"
				ctl = peers[succ]
				peers = append(peers[:succ], peers[succ+1:]...)
				switch r.Intn(3) {
				case 0:
					peers = append(peers, newMember())
					cls += "+new-node-during-the-gap"
				case 1:
					if len(peers) > 0 {
						i := r.Intn(len(peers))
						peers = append(peers[:i], peers[i+1:]...)
						cls += "+removed-node-during-the-gap"
					}
				}
				a := g.emit(fmt.Sprintf("e2efailover %d %s", ctl.rpc, rowsStr(rows())), cls, true)
				refreshed = strings.HasPrefix(a, "refreshed=1")
				break
			}
			if r.Bool() {
				peers = append(peers, newMember())
				cls += "+unannounced-new-node"
			}
			a := g.emit("e2edrop "+rowsStr(rows()), cls, true)
			refreshed = strings.HasPrefix(a, "refreshed=1")
		default: // the refresh fails
			b := []evEvent{{'t', 0}}
			b = append(b, statusBurst(r.Intn(3))...)
			g.emit("e2efail "+batchStr(b), "e2e/refresh-query-fails", true)
		}
		if g.dead {
			break
		}
		g.emit("e2ebound", "e2ebound/spec-backed", true)
		if refreshed {
			g.afterRefresh(prior, rows(), true)
		}
		if len(g.w.ev.tracked) > 0 {
			g.emit("evnotoffered", "evnotoffered/spec-backed", true)
		}
	}
	if !g.dead && !strings.Contains(flags, "S") { // (with status events disabled the driver does not REGISTER for them)
		// last op of the scenario (the UPs of unknown addresses request a refresh afterwards): 200 STATUS_CHANGE frames
		// in one write reach the node-event debouncer's buffer in wire order (C16_wire_order_last_wins)
		g.emit("e2eorder 200", "e2eorder/spec-backed", true)
	}
}
