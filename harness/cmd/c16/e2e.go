package main

import "verifharness/vh"

func e2eExec(w *world, f []string) string { return "bad-op" }

func runE2E(r *vh.Rng, out *vh.Out, tier string) {}
