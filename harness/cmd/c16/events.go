// C16, LOGICAL tier: a dial-free REAL gocql Session (real ring, real pool object with NumConns = 0, real
// selection policy) on which the real handleNodeEvent / handleNodeUp / handleNodeDown /
// handleNodeConnected / Session.removeHost / refreshRing (through a real control connection to an
// in-memory node whose system.local / system.peers are scripted) are called; after every call the
// snapshot of ring / pools / policy lists / host states / "a ring refresh was requested" is compared
// with the Lean model (Model/ClusterView.lean, driver ops `reset ev…`, `ev…`).
package main

import (
	"bufio"
	"errors"
	"fmt"
	"net"
	"os"
	"sort"
	"strconv"
	"strings"
	"sync"

	"github.com/gocql/gocql"
	"verifharness/memcluster"
	"verifharness/vh"
)

// ---- number <-> value mappings (shared with the op lines)

// evIP: 0 = nil, 1 = 0.0.0.0, n >= 2 = 10.2.hi.lo
func evIP(a int) net.IP {
	switch {
	case a == 0:
		return nil
	case a == 1:
		return net.IPv4zero
	}
	return net.IPv4(10, 2, byte(a>>8), byte(a))
}

func evIPStr(a int) string {
	if a == 0 {
		return ""
	}
	return evIP(a).String()
}

func evIPNum(p net.IP) int {
	if p == nil {
		return 0
	}
	q := p.To4()
	if q == nil || q.Equal(net.IPv4zero) {
		return 0
	}
	return int(q[2])<<8 | int(q[3])
}

func evUUID(id int) string {
	if id == 0 {
		return ""
	}
	return fmt.Sprintf("00000000-0000-0000-0000-%012x", id)
}

// evIDNum: "id-N" (harness built hosts), a uuid as produced by evUUID (hosts built from rows), "" = 0
func evIDNum(s string) int {
	if s == "" {
		return 0
	}
	if strings.HasPrefix(s, "id-") {
		return atoi(strings.TrimPrefix(s, "id-"))
	}
	if len(s) == 36 {
		n, err := strconv.ParseInt(s[24:], 16, 64)
		if err == nil {
			return int(n)
		}
	}
	return -1
}

func evDC(n int) string {
	if n == 0 {
		return ""
	}
	return fmt.Sprintf("dc%d", n)
}

type evRow struct{ id, peer, rpc, bcast, dc, rack, tok int }

func (r evRow) String() string {
	return fmt.Sprintf("%d:%d:%d:%d:%d:%d:%d", r.id, r.peer, r.rpc, r.bcast, r.dc, r.rack, r.tok)
}

func parseEvRows(s string) []evRow {
	var out []evRow
	if s == "-" {
		return out
	}
	for _, w := range strings.Split(s, ";") {
		f := strings.Split(w, ":")
		if len(f) != 7 {
			continue
		}
		out = append(out, evRow{atoi(f[0]), atoi(f[1]), atoi(f[2]), atoi(f[3]), atoi(f[4]), atoi(f[5]), atoi(f[6])})
	}
	return out
}

func rowsStr(rows []evRow) string {
	if len(rows) == 0 {
		return "-"
	}
	var l []string
	for _, r := range rows {
		l = append(l, r.String())
	}
	return strings.Join(l, ";")
}

func (r evRow) sys(local bool) memcluster.SysRow {
	row := memcluster.SysRow{"release_version": "3.11.4", "schema_version": "11111111-1111-1111-1111-111111111111"}
	if r.id != 0 {
		row["host_id"] = evUUID(r.id)
	}
	if r.rpc != 0 {
		row["rpc_address"] = evIPStr(r.rpc)
	}
	if r.dc != 0 {
		row["data_center"] = evDC(r.dc)
	}
	if r.rack != 0 {
		row["rack"] = fmt.Sprintf("r%d", r.rack)
	}
	if r.tok != 0 {
		var t []string
		for i := 0; i < r.tok; i++ {
			t = append(t, strconv.Itoa(r.id*1000+i))
		}
		row["tokens"] = t
	}
	if local {
		row["key"] = "local"
		row["bootstrapped"] = "COMPLETED"
		row["cluster_name"] = "memcluster"
		row["cql_version"] = "3.4.4"
		row["native_protocol_version"] = "4"
		row["partitioner"] = "org.apache.cassandra.dht.Murmur3Partitioner"
		if r.bcast != 0 {
			row["broadcast_address"] = evIPStr(r.bcast)
			row["listen_address"] = evIPStr(r.bcast)
		}
	} else if r.peer != 0 {
		row["peer"] = evIPStr(r.peer)
	}
	return row
}

// ---- the real session under test

type evWorld struct {
	sess   *gocql.VerifEvSession
	policy gocql.HostSelectionPolicy
	objs   map[int]*gocql.HostInfo
	cl     *memcluster.Cluster
	cp     *memcluster.ControlPlane
	mu     sync.Mutex
	local  evRow
	peers  []evRow
	// oracle bookkeeping
	statusOff bool
	topoOff   bool
	exp       map[int]e2eExp           // E2E tier: the harness's expectation of the quiesced state (wait condition only)
	peers0    int                      // E2E tier: system.peers queries seen before the last step
	tracked   map[*gocql.HostInfo]bool // objects reported DOWN by an event and not connected since
	prevIDs   map[int]bool             // host ids of the ring before the last evrefresh
	prevObjs  map[*gocql.HostInfo]bool // objects of the ring before the last evrefresh
	lastRows  []evRow                  // rows of the last evrefresh
	tokenAw   bool                     // the policy is token aware (its own host list is checked too)
	holdPrior gocql.VerifEvSnap        // E2E tier, e2ehold: the snapshot between the two refreshes
}

// ---- the property's oracles, evaluated on the real snapshot

// trackDown: a DOWN event for address a marks the known, unfiltered host of that address
func (e *evWorld) trackDown(sn gocql.VerifEvSnap, a int) {
	id, ok := sn.RingByIP[ipKey(a)]
	if !ok {
		return
	}
	h := sn.RingByID[id]
	if h == nil || !evFilter.Accept(h) {
		return
	}
	e.tracked[h] = true
}

func (e *evWorld) trackBatch(sn gocql.VerifEvSnap, b []evEvent, statusDisabled bool) {
	if statusDisabled {
		return
	}
	last := map[int]byte{}
	var order []int
	for _, ev := range b {
		if isTopo(ev.kind) {
			continue
		}
		if _, ok := last[ev.addr]; !ok {
			order = append(order, ev.addr)
		}
		last[ev.addr] = ev.kind
	}
	for _, a := range order {
		if last[a] == 'd' {
			e.trackDown(sn, a)
		}
	}
}

// notOffered: no tracked object is up, listed by the policy and owner of a pool at the same time
func (e *evWorld) notOffered() string {
	sn := e.snap()
	inPol := map[*gocql.HostInfo]bool{}
	for _, l := range [][]*gocql.HostInfo{sn.TA, sn.Local, sn.Remote} {
		for _, h := range l {
			inPol[h] = true
		}
	}
	for h := range e.tracked {
		if _, pool := sn.Pools[h.HostID()]; h.IsUp() && inPol[h] && pool {
			return "offered"
		}
	}
	return "ok"
}

type specHost struct{ id, addr, caddr, dc int }

// specReported: the property's reported set for the rows: local host + peers rows with all of rpc_address, host_id,
// data_center, rack, tokens; node address = broadcast_address else peer; connect address = first usable of
// rpc_address, broadcast_address, peer (rows without any usable address are not hosts)
func specReported(rows []evRow) []specHost {
	var out []specHost
	for i, r := range rows {
		valid := func(a int) bool { return a >= 2 }
		ca := 0
		for _, a := range []int{r.rpc, r.bcast, r.peer} {
			if valid(a) {
				ca = a
				break
			}
		}
		if ca == 0 {
			continue
		}
		na := 0
		if valid(r.bcast) {
			na = r.bcast
		} else if valid(r.peer) {
			na = r.peer
		}
		if i > 0 && (r.rpc == 0 || r.id == 0 || r.dc == 0 || r.rack == 0 || r.tok == 0) {
			continue
		}
		out = append(out, specHost{r.id, na, ca, r.dc})
	}
	return out
}

func (e *evWorld) follows() string {
	sn := e.snap()
	acc := map[int]specHost{} // accepted reported hosts by id: of a host id reported twice the first row counts
	var accList []specHost
	for _, h := range specReported(e.lastRows) {
		if h.dc != 3 {
			if _, dup := acc[h.id]; !dup {
				acc[h.id] = h
				accList = append(accList, h)
			}
		}
	}
	var bad []int
	add := func(n int) {
		if len(bad) == 0 || bad[len(bad)-1] != n {
			bad = append(bad, n)
		}
	}
	ring := map[int]*gocql.HostInfo{}
	for k, h := range sn.RingByID {
		ring[evIDNum(k)] = h
	}
	for id := range ring {
		if _, ok := acc[id]; !ok {
			add(1)
		}
	}
	for id := range acc {
		if _, ok := ring[id]; !ok {
			add(2)
		}
	}
	for k := range sn.Pools {
		if _, ok := acc[evIDNum(k)]; !ok {
			add(3)
		}
	}
	for _, l := range [][]*gocql.HostInfo{sn.TA, sn.Local, sn.Remote} {
		for _, h := range l {
			if _, ok := acc[evIDNum(h.HostID())]; !ok {
				add(4)
			}
		}
	}
	for id := range ring {
		if !e.prevIDs[id] {
			if _, ok := sn.Pools[e.idStr(id)]; !ok {
				add(5)
			}
		}
	}
	for _, want := range accList {
		id := want.id
		h, ok := ring[id]
		if !ok {
			add(6)
			continue
		}
		na, cf, _ := gocql.VerifHostAddrs(h)
		if evIPNum(na) != want.addr || evIPNum(cf) != want.caddr {
			add(6)
		}
	}
	sort.Ints(bad)
	var out []int
	for i, n := range bad {
		if i == 0 || bad[i-1] != n {
			out = append(out, n)
		}
	}
	if len(out) == 0 {
		return "ok"
	}
	return "violated:" + joinInts(out)
}

// inPolicy: every object of the ring that was not in the ring before the refresh (a new node, or the new object of a
// node whose address changed) is in one of the fallback policy's lists and, for a token-aware policy, in its own list
func (e *evWorld) inPolicy() string {
	sn := e.snap()
	fb := map[*gocql.HostInfo]bool{}
	for _, l := range [][]*gocql.HostInfo{sn.Local, sn.Remote} {
		for _, h := range l {
			fb[h] = true
		}
	}
	ta := map[*gocql.HostInfo]bool{}
	for _, h := range sn.TA {
		ta[h] = true
	}
	var missing []int
	for k, h := range sn.RingByID {
		if !e.prevObjs[h] && !(fb[h] && (!e.tokenAw || ta[h])) {
			missing = append(missing, evIDNum(k))
		}
	}
	sort.Ints(missing)
	if len(missing) == 0 {
		return "ok"
	}
	return "missing:" + joinInts(missing)
}

// noStale: no by-address entry of the ring is stale: every entry leads to a host of the ring with that node address
func (e *evWorld) noStale() string {
	sn := e.snap()
	var bad []int
	for ipS, id := range sn.RingByIP {
		h := sn.RingByID[id]
		stale := h == nil
		if !stale {
			na, _, _ := gocql.VerifHostAddrs(h)
			stale = ipKey(evIPNum(na)) != ipS
		}
		if stale {
			bad = append(bad, evIPNum(net.ParseIP(ipS)))
		}
	}
	sort.Ints(bad)
	if len(bad) == 0 {
		return "ok"
	}
	return "stale:" + joinInts(bad)
}

func (e *evWorld) notePrev() {
	e.prevIDs = map[int]bool{}
	e.prevObjs = map[*gocql.HostInfo]bool{}
	for k, h := range e.snap().RingByID {
		e.prevIDs[evIDNum(k)] = true
		e.prevObjs[h] = true
	}
}

func (e *evWorld) close() {
	if e != nil && e.sess != nil {
		e.sess.Close()
		e.sess = nil
	}
}

func evPolicy(name string) gocql.HostSelectionPolicy {
	switch name {
	case "rr":
		return gocql.RoundRobinHostPolicy()
	case "dc":
		return gocql.DCAwareRoundRobinPolicy("dc1")
	case "tarr":
		return gocql.TokenAwareHostPolicy(gocql.RoundRobinHostPolicy())
	case "tadc":
		return gocql.TokenAwareHostPolicy(gocql.DCAwareRoundRobinPolicy("dc1"))
	}
	return nil
}

var evFilter = gocql.HostFilterFunc(func(h *gocql.HostInfo) bool { return h.DataCenter() != "dc3" })

func hostStr(h *gocql.HostInfo) (string, [5]int) {
	if h == nil {
		return "nil", [5]int{}
	}
	na, cf, ca := gocql.VerifHostAddrs(h)
	st, d := "U", 0
	if !h.IsUp() {
		st, d = "D", 1
	}
	id := evIDNum(h.HostID())
	return fmt.Sprintf("%d@%d/%d%s", id, evIPNum(na), evIPNum(cf), st), [5]int{evIPNum(ca), id, evIPNum(na), evIPNum(cf), d}
}

func lessKey(a, b [5]int) bool {
	for i := range a {
		if a[i] != b[i] {
			return a[i] < b[i]
		}
	}
	return false
}

func hostSet(l []*gocql.HostInfo) string {
	type ent struct {
		s string
		k [5]int
	}
	var es []ent
	for _, h := range l {
		s, k := hostStr(h)
		es = append(es, ent{s, k})
	}
	sort.SliceStable(es, func(i, j int) bool { return lessKey(es[i].k, es[j].k) })
	var out []string
	for _, e := range es {
		out = append(out, e.s)
	}
	return join(out)
}

func hostMap(m map[string]*gocql.HostInfo) string {
	var ids []int
	by := map[int]*gocql.HostInfo{}
	for k, h := range m {
		n := evIDNum(k)
		ids = append(ids, n)
		by[n] = h
	}
	sort.Ints(ids)
	var out []string
	for _, id := range ids {
		s, _ := hostStr(by[id])
		out = append(out, fmt.Sprintf("%d=%s", id, s))
	}
	return join(out)
}

func (e *evWorld) snap() gocql.VerifEvSnap { return gocql.VerifEvSnapshot(e.sess.S, e.policy) }

func snapString(sn gocql.VerifEvSnap) string {
	var ips []int
	rev := map[int]string{}
	for k, v := range sn.RingByIP {
		n := evIPNum(net.ParseIP(k))
		ips = append(ips, n)
		rev[n] = v
	}
	sort.Ints(ips)
	var b []string
	for _, n := range ips {
		b = append(b, fmt.Sprintf("%d:%d", n, evIDNum(rev[n])))
	}
	var l []string
	for _, h := range sn.RingList {
		l = append(l, strconv.Itoa(evIDNum(h.HostID())))
	}
	return "ring=" + hostMap(sn.RingByID) + " ips=" + join(b) + " list=" + join(l) + " pools=" + hostMap(sn.Pools) +
		" ta=" + hostSet(sn.TA) + " loc=" + hostSet(sn.Local) + " rem=" + hostSet(sn.Remote)
}

func (e *evWorld) answer(pre string) string {
	rr := "0"
	if e.sess.TakeRefreshRequested() {
		rr = "1"
	}
	return pre + snapString(e.snap()) + " rr=" + rr
}

func crashClass(r interface{}) string {
	msg := strings.ReplaceAll(fmt.Sprint(r), "\n", " ")
	switch {
	case strings.Contains(msg, "nil pointer dereference"):
		return "crash:nil-host"
	case strings.HasPrefix(msg, "invalid host"):
		return "crash:invalid-host"
	case strings.HasPrefix(msg, "no valid connect address"):
		return "crash:no-address"
	}
	return "crash:" + msg
}

type evEvent struct {
	kind byte // 't', 'u', 'd', 'x'
	addr int
}

// isTopo: a TOPOLOGY_CHANGE event: 't' (NEW_NODE for an address nobody else names), or 'n' / 'r' / 'm' = NEW_NODE /
// REMOVED_NODE / MOVED_NODE for the given address (the address may also have status events in the same batch)
func isTopo(k byte) bool { return k == 't' || k == 'n' || k == 'r' || k == 'm' }

func parseEvBatch(s string) []evEvent {
	var out []evEvent
	if s == "-" {
		return out
	}
	for _, w := range strings.Split(s, ",") {
		if w == "t" {
			out = append(out, evEvent{'t', 0})
		} else if len(w) > 1 {
			out = append(out, evEvent{w[0], atoi(w[1:])})
		}
	}
	return out
}

func batchStr(b []evEvent) string {
	if len(b) == 0 {
		return "-"
	}
	var l []string
	for _, e := range b {
		if e.kind == 't' {
			l = append(l, "t")
		} else {
			l = append(l, fmt.Sprintf("%c%d", e.kind, e.addr))
		}
	}
	return strings.Join(l, ",")
}

func toNodeEvents(b []evEvent) []gocql.VerifNodeEvent {
	var evs []gocql.VerifNodeEvent
	for _, e := range b {
		switch e.kind {
		case 't':
			evs = append(evs, gocql.VerifNodeEvent{Kind: "topology", Change: "NEW_NODE", Host: evIP(77), Port: 9042})
		case 'n':
			evs = append(evs, gocql.VerifNodeEvent{Kind: "topology", Change: "NEW_NODE", Host: evIP(e.addr), Port: 9042})
		case 'r':
			evs = append(evs, gocql.VerifNodeEvent{Kind: "topology", Change: "REMOVED_NODE", Host: evIP(e.addr), Port: 9042})
		case 'm':
			evs = append(evs, gocql.VerifNodeEvent{Kind: "topology", Change: "MOVED_NODE", Host: evIP(e.addr), Port: 9042})
		case 'u':
			evs = append(evs, gocql.VerifNodeEvent{Kind: "status", Change: "UP", Host: evIP(e.addr), Port: 9042})
		case 'd':
			evs = append(evs, gocql.VerifNodeEvent{Kind: "status", Change: "DOWN", Host: evIP(e.addr), Port: 9042})
		default:
			evs = append(evs, gocql.VerifNodeEvent{Kind: "status", Change: "JOINING", Host: evIP(e.addr), Port: 9042})
		}
	}
	return evs
}

// evExec executes one `reset ev…` / `ev…` op on the real code; ok == false: not an op of this family.
func evExec(w *world, f []string) (res string, ok bool) {
	if len(f) == 0 {
		return "", false
	}
	if f[0] == "reset" {
		w.deb.close()
		w.deb = nil
		w.evq.close()
		w.evq = nil
		if len(f) == 2 && f[1] == "evdb" {
			return debExec(w, f), true
		}
		if len(f) == 2 && f[1] == "evq" {
			return evqExec(w, f), true
		}
		if len(f) < 2 || (f[1] != "ev" && f[1] != "evc" && f[1] != "e2e") {
			w.ev.close()
			w.ev = nil
			return "", false
		}
	} else if strings.HasPrefix(f[0], "evdb") {
		return debExec(w, f), true
	} else if strings.HasPrefix(f[0], "evq") {
		return evqExec(w, f), true
	} else if !strings.HasPrefix(f[0], "ev") && !strings.HasPrefix(f[0], "e2e") {
		return "", false
	}
	if f[0] == "reset" && f[1] == "e2e" || strings.HasPrefix(f[0], "e2e") {
		return e2eExec(w, f), true
	}
	defer func() {
		if r := recover(); r != nil {
			res, ok = crashClass(r), true
			if os.Getenv("VERIF_DEBUG") != "" {
				fmt.Fprintf(os.Stderr, "crash on %v: %v\n", f, r)
			}
		}
	}()
	e := w.ev
	if f[0] != "reset" && f[0] != "evdeb" && (e == nil || e.sess == nil) {
		return "bad-op", true
	}
	switch f[0] {
	case "reset":
		w.ev.close()
		w.ev = nil
		if len(f) < 4 {
			return "bad-op", true
		}
		pol := evPolicy(f[2])
		if pol == nil {
			return "bad-op", true
		}
		cfg := gocql.VerifEvConfig{Policy: pol, Filter: evFilter,
			DisableTopologyEvents: strings.Contains(f[3], "T"), DisableNodeStatusEvents: strings.Contains(f[3], "S")}
		ne := &evWorld{policy: pol, objs: map[int]*gocql.HostInfo{}, tracked: map[*gocql.HostInfo]bool{}, prevIDs: map[int]bool{},
			prevObjs: map[*gocql.HostInfo]bool{}, statusOff: strings.Contains(f[3], "S"), tokenAw: strings.HasPrefix(f[2], "ta")}
		if f[1] == "ev" {
			s, err := gocql.NewVerifEvSession(cfg)
			if err != nil {
				return "err:setup", true
			}
			ne.sess = s
			w.ev = ne
			ne.installTokenMeta()
			return "ok", true
		}
		if len(f) != 6 {
			return "bad-op", true
		}
		rows := parseEvRows(f[5])
		if len(rows) == 0 {
			return "bad-op", true
		}
		ctl := evIP(atoi(f[4])).String()
		ne.cl = memcluster.NewCluster(4, ctl)
		ne.cp = memcluster.NewControlPlane(ne.cl)
		ne.local, ne.peers = rows[0], rows[1:]
		ne.cp.Local = func(string) memcluster.SysRow { return ne.local.sys(true) }
		ne.cp.Peers = func(string) []memcluster.SysRow {
			var out []memcluster.SysRow
			for _, r := range ne.peers {
				out = append(out, r.sys(false))
			}
			return out
		}
		cfg.Control, cfg.Dialer = ctl, ne.cl
		s, err := gocql.NewVerifEvSession(cfg)
		if err != nil {
			if os.Getenv("VERIF_DEBUG") != "" {
				fmt.Fprintf(os.Stderr, "setup: %v\n", err)
			}
			return "err:setup", true
		}
		ne.sess = s
		w.ev = ne
		ne.installTokenMeta()
		s.TakeRefreshRequested()
		return ne.answer("ok "), true
	case "evpart", "evks", "evtmeta", "evrouted", "evscache", "evschema":
		a, _ := tokenMetaExec(e, f)
		return a, true
	case "evhost":
		o, id, a, c, dc := atoi(f[1]), atoi(f[2]), atoi(f[3]), atoi(f[4]), atoi(f[5])
		e.objs[o] = gocql.VerifEvHost(hid(id), evIP(a), f[6] == "l", evIP(c), evDC(dc))
		return "ok", true
	case "evadd":
		h, okk := e.objs[atoi(f[1])]
		if !okk {
			return "bad-op", true
		}
		e.sess.Add(h)
		return e.answer(""), true
	case "evaddu":
		h, okk := e.objs[atoi(f[1])]
		if !okk {
			return "bad-op", true
		}
		e.sess.AddOrUpdate(h)
		return e.answer(""), true
	case "evrm":
		e.sess.RemoveHost(e.idStr(atoi(f[1])))
		return e.answer(""), true
	case "evbatch", "evbatchx":
		b := parseEvBatch(f[1])
		e.trackBatch(e.snap(), b, e.statusOff)
		e.sess.HandleNodeEvent(toNodeEvents(b))
		return e.answer(""), true
	case "evnotoffered":
		return e.notOffered(), true
	case "evfollows", "evfollowsx":
		return e.follows(), true
	case "evinpolicy", "evinpolicyx":
		return e.inPolicy(), true
	case "evnostale":
		return e.noStale(), true
	case "evup":
		e.sess.HandleNodeUp(evIP(atoi(f[1])), 9042)
		return e.answer(""), true
	case "evdown":
		e.trackDown(e.snap(), atoi(f[1]))
		e.sess.HandleNodeDown(evIP(atoi(f[1])), 9042)
		return e.answer(""), true
	case "evconn":
		if h, ok := e.snap().Pools[e.idStr(atoi(f[1]))]; ok {
			delete(e.tracked, h)
		}
		e.sess.HandleNodeConnected(e.idStr(atoi(f[1])))
		return e.answer(""), true
	case "evfail":
		e.sess.FillingStopped(e.idStr(atoi(f[1])))
		return e.answer(""), true
	case "evrefresh", "evrefreshx":
		if e.cp == nil {
			return "bad-op", true
		}
		rows := parseEvRows(f[1])
		if len(rows) == 0 {
			return "bad-op", true
		}
		e.cp.Do(func() { e.local, e.peers = rows[0], rows[1:] })
		e.notePrev()
		e.lastRows = rows
		return e.answer(refreshClass(e.sess.RefreshRing()) + " "), true
	case "evrefreshfail":
		if e.cp == nil {
			return "bad-op", true
		}
		e.cp.Do(func() { e.cp.FailPeers = true })
		err := e.sess.RefreshRing()
		e.cp.Do(func() { e.cp.FailPeers = false })
		return e.answer(refreshClass(err) + " "), true
	case "evdeb":
		b := parseEvBatch(f[2])
		if len(b) == 0 {
			return "-", true
		}
		var burst []evEvent
		for i := 0; i < atoi(f[1]); i++ {
			burst = append(burst, b[0])
		}
		burst = append(burst, b[1:]...)
		got := gocql.VerifEventDebouncerBatch(toNodeEvents(burst))
		return strconv.Itoa(len(got)), true
	}
	return "bad-op", true
}

// idStr: the host id string of number n as the session knows it (harness-built "id-n" or row-built uuid)
func (e *evWorld) idStr(n int) string {
	if e.cp != nil {
		return evUUID(n) // "" for 0: a NULL host_id cell leaves the host id empty
	}
	return hid(n)
}

func refreshClass(err error) string {
	switch {
	case err == nil:
		return "ok"
	case errors.Is(err, gocql.ErrCannotFindHost):
		return "err:cannot-find-host"
	case errors.Is(err, gocql.ErrHostAlreadyExists):
		return "err:host-already-exists"
	}
	return "err:gethosts"
}

// ---- generation

type evCase struct {
	op, ans, class string
	nt             bool
}

// runEvents generates and runs the logical-tier scenarios (in parallel workers, emitted in order).
func runEvents(r *vh.Rng, out *vh.Out, tier string) {
	scen := 500
	if tier == "thorough" {
		scen *= 30
	}
	seeds := make([]uint64, scen)
	for i := range seeds {
		seeds[i] = r.U64()
	}
	results := make([][]evCase, scen)
	var wg sync.WaitGroup
	sem := make(chan struct{}, 12)
	for i := 0; i < scen; i++ {
		wg.Add(1)
		sem <- struct{}{}
		go func(i int) {
			defer wg.Done()
			defer func() { <-sem }()
			results[i] = evScenario(vh.NewRng(seeds[i]), i)
		}(i)
	}
	wg.Wait()
	for _, cs := range results {
		for _, c := range cs {
			out.Case(c.op, c.ans, c.class, c.nt)
		}
	}
}

type evGen struct {
	r     *vh.Rng
	w     *world
	cases []evCase
	dead  bool          // the real code panicked: the scenario ends
	child *bufio.Writer // E2E child process: ops are reported on stdout as they run
}

func (g *evGen) emit(op, class string, nt bool) string {
	if g.child != nil {
		fmt.Fprintf(g.child, "B\t%s\t%s\n", class, op)
		g.child.Flush()
	}
	a := g.w.exec(op)
	if g.child != nil {
		fmt.Fprintf(g.child, "E\t%s\n", a)
		g.child.Flush()
	}
	g.cases = append(g.cases, evCase{op, a, class, nt})
	if strings.HasPrefix(a, "crash:") || strings.HasPrefix(a, "err:setup") {
		g.dead = true
	}
	return a
}

// lastOpWord: the op word of the last step that changed the session (for the class of the observations after it)
func (g *evGen) lastOpWord() string {
	for i := len(g.cases) - 1; i >= 0; i-- {
		w := strings.Fields(g.cases[i].op)[0]
		switch w {
		case "evtmeta", "evrouted", "evnotoffered", "evnostale", "evfollows", "evfollowsx", "evinpolicy", "evinpolicyx", "evpart", "evks", "evscache", "evschema":
			continue
		}
		return w
	}
	return "reset"
}

func evScenario(r *vh.Rng, idx int) []evCase {
	g := &evGen{r: r, w: &world{}}
	defer func() { g.w.ev.close() }()
	if idx%5 < 3 {
		g.direct()
	} else {
		g.withControl()
	}
	return g.cases
}

func (g *evGen) pickPolicy() (string, string) {
	pol := []string{"rr", "rr", "dc", "dc", "tarr", "tadc"}[g.r.Intn(6)]
	flags := "-"
	switch g.r.Intn(12) {
	case 0:
		flags = "T"
	case 1:
		flags = "S"
	case 2:
		flags = "TS"
	}
	return pol, flags
}

// batch builds a node-event batch over the given known / other addresses
func (g *evGen) batch(known, other []int) []evEvent {
	r := g.r
	n := 1 + r.Intn(4)
	if r.Intn(4) == 0 {
		n = 4 + r.Intn(12)
	}
	var b []evEvent
	focus := -1
	if len(known) > 0 && r.Intn(2) == 0 {
		focus = known[r.Intn(len(known))] // several events for one address
	}
	for i := 0; i < n; i++ {
		x := r.Intn(100)
		var a int
		switch {
		case x < 12:
			b = append(b, evEvent{'t', 0})
			continue
		case focus >= 0 && x < 55:
			a = focus
		case len(known) > 0 && x < 85:
			a = known[r.Intn(len(known))]
		case len(other) > 0:
			a = other[r.Intn(len(other))]
		default:
			a = 900 + r.Intn(3)
		}
		k := byte('u')
		switch y := r.Intn(20); {
		case y < 9:
			k = 'd'
		case y < 10:
			k = 'x'
		}
		b = append(b, evEvent{k, a})
	}
	// the MIXED family: a topology event (NEW_NODE / REMOVED_NODE / MOVED_NODE) for an address that also has status events
	// in this batch, before, between or after them — the refresh it asks for reconciles membership and addresses, the
	// node's up / down state is decided by the last status event all the same
	if r.Intn(5) < 2 {
		var sa []int
		for _, ev := range b {
			if !isTopo(ev.kind) {
				sa = append(sa, ev.addr)
			}
		}
		for k := 1 + r.Intn(2); k > 0 && len(sa) > 0; k-- {
			t := evEvent{[]byte{'n', 'r', 'm'}[r.Intn(3)], sa[r.Intn(len(sa))]}
			i := r.Intn(len(b) + 1)
			b = append(b[:i], append([]evEvent{t}, b[i:]...)...)
		}
	}
	return b
}

// classification of a batch against the hypotheses of C16_status_last_wins, evaluated on the real snapshot
func (g *evGen) batchOp(b []evEvent) (string, string) {
	e := g.w.ev
	sn := e.snap()
	guard := batchGuard(sn, b)
	kinds := map[byte]bool{}
	conflict := false
	last := map[int]byte{}
	topoAddr := map[int]byte{}
	for _, ev := range b {
		kinds[ev.kind] = true
		if !isTopo(ev.kind) {
			if k, ok := last[ev.addr]; ok && k != ev.kind {
				conflict = true
			}
			last[ev.addr] = ev.kind
		} else if ev.kind != 't' {
			topoAddr[ev.addr] = ev.kind
		}
	}
	mixed := ""
	for a, tk := range topoAddr {
		if sk, ok := last[a]; ok { // the SAME address has a topology event and status events in this batch
			m := fmt.Sprintf("/MIXED-%s+last-status-%s", map[byte]string{'n': "NEW_NODE", 'r': "REMOVED_NODE", 'm': "MOVED_NODE"}[tk],
				map[byte]string{'u': "UP", 'd': "DOWN", 'x': "other"}[sk])
			if mixed == "" || m < mixed {
				mixed = m
			}
		}
	}
	cls := "batch" + mixed
	if conflict {
		cls += "/conflicting-status-for-one-address"
	} else if len(b) > len(last)+1 {
		cls += "/repeated"
	} else {
		cls += "/simple"
	}
	if guard == "" {
		return "evbatch " + batchStr(b), "evbatch/spec-backed:" + cls
	}
	return "evbatchx " + batchStr(b), "evbatchx/" + guard + ":" + cls
}

// runBatch emits the batch; when two of the addressed hosts share a connect address the outcome of the
// real handler depends on Go's map iteration order (policy lists are keyed by connect address), so the
// events are delivered one per batch instead, in the order the model uses.
func (g *evGen) runBatch(b []evEvent) {
	if batchGuard(g.w.ev.snap(), b) == "shared-connect-address" {
		for _, ev := range b {
			if g.dead {
				return
			}
			g.emit("evbatchx "+batchStr([]evEvent{ev}), "evbatchx/shared-connect-address:split-into-single-events", true)
		}
		return
	}
	op, cls := g.batchOp(b)
	g.emit(op, cls, true)
}

// batchGuard returns "" when the state satisfies the hypotheses under which the model's answer for a
// batch is proved equal to the specification (see Proofs/C16Events.lean), else the name of the
// violated hypothesis.
func batchGuard(sn gocql.VerifEvSnap, b []evEvent) string {
	// hosts addressed by the batch have pairwise distinct connect addresses
	seen := map[string]string{}
	done := map[int]bool{}
	for _, ev := range b {
		if isTopo(ev.kind) || done[ev.addr] {
			continue
		}
		done[ev.addr] = true
		id, ok := sn.RingByIP[ipKey(ev.addr)]
		if !ok {
			continue
		}
		h := sn.RingByID[id]
		if h == nil { // a stale by-address entry (excluded by C16_view_no_stale): the handler is run as it is
			continue
		}
		_, _, ca := gocql.VerifHostAddrs(h)
		k := ca.String()
		if _, dup := seen[k]; dup { // two addressed hosts share a connect address, or two addresses lead to one host
			return "shared-connect-address"
		}
		seen[k] = id
	}
	return ""
}

func ipKey(a int) string {
	if a == 0 {
		return "0.0.0.0"
	}
	return evIP(a).String()
}

func (g *evGen) direct() {
	r := g.r
	pol, flags := g.pickPolicy()
	g.emit(fmt.Sprintf("reset ev %s %s", pol, flags), "reset", false)
	nIDs := 2 + r.Intn(6)
	nAddr := 2 + r.Intn(7)
	nObj := nIDs + r.Intn(5)
	type at struct{ id, addr, caddr, dc int }
	objs := map[int]at{}
	for o := 1; o <= nObj; o++ {
		id := o
		if o > nIDs {
			id = 1 + r.Intn(nIDs)
		}
		a := 2 + r.Intn(nAddr)
		if o <= nIDs && r.Intn(4) != 0 {
			a = 1 + o // mostly distinct addresses for the first object of every id
		}
		c := a // the connectAddress field is always set (hostInfoFromMap / addrsToHosts set it on every HostInfo gocql builds)
		if r.Intn(8) == 0 {
			c = 50 + r.Intn(4) // client-facing address differs from the node-to-node address
		}
		dc := 1
		switch r.Intn(10) {
		case 0, 1, 2:
			dc = 2
		case 3:
			dc = 3 // rejected by the host filter
		}
		src := "p"
		if r.Intn(8) == 0 {
			src = "l"
		}
		objs[o] = at{id, a, c, dc}
		g.emit(fmt.Sprintf("evhost %d %d %d %d %d %s", o, id, a, c, dc, src), "evhost", false)
	}
	for o := 1; o <= nIDs && !g.dead; o++ {
		if r.Intn(6) != 0 {
			g.emit(fmt.Sprintf("evadd %d", o), "evadd", true)
		}
	}
	if strings.HasPrefix(pol, "ta") && !g.dead && r.Intn(10) < 7 {
		g.emit("evpart", "evpart", true) // else the history starts without a partitioner (no token ring yet)
	}
	var addrs []int
	for a := 2; a <= nAddr+1+nIDs; a++ {
		addrs = append(addrs, a)
	}
	for k := 8 + r.Intn(25); k > 0 && !g.dead; k-- {
		sn := g.w.ev.snap()
		var known []int
		for ipS := range sn.RingByIP {
			known = append(known, evIPNum(net.ParseIP(ipS)))
		}
		sort.Ints(known)
		switch x := r.Intn(100); {
		case x < 40:
			g.runBatch(g.batch(known, addrs))
		case x < 50:
			a := addrs[r.Intn(len(addrs))]
			if len(known) > 0 && r.Intn(3) != 0 {
				a = known[r.Intn(len(known))]
			}
			if r.Bool() {
				g.emit(fmt.Sprintf("evup %d", a), "evup", true)
			} else {
				g.emit(fmt.Sprintf("evdown %d", a), "evdown", true)
			}
		case x < 72:
			g.emit(fmt.Sprintf("evconn %d", 1+r.Intn(nIDs)), "evconn", true)
		case x < 80:
			g.emit(fmt.Sprintf("evrm %d", 1+r.Intn(nIDs)), "evrm", true)
		case x < 89:
			g.emit(fmt.Sprintf("evadd %d", 1+r.Intn(nObj)), "evadd", true)
			if !g.dead && r.Intn(3) == 0 {
				g.emit("evnostale", "evnostale/spec-backed", true)
			}
		case x < 95:
			// ring.addOrUpdate alone (controlConn.setupConn): HostInfo.update may change the stored host's node address
			g.emit(fmt.Sprintf("evaddu %d", 1+r.Intn(nObj)), "evaddu", true)
			if !g.dead {
				g.emit("evnostale", "evnostale/spec-backed", true)
			}
		case x < 96:
			g.emit(fmt.Sprintf("evfail %d", 1+r.Intn(nIDs)), "evfail", true)
		default:
			g.runBatch(g.batch(known, addrs))
		}
		if !g.dead && len(g.w.ev.tracked) > 0 && r.Intn(3) == 0 {
			g.emit("evnotoffered", "evnotoffered/spec-backed", true)
		}
		g.tokenOps(pol, g.lastOpWord())
		g.schemaOps(false)
	}
	if !g.dead {
		g.emit("evnostale", "evnostale/spec-backed", true)
	}
	if idx := r.Intn(40); !g.dead && idx < 2 {
		// the event debouncer's buffer: 1000 frames per window
		n := []int{3, 999, 1000, 1500}[r.Intn(4)]
		g.emit(fmt.Sprintf("evdeb %d u7,d7", n), fmt.Sprintf("evdeb/burst-of-%d", n+1), true)
	}
}

// ---- scenarios with a control connection: refreshRing on scripted system tables

type member struct {
	id, addr, rpc, dc int
	defect            string // "" | norack | nodc | noid | notok | norpc | noaddr
}

func (m member) row(local bool) evRow {
	row := evRow{id: m.id, rpc: m.rpc, dc: m.dc, rack: 1, tok: 2}
	if local {
		row.bcast = m.addr
	} else {
		row.peer = m.addr
	}
	switch m.defect {
	case "norack":
		row.rack = 0
	case "nodc":
		row.dc = 0
	case "noid":
		row.id = 0
	case "notok":
		row.tok = 0
	case "norpc":
		row.rpc = 0
	case "rpc0":
		row.rpc = 1
	case "noaddr":
		row.rpc, row.peer, row.bcast = 0, 0, 0
	}
	return row
}

// afterRefresh emits the oracle ops for the refresh just run. `evfollows` is spec-backed for EVERY report
// (C16_follows_oracle_ok has no hypothesis on the report); `evinpolicy` is spec-backed when no new object shares its
// connect address with another accepted reported host (the hypothesis OwnConn of C16_new_host_in_policy /
// C16_inpolicy_oracle_ok: a list keyed by connect address cannot hold both), else the `…x` variant, classified by that
// condition.
func (g *evGen) afterRefresh(prior gocql.VerifEvSnap, rows []evRow, ok bool) {
	if ok {
		g.emit("evfollows", "evfollows/spec-backed", true)
	} else {
		g.emit("evfollowsx", "evfollowsx/refresh-failed", true)
	}
	spec := specReported(rows)
	var acc []specHost
	for _, h := range spec {
		if h.dc != 3 {
			acc = append(acc, h)
		}
	}
	priorAt := map[int][2]int{}
	for k, h := range prior.RingByID {
		na, cf, _ := gocql.VerifHostAddrs(h)
		priorAt[evIDNum(k)] = [2]int{evIPNum(na), evIPNum(cf)}
	}
	pguard := ""
	if !ok {
		pguard = "refresh-failed"
	}
	first := map[int]bool{}
	for i, h := range acc {
		if first[h.id] {
			continue // a later row of a host id reported twice: no object of it enters the ring
		}
		first[h.id] = true
		if p, had := priorAt[h.id]; had && p == [2]int{h.addr, h.caddr} {
			continue // the stored object stays
		}
		for j, y := range acc {
			if j != i && y.caddr == h.caddr && pguard == "" {
				pguard = "new-object-shares-its-connect-address-with-another-accepted-host"
			}
		}
	}
	if pguard == "" {
		g.emit("evinpolicy", "evinpolicy/spec-backed", true)
	} else {
		g.emit("evinpolicyx", "evinpolicyx/"+pguard, true)
	}
	g.emit("evnostale", "evnostale/spec-backed", true)
}

func (g *evGen) withControl() {
	r := g.r
	pol, flags := g.pickPolicy()
	nextID, nextAddr := 1, 2
	newMember := func() member {
		m := member{id: nextID, addr: nextAddr, rpc: nextAddr, dc: 1}
		nextID++
		nextAddr++
		switch r.Intn(10) {
		case 0, 1, 2:
			m.dc = 2
		case 3:
			m.dc = 3
		}
		if r.Intn(8) == 0 {
			m.rpc = 100 + m.addr // rpc_address differs from the node-to-node address
		}
		return m
	}
	ctl := newMember()
	if ctl.dc == 3 {
		ctl.dc = 1
	}
	ctl.rpc = ctl.addr
	var peers []member
	for n := 1 + r.Intn(5); n > 0; n-- {
		peers = append(peers, newMember())
	}
	rows := func() []evRow {
		out := []evRow{ctl.row(true)}
		for _, p := range peers {
			out = append(out, p.row(false))
		}
		return out
	}
	g.emit(fmt.Sprintf("reset evc %s %s %d %s", pol, flags, ctl.addr, rowsStr(rows())), "reset-evc", true)
	for k := 5 + r.Intn(14); k > 0 && !g.dead; k-- {
		sn := g.w.ev.snap()
		var known []int
		for ipS := range sn.RingByIP {
			known = append(known, evIPNum(net.ParseIP(ipS)))
		}
		sort.Ints(known)
		var ids []int
		for id := range sn.RingByID {
			ids = append(ids, evIDNum(id))
		}
		sort.Ints(ids)
		others := []int{nextAddr, nextAddr + 1, 400}
		switch x := r.Intn(100); {
		case x < 40:
			cls := "evrefresh"
			// change the topology, then refresh
			for c := 1 + r.Intn(2); c > 0; c-- {
				switch y := r.Intn(100); {
				case y < 20:
					peers = append(peers, newMember())
					cls += "/new-node"
				case y < 36 && len(peers) > 0:
					i := r.Intn(len(peers))
					peers = append(peers[:i], peers[i+1:]...)
					cls += "/removed-node"
				case y < 44 && len(peers) > 0:
					i := r.Intn(len(peers))
					if r.Intn(5) < 2 {
						// only the node-to-node address changes, the client-facing address stays (fixed rpc_address, NAT,
						// address translation): the connect address the pool and the policies know the node by is unchanged
						peers[i].addr = nextAddr
						cls += "/node-address-change-rpc-unchanged"
					} else {
						peers[i].addr, peers[i].rpc = nextAddr, nextAddr
						cls += "/address-change"
					}
					nextAddr++
				case y < 49 && len(peers) > 1:
					// two nodes exchange their addresses
					i := r.Intn(len(peers))
					j := (i + 1 + r.Intn(len(peers)-1)) % len(peers)
					peers[i].addr, peers[j].addr = peers[j].addr, peers[i].addr
					peers[i].rpc, peers[j].rpc = peers[j].rpc, peers[i].rpc
					cls += "/swapped-addresses"
				case y < 55 && len(peers) > 0:
					// a node moves to a new address and a NEW node appears on the address it left, in one report
					// (the new node's row before or after the moved node's)
					i := r.Intn(len(peers))
					m := newMember()
					m.addr, m.rpc = peers[i].addr, peers[i].rpc
					peers[i].addr, peers[i].rpc = nextAddr, nextAddr
					nextAddr++
					if r.Bool() {
						peers = append(peers, m)
					} else {
						peers = append([]member{m}, peers...)
					}
					cls += "/moved-node+new-node-on-the-vacated-address"
				case y < 62 && len(peers) > 0:
					i := r.Intn(len(peers))
					peers[i].id = nextID // replaced node: new host id on the same address
					nextID++
					cls += "/replaced-node"
				case y < 74 && len(peers) > 0:
					i := r.Intn(len(peers))
					peers[i].defect = []string{"norack", "nodc", "noid", "notok", "norpc", "rpc0"}[r.Intn(6)]
					cls += "/invalid-row-" + peers[i].defect
				case y < 78 && len(peers) > 0:
					// the node is reported in another data centre: it becomes rejected by the host filter (dc3), or accepted
					i := r.Intn(len(peers))
					peers[i].dc = 1 + (peers[i].dc+r.Intn(2))%3
					cls += fmt.Sprintf("/data-centre-change-to-dc%d", peers[i].dc)
				case y < 84 && len(peers) > 0:
					i := r.Intn(len(peers))
					peers[i].defect = ""
					cls += "/row-repaired"
				case y < 88 && len(peers) > 0:
					d := peers[r.Intn(len(peers))]
					if r.Bool() {
						d.addr, d.rpc = nextAddr, nextAddr // the same host id on a second address
						nextAddr++
					}
					peers = append(peers, d)
					cls += "/duplicate-row"
				case y < 91 && len(peers) > 1:
					i := r.Intn(len(peers) - 1)
					peers[i].rpc = peers[i+1].rpc // two nodes share a client-facing address
					cls += "/shared-rpc-address"
				case y < 93 && len(peers) > 0:
					peers[r.Intn(len(peers))].defect = "noaddr"
					cls += "/row-without-address"
				case y < 96:
					ctl.rpc = 100 + ctl.addr
					cls += "/local-rpc-change"
				default:
					cls += "/unchanged"
				}
			}
			prior := g.w.ev.snap()
			ans := g.emit("evrefresh "+rowsStr(rows()), cls, true)
			if !g.dead {
				g.afterRefresh(prior, rows(), strings.HasPrefix(ans, "ok "))
			}
			// rows without any address make hostInfoFromMap fail (an error since the repair of KF-C05-25, a panic
			// before): repair for the following steps
			for i := range peers {
				if peers[i].defect == "noaddr" {
					peers[i].defect = ""
				}
			}
		case x < 44:
			g.emit("evrefreshfail", "evrefresh/query-fails", true)
		case x < 70:
			g.runBatch(g.batch(known, others))
		case x < 90:
			if len(ids) > 0 {
				g.emit(fmt.Sprintf("evconn %d", ids[r.Intn(len(ids))]), "evconn", true)
			}
		case x < 95:
			a := others[r.Intn(len(others))]
			if len(known) > 0 && r.Intn(3) != 0 {
				a = known[r.Intn(len(known))]
			}
			if r.Bool() {
				g.emit(fmt.Sprintf("evup %d", a), "evup", true)
			} else {
				g.emit(fmt.Sprintf("evdown %d", a), "evdown", true)
			}
		default:
			if len(ids) > 0 {
				g.emit(fmt.Sprintf("evrm %d", ids[r.Intn(len(ids))]), "evrm", true)
			}
		}
		if !g.dead && len(g.w.ev.tracked) > 0 && r.Intn(3) == 0 {
			g.emit("evnotoffered", "evnotoffered/spec-backed", true)
		}
		g.tokenOps(pol, g.lastOpWord())
		g.schemaOps(true)
	}
}
