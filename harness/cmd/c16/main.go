// Harness for C16 (ring level): operation sequences on the REAL gocql `ring`
// (addHostIfMissing / addOrUpdate / removeHost / getHost / getHostByIP / allHosts), a snapshot of its
// three indexes after every mutating op, for comparison with the Lean model.
//
// Scenario kinds: (1) a simulated cluster whose topology changes between refreshes (nodes added, removed,
// REPLACED by a new host id on the same address, moved to another address, swapping addresses, filtered),
// every report run through the diff loop of refreshRing; (2) random ring operations over few ids and few
// addresses (hosts sharing addresses); (3) both interleaved, with arbitrary (also bad) reports.
//
// `refresh` is the diff part of refreshRing (host_source.go, repaired: removals first, then additions)
// TRANSLITERATED here over the real ring's operations (the events tier calls the real refreshRing through a
// scripted control connection).
//
// Spec-backed observations: `consistent` (every host of the ring is found by its id and by its address)
// is emitted only while the history since `reset` satisfies C16.HGuarded (ring additions on a free address,
// refreshes with pairwise distinct accepted node addresses), `covered` only while it satisfies
// C16.RemGuarded (ring operations only; every removal harmless); otherwise the same observations are
// emitted as `chk` / `chkcov` (model vs code only). `nostale <n>` (no by-address entry of the addresses 0..n is
// stale: getHostByIP never answers "known address" with nil or a host of another address) is spec-backed after
// EVERY history (C16.C16_stale_nil). The guards are evaluated on a shadow of the INTENDED
// state kept by the generator, not on the ring under test.
package main

import (
	"fmt"
	"net"
	"os"
	"sort"
	"strconv"
	"strings"

	"github.com/gocql/gocql"
	"verifharness/vh"
)

type attr struct{ id, addr, caddr int }

type world struct {
	ev   *evWorld  // event / refresh / propagation tier (events.go, e2e.go)
	deb  *debWorld // refresh-debouncer unit tier (debounce.go)
	evq  *evqWorld // event-debouncer unit tier (evqueue.go)
	ring *gocql.VerifRing
	objs map[int]*gocql.HostInfo
	num  map[*gocql.HostInfo]int
	at   map[int]attr // object -> (host id, node address, connectAddress field)
}

func atoi(s string) int {
	n, err := strconv.Atoi(s)
	if err != nil {
		panic("bad number " + s)
	}
	return n
}

func natList(s string) []int {
	if s == "-" {
		return nil
	}
	var l []int
	for _, x := range strings.Split(s, ",") {
		l = append(l, atoi(x))
	}
	return l
}

func ip(a int) net.IP {
	if a == 0 {
		return nil
	}
	return net.IPv4(10, 1, byte(a>>8), byte(a))
}

func ipStr(a int) string {
	if a == 0 {
		return "0.0.0.0"
	}
	return ip(a).String()
}

func ipNum(s string) int {
	p := net.ParseIP(s).To4()
	if p == nil {
		return -1
	}
	if p.Equal(net.IPv4zero) {
		return 0
	}
	return int(p[2])<<8 | int(p[3])
}

func hid(id int) string {
	if id == 0 {
		return ""
	}
	return fmt.Sprintf("id-%d", id)
}

func idNum(s string) int {
	if s == "" {
		return 0
	}
	return atoi(strings.TrimPrefix(s, "id-"))
}

func join(l []string) string {
	if len(l) == 0 {
		return "-"
	}
	return strings.Join(l, ",")
}

func joinInts(l []int) string {
	var s []string
	for _, n := range l {
		s = append(s, strconv.Itoa(n))
	}
	return join(s)
}

func (w *world) obj(h *gocql.HostInfo) string {
	if h == nil {
		return "nil"
	}
	if n, ok := w.num[h]; ok {
		return strconv.Itoa(n)
	}
	return "?"
}

func (w *world) snapshot() string {
	byID, byIP, list := w.ring.Snapshot()
	var ids []int
	for k := range byID {
		ids = append(ids, idNum(k))
	}
	sort.Ints(ids)
	var a []string
	for _, id := range ids {
		a = append(a, fmt.Sprintf("%d:%s", id, w.obj(byID[hid(id)])))
	}
	var ips []int
	rev := map[int]string{}
	for k, v := range byIP {
		n := ipNum(k)
		ips = append(ips, n)
		rev[n] = v
	}
	sort.Ints(ips)
	var b []string
	for _, n := range ips {
		b = append(b, fmt.Sprintf("%d:%d", n, idNum(rev[n])))
	}
	var c []string
	for _, h := range list {
		c = append(c, w.obj(h))
	}
	return "ids=" + join(a) + " ips=" + join(b) + " list=" + join(c)
}

// refresh: the diff part of refreshRing (host_source.go, as repaired for KF-C16-4 / KF-C16-6) transliterated over the
// real ring: r.session.ring.addHostIfMissing / currentHosts as they are, session.removeHost(h) =
// ring.removeHost(h.HostID()) (+ pool and policy, not here), startPoolFill recorded as "filled", host.update(h) is
// the identity on (id, addresses) for the peer-sourced hosts built here. The events tier (events.go) calls the real
// refreshRing.
func (w *world) refresh(filtered map[int]bool, rep []int) string {
	prev := w.ring.CurrentHosts()
	var filled, removed []int
	// the accepted reported hosts by host id: of a host id reported twice the first row counts
	reported := map[string]*gocql.HostInfo{}
	for _, o := range rep {
		h, ok := w.objs[o]
		if !ok || filtered[o] {
			continue
		}
		if _, ok := reported[h.HostID()]; !ok {
			reported[h.HostID()] = h
		}
	}
	// what is gone is removed before anything is added
	for hostID, existing := range prev {
		if h, ok := reported[hostID]; ok {
			a, b := w.at[w.num[h]], w.at[w.num[existing]]
			if a.caddr == b.caddr && a.addr == b.addr {
				continue // still reported, no host IP change
			}
		}
		removed = append(removed, w.num[existing])
		w.ring.RemoveHost(existing.HostID())
	}
	for _, o := range rep {
		h, ok := w.objs[o]
		if !ok || filtered[o] || reported[h.HostID()] != h {
			continue
		}
		if _, ok := w.ring.AddHostIfMissing(h); !ok {
			filled = append(filled, o)
		}
		// else: host.update(h)
	}
	sort.Ints(removed)
	return "ok filled=" + joinInts(filled) + " removed=" + joinInts(removed) + " " + w.snapshot()
}

// notFound: the hosts of the ring that are not found by their id and by their address
func (w *world) notFound() []int {
	var bad []int
	for _, h := range w.ring.AllHosts() {
		a := w.at[w.num[h]]
		g, ok := w.ring.GetHostByIP(ipStr(a.addr))
		if w.ring.GetHost(hid(a.id)) != h || !ok || g != h {
			bad = append(bad, w.num[h])
		}
	}
	sort.Ints(bad)
	return bad
}

// uncovered: the hosts of the ring that are not found by their id, or whose address does not lead to a host
// of the ring with that address, or not to the host itself although no other host of the ring has its address
func (w *world) uncovered() []int {
	var bad []int
	all := w.ring.AllHosts()
	in := map[*gocql.HostInfo]bool{}
	for _, h := range all {
		in[h] = true
	}
	for _, h := range all {
		a := w.at[w.num[h]]
		g, ok := w.ring.GetHostByIP(ipStr(a.addr))
		good := w.ring.GetHost(hid(a.id)) == h && ok && g != nil && in[g] && w.at[w.num[g]].addr == a.addr
		if good && g != h {
			shared := false
			for _, x := range all {
				if x != h && w.at[w.num[x]].addr == a.addr {
					shared = true
				}
			}
			good = shared
		}
		if !good {
			bad = append(bad, w.num[h])
		}
	}
	sort.Ints(bad)
	return bad
}

// stale: the addresses 0..n for which getHostByIP answers "known" with something else than a host of the
// ring with that address
func (w *world) stale(n int) []int {
	in := map[*gocql.HostInfo]bool{}
	for _, h := range w.ring.AllHosts() {
		in[h] = true
	}
	var bad []int
	for a := 0; a <= n; a++ {
		h, ok := w.ring.GetHostByIP(ipStr(a))
		if ok && (h == nil || !in[h] || w.at[w.num[h]].addr != a) {
			bad = append(bad, a)
		}
	}
	return bad
}

func objsOr(pfx string, l []int) string {
	if len(l) == 0 {
		return "ok"
	}
	return pfx + joinInts(l)
}

func (w *world) exec(op string) (res string) {
	defer func() {
		if r := recover(); r != nil {
			res = "crash:" + strings.ReplaceAll(fmt.Sprint(r), "\n", " ")
			if strings.HasPrefix(res, "crash:invalid host") {
				res = "crash:invalid-host"
			}
			if os.Getenv("VERIF_DEBUG") != "" {
				fmt.Fprintf(os.Stderr, "crash on %q: %v\n", op, r)
			}
		}
	}()
	f := strings.Fields(op)
	if len(f) == 0 {
		return "bad-op"
	}
	if a, ok := evExec(w, f); ok { // ops `reset ev…`, `ev…`, `e2e…` (events.go, e2e.go)
		return a
	}
	switch f[0] {
	case "reset":
		w.ring = gocql.NewVerifRing()
		w.objs = map[int]*gocql.HostInfo{}
		w.num = map[*gocql.HostInfo]int{}
		w.at = map[int]attr{}
		return "ok"
	case "host":
		o, id, a, c := atoi(f[1]), atoi(f[2]), atoi(f[3]), atoi(f[4])
		h := gocql.VerifRingHost(hid(id), ip(a), false, ip(c)) // every object is peer-sourced: update() then never changes a node address
		if old, ok := w.objs[o]; ok {
			delete(w.num, old)
		}
		w.objs[o] = h
		w.num[h] = o
		w.at[o] = attr{id, a, c}
		return "ok"
	case "addm":
		h, ok := w.objs[atoi(f[1])]
		if !ok {
			return "bad-op"
		}
		e, ex := w.ring.AddHostIfMissing(h)
		return fmt.Sprintf("%s %v %s", w.obj(e), ex, w.snapshot())
	case "addu":
		h, ok := w.objs[atoi(f[1])]
		if !ok {
			return "bad-op"
		}
		e := w.ring.AddOrUpdate(h)
		return fmt.Sprintf("%s %s", w.obj(e), w.snapshot())
	case "rm":
		ok := w.ring.RemoveHost(hid(atoi(f[1])))
		return fmt.Sprintf("%v %s", ok, w.snapshot())
	case "get":
		return w.obj(w.ring.GetHost(hid(atoi(f[1]))))
	case "byip":
		h, ok := w.ring.GetHostByIP(ipStr(atoi(f[1])))
		return fmt.Sprintf("%s %v", w.obj(h), ok)
	case "all":
		var l []int
		for _, h := range w.ring.AllHosts() {
			l = append(l, w.num[h])
		}
		sort.Ints(l)
		return joinInts(l)
	case "refresh":
		fl := map[int]bool{}
		for _, o := range natList(f[1]) {
			fl[o] = true
		}
		return w.refresh(fl, natList(f[2]))
	case "consistent", "chk":
		return objsOr("notfound:", w.notFound())
	case "nostale":
		return objsOr("stale:", w.stale(atoi(f[1])))
	case "covered", "chkcov":
		return objsOr("uncovered:", w.uncovered())
	}
	return "bad-op"
}

// shadow: the INTENDED state of the ring as the generator understands the history (set semantics of
// add-if-missing / remove-by-id / a good refresh), used only to evaluate the hypotheses of the theorems
// (C16.HGuarded, C16.RemGuarded) — never the answers.
type shadow struct {
	at     map[int]attr
	live   map[int]int // host id -> object
	ipx    map[int]int // address -> indexed host id (meaningful while only ring operations happened)
	hguard bool        // C16.HGuarded holds for the history since reset
	rguard bool        // C16.RemGuarded holds and the history consists of ring operations only
}

func newShadow() *shadow {
	return &shadow{at: map[int]attr{}, live: map[int]int{}, ipx: map[int]int{}, hguard: true, rguard: true}
}

func (s *shadow) invalid(o int) bool { return s.at[o].addr == 0 && s.at[o].caddr == 0 }

func (s *shadow) sharers(o int) int { // live hosts with another id on the address of o
	n := 0
	for id, x := range s.live {
		if s.at[x].addr == s.at[o].addr && id != s.at[o].id {
			n++
		}
	}
	return n
}

func (s *shadow) add(o int) string {
	if s.invalid(o) {
		return "invalid"
	}
	a := s.at[o]
	cls := "free-address"
	if s.sharers(o) > 0 {
		s.hguard = false
		cls = "shared-address"
	}
	if _, ok := s.live[a.id]; ok {
		return "existing-id"
	}
	s.live[a.id] = o
	s.ipx[a.addr] = a.id
	return cls
}

func (s *shadow) rm(id int) string {
	o, ok := s.live[id]
	if !ok {
		return "unknown"
	}
	a := s.at[o]
	cls := "alone"
	if s.sharers(o) > 0 {
		if s.ipx[a.addr] == id {
			cls = "shared-address-indexed" // the residual case (C16_cex_residual_shared_address): outside RemGuarded
			s.rguard = false
		} else {
			cls = "shared-address-not-indexed" // the case of KF-C16-1
		}
	}
	if x, ok := s.ipx[a.addr]; ok && x == id {
		delete(s.ipx, a.addr)
	}
	delete(s.live, id)
	return cls
}

func (s *shadow) refresh(filtered map[int]bool, rep []int) {
	s.rguard = false
	// C16.GoodReport: the accepted reported hosts have pairwise distinct node addresses (host ids may repeat: the
	// first row counts)
	addrs := map[int]bool{}
	good := true
	var acc []int
	for _, o := range rep {
		if filtered[o] {
			continue
		}
		a := s.at[o]
		if addrs[a.addr] {
			good = false
		}
		addrs[a.addr] = true
		acc = append(acc, o)
	}
	if !good {
		s.hguard = false
	}
	if !s.hguard {
		return
	}
	nl := map[int]int{}
	for _, o := range acc {
		a := s.at[o]
		if _, dup := nl[a.id]; dup {
			continue
		}
		if x, ok := s.live[a.id]; ok && s.at[x].addr == a.addr && s.at[x].caddr == a.caddr {
			nl[a.id] = x
		} else {
			nl[a.id] = o
		}
	}
	s.live = nl
}

type node struct{ id, addr, caddr int }

func main() {
	mode, tier, path := vh.Args()
	w := &world{}
	if mode == "e2echild" { // e2e.go: one E2E scenario in a child process (seed, index)
		e2eChild(tier, path)
		return
	}
	if mode == "replay" {
		w.exec("reset")
		for _, l := range vh.ReadLines(path) {
			fmt.Println(w.exec(l))
		}
		return
	}
	r := vh.NewRng(vh.EnvSeed())
	out := vh.NewOut(path)
	scen := 1200
	if tier == "thorough" {
		scen *= 30
	}
	var sh *shadow
	emit := func(op, class string, nt bool) string {
		a := w.exec(op)
		out.Case(op, a, class, nt)
		return a
	}
	host := func(o, id, a, c int) {
		sh.at[o] = attr{id, a, c}
		emit(fmt.Sprintf("host %d %d %d %d", o, id, a, c), "host", false)
	}
	observe := func() {
		if sh.hguard {
			emit("consistent", "consistent/spec-backed(HGuarded)", true)
		} else {
			emit("chk", "chk/unguarded-history", true)
		}
	}
	observeCov := func() {
		if sh.rguard {
			emit("covered", "covered/spec-backed(RemGuarded)", true)
		} else {
			emit("chkcov", "chkcov/unguarded-history", true)
		}
	}
	byip := func(a int) {
		op := fmt.Sprintf("byip %d", a)
		ans := w.exec(op)
		cls := "getHostByIP/hit"
		if strings.HasPrefix(ans, "nil true") {
			cls = "getHostByIP/stale-entry"
		} else if strings.HasSuffix(ans, "false") {
			cls = "getHostByIP/miss"
		}
		out.Case(op, ans, cls, true)
	}
	refresh := func(filtered map[int]bool, rep []int, class string) {
		var fl []int
		for o := range filtered {
			fl = append(fl, o)
		}
		sort.Ints(fl)
		sh.refresh(filtered, rep)
		emit("refresh "+joinInts(fl)+" "+joinInts(rep), class, true)
	}

	// (1) a cluster whose topology changes between refreshes
	cluster := func() {
		nAddr := 3 + r.Intn(8)
		var nodes []node
		nextID, nextObj := 1, 1
		free := func() int { // an address no node has (possibly one just vacated); 0 if none
			used := map[int]bool{}
			for _, n := range nodes {
				used[n.addr] = true
			}
			var f []int
			for a := 1; a <= nAddr; a++ {
				if !used[a] {
					f = append(f, a)
				}
			}
			if len(f) == 0 {
				return 0
			}
			return f[r.Intn(len(f))]
		}
		addNode := func() bool {
			a := free()
			if a == 0 {
				return false
			}
			c := a
			if r.Intn(8) == 0 {
				c = 0
			}
			nodes = append(nodes, node{nextID, a, c})
			nextID++
			return true
		}
		for k := 1 + r.Intn(4); k > 0; k-- {
			addNode()
		}
		for round := 3 + r.Intn(8); round > 0; round-- {
			var evs []string
			bad := false
			for k := r.Intn(4); k > 0; k-- {
				n := len(nodes)
				switch x := r.Intn(100); {
				case x < 15:
					if addNode() {
						evs = append(evs, "new-node")
					}
				case x < 27 && n > 0:
					i := r.Intn(n)
					nodes = append(nodes[:i], nodes[i+1:]...)
					evs = append(evs, "removed-node")
				case x < 55 && n > 0: // a dead node replaced by a new host id on the same address (KF-C16-1)
					i := r.Intn(n)
					nodes[i] = node{nextID, nodes[i].addr, nodes[i].caddr}
					nextID++
					evs = append(evs, "replaced-node-same-address")
				case x < 67 && n > 0:
					if a := free(); a != 0 {
						i := r.Intn(n)
						nodes[i].addr, nodes[i].caddr = a, a
						evs = append(evs, "moved-node")
					}
				case x < 80 && n > 1: // two nodes exchange their addresses
					i, j := r.Intn(n), r.Intn(n)
					if i != j {
						nodes[i].addr, nodes[j].addr = nodes[j].addr, nodes[i].addr
						nodes[i].caddr, nodes[j].caddr = nodes[i].addr, nodes[j].addr
						evs = append(evs, "swapped-addresses")
					}
				case x < 88 && n > 2: // three nodes rotate their addresses
					p := []int{r.Intn(n), r.Intn(n), r.Intn(n)}
					if p[0] != p[1] && p[1] != p[2] && p[0] != p[2] {
						a0 := nodes[p[0]].addr
						nodes[p[0]].addr = nodes[p[1]].addr
						nodes[p[1]].addr = nodes[p[2]].addr
						nodes[p[2]].addr = a0
						for _, i := range p {
							nodes[i].caddr = nodes[i].addr
						}
						evs = append(evs, "rotated-addresses")
					}
				case x < 94 && n > 0: // a node takes the address of a node that vanishes in the same report
					i, j := r.Intn(n), r.Intn(n)
					if i != j {
						nodes[i].addr, nodes[i].caddr = nodes[j].addr, nodes[j].addr
						nodes = append(nodes[:j], nodes[j+1:]...)
						evs = append(evs, "moved-onto-vacated-address")
					}
				case x < 97 && n > 0:
					i := r.Intn(n)
					nodes[i].caddr = 1 + r.Intn(nAddr)
					evs = append(evs, "connect-address-changed")
				default:
					bad = true
				}
			}
			// the report: fresh HostInfo objects, in any order
			perm := make([]int, len(nodes))
			for i := range perm {
				perm[i] = i
			}
			for i := len(perm) - 1; i > 0; i-- {
				j := r.Intn(i + 1)
				perm[i], perm[j] = perm[j], perm[i]
			}
			var rep []int
			filtered := map[int]bool{}
			for _, i := range perm {
				n := nodes[i]
				host(nextObj, n.id, n.addr, n.caddr)
				rep = append(rep, nextObj)
				if r.Intn(12) == 0 {
					filtered[nextObj] = true
					evs = append(evs, "filtered")
				}
				nextObj++
			}
			if bad && len(nodes) > 0 { // a report no cluster sends: the same id twice, or two ids on one address
				n := nodes[r.Intn(len(nodes))]
				if r.Bool() {
					host(nextObj, n.id, 1+r.Intn(nAddr), n.caddr)
					evs = append(evs, "BAD-duplicate-id")
				} else {
					host(nextObj, nextID, n.addr, n.caddr)
					nextID++
					evs = append(evs, "BAD-duplicate-address")
				}
				rep = append(rep, nextObj)
				nextObj++
			}
			cls := "unchanged"
			if len(evs) > 0 {
				sort.Strings(evs)
				cls = evs[0]
				for i := 1; i < len(evs); i++ {
					if evs[i] != evs[i-1] {
						cls += "+" + evs[i]
					}
				}
			}
			refresh(filtered, rep, "refresh/"+cls)
			observe()
			if r.Intn(2) == 0 {
				emit(fmt.Sprintf("nostale %d", nAddr+1), "nostale/spec-backed(all histories)", true)
			}
			for k := r.Intn(4); k > 0; k-- {
				byip(r.Intn(nAddr + 2))
			}
			if r.Intn(3) == 0 {
				emit(fmt.Sprintf("get %d", r.Intn(nextID+1)), "getHost", true)
			}
			if r.Intn(4) == 0 {
				emit("all", "allHosts", true)
			}
		}
	}

	// (2) / (3) random ring operations over few ids and few addresses, optionally interleaved with refreshes
	randomOps := func(withRefresh bool) {
		nIDs := 1 + r.Intn(6)
		nAddr := 1 + r.Intn(6)
		nObj := 2 + r.Intn(10)
		var valid []int
		for o := 1; o <= nObj; o++ {
			id := 1 + r.Intn(nIDs)
			if r.Intn(40) == 0 {
				id = 0
			}
			a := 1 + r.Intn(nAddr)
			c := a
			switch r.Intn(10) {
			case 0:
				c = 0
			case 1:
				c = 1 + r.Intn(nAddr)
			}
			if r.Intn(30) == 0 {
				a, c = 0, 0 // no usable address at all: addHostIfMissing panics ("invalid host")
			}
			host(o, id, a, c)
			if a != 0 || c != 0 {
				valid = append(valid, o)
			}
		}
		for k := 10 + r.Intn(40); k > 0; k-- {
			o := 1 + r.Intn(nObj)
			switch x := r.Intn(100); {
			case x < 22:
				emit(fmt.Sprintf("addm %d", o), "addHostIfMissing/"+sh.add(o), true)
			case x < 34:
				emit(fmt.Sprintf("addu %d", o), "addOrUpdate/"+sh.add(o), true)
			case x < 52:
				id := r.Intn(nIDs + 1)
				emit(fmt.Sprintf("rm %d", id), "removeHost/"+sh.rm(id), true)
			case x < 60:
				emit(fmt.Sprintf("get %d", r.Intn(nIDs+2)), "getHost", true)
			case x < 72:
				byip(r.Intn(nAddr + 2))
			case x < 75:
				emit("all", "allHosts", true)
			case x < 83:
				observe()
			case x < 90:
				observeCov()
			case x < 96:
				emit(fmt.Sprintf("nostale %d", nAddr+1), "nostale/spec-backed(all histories)", true)
			default:
				if withRefresh && len(valid) > 0 { // an arbitrary report over the existing objects (often not a good one)
					var rep []int
					filtered := map[int]bool{}
					for _, v := range valid {
						if r.Intn(3) == 0 {
							rep = append(rep, v)
							if r.Intn(6) == 0 {
								filtered[v] = true
							}
						}
					}
					for i := len(rep) - 1; i > 0; i-- {
						j := r.Intn(i + 1)
						rep[i], rep[j] = rep[j], rep[i]
					}
					refresh(filtered, rep, "refresh/arbitrary-report")
					observe()
				}
			}
		}
		observe()
		observeCov()
		emit(fmt.Sprintf("nostale %d", nAddr+1), "nostale/spec-backed(all histories)", true)
	}

	for i := 0; i < scen; i++ {
		emit("reset", "reset", false)
		sh = newShadow()
		switch x := r.Intn(10); {
		case x < 4:
			cluster()
		case x < 8:
			randomOps(false)
		default:
			randomOps(true)
		}
	}
	runEvents(r, out, tier)    // events.go: logical tier (real handlers / refreshRing on a dial-free Session)
	runDebouncer(r, out, tier) // debounce.go: the real refreshDebouncer with requests arriving during a refresh
	runEvQueue(r, out, tier)   // evqueue.go: the real eventDebouncer with events arriving while handler goroutines are pending
	runE2E(r, out, tier)       // e2e.go: real Sessions with control connection on scripted in-memory clusters
	out.Close(nil)
}
