// Harness for C16 (ring level): random operation sequences on the REAL gocql `ring`
// (addHostIfMissing / addOrUpdate / removeHost / getHost / getHostByIP / allHosts), a snapshot of its
// three indexes after every mutating op, for comparison with the Lean model.
package main

import (
	"fmt"
	"net"
	"os"
	"sort"
	"strconv"
	"strings"

	"github.com/gocql/gocql"
	"verifharness/vh"
)

type world struct {
	ring *gocql.VerifRing
	objs map[int]*gocql.HostInfo
	num  map[*gocql.HostInfo]int
}

func atoi(s string) int {
	n, err := strconv.Atoi(s)
	if err != nil {
		panic("bad number " + s)
	}
	return n
}

func ip(a int) net.IP {
	if a == 0 {
		return nil
	}
	return net.IPv4(10, 1, byte(a>>8), byte(a))
}

func ipNum(s string) int {
	p := net.ParseIP(s).To4()
	if p == nil {
		return -1
	}
	if p.Equal(net.IPv4zero) {
		return 0
	}
	return int(p[2])<<8 | int(p[3])
}

func hid(id int) string {
	if id == 0 {
		return ""
	}
	return fmt.Sprintf("id-%d", id)
}

func idNum(s string) int {
	if s == "" {
		return 0
	}
	return atoi(strings.TrimPrefix(s, "id-"))
}

func join(l []string) string {
	if len(l) == 0 {
		return "-"
	}
	return strings.Join(l, ",")
}

func (w *world) obj(h *gocql.HostInfo) string {
	if h == nil {
		return "nil"
	}
	if n, ok := w.num[h]; ok {
		return strconv.Itoa(n)
	}
	return "?"
}

func (w *world) snapshot() string {
	byID, byIP, list := w.ring.Snapshot()
	var ids []int
	for k := range byID {
		ids = append(ids, idNum(k))
	}
	sort.Ints(ids)
	var a []string
	for _, id := range ids {
		a = append(a, fmt.Sprintf("%d:%s", id, w.obj(byID[hid(id)])))
	}
	var ips []int
	rev := map[int]string{}
	for k, v := range byIP {
		n := ipNum(k)
		ips = append(ips, n)
		rev[n] = v
	}
	sort.Ints(ips)
	var b []string
	for _, n := range ips {
		b = append(b, fmt.Sprintf("%d:%d", n, idNum(rev[n])))
	}
	var c []string
	for _, h := range list {
		c = append(c, w.obj(h))
	}
	return "ids=" + join(a) + " ips=" + join(b) + " list=" + join(c)
}

func (w *world) exec(op string) (res string) {
	defer func() {
		if r := recover(); r != nil {
			res = "crash:" + strings.ReplaceAll(fmt.Sprint(r), "\n", " ")
			if strings.HasPrefix(res, "crash:invalid host") {
				res = "crash:invalid-host"
			}
			if os.Getenv("VERIF_DEBUG") != "" {
				fmt.Fprintf(os.Stderr, "crash on %q: %v\n", op, r)
			}
		}
	}()
	f := strings.Fields(op)
	if len(f) == 0 {
		return "bad-op"
	}
	switch f[0] {
	case "reset":
		w.ring = gocql.NewVerifRing()
		w.objs = map[int]*gocql.HostInfo{}
		w.num = map[*gocql.HostInfo]int{}
		return "ok"
	case "host":
		o, id, a, c := atoi(f[1]), atoi(f[2]), atoi(f[3]), atoi(f[4])
		h := gocql.VerifRingHost(hid(id), ip(a), false, ip(c)) // every object is peer-sourced: update() then never changes a node address
		if old, ok := w.objs[o]; ok {
			delete(w.num, old)
		}
		w.objs[o] = h
		w.num[h] = o
		return "ok"
	case "addm":
		h, ok := w.objs[atoi(f[1])]
		if !ok {
			return "bad-op"
		}
		e, ex := w.ring.AddHostIfMissing(h)
		return fmt.Sprintf("%s %v %s", w.obj(e), ex, w.snapshot())
	case "addu":
		h, ok := w.objs[atoi(f[1])]
		if !ok {
			return "bad-op"
		}
		e := w.ring.AddOrUpdate(h)
		return fmt.Sprintf("%s %s", w.obj(e), w.snapshot())
	case "rm":
		ok := w.ring.RemoveHost(hid(atoi(f[1])))
		return fmt.Sprintf("%v %s", ok, w.snapshot())
	case "get":
		return w.obj(w.ring.GetHost(hid(atoi(f[1]))))
	case "byip":
		a := atoi(f[1])
		s := "0.0.0.0"
		if a != 0 {
			s = ip(a).String()
		}
		h, ok := w.ring.GetHostByIP(s)
		return fmt.Sprintf("%s %v", w.obj(h), ok)
	case "all":
		var l []int
		for _, h := range w.ring.AllHosts() {
			l = append(l, w.num[h])
		}
		sort.Ints(l)
		var s []string
		for _, n := range l {
			s = append(s, strconv.Itoa(n))
		}
		return join(s)
	}
	return "bad-op"
}

func main() {
	mode, tier, path := vh.Args()
	w := &world{}
	if mode == "replay" {
		w.exec("reset")
		for _, l := range vh.ReadLines(path) {
			fmt.Println(w.exec(l))
		}
		return
	}
	r := vh.NewRng(vh.EnvSeed())
	out := vh.NewOut(path)
	scen := 300
	if tier == "thorough" {
		scen *= 30
	}
	emit := func(op, class string, nt bool) string {
		a := w.exec(op)
		out.Case(op, a, class, nt)
		return a
	}
	for i := 0; i < scen; i++ {
		emit("reset", "reset", false)
		nIDs := 1 + r.Intn(6)
		nAddr := 1 + r.Intn(6)
		nObj := 2 + r.Intn(10)
		for o := 1; o <= nObj; o++ {
			id := 1 + r.Intn(nIDs)
			if r.Intn(40) == 0 {
				id = 0
			}
			a := 1 + r.Intn(nAddr)
			c := a
			switch r.Intn(10) {
			case 0:
				c = 0
			case 1:
				c = 1 + r.Intn(nAddr)
			}
			if r.Intn(30) == 0 {
				a, c = 0, 0 // no usable address at all: addHostIfMissing panics ("invalid host")
			}
			emit(fmt.Sprintf("host %d %d %d %d", o, id, a, c), "host", false)
		}
		for k := 10 + r.Intn(40); k > 0; k-- {
			o := 1 + r.Intn(nObj)
			switch x := r.Intn(100); {
			case x < 25:
				emit(fmt.Sprintf("addm %d", o), "addHostIfMissing", true)
			case x < 40:
				emit(fmt.Sprintf("addu %d", o), "addOrUpdate", true)
			case x < 60:
				emit(fmt.Sprintf("rm %d", r.Intn(nIDs+1)), "removeHost", true)
			case x < 72:
				emit(fmt.Sprintf("get %d", r.Intn(nIDs+2)), "getHost", true)
			case x < 92:
				op := fmt.Sprintf("byip %d", r.Intn(nAddr+2))
				a := w.exec(op)
				cls := "getHostByIP/hit"
				if strings.HasPrefix(a, "nil true") {
					cls = "getHostByIP/stale-entry"
				} else if strings.HasSuffix(a, "false") {
					cls = "getHostByIP/miss"
				}
				out.Case(op, a, cls, true)
			default:
				emit("all", "allHosts", true)
			}
		}
	}
	out.Close(nil)
}
