// C16, event-debouncer unit tier ("an event arrives after a flush, BEFORE the handler goroutine of that flush has looked
// at its batch"; several handlers pending at once, run in any order): the REAL eventDebouncer (gocql.VerifEvQueue:
// newEventDebouncer with its flusher goroutine, debounce, flush; the armed 1 s debounce timer is made to expire by hand
// = logical time) whose callback reports that its goroutine has started and then WAITS for the harness before it reads
// the frames it was handed — the handler goroutine "gets the CPU" when the schedule says so:
//
//	evq <ev>     a node event frame arrives: debounce(frame)
//	evqfire      time passes until the debounce timer (if it is running) expires: the flusher flushes
//	evqrun <k>   handler goroutine k (ordinal of its flush) reads its frames; answer = what it saw
//	evqhandled   the property's oracle on the real history: every handler that has run saw exactly the frames that
//	             were in the buffer when its flush happened (C16_event_batches_intact) — spec-backed
//
// ONE controlling goroutine; an op waits exactly for the effect the state before the op makes certain (the start of a
// handler goroutine when a non-empty buffer is flushed), so the answers depend on the order of events only.
package main

import (
	"fmt"
	"net"
	"strings"
	"time"

	"github.com/gocql/gocql"
	"verifharness/vh"
)

const evqWatchdog = 15 * time.Second

type evqWorld struct {
	v       *gocql.VerifEvQueue
	window  []string         // frames of the current window as the specification has them (first 1000)
	batches map[int][]string // ordinal of the flush -> the frames in the buffer at that flush (specification)
	pending []int
	started int
	bad     []int // handlers that saw something else
	stopped bool  // stop() has returned
	late    []int // handlers started after stop() had returned
	hung    string
}

func (q *evqWorld) close() {
	if q != nil && q.v != nil {
		q.v.Finish()
		q.v = nil
	}
}

// canonical letter form of a frame as the handler saw it ("UP 10.0.0.7" -> u7)
func evqCanon(s string) string {
	f := strings.Fields(s)
	if len(f) != 2 {
		return "?" + s
	}
	a := evIPNum(net.ParseIP(f[1]))
	switch f[0] {
	case "UP":
		return fmt.Sprintf("u%d", a)
	case "DOWN":
		return fmt.Sprintf("d%d", a)
	case "TOPOLOGY":
		return "t"
	}
	return fmt.Sprintf("x%d", a)
}

func (q *evqWorld) state() string {
	n, timer := q.v.State()
	var p []string
	for _, k := range q.pending {
		p = append(p, fmt.Sprint(k))
	}
	return fmt.Sprintf("buf=%d timer=%s pending=%s", n, b01(timer), join(p))
}

func evqExec(w *world, f []string) string {
	if f[0] == "reset" {
		w.evq.close()
		w.evq = &evqWorld{v: gocql.NewVerifEvQueue(), batches: map[int][]string{}}
		return "ok"
	}
	q := w.evq
	if q == nil || q.v == nil {
		return "bad-op"
	}
	if q.hung != "" {
		return q.hung
	}
	switch f[0] {
	case "evq":
		if len(f) != 2 {
			return "bad-op"
		}
		b := parseEvBatch(f[1])
		if len(b) != 1 {
			return "bad-op"
		}
		q.v.Debounce(toNodeEvents(b)[0])
		if len(q.window) < 1000 {
			q.window = append(q.window, f[1])
		}
		return q.state()
	case "evqstop", "evqstoprace", "evqfirestop":
		return q.stop(f[0])
	case "evqfire":
		if q.stopped {
			// the timer expires, no flusher is left to take its value; a handler started now is a violation
			for i := 0; i < 500; i++ {
				if running, _ := q.v.Fire(); !running {
					break
				}
				time.Sleep(2 * time.Millisecond)
			}
			q.noteLate(20 * time.Millisecond)
			return q.state()
		}
		running, n := q.v.Fire()
		if running && n > 0 {
			// the flusher takes the timer's value, flushes and starts handler goroutine `started`
			got := false
			for i := 0; i < 2 && !got; i++ { // a second window confirms the first (a stalled machine is not a lost flush)
				select {
				case k := <-q.v.Entered():
					q.pending = append(q.pending, k)
					q.batches[k] = q.window
					q.window = nil
					q.started = k + 1
					got = true
				case <-time.After(evqWatchdog):
				}
			}
			if !got {
				q.hung = "hung:no-handler-started"
				return q.hung
			}
		} else if running {
			// an empty buffer: the flusher takes the value and returns; wait until the timer's value is consumed
			time.Sleep(2 * time.Millisecond)
		}
		return q.state()
	case "evqrun":
		if len(f) != 2 {
			return "bad-op"
		}
		k := atoi(f[1])
		idx := -1
		for i, p := range q.pending {
			if p == k {
				idx = i
			}
		}
		if idx < 0 {
			return "none " + q.state()
		}
		seen, ok := q.v.Run(k, 2*evqWatchdog)
		if !ok {
			q.hung = "hung:handler-did-not-run"
			return q.hung
		}
		q.pending = append(q.pending[:idx], q.pending[idx+1:]...)
		var c []string
		for _, s := range seen {
			c = append(c, evqCanon(s))
		}
		if join(c) != join(q.batches[k]) {
			q.bad = append(q.bad, k)
		}
		return "batch=" + join(c) + " " + q.state()
	case "evqhandled":
		q.noteLate(0)
		if len(q.late) > 0 {
			return "started-after-stop:" + joinInts(q.late)
		}
		if len(q.bad) > 0 {
			return "clobbered:" + joinInts(q.bad)
		}
		return "ok"
	}
	return "bad-op"
}

// noteLate: handler goroutines that were started although stop() had returned
func (q *evqWorld) noteLate(wait time.Duration) {
	if !q.stopped {
		return
	}
	for {
		select {
		case k := <-q.v.Entered():
			q.late = append(q.late, k)
			q.pending = append(q.pending, k)
			continue
		case <-time.After(wait):
		}
		return
	}
}

func evqBlocked(what string) bool {
	for _, g := range gocql.VerifEvqGoroutines() {
		if g == what {
			return true
		}
	}
	return false
}

// stop: the real eventDebouncer.stop() on its own goroutine, in one of three schedules. Every wait is for an effect the
// schedule makes certain on the code that exists; `hung:` after two watchdog windows.
func (q *evqWorld) stop(kind string) string {
	if q.stopped {
		return "bad-op"
	}
	var done <-chan struct{}
	waitDone := func(orStopOnMutex bool) bool {
		t0 := time.Now()
		for time.Since(t0) < 2*evqWatchdog {
			select {
			case <-done:
				return true
			case <-time.After(2 * time.Millisecond):
			}
			if orStopOnMutex && evqBlocked("stop:sync.Mutex.Lock") {
				return false
			}
		}
		return false
	}
	flushed := false
	switch kind {
	case "evqstop":
		done = q.v.StopAsync()
	case "evqstoprace":
		q.v.HoldMu() // another goroutine is inside debounce()
		done = q.v.StopAsync()
		waitDone(true) // the flusher is in its select: it takes the value from quit (stop() never needs the mutex)
		q.v.FireHeld()
		q.v.ReleaseMu()
	case "evqfirestop":
		q.v.HoldMu()
		running, n := q.v.FireHeld()
		if running {
			t0 := time.Now() // the flusher takes the timer's value and waits for the mutex: committed to flushing
			for !evqBlocked("flusher:sync.Mutex.Lock") && time.Since(t0) < 2*evqWatchdog {
				time.Sleep(time.Millisecond)
			}
		}
		done = q.v.StopAsync()
		t0 := time.Now() // stop() is blocked in its send on quit (the flusher is not in its select)
		for running && !evqBlocked("stop:chan send") && !evqBlocked("stop:sync.Mutex.Lock") && time.Since(t0) < 2*evqWatchdog {
			time.Sleep(time.Millisecond)
		}
		q.v.ReleaseMu()
		flushed = running && n > 0
	}
	if flushed {
		select {
		case k := <-q.v.Entered():
			q.pending = append(q.pending, k)
			q.batches[k] = q.window
			q.window = nil
			q.started = k + 1
		case <-time.After(2 * evqWatchdog):
			q.hung = "hung:no-handler-started"
			return q.hung
		}
	}
	if !waitDone(false) {
		q.hung = "hung:stop-did-not-return:" + strings.Join(gocql.VerifEvqGoroutines(), "+")
		return q.hung
	}
	q.stopped = true
	if kind == "evqstoprace" { // the expiry the stop raced with: nobody takes the timer's value
		for i := 0; i < 500; i++ {
			if running, _ := q.v.Fire(); !running {
				break
			}
			time.Sleep(2 * time.Millisecond)
		}
		q.noteLate(5 * time.Millisecond)
	}
	return "stopped " + q.state()
}

// runEvQueue generates the schedules: bursts inside one window, events that arrive after a flush while its handler is
// still pending (about half of the frames), several handlers pending at once and run in any order, status flapping of
// few addresses so that a clobbered batch changes what handleNodeEvent would do.
func runEvQueue(r *vh.Rng, out *vh.Out, tier string) {
	scen := 150
	if tier == "thorough" {
		scen *= 30
	}
	w := &world{}
	emit := func(op, class string) string {
		a := w.exec(op)
		out.Case(op, a, class, true)
		return a
	}
	for i := 0; i < scen; i++ {
		emit("reset evq", "evq/new-debouncer")
		nAddr := 2 + r.Intn(5)
		var pending []int
		started, buffered := 0, 0
		frame := func() string {
			switch x := r.Intn(20); {
			case x < 2:
				return "t"
			case x < 10:
				return fmt.Sprintf("u%d", 2+r.Intn(nAddr))
			case x < 19:
				return fmt.Sprintf("d%d", 2+r.Intn(nAddr))
			}
			return fmt.Sprintf("x%d", 2+r.Intn(nAddr))
		}
		stop := false
		stopped := false
		stopAt := -1
		n := 4 + r.Intn(20)
		if r.Intn(5) < 2 {
			stopAt = r.Intn(n) // Session.Close somewhere in the schedule; frames, expiries and handler runs go on after it
		}
		for k := 0; k < n && !stop; k++ {
			if k == stopAt {
				kind := []string{"evqstop", "evqstoprace", "evqfirestop"}[r.Intn(3)]
				cls := "empty-buffer"
				if buffered > 0 {
					cls = "frames-buffered"
				}
				if kind == "evqfirestop" && buffered > 0 {
					pending = append(pending, started)
					started++
					buffered = 0
				}
				np := len(pending)
				if np > 3 {
					np = 3
				}
				a := emit(kind, fmt.Sprintf("evq/%s/%s/%d-handler(s)-pending", kind[3:], cls, np))
				stopped = true
				if strings.HasPrefix(a, "hung") || strings.HasPrefix(a, "crash") {
					stop = true
				}
				continue
			}
			when := "no-handler-pending"
			cut := [2]int{55, 90}
			if len(pending) > 0 {
				np := len(pending)
				if np > 3 {
					np = 3
				}
				when = fmt.Sprintf("%d-handler(s)-PENDING", np)
				cut = [2]int{45, 65}
			}
			var a string
			switch x := r.Intn(100); {
			case x < cut[0]:
				cls := "first-of-window"
				if buffered > 0 {
					cls = "in-window"
				}
				a = emit("evq "+frame(), "evq/frame-arrives/"+cls+"/"+when)
				buffered++
			case x < cut[1]:
				cls := "empty-buffer"
				if stopped {
					cls = "AFTER-stop"
				} else if buffered > 0 {
					cls = "flush"
					pending = append(pending, started)
					started++
					buffered = 0
				}
				a = emit("evqfire", "evq/timer-expires/"+cls+"/"+when)
			default:
				if len(pending) == 0 {
					a = emit(fmt.Sprintf("evqrun %d", started+r.Intn(2)), "evq/handler-runs/no-such-handler")
				} else {
					j := r.Intn(len(pending))
					cls := "oldest-first"
					if j > 0 {
						cls = "OUT-OF-ORDER"
					}
					a = emit(fmt.Sprintf("evqrun %d", pending[j]), "evq/handler-runs/"+cls+"/"+when)
					pending = append(pending[:j], pending[j+1:]...)
				}
			}
			if strings.HasPrefix(a, "hung") || strings.HasPrefix(a, "crash") {
				stop = true
			}
		}
		if stop {
			emit("evqhandled", "evqhandled/spec-backed") // the oracle on the history that hung / crashed
			break
		}
		// drain: flush what is buffered, run every pending handler (in a random order), then the oracle
		if buffered > 0 && !stopped {
			emit("evqfire", "evq/timer-expires/flush/drain")
			pending = append(pending, started)
			started++
		}
		for len(pending) > 0 {
			j := r.Intn(len(pending))
			emit(fmt.Sprintf("evqrun %d", pending[j]), "evq/handler-runs/drain")
			pending = append(pending[:j], pending[j+1:]...)
		}
		if a := emit("evqhandled", "evqhandled/spec-backed"); strings.HasPrefix(a, "hung") {
			break
		}
	}
	// one window of more than eventBufferSize frames (KF-C16-7: the newest are dropped — in the model, the specification
	// and the code alike), then an event arriving while that handler is pending
	emit("reset evq", "evq/new-debouncer")
	for k := 0; k < 1003; k++ {
		emit(fmt.Sprintf("evq u%d", 2+k%5), "evq/frame-arrives/window-of-1003")
	}
	emit("evqfire", "evq/timer-expires/flush/full-buffer")
	emit("evq d2", "evq/frame-arrives/first-of-window/1-handler(s)-PENDING")
	emit("evqrun 0", "evq/handler-runs/full-buffer")
	emit("evqfire", "evq/timer-expires/flush/drain")
	emit("evqrun 1", "evq/handler-runs/drain")
	emit("evqhandled", "evqhandled/spec-backed")
	w.evq.close()
}
