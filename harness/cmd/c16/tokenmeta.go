// C16, the token-aware policy's metadata as part of the session's picture of the cluster: the REAL
// tokenAwareHostPolicy of the logical-tier sessions gets a partitioner (evpart; the sessions with a control connection
// get it from system.local) and keyspace metadata supplied by the harness (ks1 = the session keyspace and ks2:
// SimpleStrategy with a replication factor above the number of nodes — every token-owning host of the ring is a replica
// of every token —, ks3: the lookup fails, ks4: LocalStrategy). After every op of the tier the metadata follows the
// policy's host list:
//
//	evpart      policy.SetPartitioner(Murmur3)
//	evks <k>    policy.KeyspaceChanged(ks<k>)
//	evtmeta     the hosts the metadata refers to: token ring, token owners, every replica table (model vs code)
//	evrouted    the property's oracle (spec-backed, C16_routed_oracle_ok): every host the metadata refers to and every
//	            host the REAL Pick offers for a routed query (keyspaces ks1 … ks3) is an object of the session's ring
package main

import (
	"errors"
	"fmt"
	"sort"
	"strings"
	"time"

	"github.com/gocql/gocql"
)

const evPartitioner = "org.apache.cassandra.dht.Murmur3Partitioner"

func evKeyspaceMeta(ks string) (*gocql.KeyspaceMetadata, error) {
	switch ks {
	case "ks1", "ks2":
		return &gocql.KeyspaceMetadata{Name: ks, StrategyClass: "org.apache.cassandra.locator.SimpleStrategy",
			StrategyOptions: map[string]interface{}{"class": "SimpleStrategy", "replication_factor": "100"}}, nil
	case "ks4":
		return &gocql.KeyspaceMetadata{Name: ks, StrategyClass: "org.apache.cassandra.locator.LocalStrategy",
			StrategyOptions: map[string]interface{}{"class": "LocalStrategy"}}, nil
	}
	return nil, errors.New("verif: keyspace does not exist")
}

func (e *evWorld) installTokenMeta() {
	if e.tokenAw {
		gocql.VerifTokenAwareInstall(e.policy, "ks1", evKeyspaceMeta)
	}
}

func idsStr(l []*gocql.HostInfo) string {
	var ids []int
	for _, h := range l {
		ids = append(ids, evIDNum(h.HostID()))
	}
	sort.Ints(ids)
	return joinInts(ids)
}

func (e *evWorld) tmeta() string {
	m, ok := gocql.VerifTokenMetaSnapshot(e.policy)
	if !ok {
		return "bad-op"
	}
	s := "ring=nil own=nil"
	if m.HasRing {
		s = "ring=" + idsStr(m.RingHosts) + " own=" + idsStr(m.RingOwner)
	}
	var ks []string
	for k := range m.Replicas {
		ks = append(ks, k)
	}
	sort.Strings(ks)
	var parts []string
	for _, k := range ks {
		parts = append(parts, strings.TrimPrefix(k, "ks")+":"+idsStr(m.Replicas[k]))
	}
	if len(parts) == 0 {
		return s + " repl=-"
	}
	return s + " repl=" + strings.Join(parts, ";")
}

// routed: hosts the metadata refers to, or the real Pick offers for a routed query, that are not objects of the ring
func (e *evWorld) routed() string {
	m, ok := gocql.VerifTokenMetaSnapshot(e.policy)
	if !ok {
		return "bad-op"
	}
	sn := e.snap()
	inRing := map[*gocql.HostInfo]bool{}
	for _, h := range sn.RingByID {
		inRing[h] = true
	}
	stray := map[int]bool{}
	note := func(l []*gocql.HostInfo) {
		for _, h := range l {
			if !inRing[h] {
				stray[evIDNum(h.HostID())] = true
			}
		}
	}
	note(m.RingHosts)
	note(m.RingOwner)
	for _, l := range m.Replicas {
		note(l)
	}
	for _, ks := range []string{"ks1", "ks2", "ks3"} {
		for _, key := range []string{"a", "routing-key-2"} {
			note(gocql.VerifPickRouted(e.sess.S, ks, []byte(key)))
		}
	}
	var ids []int
	for id := range stray {
		ids = append(ids, id)
	}
	sort.Ints(ids)
	return objsOr("vanished:", ids)
}

func (e *evWorld) schemaStr() string {
	var ks []int
	for _, k := range gocql.VerifSchemaCached(e.sess.S) {
		ks = append(ks, atoi(strings.TrimPrefix(k, "ks")))
	}
	sort.Ints(ks)
	if e.tokenAw {
		return "cache=" + joinInts(ks) + " " + e.tmeta()
	}
	return "cache=" + joinInts(ks) + " -"
}

// schemaOps: schema-cache fills and batches of SCHEMA_CHANGE events through the real handleSchemaEvent; keyspace-level
// events need the control connection (schema agreement), so the dial-free scenarios get the other kinds only
func (g *evGen) schemaOps(withControl bool) {
	if g.dead {
		return
	}
	r := g.r
	switch x := r.Intn(100); {
	case x < 10:
		g.emit(fmt.Sprintf("evscache %d", 1+r.Intn(4)), "evscache", true)
	case x < 22:
		kinds := "tyfa"
		if withControl {
			kinds = "kkktyfa"
		}
		var l []string
		cls := map[string]bool{}
		for n := 1 + r.Intn(3); n > 0; n-- {
			k := kinds[r.Intn(len(kinds))]
			l = append(l, fmt.Sprintf("%c%d", k, 1+r.Intn(4)))
			if k == 'k' {
				cls["keyspace"] = true
			} else {
				cls["table/type/function/aggregate"] = true
			}
		}
		var c []string
		for k := range cls {
			c = append(c, k)
		}
		sort.Strings(c)
		g.emit("evschema "+strings.Join(l, ","), "evschema/"+strings.Join(c, "+"), true)
	}
}

func tokenMetaExec(e *evWorld, f []string) (string, bool) {
	switch f[0] {
	case "evpart":
		e.policy.SetPartitioner(evPartitioner)
		return e.tmeta(), true
	case "evks":
		if len(f) != 2 {
			return "bad-op", true
		}
		e.policy.KeyspaceChanged(gocql.KeyspaceUpdateEvent{Keyspace: "ks" + f[1], Change: "UPDATED"})
		return e.tmeta(), true
	case "evtmeta":
		return e.tmeta(), true
	case "evscache":
		if len(f) != 2 {
			return "bad-op", true
		}
		gocql.VerifSchemaCachePut(e.sess.S, "ks"+f[1])
		return e.schemaStr(), true
	case "evschema":
		if len(f) != 2 {
			return "bad-op", true
		}
		var evs []gocql.VerifSchemaEvent
		if f[1] != "-" {
			for _, w := range strings.Split(f[1], ",") {
				if len(w) < 2 {
					continue
				}
				kind, ok := map[byte]string{'k': "keyspace", 't': "table", 'y': "type", 'f': "function", 'a': "aggregate"}[w[0]]
				if !ok {
					continue
				}
				evs = append(evs, gocql.VerifSchemaEvent{Kind: kind, Change: "UPDATED", Keyspace: "ks" + w[1:]})
			}
		}
		// a keyspace event waits for schema agreement on the control connection first (bounded: rows the scripted node
		// serves may be unusable)
		gocql.VerifHandleSchemaEvent(e.sess.S, evs, 300*time.Millisecond)
		return e.schemaStr(), true
	case "evrouted":
		return e.routed(), true
	}
	return "", false
}

// tokenOps: after a step of a scenario with a token-aware policy — partitioner, keyspace changes, observations
func (g *evGen) tokenOps(pol string, step string) {
	if g.dead || !strings.HasPrefix(pol, "ta") {
		return
	}
	r := g.r
	switch x := r.Intn(100); {
	case x < 8:
		g.emit("evpart", "evpart", true)
	case x < 24:
		k := 1 + r.Intn(4)
		g.emit(fmt.Sprintf("evks %d", k), fmt.Sprintf("evks/%s", []string{"", "session-keyspace", "other-keyspace", "unknown-keyspace", "LocalStrategy"}[k]), true)
	}
	if r.Intn(2) == 0 {
		g.emit("evtmeta", "evtmeta/after-"+step, true)
	}
	if r.Intn(2) == 0 {
		g.emit("evrouted", "evrouted/spec-backed/after-"+step, true)
	}
}
