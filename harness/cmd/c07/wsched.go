// Writer-level scheduling tier of C07: the two real writers (deadlineContextWriter, writeCoalescer with the real
// writeFlusherImpl / flush; hook VerifNewManualWriter) WITHOUT a Conn, over the gated transport of gate.go. The
// scheduler is the only source of progress: it makes caller i call writeContext, cancels contexts, fires the flush
// timer, delivers the bytes of every Write piece by piece, decides how each Write returns - and it also decides WHEN
// THE CONNECTION SHUTS DOWN: `Q` closes the writers' quit channel (what Conn.closeWithError's c.cancel() does) and
// `X` closes the socket (c.close(), which comes after cancel()). So the shutdown leg of both writers is conducted in
// every order with enqueues, ticks, flush results and cancellations: quit with a non-empty queue and a healthy
// socket, frames enqueued between a torn flush and quit, quit in the middle of a flush, quit while callers wait for
// the semaphore. (With a Conn on top these orders depend on races the scheduler cannot conduct: a failing caller
// goes from its write error to closeWithError without a scheduling point.)
//
// Every run yields two op lines:
//
//	wsched ...  commands and observed events, replayed by the Lean machine (quit / flusherQuit / shutQuit actions) -- model-vs-code
//	wtrace ...  the byte stream as pieces with the enter / end / tick / quit / close / outcome events in order, judged
//	            by the Lean monitor (Driver.C07.wmonitor)                                                        -- spec-backed
package main

import (
	"context"
	"errors"
	"fmt"
	"io"
	"net"
	"sort"
	"strconv"
	"strings"
	"time"

	"github.com/gocql/gocql"
	"verifharness/memcluster"
	"verifharness/vh"
)

type nullConn struct{}

func (nullConn) Read([]byte) (int, error)         { return 0, io.EOF }
func (nullConn) Write(p []byte) (int, error)      { return len(p), nil }
func (nullConn) Close() error                     { return nil }
func (nullConn) LocalAddr() net.Addr              { return nil }
func (nullConn) RemoteAddr() net.Addr             { return nil }
func (nullConn) SetDeadline(time.Time) error      { return nil }
func (nullConn) SetReadDeadline(time.Time) error  { return nil }
func (nullConn) SetWriteDeadline(time.Time) error { return nil }

type wconf struct {
	coal bool
	wt   bool
	lens []int // total frame length of caller i+1
}

func (c wconf) header() string {
	w, t := "d", "0"
	if c.coal {
		w = "c"
	}
	if c.wt {
		t = "1"
	}
	zs := make([]string, len(c.lens))
	for i, z := range c.lens {
		zs[i] = strconv.Itoa(z)
	}
	return fmt.Sprintf("w=%s t=%s z=%s", w, t, strings.Join(zs, ","))
}

func parseWHeader(w []string) (wconf, bool) {
	var c wconf
	if len(w) < 3 || !strings.HasPrefix(w[2], "z=") {
		return c, false
	}
	c.coal = w[0] == "w=c"
	c.wt = w[1] == "t=1"
	for _, x := range strings.Split(w[2][2:], ",") {
		v, err := strconv.Atoi(x)
		if err != nil || v < 10 {
			return c, false
		}
		c.lens = append(c.lens, v)
	}
	return c, true
}

const wproto = 4

// wframe: a protocol-4 QUERY frame of `total` bytes whose stream id is the caller's number.
func wframe(id, total int) []byte {
	f := make([]byte, total)
	f[0], f[2], f[3], f[4] = 0x04, byte(id>>8), byte(id), 0x07
	n := total - 9
	f[5], f[6], f[7], f[8] = byte(n>>24), byte(n>>16), byte(n>>8), byte(n)
	for i := 9; i < total; i++ {
		f[i] = 0x80 | byte(id)
	}
	return f
}

type wcaller struct {
	id       int
	gid      int64
	gidReady chan struct{}
	ctx      context.Context
	cancel   context.CancelFunc
	done     chan struct{}
	n        int
	err      error
	reported bool
	enq      bool
	entered  bool
	stuckQ   bool
	state    string
}

type wrun struct {
	conf     wconf
	g        *gatedConn
	v        *gocql.VerifWriter
	tick     func() bool
	goneC    <-chan struct{}
	callers  map[int]*wcaller
	order    []*wcaller
	seen     map[*gwrite]bool
	wreq     map[*gwrite]int
	multi    map[*gwrite][]int // a Write that carries several whole frames: the callers, in order
	events   []string
	trace    []string
	pieces   []string
	qseen    bool
	xseen    bool
	goneSeen bool
	fatal    string
	// features of the scenario (class label)
	torn, kfWindow, quitQueue, enqAfterTorn, quitInFlush, quitSem bool
	preCancelled, cancelInWrite, armFailed, sizeMix               bool
	armSeen                                                       int
	tickSinceTorn                                                 bool
}

func newWRun(conf wconf) *wrun {
	g := &gatedConn{Conn: nullConn{}, proto: wproto, on: true, perWrite: !conf.coal, recRejected: true}
	wt := time.Duration(0)
	if conf.wt {
		wt = 10 * time.Minute
	}
	ru := &wrun{conf: conf, g: g, callers: map[int]*wcaller{}, seen: map[*gwrite]bool{}, wreq: map[*gwrite]int{}, multi: map[*gwrite][]int{}}
	ru.v, ru.tick, ru.goneC = gocql.VerifNewManualWriter(g, conf.coal, wt)
	if _, err := quiesce(); err != nil {
		ru.fatal = "fatal not quiescent after the writer was made"
	}
	return ru
}

// finish releases whatever the scenario left behind (nothing when it ran to its end).
func (ru *wrun) finish() {
	if !ru.qseen {
		ru.v.Quit()
	}
	ru.g.Close()
	for _, w := range ru.g.heldSnapshot() {
		ru.g.endWrite(w, kindErr("pipe"))
	}
	for _, r := range ru.order {
		r.cancel()
	}
}

func (ru *wrun) start(id int, preCancel bool) bool {
	if id < 1 || id > len(ru.conf.lens) || ru.callers[id] != nil {
		return false
	}
	ctx, cancel := context.WithCancel(context.Background())
	if preCancel {
		// the caller's context has ENDED when it reaches writeContext's first select (in Conn.exec: between the
		// up-front ctx.Err() check and the select). With the semaphore free / the flusher at its select Go's select
		// may take either ready case; both continuations are behaviours of the machine (submit; cancel | enter/enqueue).
		cancel()
		ru.preCancelled = true
	}
	r := &wcaller{id: id, gidReady: make(chan struct{}), ctx: ctx, cancel: cancel, done: make(chan struct{})}
	ru.callers[id] = r
	ru.order = append(ru.order, r)
	frame := wframe(id, ru.conf.lens[id-1])
	go func() {
		r.gid = curGID()
		close(r.gidReady)
		defer close(r.done)
		defer func() {
			if e := recover(); e != nil {
				r.err = fmt.Errorf("crash:%v", e)
			}
		}()
		r.n, r.err = ru.v.WriteContext(ctx, frame)
	}()
	<-r.gidReady
	ru.trace = append(ru.trace, fmt.Sprintf("s%d:%d", id, len(frame)))
	return true
}

func (ru *wrun) heldOf(id int) *gwrite {
	for _, w := range ru.g.heldSnapshot() {
		if ru.wreq[w] == id {
			return w
		}
	}
	return nil
}

func (ru *wrun) queued() int {
	n := 0
	for _, q := range ru.order {
		if q.state == "R" && !q.entered {
			n++
		}
	}
	return n
}

// exec runs one command token; false = not executable in the current state.
func (ru *wrun) exec(tok string) bool {
	num := func(s string) int { v, _ := strconv.Atoi(s); return v }
	switch {
	case tok == "t":
		if !ru.tick() {
			return false
		}
		ru.trace = append(ru.trace, "t")
		ru.tickSinceTorn = true
	case tok == "D":
		// the next SetWriteDeadline fails: the direct writer returns (0, err) from inside the critical section, the
		// coalescer's flush hands (0, err) to every buffer of the batch - no Write enters the transport
		ru.g.mu.Lock()
		pending := ru.g.failArm > 0
		if !pending {
			ru.g.failArm = 1
		}
		ru.g.mu.Unlock()
		if pending || !ru.conf.wt {
			return false
		}
		ru.trace = append(ru.trace, "D")
	case tok == "Q":
		if ru.qseen {
			return false
		}
		if ru.queued() > 0 {
			ru.quitQueue = true
			if ru.torn && !ru.tickSinceTorn {
				ru.enqAfterTorn = true
			}
		}
		if len(ru.g.heldSnapshot()) > 0 {
			ru.quitInFlush = true
		}
		for _, q := range ru.order {
			if q.state == "S" {
				ru.quitSem = true
			}
		}
		ru.qseen = true
		ru.v.Quit()
		ru.trace = append(ru.trace, "Q")
	case tok == "X":
		if !ru.qseen || ru.xseen { // c.cancel() precedes c.close()
			return false
		}
		ru.xseen = true
		ru.g.Close()
		ru.trace = append(ru.trace, "X")
	case tok[0] == 's':
		if !ru.start(num(tok[1:]), false) {
			return false
		}
	case tok[0] == 'S':
		if !ru.start(num(tok[1:]), true) {
			return false
		}
	case tok[0] == 'c':
		r := ru.callers[num(tok[1:])]
		if r == nil {
			return false
		}
		if r.state != "D" && (r.entered || r.state == "G") {
			ru.cancelInWrite = true
		}
		r.cancel()
	case tok[0] == 'p':
		p := strings.Split(tok[1:], ":")
		if len(p) != 2 {
			return false
		}
		w := ru.heldOf(num(p[0]))
		n := num(p[1])
		if w == nil || n <= 0 || w.off+n > len(w.p) || ru.g.isClosed() {
			return false
		}
		for _, pc := range ru.g.deliver(w, n) {
			ru.trace = append(ru.trace, fmt.Sprintf("p%d:%d:%d:%d", pc.req, pc.ln, pc.off, pc.n))
			ru.pieces = append(ru.pieces, fmt.Sprintf("%d:%d:%d", pc.req, pc.off, pc.n))
		}
	case tok[0] == 'e':
		p := strings.Split(tok[1:], ":")
		if len(p) != 2 {
			return false
		}
		w := ru.heldOf(num(p[0]))
		if w == nil || (p[1] == "ok" && w.off != len(w.p)) {
			return false
		}
		st := "err"
		if p[1] == "ok" {
			st = "ok"
		}
		if ids := ru.multi[w]; ids != nil {
			for _, id := range ids { // the Write ended for every frame it carried
				ru.trace = append(ru.trace, fmt.Sprintf("e%d:%s", id, st))
			}
		} else {
			ru.trace = append(ru.trace, fmt.Sprintf("e%d:%s", ru.wreq[w], st))
		}
		if st == "err" && w.off > 0 && w.off < len(w.p) {
			ru.torn = true
			ru.tickSinceTorn = false
		}
		ru.g.endWrite(w, kindErr(p[1]))
	default:
		return false
	}
	ru.events = append(ru.events, tok)
	ru.settle()
	return true
}

// identifyAll: the callers whose whole frames p is the concatenation of (nil when p is anything else).
func (ru *wrun) identifyAll(p []byte) []int {
	fr, _, rest := memcluster.SplitFrames(p, wproto)
	if len(rest) != 0 {
		return nil
	}
	var ids []int
	for _, f := range fr {
		if ru.callers[f.Stream] == nil {
			return nil
		}
		ids = append(ids, f.Stream)
	}
	return ids
}

func (ru *wrun) identify(p []byte) int {
	fr, _, rest := memcluster.SplitFrames(p, wproto)
	if len(fr) == 1 && len(rest) == 0 && ru.callers[fr[0].Stream] != nil {
		return fr[0].Stream
	}
	return 0
}

// settle waits for quiescence and records the observable events in a canonical order.
func (ru *wrun) settle() {
	gs, err := quiesce()
	if err != nil {
		if ru.fatal == "" {
			ru.fatal = "fatal not quiescent (dump /tmp/c07_sched_hang.txt)"
		}
		return
	}
	byID := map[int64]*ginfo{}
	for i := range gs {
		byID[gs[i].id] = &gs[i]
	}
	entered := func(id, ln int) {
		if r := ru.callers[id]; r != nil {
			r.entered = true
		}
		ru.events = append(ru.events, fmt.Sprintf("+a%d:%d", id, ln))
		ru.trace = append(ru.trace, fmt.Sprintf("a%d", id))
		if ru.torn && (ru.tickSinceTorn || !ru.conf.coal) {
			ru.kfWindow = true
		}
	}
	report := func(r *wcaller) {
		r.reported = true
		cls := "err"
		switch {
		case r.err == nil:
			cls = "ok"
		case strings.HasPrefix(r.err.Error(), "crash:"):
			cls = "crash"
		case errors.Is(r.err, context.Canceled):
			cls = "cancel"
		case r.err == io.EOF || r.err == gocql.ErrConnectionClosed:
			cls = "quit"
		}
		ru.events = append(ru.events, fmt.Sprintf("+r%d:%d:%s", r.id, r.n, cls))
		ru.trace = append(ru.trace, fmt.Sprintf("r%d:%d:%s", r.id, r.n, cls))
	}
	// 0. SetWriteDeadline failures, and the callers that got that error: they held the semaphore / were the flusher's
	// batch BEFORE whatever entered the transport afterwards
	ru.g.mu.Lock()
	af := ru.g.armFails
	ru.g.mu.Unlock()
	for ; ru.armSeen < af; ru.armSeen++ {
		ru.armFailed = true
		ru.events = append(ru.events, "+d")
		ru.trace = append(ru.trace, "d")
	}
	for _, r := range ru.order {
		if r.reported {
			continue
		}
		select {
		case <-r.done:
			if errors.Is(r.err, errArm) {
				r.state = "D"
				report(r)
			}
		default:
		}
	}
	// 1. Writes that entered the transport (held), and Writes the closed socket refused at once
	held := ru.g.heldSnapshot()
	sort.Slice(held, func(i, j int) bool { return held[i].idx < held[j].idx })
	for _, w := range held {
		if ru.seen[w] {
			continue
		}
		ru.seen[w] = true
		// The property is about the byte stream, not about how it is cut into Writes: a Write that carries several whole
		// frames back to back (a writer that gathers a batch into one buffer) is that many frames entering the transport
		// together, each judged on its own bytes.
		ids := ru.identifyAll(w.p)
		if len(ids) > 1 && len(ids) == len(w.frames) {
			ru.wreq[w] = ids[0]
			ru.multi[w] = ids
			for fi := range w.frames {
				w.frames[fi].req = ids[fi]
				entered(ids[fi], w.frames[fi].ln)
			}
			continue
		}
		id := ru.identify(w.p)
		ru.wreq[w] = id
		for fi := range w.frames {
			w.frames[fi].req = id
		}
		entered(id, len(w.p))
	}
	for _, p := range ru.g.takeRejected() {
		id := ru.identify(p)
		entered(id, len(p))
		ru.events = append(ru.events, fmt.Sprintf("+e%d:pipe", id))
		ru.trace = append(ru.trace, fmt.Sprintf("e%d:err", id))
	}
	// 2. positions of the callers; newly enqueued ones
	for _, r := range ru.order {
		select {
		case <-r.done:
			r.state = "D"
			continue
		default:
		}
		if gi := byID[r.gid]; gi != nil {
			r.state = classify(gi)
		} else {
			r.state = "?gone"
		}
		if r.state == "R" && !r.enq {
			r.enq = true
			ru.events = append(ru.events, fmt.Sprintf("+q%d", r.id))
		}
		// quit is closed and the process is quiescent, yet the caller is still parked in writeContext's first select
		if ru.qseen && (r.state == "S" || r.state == "E") && !r.stuckQ {
			r.stuckQ = true
			ru.trace = append(ru.trace, fmt.Sprintf("W%d", r.id))
		}
	}
	// 3. the flusher goroutine returned
	if ru.goneC != nil && !ru.goneSeen {
		select {
		case <-ru.goneC:
			ru.goneSeen = true
			ru.events = append(ru.events, "+g")
			ru.trace = append(ru.trace, "g")
		default:
		}
	}
	// 4. outcomes
	for _, r := range ru.order {
		if r.state != "D" || r.reported {
			continue
		}
		report(r)
	}
}

func (ru *wrun) answer() string {
	b := func(x bool) string {
		if x {
			return "1"
		}
		return "0"
	}
	w := "-"
	if len(ru.pieces) > 0 {
		w = strings.Join(ru.pieces, ",")
	}
	return fmt.Sprintf("ok quit=%s gone=%s closed=%s wire=%s", b(ru.qseen), b(ru.goneSeen), b(ru.g.isClosed()), w)
}

func (ru *wrun) schedLine() string {
	return "wsched " + ru.conf.header() + " | " + strings.Join(ru.events, " ")
}

func (ru *wrun) cmds() string {
	var cmds []string
	for _, e := range ru.events {
		if e[0] != '+' {
			cmds = append(cmds, e)
		}
	}
	return strings.Join(cmds, " ")
}

// traceLine: `ended` = the scenario ran to its end (quit closed, socket closed, no Write inside the transport): the
// monitor then also requires that every caller has its outcome.
func (ru *wrun) traceLine() string {
	tr := append([]string(nil), ru.trace...)
	if ru.qseen && ru.xseen && len(ru.g.heldSnapshot()) == 0 {
		tr = append(tr, "z")
	}
	t := "-"
	if len(tr) > 0 {
		t = strings.Join(tr, ";")
	}
	ru.g.mu.Lock()
	fr, _, rest := memcluster.SplitFrames(ru.g.raw, wproto)
	total := len(ru.g.raw)
	ru.g.mu.Unlock()
	return fmt.Sprintf("wtrace bytes=%d frames=%d rest=%d %s | %s | %s", total, len(fr), len(rest), t, ru.conf.header(), ru.cmds())
}

func (ru *wrun) class() string {
	cls := "wsched/direct"
	if ru.conf.coal {
		cls = "wsched/coalesce"
	}
	if ru.conf.wt {
		cls += "/wt>0"
	} else {
		cls += "/wt=0"
	}
	for _, f := range []struct {
		on bool
		s  string
	}{{ru.torn, "torn"}, {ru.kfWindow, "KF-C07-1-window"}, {ru.quitQueue, "quit-with-queue"}, {ru.enqAfterTorn, "queued-between-torn-and-quit"},
		{ru.quitInFlush, "quit-inside-write"}, {ru.quitSem, "quit-with-semaphore-waiters"},
		{ru.preCancelled, "ctx-ended-before-select"}, {ru.cancelInWrite, "cancel-inside-write"}, {ru.armFailed, "deadline-arming-failed"}, {ru.sizeMix, "size-mix-across-batching-thresholds"}} {
		if f.on {
			cls += "/" + f.s
		}
	}
	return cls
}

// ---- replay

func replayW(line string, trace bool) string {
	parts := strings.Split(line, " | ")
	var hdr, cmds string
	switch {
	case trace && len(parts) == 3:
		hdr, cmds = parts[1], parts[2]
	case !trace && len(parts) == 2:
		hdr = strings.TrimPrefix(parts[0], "wsched ")
		cmds = parts[1]
	default:
		return "bad-op"
	}
	conf, ok := parseWHeader(strings.Fields(hdr))
	if !ok {
		return "bad-op"
	}
	ru := newWRun(conf)
	defer ru.finish()
	for _, tok := range strings.Fields(cmds) {
		if tok[0] == '+' {
			continue
		}
		if ru.fatal != "" {
			return ru.fatal
		}
		if !ru.exec(tok) {
			return fmt.Sprintf("deviate: command %s not executable after: %s", tok, strings.Join(ru.events, " "))
		}
	}
	if ru.fatal != "" {
		return ru.fatal
	}
	if trace {
		if got := ru.traceLine(); got != line {
			return "deviate: " + got
		}
		return "accept"
	}
	if got := ru.schedLine(); got != line {
		return "deviate: " + got
	}
	return ru.answer()
}

// ---- generation

// serve: every Write inside the transport gets all its bytes and returns nil (newest first), until none is left.
func (ru *wrun) serve() {
	for i := 0; i < 100 && ru.fatal == ""; i++ {
		held := ru.g.heldSnapshot()
		if len(held) == 0 {
			return
		}
		sort.Slice(held, func(i, j int) bool { return held[i].idx < held[j].idx })
		w := held[len(held)-1]
		id := ru.wreq[w]
		switch {
		case ru.g.isClosed():
			ru.exec(fmt.Sprintf("e%d:pipe", id))
		case w.off < len(w.p):
			ru.exec(fmt.Sprintf("p%d:%d", id, len(w.p)-w.off))
		default:
			ru.exec(fmt.Sprintf("e%d:ok", id))
		}
	}
}

// flushIfQueued fires the flush timer when the coalescer has requests enqueued and no Write inside the transport.
func (ru *wrun) flushIfQueued(step func(string)) {
	if ru.conf.coal && ru.fatal == "" && !ru.goneSeen && ru.queued() > 0 && len(ru.g.heldSnapshot()) == 0 {
		step("t")
	}
}

// drainCut serves the Writes inside the transport oldest first under a byte budget: a Write that fits is delivered whole
// and ends ok; the Write in which the budget runs out is delivered up to that byte and ends with `ek` (then nothing is
// cut any more: *budget < 0). With the budget spent at a Write boundary the NEXT Write ends with `ek` after 0 bytes.
func (ru *wrun) drainCut(budget *int, ek string) {
	for i := 0; i < 100 && ru.fatal == ""; i++ {
		held := ru.g.heldSnapshot()
		if len(held) == 0 {
			return
		}
		sort.Slice(held, func(i, j int) bool { return held[i].idx < held[j].idx })
		w := held[0]
		id := ru.wreq[w]
		rem := len(w.p) - w.off
		switch {
		case ru.g.isClosed():
			ru.exec(fmt.Sprintf("e%d:pipe", id))
		case *budget < 0 || *budget >= rem:
			if rem > 0 {
				ru.exec(fmt.Sprintf("p%d:%d", id, rem))
			}
			ru.exec(fmt.Sprintf("e%d:ok", id))
			if *budget >= 0 {
				*budget -= rem
			}
		default:
			if *budget > 0 {
				ru.exec(fmt.Sprintf("p%d:%d", id, *budget))
			}
			ru.exec(fmt.Sprintf("e%d:%s", id, ek))
			*budget = -1
		}
	}
}

// wSizeMix: frame SIZE mixes across batching thresholds x a cut at a byte offset of the request stream. The callers
// arrive one after the other WITHOUT a timer tick in between (small frames queued, then a frame larger than any
// batching buffer, or the large one first / in the middle); whatever enters the transport - at any moment: after a
// tick for the writer as it is, but also on arrival for a writer that flushes early when its buffer is full - is served
// oldest first until `cut` bytes of the stream are out; the Write that holds byte `cut` ends there with `ek`; everything
// else is served whole; ticks are fired whenever requests are queued and nothing is inside the transport.
func wSizeMix(conf wconf, cut int, ek string) wcase {
	ru := newWRun(conf)
	defer ru.finish()
	step := func(tok string) {
		if ru.fatal == "" && !ru.exec(tok) {
			ru.fatal = "fatal size-mix command not executable: " + tok + " after " + strings.Join(ru.events, " ")
		}
	}
	ru.sizeMix = true
	budget := cut
	for i := range conf.lens {
		step(fmt.Sprintf("s%d", i+1))
		ru.drainCut(&budget, ek)
	}
	for i := 0; i < 8 && ru.fatal == ""; i++ {
		ru.flushIfQueued(step)
		ru.drainCut(&budget, ek)
		if ru.queued() == 0 && len(ru.g.heldSnapshot()) == 0 {
			break
		}
	}
	if ru.fatal == "" {
		ru.windUp()
	}
	return ru.result()
}

// wind up: quit (if not yet), whatever then enters the transport is served whole (a healthy socket), socket closed.
func (ru *wrun) windUp() {
	if !ru.qseen {
		ru.exec("Q")
	}
	ru.serve()
	if !ru.xseen {
		ru.exec("X")
	}
	ru.serve()
}

type wcase struct{ sop, ans, top, cls string }

func (ru *wrun) result() wcase {
	if ru.fatal != "" {
		return wcase{sop: ru.fatal, cls: "fatal"}
	}
	return wcase{ru.schedLine(), ru.answer(), ru.traceLine(), ru.class()}
}

// wTemplate: the systematic shutdown scenarios. kind 0: three callers; frame 1 is torn after `cut` bytes with error
// `ek` (coalescer: a flush of frame 1 alone); `mid` of the other callers call BEFORE the Write of frame 1 ends (they
// wait for the semaphore / for the flusher), the rest after it; then quit WITHOUT a tick in between; whatever enters
// the transport afterwards is served whole; socket closed. kind 1: quit with `mid`+1 requests enqueued / waiting and
// nothing torn (plain Close()). kind 2: quit while the Write of frame 1 is inside the transport after `cut` bytes and
// the others wait; the Write then ends with `ek` ("ok": the rest of the batch is written after quit - that is the
// vectored write in progress, not the shutdown leg).
func wTemplate(conf wconf, kind, cut, mid int, ek string) wcase {
	ru := newWRun(conf)
	defer ru.finish()
	step := func(tok string) {
		if ru.fatal == "" && !ru.exec(tok) {
			ru.fatal = "fatal template command not executable: " + tok + " after " + strings.Join(ru.events, " ")
		}
	}
	if cut >= conf.lens[0] {
		cut = conf.lens[0] - 1
	}
	switch kind {
	case 0, 2:
		step("s1")
		if conf.coal {
			step("t")
		}
		if cut > 0 {
			step(fmt.Sprintf("p1:%d", cut))
		}
		for i := 0; i < mid; i++ {
			step(fmt.Sprintf("s%d", 2+i))
		}
		if kind == 2 {
			step("Q")
			if ek == "ok" {
				step(fmt.Sprintf("p1:%d", conf.lens[0]-cut))
			}
		}
		step("e1:" + ek)
		if kind == 0 {
			for i := mid; i < 2; i++ {
				step(fmt.Sprintf("s%d", 2+i))
			}
		}
	case 1:
		for i := 0; i <= mid; i++ {
			step(fmt.Sprintf("s%d", 1+i))
		}
		if cut > 0 && !conf.coal {
			step(fmt.Sprintf("p1:%d", cut))
		}
	case 3:
		// `mid` callers write their whole frames one after the other; then caller mid+1 arrives with its context ALREADY
		// ENDED while the semaphore is free / the flusher is at its select (either select case may win: it returns
		// (0, ctx error) without a byte, or it writes like anybody else); the remaining callers follow while whatever
		// Write is then inside the transport is held after `cut` bytes; everything is served (newest Write first).
		for i := 1; i <= mid; i++ {
			step(fmt.Sprintf("s%d", i))
			ru.flushIfQueued(step)
			ru.serve()
		}
		step(fmt.Sprintf("S%d", mid+1))
		for i := mid + 2; i <= 3; i++ {
			step(fmt.Sprintf("s%d", i))
			ru.flushIfQueued(step)
			if held := ru.g.heldSnapshot(); len(held) > 0 {
				w := held[0]
				for _, h := range held {
					if h.idx < w.idx {
						w = h
					}
				}
				if k := imin(cut, len(w.p)-1) - w.off; k > 0 && ru.wreq[w] != 0 {
					step(fmt.Sprintf("p%d:%d", ru.wreq[w], k))
				}
			}
		}
		ru.flushIfQueued(step)
		ru.serve()
		ru.flushIfQueued(step)
		ru.serve()
	case 5:
		// SetWriteDeadline fails (write timeout > 0 only) for the Write of caller `mid`+1 / for the flush that holds the
		// callers 1..`mid`+1: nothing enters the transport, each of them gets (0, err); the remaining callers follow and
		// are served whole (cut > 0: the first of them is held after `cut` bytes while the others arrive)
		if !conf.wt {
			break
		}
		if conf.coal {
			for i := 1; i <= mid+1; i++ {
				step(fmt.Sprintf("s%d", i))
			}
			step("D")
			step("t")
		} else {
			for i := 1; i <= mid; i++ {
				step(fmt.Sprintf("s%d", i))
				ru.serve()
			}
			step("D")
			step(fmt.Sprintf("s%d", mid+1))
		}
		for i := mid + 2; i <= 3; i++ {
			step(fmt.Sprintf("s%d", i))
			ru.flushIfQueued(step)
			if w := ru.heldOf(i); w != nil && i == mid+2 && cut > 0 && cut < len(w.p) {
				step(fmt.Sprintf("p%d:%d", i, cut))
			}
		}
		ru.flushIfQueued(step)
		ru.serve()
		ru.flushIfQueued(step)
		ru.serve()
	case 6:
		// cancellation INSIDE THE RESULT FAN-OUT window of a batch: all three callers are in one flush (direct writer: 2, 3
		// wait for the semaphore); frame 1 is written whole and its Write ends ok - the coalescer's caller 1 now has its whole
		// frame on the wire but not yet its result (flush hands the results out after the last buffer); contexts are cancelled
		// (mid 0: all, 1: only caller 1, 2: only caller 3, still behind); frame 2 is held after `cut` bytes and ends with `ek`.
		// Caller 1 must be told (len, nil), never (0, ctx error).
		step("s1")
		step("s2")
		step("s3")
		ru.flushIfQueued(step)
		if w := ru.heldOf(1); w != nil {
			step(fmt.Sprintf("p1:%d", conf.lens[0]))
			if w.off == len(w.p) { // (a writer that puts the batch into ONE Write: frame 1 is out, the Write goes on)
				step("e1:ok")
			}
		}
		for _, c := range [][]int{{1, 2, 3}, {1}, {3}}[mid] {
			step(fmt.Sprintf("c%d", c))
		}
		budget := imin(cut, conf.lens[1]-1)
		if ek == "ok" {
			budget = -1
		}
		ru.drainCut(&budget, ek)
		ru.flushIfQueued(step)
		ru.serve()
	case 4:
		// caller 1's Write is inside the transport after `cut` bytes; callers 2.. arrive: `mid` of them with their context
		// already ended (only ctx.Done is ready: they leave at once), the others normally; then EVERY context is cancelled -
		// of the caller inside the Write (ignored from now on), of those waiting for the semaphore / enqueued behind it;
		// the Write ends with `ek`.
		step("s1")
		ru.flushIfQueued(step)
		if cut > 0 {
			step(fmt.Sprintf("p1:%d", cut))
		}
		for i := 2; i <= 3; i++ {
			if i-2 < mid {
				step(fmt.Sprintf("S%d", i))
			} else {
				step(fmt.Sprintf("s%d", i))
			}
		}
		for i := 1; i <= 3; i++ {
			step(fmt.Sprintf("c%d", i))
		}
		if ek == "ok" {
			step(fmt.Sprintf("p1:%d", conf.lens[0]-cut))
		}
		step("e1:" + ek)
		ru.flushIfQueued(step)
		ru.serve()
	}
	if ru.fatal == "" {
		ru.windUp()
	}
	return ru.result()
}

// runWSched: a random walk over the commands enabled in the observed state.
func runWSched(r *vh.Rng, conf wconf) wcase {
	n := 2 + r.Intn(4)
	conf.lens = nil
	for i := 0; i < n; i++ {
		l := 10 + r.Intn(60)
		if r.Intn(8) == 0 {
			l = 4095 + r.Intn(3)
		}
		if r.Intn(12) == 0 { // larger than a batching buffer of 16 KiB / 64 KiB / 1 MiB
			l = []int{16 << 10, 64 << 10, 1 << 20}[r.Intn(3)] + r.Intn(3) - 1
		}
		conf.lens = append(conf.lens, l)
	}
	ru := newWRun(conf)
	defer ru.finish()
	// plan: which Writes are cut (by index of entering the transport), where and how
	type cut struct {
		frac int
		kind string
	}
	cuts := map[int]cut{}
	for i := 0; i < 3; i++ {
		if r.Intn(2) == 0 {
			cuts[r.Intn(4)] = cut{r.Intn(5), errKinds[r.Intn(len(errKinds))]}
		}
	}
	quitAt := 2 + r.Intn(12) // earliest step at which quit becomes a candidate
	next := 1
	tickRefused := false
	for stepNo := 0; stepNo < 200 && ru.fatal == ""; stepNo++ {
		type cand struct {
			tok string
			wt  int
		}
		var cs []cand
		ru.g.mu.Lock()
		armPending := ru.g.failArm > 0
		ru.g.mu.Unlock()
		held := ru.g.heldSnapshot()
		sort.Slice(held, func(i, j int) bool { return held[i].idx < held[j].idx })
		for _, w := range held {
			id := ru.wreq[w]
			if ru.xseen {
				cs = append(cs, cand{fmt.Sprintf("e%d:pipe", id), 8})
				continue
			}
			tg := len(w.p)
			c, isCut := cuts[w.idx]
			if isCut {
				tg = []int{0, 1 + w.idx%8, 9 + (len(w.p)-9)/2, len(w.p) - 1, len(w.p)}[c.frac]
			}
			switch {
			case w.off < tg:
				k := 1 + r.Intn(tg-w.off)
				if r.Intn(2) == 0 {
					k = tg - w.off
				}
				cs = append(cs, cand{fmt.Sprintf("p%d:%d", id, k), 6})
			case isCut:
				cs = append(cs, cand{fmt.Sprintf("e%d:%s", id, c.kind), 4})
			default:
				cs = append(cs, cand{fmt.Sprintf("e%d:ok", id), 6})
			}
		}
		if ru.conf.coal && !tickRefused && !ru.goneSeen && len(held) == 0 && ru.queued() > 0 {
			cs = append(cs, cand{"t", 3})
		}
		// a new caller. Direct writer after quit: writeContext's select would find both `quit` and a free semaphore
		// ready and choose at random (not a schedule the harness can conduct), so only while the semaphore is held.
		if next <= n && (!ru.qseen || ru.conf.coal || len(held) > 0) {
			cs = append(cs, cand{fmt.Sprintf("s%d", next), 4})
		}
		for _, q := range ru.order {
			// every cancellation point: parked in the first select, enqueued, in a batch behind the buffer being
			// written, and while its own frame is inside the transport Write (from then on the context is ignored)
			if q.state == "S" || q.state == "E" || q.state == "R" || q.state == "G" {
				cs = append(cs, cand{fmt.Sprintf("c%d", q.id), 1})
			}
		}
		if ru.conf.wt && !ru.xseen && !armPending {
			cs = append(cs, cand{"D", 1})
		}
		if !ru.qseen && stepNo >= quitAt {
			cs = append(cs, cand{"Q", 3})
		}
		if ru.qseen && !ru.xseen {
			cs = append(cs, cand{"X", 2})
		}
		if len(cs) == 0 || (ru.xseen && len(held) == 0 && (next > n || r.Intn(2) == 0)) {
			break
		}
		tot := 0
		for _, c := range cs {
			tot += c.wt
		}
		k := r.Intn(tot)
		var pick cand
		for _, c := range cs {
			if k < c.wt {
				pick = c
				break
			}
			k -= c.wt
		}
		if !ru.exec(pick.tok) {
			if pick.tok == "t" {
				tickRefused = true
				continue
			}
			ru.fatal = "fatal generated command not executable: " + pick.tok + " after " + strings.Join(ru.events, " ")
			break
		}
		tickRefused = false
		if pick.tok[0] == 's' {
			next++
		}
	}
	if ru.fatal == "" {
		ru.windUp()
	}
	return ru.result()
}
