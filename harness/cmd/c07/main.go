// Harness for C07 (frames are written whole): (1) differential of writeCoalescer.flush's attribution
// loop, (2) real Session on the in-memory cluster with a write cut at a chosen byte of the request
// stream; the exact byte stream the driver wrote is parsed back into frames and handed to the Lean
// monitor together with the outcome each caller saw.
package main

import (
	"context"
	"fmt"
	"os"
	"runtime"
	"sort"
	"strings"
	"sync"
	"time"

	"github.com/gocql/gocql"
	"verifharness/memcluster"
	"verifharness/sess"
	"verifharness/vh"
)

func execAttr(w []string) string {
	var limit int64
	fmt.Sscan(w[1], &limit)
	lens := make([]int, 0, len(w)-2)
	for _, x := range w[2:] {
		var l int
		fmt.Sscan(x, &l)
		lens = append(lens, l)
	}
	ns, ok := gocql.VerifCoalescerAttribution(lens, limit)
	parts := make([]string, len(ns))
	for i := range ns {
		b := "0"
		if ok[i] {
			b = "1"
		}
		parts[i] = fmt.Sprintf("%d:%s", ns[i], b)
	}
	return strings.Join(parts, " ")
}

type scenario struct {
	proto     int
	coalesce  time.Duration
	writers   int
	sizes     []int // statement padding per writer
	cancel    []bool
	cutOffset int64 // bytes after the handshake; <0: no cut
	breaking  bool  // socket dead after the cut (reset) vs. still writable (deadline expiry)
	hold      bool  // hold the cut write until the other writers are queued
}

// runScenario returns the trace op line and a class label.
func runScenario(sc scenario) (string, string) {
	cl := memcluster.NewCluster(sc.proto, "10.0.0.1")
	node := cl.Nodes["10.0.0.1"]
	node.Handle = func(req *memcluster.Request) {
		req.Conn.Reply(req.Stream, memcluster.OpResult, memcluster.VoidBody())
	}
	cfg := sess.Config(cl, sc.proto, "10.0.0.1")
	cfg.WriteCoalesceWaitTime = sc.coalesce
	cfg.Timeout = 400 * time.Millisecond
	s, err := cfg.CreateSession()
	if err != nil {
		return "fatal session " + err.Error(), "fatal"
	}
	defer s.Close()
	if !sess.WaitConns(s, 1, 2*time.Second) {
		return "fatal noconn", "fatal"
	}
	cc := node.ClientConns()[0]
	time.Sleep(2 * time.Millisecond)
	h := int64(len(cc.WireSnapshot()))
	release := make(chan struct{})
	if sc.cutOffset >= 0 {
		f := memcluster.WriteFault{CutAt: h + sc.cutOffset}
		if sc.hold {
			f.HoldUntil = release
		}
		cc.SetFault(f)
		cc.BreakAfterCut = sc.breaking
	}
	outcomes := make([]string, sc.writers)
	var wg sync.WaitGroup
	for i := 0; i < sc.writers; i++ {
		wg.Add(1)
		go func(i int) {
			defer wg.Done()
			ctx, cancel := context.WithCancel(context.Background())
			defer cancel()
			if sc.cancel[i] {
				cancel()
			}
			stmt := fmt.Sprintf("PING w%dw %s", i+1, strings.Repeat("x", sc.sizes[i]))
			err := s.Query(stmt).WithContext(ctx).Exec()
			switch {
			case err == nil:
				outcomes[i] = "ok"
			case sc.cancel[i]:
				outcomes[i] = "cancel"
			default:
				outcomes[i] = "err"
			}
		}(i)
		if sc.hold && i == 0 {
			time.Sleep(3 * time.Millisecond)
		}
	}
	if sc.hold {
		time.Sleep(20 * time.Millisecond)
		close(release)
	}
	done := make(chan struct{})
	go func() { wg.Wait(); close(done) }()
	select {
	case <-done:
	case <-time.After(120 * time.Second):
		buf := make([]byte, 1<<20)
		n := runtime.Stack(buf, true)
		os.WriteFile("/tmp/c07_hang.txt", buf[:n], 0o644)
		return "fatal hang", "fatal"
	}
	time.Sleep(5 * time.Millisecond)
	wire := cc.WireSnapshot()[h:]
	closed := cc.IsClosed()
	// parse: frames before the cut, the torn piece, frames after
	var chunks []string
	nextAnon := 1000
	parse := func(b []byte) (rest []byte) {
		frames, raw, rest := memcluster.SplitFrames(b, sc.proto)
		for i, f := range frames {
			id := 0
			if f.Op == memcluster.OpQuery {
				r := &memcluster.R{B: f.Body}
				fmt.Sscanf(r.LongString(), "PING w%dw", &id)
			}
			if id == 0 { // heartbeat OPTIONS or unknown: anonymous writer
				id = nextAnon
				nextAnon++
			}
			chunks = append(chunks, fmt.Sprintf("%d:%d:%d", id, len(raw[i]), len(raw[i])))
		}
		return rest
	}
	cut := sc.cutOffset
	if cut < 0 || cut > int64(len(wire)) {
		cut = int64(len(wire))
	}
	rest := parse(wire[:cut])
	cls := "nocut"
	if len(rest) > 0 {
		// torn frame: its total length is known once 9 header bytes are there; identity if the statement is there
		id, total := nextAnon, len(rest)+1
		nextAnon++
		hl := memcluster.HeaderLen(sc.proto)
		if len(rest) >= hl {
			ln := int(uint32(rest[hl-4])<<24 | uint32(rest[hl-3])<<16 | uint32(rest[hl-2])<<8 | uint32(rest[hl-1]))
			total = hl + ln
			var wid int
			if n, _ := fmt.Sscanf(string(rest[min(len(rest), hl+4):]), "PING w%dw", &wid); n == 1 {
				id = wid
			}
		}
		chunks = append(chunks, fmt.Sprintf("%d:%d:%d", id, total, len(rest)))
		cls = "torn"
	}
	if cut < int64(len(wire)) {
		r2 := parse(wire[cut:])
		if len(r2) > 0 {
			chunks = append(chunks, fmt.Sprintf("%d:%d:%d", nextAnon, len(r2)+1, len(r2)))
		}
		cls = "torn+after"
	}
	// requests retried/sent on connections the pool opened after the first one was closed
	for _, oc := range node.ClientConns()[1:] {
		frames, raw, _ := memcluster.SplitFrames(oc.WireSnapshot(), sc.proto)
		for i, f := range frames {
			if f.Op != memcluster.OpQuery {
				continue
			}
			id := 0
			r := &memcluster.R{B: f.Body}
			fmt.Sscanf(r.LongString(), "PING w%dw", &id)
			if id != 0 {
				chunks = append(chunks, fmt.Sprintf("%d:%d:%d", id, len(raw[i]), len(raw[i])))
			}
		}
	}
	outs := make([]string, sc.writers)
	for i, o := range outcomes {
		outs[i] = fmt.Sprintf("%d:%s", i+1, o)
	}
	sort.Strings(outs)
	c := "closed=0"
	if closed {
		c = "closed=1"
	}
	ch := "-"
	if len(chunks) > 0 {
		ch = strings.Join(chunks, ";")
	}
	return fmt.Sprintf("trace %s %s %s", c, ch, strings.Join(outs, ";")), cls
}

func min(a, b int) int {
	if a < b {
		return a
	}
	return b
}

// kfD13: deterministic replay of known finding KF-C07-1 (a complete frame after a torn one).
func kfD13() string {
	sc := scenario{proto: 4, writers: 2, sizes: []int{40, 40}, cancel: []bool{false, false}, cutOffset: 20, breaking: false, hold: true}
	op, _ := runScenario(sc)
	w := strings.Fields(op)
	if len(w) < 3 || w[0] != "trace" {
		return "fatal:" + op
	}
	ch := strings.Split(w[2], ";")
	torn := -1
	for i, c := range ch {
		p := strings.Split(c, ":")
		if len(p) == 3 && p[1] != p[2] {
			torn = i
			break
		}
	}
	if torn >= 0 && torn < len(ch)-1 {
		return "torn-then-complete"
	}
	return "clean"
}

// runWriterContract drives the real writers directly (no Session): frames with unique first byte, contexts
// cancelled while waiting for the semaphore / inside the coalescing window. Outcome "cancel" = the writer
// reported (0, ctx error), which exec treats as "never written".
func runWriterContract(r *vh.Rng) (string, string) {
	n := 2 + r.Intn(6)
	coalesce := time.Duration(0)
	writeDelay := time.Duration(0)
	cls := "contract/direct"
	if r.Bool() {
		coalesce = time.Duration(1+r.Intn(3)) * time.Millisecond
		cls = "contract/coalesce"
	} else {
		writeDelay = time.Duration(200+r.Intn(800)) * time.Microsecond
	}
	frames := make([][]byte, n)
	start := make([]time.Duration, n)
	cancel := make([]time.Duration, n)
	sized := r.Intn(3) == 0
	if sized {
		cls += "/sizes"
	}
	for i := range frames {
		l := 2 + r.Intn(40)
		if sized && r.Intn(2) == 0 {
			l = 2 + drawTotal(r, []string{"small", "edge", "edge", "edge", "mid", "huge"}[r.Intn(6)])
		}
		frames[i] = make([]byte, l)
		for j := range frames[i] {
			frames[i][j] = byte(i + 1)
		}
		start[i] = time.Duration(r.Intn(600)) * time.Microsecond
		if r.Intn(2) == 0 {
			cancel[i] = time.Duration(50+r.Intn(2500)) * time.Microsecond
		}
	}
	// watchdog only (the scenario takes milliseconds): a writer that never returns - e.g. parked for ever behind a
	// semaphore that an earlier caller kept - must not hang the run; the campaign ends there (a broken tie unless a
	// spec-backed line of this run is a concrete failing input)
	type wcOut struct {
		res  []gocql.VerifWriteResult
		wire []byte
	}
	wch := make(chan wcOut, 1)
	go func() {
		res, wire := gocql.VerifRunWriter(coalesce, writeDelay, frames, start, cancel)
		wch <- wcOut{res, wire}
	}()
	var res []gocql.VerifWriteResult
	var wire []byte
	select {
	case o := <-wch:
		res, wire = o.res, o.wire
	case <-time.After(30 * time.Second):
		return "fatal writer-contract scenario did not end within 30 s (a writer never returned)", "fatal"
	}
	var chunks []string
	for len(wire) > 0 {
		id := int(wire[0])
		k := 0
		for k < len(wire) && int(wire[k]) == id {
			k++
		}
		total := k
		if id >= 1 && id <= n {
			total = len(frames[id-1])
		}
		chunks = append(chunks, fmt.Sprintf("%d:%d:%d", id, total, k))
		wire = wire[k:]
	}
	outs := make([]string, n)
	for i, x := range res {
		o := "err"
		switch {
		case x.Err == "" && x.N == len(frames[i]):
			o = "ok"
		case x.Err == "ctx" && x.N == 0:
			o = "cancel"
		}
		outs[i] = fmt.Sprintf("%d:%s", i+1, o)
	}
	ch := "-"
	if len(chunks) > 0 {
		ch = strings.Join(chunks, ";")
	}
	return fmt.Sprintf("trace closed=0 %s %s", ch, strings.Join(outs, ";")), cls
}

func exec(op string) string {
	w := strings.Fields(op)
	switch w[0] {
	case "attr":
		return execAttr(w)
	case "trace":
		return "accept" // the implementation's trace is what it is; the model decides whether it accepts it
	case "kf-d13":
		return kfD13()
	case "trace2":
		return replayTrace(op)
	case "sched":
		return replaySched(op)
	case "wtrace":
		return replayW(op, true)
	case "wsched":
		return replayW(op, false)
	}
	return "bad-op"
}

func main() {
	mode, tier, path := vh.Args()
	if mode == "replay" {
		for _, l := range vh.ReadLines(path) {
			fmt.Println(exec(l))
		}
		return
	}
	r := vh.NewRng(vh.EnvSeed())
	out := vh.NewOut(path)
	var deferred []schedCase
	mult := 1
	if tier == "thorough" {
		mult = 10
	}
	// size templates: a frame of every size class held mid-frame while others are started / the flush timer fires.
	// They come first: they are deterministic (no draw from the PRNG) and a writer with a size-dependent path shows
	// up here as a rejected byte stream, ahead of the many model-vs-code lines it also breaks (the check keeps the
	// first 50 disagreements only).
	// writer-level scheduling tier (wsched.go): the shutdown leg of both writers in every order with enqueues, ticks,
	// flush results and cancellations. Templates first (deterministic), then the random walk.
	// A scenario the harness cannot conduct (a command that should be executable is not, the process does not become
	// quiescent, a frame is not where the template expects it) ends the campaign - what follows could not be trusted -
	// but NOT the run: everything observed up to that point was observed in a sane state and is judged. The failure
	// itself is an op line the model cannot answer (a broken tie, reported as such unless a spec-backed line of this
	// run is a concrete failing input).
	extra := map[string]interface{}{}
	bail := func(msg string) {
		fmt.Fprintln(os.Stderr, "c07:", msg)
		for _, d := range deferred {
			out.Case(d.op, d.ans, d.cls, true)
		}
		out.Case("harness-fatal "+strings.Join(strings.Fields(msg), " "), "fatal", "fatal", true)
		extra["campaign_cut_short"] = msg
		out.Close(extra)
		os.Exit(0)
	}
	// writer-level tier: a scenario whose next command is not executable (the writer under test is somewhere the template
	// does not expect it) leaves the process in a sane state - the run is wound up (quit, socket closed, held Writes ended)
	// and the next scenario starts from a fresh writer: only that SCENARIO is lost (recorded as a line the model cannot
	// answer: a broken tie). A process that does not become quiescent ends the campaign.
	unconducted := 0
	wcaseOut := func(c wcase) {
		if c.cls == "fatal" {
			if strings.Contains(c.sop, "not quiescent") || unconducted >= 100 {
				bail(c.sop)
			}
			unconducted++
			fmt.Fprintln(os.Stderr, "c07:", c.sop)
			deferred = append(deferred, schedCase{"harness-fatal " + strings.Join(strings.Fields(c.sop), " "), "fatal", "fatal"})
			return
		}
		out.Case(c.top, "accept", "wtrace", true)
		deferred = append(deferred, schedCase{c.sop, c.ans, c.cls})
	}
	for ci := 0; ci < 4; ci++ {
		conf := wconf{coal: ci%2 == 1, wt: ci/2 == 1, lens: []int{40, 25, 31}}
		for kind := 0; kind < 7; kind++ {
			for mid := 0; mid <= 2; mid++ {
				cutsT := []int{1, 8, 9, 10, 39}
				if kind == 1 {
					cutsT = []int{0, 5}
				}
				if kind == 4 {
					cutsT = []int{0, 1, 9, 39}
				}
				if kind == 6 {
					cutsT = []int{0, 1, 9, 24}
				}
				if kind == 5 {
					if !conf.wt {
						continue
					}
					cutsT = []int{0, 9}
				}
				if tier == "thorough" {
					cutsT = nil
					for c := 0; c < 40; c++ {
						cutsT = append(cutsT, c)
					}
				}
				for cix, cut := range cutsT {
					kinds := []string{errKinds[(ci+kind+mid+cix)%len(errKinds)]}
					if tier == "thorough" {
						kinds = errKinds
					}
					if kind == 2 || kind == 4 || kind == 6 {
						kinds = append(kinds, "ok")
					}
					if kind == 1 || kind == 3 || kind == 5 {
						kinds = []string{"ok"}
					}
					for _, ek := range kinds {
						wcaseOut(wTemplate(conf, kind, cut, mid, ek))
					}
				}
			}
		}
	}
	// size mixes across batching thresholds x a cut at a byte offset of the request stream (wSizeMix)
	for ci := 0; ci < 4; ci++ {
		for bi, big := range []int{16<<10 + 1, 64<<10 + 1, 1<<20 + 1} {
			for pos := 0; pos < 3; pos++ {
				lens := []int{40, 25}
				lens = append(lens[:pos:pos], append([]int{big}, lens[pos:]...)...)
				pre := 0 // bytes of the stream before the large frame
				for _, l := range lens[:pos] {
					pre += l
				}
				cuts := []int{0, 1, 39, 40, 41, 64, 65, 66, pre + 9, pre + 4096, pre + big - 1, pre + big, 65 + big - 1}
				if tier == "thorough" {
					cuts = nil
					for c := 0; c <= 70; c++ {
						cuts = append(cuts, c)
					}
					for _, c := range []int{4095, 4096, 4097, 16383, 16384, 16385, big - 1, big, big + 1, big + 24, big + 25, big + 26, big + 64} {
						cuts = append(cuts, c, pre+c)
					}
				}
				for cx, cut := range cuts {
					if cut >= 65+big {
						continue
					}
					kinds := []string{errKinds[(ci+bi+pos+cx)%len(errKinds)]}
					if tier == "thorough" {
						kinds = errKinds
					}
					for _, ek := range kinds {
						wcaseOut(wSizeMix(wconf{coal: ci%2 == 1, wt: ci/2 == 1, lens: lens}, cut, ek))
					}
				}
			}
		}
	}
	nw := 400 * mult
	if v := os.Getenv("C07_NWSCHED"); v != "" {
		fmt.Sscan(v, &nw)
	}
	wr := vh.NewRng(vh.EnvSeed() ^ 0x7c07d) // its own stream: the draws of the older tiers stay what they were
	for i := 0; i < nw; i++ {
		wcaseOut(runWSched(wr, wconf{coal: i%4 != 0, wt: (i/4)%2 == 1}))
	}
	bigs := []int{100, 4095, 4096, 4097, 8191, 8192, 16384, 65537, 1 << 20}
	ti := 0
	for ci := 0; ci < 4; ci++ {
		conf := sconf{proto: []int{4, 2, 3, 4}[ci], coal: ci%2 == 1, wt: ci/2 == 1}
		hl := memcluster.HeaderLen(conf.proto)
		for _, big := range bigs {
			orders := [][]int{{big, 90, 0}, {60, big, 0}, {big, big + 1, 70}}
			for oi, totals := range orders {
				holds := []int{0, 1, hl, 4095, 4096, totals[0] - 1}
				for hi, hold := range holds {
					ti++
					if tier != "thorough" && big != 4096 && (hi+oi+ci)%3 != 0 { // quick: every hold position for 4096, a third of them for the others
						continue
					}
					kind := "ok"
					if ti%5 == 0 && hold > 0 {
						kind = errKinds[(ti/5)%len(errKinds)]
					}
					sop, ans, top, cls := runSizeTemplate(conf, totals, hold, kind)
					if strings.HasPrefix(sop, "fatal") {
						bail(sop)
					}
					out.Case(top, "accept", "trace2", true)
					if sop != "" {
						deferred = append(deferred, schedCase{sop, ans, cls})
					}
				}
			}
		}
	}
	for i := 0; i < 4000*mult; i++ {
		n := 1 + r.Intn(5)
		lens := make([]string, n)
		sum := 0
		bigBatch := i%3 == 2 // a third of the batches mix buffers of the size classes of the other tiers
		for j := range lens {
			l := 1 + r.Intn(40)
			if bigBatch && r.Intn(2) == 0 {
				l = drawTotal(r, []string{"small", "edge", "edge", "mid", "huge"}[r.Intn(5)]) + 1
			}
			sum += l
			lens[j] = fmt.Sprint(l)
		}
		lim := r.Intn(sum + 3)
		if r.Intn(4) == 0 { // exactly at a frame boundary
			lim = 0
			for j := 0; j < r.Intn(n+1); j++ {
				var l int
				fmt.Sscan(lens[j], &l)
				lim += l
			}
		}
		if bigBatch && r.Intn(3) == 0 { // the vectored write stopped next to a 4 KiB multiple
			lim = (1+r.Intn(sum/4096+1))*4096 - 1 + r.Intn(3)
		}
		op := fmt.Sprintf("attr %d %s", lim, strings.Join(lens, " "))
		cls := fmt.Sprintf("attr/%d", n)
		if bigBatch {
			cls += "/sizes"
		}
		out.Case(op, exec(op), cls, true)
	}
	runs := 60 * mult
	for i := 0; i < runs; i++ {
		sc := scenario{proto: []int{4, 3, 2}[r.Intn(3)], writers: 1 + r.Intn(5)}
		if r.Intn(2) == 0 {
			sc.coalesce = time.Duration(50+r.Intn(300)) * time.Microsecond
		}
		total := 0
		sized := i%2 == 1 // every other scenario draws frame sizes from the classes (large and small writers together)
		for j := 0; j < sc.writers; j++ {
			sz := r.Intn(60)
			if sized && r.Intn(2) == 0 {
				sz = padFor(sc.proto, j+1, drawTotal(r, []string{"small", "edge", "edge", "mid", "mid", "huge"}[r.Intn(6)]))
			}
			sc.sizes = append(sc.sizes, sz)
			sc.cancel = append(sc.cancel, r.Intn(8) == 0)
			total += 30 + sz
		}
		sc.cutOffset = int64(r.Intn(total + 10))
		if sized && r.Intn(3) == 0 { // next to a 4 KiB multiple of the request stream
			sc.cutOffset = int64((1+r.Intn(total/4096+1))*4096 - 1 + r.Intn(3))
		}
		if r.Intn(6) == 0 {
			sc.cutOffset = -1
		}
		sc.breaking = r.Intn(2) == 0
		sc.hold = r.Intn(3) == 0 && sc.coalesce == 0
		op, cls := runScenario(sc)
		if strings.HasPrefix(op, "fatal") {
			bail(op)
		}
		co := "direct"
		if sc.coalesce > 0 {
			co = "coalesce"
		}
		if sized {
			co += "/sizes"
		}
		out.Case(op, "accept", "trace/"+co+"/"+cls, true)
	}
	for i := 0; i < 150*mult; i++ {
		op, cls := runWriterContract(r)
		if cls == "fatal" {
			bail(op)
		}
		out.Case(op, "accept", cls, true)
	}
	// vectored-write tier: the real writers over loopback TCP (writev path of net.Buffers.WriteTo)
	for i := 0; i < 24*mult; i++ {
		op, cls := runWritev(r)
		if strings.HasPrefix(op, "fatal") {
			bail(op)
		}
		if op == "" { // no loopback TCP here: the draws were made (same PRNG stream), the tier is skipped
			extra["writev_tier_skipped"] = cls
			continue
		}
		out.Case(op, "accept", cls, true)
	}
	// scheduling tier: both writers x write timeout {0, >0} x protocol, scripted transport
	nsched := 700 * mult
	if v := os.Getenv("C07_NSCHED"); v != "" {
		fmt.Sscan(v, &nsched)
	}
	for i := 0; i < nsched; i++ {
		conf := sconf{proto: []int{4, 3, 2}[r.Intn(3)], coal: i%2 == 1, wt: (i/2)%2 == 1}
		sop, ans, top, cls := runSched(r, conf)
		if strings.HasPrefix(sop, "fatal") {
			bail(sop)
		}
		out.Case(top, "accept", "trace2", true)
		if sop != "" {
			deferred = append(deferred, schedCase{sop, ans, cls})
		}
	}
	// systematic templates: cut position x error kind x which frame of the three outstanding ones.
	// quick: the offsets around the frame and header boundaries; thorough: every byte offset.
	for ci := 0; ci < 4; ci++ {
		conf := sconf{proto: []int{4, 2, 3, 4}[ci], coal: ci%2 == 1, wt: ci/2 == 1}
		hl := memcluster.HeaderLen(conf.proto)
		offs := []int{0, 1, hl - 1, hl, hl + 1, 30, 1000 /* = last byte missing */, 1001 /* = whole frame, then the error */}
		if tier == "thorough" {
			offs = nil
			for o := 0; o < 80; o++ {
				offs = append(offs, o)
			}
		}
		for cf := 1; cf <= 3; cf++ {
			for _, kind := range errKinds {
				flen := -1
				for _, o := range offs {
					if o >= 1000 {
						if flen < 0 {
							continue
						}
						o = flen - 1001 + o
					}
					sop, ans, top, cls, ok := runTemplate(conf, cf, o, kind)
					if strings.HasPrefix(sop, "fatal") {
						bail(sop)
					}
					if !ok {
						if tier == "thorough" {
							break
						}
						continue
					}
					if flen < 0 {
						flen = templateFrameLen(top, cf)
					}
					out.Case(top, "accept", "trace2", true)
					if sop != "" {
						deferred = append(deferred, schedCase{sop, ans, cls})
					}
				}
			}
		}
	}
	// the cut templates again with LARGE frames outstanding: cuts at the 4 KiB boundaries inside them and at their ends
	for ci := 0; ci < 4; ci++ {
		conf := sconf{proto: []int{4, 2, 3, 4}[ci], coal: ci%2 == 1, wt: ci/2 == 1}
		hl := memcluster.HeaderLen(conf.proto)
		for bi, big := range []int{4096, 65537} {
			tot := [][]int{{big, 120, 4097, 30}, {4095, big, 64, 30}}[bi]
			conf.sizes = nil
			for i, t := range tot {
				conf.sizes = append(conf.sizes, padFor(conf.proto, i+1, t))
			}
			for cf := 1; cf <= 3; cf++ {
				offs := []int{hl, 4095, 4096, 4097, tot[cf-1] - 1, tot[cf-1]}
				for oi, o := range offs {
					if o > tot[cf-1] {
						continue
					}
					kinds := []string{errKinds[(ci+cf+oi)%len(errKinds)]}
					if tier == "thorough" {
						kinds = errKinds
					}
					for _, kind := range kinds {
						sop, ans, top, cls, ok := runTemplate(conf, cf, o, kind)
						if strings.HasPrefix(sop, "fatal") {
							bail(sop)
						}
						if !ok {
							continue
						}
						out.Case(top, "accept", "trace2", true)
						if sop != "" {
							deferred = append(deferred, schedCase{sop, ans, cls+"/large"})
						}
					}
				}
			}
		}
	}
	// the model-vs-code lines come last: the check keeps the first 50 disagreements, and a change of the writers
	// that breaks the tie on many sched lines must not push a spec-backed disagreement (a concrete failing input)
	// out of that window
	for _, d := range deferred {
		out.Case(d.op, d.ans, d.cls, true)
	}
	out.Close(extra)
}

type schedCase struct{ op, ans, cls string }

// templateFrameLen reads the length of frame `cf` off a trace2 line (pieces are p<id>:<len>:<off>:<n>).
func templateFrameLen(trace string, cf int) int {
	for _, f := range strings.Split(strings.Fields(trace)[4], ";") {
		var id, ln, off, n int
		if k, _ := fmt.Sscanf(f, "p%d:%d:%d:%d", &id, &ln, &off, &n); k == 4 && id == cf {
			return ln
		}
	}
	return -1
}
