// Scheduling tier of C07: a real Session on the in-memory cluster whose single connection writes through the
// gated transport (gate.go). The scheduler is the only source of progress on the write path: it starts
// requests, cancels contexts, fires the coalescer's flush timer (manual timer, hook VerifManualCoalescer),
// delivers the bytes of every Write piece by piece and decides how each Write returns. After every command
// it waits for quiescence and records what it observes (which frame entered the transport, who got
// enqueued, who returned with what, whether the socket was closed).
//
// Every run yields two op lines:
//   sched  ...   the commands and the observed events, replayed by the Lean machine (is every event enabled
//                in the model? same final wire / closed flag?)            -- model-vs-code
//   trace2 ...   the exact byte stream the transport received as pieces (request, frame length, offset,
//                count) with the return / close events in order, judged by the Lean monitor -- spec-backed
package main

import (
	"context"
	"errors"
	"fmt"
	"os"
	"sort"
	"strconv"
	"strings"
	"sync"
	"time"

	"github.com/gocql/gocql"
	"verifharness/memcluster"
	"verifharness/sess"
	"verifharness/vh"
)

type sconf struct {
	proto int
	coal  bool
	wt    bool  // a write timeout is configured (Timeout > 0); false: Timeout = WriteTimeout = 0
	sizes []int // statement padding of request i+1 (0 for heartbeats / close)
}

func (c sconf) header() string {
	w, t := "d", "0"
	if c.coal {
		w = "c"
	}
	if c.wt {
		t = "1"
	}
	zs := make([]string, len(c.sizes))
	for i, z := range c.sizes {
		zs[i] = strconv.Itoa(z)
	}
	z := strings.Join(zs, ",")
	if z == "" {
		z = "-"
	}
	return fmt.Sprintf("v=%d w=%s t=%s z=%s", c.proto, w, t, z)
}

func parseHeader(w []string) (sconf, bool) {
	var c sconf
	if len(w) < 4 {
		return c, false
	}
	if _, err := fmt.Sscanf(w[0], "v=%d", &c.proto); err != nil {
		return c, false
	}
	c.coal = w[1] == "w=c"
	c.wt = w[2] == "t=1"
	z := strings.TrimPrefix(w[3], "z=")
	if z != "-" {
		for _, x := range strings.Split(z, ",") {
			v, err := strconv.Atoi(x)
			if err != nil {
				return c, false
			}
			c.sizes = append(c.sizes, v)
		}
	}
	return c, true
}

type oneDialer struct {
	cl    *memcluster.Cluster
	proto int
	mu    sync.Mutex
	n     int
	g     *gatedConn
}

func (d *oneDialer) DialHost(ctx context.Context, host *gocql.HostInfo) (*gocql.DialedHost, error) {
	d.mu.Lock()
	d.n++
	n := d.n
	d.mu.Unlock()
	if n > 1 {
		return nil, errors.New("verif: the scripted node accepts one connection")
	}
	dh, err := d.cl.DialHost(ctx, host)
	if err != nil {
		return nil, err
	}
	g := &gatedConn{Conn: dh.Conn, proto: d.proto}
	d.mu.Lock()
	d.g = g
	d.mu.Unlock()
	dh.Conn = g
	return dh, nil
}

type sreq struct {
	id       int
	seq      int
	kind     byte // q query, h heartbeat, x Session.Close
	gid      int64
	gidReady chan struct{}
	ctx      context.Context
	cancel   context.CancelFunc
	done     chan struct{}
	err      error
	reported bool
	cstate   string // position when its context was cancelled ("" = never; "pre" = before the call)
	entered  bool
	enq      bool
	closer   bool
	state    string
}

type srun struct {
	conf   sconf
	s      *gocql.Session
	conn   *gocql.Conn
	g      *gatedConn
	tick   func() bool
	reqs   map[int]*sreq
	order  []*sreq
	seen   map[*gwrite]bool
	wreq   map[*gwrite]int // first request of a held write
	events []string
	trace  []string
	pieces []string
	xseen  bool
	inC    bool // some goroutine is inside closeWithError (last snapshot)
	fatal  string
	anon   int
	// a frame nobody asked for entered the transport (the connection's own heartbeat, first due 1 s after the
	// connection was made): the history is still judged by the monitor, but the sched line (which names the
	// requests the scheduler started) is not emitted for that scenario.
	anonSeen bool
}

func newRun(conf sconf) (*srun, string) {
	cl := memcluster.NewCluster(conf.proto, "10.0.0.1")
	node := cl.Nodes["10.0.0.1"]
	node.Handle = func(req *memcluster.Request) {
		req.Conn.Reply(req.Stream, memcluster.OpResult, memcluster.VoidBody())
	}
	d := &oneDialer{cl: cl, proto: conf.proto}
	cfg := sess.Config(cl, conf.proto, "10.0.0.1")
	cfg.HostDialer = d
	cfg.WriteCoalesceWaitTime = 0
	cfg.WriteTimeout = 0
	cfg.Timeout = 0
	if conf.wt {
		cfg.Timeout = 10 * time.Minute
	}
	cfg.ConnectTimeout = 30 * time.Second
	s, err := cfg.CreateSession()
	if err != nil {
		return nil, "fatal session " + err.Error()
	}
	if !sess.WaitConns(s, 1, 30*time.Second) {
		s.Close()
		return nil, "fatal noconn"
	}
	ru := &srun{conf: conf, s: s, reqs: map[int]*sreq{}, seen: map[*gwrite]bool{}, wreq: map[*gwrite]int{}, anon: 900}
	ru.conn = gocql.VerifSessionConns(s)[0]
	ru.g = d.g
	if (gocql.VerifConnWriteTimeout(ru.conn) > 0) != conf.wt {
		s.Close()
		return nil, "fatal write timeout not as configured"
	}
	if conf.coal {
		ru.tick = gocql.VerifManualCoalescer(ru.conn)
	}
	if _, err := quiesce(); err != nil {
		s.Close()
		return nil, "fatal not quiescent after connect"
	}
	ru.g.mu.Lock()
	ru.g.on = true
	ru.g.perWrite = !conf.coal // the direct writer arms the deadline for every Write, the coalescer once per flush
	ru.g.mu.Unlock()
	return ru, ""
}

func (ru *srun) finish() {
	// end whatever is still inside the transport, cancel everything, close the session
	for _, w := range ru.g.heldSnapshot() {
		ru.g.endWrite(w, kindErr("pipe"))
	}
	for _, r := range ru.order {
		r.cancel()
	}
	done := make(chan struct{})
	go func() {
		ru.s.Close()
		for i := 0; i < 200; i++ { // writes that entered the gate during the shutdown
			hs := ru.g.heldSnapshot()
			for _, w := range hs {
				ru.g.endWrite(w, kindErr("pipe"))
			}
			all := true
			for _, r := range ru.order {
				select {
				case <-r.done:
				default:
					all = false
				}
			}
			if all {
				break
			}
			quiesce()
		}
		close(done)
	}()
	select {
	case <-done:
	case <-time.After(120 * time.Second):
		_, _, dump := snapshot()
		os.WriteFile("/tmp/c07_sched_leak.txt", []byte(dump), 0o644)
		if ru.fatal == "" {
			ru.fatal = "fatal leak: a request did not return after the session was closed (dump /tmp/c07_sched_leak.txt)"
		}
	}
}

// ---- commands

func (ru *srun) start(kind byte, id int, preCancel bool) {
	ctx, cancel := context.WithCancel(context.Background())
	r := &sreq{id: id, seq: len(ru.order), kind: kind, gidReady: make(chan struct{}), ctx: ctx, cancel: cancel, done: make(chan struct{})}
	ru.reqs[id] = r
	ru.order = append(ru.order, r)
	if preCancel {
		cancel()
		r.cstate = "pre"
	}
	size := 0
	if id-1 < len(ru.conf.sizes) && id >= 1 {
		size = ru.conf.sizes[id-1]
	}
	go func() {
		r.gid = curGID()
		close(r.gidReady)
		defer close(r.done)
		defer func() {
			if e := recover(); e != nil {
				r.err = fmt.Errorf("crash:%v", e)
			}
		}()
		switch kind {
		case 'q':
			stmt := fmt.Sprintf("PING w%dw %s", id, strings.Repeat("x", size))
			r.err = ru.s.Query(stmt).WithContext(ctx).Exec()
		case 'h':
			r.err = gocql.VerifConnHeartbeat(ctx, ru.conn)
		case 'x':
			ru.s.Close()
		}
	}()
	<-r.gidReady
}

func (ru *srun) heldOf(id int) *gwrite {
	for _, w := range ru.g.heldSnapshot() {
		for _, f := range w.frames {
			if f.req == id {
				return w
			}
		}
		if !w.whole && ru.wreq[w] == id {
			return w
		}
	}
	return nil
}

// exec runs one command token; false = the command is not executable in the current state.
func (ru *srun) exec(tok string) bool {
	num := func(s string) int { v, _ := strconv.Atoi(s); return v }
	switch {
	case strings.HasPrefix(tok, "sc"):
		ru.start('q', num(tok[2:]), true)
	case tok[0] == 's':
		ru.start('q', num(tok[1:]), false)
	case tok[0] == 'h':
		ru.start('h', num(tok[1:]), false)
	case tok[0] == 'x':
		ru.start('x', num(tok[1:]), false)
	case tok[0] == 'c':
		r := ru.reqs[num(tok[1:])]
		if r == nil {
			return false
		}
		if r.cstate == "" {
			r.cstate = r.state
			if r.cstate == "" {
				r.cstate = "?"
			}
		}
		r.cancel()
	case tok == "t":
		if ru.tick == nil || !ru.tick() {
			return false
		}
	case tok[0] == 'p':
		p := strings.Split(tok[1:], ":")
		if len(p) != 2 {
			return false
		}
		w := ru.heldOf(num(p[0]))
		n := num(p[1])
		if w == nil || n <= 0 || w.off+n > len(w.p) || ru.g.isClosed() {
			return false
		}
		for _, pc := range ru.g.deliver(w, n) {
			ru.trace = append(ru.trace, fmt.Sprintf("p%d:%d:%d:%d", pc.req, pc.ln, pc.off, pc.n))
			ru.pieces = append(ru.pieces, fmt.Sprintf("%d:%d:%d", pc.req, pc.off, pc.n))
		}
	case tok[0] == 'e':
		p := strings.Split(tok[1:], ":")
		if len(p) != 2 {
			return false
		}
		w := ru.heldOf(num(p[0]))
		if w == nil || (p[1] == "ok" && w.off != len(w.p)) {
			return false
		}
		for _, f := range w.frames {
			st := "err"
			if p[1] == "ok" {
				st = "ok"
			}
			ru.trace = append(ru.trace, fmt.Sprintf("e%d:%s", f.req, st))
		}
		ru.g.endWrite(w, kindErr(p[1]))
	default:
		return false
	}
	ru.events = append(ru.events, tok)
	ru.settle()
	return true
}

// settle waits for quiescence and records the observable events in a canonical order.
func (ru *srun) settle() {
	gs, err := quiesce()
	if err != nil {
		if ru.fatal == "" {
			ru.fatal = "fatal not quiescent (dump /tmp/c07_sched_hang.txt)"
		}
		return
	}
	byID := map[int64]*ginfo{}
	ru.inC = false
	for i := range gs {
		byID[gs[i].id] = &gs[i]
		if gs[i].has("gocql.(*Conn).closeWithError") {
			ru.inC = true
		}
	}
	// 1. Writes that entered the transport
	held := ru.g.heldSnapshot()
	sort.Slice(held, func(i, j int) bool { return held[i].idx < held[j].idx })
	for _, w := range held {
		if ru.seen[w] {
			continue
		}
		ru.seen[w] = true
		if !w.whole {
			ru.anon++
			ru.wreq[w] = ru.anon
			ru.events = append(ru.events, fmt.Sprintf("+b%d:%d", ru.anon, len(w.p)))
			continue
		}
		for fi := range w.frames {
			f := &w.frames[fi]
			f.req = ru.identify(w, f)
			if fi == 0 {
				ru.wreq[w] = f.req
			}
			if r := ru.reqs[f.req]; r != nil {
				r.entered = true
			}
			ru.events = append(ru.events, fmt.Sprintf("+a%d:%d", f.req, f.ln))
		}
	}
	// 2. positions of the request goroutines; newly enqueued requests
	for _, r := range ru.order {
		select {
		case <-r.done:
			r.state = "D"
			continue
		default:
		}
		if gi := byID[r.gid]; gi != nil {
			r.state = classify(gi)
		} else {
			r.state = "?gone"
		}
		if r.state == "R" && !r.enq {
			r.enq = true
			ru.events = append(ru.events, fmt.Sprintf("+q%d", r.id))
		}
		if r.state == "C" && !r.closer { // parked inside closeWithError: it is the (first) closer
			r.closer = true
			ru.events = append(ru.events, fmt.Sprintf("+k%d", r.id))
		}
	}
	// 3. returns
	for _, r := range ru.order {
		if r.state != "D" || r.reported {
			continue
		}
		r.reported = true
		o := "err"
		switch {
		case r.kind == 'x':
			o = "shut" // Session.Close returned: not a write
		case r.err == nil:
			o = "ok"
		case (r.cstate == "pre" || r.cstate == "S" || r.cstate == "E") && errors.Is(r.err, context.Canceled):
			o = "cancel"
		}
		if r.kind != 'x' && (r.cstate == "R" || r.cstate == "G" || r.cstate == "W" || r.cstate == "C" || strings.HasPrefix(r.cstate, "?")) {
			o = "late" // cancelled after its write had begun: any outcome
		}
		if r.err != nil && strings.HasPrefix(r.err.Error(), "crash:") {
			o = "crash"
		}
		ru.events = append(ru.events, fmt.Sprintf("+r%d:%s", r.id, o))
		ru.trace = append(ru.trace, fmt.Sprintf("r%d:%s", r.id, o))
	}
	// 4. socket closed
	if ru.g.isClosed() && !ru.xseen {
		ru.xseen = true
		ru.events = append(ru.events, "+x")
		ru.trace = append(ru.trace, "x")
	}
	// 5. check point: the socket is open and no goroutine is inside closeWithError
	if !ru.xseen && !ru.inC {
		if n := len(ru.trace); n == 0 || ru.trace[n-1] != "i" {
			ru.trace = append(ru.trace, "i")
		}
	}
}

// identify the request a frame belongs to: QUERY frames carry a marker, OPTIONS frames are matched to the
// heartbeat requests in the order they were started; anything else (the connection's own heartbeat) is anonymous.
func (ru *srun) identify(w *gwrite, f *gframe) int {
	fr, _, _ := memcluster.SplitFrames(w.p[f.start:f.start+f.ln], ru.conf.proto)
	if len(fr) == 1 && fr[0].Op == memcluster.OpQuery {
		rd := &memcluster.R{B: fr[0].Body}
		id := 0
		fmt.Sscanf(rd.LongString(), "PING w%dw", &id)
		if id != 0 {
			return id
		}
	}
	if len(fr) == 1 && fr[0].Op == memcluster.OpOptions {
		for _, r := range ru.order {
			if r.kind == 'h' && !r.entered && r.state != "D" {
				return r.id
			}
		}
	}
	ru.anon++
	ru.anonSeen = true
	return ru.anon
}

func (ru *srun) answer() string {
	c, a := "0", "0"
	if ru.g.isClosed() {
		c = "1"
	}
	ru.g.mu.Lock()
	if ru.conf.wt && ru.g.unarmedW == 0 {
		a = "1"
	}
	ru.g.mu.Unlock()
	w := "-"
	if len(ru.pieces) > 0 {
		w = strings.Join(ru.pieces, ",")
	}
	return fmt.Sprintf("ok closed=%s armed=%s wire=%s", c, a, w)
}

func (ru *srun) schedLine() string {
	return "sched " + ru.conf.header() + " | " + strings.Join(ru.events, " ")
}

func (ru *srun) traceLine() string {
	t := "-"
	if len(ru.trace) > 0 {
		t = strings.Join(ru.trace, ";")
	}
	// the independent decoder's view of the byte stream: number of complete frames and trailing bytes
	ru.g.mu.Lock()
	fr, _, rest := memcluster.SplitFrames(ru.g.raw, ru.conf.proto)
	total := len(ru.g.raw)
	ru.g.mu.Unlock()
	// the commands that produced the history ride along (ignored by the monitor) so that the line can be replayed
	var cmds []string
	for _, e := range ru.events {
		if e[0] != '+' {
			cmds = append(cmds, e)
		}
	}
	return fmt.Sprintf("trace2 bytes=%d frames=%d rest=%d %s | %s | %s", total, len(fr), len(rest), t, ru.conf.header(), strings.Join(cmds, " "))
}

// replayTrace re-executes the commands of a trace2 line on the real code: "accept" when the real code produces
// exactly the recorded history again (the Lean monitor then judges it), otherwise the history it produced.
func replayTrace(line string) string {
	parts := strings.SplitN(line, " | ", 3)
	if len(parts) != 3 {
		return "accept"
	}
	conf, ok := parseHeader(strings.Fields(parts[1]))
	if !ok {
		return "bad-op"
	}
	ru, fatal := newRun(conf)
	if ru == nil {
		return fatal
	}
	defer ru.finish()
	for _, tok := range strings.Fields(parts[2]) {
		if !ru.exec(tok) {
			return fmt.Sprintf("deviate: command %s not executable after: %s", tok, strings.Join(ru.events, " "))
		}
		if ru.fatal != "" {
			return ru.fatal
		}
	}
	if got := ru.traceLine(); normLine(got) != normLine(line) {
		return "deviate: " + got
	}
	return "accept"
}

// ---- replay of a sched line on the real code

func replaySched(line string) string {
	parts := strings.SplitN(line, " | ", 2)
	w := strings.Fields(parts[0])
	if len(parts) != 2 || len(w) != 5 {
		return "bad-op"
	}
	conf, ok := parseHeader(w[1:])
	if !ok {
		return "bad-op"
	}
	ru, fatal := newRun(conf)
	if ru == nil {
		return fatal
	}
	defer ru.finish()
	for _, tok := range strings.Fields(parts[1]) {
		if tok[0] == '+' {
			continue
		}
		if !ru.exec(tok) {
			return fmt.Sprintf("deviate: command %s not executable after: %s", tok, strings.Join(ru.events, " "))
		}
		if ru.fatal != "" {
			return ru.fatal
		}
	}
	if got := ru.schedLine(); normLine(got) != normLine(line) {
		return "deviate: " + got
	}
	return ru.answer()
}

// ---- generation: a random walk over the commands enabled in the observed state

type plan struct {
	n        int    // requests to start
	cutWrite int    // which Write (in order of entering the transport) is cut; -1 none
	cutClass int    // 0 at offset 0, 1 inside the header, 2 inside the body, 3 last byte missing, 4 at / next to a 4 KiB boundary inside the frame, 5 whole frame delivered, then the error
	cutKind  string // error kind of the cut
	follow   byte   // after the cut: q another request, h heartbeat, x close, 0 nothing special
	hold     bool   // keep the first Write inside the transport mid-frame while the others are started
	sizeMode string // how the frame sizes of the scenario were drawn (class label)
}

// ---- frame sizes. The writers' behaviour must not depend on the size of a frame, so the scenarios draw the TOTAL
// frame length (header included) from classes around the sizes at which buffers, pages and length fields change:
// the statement padding that gives that length is computed from the length of the padding-0 frame of the same
// protocol version, measured once on the real code (frameBase).

var sizeBoundaries = []int{4096, 8192, 16384, 65536}

var (
	baseMu  sync.Mutex
	baseLen = map[int]int{}
)

// frameBase: total length of the QUERY frame of request 1 with padding 0 (measured through the gated transport).
func frameBase(proto int) int {
	baseMu.Lock()
	defer baseMu.Unlock()
	if b, ok := baseLen[proto]; ok {
		return b
	}
	ru, fatal := newRun(sconf{proto: proto})
	if ru == nil {
		fmt.Fprintln(os.Stderr, "c07: calibration:", fatal)
		os.Exit(3)
	}
	ru.exec("s1")
	b := 0
	if w := ru.heldOf(1); w != nil {
		b = len(w.p)
	}
	ru.finish()
	if b == 0 {
		fmt.Fprintln(os.Stderr, "c07: calibration: the frame of request 1 did not enter the transport")
		os.Exit(3)
	}
	baseLen[proto] = b
	return b
}

// padFor: statement padding of request id whose frame is `total` bytes long (0 when the minimal frame is longer).
func padFor(proto, id, total int) int {
	p := total - frameBase(proto) - (len(strconv.Itoa(id)) - 1)
	if p < 0 {
		return 0
	}
	return p
}

// drawTotal draws a total frame length of the given class.
func drawTotal(r *vh.Rng, class string) int {
	switch class {
	case "tiny":
		return 0 // minimal frame
	case "small":
		return 40 + r.Intn(160)
	case "edge": // exactly at / next to a boundary
		b := sizeBoundaries[r.Intn(len(sizeBoundaries))]
		if r.Intn(3) == 0 {
			b = 4096
		}
		return b - 1 + r.Intn(3)
	case "mid": // anywhere between the boundaries
		return 200 + r.Intn(70000)
	case "huge":
		return 1<<20 - 2 + r.Intn(5)
	}
	return 0
}

// genSizes fills conf.sizes (paddings of requests 1..n) and returns the label of the mix.
func genSizes(r *vh.Rng, conf *sconf, n int) string {
	mode := []string{"small", "small", "one-large", "one-large", "two-large", "mixed", "all-edge"}[r.Intn(7)]
	large := func() string {
		switch k := r.Intn(20); {
		case k == 0:
			return "huge"
		case k < 13:
			return "edge"
		default:
			return "mid"
		}
	}
	cls := make([]string, n)
	for i := range cls {
		cls[i] = []string{"tiny", "small", "small"}[r.Intn(3)]
	}
	switch mode {
	case "one-large":
		cls[r.Intn(imin(n, 3))] = large()
	case "two-large":
		a := r.Intn(imin(n, 3))
		b := (a + 1 + r.Intn(imin(n, 4)-1)) % imin(n, 4)
		cls[a], cls[b] = large(), large()
	case "mixed":
		for i := range cls {
			if r.Intn(2) == 0 {
				cls[i] = large()
			}
		}
	case "all-edge":
		for i := range cls {
			cls[i] = "edge"
		}
	}
	for i := range cls {
		if mode == "small" {
			conf.sizes = append(conf.sizes, r.Intn(70)) // the paddings of the earlier campaigns
			continue
		}
		conf.sizes = append(conf.sizes, padFor(conf.proto, i+1, drawTotal(r, cls[i])))
	}
	return mode
}

func imin(a, b int) int {
	if a < b {
		return a
	}
	return b
}

func genPlan(r *vh.Rng, conf *sconf) plan {
	p := plan{n: 2 + r.Intn(4), cutWrite: -1}
	if r.Intn(5) != 0 {
		p.cutWrite = r.Intn(3)
		p.cutClass = r.Intn(6)
		p.cutKind = errKinds[r.Intn(len(errKinds))]
	}
	p.follow = []byte{'q', 'q', 'h', 'x', 0}[r.Intn(5)]
	p.hold = r.Intn(3) != 0
	p.sizeMode = genSizes(r, conf, p.n+2)
	return p
}

func (ru *srun) target(w *gwrite, p plan) int {
	t := ru.target0(w, p)
	if t > len(w.p) { // a Write shorter than a frame header (not a behaviour of the unchanged writers)
		t = len(w.p)
	}
	return t
}

func (ru *srun) target0(w *gwrite, p plan) int {
	if w.idx != p.cutWrite {
		return len(w.p)
	}
	hl := memcluster.HeaderLen(ru.conf.proto)
	switch p.cutClass {
	case 0:
		return 0
	case 1:
		return 1 + (w.idx*3+len(w.p))%(hl-1)
	case 2:
		if len(w.p) > hl+1 {
			return hl + 1 + (len(w.p)*7+w.idx)%(len(w.p)-hl-1)
		}
		return hl
	case 4:
		if len(w.p) > 4097 { // 4 KiB boundaries inside the frame: one before, at, one after
			k := 1 + (len(w.p)+w.idx)%((len(w.p)-2)/4096)
			return k*4096 - 1 + (len(w.p)/7+w.idx)%3
		}
		return len(w.p) / 2
	case 5:
		return len(w.p)
	default:
		return len(w.p) - 1
	}
}

// runSched generates and executes one scenario; it returns the sched line, the implementation's answer, the
// trace2 line and a class label.
func runSched(r *vh.Rng, conf sconf) (string, string, string, string) {
	p := genPlan(r, &conf)
	ru, fatal := newRun(conf)
	if ru == nil {
		return fatal, "", "", "fatal"
	}
	defer ru.finish()
	next := 1
	followed := false
	cutDone := false
	maxHeld := 0
	tickRefused := false
	for step := 0; step < 600 && ru.fatal == ""; step++ {
		type cand struct {
			tok string
			wt  int
		}
		var cs []cand
		held := ru.g.heldSnapshot()
		sort.Slice(held, func(i, j int) bool { return held[i].idx < held[j].idx })
		if len(held) > maxHeld {
			maxHeld = len(held)
		}
		closed := ru.g.isClosed()
		mid := false
		for _, w := range held {
			id := ru.wreq[w]
			tg := ru.target(w, p)
			if closed {
				cs = append(cs, cand{fmt.Sprintf("e%d:pipe", id), 8})
				continue
			}
			if w.off > 0 && w.off < len(w.p) {
				mid = true
			}
			if w.off < tg {
				rem := tg - w.off
				n := 1 + r.Intn(rem)
				switch r.Intn(4) {
				case 0:
					n = rem
				case 1:
					hl := memcluster.HeaderLen(ru.conf.proto)
					if w.off < hl && hl-w.off <= rem {
						n = hl - w.off // exactly the header
					} else if pg := 4096 - w.off%4096; pg <= rem {
						n = pg // up to the next 4 KiB boundary of the frame
					}
				case 2:
					if rem > 4096 && r.Intn(2) == 0 {
						n = 1 + r.Intn(4097) // a large frame goes out in many pieces
					}
				}
				cs = append(cs, cand{fmt.Sprintf("p%d:%d", id, n), 6})
			} else if tg == len(w.p) && !(w.idx == p.cutWrite && p.cutClass == 5) {
				cs = append(cs, cand{fmt.Sprintf("e%d:ok", id), 6})
			} else {
				wt := 6
				if p.hold && next <= p.n && w.off > 0 {
					wt = 1
				}
				cs = append(cs, cand{fmt.Sprintf("e%d:%s", id, p.cutKind), wt})
			}
		}
		if ru.tick != nil && !tickRefused {
			// enqueued requests whose frame has not entered the transport: the timer may fire. While a flush is in
			// progress the flusher is not at its select and the tick is refused (no effect, tried once per state).
			nq := 0
			for _, q := range ru.order {
				if q.state == "R" && !q.entered {
					nq++
				}
			}
			if nq > 0 {
				wt := 3
				if next > p.n {
					wt = 8
				}
				cs = append(cs, cand{"t", wt})
			}
		}
		if next <= p.n {
			wt := 3
			if mid && p.hold {
				wt = 9
			}
			tok := fmt.Sprintf("s%d", next)
			hbPending := false // OPTIONS frames are indistinguishable: at most one heartbeat request outstanding
			for _, q := range ru.order {
				if q.kind == 'h' && !q.entered && q.state != "D" {
					hbPending = true
				}
			}
			switch r.Intn(12) {
			case 0:
				if !hbPending {
					tok = fmt.Sprintf("h%d", next)
				}
			case 1:
				tok = fmt.Sprintf("sc%d", next)
			}
			cs = append(cs, cand{tok, wt})
		}
		for _, q := range ru.order {
			if q.cstate == "" && q.kind != 'x' && (q.state == "S" || q.state == "E" || q.state == "R") {
				cs = append(cs, cand{fmt.Sprintf("c%d", q.id), 1})
			}
		}
		if !cutDone && p.cutWrite >= 0 && ru.g.nwrites > p.cutWrite {
			cut := true
			for _, w := range held {
				if w.idx == p.cutWrite {
					cut = false
				}
			}
			cutDone = cut
		}
		if len(cs) == 0 && !followed && (cutDone || p.cutWrite < 0) && p.follow != 0 {
			followed = true
			p.n++
			tok := fmt.Sprintf("%c%d", map[byte]byte{'q': 's', 'h': 'h', 'x': 'x'}[p.follow], next)
			cs = append(cs, cand{tok, 1})
			if p.follow == 'x' {
				p.n++ // and one request after the close
			}
		}
		if len(cs) == 0 {
			break
		}
		tot := 0
		for _, c := range cs {
			tot += c.wt
		}
		k := r.Intn(tot)
		var pick cand
		for _, c := range cs {
			if k < c.wt {
				pick = c
				break
			}
			k -= c.wt
		}
		if pick.tok == "t" && !ru.tick() {
			tickRefused = true
			continue
		}
		tickRefused = false
		if pick.tok == "t" {
			ru.events = append(ru.events, "t")
			ru.settle()
		} else if !ru.exec(pick.tok) {
			ru.fatal = "fatal generated command not executable: " + pick.tok + " after " + strings.Join(ru.events, " ")
			break
		}
		if pick.tok[0] == 's' || pick.tok[0] == 'h' || pick.tok[0] == 'x' {
			next++
		}
	}
	if ru.fatal != "" {
		return ru.fatal, "", "", "fatal"
	}
	cls := "sched/sizes=" + p.sizeMode + "/"
	if conf.coal {
		cls += "coalesce"
	} else {
		cls += "direct"
	}
	if conf.wt {
		cls += "/wt>0"
	} else {
		cls += "/wt=0"
	}
	if p.cutWrite >= 0 && cutDone {
		cls += fmt.Sprintf("/cut%d@%s:%s", p.cutWrite, []string{"0", "hdr", "body", "last", "4k", "end"}[p.cutClass], p.cutKind)
	} else {
		cls += "/nocut"
	}
	if followed {
		cls += "/then-" + string(p.follow)
	}
	if maxHeld > 1 {
		cls += "/CONCURRENT-WRITES"
	}
	if ru.anonSeen {
		return "", "", ru.traceLine(), cls + "/own-heartbeat"
	}
	return ru.schedLine(), ru.answer(), ru.traceLine(), cls
}

// ---- systematic templates: three requests outstanding (direct: one inside the transport, two waiting for the
// semaphore; coalescing: one flush of three frames), frame `cutFrame` (1..3) cut at byte `cutOff` with error
// `kind`, everything else written whole, then one more request. off > frame length: returns ok=false.
func (ru *srun) drain() {
	for i := 0; i < 100 && ru.fatal == ""; i++ {
		held := ru.g.heldSnapshot()
		if len(held) > 0 {
			// the NEWEST Write first: the writers never have two Writes inside the transport (mutual exclusion
			// theorem), so for them the order is immaterial; a writer that lets a second Write in has it served
			// while the older one is still incomplete, which puts the interleaving on the wire
			sort.Slice(held, func(i, j int) bool { return held[i].idx < held[j].idx })
			w := held[len(held)-1]
			id := ru.wreq[w]
			switch {
			case ru.g.isClosed():
				ru.exec(fmt.Sprintf("e%d:pipe", id))
			case w.off < len(w.p):
				ru.exec(fmt.Sprintf("p%d:%d", id, len(w.p)-w.off))
			default:
				ru.exec(fmt.Sprintf("e%d:ok", id))
			}
			continue
		}
		queued := false
		for _, q := range ru.order {
			if q.state == "R" && !q.entered {
				queued = true
			}
		}
		if queued && ru.tick != nil && ru.tick() {
			ru.events = append(ru.events, "t")
			ru.settle()
			continue
		}
		return
	}
}

func runTemplate(conf sconf, cutFrame, cutOff int, kind string) (sop, ans, top, cls string, ok bool) {
	if conf.sizes == nil {
		conf.sizes = []int{10, 25, 3, 7}
	}
	ru, fatal := newRun(conf)
	if ru == nil {
		return fatal, "", "", "fatal", true
	}
	defer ru.finish()
	ru.exec("s1")
	ru.exec("s2")
	ru.exec("s3")
	if conf.coal {
		ru.exec("t")
	}
	ok = true
	for f := 1; f <= 3 && ru.fatal == ""; f++ {
		w := ru.heldOf(f)
		if w == nil {
			if len(ru.g.heldSnapshot()) > 0 { // something else is inside the transport (a Write that is not whole frames):
				break // let it through; the monitor judges the byte stream
			}
			ru.fatal = fmt.Sprintf("fatal template: frame %d is not inside the transport after: %s", f, strings.Join(ru.events, " "))
			break
		}
		if f == cutFrame {
			if cutOff > len(w.p) || (cutOff == len(w.p) && kind == "ok") {
				ok = false
				break
			}
			if cutOff > 0 {
				ru.exec(fmt.Sprintf("p%d:%d", f, cutOff))
			}
			ru.exec(fmt.Sprintf("e%d:%s", f, kind))
			break
		}
		ru.exec(fmt.Sprintf("p%d:%d", f, len(w.p)))
		ru.exec(fmt.Sprintf("e%d:ok", f))
	}
	if !ok {
		return "", "", "", "", false
	}
	ru.drain()
	ru.exec("s4")
	ru.drain()
	if ru.fatal != "" {
		return ru.fatal, "", "", "fatal", true
	}
	cls = "tmpl/direct"
	if conf.coal {
		cls = "tmpl/coalesce"
	}
	cls += fmt.Sprintf("/cut-frame%d:%s", cutFrame, kind)
	if ru.anonSeen {
		return "", "", ru.traceLine(), cls + "/own-heartbeat", true
	}
	return ru.schedLine(), ru.answer(), ru.traceLine(), cls, true
}

// ---- size templates: a frame of `totals[0]` bytes is held inside the transport after `holdOff` of its bytes while
// the other requests (frames of totals[1..]) are started and the flush timer is tried after each; every Write that
// enters the transport meanwhile is served at once and whole (drain serves the newest Write first); then the held
// Write gets the rest of its bytes and ends with `kind` ("ok", or an error kind after `holdOff` bytes only); then
// everything is drained and one more request is made. With writers that keep the socket to one Write at a time the
// other requests simply wait (semaphore / the flusher is busy); the template exists for the sizes: a path taken
// only by frames above some size is exercised with another request outstanding in every combination of
// {large first, small first, two large} x hold position x writer.
func runSizeTemplate(conf sconf, totals []int, holdOff int, kind string) (sop, ans, top, cls string) {
	conf.sizes = nil
	for i, t := range totals {
		conf.sizes = append(conf.sizes, padFor(conf.proto, i+1, t))
	}
	conf.sizes = append(conf.sizes, 5)
	ru, fatal := newRun(conf)
	if ru == nil {
		return fatal, "", "", "fatal"
	}
	defer ru.finish()
	ru.exec("s1")
	if conf.coal {
		ru.exec("t") // refused when request 1 did not go through the queue
	}
	w := ru.heldOf(1)
	if w == nil && len(ru.g.heldSnapshot()) > 0 { // a Write that is not whole frames: let it through, the monitor judges
		ru.drain()
		ru.exec("s2")
		ru.drain()
		if ru.fatal != "" {
			return ru.fatal, "", "", "fatal"
		}
		return ru.schedLine(), ru.answer(), ru.traceLine(), "size/unframed-write"
	}
	if w == nil {
		return fmt.Sprintf("fatal size template: frame 1 is not inside the transport after: %s (%s)", strings.Join(ru.events, " "), conf.header()), "", "", "fatal"
	}
	if holdOff >= len(w.p) {
		holdOff = len(w.p) - 1
	}
	if holdOff > 0 {
		ru.exec(fmt.Sprintf("p1:%d", holdOff))
	}
	others := func() {
		for i := 0; i < 50 && ru.fatal == ""; i++ {
			var o *gwrite
			for _, h := range ru.g.heldSnapshot() {
				if h != w && (o == nil || h.idx > o.idx) {
					o = h
				}
			}
			if o == nil {
				return
			}
			id := ru.wreq[o]
			if o.off < len(o.p) && !ru.g.isClosed() {
				ru.exec(fmt.Sprintf("p%d:%d", id, len(o.p)-o.off))
			}
			if ru.g.isClosed() {
				ru.exec(fmt.Sprintf("e%d:pipe", id))
			} else {
				ru.exec(fmt.Sprintf("e%d:ok", id))
			}
		}
	}
	for id := 2; id <= len(totals) && ru.fatal == ""; id++ {
		ru.exec(fmt.Sprintf("s%d", id))
		others()
		if conf.coal {
			ru.exec("t")
			others()
		}
	}
	if ru.fatal == "" {
		if kind == "ok" {
			if w.off < len(w.p) {
				ru.exec(fmt.Sprintf("p1:%d", len(w.p)-w.off))
			}
			ru.exec("e1:ok")
		} else {
			ru.exec("e1:" + kind)
		}
	}
	ru.drain()
	ru.exec(fmt.Sprintf("s%d", len(totals)+1))
	ru.drain()
	if ru.fatal != "" {
		return ru.fatal, "", "", "fatal"
	}
	cls = "size/direct"
	if conf.coal {
		cls = "size/coalesce"
	}
	cls += "/" + sizeLabel(totals[0])
	for _, t := range totals[1:] {
		cls += "+" + sizeLabel(t)
	}
	cls += "/" + kind
	if ru.anonSeen {
		return "", "", ru.traceLine(), cls + "/own-heartbeat"
	}
	return ru.schedLine(), ru.answer(), ru.traceLine(), cls
}

func sizeLabel(t int) string {
	switch {
	case t < 4095:
		return "small"
	case t <= 4097, t >= 8191 && t <= 8193, t >= 16383 && t <= 16385, t >= 65535 && t <= 65537:
		return strconv.Itoa(t)
	case t >= 1<<20-8:
		return "1MiB"
	}
	return "large"
}

// normLine: closeWithError tells the outstanding calls in Go map order, so WHEN a request that is merely told
// "connection closed" returns (an err / late outcome) is not determined by the schedule. Two histories are the
// same replay when they agree on everything else and on the set of such returns.
func normLine(line string) string {
	toks := strings.FieldsFunc(line, func(r rune) bool { return r == ' ' || r == ';' })
	var keep, moved []string
	for _, t := range toks {
		u := strings.TrimPrefix(t, "+")
		if len(u) > 1 && u[0] == 'r' && (strings.HasSuffix(u, ":err") || strings.HasSuffix(u, ":late")) {
			moved = append(moved, u)
			continue
		}
		keep = append(keep, t)
	}
	sort.Strings(moved)
	return strings.Join(keep, " ") + " # " + strings.Join(moved, " ")
}
