// Vectored-write tier of C07: the real writers (hook VerifNewWriter) over a real loopback TCP connection, so that
// the coalescer's net.Buffers.WriteTo takes the writev path of *net.TCPConn (one system call for the whole batch,
// partial progress when the socket buffer fills, the remaining iovecs re-submitted, a write deadline that expires
// in the middle of a batch). The peer reads either continuously in pieces of random size, or only `limit` bytes
// and then nothing until every writer has returned (the writers then run into their write deadline with part of
// a batch accepted by the kernel). TCP delivers to the peer exactly the bytes the kernel accepted, in order, so
// the bytes read up to EOF are the wire.
//
// Every byte of frame i is 0x80|i (the writers do not look at the content), so the wire is parsed into maximal
// runs without any knowledge of what the writers did: a frame whose bytes arrive in two separate runs is an
// interleaved frame ("frame-twice" in the monitor). The shape of a scenario depends on the kernel and on timing
// (how much of a batch is accepted before the deadline); the verdict does not: whatever happened is handed to the
// `trace` monitor (success => whole frame once; cancelled before start => no bytes; a torn frame => some writer
// was told an error).
package main

import (
	"context"
	"errors"
	"fmt"
	"net"
	"os"
	"runtime"
	"strings"
	"sync"
	"time"

	"github.com/gocql/gocql"
	"verifharness/vh"
)

// wvConn embeds *net.TCPConn: net's unexported writeBuffers method is promoted, so net.Buffers.WriteTo(wvConn)
// is the writev path, exactly as for the *net.TCPConn a dialer hands to gocql.
type wvConn struct {
	*net.TCPConn
}

func tcpPair() (cli *net.TCPConn, srv *net.TCPConn, err error) {
	l, err := net.Listen("tcp4", "127.0.0.1:0")
	if err != nil {
		return nil, nil, err
	}
	defer l.Close()
	type acc struct {
		c   net.Conn
		err error
	}
	ch := make(chan acc, 1)
	go func() {
		c, err := l.Accept()
		ch <- acc{c, err}
	}()
	c, err := net.Dial("tcp4", l.Addr().String())
	if err != nil {
		return nil, nil, err
	}
	a := <-ch
	if a.err != nil {
		c.Close()
		return nil, nil, a.err
	}
	cli, srv = c.(*net.TCPConn), a.c.(*net.TCPConn)
	// a small send buffer: a large batch is accepted by the kernel in several steps (writev returns part of the
	// batch, waits for the socket to become writable, submits the rest). The receive buffer keeps its default:
	// one smaller than the loopback segment size makes the peer's window updates wait for the sender's persist
	// timer (seconds per scenario).
	cli.SetWriteBuffer(4096)
	cli.SetNoDelay(true)
	return cli, srv, nil
}

// errNoLoopback: the sandbox does not allow loopback TCP; the tier is skipped and the fact recorded in stats.json
var errNoLoopback = errors.New("loopback TCP unavailable")

type wvScenario struct {
	coalesce time.Duration
	timeout  time.Duration // write timeout of the writer
	lens     []int
	preCanc  []bool
	limit    int // bytes the peer reads before it stops (-1: it never stops)
}

// runWritev returns the trace op line and a class label ("" + fatal text in the first result on a harness failure).
func runWritev(r *vh.Rng) (string, string) {
	sc := wvScenario{limit: -1}
	cls := "writev/direct"
	if r.Intn(4) != 0 {
		sc.coalesce = time.Duration(100+r.Intn(900)) * time.Microsecond
		cls = "writev/coalesce"
	}
	n := 2 + r.Intn(5)
	total := 0
	for i := 0; i < n; i++ {
		l := 2 + drawTotal(r, []string{"small", "small", "edge", "edge", "mid", "mid", "huge"}[r.Intn(7)])
		sc.lens = append(sc.lens, l)
		sc.preCanc = append(sc.preCanc, r.Intn(10) == 0)
		total += l
	}
	if r.Intn(2) == 0 {
		// the peer stops reading: the writers meet their deadline with whatever the kernel took
		sc.timeout = time.Duration(30+r.Intn(40)) * time.Millisecond
		sc.limit = r.Intn(total + 1)
		if r.Intn(3) == 0 {
			sc.limit = 0
		}
		cls += "/peer-stops"
	} else {
		if r.Bool() {
			sc.timeout = 5 * time.Minute
		}
		cls += "/peer-reads"
	}
	op, err := execWritev(r, sc)
	if err != nil {
		if errors.Is(err, errNoLoopback) {
			return "", err.Error()
		}
		return "fatal writev tier: " + err.Error(), "fatal"
	}
	return op, cls
}

func execWritev(r *vh.Rng, sc wvScenario) (string, error) {
	sizes := make([]int, 64) // the peer's read sizes
	for i := range sizes {
		sizes[i] = 1 + r.Intn(9000)
	}
	cli, srv, err := tcpPair()
	if err != nil {
		return "", fmt.Errorf("%w: %v", errNoLoopback, err)
	}
	defer srv.Close()
	n := len(sc.lens)
	frames := make([][]byte, n)
	for i := range frames {
		frames[i] = make([]byte, sc.lens[i])
		for j := range frames[i] {
			frames[i][j] = byte(0x80 | (i + 1))
		}
	}
	// the peer
	var wire []byte
	resume := make(chan struct{})
	eof := make(chan error, 1)
	go func() {
		buf := make([]byte, 1<<16)
		for k := 0; ; k++ {
			want := sizes[k%len(sizes)]
			if sc.limit >= 0 && len(wire) >= sc.limit {
				<-resume
				sc.limit = -1
				continue
			}
			if sc.limit >= 0 && len(wire)+want > sc.limit {
				want = sc.limit - len(wire)
			}
			m, err := srv.Read(buf[:want])
			wire = append(wire, buf[:m]...)
			if err != nil {
				eof <- err
				return
			}
		}
	}()
	w := gocql.VerifNewWriter(&wvConn{cli}, sc.coalesce, sc.timeout)
	type res struct {
		n   int
		err error
	}
	results := make([]res, n)
	var wg sync.WaitGroup
	for i := 0; i < n; i++ {
		wg.Add(1)
		go func(i int) {
			defer wg.Done()
			ctx, cancel := context.WithCancel(context.Background())
			defer cancel()
			if sc.preCanc[i] {
				cancel()
			}
			defer func() {
				if e := recover(); e != nil {
					results[i] = res{0, fmt.Errorf("crash:%v", e)}
				}
			}()
			m, err := w.WriteContext(ctx, frames[i])
			results[i] = res{m, err}
		}(i)
	}
	done := make(chan struct{})
	go func() { wg.Wait(); close(done) }()
	// a peer that stopped reading starts again when every writer has returned or after 600 ms, whichever is first
	// (part of the scenario's shape, like the peer's read sizes: a writer that is still blocked then - one that
	// waits its turn behind others that each ran into their deadline, or one whose Write had no deadline - simply
	// gets its bytes through; the history is judged whatever it is)
	resumed := false
	select {
	case <-done:
	case <-time.After(600 * time.Millisecond):
		close(resume)
		resumed = true
		select {
		case <-done:
		case <-time.After(60 * time.Second):
			buf := make([]byte, 1<<20)
			m := runtime.Stack(buf, true)
			os.WriteFile("/tmp/c07_writev_hang.txt", buf[:m], 0o644)
			return "", errors.New("a writer did not return within 60 s although the peer reads (dump /tmp/c07_writev_hang.txt)")
		}
	}
	w.Quit()
	cli.Close() // FIN behind the last accepted byte: the peer reads everything the kernel took, then EOF
	if !resumed {
		close(resume)
	}
	select {
	case <-eof:
	case <-time.After(60 * time.Second):
		return "", errors.New("the peer did not see EOF within 60 s")
	}
	// the wire as maximal runs of one frame's bytes
	var chunks []string
	for pos := 0; pos < len(wire); {
		b := wire[pos]
		k := pos
		for k < len(wire) && wire[k] == b {
			k++
		}
		id, total := 1000+int(b), k-pos
		if b&0x80 != 0 && int(b&0x7f) >= 1 && int(b&0x7f) <= n {
			id = int(b & 0x7f)
			total = len(frames[id-1])
		}
		chunks = append(chunks, fmt.Sprintf("%d:%d:%d", id, total, k-pos))
		pos = k
	}
	outs := make([]string, n)
	anyErr := false
	for i, x := range results {
		o := "err"
		switch {
		case x.err == nil && x.n == len(frames[i]):
			o = "ok"
		case x.err != nil && x.n == 0 && sc.preCanc[i] && errors.Is(x.err, context.Canceled):
			o = "cancel"
		case x.err != nil && strings.HasPrefix(x.err.Error(), "crash:"):
			return "", x.err
		}
		if o == "err" {
			anyErr = true
		}
		outs[i] = fmt.Sprintf("%d:%s", i+1, o)
	}
	// no Conn here that would close the socket: "closed" stands for "some writer was told an error" (Conn.exec
	// closes the connection on exactly that)
	c := "closed=0"
	if anyErr {
		c = "closed=1"
	}
	ch := "-"
	if len(chunks) > 0 {
		ch = strings.Join(chunks, ";")
	}
	return fmt.Sprintf("trace %s %s %s", c, ch, strings.Join(outs, ";")), nil
}
