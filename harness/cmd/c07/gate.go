// Scripted transport and quiescence detection for the scheduling tier of C07.
//
// gatedConn wraps the driver's end of an in-memory connection. Once armed, every Write the driver makes
// enters the gate and stays inside Write until the scheduler ends it; while it is inside, the scheduler
// delivers its bytes to the recorded wire piece by piece (so the transport "delivers one Write in pieces,
// with a scheduling point between pieces and no lock of its own"), and finally makes the Write return
// (n = bytes delivered, err = a chosen error kind). Only a Write that was delivered whole and ended without
// error is forwarded to the scripted server, which therefore only ever sees complete frames.
//
// No decision of the scheduler depends on time: after every command it waits until the process is
// quiescent (every goroutine parked in a blocking operation), established from a consistent snapshot of all
// goroutine stacks (runtime.Stack stops the world).
package main

import (
	"errors"
	"fmt"
	"io"
	"net"
	"os"
	"runtime"
	"strconv"
	"strings"
	"sync"
	"time"

	"verifharness/memcluster"
)

// ---- error kinds a transport Write can end with

type tmpErr struct{}

func (tmpErr) Error() string   { return "verif: temporary transport error" }
func (tmpErr) Timeout() bool   { return false }
func (tmpErr) Temporary() bool { return true }

var errGeneric = errors.New("verif: injected write error")

// kindErr: ok | gen (plain error) | tmo (write deadline exceeded, a net.Error with Timeout()) | tmw (the same as
// returned bare by os files) | pipe (io.ErrClosedPipe) | tmp (net.Error, Temporary() only)
func kindErr(k string) error {
	switch k {
	case "ok":
		return nil
	case "gen":
		return errGeneric
	case "tmo":
		return &net.OpError{Op: "write", Net: "tcp", Err: os.ErrDeadlineExceeded}
	case "tmw":
		return os.ErrDeadlineExceeded
	case "pipe":
		return io.ErrClosedPipe
	case "tmp":
		return &net.OpError{Op: "write", Net: "tcp", Err: tmpErr{}}
	}
	panic("bad error kind " + k)
}

var errKinds = []string{"gen", "tmo", "tmw", "pipe", "tmp"}

// ---- the gate

type gframe struct {
	req   int // request id the frame belongs to (0 = unknown yet)
	start int // offset of the frame inside the Write buffer
	ln    int
}

type gwrite struct {
	idx    int
	p      []byte
	off    int // bytes delivered so far
	frames []gframe
	whole  bool // p is a concatenation of complete frames
	armed  bool // a write deadline was armed when the Write entered
	gid    int64
	end    chan error
	ended  bool
}

type gpiece struct {
	req, ln, off, n int
}

type gatedConn struct {
	net.Conn
	proto int

	mu       sync.Mutex
	on       bool
	closed   bool
	armed    bool
	held     []*gwrite
	nwrites  int
	raw      []byte
	unarmedW int // Writes that entered without an armed deadline (reported when a write timeout is configured)
	// perWrite: every Write must be preceded by its own SetWriteDeadline (a deadline left over from an earlier
	// Write does not count): armSeq counts the arming calls, usedSeq is the count the latest Write saw
	perWrite bool
	armSeq   int
	usedSeq  int
	// recRejected: Writes that arrive after Close are refused at once (0, io.ErrClosedPipe) and remembered, so that
	// the scheduler can report them as events (writer-level tier)
	recRejected bool
	rejected    [][]byte
	// failArm: the next failArm calls of SetWriteDeadline that arm a deadline fail (a fault point BEFORE byte 0 of a
	// Write / of a coalesced flush); armFails counts the failures that happened
	failArm  int
	armFails int
}

var errArm = errors.New("verif: injected SetWriteDeadline error")

// takeRejected returns (and forgets) the Writes the closed socket has refused since the last call.
func (g *gatedConn) takeRejected() [][]byte {
	g.mu.Lock()
	defer g.mu.Unlock()
	r := g.rejected
	g.rejected = nil
	return r
}

func (g *gatedConn) SetWriteDeadline(t time.Time) error {
	g.mu.Lock()
	if !t.IsZero() && g.failArm > 0 {
		g.failArm--
		g.armFails++
		g.mu.Unlock()
		return errArm
	}
	g.armed = !t.IsZero()
	if g.armed {
		g.armSeq++
	}
	g.mu.Unlock()
	return g.Conn.SetWriteDeadline(t)
}

func (g *gatedConn) Close() error {
	g.mu.Lock()
	g.closed = true
	g.mu.Unlock()
	return g.Conn.Close()
}

func (g *gatedConn) isClosed() bool {
	g.mu.Lock()
	defer g.mu.Unlock()
	return g.closed
}

func (g *gatedConn) Write(p []byte) (int, error) {
	g.mu.Lock()
	if !g.on {
		g.mu.Unlock()
		return g.Conn.Write(p)
	}
	if g.closed {
		if g.recRejected {
			g.rejected = append(g.rejected, append([]byte(nil), p...))
		}
		g.mu.Unlock()
		return 0, io.ErrClosedPipe
	}
	w := &gwrite{idx: g.nwrites, p: p, armed: g.armed, gid: curGID(), end: make(chan error)}
	g.nwrites++
	if g.perWrite && g.armSeq == g.usedSeq {
		w.armed = false
	}
	g.usedSeq = g.armSeq
	if !w.armed {
		g.unarmedW++
	}
	frames, raw, rest := memcluster.SplitFrames(p, g.proto)
	w.whole = len(rest) == 0 && len(frames) > 0
	pos := 0
	for i := range frames {
		w.frames = append(w.frames, gframe{start: pos, ln: len(raw[i])})
		pos += len(raw[i])
	}
	g.held = append(g.held, w)
	g.mu.Unlock()
	err := <-w.end // the scheduler delivers the pieces and decides when and how this Write returns
	g.mu.Lock()
	for i, h := range g.held {
		if h == w {
			g.held = append(g.held[:i:i], g.held[i+1:]...)
			break
		}
	}
	off := w.off
	g.mu.Unlock()
	if err == nil && off == len(p) && w.whole {
		g.Conn.Write(p) // the server sees whole frames only
	}
	return off, err
}

// heldSnapshot: the Writes that are inside the transport and have not been told to return.
func (g *gatedConn) heldSnapshot() []*gwrite {
	g.mu.Lock()
	defer g.mu.Unlock()
	var out []*gwrite
	for _, w := range g.held {
		if !w.ended {
			out = append(out, w)
		}
	}
	return out
}

// endWrite makes the Write return (n = bytes delivered so far, err).
func (g *gatedConn) endWrite(w *gwrite, err error) {
	g.mu.Lock()
	if w.ended {
		g.mu.Unlock()
		return
	}
	w.ended = true
	g.mu.Unlock()
	w.end <- err
}

// deliver appends the next n bytes of w to the physical wire and returns them as pieces per frame.
func (g *gatedConn) deliver(w *gwrite, n int) []gpiece {
	g.mu.Lock()
	defer g.mu.Unlock()
	var out []gpiece
	from, to := w.off, w.off+n
	g.raw = append(g.raw, w.p[from:to]...)
	w.off = to
	if !w.whole {
		return []gpiece{{req: 0, ln: len(w.p), off: from, n: n}}
	}
	for _, f := range w.frames {
		a, b := max(from, f.start), min2(to, f.start+f.ln)
		if a < b {
			out = append(out, gpiece{req: f.req, ln: f.ln, off: a - f.start, n: b - a})
		}
	}
	return out
}

func max(a, b int) int {
	if a > b {
		return a
	}
	return b
}
func min2(a, b int) int {
	if a < b {
		return a
	}
	return b
}

// ---- goroutine snapshot

func curGID() int64 {
	var buf [64]byte
	n := runtime.Stack(buf[:], false)
	f := strings.Fields(string(buf[:n]))
	if len(f) >= 2 {
		v, _ := strconv.ParseInt(f[1], 10, 64)
		return v
	}
	return -1
}

type ginfo struct {
	id    int64
	state string
	funcs []string
}

var stackBuf = make([]byte, 1<<20)

func snapshot() (self int64, gs []ginfo, rawDump string) {
	for {
		n := runtime.Stack(stackBuf, true)
		if n < len(stackBuf) {
			rawDump = string(stackBuf[:n])
			break
		}
		stackBuf = make([]byte, 2*len(stackBuf))
	}
	for i, blk := range strings.Split(rawDump, "\n\n") {
		lines := strings.Split(blk, "\n")
		if len(lines) == 0 || !strings.HasPrefix(lines[0], "goroutine ") {
			continue
		}
		h := lines[0]
		var gi ginfo
		sp := strings.IndexByte(h[10:], ' ')
		if sp < 0 {
			continue
		}
		gi.id, _ = strconv.ParseInt(h[10:10+sp], 10, 64)
		lb, rb := strings.IndexByte(h, '['), strings.LastIndexByte(h, ']')
		if lb >= 0 && rb > lb {
			st := h[lb+1 : rb]
			if c := strings.IndexByte(st, ','); c >= 0 {
				st = st[:c]
			}
			gi.state = st
		}
		for _, l := range lines[1:] {
			if l != "" && l[0] != '\t' {
				gi.funcs = append(gi.funcs, l)
			}
		}
		if i == 0 {
			self = gi.id
		}
		gs = append(gs, gi)
	}
	return
}

func (gi *ginfo) has(sub string) bool {
	for _, f := range gi.funcs {
		if strings.Contains(f, sub) {
			return true
		}
	}
	return false
}

var parkedStates = []string{"chan receive", "chan send", "select", "IO wait", "sync.Cond.Wait", "sync.Mutex.Lock",
	"sync.RWMutex.Lock", "sync.RWMutex.RLock", "semacquire", "sync.WaitGroup.Wait", "finalizer wait", "GC ", "force gc", "debug call"}

func (gi *ginfo) parked() bool {
	// Conn.exec arms its per-call timer with `time.NewTimer(0); <-timer.C`: parked on a channel, but the
	// runtime timer wakes it by itself. exec's real waiting position is a select.
	if gi.state == "chan receive" && len(gi.funcs) > 0 && strings.Contains(gi.funcs[0], "gocql.(*Conn).exec") {
		return false
	}
	// a goroutine that allocates during a GC cycle can be made to help ("GC assist wait" / "GC assist marking"):
	// it is runnable work of the program, not a parked GC worker (seen with the 1 MiB frames)
	if strings.HasPrefix(gi.state, "GC assist") {
		return false
	}
	if strings.HasPrefix(gi.state, "GC ") && (gi.has("gocql.") || gi.has("main.") || gi.has("verifharness/")) {
		return false // any other GC-related wait of a goroutine of the program (GC workers have runtime frames only)
	}
	// "semacquire" is also the state of a goroutine whose allocation starts a GC cycle and waits for the world
	// semaphore that this very snapshot holds (runtime frames are elided: its top frame is the allocating
	// function). Only a semaphore wait entered through package sync / internal/poll is a parked goroutine.
	if strings.HasPrefix(gi.state, "semacquire") {
		return len(gi.funcs) > 0 && (strings.HasPrefix(gi.funcs[0], "sync.") || strings.HasPrefix(gi.funcs[0], "internal/poll."))
	}
	for _, p := range parkedStates {
		if strings.HasPrefix(gi.state, p) {
			return true
		}
	}
	// pool maintenance after a connection was lost sleeps between attempts; it is not on the write path
	if gi.state == "sleep" && gi.has("gocql.(*hostConnPool).") {
		return true
	}
	return false
}

var qdebug = os.Getenv("C07_QDEBUG") != ""

var errNotQuiescent = errors.New("not quiescent")

// quiesce waits until every goroutine but the caller is parked and returns that snapshot. The bound (2500 snapshots, >= 2 minutes) is
// a watchdog only (the dump is written to /tmp/c07_sched_hang.txt).
func quiesce() ([]ginfo, error) {
	// The watchdog counts snapshots, not wall-clock time: after the ramp every snapshot is preceded by a 50 ms
	// pause, so 2500 of them are two minutes in which the program was given the processor 2500 times. A stall of
	// the whole machine (the sandbox is a virtual machine: both of two concurrent checks once lost ~30 s at the
	// same moment) is then one long pause, not an expired deadline.
	start := time.Now()
	for spin := 0; ; spin++ {
		runtime.Gosched()
		self, gs, dump := snapshot()
		ok := true
		for i := range gs {
			if gs[i].id != self && !gs[i].parked() {
				ok = false
				break
			}
		}
		if ok {
			return gs, nil
		}
		if spin >= 2500 {
			os.WriteFile("/tmp/c07_sched_hang.txt", []byte(dump), 0o644)
			return gs, errNotQuiescent
		}
		if qdebug && spin > 200 && spin%200 == 0 {
			for i := range gs {
				if gs[i].id != self && !gs[i].parked() {
					top := "?"
					if len(gs[i].funcs) > 0 {
						top = gs[i].funcs[0]
					}
					fmt.Fprintf(os.Stderr, "qdebug spin=%d t=%v g=%d [%s] %s\n", spin, time.Since(start), gs[i].id, gs[i].state, top)
				}
			}
		}
		// Every snapshot stops the world. A goroutine that is runnable needs a thread to be woken for it after the
		// world restarts; when the next snapshot follows too quickly the thread finds the world stopping again and
		// the goroutine never runs (seen as 30 s of "runnable" with 1 MiB frames). So the pause between snapshots
		// grows while the program is not quiescent (20 us ... 50 ms; on a machine whose processors are
		// oversubscribed a woken thread may have to wait several milliseconds for a processor); pauses do not
		// decide anything, they only leave the processor to the program.
		if spin > 8 {
			d := 50 * time.Millisecond
			if k := uint((spin - 8) / 6); k < 12 {
				d = 20 * time.Microsecond << k // 20 us, 40 us, ... 41 ms
			}
			time.Sleep(d)
		}
	}
}

// classify the position of a request goroutine inside gocql:
// G inside the transport Write; S waiting for the semaphore (direct writer's select); E waiting to enqueue
// (coalescer's select); R enqueued, waiting for the flush result; C inside closeWithError; W waiting for the
// response in Conn.exec; ? anything else.
func classify(gi *ginfo) string {
	for _, f := range gi.funcs {
		switch {
		case strings.Contains(f, "main.(*gatedConn).Write"):
			return "G"
		case strings.Contains(f, "gocql.(*Conn).closeWithError"):
			return "C"
		case strings.Contains(f, "gocql.(*deadlineContextWriter).writeContext"):
			return "S"
		case strings.Contains(f, "gocql.(*writeCoalescer).writeContext"):
			if strings.HasPrefix(gi.state, "select") {
				return "E"
			}
			return "R"
		case strings.Contains(f, "gocql.(*Conn).exec"):
			return "W"
		}
	}
	top := "none"
	if len(gi.funcs) > 0 {
		top = gi.funcs[0]
	}
	return "?" + fmt.Sprintf("[%s]%s", gi.state, top)
}
