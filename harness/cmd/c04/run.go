package main

import (
	"fmt"
	"strings"

	"verifharness/vh"
)

// ---- classification helpers (the hypotheses of the C04_cells_* theorems)

func width(t *typeDesc) int {
	if t.kind == 't' {
		return len(t.sub)
	}
	return 1
}

var goTypeIDs = map[int]bool{0x0D: true, 0x01: true, 0x10: true, 0x0A: true, 0x02: true, 0x05: true, 0x12: true, 0x0B: true,
	0x03: true, 0x04: true, 0x08: true, 0x07: true, 0x09: true, 0x13: true, 0x14: true, 0x06: true, 0x0C: true, 0x0F: true,
	0x0E: true, 0x11: true, 0x15: true}

// viewID: the type id the driver sees
func viewID(t *typeDesc) int {
	switch t.kind {
	case 'n':
		return t.id
	case 'c':
		return customType(t.cls)
	case 'l':
		return 0x20
	case 'm':
		return 0x21
	case 's':
		return 0x22
	case 'u':
		return 0x30
	}
	return 0x31
}

// goType: 0 = the type has a Go type (helpers.go goType succeeds for the driver's view of it), 1 = it
// has none (unknown / custom type, or a map whose key type is not comparable in Go): an error
func goType(t *typeDesc) int {
	switch t.kind {
	case 'n', 'c':
		if goTypeIDs[viewID(t)] {
			return 0
		}
		return 1
	case 'l', 's':
		return goType(t.sub[0])
	case 'm':
		if k := goType(t.sub[0]); k != 0 {
			return k
		}
		if e := goType(t.sub[1]); e != 0 {
			return e
		}
		switch t.sub[0].kind {
		case 'l', 's', 'm', 'u', 't':
			return 1
		}
		if viewID(t.sub[0]) == 3 { // blob: []byte
			return 1
		}
		return 0
	}
	return 0
}

func goTypeOk(t *typeDesc) bool { return goType(t) == 0 }

// expandedNames: the RowData column names; worst = the first non-ok goType outcome in column order
func expandedNames(m *meta) (names []string, worst int) {
	for _, c := range m.cols {
		if c.t.kind == 't' {
			for i, e := range c.t.sub {
				names = append(names, fmt.Sprintf("%s[%d]", c.name, i))
				if worst == 0 {
					worst = goType(e)
				}
			}
		} else {
			names = append(names, string(c.name))
			if worst == 0 {
				worst = goType(c.t)
			}
		}
	}
	return
}

func distinct(l []string) bool {
	s := map[string]bool{}
	for _, x := range l {
		if s[x] {
			return false
		}
		s[x] = true
	}
	return true
}

// rowsClass decides whether (api, dests) on the rows response r is covered by the C04_cells theorems
// (→ spec-backed op `rows`) or falls under an excluded condition (→ `rowsx`, with the class name).
func rowsClass(api, dests string, r *lresp) (op, class string) {
	m := r.body.m
	sfx := ""
	if !m.noCollClass() {
		sfx = "/custom-collection-class"
	}
	if m.mode == 'O' {
		return "rowsx", "rows/" + api + "/no-metadata"
	}
	for _, c := range m.cols {
		if c.t.kind == 't' && len(c.t.sub) == 0 {
			return "rowsx", "rows/" + api + "/tuple0"
		}
	}
	if dests != "A" {
		// nil destination on the first slot of a tuple column of width != 1: KF-C04-3
		i := 0
		for _, c := range m.cols {
			if i < len(dests) && dests[i] == '0' && c.t.kind == 't' && len(c.t.sub) != 1 {
				return "rowsx", "KF-C04-3/nil-dest-on-tuple"
			}
			i += width(c.t)
		}
		return "rowsx", "rows/" + api + "/nil-dest"
	}
	switch api {
	case "scanner":
		for i, c := range m.cols {
			if c.t.kind == 't' && len(c.t.sub) != 1 && i != len(m.cols)-1 {
				return "rows", "rows/scanner/tuple-not-last" + sfx
			}
		}
	case "mapscan", "slicemap":
		names, worst := expandedNames(m)
		if worst != 0 {
			// C04_no_go_type_is_error: an error outcome, never a panic
			return "rows", "rows/" + api + "/no-go-type" + sfx
		}
		if !distinct(names) {
			return "rowsx", "rows/" + api + "/duplicate-names"
		}
	}
	return "rows", "rows/" + api + sfx
}

// unsafeAlloc: would the real parser reach `make([]int, pkeyCount)` with a count that allocates
// gigabytes (known C05 finding D7)? Those inputs are not fed to the real code.
func unsafeAlloc(fv, flags, op int, body []byte) bool {
	if op != 0x08 || fv < 4 {
		return false
	}
	p := 0
	need := func(n int) bool { return p+n <= len(body) }
	short := func() int { v := int(body[p])<<8 | int(body[p+1]); p += 2; return v }
	int4 := func() int {
		v := int(int32(uint32(body[p])<<24 | uint32(body[p+1])<<16 | uint32(body[p+2])<<8 | uint32(body[p+3])))
		p += 4
		return v
	}
	str := func() bool {
		if !need(2) {
			return false
		}
		n := short()
		if !need(n) {
			return false
		}
		p += n
		return true
	}
	if flags&0x02 != 0 {
		if !need(16) {
			return false
		}
		p += 16
	}
	if flags&0x08 != 0 {
		if !need(2) {
			return false
		}
		n := short()
		for i := 0; i < n; i++ {
			if !str() {
				return false
			}
		}
	}
	if flags&0x04 != 0 {
		if !need(2) {
			return false
		}
		n := short()
		for i := 0; i < n; i++ {
			if !str() || !need(4) {
				return false
			}
			l := int4()
			if l > 0 {
				if !need(l) {
					return false
				}
				p += l
			}
		}
	}
	if !need(4) || int4() != 4 {
		return false
	}
	if !str() || !need(12) {
		return false
	}
	p += 8
	return int4() > 1<<20
}

type runner struct {
	g    *gen
	out  *vh.Out
	r    *vh.Rng
	skip int
}

func (x *runner) emit(op, class string) {
	x.out.Case(op, exec(op), class, true)
}

func (x *runner) respOp(kind string, fv int, r *lresp) string {
	return kind + " " + fmt.Sprint(fv) + " " + strings.Join(r.toks(), " ") + " " + vh.Hex(r.encFrame())
}

var rawInts = [][]byte{{0xff, 0xff, 0xff, 0xff}, {0x7f, 0xff, 0xff, 0xff}, {0x80, 0, 0, 0}, {0, 0, 0, 0}, {0, 0, 0, 1}, {0xff, 0xff, 0xff, 0xfe}, {0, 1, 0x11, 0x70}}

// raw: malformed bodies derived from a well-formed frame
func (x *runner) rawOps(fv int, r *lresp, n int) {
	body := r.encBody()
	ver, flags, op := r.v|0x80, r.flags(), r.body.opcode()
	for i := 0; i < n; i++ {
		b := append([]byte{}, body...)
		class := ""
		switch x.r.Intn(8) {
		case 0, 1: // truncation
			if len(b) > 0 {
				b = b[:x.r.Intn(len(b))]
			}
			class = "raw/truncate"
		case 2: // 4 bytes replaced by a boundary int
			if len(b) >= 4 {
				copy(b[x.r.Intn(len(b)-3):], rawInts[x.r.Intn(len(rawInts))])
			}
			class = "raw/int-field"
		case 3: // 2 bytes replaced
			if len(b) >= 2 {
				copy(b[x.r.Intn(len(b)-1):], [][]byte{{0xff, 0xff}, {0, 0}, {0, 1}, {0x80, 0}}[x.r.Intn(4)])
			}
			class = "raw/short-field"
		case 4: // random byte flips
			for k := 0; k < 1+x.r.Intn(3) && len(b) > 0; k++ {
				b[x.r.Intn(len(b))] = byte(x.r.U64())
			}
			class = "raw/byte"
		case 5: // garbage appended
			b = append(b, x.r.Bytes(1+x.r.Intn(6))...)
			class = "raw/extend"
		case 6: // other flags / opcode / direction / framer version
			switch x.r.Intn(4) {
			case 0:
				flags = x.r.Intn(32) &^ 1
			case 1:
				op = []int{0, 2, 3, 6, 8, 0x0C, 0x0E, 0x10, 1, 5, 7, 0x0F, 0x11, 0xFF}[x.r.Intn(14)]
			case 2:
				ver = r.v // request direction
			case 3:
				fv = 1 + x.r.Intn(5)
			}
			class = "raw/header"
		case 7: // inet size byte set to 4/16 + truncation (readInetAdressOnly)
			if len(b) > 6 {
				p := x.r.Intn(len(b))
				b[p] = []byte{4, 16}[x.r.Intn(2)]
				b = b[:p+1+x.r.Intn(len(b)-p)]
			}
			class = "raw/inet"
		}
		if unsafeAlloc(fv, flags, op, b) {
			x.skip++
			continue
		}
		o := fmt.Sprintf("raw %d %d %d %d %d %s", fv, ver, flags, op, r.stream, vh.Hex(b))
		res := exec(o)
		oc := "ok"
		if res == "err" || strings.HasPrefix(res, "crash") {
			oc = res
		}
		x.out.Case(o, res, class+"/"+oc, true)
	}
}

func destPattern(r *vh.Rng, w int) string {
	if w == 0 {
		return "A"
	}
	n := w
	switch r.Intn(8) {
	case 0:
		n = w + 1
	case 1:
		if w > 0 {
			n = w - 1
		}
	}
	b := make([]byte, n)
	for i := range b {
		b[i] = '1'
		if r.Intn(3) == 0 {
			b[i] = '0'
		}
	}
	if n == 0 {
		return "A"
	}
	return string(b)
}

func (x *runner) rowsOps(v int, mult int) {
	g := x.g
	apis := []string{"scan", "scanner", "mapscan", "slicemap"}
	for rep := 0; rep < 40*mult; rep++ {
		for _, api := range apis {
			b := &body{kind: "RES", rk: "ROWS"}
			if api == "slicemap" {
				m := &meta{mode: 'G', ks: g.name(), tb: g.name()}
				n := g.r.Intn(5)
				for i := 0; i < n; i++ {
					m.cols = append(m.cols, colSpec{name: g.name(), t: g.rawType(true)})
				}
				if g.r.Intn(6) == 0 {
					// a column without a Go type (a map with a key that is not comparable in Go, an unknown or
					// custom type): SliceMap is an error whatever the other columns are
					c := colSpec{name: g.name(), t: g.noGoType()}
					k := g.r.Intn(len(m.cols) + 1)
					m.cols = append(m.cols[:k], append([]colSpec{c}, m.cols[k:]...)...)
				}
				if g.r.Bool() {
					p := g.blob(8)
					m.paging = &p
				}
				b.m = m
			} else {
				b.m = g.meta(g.r.Intn(10) != 0, g.r.Intn(6) == 0, 5)
				if api == "mapscan" && g.r.Intn(3) != 0 {
					// mostly types that have a Go type
					for i := range b.m.cols {
						if !goTypeOk(b.m.cols[i].t) || (b.m.cols[i].t.kind == 't' && g.r.Bool()) {
							b.m.cols[i].t = g.rawType(true)
						}
					}
				}
			}
			b.rows = g.rowsFor(b.m, 4)
			r := g.resp(v, b, true)
			dests := "A"
			if (api == "scan" || api == "scanner") && g.r.Intn(4) == 0 {
				w := 0
				for _, c := range b.m.cols {
					w += width(c.t)
				}
				dests = destPattern(g.r, w)
			}
			op, class := rowsClass(api, dests, r)
			wire := r.encFrame()
			x.emit(fmt.Sprintf("%s %s %s %d %s %s", op, api, dests, v, strings.Join(r.toks(), " "), vh.Hex(wire)), class)
			// malformed rows: the rows bytes cut short (header length adjusted)
			if g.r.Intn(5) == 0 && len(b.rows) > 0 {
				hs := headSize(v)
				cut := 1 + g.r.Intn(12)
				if cut < len(wire)-hs-8 {
					w2 := append([]byte{}, wire[:len(wire)-cut]...)
					l := len(w2) - hs
					w2[hs-4], w2[hs-3], w2[hs-2], w2[hs-1] = byte(l>>24), byte(l>>16), byte(l>>8), byte(l)
					o := fmt.Sprintf("rowsx %s %s %d %s %s", api, dests, v, "RAW", vh.Hex(w2))
					res := exec(o)
					oc := "ok"
					if strings.HasPrefix(res, "crash") {
						oc = "crash"
					} else if strings.Contains(res, "end:1") || strings.Contains(res, "err:1") || strings.HasSuffix(res, " err") {
						oc = "err"
					}
					x.out.Case(o, res, "rows/"+api+"/short-rows/"+oc, true)
				}
			}
		}
	}
}

func run(tier, path string) {
	r := vh.NewRng(vh.EnvSeed())
	out := vh.NewOut(path)
	g := &gen{r: r}
	x := &runner{g: g, out: out, r: r}
	mult := 6
	if tier == "thorough" {
		mult = 60
	}
	// fixed corpus: the recorded known-finding inputs and regression cases first
	for _, l := range corpus {
		w := strings.Fields(l)
		x.emit(l, "corpus/"+w[0])
	}
	for v := 1; v <= 5; v++ {
		for _, k := range bodyKinds {
			reps := 12 * mult
			if k == "ROWS" || k == "PREP" || k == "ERR" {
				reps = 60 * mult
			}
			if k == "READY" || k == "VOID" {
				reps = 4 * mult
			}
			for i := 0; i < reps; i++ {
				b := g.body(v, k, true)
				if k == "ERR" {
					b = g.errBody(v, errKinds[i%len(errKinds)])
				}
				strict := g.r.Intn(4) != 0
				rs := g.resp(v, b, strict)
				class := fmt.Sprintf("resp/v%d/%s", v, k)
				if k == "ERR" {
					class += "/" + b.ek
				}
				if !b.noCollClass() {
					class += "/custom-collection-class"
				}
				x.emit(x.respOp("resp", v, rs), class)
				if i%4 == 0 {
					x.emit(x.respOp("comp", v, rs), fmt.Sprintf("comp/v%d/%s", v, k))
				}
				if i%6 == 0 {
					// framer version differs from the version in the header: model-vs-code
					fv := 1 + g.r.Intn(5)
					if unsafeAlloc(fv, rs.flags(), rs.body.opcode(), rs.encBody()) {
						x.skip++
					} else {
						x.emit(x.respOp("respx", fv, rs), "respx/framer-version")
					}
				}
				if i%2 == 0 {
					x.rawOps(v, rs, 3)
				}
			}
		}
	}
	for v := 3; v <= 4; v++ {
		x.rowsOps(v, mult)
	}
	x.rowsOps(2, (mult+3)/4)
	x.rowsOps(5, (mult+3)/4)
	pats := sysPatterns
	if tier == "thorough" {
		pats = append(append([]string{}, sysPatterns...), allPatterns(4)...) // every order of value / null / empty over 1..4 rows
	}
	x.reuseSystematic(4, pats)
	x.reuseSystematic(2, sysPatterns)
	for v := 3; v <= 4; v++ {
		x.reuseOps(v, mult)
	}
	x.reuseOps(1, (mult+3)/4)
	x.reuseOps(2, (mult+1)/2)
	x.reuseOps(5, (mult+3)/4)
	x.skipOps(3, 60*mult)
	x.skipOps(4, 60*mult)
	for v := 2; v <= 5; v++ {
		x.pagesOps(v, 25*mult)
		x.qoneOps(v, 15*mult)
	}
	out.Close(map[string]interface{}{"skipped_unsafe_alloc_inputs": x.skip})
}
