// Generators for C04: logical responses of every kind x version x flag combination, type trees,
// metadata shapes, rows with null cells and tuple cells. All randomness from the one PRNG.
package main

import (
	"verifharness/vh"
)

type gen struct {
	r *vh.Rng
	// reuse ops (reuse.go): are in-place composite destinations allowed on this page; element count wanted per list column
	inplace     bool
	shortTuples bool
	odd         bool // custom / unknown column types allowed here
	count       map[*typeDesc]int
}

var identChars = []byte("abcdefghijklmnopqrstuvwxyz_0123456789ABCXYZ")

func (g *gen) name() []byte {
	switch g.r.Intn(20) {
	case 0:
		return []byte{}
	case 1:
		return g.r.Bytes(1 + g.r.Intn(6)) // arbitrary bytes (not UTF-8)
	case 2:
		n := 200 + g.r.Intn(200)
		b := make([]byte, n)
		for i := range b {
			b[i] = identChars[g.r.Intn(len(identChars))]
		}
		return b
	}
	n := 1 + g.r.Intn(8)
	b := make([]byte, n)
	for i := range b {
		b[i] = identChars[g.r.Intn(len(identChars))]
	}
	return b
}

func (g *gen) blob(max int) []byte {
	switch g.r.Intn(6) {
	case 0:
		return []byte{}
	case 1:
		return g.r.Bytes(1)
	}
	return g.r.Bytes(g.r.Intn(max + 1))
}

var int32Pool = []int64{0, 1, -1, 2, 255, 256, 65535, 65536, 2147483647, -2147483648, 2147483646, -2147483647, 16777216, -256}

func (g *gen) int32() int64 {
	if g.r.Intn(3) == 0 {
		return int32Pool[g.r.Intn(len(int32Pool))]
	}
	if g.r.Bool() {
		return int64(g.r.Intn(1000))
	}
	return int64(int32(g.r.U64()))
}

var shortPool = []int{0, 1, 2, 4, 5, 6, 10, 255, 256, 65535, 32768}

func (g *gen) short() int {
	if g.r.Bool() {
		return shortPool[g.r.Intn(len(shortPool))]
	}
	return g.r.Intn(65536)
}

var mappedClasses = []string{"AsciiType", "LongType", "BytesType", "BooleanType", "CounterColumnType", "DecimalType", "DoubleType",
	"FloatType", "Int32Type", "ShortType", "ByteType", "TimeType", "DateType", "TimestampType", "UUIDType", "LexicalUUIDType",
	"UTF8Type", "IntegerType", "TimeUUIDType", "InetAddressType", "DurationType"}
var collClasses = []string{"MapType", "ListType", "SetType", "TupleType"}
var otherClasses = []string{"org.apache.cassandra.db.marshal.ListType(org.apache.cassandra.db.marshal.Int32Type)",
	"org.apache.cassandra.db.marshal.UserType(ks,6e616d65,61:org.apache.cassandra.db.marshal.Int32Type)",
	"org.apache.cassandra.db.marshal.DynamicCompositeType", "org.apache.cassandra.db.marshal.ReversedType(org.apache.cassandra.db.marshal.UTF8Type)",
	"org.apache.cassandra.db.marshal.", "org.apache.cassandra.db.marshal.asciitype", "ListType ", "com.example.MyType", "UserType", "FrozenType(ListType)"}

func (g *gen) class(allowBad bool) []byte {
	pfx := ""
	if g.r.Bool() {
		pfx = marshalPrefix
	}
	switch g.r.Intn(10) {
	case 0, 1, 2, 3:
		return []byte(pfx + mappedClasses[g.r.Intn(len(mappedClasses))])
	case 4, 5:
		return []byte(otherClasses[g.r.Intn(len(otherClasses))])
	case 6:
		if allowBad {
			return []byte(pfx + collClasses[g.r.Intn(len(collClasses))])
		}
		return []byte(pfx + "EmptyType")
	case 7:
		// prefix twice / prefix in the middle
		return []byte(marshalPrefix + marshalPrefix + "AsciiType")
	}
	return g.name()
}

var nativeIDs = []int{1, 2, 3, 4, 5, 6, 7, 8, 9, 0x0A, 0x0B, 0x0C, 0x0D, 0x0E, 0x0F, 0x10, 0x11, 0x12, 0x13, 0x14, 0x15}
var oddIDs = []int{0x16, 0x1F, 0x23, 0x2F, 0x32, 0x100, 0x3100, 0xFFFF, 0x8000}

func (g *gen) typ(depth int, allowBad bool) *typeDesc {
	k := g.r.Intn(20)
	if depth <= 0 && k >= 12 {
		k = g.r.Intn(12)
	}
	switch {
	case k < 9:
		if g.r.Intn(12) == 0 {
			return &typeDesc{kind: 'n', id: oddIDs[g.r.Intn(len(oddIDs))]}
		}
		return &typeDesc{kind: 'n', id: nativeIDs[g.r.Intn(len(nativeIDs))]}
	case k < 12:
		return &typeDesc{kind: 'c', cls: g.class(allowBad)}
	case k < 14:
		return &typeDesc{kind: 'l', sub: []*typeDesc{g.typ(depth-1, allowBad)}}
	case k < 15:
		return &typeDesc{kind: 's', sub: []*typeDesc{g.typ(depth-1, allowBad)}}
	case k < 17:
		return &typeDesc{kind: 'm', sub: []*typeDesc{g.typ(depth-1, allowBad), g.typ(depth-1, allowBad)}}
	case k < 18:
		n := g.r.Intn(4)
		t := &typeDesc{kind: 'u', ks: g.name(), nm: g.name()}
		for i := 0; i < n; i++ {
			t.fnames = append(t.fnames, g.name())
			t.sub = append(t.sub, g.typ(depth-1, allowBad))
		}
		return t
	default:
		n := 1 + g.r.Intn(3)
		if g.r.Intn(25) == 0 {
			n = 0
		}
		t := &typeDesc{kind: 't'}
		for i := 0; i < n; i++ {
			t.sub = append(t.sub, g.typ(depth-1, allowBad))
		}
		return t
	}
}

// rawLike: a leaf type whose typed value is the cell's bytes (blob / ascii / text / varchar)
var rawIDs = []int{3, 1, 0x0A, 0x0D}

func (g *gen) rawType(tupleOK bool) *typeDesc {
	if tupleOK && g.r.Intn(4) == 0 {
		n := 1 + g.r.Intn(3)
		t := &typeDesc{kind: 't'}
		for i := 0; i < n; i++ {
			t.sub = append(t.sub, g.rawType(false))
		}
		return t
	}
	return &typeDesc{kind: 'n', id: rawIDs[g.r.Intn(len(rawIDs))]}
}

// noGoType: a type without a Go type: map<k, v> with k a blob / collection / tuple / UDT (not comparable
// in Go), an unknown option id, an unmapped custom class, or one of these inside a list / set / map value
func (g *gen) noGoType() *typeDesc {
	raw := func() *typeDesc { return &typeDesc{kind: 'n', id: nativeIDs[g.r.Intn(len(nativeIDs))]} }
	var t *typeDesc
	switch g.r.Intn(8) {
	case 0, 1:
		t = &typeDesc{kind: 'm', sub: []*typeDesc{{kind: 'n', id: 3}, raw()}}
	case 2:
		t = &typeDesc{kind: 'm', sub: []*typeDesc{{kind: []byte("ls")[g.r.Intn(2)], sub: []*typeDesc{raw()}}, raw()}}
	case 3:
		t = &typeDesc{kind: 'm', sub: []*typeDesc{{kind: 't', sub: []*typeDesc{raw(), raw()}}, raw()}}
	case 4:
		t = &typeDesc{kind: 'm', sub: []*typeDesc{{kind: 'u', ks: g.name(), nm: g.name()}, raw()}}
	case 5:
		t = &typeDesc{kind: 'm', sub: []*typeDesc{{kind: 'c', cls: []byte(marshalPrefix + "BytesType")}, raw()}}
	case 6:
		t = &typeDesc{kind: 'n', id: oddIDs[g.r.Intn(len(oddIDs))]}
	default:
		t = &typeDesc{kind: 'c', cls: []byte([]string{"com.example.MyType", "ListType", marshalPrefix + "MapType", "TupleType"}[g.r.Intn(4)])}
	}
	switch g.r.Intn(6) {
	case 0:
		t = &typeDesc{kind: 'l', sub: []*typeDesc{t}}
	case 1:
		t = &typeDesc{kind: 'm', sub: []*typeDesc{raw(), t}}
	}
	return t
}

func (g *gen) depth() int {
	switch g.r.Intn(10) {
	case 0:
		return 0
	case 1:
		return 5
	}
	return 1 + g.r.Intn(3)
}

// meta: mode 0 any, 'C'/'G' forces columns present
func (g *gen) meta(withCols bool, allowBad bool, maxCols int) *meta {
	m := &meta{}
	if g.r.Intn(3) == 0 {
		p := g.blob(20)
		m.paging = &p
	}
	k := g.r.Intn(7)
	if withCols && k == 0 {
		k = 1
	}
	switch {
	case k == 0:
		m.mode = 'O'
		m.count = g.r.Intn(6)
		if g.r.Intn(8) == 0 {
			m.count = []int{1000, 999, 65536, 2147483647}[g.r.Intn(4)]
		}
		m.gbit = g.r.Intn(3) == 0
	case k < 4:
		m.mode = 'G'
		m.ks, m.tb = g.name(), g.name()
	default:
		m.mode = 'C'
	}
	if m.mode != 'O' {
		n := g.r.Intn(maxCols + 1)
		for i := 0; i < n; i++ {
			c := colSpec{name: g.name(), t: g.typ(g.depth(), allowBad)}
			if m.mode == 'C' {
				c.ks, c.tb = g.name(), g.name()
			}
			m.cols = append(m.cols, c)
		}
	}
	return m
}

func (g *gen) field() optBytes {
	if g.r.Intn(4) == 0 {
		return optBytes{null: true}
	}
	return optBytes{b: g.blob(12)}
}

func (g *gen) cellFor(t *typeDesc) cell {
	if g.r.Intn(5) == 0 {
		return cell{kind: 'z'}
	}
	if t != nil && t.kind == 't' {
		c := cell{kind: 't'}
		for range t.sub {
			c.fields = append(c.fields, g.field())
		}
		return c
	}
	return cell{kind: 'b', b: g.blob(24)}
}

func (g *gen) rowsFor(m *meta, maxRows int) [][]cell {
	n := g.r.Intn(maxRows + 1)
	rows := make([][]cell, n)
	for i := range rows {
		if m.mode == 'O' {
			for j := 0; j < m.count && j < 8; j++ {
				rows[i] = append(rows[i], g.cellFor(nil))
			}
			continue
		}
		for _, c := range m.cols {
			rows[i] = append(rows[i], g.cellFor(c.t))
		}
	}
	return rows
}

func (g *gen) strList(max int) [][]byte {
	n := g.r.Intn(max + 1)
	l := make([][]byte, n)
	for i := range l {
		l[i] = g.name()
	}
	return l
}

func (g *gen) schemaChange(v int) *schemaChange {
	ch := [][]byte{[]byte("CREATED"), []byte("UPDATED"), []byte("DROPPED"), g.name()}[g.r.Intn(4)]
	s := &schemaChange{ch: ch, ks: g.name()}
	kinds := "KTUFA"
	if v <= 2 {
		kinds = "KT"
	}
	s.kind = kinds[g.r.Intn(len(kinds))]
	if s.kind != 'K' {
		s.name = g.name()
		if v <= 2 && len(s.name) == 0 {
			s.name = []byte("t")
		}
	}
	if s.kind == 'F' || s.kind == 'A' {
		s.args = g.strList(4)
	}
	return s
}

func (g *gen) addr() []byte {
	switch g.r.Intn(6) {
	case 0:
		return g.r.Bytes(16)
	case 1:
		// IPv4-mapped IPv6
		return append([]byte{0, 0, 0, 0, 0, 0, 0, 0, 0, 0, 0xff, 0xff}, g.r.Bytes(4)...)
	case 2:
		return make([]byte, 16)
	}
	return g.r.Bytes(4)
}

func addrKey(a []byte) string {
	if len(a) == 16 {
		z := true
		for i := 0; i < 10; i++ {
			if a[i] != 0 {
				z = false
			}
		}
		if z && a[10] == 0xff && a[11] == 0xff {
			return string(a[12:])
		}
	}
	return string(a)
}

func (g *gen) failures(v int) *failures {
	if v <= 4 {
		return &failures{count: g.int32()}
	}
	f := &failures{isMap: true}
	n := g.r.Intn(5)
	seen := map[string]bool{}
	for i := 0; i < n; i++ {
		a := g.addr()
		if seen[addrKey(a)] {
			continue
		}
		seen[addrKey(a)] = true
		f.reasons = append(f.reasons, reason{addr: a, code: g.short()})
	}
	return f
}

var simpleCodes = []int{0x0000, 0x000A, 0x0100, 0x1001, 0x1002, 0x1003, 0x2000, 0x2100, 0x2200, 0x2300}
var errKinds = []string{"S", "UNAV", "WTO", "RTO", "RF", "FF", "WF", "CDC", "CAS", "AE", "UNP"}
var writeTypes = []string{"SIMPLE", "BATCH", "UNLOGGED_BATCH", "COUNTER", "BATCH_LOG", "CAS", "VIEW", "CDC", ""}

func (g *gen) errBody(v int, ek string) *body {
	b := &body{kind: "ERR", msg: g.name(), ek: ek}
	if g.r.Intn(4) == 0 {
		b.msg = []byte("Cannot achieve consistency level QUORUM \xe2\x9c\x93")
	}
	b.cl, b.i1, b.i2 = g.short(), g.int32(), g.int32()
	b.dp = []int{0, 1, 2, 255, 128}[g.r.Intn(5)]
	switch ek {
	case "S":
		b.code = simpleCodes[g.r.Intn(len(simpleCodes))]
	case "WTO":
		b.s1 = []byte(writeTypes[g.r.Intn(len(writeTypes))])
	case "RF":
		b.fail = g.failures(v)
	case "WF":
		b.fail = g.failures(v)
		b.s1 = []byte(writeTypes[g.r.Intn(len(writeTypes))])
	case "FF":
		b.s1, b.s2, b.list = g.name(), g.name(), g.strList(4)
	case "AE":
		b.s1, b.s2 = g.name(), g.name()
	case "UNP":
		b.s1 = g.blob(20)
	}
	return b
}

func (g *gen) uniqueNames(max int) [][]byte {
	n := g.r.Intn(max + 1)
	seen := map[string]bool{}
	var l [][]byte
	for i := 0; i < n; i++ {
		k := g.name()
		if seen[string(k)] {
			continue
		}
		seen[string(k)] = true
		l = append(l, k)
	}
	return l
}

func (g *gen) preparedBody(v int, allowBad bool) *body {
	b := &body{kind: "RES", rk: "PREP", s1: g.blob(20)}
	b.m = g.meta(false, allowBad, 4)
	if v >= 4 {
		n := g.r.Intn(4)
		for i := 0; i < n; i++ {
			b.pk = append(b.pk, g.short())
		}
	}
	if v >= 2 {
		b.resp = g.meta(false, allowBad, 4)
	}
	return b
}

func (g *gen) rowsBody(allowBad bool) *body {
	b := &body{kind: "RES", rk: "ROWS"}
	b.m = g.meta(false, allowBad, 5)
	b.rows = g.rowsFor(b.m, 4)
	return b
}

// body of kind k (index into the list below)
var bodyKinds = []string{"ERR", "READY", "AUTH", "SUP", "VOID", "ROWS", "KS", "PREP", "SC", "TOPO", "STAT", "SCH", "CHAL", "SUCC"}

func (g *gen) body(v int, k string, allowBad bool) *body {
	switch k {
	case "ERR":
		return g.errBody(v, errKinds[g.r.Intn(len(errKinds))])
	case "READY":
		return &body{kind: "READY"}
	case "AUTH":
		return &body{kind: "AUTH", s1: [][]byte{[]byte("org.apache.cassandra.auth.PasswordAuthenticator"), g.name()}[g.r.Intn(2)]}
	case "SUP":
		b := &body{kind: "SUP"}
		b.keys = g.uniqueNames(4)
		if g.r.Bool() {
			b.keys = append([][]byte{[]byte("CQL_VERSION"), []byte("COMPRESSION")}, b.keys...)
			seen := map[string]bool{}
			var ks [][]byte
			for _, k := range b.keys {
				if !seen[string(k)] {
					seen[string(k)] = true
					ks = append(ks, k)
				}
			}
			b.keys = ks
		}
		for range b.keys {
			b.vals = append(b.vals, g.strList(3))
		}
		return b
	case "VOID":
		return &body{kind: "RES", rk: "VOID"}
	case "ROWS":
		return g.rowsBody(allowBad)
	case "KS":
		return &body{kind: "RES", rk: "KS", s1: g.name()}
	case "PREP":
		return g.preparedBody(v, allowBad)
	case "SC":
		return &body{kind: "RES", rk: "SC", sc: g.schemaChange(v)}
	case "TOPO", "STAT":
		ch := [][]byte{[]byte("NEW_NODE"), []byte("REMOVED_NODE"), []byte("UP"), []byte("DOWN"), g.name()}[g.r.Intn(5)]
		return &body{kind: "EV", evk: k, s1: ch, addr: g.addr(), port: g.int32()}
	case "SCH":
		return &body{kind: "EV", evk: "SCH", sc: g.schemaChange(v)}
	case "CHAL", "SUCC":
		t := optBytes{b: g.blob(30)}
		if g.r.Intn(4) == 0 {
			t = optBytes{null: true}
		}
		return &body{kind: k, tok: t}
	}
	panic("body kind " + k)
}

// envelope: header-level flags. strict = only what the spec allows for the version.
func (g *gen) resp(v int, b *body, strict bool) *lresp {
	r := &lresp{v: v, body: b}
	if b.kind == "EV" {
		r.stream = -1
	} else if v <= 2 {
		r.stream = g.r.Intn(128)
	} else {
		r.stream = g.r.Intn(32768)
	}
	if g.r.Intn(3) == 0 {
		t := g.r.Bytes(16)
		r.tracing = &t
	}
	if (v >= 4 || !strict) && g.r.Intn(3) == 0 {
		w := g.strList(3)
		if w == nil {
			w = [][]byte{}
		}
		r.warnings = &w
	}
	if (v >= 4 || !strict) && g.r.Intn(3) == 0 {
		keys := g.uniqueNames(3)
		p := make([]kv, len(keys))
		for i, k := range keys {
			p[i] = kv{k: k, v: g.field()}
		}
		r.payload = &p
	}
	if v == 5 {
		r.beta = g.r.Intn(4) != 0
	} else if !strict {
		r.beta = g.r.Intn(8) == 0
	}
	return r
}
