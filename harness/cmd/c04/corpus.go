package main

// corpus: recorded inputs that run first on every invocation: the witnesses of the known findings
// (model-vs-code ops: the model reproduces the defect, see the counterexample theorems in
// lean/Proofs/C04.lean) and the same page through the API that handles it correctly.
const (
	pageLogical = "4 1 N N N 0 RES ROWS N G 6b73 74 2 74 t 2 n 3 n 3 61 n 3 1 2 t 2 01 02 b 03"
	pageWire    = "84000001080000003a00000002000000010000000200026b7300017400017400310002000300030001610003000000010000000a000000010100000001020000000103"
)

var corpus = []string{
	// KF-C04-1: custom class name "ListType" (a bare collection marshal class): well-formed frame rejected
	"respx 4 4 1 N N N 0 RES ROWS N G 6b73 74 1 63 c 4c69737454797065 0 84000001080000002600000002000000010000000100026b73000174000163000000084c6973745479706500000000",
	// the page (t tuple<blob,blob>, a blob), row ((01,02),03): correct through Scan ...
	"rows scan A 4 " + pageLogical + " " + pageWire,
	// KF-C04-2: ... panics through the Scanner (tuple column not last)
	"rowsx scanner A 4 " + pageLogical + " " + pageWire,
	// KF-C04-3: nil destination on the tuple's first slot: 03 lands in the tuple's second slot
	"rowsx scan 011 4 " + pageLogical + " " + pageWire,
	// KF-C04-4: map<blob,int> column: RowData / MapScan / SliceMap panic in reflect.MapOf
	"rowsx slicemap A 4 4 1 N N N 0 RES ROWS N G 6b73 74 1 6d m n 3 n 9 0 84000001080000002000000002000000010000000100026b7300017400016d00210003000900000000",
	"rowsx mapscan A 4 4 1 N N N 0 RES ROWS N G 6b73 74 1 6d m n 3 n 9 0 84000001080000002000000002000000010000000100026b7300017400016d00210003000900000000",
	// skip-metadata through a real Session: prepared result metadata (column a blob), NO_METADATA page with paging state 0708
	"skip 4 4 1 N N N 0 RES PREP 01 0 N G 6b73 74 1 70 n 3 M N G 6b73 74 1 61 n 3 8400000108000000330000000400010100000001000000010000000000026b730001740001700003000000010000000100026b730001740001610003 ROWSRESP 4 1 N N N 0 RES ROWS Y 0708 O 1 0 1 1 b 78 84000001080000001b000000020000000600000001000000020708000000010000000178",
	// KF-C04-5: the page carries its own metadata (column b varchar) although the driver asked to skip it: ignored
	"skipx 4 4 1 N N N 0 RES PREP 01 0 N G 6b73 74 1 70 n 3 M N G 6b73 74 1 61 n 3 8400000108000000330000000400010100000001000000010000000000026b730001740001700003000000010000000100026b730001740001610003 ROWSRESP 4 1 N N N 0 RES ROWS N G 6b73 74 1 62 n 13 1 1 b 78 84000001080000002100000002000000010000000100026b73000174000162000d000000010000000178",
}
