package main

// corpus: recorded inputs that run first on every invocation: the witnesses of the repaired findings
// KF-C04-1, -2, -4, -5 as SPEC-BACKED ops (a checkout without the repairs disagrees on them: that is the
// regression the check must catch), the witness of the open finding KF-C04-3 as a model-vs-code op (the
// model reproduces the defect, see C04_cex_scan_nil_on_tuple in lean/Proofs/C04.lean), the witnesses of the open
// findings KF-C04-6 / KF-C04-7 about destinations reused across rows as model-vs-code ops (reusex).
const (
	pageLogical = "4 1 N N N 0 RES ROWS N G 6b73 74 2 74 t 2 n 3 n 3 61 n 3 1 2 t 2 01 02 b 03"
	pageWire    = "84000001080000003a00000002000000010000000200026b7300017400017400310002000300030001610003000000010000000a000000010100000001020000000103"
)

var corpus = []string{
	// KF-C04-1 (repaired): custom class name "ListType" (a bare collection marshal class) stays a custom type
	"resp 4 4 1 N N N 0 RES ROWS N G 6b73 74 1 63 c 4c69737454797065 0 84000001080000002600000002000000010000000100026b73000174000163000000084c6973745479706500000000",
	// the page (t tuple<blob,blob>, a blob), row ((01,02),03): correct through Scan ...
	"rows scan A 4 " + pageLogical + " " + pageWire,
	// KF-C04-2 (repaired): ... and through the Scanner (tuple column not last)
	"rows scanner A 4 " + pageLogical + " " + pageWire,
	// KF-C04-3: nil destination on the tuple's first slot: 03 lands in the tuple's second slot
	"rowsx scan 011 4 " + pageLogical + " " + pageWire,
	// KF-C04-4 (repaired): map<blob,int> column: no Go type, RowData / MapScan / SliceMap report an error (0 rows: a normal end; 1 row: error)
	"rows slicemap A 4 4 1 N N N 0 RES ROWS N G 6b73 74 1 6d m n 3 n 9 0 84000001080000002000000002000000010000000100026b7300017400016d00210003000900000000",
	"rows mapscan A 4 4 1 N N N 0 RES ROWS N G 6b73 74 1 6d m n 3 n 9 0 84000001080000002000000002000000010000000100026b7300017400016d00210003000900000000",
	"rows slicemap A 4 4 1 N N N 0 RES ROWS N G 6b73 74 1 6d m n 3 n 9 1 1 b 00000000 84000001080000002800000002000000010000000100026b7300017400016d002100030009000000010000000400000000",
	"rows mapscan A 4 4 1 N N N 0 RES ROWS N G 6b73 74 1 6d m n 3 n 9 1 1 b 00000000 84000001080000002800000002000000010000000100026b7300017400016d002100030009000000010000000400000000",
	// skip-metadata through a real Session: prepared result metadata (column a blob), NO_METADATA page with paging state 0708
	"skip 4 4 1 N N N 0 RES PREP 01 0 N G 6b73 74 1 70 n 3 M N G 6b73 74 1 61 n 3 8400000108000000330000000400010100000001000000010000000000026b730001740001700003000000010000000100026b730001740001610003 ROWSRESP 4 1 N N N 0 RES ROWS Y 0708 O 1 0 1 1 b 78 84000001080000001b000000020000000600000001000000020708000000010000000178",
	// KF-C04-5 (repaired): the page carries its own metadata (column b varchar) although the driver asked to skip it: it is used
	"skip 4 4 1 N N N 0 RES PREP 01 0 N G 6b73 74 1 70 n 3 M N G 6b73 74 1 61 n 3 8400000108000000330000000400010100000001000000010000000000026b730001740001700003000000010000000100026b730001740001610003 ROWSRESP 4 1 N N N 0 RES ROWS N G 6b73 74 1 62 n 13 1 1 b 78 84000001080000002100000002000000010000000100026b73000174000162000d000000010000000178",
	// KF-C04-6 (open): an empty blob cell into a reused []byte: empty non-nil after a value, nil after null
	"reusex scan Z 4 D 1 bytes 4 1 N N N 0 RES ROWS N G 6b73 74 1 63 n 3 2 1 b 61 1 b - 84000001080000002500000002000000010000000100026b73000174000163000300000002000000016100000000",
	"reusex scan Z 4 D 1 bytes 4 1 N N N 0 RES ROWS N G 6b73 74 1 63 n 3 2 1 null 1 b - 84000001080000002400000002000000010000000100026b73000174000163000300000002ffffffff00000000",
	// KF-C04-7 (open): a UDT value with fewer fields than the type into a reused struct keeps the previous row's field
	"reusex scan Z 4 D 1 ustruct 2 a k int b string 4 1 N N N 0 RES ROWS N G 6b73 74 1 63 u 6b73 75 2 61 n 9 62 n 13 2 1 b 00000004000000010000000178 1 b 0000000400000005 84000001080000004c00000002000000010000000100026b73000174000163003000026b7300017500020001610009000162000d000000020000000d00000004000000010000000178000000080000000400000005",
	"reusex scanner Z 4 D 1 ustruct 2 a k int b string 4 1 N N N 0 RES ROWS N G 6b73 74 1 63 u 6b73 75 2 61 n 9 62 n 13 2 1 b 00000004000000010000000178 1 b 0000000400000005 84000001080000004c00000002000000010000000100026b73000174000163003000026b7300017500020001610009000162000d000000020000000d00000004000000010000000178000000080000000400000005",
}
