package main

// corpus: recorded inputs that run first on every invocation (known findings, past disagreements)
var corpus = []string{}
