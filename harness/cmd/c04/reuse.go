// Typed destinations REUSED across the rows of a page (ops reuse / reusex).
//
//	reuse  <api> <init> <fv> D <n> <go type>*n <logical response> <wire>   spec-backed
//	reusex <api> <init> <fv> D <n> <go type>*n <logical response|RAW> <wire>   model-vs-code
//
// The destinations are real Go variables (`*[]byte`, `*string`, `*int`, `*int64`, `*bool`, `*time.Time`,
// `*gocql.UUID`, `*[]string`, `*map[string]int`, `**string`, `*interface{}`, ...; Go types in the token syntax of
// harness/valgen, which lean/Driver/C12.lean parses) created ONCE per page — zero values (init Z) or recognisable
// non-zero values (init D: the variables were used before) — and handed to EVERY Iter.Scan / Scanner.Scan of the page:
// the ordinary `var b []byte; for iter.Scan(&b) { ... }` loop. After every row the canonical value of every
// destination is recorded, nil and empty kept apart for slices, maps and pointers (valgen.Show).
//
// The cells are valid encodings of the column types (written here, independently of gocql), null, empty or — rarely —
// bytes of a wrong length, in every order across the rows: null after a value, a value after null, shorter after
// longer, empty after non-empty.
//
// Specification (lean/Driver/C04.lean reuseSpec, theorem C04_rows_independent): what a row delivers is what the row's
// cells say — every cell decoded on its own into a zero value — whatever the destinations held before.
// Excluded (reusex, class KF-C04-6/...): an EMPTY (zero-length, non-null) cell of an ascii / text / varchar / blob
// column scanned into an unnamed `[]byte` destination: unmarshalVarchar's `append((*v)[:0], data...)` gives nil when
// the destination was nil and an empty non-nil slice when it held a value (C04_cex_empty_cell_depends_on_history).
// A UDT value with fewer fields than the type into a reused struct (KF-C04-7, repaired: the fields the value does not
// carry are reset) is inside the specification: op reuse, class .../udt-short-value-resets-fields.
package main

import (
	"fmt"
	"reflect"
	"strconv"
	"strings"
	"time"

	"github.com/gocql/gocql"
	"verifharness/valgen"
	"verifharness/vh"
)

// ---- Go type tokens (the grammar of valgen.GT.String / lean/Driver/C12.lean pGoTy)

func gt(name string, elems ...*valgen.GT) *valgen.GT { return &valgen.GT{Name: name, Elems: elems} }
func gk(kind string) *valgen.GT                      { return &valgen.GT{Name: "k", Kind: kind} }
func gnk(kind string) *valgen.GT                     { return &valgen.GT{Name: "nk", Kind: kind} }

var goKinds = map[string]bool{"int": true, "int8": true, "int16": true, "int32": true, "int64": true,
	"uint": true, "uint8": true, "uint16": true, "uint32": true, "uint64": true}

func parseGT(w []string, i *int) *valgen.GT {
	next := func() string {
		if *i >= len(w) {
			panic("bad-op: gotype")
		}
		s := w[*i]
		*i++
		return s
	}
	t := next()
	switch t {
	case "k", "nk":
		k := next()
		if !goKinds[k] {
			panic("bad-op: kind")
		}
		return &valgen.GT{Name: t, Kind: k}
	case "ptr", "slice":
		return gt(t, parseGT(w, i))
	case "array":
		n := atoi(next())
		return &valgen.GT{Name: t, N: n, Elems: []*valgen.GT{parseGT(w, i)}}
	case "map":
		k := parseGT(w, i)
		v := parseGT(w, i)
		return gt(t, k, v)
	case "ifs", "struct":
		n := atoi(next())
		g := &valgen.GT{Name: t}
		for j := 0; j < n; j++ {
			g.Elems = append(g.Elems, parseGT(w, i))
		}
		return g
	case "ustruct":
		n := atoi(next())
		g := &valgen.GT{Name: t}
		for j := 0; j < n; j++ {
			g.Names = append(g.Names, next())
			g.Elems = append(g.Elems, parseGT(w, i))
		}
		return g
	case "string", "nstring", "bytes", "nbytes", "bool", "nbool", "f32", "nf32", "f64", "nf64", "big", "dec", "time",
		"dur", "cdur", "uuid", "a16", "ip", "iface", "umap":
		return gt(t)
	}
	panic("bad-op: gotype " + t)
}

// ---- what the variables hold before the first row (mirror of RowsReuse.dirtyOf)

func dirty(rv reflect.Value, g *valgen.GT) {
	switch g.Name {
	case "k", "nk":
		if g.Kind[0] == 'u' {
			rv.SetUint(7)
		} else {
			rv.SetInt(7)
		}
	case "string", "nstring":
		rv.SetString("x")
	case "bytes", "nbytes":
		rv.SetBytes([]byte{0xAA, 0xBB})
	case "bool", "nbool":
		rv.SetBool(true)
	case "time":
		rv.Set(reflect.ValueOf(time.Unix(1, 0).UTC()))
	case "dur":
		rv.SetInt(7)
	case "uuid", "a16":
		for i := 0; i < 16; i++ {
			rv.Index(i).SetUint(0x11)
		}
	case "ptr":
		p := reflect.New(rv.Type().Elem())
		dirty(p.Elem(), g.Elems[0])
		rv.Set(p)
	case "slice":
		s := reflect.MakeSlice(rv.Type(), 1, 1)
		dirty(s.Index(0), g.Elems[0])
		rv.Set(s)
	case "map":
		m := reflect.MakeMap(rv.Type())
		k := reflect.New(rv.Type().Key()).Elem()
		dirty(k, g.Elems[0])
		v := reflect.New(rv.Type().Elem()).Elem()
		dirty(v, g.Elems[1])
		m.SetMapIndex(k, v)
		rv.Set(m)
	case "array":
		for i := 0; i < rv.Len(); i++ {
			dirty(rv.Index(i), g.Elems[0])
		}
	case "struct", "ustruct":
		for i := 0; i < rv.NumField(); i++ {
			dirty(rv.Field(i), g.Elems[i])
		}
	}
}

// ---- the real code

func execReuse(api, init string, fv int, gts []*valgen.GT, wire []byte) string {
	it, err := gocql.VerifC04Iter(byte(fv), wire)
	if err != nil {
		return "err"
	}
	out := "ok M:" + gocql.VerifC04IterMeta(it, byte(fv))
	n := it.NumRows()
	// the destination variables: created once, reused for every row
	vars := make([]reflect.Value, len(gts))
	dests := make([]interface{}, len(gts))
	for i, g := range gts {
		vars[i] = reflect.New(g.RType())
		if init == "D" {
			dirty(vars[i].Elem(), g)
		}
		dests[i] = vars[i].Interface()
	}
	show := func() string {
		p := make([]string, len(vars))
		for i, v := range vars {
			p[i] = valgen.Show(v.Elem())
		}
		return strings.Join(p, ";")
	}
	var rows []string
	switch api {
	case "scan":
		for i := 0; i <= n; i++ {
			if !it.Scan(dests...) {
				if failed, _, _ := gocql.VerifC04IterState(it); failed {
					rows = append(rows, "!")
				}
				break
			}
			rows = append(rows, show())
		}
		return out + " rows:[" + strings.Join(rows, "|") + "] " + iterEnd(it)
	case "mapscan":
		// the documented use of MapScan with pointers: a NEW map on every call, pointing at the SAME variables
		for i := 0; i <= n; i++ {
			rd, _ := it.RowData()
			m := make(map[string]interface{}, len(dests))
			if len(rd.Columns) == len(dests) {
				for j, c := range rd.Columns {
					m[c] = dests[j]
				}
			}
			if !it.MapScan(m) {
				if failed, _, _ := gocql.VerifC04IterState(it); failed {
					rows = append(rows, "!")
				}
				break
			}
			rows = append(rows, show())
		}
		return out + " rows:[" + strings.Join(rows, "|") + "] " + iterEnd(it)
	case "scanner":
		sc := it.Scanner()
		status := "done"
		for sc.Next() {
			if err := sc.Scan(dests...); err != nil {
				rows = append(rows, "!")
				status = "scanerr"
				break
			}
			rows = append(rows, show())
		}
		e := "0"
		if sc.Err() != nil {
			e = "1"
		}
		return out + " rows:[" + strings.Join(rows, "|") + "] " + status + " err:" + e
	}
	return "bad-op"
}

// reuse <api> <init> <fv> D <n> <gotypes> ... <wire>
func execReuseOp(w []string) string {
	if len(w) < 7 || w[4] != "D" {
		return "bad-op"
	}
	n := atoi(w[5])
	i := 6
	gts := make([]*valgen.GT, n)
	for j := range gts {
		gts[j] = parseGT(w, &i)
	}
	return execReuse(w[1], w[2], atoi(w[3]), gts, unhex(w[len(w)-1]))
}

// ---- generators: column types with a typed decode model, destinations, cells

const (
	idAscii, idBigint, idBlob, idBoolean, idCounter, idDecimal, idDouble, idFloat, idInt, idText = 1, 2, 3, 4, 5, 6, 7, 8, 9, 0x0A
	idTimestamp, idUUID, idVarchar, idVarint, idTimeUUID, idInet, idDate, idTime, idSmallint     = 0x0B, 0x0C, 0x0D, 0x0E, 0x0F, 0x10, 0x11, 0x12, 0x13
	idTinyint, idDuration                                                                        = 0x14, 0x15
)

func isTextID(id int) bool { return id == idAscii || id == idBlob || id == idText || id == idVarchar }

var reuseScalarIDs = []int{idBlob, idBlob, idVarchar, idVarchar, idAscii, idText, idInt, idInt, idBigint, idBigint, idBoolean, idTimestamp,
	idUUID, idCounter, idDecimal, idDouble, idFloat, idVarint, idTimeUUID, idInet, idDate, idTime, idSmallint, idTinyint, idDuration}

var reuseKeyIDs = []int{idVarchar, idVarchar, idInt, idBigint, idUUID, idBoolean, idAscii}

func nat(id int) *typeDesc { return &typeDesc{kind: 'n', id: id} }

var fieldNames = []string{"a", "b", "c", "f0", "x1", "name", "id", "v"}

// reuseType: a column type; top: tuple / UDT allowed (a tuple column expands into one destination per element)
func (g *gen) reuseType(depth int, top bool) *typeDesc {
	k := g.r.Intn(100)
	if k < 4 && !g.odd {
		k = 10
	}
	switch {
	case k < 4:
		// (only as a column type or a tuple element, where the type is the type of one Unmarshal call, and not on
		// MapScan pages: RowData needs a Go type for every column)
		// a custom option: a class the driver maps to a native type (decoded like it), a class it does not know and
		// an unknown option id (Unmarshal has no case: every non-null cell is an error; `**T` still takes null)
		switch g.r.Intn(4) {
		case 0:
			return &typeDesc{kind: 'c', cls: []byte(marshalPrefix + []string{"Int32Type", "UTF8Type", "BytesType", "LongType", "BooleanType", "UUIDType"}[g.r.Intn(6)])}
		case 1:
			return &typeDesc{kind: 'c', cls: []byte([]string{"Int32Type", "UTF8Type", "BytesType"}[g.r.Intn(3)])}
		case 2:
			return &typeDesc{kind: 'c', cls: []byte("com.example.MyType")}
		}
		return nat([]int{0x16, 0x1F, 0x100}[g.r.Intn(3)])
	case k < 64 || depth <= 0:
		return nat(reuseScalarIDs[g.r.Intn(len(reuseScalarIDs))])
	case k < 76:
		defer func(o bool) { g.odd = o }(g.odd)
		g.odd = false
		return &typeDesc{kind: []byte("ls")[g.r.Intn(2)], sub: []*typeDesc{g.reuseType(depth-1, false)}}
	case k < 84:
		defer func(o bool) { g.odd = o }(g.odd)
		g.odd = false
		return &typeDesc{kind: 'm', sub: []*typeDesc{nat(reuseKeyIDs[g.r.Intn(len(reuseKeyIDs))]), g.reuseType(depth-1, false)}}
	case k < 93 && top:
		n := 1 + g.r.Intn(3)
		t := &typeDesc{kind: 't'}
		for i := 0; i < n; i++ {
			t.sub = append(t.sub, g.reuseType(depth-1, false))
		}
		return t
	case top:
		defer func(o bool) { g.odd = o }(g.odd)
		g.odd = false
		n := 1 + g.r.Intn(3)
		t := &typeDesc{kind: 'u', ks: []byte("ks"), nm: []byte("u")}
		p := g.r.Intn(len(fieldNames))
		for i := 0; i < n; i++ {
			t.fnames = append(t.fnames, []byte(fieldNames[(p+i)%len(fieldNames)]))
			t.sub = append(t.sub, g.reuseType(0, false))
		}
		return t
	}
	return nat(reuseScalarIDs[g.r.Intn(len(reuseScalarIDs))])
}

func pickGT(r *vh.Rng, l ...*valgen.GT) *valgen.GT { return l[r.Intn(len(l))] }

var intKinds = []string{"int", "int64", "int32", "int16", "int8", "uint", "uint64", "uint32", "uint16", "uint8"}

// destFor: a Go destination type for a column / element / field of type t: mostly a documented target (marshal.go
// 193-224), sometimes a pointer to one (`**T`: null is nil), rarely one Unmarshal refuses. key: must be comparable.
// asNative: the native type the driver sees for a custom option (0: stays custom — Unmarshal has no case for it)
func asNative(t *typeDesc) *typeDesc {
	if t.kind == 'c' {
		return nat(customType(t.cls))
	}
	return t
}

func (g *gen) destFor(t *typeDesc, key bool) *valgen.GT {
	r := g.r
	var d *valgen.GT
	t = asNative(t)
	switch t.kind {
	case 'n':
		switch t.id {
		case idAscii, idBlob, idText, idVarchar:
			if key {
				return pickGT(r, gt("string"), gt("string"), gt("nstring"))
			}
			d = pickGT(r, gt("bytes"), gt("bytes"), gt("bytes"), gt("string"), gt("string"), gt("nbytes"), gt("nstring"))
		case idInt, idBigint, idCounter, idSmallint, idTinyint:
			switch r.Intn(10) {
			case 0:
				d = gt("big")
			case 1:
				d = gt("string")
			case 2:
				d = gnk(intKinds[r.Intn(len(intKinds))])
			case 3, 4:
				d = gk(intKinds[r.Intn(len(intKinds))])
			default:
				d = pickGT(r, gk("int"), gk("int64"))
			}
			if key && d.Name == "big" {
				d = gk("int")
			}
		case idVarint:
			d = pickGT(r, gt("big"), gt("big"), gk("int64"), gk("int"), gk("uint64"))
			if key {
				d = gk("int64")
			}
		case idBoolean:
			d = pickGT(r, gt("bool"), gt("bool"), gt("nbool"))
		case idFloat:
			d = pickGT(r, gt("f32"), gt("f32"), gt("nf32"))
		case idDouble:
			d = pickGT(r, gt("f64"), gt("f64"), gt("nf64"))
		case idDecimal:
			d = gt("dec")
		case idTimestamp:
			d = pickGT(r, gt("time"), gt("time"), gt("time"), gk("int64"), gt("dur"))
		case idUUID, idTimeUUID:
			if key {
				return pickGT(r, gt("uuid"), gt("a16"), gt("string"))
			}
			d = pickGT(r, gt("uuid"), gt("uuid"), gt("uuid"), gt("a16"), gt("string"), gt("bytes"))
		case idInet:
			d = pickGT(r, gt("ip"), gt("string"))
		case idDate:
			d = gt("time")
		case idTime:
			d = pickGT(r, gt("dur"), gk("int64"))
		case idDuration:
			d = gt("cdur")
		default:
			d = gt("bytes")
		}
		if key {
			return d
		}
		switch r.Intn(14) {
		case 0, 1:
			return gt("ptr", d) // **T
		case 2:
			if r.Intn(3) == 0 {
				x := pickGT(r, gt("iface"), gk("int"), gt("string"), gt("bytes"), gt("bool"), gt("time"), gt("uuid")) // often refused
				if (t.id == idDate && x.Name == "string") || (t.id == idTimeUUID && x.Name == "time") {
					x = gt("iface") // combinations the decode model of C12 does not describe (Go's date / uuid-time formatting)
				}
				return x
			}
		}
		return d
	case 'l', 's':
		e := g.destFor(t.sub[0], false)
		if (e.Name == "k" || e.Name == "nk") && e.Kind == "uint8" {
			e = &valgen.GT{Name: e.Name, Kind: "uint16"} // a slice of a uint8 kind is printed (and partly treated) as []byte
		}
		if e.Name == "iface" {
			e = gt("nstring") // []interface{} is the tuple target
		}
		d = gt("slice", e)
		switch r.Intn(8) {
		case 0:
			return gt("ptr", d)
		case 1:
			if !key && g.inplace {
				// `*[n]T`: the elements are unmarshalled in place; the column's values mostly carry n elements
				n := r.Intn(4)
				g.count[t] = n
				return &valgen.GT{Name: "array", N: n, Elems: []*valgen.GT{e}}
			}
		}
		return d
	case 'm':
		e := g.destFor(t.sub[1], false)
		if e.Name == "iface" {
			e = gt("nstring") // map[string]interface{} is the UDT target
		}
		d = gt("map", g.destFor(t.sub[0], true), e)
		if r.Intn(8) == 0 {
			return gt("ptr", d)
		}
		return d
	case 'u':
		if !g.inplace {
			return gt("umap")
		}
		switch k := r.Intn(10); {
		case k < 4:
			return gt("umap")
		case k < 9:
			// a struct with cql tags: a permutation of a subset of the UDT's fields, sometimes a field the UDT lacks
			d = &valgen.GT{Name: "ustruct"}
			p := r.Intn(len(t.sub))
			for i := range t.sub {
				j := (p + i) % len(t.sub)
				if r.Intn(5) == 0 {
					continue
				}
				d.Names = append(d.Names, string(t.fnames[j]))
				d.Elems = append(d.Elems, g.destFor(t.sub[j], false))
			}
			if r.Intn(4) == 0 || len(d.Elems) == 0 {
				d.Names = append(d.Names, "zz")
				d.Elems = append(d.Elems, pickGT(r, gt("string"), gk("int"), gt("bytes")))
			}
			return d
		}
		// a struct without tags: every field of the value is read and skipped
		return gt("struct", pickGT(r, gt("string"), gk("int")), gt("bytes"))
	}
	return gt("bytes")
}

func be(n int, v int64) []byte {
	b := make([]byte, n)
	for i := n - 1; i >= 0; i-- {
		b[i] = byte(v)
		v >>= 8
	}
	return b
}

// millisecond timestamps: the bounds of int64 nanoseconds (time.Time.UnixNano / time.Unix(0, ns): 1677-09-21 ..
// 2262-04-11) and of int64 microseconds, +-2^53 (float64), years 0 / 1 / 1600 / 9999 / 10000, the ends of int64 (the
// generator adds -1 / 0 / +1 with wrap-around)
var msPool = []int64{9223372036854, -9223372036854, 9223372036855, -9223372036855, 9223372036854775, -9223372036854775,
	1 << 53, -(1 << 53), -62167219200000, -62135596800000, -11676096000000, 253402300799999, 253402300800000,
	9223372036854775807, -9223372036854775808, 9223372036854775, 4294967296000, -4294967296000, 999, -999}

var int64Pool = []int64{0, 1, -1, 127, 128, -128, -129, 255, 256, 32767, 32768, -32768, 65535, 2147483647, -2147483648, 2147483648,
	4294967295, 9223372036854775807, -9223372036854775808, 1000, 1700000000000, -62135596800000}

func (g *gen) i64() int64 {
	switch g.r.Intn(3) {
	case 0:
		return int64Pool[g.r.Intn(len(int64Pool))]
	case 1:
		return int64(g.r.Intn(2000)) - 1000
	}
	return int64(g.r.U64())
}

func zigzagVint(v int64) []byte {
	u := uint64(v<<1) ^ uint64(v>>63)
	// Cassandra vint: number of leading 1 bits of the first byte = number of extra bytes
	n := 0
	for x := u >> 7; x != 0 && n < 8; x >>= 7 {
		n++
	}
	if n == 8 {
		out := []byte{0xFF}
		return append(out, be(8, int64(u))...)
	}
	b := be(n+1, int64(u))
	b[0] |= byte(0xFF << uint(8-n))
	return b
}

func (g *gen) collSize(proto, n int) []byte {
	if proto > 2 {
		return be(4, int64(n))
	}
	return be(2, int64(n))
}

func (g *gen) collItem(proto int, t *typeDesc, allowNull bool) []byte {
	if allowNull && proto > 2 && g.r.Intn(8) == 0 {
		return be(4, -1)
	}
	var v []byte
	if g.r.Intn(8) != 0 {
		v = g.encVal(proto, t)
	}
	if proto <= 2 && len(v) > 65535 {
		v = v[:10]
	}
	return append(g.collSize(proto, len(v)), v...)
}

// encVal: the encoding of a random value of the type (never null; possibly empty for strings / collections)
func (g *gen) encVal(proto int, t *typeDesc) []byte {
	r := g.r
	t = asNative(t)
	switch t.kind {
	case 'n':
		switch t.id {
		case idAscii, idText, idVarchar:
			n := 1 + r.Intn(10)
			b := make([]byte, n)
			for i := range b {
				b[i] = identChars[r.Intn(len(identChars))]
			}
			if t.id != idAscii && r.Intn(4) == 0 {
				b = append(b, 0xe2, 0x9c, 0x93)
			}
			return b
		case idBlob:
			return r.Bytes(1 + r.Intn(12))
		case idBigint, idCounter, idTime:
			return be(8, g.i64())
		case idTimestamp:
			switch r.Intn(3) {
			case 0:
				return be(8, int64(r.Intn(2000000000))*1000+int64(r.Intn(1000)))
			case 1:
				// milliseconds at the magnitudes where a conversion through another unit goes wrong
				return be(8, msPool[r.Intn(len(msPool))]+int64(r.Intn(3))-1)
			}
			return be(8, g.i64())
		case idInt, idDate:
			return be(4, g.i64())
		case idSmallint:
			return be(2, g.i64())
		case idTinyint:
			return be(1, g.i64())
		case idBoolean:
			return []byte{[]byte{0, 1, 1, 2, 0xff}[r.Intn(5)]}
		case idDouble:
			return be(8, g.i64())
		case idFloat:
			return be(4, g.i64())
		case idDecimal:
			return append(be(4, int64(r.Intn(40))-10), be(1+r.Intn(9), g.i64())...)
		case idVarint:
			return be(1+r.Intn(9), g.i64())
		case idUUID:
			return r.Bytes(16)
		case idTimeUUID:
			b := r.Bytes(16)
			b[6] = 0x10 | b[6]&0x0f
			b[8] = 0x80 | b[8]&0x3f
			return b
		case idInet:
			if r.Bool() {
				return r.Bytes(4)
			}
			if r.Intn(4) == 0 {
				return append([]byte{0, 0, 0, 0, 0, 0, 0, 0, 0, 0, 0xff, 0xff}, r.Bytes(4)...)
			}
			return r.Bytes(16)
		case idDuration:
			m, d := int64(r.Intn(100)), int64(r.Intn(400))
			if r.Bool() {
				m, d = -m, -d
			}
			ns := g.i64()
			if (m < 0 || d < 0) && ns > 0 {
				ns = -ns
			}
			if (m > 0 || d > 0) && ns < 0 {
				ns = -(ns + 1)
			}
			return append(append(zigzagVint(m), zigzagVint(d)...), zigzagVint(ns)...)
		}
		return r.Bytes(1 + r.Intn(4))
	case 'l', 's':
		n := r.Intn(4)
		if c, ok := g.count[t]; ok && r.Intn(6) != 0 {
			n = c
		}
		b := g.collSize(proto, n)
		for i := 0; i < n; i++ {
			b = append(b, g.collItem(proto, t.sub[0], true)...)
		}
		return b
	case 'm':
		n := r.Intn(4)
		b := g.collSize(proto, n)
		for i := 0; i < n; i++ {
			b = append(b, g.collItem(proto, t.sub[0], false)...)
			b = append(b, g.collItem(proto, t.sub[1], true)...)
		}
		return b
	case 'u':
		// a UDT value may carry fewer fields than the type has (fields added to the type later)
		n := len(t.sub)
		if r.Intn(3) == 0 {
			n = r.Intn(n + 1)
		}
		var w enc
		for i := 0; i < n; i++ {
			w.bytes(g.fieldFor(proto, t.sub[i]))
		}
		return w.b
	}
	return nil
}

// fieldFor: a [bytes] value of the type: null / empty / a value / (rarely) bytes of a wrong length
func (g *gen) fieldFor(proto int, t *typeDesc) optBytes {
	switch k := g.r.Intn(100); {
	case k < 28:
		return optBytes{null: true}
	case k < 40:
		return optBytes{b: []byte{}}
	case k < 43:
		return optBytes{b: g.r.Bytes(1 + g.r.Intn(5))}
	}
	return optBytes{b: g.encVal(proto, t)}
}

func (g *gen) reuseCell(proto int, t *typeDesc) cell {
	if t.kind == 't' {
		if g.r.Intn(6) == 0 {
			return cell{kind: 'z'}
		}
		c := cell{kind: 't'}
		for _, e := range t.sub {
			c.fields = append(c.fields, g.fieldFor(proto, e))
		}
		if g.shortTuples && g.r.Intn(3) == 0 {
			// fewer fields than elements: the driver reads the missing trailing elements as null
			c.fields = c.fields[:g.r.Intn(len(c.fields))]
			if len(c.fields) == 0 {
				c.fields = []optBytes{}
			}
		}
		return c
	}
	f := g.fieldFor(proto, t)
	if f.null {
		return cell{kind: 'z'}
	}
	return cell{kind: 'b', b: f.b}
}

// ---- classification: the excluded condition of C04_rows_independent_partial

// destination slots of the page in order: (element type, destination type)
type slot struct {
	t *typeDesc
	g *valgen.GT
}

// the [bytes] a row delivers to each slot (nil pointer = null)
func rowItems(cols []colSpec, row []cell) []optBytes {
	var items []optBytes
	for i, c := range cols {
		cl := row[i]
		if c.t.kind == 't' {
			for j := range c.t.sub {
				switch {
				case cl.kind == 'z' || j >= len(cl.fields):
					items = append(items, optBytes{null: true})
				default:
					items = append(items, cl.fields[j])
				}
			}
			continue
		}
		if cl.kind == 'z' {
			items = append(items, optBytes{null: true})
		} else {
			items = append(items, optBytes{b: cl.b})
		}
	}
	return items
}

// sensitive: an EMPTY non-null cell of a text-family column into an unnamed []byte destination
func sensitive(s slot, it optBytes) bool {
	t := asNative(s.t)
	return s.g.Name == "bytes" && t.kind == 'n' && isTextID(t.id) && !it.null && len(it.b) == 0
}

// inplace: a destination whose parts Unmarshal fills in place (`*[n]T`, a struct): model-vs-code
func inplace(g *valgen.GT) bool {
	return g.Name == "array" || g.Name == "struct" || g.Name == "ustruct"
}

// cqlKnown: Unmarshal's switch has a case for the type and for every type under it (C04Reuse: `cqlOf t ≠ none`)
func cqlKnown(t *typeDesc) bool {
	t = asNative(t)
	switch t.kind {
	case 'n':
		return t.id >= 1 && t.id <= 0x15
	case 'c':
		return false
	}
	for _, s := range t.sub {
		if !cqlKnown(s) {
			return false
		}
	}
	return true
}

// compositeSensitive mirrors C04Reuse.sensitive on `*[n]T` / struct destinations (the excluded condition of the
// `C04_rows_independent…_partial` theorems): false exactly when the theorems say the value left in the destination
// does not depend on what it held —
//   - list / set into [n]T: the element type T never looks at the element it replaces (not an unnamed []byte of a
//     text-family element type, not [n]T / a struct);
//   - UDT into a struct: the value is null / empty (the struct is reset), or EVERY field of the struct is named by a
//     field of the type the loop reaches — written from the value, or (the value carries fewer fields than the type:
//     repair of KF-C04-7) reset to its zero value — and no written field is an empty text-family value into an
//     unnamed []byte / a nested [n]T / struct. A struct field no field of the type names (nothing writes it) stays
//     model-vs-code.
func compositeSensitive(s slot, it optBytes) bool {
	if !cqlKnown(s.t) {
		return true
	}
	t := s.t
	switch s.g.Name {
	case "array":
		if t.kind != 'l' && t.kind != 's' {
			return true
		}
		e := s.g.Elems[0]
		if inplace(e) {
			return true
		}
		et := asNative(t.sub[0])
		return e.Name == "bytes" && et.kind == 'n' && isTextID(et.id)
	case "struct", "ustruct":
		if t.kind != 'u' {
			return true
		}
		if it.null || len(it.b) == 0 {
			return false
		}
		var names []string
		if s.g.Name == "ustruct" {
			names = s.g.Names
		}
		written := make([]bool, len(s.g.Elems)) // by a field of the value
		zeroed := make([]bool, len(s.g.Elems))  // by the reset of the fields the value does not carry
		lookup := func(name string) int {
			for k, nm := range names {
				if nm == name {
					return k
				}
			}
			return -1
		}
		data := it.b
		for i := range t.sub {
			if len(data) == 0 {
				// the value carries fewer fields than the type: the struct fields the remaining fields name are reset
				for _, nm := range t.fnames[i:] {
					idx := lookup(string(nm))
					if idx < 0 || idx >= len(s.g.Elems) {
						continue
					}
					if written[idx] {
						return true // the type names one struct field twice (C04Reuse.zeroMask: none)
					}
					zeroed[idx] = true
				}
				break
			}
			if len(data) < 4 {
				break
			}
			n := int(int32(uint32(data[0])<<24 | uint32(data[1])<<16 | uint32(data[2])<<8 | uint32(data[3])))
			data = data[4:]
			item := optBytes{null: true}
			if n >= 0 {
				if len(data) < n {
					break
				}
				item = optBytes{b: data[:n]}
				data = data[n:]
			}
			idx := lookup(string(t.fnames[i]))
			if idx < 0 || idx >= len(s.g.Elems) {
				continue
			}
			f := s.g.Elems[idx]
			if inplace(f) || sensitive(slot{t.sub[i], f}, item) {
				return true
			}
			written[idx] = true
		}
		for k := range written {
			if !written[k] && !zeroed[k] {
				return true
			}
		}
		return false
	}
	return true
}

// udtShort: a non-empty UDT value that carries fewer fields than the type, into a struct (the inputs of KF-C04-7)
func udtShort(s slot, it optBytes) bool {
	if s.t.kind != 'u' || (s.g.Name != "struct" && s.g.Name != "ustruct") || it.null || len(it.b) == 0 {
		return false
	}
	data := it.b
	for range s.t.sub {
		if len(data) == 0 {
			return true
		}
		if len(data) < 4 {
			return false
		}
		n := int(int32(uint32(data[0])<<24 | uint32(data[1])<<16 | uint32(data[2])<<8 | uint32(data[3])))
		data = data[4:]
		if n >= 0 {
			if len(data) < n {
				return false
			}
			data = data[n:]
		}
	}
	return false
}

func reuseClass(api, init string, slots []slot, cols []colSpec, rows [][]cell) (op, class string) {
	for _, row := range rows {
		for i, c := range cols {
			if c.t.kind == 't' && row[i].kind == 't' && len(row[i].fields) != len(c.t.sub) {
				return "reusex", "reuse/" + api + "/short-tuple"
			}
		}
	}
	comp := false
	for _, s := range slots {
		if inplace(s.g) {
			comp = true
		}
	}
	for _, row := range rows {
		for j, it := range rowItems(cols, row) {
			if inplace(slots[j].g) && compositeSensitive(slots[j], it) {
				return "reusex", "reuse/" + api + "/inplace-composite"
			}
		}
	}
	nav := false   // a null after a value in some destination
	short := false // a UDT value with fewer fields than the type into a struct (after an earlier row / in a used struct)
	last := make([]bool, len(slots))
	for ri, row := range rows {
		for j, it := range rowItems(cols, row) {
			if (ri > 0 || init == "D") && udtShort(slots[j], it) {
				short = true
			}
			if !inplace(slots[j].g) && sensitive(slots[j], it) {
				return "reusex", "KF-C04-6/empty-cell-into-reused-bytes"
			}
			if it.null && last[j] {
				nav = true
			}
			last[j] = !it.null
		}
	}
	class = "reuse/" + api + "/" + init
	if comp {
		class += "/composite-all-parts-written"
	}
	if short {
		class += "/udt-short-value-resets-fields"
	}
	if nav {
		class += "/null-after-value"
	}
	return "reuse", class
}

func (x *runner) reuseOps(v int, mult int) {
	g := x.g
	for rep := 0; rep < 120*mult; rep++ {
		api := []string{"scan", "scanner", "scan", "scanner", "mapscan"}[rep%5]
		init := "Z"
		if g.r.Intn(3) == 0 {
			init = "D"
		}
		m := &meta{mode: 'G', ks: []byte("ks"), tb: []byte("t")}
		if g.r.Intn(4) == 0 {
			m.mode = 'C'
		}
		ncols := 1 + g.r.Intn(4)
		g.inplace = g.r.Intn(5) == 0
		g.odd = api != "mapscan"
		g.shortTuples = g.r.Intn(12) == 0
		g.count = map[*typeDesc]int{}
		var slots []slot
		for i := 0; i < ncols; i++ {
			c := colSpec{name: []byte("c" + strconv.Itoa(i)), t: g.reuseType(2, true)}
			if m.mode == 'C' {
				c.ks, c.tb = []byte("ks"), []byte("t")
			}
			m.cols = append(m.cols, c)
			if c.t.kind == 't' {
				for _, e := range c.t.sub {
					slots = append(slots, slot{e, g.destFor(e, false)})
				}
			} else {
				slots = append(slots, slot{c.t, g.destFor(c.t, false)})
			}
		}
		b := &body{kind: "RES", rk: "ROWS", m: m}
		nrows := g.r.Intn(7)
		for i := 0; i < nrows; i++ {
			var row []cell
			for _, c := range m.cols {
				row = append(row, g.reuseCell(v, c.t))
			}
			b.rows = append(b.rows, row)
		}
		r := g.resp(v, b, true)
		op, class := reuseClass(api, init, slots, m.cols, b.rows)
		var dt []string
		for _, s := range slots {
			dt = append(dt, s.g.String())
		}
		if g.r.Intn(40) == 0 && api != "mapscan" {
			// one destination too few / too many: Scan fails on the first row ("not enough columns to scan into")
			if g.r.Bool() && len(dt) > 1 {
				dt = dt[:len(dt)-1]
			} else {
				dt = append(dt, "string")
			}
			op, class = "reusex", "reuse/"+api+"/dest-count"
		}
		x.emit(fmt.Sprintf("%s %s %s %d D %d %s %s %s", op, api, init, v, len(dt), strings.Join(dt, " "),
			strings.Join(r.toks(), " "), vh.Hex(r.encFrame())), class)
	}
}

// ---- the systematic part: every listed destination kind x fixed orders of value / null / empty cells

type sysCase struct {
	t     *typeDesc
	dests [][]*valgen.GT // alternatives; one Go type per destination slot of the column
}

func one(l ...*valgen.GT) [][]*valgen.GT {
	r := make([][]*valgen.GT, len(l))
	for i, g := range l {
		r[i] = []*valgen.GT{g}
	}
	return r
}

func list(kind byte, e *typeDesc) *typeDesc { return &typeDesc{kind: kind, sub: []*typeDesc{e}} }

func sysCases() []sysCase {
	ptr := func(g *valgen.GT) *valgen.GT { return gt("ptr", g) }
	udt := &typeDesc{kind: 'u', ks: []byte("ks"), nm: []byte("u"), fnames: [][]byte{[]byte("a"), []byte("b"), []byte("c")},
		sub: []*typeDesc{nat(idInt), nat(idVarchar), nat(idBlob)}}
	return []sysCase{
		{nat(idBlob), one(gt("bytes"), gt("nbytes"), gt("string"), gt("nstring"), ptr(gt("bytes")), ptr(gt("string")), gt("iface"))},
		{nat(idVarchar), one(gt("bytes"), gt("string"), gt("nstring"), ptr(gt("string")), ptr(ptr(gt("string"))))},
		{nat(idAscii), one(gt("bytes"), gt("string"))},
		{nat(idText), one(gt("bytes"), gt("string"))},
		{nat(idInt), one(gk("int"), gk("int64"), gk("int32"), gk("uint32"), gnk("int"), ptr(gk("int")), gt("big"), gt("string"))},
		{nat(idBigint), one(gk("int64"), gk("int"), gk("uint64"), ptr(gk("int64")), gt("big"))},
		{nat(idCounter), one(gk("int64"))},
		{nat(idSmallint), one(gk("int16"), gk("int"))},
		{nat(idTinyint), one(gk("int8"), gk("int"))},
		{nat(idVarint), one(gt("big"), gk("int64"), ptr(gt("big")))},
		{nat(idBoolean), one(gt("bool"), gt("nbool"), ptr(gt("bool")))},
		{nat(idFloat), one(gt("f32"), ptr(gt("f32")))},
		{nat(idDouble), one(gt("f64"), ptr(gt("f64")))},
		{nat(idDecimal), one(gt("dec"), ptr(gt("dec")))},
		{nat(idTimestamp), one(gt("time"), ptr(gt("time")), gk("int64"))},
		{nat(idDate), one(gt("time"))},
		{nat(idTime), one(gt("dur"), gk("int64"))},
		{nat(idDuration), one(gt("cdur"), ptr(gt("cdur")))},
		{nat(idUUID), one(gt("uuid"), gt("a16"), gt("string"), gt("bytes"), ptr(gt("uuid")))},
		{nat(idTimeUUID), one(gt("uuid"), gt("string"), gt("bytes"))},
		{nat(idInet), one(gt("ip"), gt("string"), ptr(gt("ip")))},
		{list('l', nat(idVarchar)), one(gt("slice", gt("string")), gt("slice", gt("bytes")), ptr(gt("slice", gt("string"))), gt("slice", ptr(gt("string"))),
			&valgen.GT{Name: "array", N: 2, Elems: []*valgen.GT{gt("string")}}, &valgen.GT{Name: "array", N: 2, Elems: []*valgen.GT{gt("bytes")}})},
		{list('s', nat(idInt)), one(gt("slice", gk("int")), gt("slice", ptr(gk("int"))), &valgen.GT{Name: "array", N: 2, Elems: []*valgen.GT{gk("int")}})},
		{list('l', list('l', nat(idBlob))), one(gt("slice", gt("slice", gt("bytes"))))},
		{&typeDesc{kind: 'm', sub: []*typeDesc{nat(idVarchar), nat(idInt)}}, one(gt("map", gt("string"), gk("int")), ptr(gt("map", gt("string"), gk("int"))),
			gt("map", gt("nstring"), ptr(gk("int"))))},
		{&typeDesc{kind: 'm', sub: []*typeDesc{nat(idInt), list('l', nat(idBlob))}}, one(gt("map", gk("int"), gt("slice", gt("bytes"))))},
		{&typeDesc{kind: 't', sub: []*typeDesc{nat(idBlob), nat(idInt), nat(idVarchar)}}, [][]*valgen.GT{
			{gt("bytes"), gk("int"), gt("string")}, {ptr(gt("bytes")), ptr(gk("int")), ptr(gt("string"))}, {gt("nbytes"), gk("int64"), gt("bytes")}}},
		{&typeDesc{kind: 't', sub: []*typeDesc{list('l', nat(idVarchar)), nat(idUUID)}}, [][]*valgen.GT{
			{gt("slice", gt("string")), gt("uuid")}, {gt("slice", gt("bytes")), gt("bytes")}}},
		{udt, one(gt("umap"),
			&valgen.GT{Name: "ustruct", Names: []string{"a", "b", "c"}, Elems: []*valgen.GT{gk("int"), gt("string"), gt("bytes")}},
			&valgen.GT{Name: "ustruct", Names: []string{"c", "a"}, Elems: []*valgen.GT{gt("bytes"), ptr(gk("int"))}},
			&valgen.GT{Name: "ustruct", Names: []string{"b", "zz"}, Elems: []*valgen.GT{gt("string"), gk("int")}},
			// every field named by the type, no unnamed []byte: short values (KF-C04-7) are spec-backed
			&valgen.GT{Name: "ustruct", Names: []string{"a", "b"}, Elems: []*valgen.GT{gk("int"), gt("string")}},
			&valgen.GT{Name: "ustruct", Names: []string{"c", "b", "a"}, Elems: []*valgen.GT{ptr(gt("bytes")), ptr(gt("string")), gk("int64")}},
			&valgen.GT{Name: "ustruct", Names: []string{"b", "c"}, Elems: []*valgen.GT{gt("nstring"), gt("nbytes")}},
			gt("struct", gt("string"), gk("int")))},
	}
}

var sysPatterns = []string{"VNVEN", "NVNV", "EVEN", "VVNNV", "VEVN"}

// sysCell: pattern letter V (a value), N (null), E (empty)
func (g *gen) sysCell(proto int, t *typeDesc, k byte, i int) cell {
	item := func(e *typeDesc) optBytes {
		switch k {
		case 'N':
			return optBytes{null: true}
		case 'E':
			return optBytes{b: []byte{}}
		}
		return optBytes{b: g.encVal(proto, e)}
	}
	if t.kind == 't' {
		if k == 'N' && i%2 == 0 {
			return cell{kind: 'z'}
		}
		c := cell{kind: 't'}
		for _, e := range t.sub {
			c.fields = append(c.fields, item(e))
		}
		return c
	}
	if t.kind == 'u' && k == 'V' && i%2 == 1 && len(t.sub) > 1 {
		// a value written before the type's last fields were added: 1 .. n-1 fields (null / empty / a value each)
		var w enc
		for _, e := range t.sub[:1+g.r.Intn(len(t.sub)-1)] {
			w.bytes(g.fieldFor(proto, e))
		}
		return cell{kind: 'b', b: w.b}
	}
	f := item(t)
	if f.null {
		return cell{kind: 'z'}
	}
	return cell{kind: 'b', b: f.b}
}

// allPatterns: every order of value / null / empty cells over 1..n rows
func allPatterns(n int) []string {
	l := []string{""}
	var out []string
	for i := 0; i < n; i++ {
		var nl []string
		for _, p := range l {
			for _, c := range "VNE" {
				nl = append(nl, p+string(c))
			}
		}
		out = append(out, nl...)
		l = nl
	}
	return out
}

func (x *runner) reuseSystematic(v int, patterns []string) {
	g := x.g
	g.count = map[*typeDesc]int{}
	g.shortTuples = false
	for _, sc := range sysCases() {
		for _, ds := range sc.dests {
			for pi, pat := range patterns {
				for ai, api := range []string{"scan", "scanner", "mapscan"} {
					if api == "mapscan" && pi%2 == 1 {
						continue
					}
					init := "Z"
					if (pi+ai)%2 == 1 {
						init = "D"
					}
					if ds[0].Name == "array" {
						g.count[sc.t] = ds[0].N
					}
					m := &meta{mode: 'G', ks: []byte("ks"), tb: []byte("t"), cols: []colSpec{{name: []byte("c"), t: sc.t}}}
					b := &body{kind: "RES", rk: "ROWS", m: m}
					for i := 0; i < len(pat); i++ {
						b.rows = append(b.rows, []cell{g.sysCell(v, sc.t, pat[i], i)})
					}
					var slots []slot
					if sc.t.kind == 't' {
						for j, e := range sc.t.sub {
							slots = append(slots, slot{e, ds[j]})
						}
					} else {
						slots = []slot{{sc.t, ds[0]}}
					}
					r := &lresp{v: v, stream: 1, body: b}
					op, class := reuseClass(api, init, slots, m.cols, b.rows)
					var dt []string
					for _, s := range slots {
						dt = append(dt, s.g.String())
					}
					x.emit(fmt.Sprintf("%s %s %s %d D %d %s %s %s", op, api, init, v, len(slots), strings.Join(dt, " "),
						strings.Join(r.toks(), " "), vh.Hex(r.encFrame())), "sys/"+class)
				}
			}
		}
	}
}
