// End-to-end ops of C04: a REAL gocql.Session on the in-memory scripted cluster (harness/memcluster).
//
//   skip  <fv> <logical PREPARED response> <wire1> <logical ROWS response> <wire2>
//   skipx ...                      (model-vs-code: rows that do not fit the metadata they are read with, tuple<> columns)
//
// session.Query(<unique stmt>, <one blob value>).PageState(nil).Iter(): the driver sends PREPARE (the
// scripted node answers wire1), then EXECUTE with the skip-metadata flag (the node answers wire2);
// conn.go executeQuery builds the Iter (prepared result metadata + the page's paging state; the page's own
// metadata when the page carries it although the driver asked to skip it), which is
// then drained with Iter.Scan into recorder destinations. Stream ids of the scripted frames are
// patched to the request's stream.
package main

import (
	"fmt"
	"io/ioutil"
	"log"
	"strings"
	"sync"
	"time"

	"github.com/gocql/gocql"
	"verifharness/memcluster"
	"verifharness/vh"
)

type e2eScript struct {
	mu        sync.Mutex
	prep, exe []byte // complete wire frames
	sawSkip   bool
	sawExec   bool
}

type e2eEnv struct {
	cl     *memcluster.Cluster
	sess   *gocql.Session
	script *e2eScript
	n      int
}

var e2eEnvs = map[int]*e2eEnv{}

func patchStream(proto int, wire []byte, stream int) []byte {
	w := append([]byte{}, wire...)
	if proto <= 2 {
		w[2] = byte(stream)
	} else {
		w[2], w[3] = byte(stream>>8), byte(stream)
	}
	return w
}

func e2eGet(proto int) (*e2eEnv, error) {
	if e, ok := e2eEnvs[proto]; ok {
		return e, nil
	}
	ip := fmt.Sprintf("10.4.0.%d", proto)
	cl := memcluster.NewCluster(proto, ip)
	sc := &e2eScript{}
	cl.Nodes[ip].Handle = func(req *memcluster.Request) {
		sc.mu.Lock()
		defer sc.mu.Unlock()
		switch req.Op {
		case memcluster.OpPrepare:
			req.Conn.WriteRaw(patchStream(proto, sc.prep, req.Stream))
		case memcluster.OpExecute:
			sc.sawExec = true
			sc.sawSkip = req.QFlags&0x02 != 0
			req.Conn.WriteRaw(patchStream(proto, sc.exe, req.Stream))
		default:
			req.Conn.Reply(req.Stream, memcluster.OpResult, memcluster.VoidBody())
		}
	}
	cfg := gocql.NewCluster(ip)
	cfg.ProtoVersion = proto
	cfg.HostDialer = cl
	cfg.NumConns = 1
	cfg.Timeout = 5 * time.Second
	cfg.ConnectTimeout = 5 * time.Second
	cfg.DisableInitialHostLookup = true
	cfg.ReconnectInterval = 0
	cfg.WriteCoalesceWaitTime = 0
	cfg.Logger = log.New(ioutil.Discard, "", 0)
	cfg.PoolConfig.HostSelectionPolicy = gocql.RoundRobinHostPolicy()
	cfg.Consistency = gocql.One
	cfg.ReconnectionPolicy = &gocql.ConstantReconnectionPolicy{MaxRetries: 1, Interval: time.Millisecond}
	gocql.VerifC04DisableControlConn(cfg)
	s, err := cfg.CreateSession()
	if err != nil {
		return nil, err
	}
	e := &e2eEnv{cl: cl, sess: s, script: sc}
	e2eEnvs[proto] = e
	return e, nil
}

// splitSkip finds the two wire frames of a skip op: tokens that are long hex strings starting with the
// response version byte are not unique, so the op carries them at fixed places: the harness puts
// wire1 right before the token "ROWSRESP" and wire2 last.
func execSkip(w []string) string {
	fv := atoi(w[1])
	sep := -1
	for i, t := range w {
		if t == "ROWSRESP" {
			sep = i
		}
	}
	if sep < 0 {
		return "bad-op"
	}
	wire1, wire2 := unhex(w[sep-1]), unhex(w[len(w)-1])
	e, err := e2eGet(fv)
	if err != nil {
		return "session-error:" + err.Error()
	}
	e.script.mu.Lock()
	e.script.prep, e.script.exe = wire1, wire2
	e.script.sawExec, e.script.sawSkip = false, false
	e.script.mu.Unlock()
	e.n++
	stmt := fmt.Sprintf("select c04 %d %d from t where p = ?", vh.EnvSeed(), e.n)
	it := e.sess.Query(stmt, []byte{0x2a}).PageState(nil).Iter()
	e.script.mu.Lock()
	sawExec, sawSkip := e.script.sawExec, e.script.sawSkip
	e.script.mu.Unlock()
	if !sawExec {
		it.Close()
		return "no-execute-seen"
	}
	if !sawSkip {
		it.Close()
		return "skip-flag-not-set"
	}
	failed, _, _ := gocql.VerifC04IterState(it)
	if failed {
		it.Close()
		return "err"
	}
	out := "ok M:" + gocql.VerifC04IterMeta(it, byte(fv))
	ws := "nil"
	if x := it.Warnings(); x != nil {
		p := make([]string, len(x))
		for i, s := range x {
			p[i] = vh.Hex([]byte(s))
		}
		ws = "[" + strings.Join(p, ",") + "]"
	}
	out += " W:" + ws
	n := it.NumRows()
	var lg []call
	var rows []string
	wd := widths(it)
	for i := 0; i <= n; i++ {
		lg = nil
		ds := make([]interface{}, wd)
		for j := range ds {
			ds[j] = &rec{log: &lg, idx: j, fv: byte(fv)}
		}
		if !it.Scan(ds...) {
			if len(lg) > 0 {
				rows = append(rows, "!"+fmtCalls(lg))
			}
			break
		}
		rows = append(rows, fmtCalls(lg))
	}
	res := out + " rows:[" + strings.Join(rows, "|") + "] " + iterEnd(it)
	it.Close()
	return res
}

// ---- generation

func (x *runner) skipOps(v int, reps int) {
	g := x.g
	for i := 0; i < reps; i++ {
		// prepared statement: one bind marker of type blob; generated result metadata with columns
		req := &meta{mode: 'G', ks: []byte("ks"), tb: []byte("t"), cols: []colSpec{{name: []byte("p"), t: &typeDesc{kind: 'n', id: 3}}}}
		mp := g.meta(true, g.r.Intn(6) == 0, 4)
		mp.paging = nil
		for mp.mode == 'O' {
			mp = g.meta(true, false, 4)
			mp.paging = nil
		}
		pb := &body{kind: "RES", rk: "PREP", s1: g.blob(16), m: req, resp: mp}
		if len(pb.s1) == 0 {
			pb.s1 = []byte{1}
		}
		prep := g.resp(v, pb, true)
		prep.tracing = nil
		// the page: NO_METADATA with its own paging state (or, rarely, full metadata although skip was asked)
		page := &meta{mode: 'O', count: len(mp.cols), gbit: g.r.Intn(4) == 0}
		if g.r.Bool() {
			p := g.blob(12)
			page.paging = &p
		}
		class := fmt.Sprintf("skip/v%d", v)
		op := "skip"
		rowsM := mp
		if g.r.Intn(6) == 0 {
			// server ignores the skip flag and sends (different) metadata: the iterator must use it
			// (C04_skip_metadata; the former finding KF-C04-5)
			page = g.meta(true, g.r.Intn(6) == 0, 4)
			for page.mode == 'O' {
				page = g.meta(true, false, 4)
			}
			class += "/metadata-sent-anyway"
			rowsM = page
			if g.r.Intn(4) == 0 {
				// malformed: the rows have the shape of the cached metadata, not of the page's (model-vs-code)
				rowsM = mp
				op, class = "skipx", "skipx/metadata-sent-anyway/rows-of-cached-shape"
			}
		}
		// the metadata the rows are read with
		eff := mp
		if page.mode != 'O' {
			eff = page
		}
		for _, c := range eff.cols {
			if c.t.kind == 't' && len(c.t.sub) == 0 && op == "skip" {
				op, class = "skipx", "skipx/tuple0"
			}
		}
		rb := &body{kind: "RES", rk: "ROWS", m: page, rows: g.rowsFor(rowsM, 4)}
		rows := g.resp(v, rb, true)
		rows.tracing = nil
		o := fmt.Sprintf("%s %d %s %s ROWSRESP %s %s", op, v, strings.Join(prep.toks(), " "), vh.Hex(prep.encFrame()),
			strings.Join(rows.toks(), " "), vh.Hex(rows.encFrame()))
		x.emit(o, class)
	}
}
