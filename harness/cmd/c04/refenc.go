// Reference encoder for C04: logical server responses and their encoding, written from the CQL
// native protocol documents v1..v5 (DESIGN.md appendix E8/E10) — independent of gocql. The Lean
// specification (lean/Model/RespSpec.lean) is the same encoder; the model driver checks on every op
// line that both produce the same bytes.
package main

import (
	"fmt"
	"strings"

	"verifharness/vh"
)

type enc struct{ b []byte }

func (w *enc) byte1(v int)  { w.b = append(w.b, byte(v)) }
func (w *enc) short(v int)  { w.b = append(w.b, byte(v>>8), byte(v)) }
func (w *enc) int4(v int64) { w.b = append(w.b, byte(v>>24), byte(v>>16), byte(v>>8), byte(v)) }
func (w *enc) str(s []byte) { w.short(len(s)); w.b = append(w.b, s...) }
func (w *enc) bytes(o optBytes) {
	if o.null {
		w.int4(-1)
		return
	}
	w.int4(int64(len(o.b)))
	w.b = append(w.b, o.b...)
}
func (w *enc) strList(l [][]byte) {
	w.short(len(l))
	for _, s := range l {
		w.str(s)
	}
}

type optBytes struct {
	null bool
	b    []byte
}

func (o optBytes) tok() string {
	if o.null {
		return "null"
	}
	return vh.Hex(o.b)
}

// ---- type descriptors

type typeDesc struct {
	kind   byte // n native, c custom, l list, s set, m map, u udt, t tuple
	id     int
	cls    []byte
	sub    []*typeDesc
	ks, nm []byte
	fnames [][]byte
}

func (t *typeDesc) enc(w *enc) {
	switch t.kind {
	case 'n':
		w.short(t.id)
	case 'c':
		w.short(0)
		w.str(t.cls)
	case 'l':
		w.short(0x20)
		t.sub[0].enc(w)
	case 's':
		w.short(0x22)
		t.sub[0].enc(w)
	case 'm':
		w.short(0x21)
		t.sub[0].enc(w)
		t.sub[1].enc(w)
	case 'u':
		w.short(0x30)
		w.str(t.ks)
		w.str(t.nm)
		w.short(len(t.sub))
		for i, s := range t.sub {
			w.str(t.fnames[i])
			s.enc(w)
		}
	case 't':
		w.short(0x31)
		w.short(len(t.sub))
		for _, s := range t.sub {
			s.enc(w)
		}
	}
}

func (t *typeDesc) toks(o *[]string) {
	switch t.kind {
	case 'n':
		*o = append(*o, "n", fmt.Sprint(t.id))
	case 'c':
		*o = append(*o, "c", vh.Hex(t.cls))
	case 'l', 's':
		*o = append(*o, string(t.kind))
		t.sub[0].toks(o)
	case 'm':
		*o = append(*o, "m")
		t.sub[0].toks(o)
		t.sub[1].toks(o)
	case 'u':
		*o = append(*o, "u", vh.Hex(t.ks), vh.Hex(t.nm), fmt.Sprint(len(t.sub)))
		for i, s := range t.sub {
			*o = append(*o, vh.Hex(t.fnames[i]))
			s.toks(o)
		}
	case 't':
		*o = append(*o, "t", fmt.Sprint(len(t.sub)))
		for _, s := range t.sub {
			s.toks(o)
		}
	}
}

// gocql's documented class-name table (doc: marshal class names map to native types)
var classTable = map[string]int{"AsciiType": 1, "LongType": 2, "BytesType": 3, "BooleanType": 4, "CounterColumnType": 5,
	"DecimalType": 6, "DoubleType": 7, "FloatType": 8, "Int32Type": 9, "ShortType": 0x13, "ByteType": 0x14, "TimeType": 0x12,
	"DateType": 0x0B, "TimestampType": 0x0B, "UUIDType": 0x0C, "LexicalUUIDType": 0x0C, "UTF8Type": 0x0D, "IntegerType": 0x0E,
	"TimeUUIDType": 0x0F, "InetAddressType": 0x10, "MapType": 0x21, "ListType": 0x20, "SetType": 0x22, "TupleType": 0x31,
	"DurationType": 0x15}

const marshalPrefix = "org.apache.cassandra.db.marshal."

func classType(cls []byte) int {
	return classTable[strings.TrimPrefix(string(cls), marshalPrefix)]
}

// customType: the type id of a custom option: the mapped native type; a class the table maps to a
// collection / tuple kind (a bare marshal class name: no element types follow) stays custom
func customType(cls []byte) int {
	switch t := classType(cls); t {
	case 0x20, 0x21, 0x22, 0x31:
		return 0
	default:
		return t
	}
}

// noCollClass: no custom class that names a bare collection / tuple marshal class (the inputs of the
// former finding KF-C04-1; only used to label the distribution)
func (t *typeDesc) noCollClass() bool {
	if t.kind == 'c' {
		switch classType(t.cls) {
		case 0x20, 0x21, 0x22, 0x31:
			return false
		}
	}
	for _, s := range t.sub {
		if !s.noCollClass() {
			return false
		}
	}
	return true
}

// ---- metadata

type colSpec struct {
	ks, tb, name []byte
	t            *typeDesc
}

type meta struct {
	paging *[]byte
	mode   byte // O omitted (NO_METADATA), G global table spec, C per column
	count  int  // mode O
	gbit   bool // mode O
	ks, tb []byte
	cols   []colSpec
}

func (m *meta) flags() int {
	f := 0
	switch m.mode {
	case 'O':
		f = 4
		if m.gbit {
			f |= 1
		}
	case 'G':
		f = 1
	}
	if m.paging != nil {
		f |= 2
	}
	return f
}

func (m *meta) ncols() int {
	if m.mode == 'O' {
		return m.count
	}
	return len(m.cols)
}

func (m *meta) encTail(w *enc) {
	if m.paging != nil {
		w.bytes(optBytes{b: *m.paging})
	}
	switch m.mode {
	case 'G':
		w.str(m.ks)
		w.str(m.tb)
		for _, c := range m.cols {
			w.str(c.name)
			c.t.enc(w)
		}
	case 'C':
		for _, c := range m.cols {
			w.str(c.ks)
			w.str(c.tb)
			w.str(c.name)
			c.t.enc(w)
		}
	}
}

func (m *meta) enc(w *enc) {
	w.int4(int64(m.flags()))
	w.int4(int64(m.ncols()))
	m.encTail(w)
}

func (m *meta) encPrepared(w *enc, v int, pk []int) {
	w.int4(int64(m.flags()))
	w.int4(int64(m.ncols()))
	if v >= 4 {
		w.int4(int64(len(pk)))
		for _, p := range pk {
			w.short(p)
		}
	}
	m.encTail(w)
}

func (m *meta) toks(o *[]string) {
	if m.paging == nil {
		*o = append(*o, "N")
	} else {
		*o = append(*o, "Y", vh.Hex(*m.paging))
	}
	switch m.mode {
	case 'O':
		g := "0"
		if m.gbit {
			g = "1"
		}
		*o = append(*o, "O", fmt.Sprint(m.count), g)
	case 'G':
		*o = append(*o, "G", vh.Hex(m.ks), vh.Hex(m.tb), fmt.Sprint(len(m.cols)))
		for _, c := range m.cols {
			*o = append(*o, vh.Hex(c.name))
			c.t.toks(o)
		}
	case 'C':
		*o = append(*o, "C", fmt.Sprint(len(m.cols)))
		for _, c := range m.cols {
			*o = append(*o, vh.Hex(c.ks), vh.Hex(c.tb), vh.Hex(c.name))
			c.t.toks(o)
		}
	}
}

func (m *meta) noCollClass() bool {
	for _, c := range m.cols {
		if !c.t.noCollClass() {
			return false
		}
	}
	return true
}

// ---- cells

type cell struct {
	kind   byte // z null, b bytes, t tuple
	b      []byte
	fields []optBytes
}

func (c *cell) enc(w *enc) {
	switch c.kind {
	case 'z':
		w.int4(-1)
	case 'b':
		w.bytes(optBytes{b: c.b})
	case 't':
		var in enc
		for _, f := range c.fields {
			in.bytes(f)
		}
		w.bytes(optBytes{b: in.b})
	}
}

func (c *cell) toks(o *[]string) {
	switch c.kind {
	case 'z':
		*o = append(*o, "null")
	case 'b':
		*o = append(*o, "b", vh.Hex(c.b))
	case 't':
		*o = append(*o, "t", fmt.Sprint(len(c.fields)))
		for _, f := range c.fields {
			*o = append(*o, f.tok())
		}
	}
}

// ---- schema change / failures

type schemaChange struct {
	kind         byte // K T U F A
	ch, ks, name []byte
	args         [][]byte
}

func (s *schemaChange) enc(w *enc, v int) {
	w.str(s.ch)
	if v <= 2 {
		w.str(s.ks)
		if s.kind == 'K' {
			w.str(nil)
		} else {
			w.str(s.name)
		}
		return
	}
	switch s.kind {
	case 'K':
		w.str([]byte("KEYSPACE"))
		w.str(s.ks)
	case 'T':
		w.str([]byte("TABLE"))
		w.str(s.ks)
		w.str(s.name)
	case 'U':
		w.str([]byte("TYPE"))
		w.str(s.ks)
		w.str(s.name)
	case 'F':
		w.str([]byte("FUNCTION"))
		w.str(s.ks)
		w.str(s.name)
		w.strList(s.args)
	case 'A':
		w.str([]byte("AGGREGATE"))
		w.str(s.ks)
		w.str(s.name)
		w.strList(s.args)
	}
}

func (s *schemaChange) toks(o *[]string) {
	*o = append(*o, string(s.kind), vh.Hex(s.ch), vh.Hex(s.ks))
	if s.kind != 'K' {
		*o = append(*o, vh.Hex(s.name))
	}
	if s.kind == 'F' || s.kind == 'A' {
		*o = append(*o, fmt.Sprint(len(s.args)))
		for _, a := range s.args {
			*o = append(*o, vh.Hex(a))
		}
	}
}

type reason struct {
	addr []byte
	code int
}

type failures struct {
	isMap   bool
	count   int64
	reasons []reason
}

func (f *failures) enc(w *enc) {
	if !f.isMap {
		w.int4(f.count)
		return
	}
	w.int4(int64(len(f.reasons)))
	for _, r := range f.reasons {
		w.byte1(len(r.addr))
		w.b = append(w.b, r.addr...)
		w.short(r.code)
	}
}

func (f *failures) toks(o *[]string) {
	if !f.isMap {
		*o = append(*o, "C", fmt.Sprint(f.count))
		return
	}
	*o = append(*o, "M", fmt.Sprint(len(f.reasons)))
	for _, r := range f.reasons {
		*o = append(*o, vh.Hex(r.addr), fmt.Sprint(r.code))
	}
}

// ---- message bodies

type body struct {
	kind string // ERR READY AUTH SUP RES EV CHAL SUCC
	// ERR
	msg              []byte
	ek               string // S UNAV WTO RTO RF FF WF CDC CAS AE UNP
	code             int
	cl               int
	i1, i2           int64
	dp               int
	s1, s2           []byte
	list             [][]byte
	fail             *failures
	// AUTH / CHAL / SUCC
	tok optBytes
	// SUP
	keys [][]byte
	vals [][][]byte
	// RES
	rk    string // VOID ROWS KS PREP SC
	m     *meta
	rows  [][]cell
	pk    []int
	resp  *meta
	sc    *schemaChange
	// EV
	evk  string // TOPO STAT SCH
	addr []byte
	port int64
}

func errCode(ek string, code int) int {
	switch ek {
	case "UNAV":
		return 0x1000
	case "WTO":
		return 0x1100
	case "RTO":
		return 0x1200
	case "RF":
		return 0x1300
	case "FF":
		return 0x1400
	case "WF":
		return 0x1500
	case "CDC":
		return 0x1600
	case "CAS":
		return 0x1700
	case "AE":
		return 0x2400
	case "UNP":
		return 0x2500
	}
	return code
}

func (b *body) opcode() int {
	switch b.kind {
	case "ERR":
		return 0x00
	case "READY":
		return 0x02
	case "AUTH":
		return 0x03
	case "SUP":
		return 0x06
	case "RES":
		return 0x08
	case "EV":
		return 0x0C
	case "CHAL":
		return 0x0E
	case "SUCC":
		return 0x10
	}
	panic("opcode")
}

func (b *body) enc(w *enc, v int) {
	switch b.kind {
	case "ERR":
		w.int4(int64(errCode(b.ek, b.code)))
		w.str(b.msg)
		switch b.ek {
		case "UNAV":
			w.short(b.cl)
			w.int4(b.i1)
			w.int4(b.i2)
		case "WTO":
			w.short(b.cl)
			w.int4(b.i1)
			w.int4(b.i2)
			w.str(b.s1)
		case "RTO":
			w.short(b.cl)
			w.int4(b.i1)
			w.int4(b.i2)
			w.byte1(b.dp)
		case "RF":
			w.short(b.cl)
			w.int4(b.i1)
			w.int4(b.i2)
			b.fail.enc(w)
			w.byte1(b.dp)
		case "FF":
			w.str(b.s1)
			w.str(b.s2)
			w.strList(b.list)
		case "WF":
			w.short(b.cl)
			w.int4(b.i1)
			w.int4(b.i2)
			b.fail.enc(w)
			w.str(b.s1)
		case "CAS":
			w.short(b.cl)
			w.int4(b.i1)
			w.int4(b.i2)
		case "AE":
			w.str(b.s1)
			w.str(b.s2)
		case "UNP":
			w.str(b.s1)
		}
	case "READY":
	case "AUTH":
		w.str(b.s1)
	case "SUP":
		w.short(len(b.keys))
		for i, k := range b.keys {
			w.str(k)
			w.strList(b.vals[i])
		}
	case "CHAL", "SUCC":
		w.bytes(b.tok)
	case "RES":
		switch b.rk {
		case "VOID":
			w.int4(1)
		case "ROWS":
			w.int4(2)
			b.m.enc(w)
			w.int4(int64(len(b.rows)))
			for _, r := range b.rows {
				for i := range r {
					r[i].enc(w)
				}
			}
		case "KS":
			w.int4(3)
			w.str(b.s1)
		case "PREP":
			w.int4(4)
			w.str(b.s1)
			b.m.encPrepared(w, v, b.pk)
			if b.resp != nil {
				b.resp.enc(w)
			}
		case "SC":
			w.int4(5)
			b.sc.enc(w, v)
		}
	case "EV":
		switch b.evk {
		case "TOPO", "STAT":
			if b.evk == "TOPO" {
				w.str([]byte("TOPOLOGY_CHANGE"))
			} else {
				w.str([]byte("STATUS_CHANGE"))
			}
			w.str(b.s1)
			w.byte1(len(b.addr))
			w.b = append(w.b, b.addr...)
			w.int4(b.port)
		case "SCH":
			w.str([]byte("SCHEMA_CHANGE"))
			b.sc.enc(w, v)
		}
	}
}

func (b *body) toks(o *[]string) {
	*o = append(*o, b.kind)
	switch b.kind {
	case "ERR":
		*o = append(*o, vh.Hex(b.msg), b.ek)
		switch b.ek {
		case "S":
			*o = append(*o, fmt.Sprint(b.code))
		case "UNAV", "CAS":
			*o = append(*o, fmt.Sprint(b.cl), fmt.Sprint(b.i1), fmt.Sprint(b.i2))
		case "WTO":
			*o = append(*o, fmt.Sprint(b.cl), fmt.Sprint(b.i1), fmt.Sprint(b.i2), vh.Hex(b.s1))
		case "RTO":
			*o = append(*o, fmt.Sprint(b.cl), fmt.Sprint(b.i1), fmt.Sprint(b.i2), fmt.Sprint(b.dp))
		case "RF":
			*o = append(*o, fmt.Sprint(b.cl), fmt.Sprint(b.i1), fmt.Sprint(b.i2))
			b.fail.toks(o)
			*o = append(*o, fmt.Sprint(b.dp))
		case "FF":
			*o = append(*o, vh.Hex(b.s1), vh.Hex(b.s2), fmt.Sprint(len(b.list)))
			for _, a := range b.list {
				*o = append(*o, vh.Hex(a))
			}
		case "WF":
			*o = append(*o, fmt.Sprint(b.cl), fmt.Sprint(b.i1), fmt.Sprint(b.i2))
			b.fail.toks(o)
			*o = append(*o, vh.Hex(b.s1))
		case "AE":
			*o = append(*o, vh.Hex(b.s1), vh.Hex(b.s2))
		case "UNP":
			*o = append(*o, vh.Hex(b.s1))
		}
	case "AUTH":
		*o = append(*o, vh.Hex(b.s1))
	case "SUP":
		*o = append(*o, fmt.Sprint(len(b.keys)))
		for i, k := range b.keys {
			*o = append(*o, vh.Hex(k), fmt.Sprint(len(b.vals[i])))
			for _, x := range b.vals[i] {
				*o = append(*o, vh.Hex(x))
			}
		}
	case "CHAL", "SUCC":
		*o = append(*o, b.tok.tok())
	case "RES":
		*o = append(*o, b.rk)
		switch b.rk {
		case "ROWS":
			b.m.toks(o)
			*o = append(*o, fmt.Sprint(len(b.rows)))
			for _, r := range b.rows {
				*o = append(*o, fmt.Sprint(len(r)))
				for i := range r {
					r[i].toks(o)
				}
			}
		case "KS":
			*o = append(*o, vh.Hex(b.s1))
		case "PREP":
			*o = append(*o, vh.Hex(b.s1), fmt.Sprint(len(b.pk)))
			for _, p := range b.pk {
				*o = append(*o, fmt.Sprint(p))
			}
			b.m.toks(o)
			if b.resp == nil {
				*o = append(*o, "N")
			} else {
				*o = append(*o, "M")
				b.resp.toks(o)
			}
		case "SC":
			b.sc.toks(o)
		}
	case "EV":
		*o = append(*o, b.evk)
		switch b.evk {
		case "TOPO", "STAT":
			*o = append(*o, vh.Hex(b.s1), vh.Hex(b.addr), fmt.Sprint(b.port))
		case "SCH":
			b.sc.toks(o)
		}
	}
}

func (b *body) noCollClass() bool {
	if b.kind != "RES" {
		return true
	}
	switch b.rk {
	case "ROWS":
		return b.m.noCollClass()
	case "PREP":
		return b.m.noCollClass() && (b.resp == nil || b.resp.noCollClass())
	}
	return true
}

// ---- whole response

type lresp struct {
	v        int
	stream   int
	tracing  *[]byte
	warnings *[][]byte
	payload  *[]kv
	beta     bool
	body     *body
}

type kv struct {
	k []byte
	v optBytes
}

func (r *lresp) flags() int {
	f := 0
	if r.tracing != nil {
		f |= 0x02
	}
	if r.payload != nil {
		f |= 0x04
	}
	if r.warnings != nil {
		f |= 0x08
	}
	if r.beta {
		f |= 0x10
	}
	return f
}

func (r *lresp) encBody() []byte {
	var w enc
	if r.tracing != nil {
		w.b = append(w.b, *r.tracing...)
	}
	if r.warnings != nil {
		w.strList(*r.warnings)
	}
	if r.payload != nil {
		w.short(len(*r.payload))
		for _, e := range *r.payload {
			w.str(e.k)
			w.bytes(e.v)
		}
	}
	r.body.enc(&w, r.v)
	return w.b
}

func header(v, flags, stream, op, length int) []byte {
	var w enc
	w.byte1(v | 0x80)
	w.byte1(flags)
	if v <= 2 {
		w.byte1(stream)
	} else {
		w.short(stream)
	}
	w.byte1(op)
	w.int4(int64(length))
	return w.b
}

// encFrame: the whole frame, body not compressed
func (r *lresp) encFrame() []byte {
	b := r.encBody()
	return append(header(r.v, r.flags(), r.stream, r.body.opcode(), len(b)), b...)
}

func (r *lresp) toks() []string {
	o := []string{fmt.Sprint(r.v), fmt.Sprint(r.stream)}
	if r.tracing == nil {
		o = append(o, "N")
	} else {
		o = append(o, "Y", vh.Hex(*r.tracing))
	}
	if r.warnings == nil {
		o = append(o, "N")
	} else {
		o = append(o, "W", fmt.Sprint(len(*r.warnings)))
		for _, w := range *r.warnings {
			o = append(o, vh.Hex(w))
		}
	}
	if r.payload == nil {
		o = append(o, "N")
	} else {
		o = append(o, "P", fmt.Sprint(len(*r.payload)))
		for _, e := range *r.payload {
			o = append(o, vh.Hex(e.k), e.v.tok())
		}
	}
	if r.beta {
		o = append(o, "1")
	} else {
		o = append(o, "0")
	}
	r.body.toks(&o)
	return o
}
