// Whole-query ops of C04: a REAL gocql.Session on the in-memory scripted cluster runs ONE statement that is not
// prepared (a QUERY frame) and reads everything the server says through ONE Iter.
//
//   pages  <api> <fv> <prefetch%> <k> (<logical response> WIRE <wire>)*k     spec-backed
//   pagesn ...  (api scanner)                                                model + specification compared in the driver
//   pagesx ...                                                               model-vs-code
//
// The scripted node answers the k-th request of the query (the QUERY itself, then the fetch of every further
// page: session.go Iter.Scan `*iter = *iter.next.fetch()`, iterScanner.Next `is.iter = iter.next.fetch()`,
// nextIter.fetchAsync when the prefetch position is passed) with the k-th wire frame, stream id patched.
// What is compared is everything the application can see: the first page's view P0 (Iter.Columns with types,
// PageState, NumRows, Warnings, GetCustomPayload), for every Scan call whether the iterator switched to a new
// page (Iter.WillSwitchPage before the call) and that page's view, every cell of every row (recorder
// destinations, one per destination of the CURRENT page), the error Iter.Close / Scanner.Err returns with its
// type and fields (errors.go Code / Message / Error), and the trace ids the query's Tracer was called with.
package main

import (
	"fmt"
	"io/ioutil"
	"log"
	"net"
	"sort"
	"strings"
	"sync"
	"time"

	"github.com/gocql/gocql"
	"verifharness/memcluster"
	"verifharness/vh"
)

type pagesScript struct {
	mu     sync.Mutex
	stmt   string
	wires  [][]byte
	served int
}

// one Tracer per op: a fetch still in flight when an op ends early (only possible when the code under test
// deviates) cannot touch the next op's observation; its request carries the old statement and gets RESULT/Void
type pagesTracer struct {
	mu     sync.Mutex
	traces []string
}

func (s *pagesTracer) Trace(id []byte) {
	s.mu.Lock()
	s.traces = append(s.traces, hexNil(id))
	s.mu.Unlock()
}

type pagesEnv struct {
	sess   *gocql.Session
	script *pagesScript
	n      int
}

var pagesEnvs = map[int]*pagesEnv{}

func pagesGet(proto int) (*pagesEnv, error) {
	if e, ok := pagesEnvs[proto]; ok {
		return e, nil
	}
	ip := fmt.Sprintf("10.4.1.%d", proto)
	cl := memcluster.NewCluster(proto, ip)
	sc := &pagesScript{}
	cl.Nodes[ip].Handle = func(req *memcluster.Request) {
		sc.mu.Lock()
		defer sc.mu.Unlock()
		if req.Op == memcluster.OpQuery && req.Stmt == sc.stmt && sc.served < len(sc.wires) {
			w := sc.wires[sc.served]
			sc.served++
			req.Conn.WriteRaw(patchStream(proto, w, req.Stream))
			return
		}
		if req.Op == memcluster.OpQuery && req.Stmt == sc.stmt {
			sc.served++
		}
		req.Conn.Reply(req.Stream, memcluster.OpResult, memcluster.VoidBody())
	}
	cfg := gocql.NewCluster(ip)
	cfg.ProtoVersion = proto
	cfg.HostDialer = cl
	cfg.NumConns = 1
	cfg.Timeout = 5 * time.Second
	cfg.ConnectTimeout = 5 * time.Second
	cfg.DisableInitialHostLookup = true
	cfg.ReconnectInterval = 0
	cfg.WriteCoalesceWaitTime = 0
	cfg.Logger = log.New(ioutil.Discard, "", 0)
	cfg.PoolConfig.HostSelectionPolicy = gocql.RoundRobinHostPolicy()
	cfg.Consistency = gocql.One
	cfg.MaxWaitSchemaAgreement = 2 * time.Second
	cfg.ReconnectionPolicy = &gocql.ConstantReconnectionPolicy{MaxRetries: 1, Interval: time.Millisecond}
	gocql.VerifC04DisableControlConn(cfg)
	s, err := cfg.CreateSession()
	if err != nil {
		return nil, err
	}
	e := &pagesEnv{sess: s, script: sc}
	pagesEnvs[proto] = e
	return e, nil
}

func hexNil(b []byte) string {
	if b == nil {
		return "nil"
	}
	return vh.Hex(b)
}

func hexStr(s string) string { return vh.Hex([]byte(s)) }

func hexStrList(l []string) string {
	p := make([]string, len(l))
	for i, s := range l {
		p[i] = hexStr(s)
	}
	return "[" + strings.Join(p, ",") + "]"
}

func dumpErrMap(m gocql.ErrorMap) string {
	if m == nil {
		return "nil"
	}
	p := make([]string, 0, len(m))
	for k, c := range m {
		ip := net.ParseIP(k)
		var key []byte
		if ip4 := ip.To4(); ip4 != nil {
			key = ip4
		} else {
			key = ip.To16()
		}
		p = append(p, fmt.Sprintf("%s=%d", hexNil(key), c))
	}
	sort.Strings(p)
	return "{" + strings.Join(p, ",") + "}"
}

// dumpErr: the error an application gets from Iter.Close / Scanner.Err, through the exported API only
func dumpErr(err error) string {
	if err == nil {
		return "nil"
	}
	var det string
	switch v := err.(type) {
	case *gocql.RequestErrUnavailable:
		det = fmt.Sprintf("unav(%d,%d,%d)", uint16(v.Consistency), v.Required, v.Alive)
	case *gocql.RequestErrWriteTimeout:
		det = fmt.Sprintf("wto(%d,%d,%d,%s)", uint16(v.Consistency), v.Received, v.BlockFor, hexStr(v.WriteType))
	case *gocql.RequestErrReadTimeout:
		det = fmt.Sprintf("rto(%d,%d,%d,%d)", uint16(v.Consistency), v.Received, v.BlockFor, v.DataPresent)
	case *gocql.RequestErrAlreadyExists:
		det = fmt.Sprintf("ae(%s,%s)", hexStr(v.Keyspace), hexStr(v.Table))
	case *gocql.RequestErrUnprepared:
		det = fmt.Sprintf("unp(%s)", hexNil(v.StatementId))
	case *gocql.RequestErrReadFailure:
		det = fmt.Sprintf("rf(%d,%d,%d,%d,%v,%s)", uint16(v.Consistency), v.Received, v.BlockFor, v.NumFailures, v.DataPresent, dumpErrMap(v.ErrorMap))
	case *gocql.RequestErrWriteFailure:
		det = fmt.Sprintf("wf(%d,%d,%d,%d,%s,%s)", uint16(v.Consistency), v.Received, v.BlockFor, v.NumFailures, hexStr(v.WriteType), dumpErrMap(v.ErrorMap))
	case *gocql.RequestErrFunctionFailure:
		det = fmt.Sprintf("ff(%s,%s,%s)", hexStr(v.Keyspace), hexStr(v.Function), hexStrList(v.ArgTypes))
	case *gocql.RequestErrCDCWriteFailure:
		det = "cdc"
	case *gocql.RequestErrCASWriteUnknown:
		det = fmt.Sprintf("cas(%d,%d,%d)", uint16(v.Consistency), v.Received, v.BlockFor)
	case gocql.ErrProtocol:
		return "protocol"
	case gocql.RequestError:
		det = "plain"
	default:
		return "other"
	}
	re := err.(gocql.RequestError)
	s := fmt.Sprintf("E(%d,%s,%s)", re.Code(), hexStr(re.Message()), det)
	if err.Error() != re.Message() {
		s += "!Error=" + hexStr(err.Error())
	}
	return s
}

func pageView(it *gocql.Iter, fv int) string {
	w := "nil"
	if x := it.Warnings(); x != nil {
		w = hexStrList(x)
	}
	p := "nil"
	if m := it.GetCustomPayload(); m != nil {
		keys := make([]string, 0, len(m))
		for k, v := range m {
			keys = append(keys, hexStr(k)+"="+hexNil(v))
		}
		sort.Strings(keys)
		p = "{" + strings.Join(keys, ",") + "}"
	}
	return fmt.Sprintf("M:%s N:%d W:%s P:%s", gocql.VerifC04IterMeta(it, byte(fv)), it.NumRows(), w, p)
}

func execPages(w []string) string {
	api, fv, pf, k := w[1], atoi(w[2]), atoi(w[3]), atoi(w[4])
	var wires [][]byte
	for i, t := range w {
		if t == "WIRE" && i+1 < len(w) {
			wires = append(wires, unhex(w[i+1]))
		}
	}
	if len(wires) != k {
		return "bad-op"
	}
	e, err := pagesGet(fv)
	if err != nil {
		return "session-error:" + err.Error()
	}
	e.n++
	sc := e.script
	stmt := fmt.Sprintf("c04pages %d %d", vh.EnvSeed(), e.n)
	sc.mu.Lock()
	sc.stmt, sc.wires, sc.served = stmt, wires, 0
	sc.mu.Unlock()
	tr := &pagesTracer{}
	it := e.sess.Query(stmt).Trace(tr).Prefetch(float64(pf) / 100).Iter()
	out := "ok P0(" + pageView(it, fv) + ")"
	var lg []call
	mk := func(n int) []interface{} {
		ds := make([]interface{}, n)
		for j := range ds {
			ds[j] = &rec{log: &lg, idx: j, fv: byte(fv)}
		}
		return ds
	}
	var evs []string
	status := ""
	var endErr error
	switch api {
	case "scan":
		for {
			lg = nil
			sw := it.WillSwitchPage()
			ok := it.Scan(mk(widths(it))...)
			pre := ""
			if sw {
				pre = "PG(" + pageView(it, fv) + ")>"
			}
			if !ok {
				if len(lg) > 0 {
					pre += "!" + fmtCalls(lg)
				}
				evs = append(evs, pre+"$")
				break
			}
			evs = append(evs, pre+fmtCalls(lg))
		}
		endErr = it.Close()
	case "scanner":
		wd := widths(it)
		s := it.Scanner()
		status = " done"
		for s.Next() {
			lg = nil
			if err := s.Scan(mk(wd)...); err != nil {
				evs = append(evs, "!"+fmtCalls(lg))
				status = " scanerr"
				break
			}
			evs = append(evs, fmtCalls(lg))
		}
		endErr = s.Err()
	default:
		return "bad-op"
	}
	tr.mu.Lock()
	trs := strings.Join(tr.traces, ",")
	tr.mu.Unlock()
	return out + " rows:[" + strings.Join(evs, "|") + "]" + status + " end:" + dumpErr(endErr) + " TR:[" + trs + "]"
}

// ---- generation

func cloneMeta(m *meta) *meta {
	c := *m
	c.cols = append([]colSpec{}, m.cols...)
	return &c
}

// a page of the same result set: the same column types; the table spec may be global or per column and the
// names may differ (each page is read with the metadata IT carries)
func (g *gen) pageMeta(base *meta) *meta {
	m := cloneMeta(base)
	m.paging = nil
	if g.r.Intn(4) == 0 {
		if g.r.Bool() {
			m.mode = 'G'
			m.ks, m.tb = g.name(), g.name()
		} else {
			m.mode = 'C'
		}
		for i := range m.cols {
			m.cols[i].name = g.name()
			m.cols[i].ks, m.cols[i].tb = nil, nil
			if m.mode == 'C' {
				m.cols[i].ks, m.cols[i].tb = g.name(), g.name()
			}
		}
	}
	return m
}

func (g *gen) baseMeta(maxCols int) *meta {
	for {
		m := g.meta(true, false, maxCols)
		if m.mode != 'O' {
			m.paging = nil
			return m
		}
	}
}

func hasTuple0(m *meta) bool {
	for _, c := range m.cols {
		if c.t.kind == 't' && len(c.t.sub) == 0 {
			return true
		}
	}
	return false
}

func (x *runner) pagesOps(v int, reps int) {
	g := x.g
	prefetches := []int{25, 25, 0, 50, 100}
	for i := 0; i < reps; i++ {
		api := []string{"scan", "scanner"}[g.r.Intn(2)]
		op, class := "pages", fmt.Sprintf("pages/%s/v%d", api, v)
		pf := prefetches[g.r.Intn(len(prefetches))]
		var rs []*lresp
		mk := func(b *body) *lresp {
			r := g.resp(v, b, true)
			rs = append(rs, r)
			return r
		}
		base := g.baseMeta(4)
		for hasTuple0(base) {
			base = g.baseMeta(4)
		}
		kind := g.r.Intn(20)
		switch {
		case kind < 2:
			// a single response that is not rows
			b := g.body(v, []string{"VOID", "KS", "SC"}[g.r.Intn(3)], false)
			mk(b)
			class += "/" + b.rk
		case kind < 5:
			// the query fails at once: every ERROR code with its fields
			ek := errKinds[g.r.Intn(len(errKinds)-1)] // not UNP
			mk(g.errBody(v, ek))
			class += "/error-first/" + ek
		default:
			k := 1 + g.r.Intn(4)
			endsInError := k > 1 && g.r.Intn(5) == 0
			for p := 0; p < k; p++ {
				last := p == k-1
				if last && endsInError {
					ek := errKinds[g.r.Intn(len(errKinds)-1)]
					mk(g.errBody(v, ek))
					class += "/error-on-later-page"
					break
				}
				m := g.pageMeta(base)
				if !last {
					ps := g.blob(12)
					if len(ps) == 0 {
						ps = []byte{byte(p + 1)}
					}
					m.paging = &ps
				}
				rows := g.rowsFor(m, 4)
				if g.r.Intn(6) == 0 {
					rows = nil // an empty page anywhere
				}
				mk(&body{kind: "RES", rk: "ROWS", m: m, rows: rows})
			}
			class += fmt.Sprintf("/%d-pages", k)
		}
		// model-vs-code variants
		if g.r.Intn(8) == 0 && len(rs) > 0 {
			pf = 0
			op = "pagesx"
			switch g.r.Intn(6) {
			case 0:
				// an answer that is neither a result nor an error
				b := g.body(v, []string{"READY", "SUP", "AUTH", "SUCC"}[g.r.Intn(4)], false)
				rs[len(rs)-1] = g.resp(v, b, true)
				class = "pagesx/protocol-error"
			case 1:
				// UNPREPARED: the request is sent again and gets the next answer
				j := g.r.Intn(len(rs))
				rs = append(rs[:j], append([]*lresp{g.resp(v, g.errBody(v, "UNP"), true)}, rs[j:]...)...)
				class = "pagesx/unprepared-resent"
			case 2:
				// a page of another shape
				if last := rs[len(rs)-1]; last.body.kind == "RES" && last.body.rk == "ROWS" {
					m := g.baseMeta(4)
					last.body.m, last.body.rows = m, g.rowsFor(m, 3)
				}
				class = "pagesx/other-shape"
			case 3:
				// the last page announces more: the node answers the extra request with RESULT/Void
				if last := rs[len(rs)-1]; last.body.kind == "RES" && last.body.rk == "ROWS" {
					ps := []byte{0x7f}
					last.body.m.paging = &ps
				}
				class = "pagesx/script-exhausted"
			case 4:
				// void in the middle (KF-C15-3's territory): the iteration ends there
				j := g.r.Intn(len(rs))
				rs[j] = g.resp(v, g.body(v, "VOID", false), true)
				class = "pagesx/void-in-the-middle"
			case 5:
				// rows cut short on the last page
				if last := rs[len(rs)-1]; last.body.kind == "RES" && last.body.rk == "ROWS" && len(last.body.rows) > 0 && len(last.body.rows[0]) > 0 {
					n := len(last.body.rows)
					last.body.rows[n-1] = last.body.rows[n-1][:len(last.body.rows[n-1])-1]
				}
				class = "pagesx/short-row"
			}
		}
		if op == "pages" && api == "scanner" {
			op = "pagesn" // the Scanner over pages (C04_pages_scanner)
		}
		toks := []string{op, api, fmt.Sprint(v), fmt.Sprint(pf), fmt.Sprint(len(rs))}
		for _, r := range rs {
			toks = append(toks, r.toks()...)
			toks = append(toks, "WIRE", vh.Hex(r.encFrame()))
		}
		x.emit(strings.Join(toks, " "), class)
	}
}

// ---- the one-row conveniences: Query.Scan, Query.ScanCAS, Query.MapScanCAS on ONE scripted response
//
//   qone <api> <fv> <ndests> <logical response> WIRE <wire>      model-vs-code
//
// MapScanCAS is driven also with responses on which Iter.MapScan fails and without a boolean `[applied]` column
// (KF-C04-8, repaired: props/C04.fix-KF-C04-8.diff — an error is returned instead of a panic).

func dumpQErr(err error) string {
	if err == gocql.ErrNotFound {
		return "notfound"
	}
	return dumpErr(err)
}

func execQone(w []string) string {
	api, fv, nd := w[1], atoi(w[2]), atoi(w[3])
	var wires [][]byte
	for i, t := range w {
		if t == "WIRE" && i+1 < len(w) {
			wires = append(wires, unhex(w[i+1]))
		}
	}
	e, err := pagesGet(fv)
	if err != nil {
		return "session-error:" + err.Error()
	}
	e.n++
	sc := e.script
	stmt := fmt.Sprintf("c04pages %d %d", vh.EnvSeed(), e.n)
	sc.mu.Lock()
	sc.stmt, sc.wires, sc.served = stmt, wires, 0
	sc.mu.Unlock()
	var lg []call
	ds := make([]interface{}, nd)
	for j := range ds {
		ds[j] = &rec{log: &lg, idx: j, fv: byte(fv)}
	}
	q := e.sess.Query(stmt)
	switch api {
	case "scan":
		err := q.Scan(ds...)
		return "ok rows:[" + fmtCalls(lg) + "] end:" + dumpQErr(err)
	case "scancas":
		applied, err := q.ScanCAS(ds...)
		return fmt.Sprintf("ok applied:%v rows:[%s] end:%s", applied, fmtCalls(lg), dumpQErr(err))
	case "mapscan":
		m := map[string]interface{}{}
		err := q.MapScan(m)
		return fmt.Sprintf("ok map:%s end:%s", dumpTextMap(m), dumpQErr(err))
	case "mapscancas":
		m := map[string]interface{}{}
		applied, err := q.MapScanCAS(m)
		keys := make([]string, 0, len(m))
		for k, v := range m {
			var d string
			switch x := v.(type) {
			case []byte:
				d = vh.Hex(x)
			case string:
				d = vh.Hex([]byte(x))
			default:
				d = fmt.Sprintf("?%T", v)
			}
			keys = append(keys, vh.Hex([]byte(k))+"="+d)
		}
		sort.Strings(keys)
		return fmt.Sprintf("ok applied:%v map:{%s} end:%s", applied, strings.Join(keys, ","), dumpQErr(err))
	}
	return "bad-op"
}

func dumpTextMap(m map[string]interface{}) string {
	keys := make([]string, 0, len(m))
	for k, v := range m {
		var d string
		switch x := v.(type) {
		case []byte:
			d = vh.Hex(x)
		case string:
			d = vh.Hex([]byte(x))
		default:
			d = fmt.Sprintf("?%T", v)
		}
		keys = append(keys, vh.Hex([]byte(k))+"="+d)
	}
	sort.Strings(keys)
	return "{" + strings.Join(keys, ",") + "}"
}

var textIDs = []int{idBlob, idAscii, idText, idVarchar}

func (x *runner) qoneOps(v int, reps int) {
	g := x.g
	for i := 0; i < reps; i++ {
		api := []string{"scan", "scancas", "mapscancas", "mapscan"}[g.r.Intn(4)]
		class := fmt.Sprintf("qone/%s", api)
		var b *body
		nd := 0
		switch k := g.r.Intn(10); {
		case k == 0:
			b = g.errBody(v, errKinds[g.r.Intn(len(errKinds)-1)])
			nd = g.r.Intn(3)
			class += "/error"
		case k == 1:
			b = g.body(v, []string{"VOID", "KS"}[g.r.Intn(2)], false)
			class += "/no-rows-result"
		default:
			var m *meta
			switch api {
			case "scan":
				m = g.baseMeta(4)
				for hasTuple0(m) {
					m = g.baseMeta(4)
				}
			case "scancas":
				m = g.baseMeta(3)
				for hasTuple0(m) {
					m = g.baseMeta(3)
				}
				if g.r.Intn(5) != 0 {
					first := colSpec{name: []byte("[applied]"), t: nat(idBoolean)}
					if m.mode == 'C' {
						first.ks, first.tb = g.name(), g.name()
					}
					m.cols = append([]colSpec{first}, m.cols...)
				} else {
					class += "/first-column-any"
				}
			case "mapscancas", "mapscan":
				m = &meta{mode: 'G', ks: g.name(), tb: g.name()}
				variant := g.r.Intn(8)
				if api == "mapscancas" {
					// since the repair of KF-C04-8 also: no [applied] column, an [applied] column that is not boolean
					switch variant {
					case 0:
						class += "/no-applied-column"
					case 1:
						m.cols = append(m.cols, colSpec{name: []byte("[applied]"), t: nat(idVarchar)})
						class += "/applied-not-boolean"
					default:
						m.cols = append(m.cols, colSpec{name: []byte("[applied]"), t: nat(idBoolean)})
					}
				}
				for j, n := 0, g.r.Intn(4); j < n; j++ {
					m.cols = append(m.cols, colSpec{name: []byte(fmt.Sprintf("c%d", j)), t: nat(textIDs[g.r.Intn(4)])})
				}
				if api == "mapscancas" && variant == 2 {
					// a column without a Go type: Iter.MapScan returns false (C04_no_go_type_is_error)
					m.cols = append(m.cols, colSpec{name: []byte("cx"), t: &typeDesc{kind: 'c', cls: []byte("x.Y")}})
					class += "/column-without-go-type"
				}
			}
			rows := g.rowsFor(m, 3)
			for len(rows) == 0 && g.r.Intn(5) != 0 {
				rows = g.rowsFor(m, 3)
			}
			if api == "scancas" || api == "mapscancas" {
				for _, r := range rows {
					if len(r) > 0 && len(m.cols) > 0 && string(m.cols[0].name) == "[applied]" {
						switch g.r.Intn(6) {
						case 0:
							r[0] = cell{kind: 'z'}
						case 1:
							r[0] = cell{kind: 'b', b: []byte{}}
						default:
							r[0] = cell{kind: 'b', b: []byte{byte(g.r.Intn(3))}}
						}
					}
				}
			}
			b = &body{kind: "RES", rk: "ROWS", m: m, rows: rows}
			for _, c := range m.cols {
				nd += width(c.t)
			}
			if api == "scancas" && nd > 0 {
				nd--
			}
			if api == "mapscancas" || api == "mapscan" {
				nd = 0
			} else if g.r.Intn(8) == 0 {
				nd += 1 - 2*g.r.Intn(2)
				if nd < 0 {
					nd = 0
				}
				class += "/wrong-destination-count"
			}
			class += fmt.Sprintf("/rows%d", len(rows))
		}
		toks := []string{"qone", api, fmt.Sprint(v), fmt.Sprint(nd)}
		// empty first pages that announce more: Iter.checkErrAndNotFound looks at the pages after them
		if ne := g.r.Intn(4); ne < 3 && g.r.Intn(3) == 0 {
			for j := 0; j <= ne; j++ {
				em := g.baseMeta(3)
				if b.kind == "RES" && b.rk == "ROWS" {
					em = g.pageMeta(b.m)
				}
				ps := []byte{byte(j + 1)}
				em.paging = &ps
				er := g.resp(v, &body{kind: "RES", rk: "ROWS", m: em}, true)
				toks = append(toks, er.toks()...)
				toks = append(toks, "WIRE", vh.Hex(er.encFrame()))
			}
			class += fmt.Sprintf("/after-%d-empty-pages", ne+1)
		}
		r := g.resp(v, b, true)
		toks = append(toks, r.toks()...)
		toks = append(toks, "WIRE", vh.Hex(r.encFrame()))
		x.emit(strings.Join(toks, " "), class)
	}
}
