// Harness for C04 (well-formed server responses are decoded to exactly what the server said).
//
// Generates logical responses, encodes them with the independent reference encoder (refenc.go), feeds
// the bytes to the REAL receive path of gocql (readHeader, readFrame, parseFrame through the hook
// /repo/verif_export_c04.go) and, for rows, to a real Iter (Scan / Scanner / MapScan / SliceMap with
// recorder destinations); canonical dumps are compared with `vdrv C04`, which gets the logical
// response and the bytes, checks that the Lean specification encoder produces the same bytes, runs
// the Lean model of the parser on them and prints the same dump.
//
// ops (last token of resp/respx/comp/rows/rowsx is the wire frame in hex):
//   resp  <fv> <logical response> <wire>     spec-backed: well-formed response, framer version = response version
//   respx <fv> <logical response> <wire>     model-vs-code: framer version different from the response's version
//   comp  <fv> <logical response> <wire>     spec-backed: body compressed with the real snappy compressor before the real receive path
//   raw   <fv> <version> <flags> <op> <stream> <body>   model-vs-code: malformed bodies (truncations, bad counts), outcome ok/err/crash
//   rows  <api> <dests> <fv> <logical response> <wire>   spec-backed: cells through scan|scanner|mapscan|slicemap
//   rowsx <api> <dests> <fv> <logical response> <wire>   model-vs-code: nil destinations (KF-C04-3 on tuple columns), tuple<> columns, duplicate RowData names, malformed rows
//   skip / skipx  end to end through a real Session on the in-memory cluster, see e2e.go
//   reuse / reusex  typed destinations reused across the rows of a page, see reuse.go
//   pages / pagesx  a whole query (all its pages, or its error) through a real Session, see pages.go
package main

import (
	"fmt"
	"sort"
	"strconv"
	"strings"

	"github.com/gocql/gocql"
	"verifharness/vh"
)

// every Go panic that reaches the caller (runtime error, or a panic(error) nothing recovered)
func crashClass(r interface{}) string { return "crash:go" }

func atoi(s string) int {
	n, err := strconv.Atoi(s)
	if err != nil {
		panic("bad int " + s)
	}
	return n
}

func unhex(s string) []byte {
	b, err := vh.UnHex(s)
	if err != nil {
		panic("bad hex")
	}
	return b
}

func headSize(v int) int {
	if v <= 2 {
		return 8
	}
	return 9
}

// ---- recorder destinations

type call struct {
	dest int
	typ  string
	data string
}

type rec struct {
	log  *[]call
	idx  int
	fv   byte
	data string
}

func (r *rec) UnmarshalCQL(info gocql.TypeInfo, data []byte) error {
	d := "nil"
	if data != nil {
		d = vh.Hex(data)
	}
	r.data = d
	if r.log != nil {
		*r.log = append(*r.log, call{r.idx, gocql.VerifC04DumpType(info, r.fv), d})
	}
	return nil
}

func fmtCalls(cs []call) string {
	p := make([]string, len(cs))
	for i, c := range cs {
		p[i] = fmt.Sprintf("%d=%s:%s", c.dest, c.typ, c.data)
	}
	return strings.Join(p, ";")
}

func widths(it *gocql.Iter) (total int) {
	for _, c := range it.Columns() {
		if t, ok := c.TypeInfo.(gocql.TupleTypeInfo); ok {
			total += len(t.Elems)
		} else {
			total++
		}
	}
	return
}

func iterEnd(it *gocql.Iter) string {
	failed, pos, rest := gocql.VerifC04IterState(it)
	if failed {
		return fmt.Sprintf("end:1,%d,x", pos)
	}
	return fmt.Sprintf("end:0,%d,%s", pos, vh.Hex(rest))
}

func execRows(api, dests string, fv int, wire []byte) string {
	it, err := gocql.VerifC04Iter(byte(fv), wire)
	if err != nil {
		return "err"
	}
	out := "ok M:" + gocql.VerifC04IterMeta(it, byte(fv))
	n := it.NumRows()
	var log []call
	mk := func() []interface{} {
		var ds []interface{}
		if dests == "A" {
			w := widths(it)
			for i := 0; i < w; i++ {
				ds = append(ds, &rec{log: &log, idx: i, fv: byte(fv)})
			}
			return ds[:len(ds):len(ds)]
		}
		for i, c := range dests {
			if c == '1' {
				ds = append(ds, &rec{log: &log, idx: i, fv: byte(fv)})
			} else {
				ds = append(ds, nil)
			}
		}
		// capacity = length: scanColumn's `dest[:count]` on a tuple column that needs more destinations than are left
		// must not silently reach into spare capacity left by append (the outcome would depend on how the caller
		// built the slice; the model says: slice bounds out of range)
		return ds[:len(ds):len(ds)]
	}
	var rows []string
	switch api {
	case "scan":
		for i := 0; i <= n; i++ {
			log = nil
			ok := it.Scan(mk()...)
			if !ok {
				if len(log) > 0 {
					rows = append(rows, "!"+fmtCalls(log))
				}
				break
			}
			rows = append(rows, fmtCalls(log))
		}
		return out + " rows:[" + strings.Join(rows, "|") + "] " + iterEnd(it)
	case "scanner":
		sc := it.Scanner()
		status := "done"
		for sc.Next() {
			log = nil
			if err := sc.Scan(mk()...); err != nil {
				rows = append(rows, "!"+fmtCalls(log))
				status = "scanerr"
				break
			}
			rows = append(rows, fmtCalls(log))
		}
		e := "0"
		if sc.Err() != nil {
			e = "1"
		}
		return out + " rows:[" + strings.Join(rows, "|") + "] " + status + " err:" + e
	case "mapscan":
		// a recorder under every RowData column name
		for i := 0; i <= n; i++ {
			rd, _ := it.RowData()
			m := map[string]interface{}{}
			for _, c := range rd.Columns {
				m[c] = &rec{fv: byte(fv), data: "nil"}
			}
			if !it.MapScan(m) {
				break
			}
			keys := make([]string, 0, len(m))
			for k, v := range m {
				d := "?"
				if r, ok := v.(rec); ok {
					d = r.data
				}
				keys = append(keys, vh.Hex([]byte(k))+"="+d)
			}
			sort.Strings(keys)
			rows = append(rows, "{"+strings.Join(keys, ",")+"}")
		}
		return out + " rows:[" + strings.Join(rows, "|") + "] " + iterEnd(it)
	case "slicemap":
		ms, err := it.SliceMap()
		if err != nil {
			return out + " err"
		}
		for _, m := range ms {
			keys := make([]string, 0, len(m))
			for k, v := range m {
				var d string
				switch x := v.(type) {
				case []byte:
					d = vh.Hex(x)
				case string:
					d = vh.Hex([]byte(x))
				default:
					d = fmt.Sprintf("?%T", v)
				}
				keys = append(keys, vh.Hex([]byte(k))+"="+d)
			}
			sort.Strings(keys)
			rows = append(rows, "{"+strings.Join(keys, ",")+"}")
		}
		return out + " rows:[" + strings.Join(rows, "|") + "] " + iterEnd(it)
	}
	return "bad-op"
}

func exec(op string) (res string) {
	defer func() {
		if r := recover(); r != nil {
			res = crashClass(r)
		}
	}()
	w := strings.Fields(op)
	if len(w) < 3 {
		return "bad-op"
	}
	switch w[0] {
	case "resp", "respx":
		d, _, _, err := gocql.VerifC04Recv(byte(atoi(w[1])), nil, unhex(w[len(w)-1]))
		if err != nil {
			return "err"
		}
		return d
	case "comp":
		fv := atoi(w[1])
		wire := unhex(w[len(w)-1])
		hs := headSize(fv)
		z, _ := gocql.SnappyCompressor{}.Encode(wire[hs:])
		h := append([]byte{}, wire[:hs]...)
		h[1] |= 0x01
		h[hs-4], h[hs-3], h[hs-2], h[hs-1] = byte(len(z)>>24), byte(len(z)>>16), byte(len(z)>>8), byte(len(z))
		d, _, _, err := gocql.VerifC04Recv(byte(fv), gocql.SnappyCompressor{}, append(h, z...))
		if err != nil {
			return "err"
		}
		// the header the driver saw differs from the uncompressed one in the compress flag and the length
		return d
	case "raw":
		d, err := gocql.VerifC04ParseBody(byte(atoi(w[1])), byte(atoi(w[2])), byte(atoi(w[3])), byte(atoi(w[4])), atoi(w[5]), unhex(w[6]))
		if err != nil {
			return "err"
		}
		return d
	case "rows", "rowsx":
		return execRows(w[1], w[2], atoi(w[3]), unhex(w[len(w)-1]))
	case "skip", "skipx":
		return execSkip(w)
	case "reuse", "reusex":
		return execReuseOp(w)
	case "pages", "pagesn", "pagesx":
		return execPages(w)
	case "qone":
		return execQone(w)
	}
	return "bad-op"
}

func main() {
	mode, tier, path := vh.Args()
	if mode == "replay" {
		for _, l := range vh.ReadLines(path) {
			fmt.Println(exec(l))
		}
		return
	}
	run(tier, path)
}
