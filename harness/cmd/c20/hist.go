// C20 harness, HISTORIES in one process:
//   tlshist  — several sessions created one after the other from ONE SslOptions / ONE caller *tls.Config object / ONE
//              path per file kind, with the Config's fields, EnableHostVerification and the files' contents changed in
//              between; per session: did connConfig fail, does the dial config it derived verify
//   tokalias — several PasswordAuthenticator.Challenge calls back to back, every returned token still held; what each
//              caller reads in its token after ALL the calls
//   tokpar   — the same with real start-up handshakes alive at once: every handshake is held between its Challenge
//              call and the write of its AUTH_RESPONSE until all the others have called Challenge too; what each node
//              received
package main

import (
	"crypto/tls"
	"encoding/binary"
	"fmt"
	"io"
	"net"
	"os"
	"path/filepath"
	"runtime"
	"strings"
	"sync"
	"time"

	"github.com/gocql/gocql"
	"verifharness/vh"
)

var histSeq int

// the content standing for a file state; ok=false: the file does not exist
func histContent(which, st string) (b []byte, ok bool) {
	p := thePKI
	switch st {
	case "valid":
		return map[string][]byte{"ca": p.caPEM, "cert": p.certPEM, "key": p.keyPEM}[which], true
	case "foreign":
		return map[string][]byte{"ca": p.cert2PEM, "cert": p.cert2PEM, "key": p.key2PEM}[which], true
	case "unreadable/missing":
		return nil, false
	case "unparsable/garbage":
		return []byte("this is not a PEM file\n"), true
	case "unparsable/empty":
		return nil, true
	}
	panic("bad file state for a history: " + st)
}

// tlsHistOp: `tlshist <cfg>:<ehv>:<ca>:<cert>:<key> …`
func tlsHistOp(w []string) string {
	if len(w) < 2 {
		return "bad-op"
	}
	histSeq++
	dir := filepath.Join(thePKI.dir, fmt.Sprintf("hist-%d", histSeq))
	if err := os.Mkdir(dir, 0o700); err != nil {
		panic(err)
	}
	defer os.RemoveAll(dir)
	// the objects the application keeps for the whole history
	user := &tls.Config{}
	opts := &gocql.SslOptions{}
	cluster := gocql.NewCluster("127.0.0.1")
	cluster.Logger = discardLogger
	cluster.SslOpts = opts
	var out []string
	for _, step := range w[1:] {
		p := strings.Split(step, ":")
		if len(p) != 5 {
			return "bad-op"
		}
		if p[0] == "nil" {
			opts.Config = nil
		} else {
			if len(p[0]) != 4 {
				return "bad-op"
			}
			user.InsecureSkipVerify = p[0][1] == '1'
			user.ServerName = ""
			if p[0][3] == '1' {
				user.ServerName = explicitServerName
			}
			opts.Config = user
		}
		opts.EnableHostVerification = p[1] == "1"
		paths := map[string]*string{"ca": &opts.CaPath, "cert": &opts.CertPath, "key": &opts.KeyPath}
		for i, which := range []string{"ca", "cert", "key"} {
			st := p[2+i]
			f := filepath.Join(dir, which+".pem")
			if st == "absent" {
				*paths[which] = ""
				continue
			}
			*paths[which] = f
			os.Remove(f)
			if b, ok := histContent(which, st); ok {
				if err := os.WriteFile(f, b, 0o600); err != nil {
					panic(err)
				}
			}
		}
		sess, err := gocql.VerifNewSess(cluster)
		switch {
		case err != nil:
			out = append(out, "error")
		case sess.SharedTLS() == nil:
			out = append(out, "NO-TLS-CONFIG")
		case sess.SharedTLS().InsecureSkipVerify:
			out = append(out, "noverify")
		default:
			out = append(out, "verify")
		}
		// the caller's own object keeps the values the caller gave it
		if opts.Config != nil && (user.InsecureSkipVerify != (p[0][1] == '1') || (user.ServerName != "") != (p[0][3] == '1')) {
			out[len(out)-1] += "+ALIAS:caller-config-written"
		}
	}
	return strings.Join(out, " ")
}

func parseChalCall(s string) (gocql.PasswordAuthenticator, []byte) {
	p := strings.Split(s, ":")
	if len(p) != 4 {
		panic("bad call " + s)
	}
	return gocql.PasswordAuthenticator{Username: string(mustHex(p[0])), Password: string(mustHex(p[1])), AllowedAuthenticators: parseList(p[2])},
		mustHex(p[3])
}

func showTok(b []byte, ok bool) string {
	if !ok {
		return "none"
	}
	return "tok:" + vh.Hex(b)
}

// tokAliasOp: `tokalias <user>:<pass>:<allowed>:<class> …`
func tokAliasOp(w []string) string {
	if len(w) < 2 {
		return "bad-op"
	}
	type heldTok struct {
		b  []byte
		ok bool
	}
	var held []heldTok
	for _, c := range w[1:] {
		a, cls := parseChalCall(c)
		resp, _, err := a.Challenge(cls)
		held = append(held, heldTok{resp, err == nil})
	}
	out := make([]string, len(held))
	for i, h := range held {
		out[i] = showTok(h.b, h.ok)
	}
	return strings.Join(out, " ")
}

// gate: every party arrives once (after its Challenge returned); nobody goes on before all have arrived. Arrival is
// in turn order, so the Challenge calls themselves do not overlap — only the holding of their results does.
type gate struct {
	mu      sync.Mutex
	cond    *sync.Cond
	turn    int
	arrived int
	n       int
}

func newGate(n int) *gate {
	g := &gate{n: n}
	g.cond = sync.NewCond(&g.mu)
	// a handshake that never reaches Challenge must not hold the others for ever
	time.AfterFunc(5*time.Second, func() {
		g.mu.Lock()
		g.turn, g.arrived = 1<<30, g.n
		g.cond.Broadcast()
		g.mu.Unlock()
	})
	return g
}

type gatedAuth struct {
	inner gocql.PasswordAuthenticator
	g     *gate
	idx   int
}

func (a gatedAuth) Challenge(req []byte) ([]byte, gocql.Authenticator, error) {
	g := a.g
	g.mu.Lock()
	for g.turn < a.idx {
		g.cond.Wait()
	}
	resp, next, err := a.inner.Challenge(req) // the real code; its result is now held …
	g.turn++
	g.arrived++
	g.cond.Broadcast()
	for g.arrived < g.n { // … until every other handshake has called Challenge too
		g.cond.Wait()
	}
	g.mu.Unlock()
	return resp, next, err
}

func (a gatedAuth) Success(data []byte) error { return nil }

// a node that demands authentication with `cls`, records the AUTH_RESPONSE body and accepts it
func authPeer(c net.Conn, cls []byte, got *[]byte, have *bool) {
	defer c.Close()
	c.SetDeadline(time.Now().Add(driverTimeout))
	script := []string{"sup", "auth:" + vh.Hex(cls), "succ"}
	for _, tok := range script {
		var hdr [9]byte
		if _, err := io.ReadFull(c, hdr[:]); err != nil {
			return
		}
		body := make([]byte, binary.BigEndian.Uint32(hdr[5:9]))
		if _, err := io.ReadFull(c, body); err != nil {
			return
		}
		if hdr[4] == 0x0f && len(body) >= 4 { // AUTH_RESPONSE: [bytes]
			n := int(int32(binary.BigEndian.Uint32(body[:4])))
			if n >= 0 && 4+n <= len(body) {
				*got, *have = append([]byte(nil), body[4:4+n]...), true
			}
		}
		op, b := frameFor(tok)
		out := []byte{0x84, 0, hdr[2], hdr[3], op, 0, 0, 0, 0}
		binary.BigEndian.PutUint32(out[5:9], uint32(len(b)))
		if _, err := c.Write(append(out, b...)); err != nil {
			return
		}
	}
}

// tokParOp: `tokpar <user>:<pass>:<allowed>:<class> …` — one real start-up handshake per call, all alive at once
func tokParOp(w []string) string {
	if len(w) < 2 {
		return "bad-op"
	}
	n := len(w) - 1
	// the handshakes share one scheduler context, as connections opened by one pool filler do
	defer runtime.GOMAXPROCS(runtime.GOMAXPROCS(1))
	g := newGate(n)
	got := make([][]byte, n)
	have := make([]bool, n)
	var wg sync.WaitGroup
	for i, c := range w[1:] {
		a, cls := parseChalCall(c)
		cli, srv := net.Pipe()
		wg.Add(2)
		go func(i int) { defer wg.Done(); authPeer(srv, cls, &got[i], &have[i]) }(i)
		go func(i int) {
			defer wg.Done()
			gocql.VerifStartup(cli, gatedAuth{inner: a, g: g, idx: i}, 4, driverTimeout)
			cli.Close()
		}(i)
	}
	wg.Wait()
	out := make([]string, n)
	for i := range out {
		out[i] = showTok(got[i], have[i])
	}
	return strings.Join(out, " ")
}

// genHist: a history of 2-5 sessions over one Config object / one set of paths
func genHist(r *vh.Rng) string {
	n := 2 + r.Intn(4)
	steps := make([]string, n)
	hasCfg := r.Intn(4) != 0
	ca := []string{"absent", "valid", "valid"}[r.Intn(3)]
	pair := [][2]string{{"absent", "absent"}, {"absent", "absent"}, {"valid", "valid"}}[r.Intn(3)]
	ins, sn, ehv := r.Intn(2), r.Intn(2), r.Intn(2)
	for i := range steps {
		// one thing changes from session to session (sometimes nothing, sometimes two things)
		for k := r.Intn(3); k > 0 || i == 0; k-- {
			switch r.Intn(7) {
			case 0, 1, 2:
				ins = 1 - ins
			case 3:
				ehv = 1 - ehv
			case 4:
				sn = 1 - sn
			case 5:
				if ca != "absent" {
					ca = []string{"valid", "unreadable/missing", "unparsable/garbage", "valid"}[r.Intn(4)]
				}
			case 6:
				if pair[0] != "absent" {
					pair = [][2]string{{"valid", "valid"}, {"valid", "foreign"}, {"unreadable/missing", "valid"}, {"foreign", "foreign"},
						{"valid", "unparsable/garbage"}}[r.Intn(5)]
				}
			}
			if i == 0 {
				break
			}
		}
		cfg := "nil"
		if hasCfg {
			cfg = fmt.Sprintf("I%dS%d", ins, sn)
		}
		steps[i] = fmt.Sprintf("%s:%d:%s:%s:%s", cfg, ehv, ca, pair[0], pair[1])
	}
	return strings.Join(steps, " ")
}

// genChalCalls: 2-5 Challenge calls on authenticators with their own credentials and allow-lists
func genChalCalls(r *vh.Rng, n int) string {
	calls := make([]string, n)
	for i := range calls {
		cls := defaults[r.Intn(len(defaults))]
		if r.Intn(4) == 0 {
			cls = genClass(r)
		}
		calls[i] = vh.Hex(genCred(r)) + ":" + vh.Hex(genCred(r)) + ":" + genAllowed(r, cls) + ":" + vh.Hex([]byte(cls))
	}
	return strings.Join(calls, " ")
}
