// C20 harness, dialling part: the dial itself for EVERY dialer configuration of a cluster (the caller's HostDialer;
// gocql's default host dialer around the caller's Dialer or its own net.Dialer; SslOpts absent / present) and
// SEVERAL dials through the one session configuration — connConfig → ConnConfig.HostDialer.DialHost
// (defaultHostDialer.DialHost → Dialer.DialContext → WrapTLS → tlsConfigForAddr → crypto/tls), in-process, against
// real listeners on 127.0.0.1 and ::1 that record what arrives (a TLS ClientHello and its SNI, or no TLS at all).
// Ops `dialplan` (model vs code) and `dialsec` (the property's demand: Spec.dialDemand).
package main

import (
	"bufio"
	"context"
	"crypto/tls"
	"crypto/x509"
	"encoding/pem"
	"errors"
	"fmt"
	"net"
	"os"
	"path/filepath"
	"strconv"
	"strings"
	"sync"
	"time"

	"github.com/gocql/gocql"
	"verifharness/vh"
)

// what a listener saw of one accepted connection
type dialRec struct {
	local string // canonical address the connection arrived at
	first string // tls | plain | none (closed without a byte)
	sni   string
	hs    string // ok | fail | -
}

type dialNode struct {
	id   string
	mu   sync.Mutex
	cert *tls.Certificate
}

type dialEnvT struct {
	dir      string
	caPath   string
	pool     *x509.CertPool
	nodes    map[string]*dialNode
	certs    map[string]*tls.Certificate // "<node>/<kind>"
	ports    map[int]string              // real port → the port text of the model
	real     map[string]int              // "<node>4" / "<node>6" / "closed" → real port
	recs     chan dialRec
	haveIPv6 bool
}

var dialEnv *dialEnvT

// the port texts of the model (Driver/C20.lean `parseDialTry`)
var modelPort = map[string]string{"a4": "9042", "b4": "9043", "a6": "9046", "b6": "9047", "closed": "9049"}

func getDialEnv() *dialEnvT {
	if dialEnv != nil {
		return dialEnv
	}
	e := &dialEnvT{nodes: map[string]*dialNode{}, certs: map[string]*tls.Certificate{}, pool: x509.NewCertPool(),
		ports: map[int]string{}, real: map[string]int{}, recs: make(chan dialRec, 64)}
	e.dir = thePKI.dir
	ca, poolCA, rogue := mkCA("verif-file-ca"), mkCA("verif-pool-ca"), mkCA("verif-rogue-ca")
	e.caPath = filepath.Join(e.dir, "dial-ca.pem")
	if err := os.WriteFile(e.caPath, pem.EncodeToMemory(&pem.Block{Type: "CERTIFICATE", Bytes: ca.cert.Raw}), 0o600); err != nil {
		panic(err)
	}
	e.pool.AddCert(poolCA.cert)
	ips := []net.IP{net.IPv4(127, 0, 0, 1), net.IPv6loopback}
	for id, other := range map[string]string{"a": "b", "b": "a"} {
		e.certs[id+"/good"] = mkLeaf(ca, []string{nodeNames[id], explicitServerName}, ips)
		e.certs[id+"/peer"] = mkLeaf(ca, []string{nodeNames[other], explicitServerName}, ips)
		e.certs[id+"/other"] = mkLeaf(ca, []string{"other.verif.example"}, nil)
		e.certs[id+"/poolgood"] = mkLeaf(poolCA, []string{nodeNames[id], explicitServerName}, ips)
		e.certs[id+"/rogue"] = mkLeaf(rogue, []string{nodeNames[id], explicitServerName}, ips)
		e.nodes[id] = &dialNode{id: id}
	}
	listen := func(network, addr, key string, n *dialNode) bool {
		ln, err := net.Listen(network, addr)
		if err != nil {
			return false
		}
		p := ln.Addr().(*net.TCPAddr).Port
		e.ports[p], e.real[key] = modelPort[key], p
		go func() {
			for {
				c, err := ln.Accept()
				if err != nil {
					return
				}
				go e.handle(n, c)
			}
		}()
		return true
	}
	e.haveIPv6 = true
	for _, id := range []string{"a", "b"} {
		if !listen("tcp4", "127.0.0.1:0", id+"4", e.nodes[id]) {
			panic("cannot listen on 127.0.0.1")
		}
		if !listen("tcp6", "[::1]:0", id+"6", e.nodes[id]) {
			e.haveIPv6 = false
		}
	}
	// a port nobody listens on
	ln, err := net.Listen("tcp4", "127.0.0.1:0")
	if err != nil {
		panic(err)
	}
	p := ln.Addr().(*net.TCPAddr).Port
	ln.Close()
	e.ports[p], e.real["closed"] = modelPort["closed"], p
	dialEnv = e
	return e
}

// canon: the address with the real port replaced by the model's port text
func (e *dialEnvT) canon(addr string) string {
	h, p, err := net.SplitHostPort(addr)
	if err != nil {
		return "?" + addr
	}
	n, _ := strconv.Atoi(p)
	if t, ok := e.ports[n]; ok {
		return net.JoinHostPort(h, t)
	}
	return net.JoinHostPort(h, "?")
}

func (e *dialEnvT) handle(n *dialNode, c net.Conn) {
	defer c.Close()
	rec := dialRec{local: e.canon(c.LocalAddr().String()), first: "none", sni: "-", hs: "-"}
	defer func() { e.recs <- rec }()
	n.mu.Lock()
	cert := n.cert
	n.mu.Unlock()
	c.SetDeadline(time.Now().Add(driverTimeout))
	br := bufio.NewReader(c)
	b, err := br.Peek(1)
	if err != nil {
		return // closed (or silent) without a byte: the client did not start a TLS handshake
	}
	if b[0] != 0x16 {
		rec.first = "plain"
		return
	}
	rec.first = "tls"
	tc := tls.Server(peekedConn{c, br}, &tls.Config{MinVersion: tls.VersionTLS12, SessionTicketsDisabled: true,
		GetCertificate: func(h *tls.ClientHelloInfo) (*tls.Certificate, error) {
			rec.sni = vh.Hex([]byte(h.ServerName))
			return cert, nil
		}})
	if err := tc.Handshake(); err != nil {
		rec.hs = "fail"
		return
	}
	rec.hs = "ok"
	// wait for the client to hang up, so that the record is complete when the harness reads it
	tc.SetDeadline(time.Now().Add(driverTimeout))
	var one [1]byte
	tc.Read(one[:])
}

// the caller's Dialer: a TCP dial that records the address it was asked for
type recDialer struct {
	mu    sync.Mutex
	addrs []string
	d     net.Dialer
}

func (r *recDialer) DialContext(ctx context.Context, network, addr string) (net.Conn, error) {
	r.mu.Lock()
	r.addrs = append(r.addrs, network+"/"+addr)
	r.mu.Unlock()
	return r.d.DialContext(ctx, network, addr)
}

var errCallerDialer = errors.New("verif: the caller's HostDialer was asked")
var errCallerVeto = errors.New("verif: the caller's VerifyConnection rejects this node")

// the caller's HostDialer: records the call and hands out nothing
type recHostDialer struct{ calls []string }

func (r *recHostDialer) DialHost(ctx context.Context, host *gocql.HostInfo) (*gocql.DialedHost, error) {
	r.calls = append(r.calls, strconv.Itoa(host.Port()))
	return nil, errCallerDialer
}

type dialTarget struct {
	hostname string
	ip       net.IP
	port     int
	node     string
}

func (e *dialEnvT) target(d string) dialTarget {
	p := strings.Split(strings.TrimSuffix(d, "!"), ":")
	if len(p) != 2 || e.nodes[p[0]] == nil {
		panic("bad dial " + d)
	}
	n := p[0]
	v4, v6 := net.IPv4(127, 0, 0, 1), net.IPv6loopback
	switch p[1] {
	case "n":
		return dialTarget{nodeNames[n], v4, e.real[n+"4"], n}
	case "i":
		return dialTarget{"", v4, e.real[n+"4"], n}
	case "6":
		return dialTarget{"", v6, e.real[n+"6"], n}
	case "m":
		return dialTarget{nodeNames[n], v6, e.real[n+"6"], n}
	case "x":
		return dialTarget{nodeNames[n], nil, e.real[n+"4"], n}
	case "z":
		return dialTarget{nodeNames[n], v4, 0, n}
	case "f":
		return dialTarget{nodeNames[n], v4, e.real["closed"], n}
	}
	panic("bad dial kind " + d)
}

// dialOp: `<dialplan|dialsec> hd=<0|1> d=<0|1> ssl=<-|cfg:ehv:ca> <certA> <certB> <dial>…`
func dialOp(w []string) string {
	if len(w) < 7 {
		return "bad-op"
	}
	e := getDialEnv()
	op := w[0]
	hd, dl, ssl := kv(w[1], "hd"), kv(w[2], "d"), kv(w[3], "ssl")
	certKind := map[string]string{"a": w[4], "b": w[5]}
	dials := w[6:]
	for id, n := range e.nodes {
		c := e.certs[id+"/"+certKind[id]]
		if c == nil {
			panic("bad cert kind " + certKind[id])
		}
		n.mu.Lock()
		n.cert = c
		n.mu.Unlock()
	}
	cfg := gocql.NewCluster("127.0.0.1")
	cfg.ProtoVersion, cfg.ConnectTimeout, cfg.Timeout = 4, driverTimeout, driverTimeout
	cfg.Logger = discardLogger
	var rhd *recHostDialer
	var rd *recDialer
	if hd == "1" {
		rhd = &recHostDialer{}
		cfg.HostDialer = rhd
	}
	if dl == "1" {
		rd = &recDialer{d: net.Dialer{Timeout: driverTimeout}}
		cfg.Dialer = rd
	}
	var vsn []string // ServerName as crypto/tls reports it to the caller's VerifyConnection
	var vmu sync.Mutex
	veto := false // the caller's callback rejects the dial in progress (`<dial>!`)
	if ssl != "-" {
		p := strings.Split(ssl, ":")
		if len(p) != 3 {
			return "bad-op"
		}
		o := &gocql.SslOptions{EnableHostVerification: p[1] == "1"}
		switch p[2] {
		case "absent":
		case "valid":
			o.CaPath = e.caPath
		default:
			o.CaPath = thePKI.path("ca", p[2])
		}
		if p[0] != "nil" {
			if len(p[0]) != 6 {
				return "bad-op"
			}
			o.Config = &tls.Config{InsecureSkipVerify: p[0][1] == '1'}
			if p[0][3] == '1' {
				o.Config.ServerName = explicitServerName
			}
			if p[0][5] == '1' {
				o.Config.RootCAs = e.pool.Clone()
			}
			o.Config.VerifyConnection = func(cs tls.ConnectionState) error {
				vmu.Lock()
				vsn = append(vsn, vh.Hex([]byte(cs.ServerName)))
				v := veto
				vmu.Unlock()
				if v {
					return errCallerVeto
				}
				return nil
			}
		}
		cfg.SslOpts = o
	}
	sess, err := gocql.VerifNewSess(cfg)
	if err != nil {
		return "err:tlsconfig"
	}
	if dflt, own := sess.UsesDefaultHostDialer(); dflt == (hd == "1") || (dflt && own != (dl == "1")) {
		return fmt.Sprintf("WRONG-DIALER default=%v callers-dialer=%v", dflt, own)
	}
	shared := sess.SharedTLS()
	var sn0 string
	var ins0 bool
	if shared != nil {
		sn0, ins0 = shared.ServerName, shared.InsecureSkipVerify
	}
	var out []string
	for _, d := range dials {
		t := e.target(d)
		// forget what earlier dials left behind
		for len(e.recs) > 0 {
			<-e.recs
		}
		vmu.Lock()
		vsn = nil
		veto = strings.HasSuffix(d, "!")
		vmu.Unlock()
		if rd != nil {
			rd.addrs = nil
		}
		if rhd != nil {
			rhd.calls = nil
		}
		var dh *gocql.DialedHost
		var derr error
		crash := ""
		func() {
			defer func() {
				if r := recover(); r != nil {
					m := fmt.Sprint(r)
					if strings.Contains(m, "no valid connect address") {
						crash = "crash:ConnectAddress"
					} else {
						crash = "crash:" + strings.ReplaceAll(m, " ", "_")
					}
				}
			}()
			ctx, cancel := context.WithTimeout(context.Background(), driverTimeout)
			defer cancel()
			dh, derr = sess.DialHost(ctx, t.hostname, t.ip, t.port)
		}()
		res, co := "", "-"
		proceeded := false
		switch {
		case crash != "":
			res = crash
		case derr == errCallerDialer:
			res = "caller"
			if len(rhd.calls) != 1 || rhd.calls[0] != strconv.Itoa(t.port) {
				res = "caller-calls=" + strings.Join(rhd.calls, ",")
			}
		case derr != nil:
			m := derr.Error()
			var oe *net.OpError
			switch {
			case strings.Contains(m, "host missing port"):
				res = "err:no-port"
			case strings.Contains(m, "host missing connect ip address"):
				res = "err:no-ip"
			case strings.Contains(m, "x509:") || strings.Contains(m, "tls:") || errors.Is(derr, errCallerVeto) || strings.Contains(m, errCallerVeto.Error()):
				res = "err:tls"
			case errors.As(derr, &oe) && oe.Op == "dial":
				res = "err:dial"
			default:
				res = "err:other:" + strings.ReplaceAll(m, " ", "_")
			}
		case dh == nil || dh.Conn == nil:
			res = "err:nil-conn"
		default:
			proceeded = true
			co = "0"
			if dh.DisableCoalesce {
				co = "1"
			}
			if _, isTLS := dh.Conn.(*tls.Conn); isTLS {
				res = "tls"
			} else {
				res = "plain"
			}
			dh.Conn.Close()
		}
		// what the node saw: a record is certain after a returned connection or a TLS error; otherwise look briefly
		var rec *dialRec
		wait := 50 * time.Millisecond
		if proceeded || res == "err:tls" {
			wait = driverTimeout
		}
		if res != "caller" && res != "err:no-port" && res != "err:dial" && crash == "" || wait == driverTimeout {
			select {
			case r := <-e.recs:
				rec = &r
			case <-time.After(wait):
			}
		}
		tcp, sni, wrapped := "-", "-", "0"
		if rec != nil {
			tcp, sni = rec.local, rec.sni
			if rec.first == "tls" {
				wrapped = "1"
			}
			// the type of the returned connection and what the node saw must agree
			if res == "tls" && (rec.first != "tls" || rec.hs != "ok") {
				res = "tls-but-node-saw:" + rec.first + "/" + rec.hs
			}
			if res == "plain" && rec.first != "none" {
				res = "plain-but-node-saw:" + rec.first
			}
		} else if proceeded || res == "err:tls" {
			res += "-but-no-connection-arrived"
		}
		if rd != nil {
			switch {
			case len(rd.addrs) == 1 && strings.HasPrefix(rd.addrs[0], "tcp/"):
				a := e.canon(rd.addrs[0][4:])
				if rec != nil && a != tcp {
					tcp = "MISMATCH:" + a + "/" + tcp
				} else {
					tcp = a
				}
			case len(rd.addrs) > 1:
				tcp = "DIALLED:" + strings.Join(rd.addrs, ",")
			}
		}
		v := "-"
		vmu.Lock()
		if len(vsn) == 1 {
			v = vsn[0]
		} else if len(vsn) > 1 {
			v = "CALLED-" + strconv.Itoa(len(vsn))
		}
		vmu.Unlock()
		if !proceeded {
			v = "-" // (the callback runs before the handshake's outcome is known to the caller; only accepted dials count)
		}
		if op == "dialsec" {
			pr := "0"
			if proceeded {
				pr = "1"
			}
			out = append(out, fmt.Sprintf("%s wrapped=%s proceeded=%s", d, wrapped, pr))
		} else {
			out = append(out, fmt.Sprintf("%s tcp=%s sni=%s vsn=%s res=%s coalesce-off=%s", d, tcp, sni, v, res, co))
		}
		// the dialer's shared config must not have been written to
		if shared != nil && (shared.ServerName != sn0 || shared.InsecureSkipVerify != ins0) {
			out[len(out)-1] += fmt.Sprintf(" ALIAS:shared-config-now(ServerName=%q,InsecureSkipVerify=%v)", shared.ServerName, shared.InsecureSkipVerify)
		}
	}
	ans := strings.Join(out, " | ")
	if op == "dialplan" {
		st := "none"
		if shared != nil {
			st = "same"
			if shared.ServerName != sn0 || shared.InsecureSkipVerify != ins0 {
				st = "ALIAS"
			}
		}
		ans += " || shared=" + st
	}
	return ans
}

// genDialArgs: the arguments of a dialplan / dialsec op. secOnly: only what the spec-backed op quantifies over
// (gocql dials itself, configuration accepted, hosts with address and port, somebody listens).
func genDialArgs(r *vh.Rng, secOnly bool) (string, string) {
	e := getDialEnv()
	hd, dl := 0, r.Intn(2)
	if !secOnly && r.Intn(6) == 0 {
		hd = 1
	}
	ssl := "-"
	if r.Intn(5) != 0 {
		cfg := "nil"
		if r.Intn(3) != 0 {
			cfg = fmt.Sprintf("I%dS%dR%d", r.Intn(2), [...]int{0, 0, 1}[r.Intn(3)], r.Intn(2))
		}
		ca := []string{"absent", "valid", "valid"}[r.Intn(3)]
		if !secOnly && r.Intn(8) == 0 {
			ca = []string{"unreadable/missing", "unparsable/garbage"}[r.Intn(2)]
		}
		ssl = fmt.Sprintf("%s:%d:%s", cfg, r.Intn(2), ca)
	}
	kinds := []string{"good", "good", "good", "poolgood", "poolgood", "peer", "other", "rogue"}
	dk := []string{"n", "n", "i", "6", "m"}
	if !e.haveIPv6 {
		dk = []string{"n", "n", "i", "i", "n"}
	}
	if !secOnly {
		dk = append(dk, dk...)
		dk = append(dk, "x", "z", "f")
	}
	n := 1 + r.Intn(4)
	dials := make([]string, n)
	for i := range dials {
		dials[i] = []string{"a", "b"}[r.Intn(2)] + ":" + dk[r.Intn(len(dk))]
	}
	if n >= 2 && r.Bool() { // both nodes by name, one after the other, through the one shared config
		dials[0], dials[1] = "a:n", "b:n"
		if r.Bool() {
			dials[0], dials[1] = "b:n", "a:n"
		}
	}
	for i := range dials { // the caller's own VerifyConnection callback rejects this node
		if r.Intn(6) == 0 {
			dials[i] += "!"
		}
	}
	kind := "plain"
	switch {
	case hd == 1:
		kind = "hostdialer"
	case ssl != "-":
		kind = "tls"
	}
	if dl == 1 {
		kind += "+dialer"
	}
	return fmt.Sprintf("hd=%d d=%d ssl=%s %s %s %s", hd, dl, ssl, kinds[r.Intn(len(kinds))], kinds[r.Intn(len(kinds))],
		strings.Join(dials, " ")), kind
}
