// Harness for C20 (TLS verification table, credential disclosure): runs the real setupTLSConfig /
// tlsConfigForAddr / HostnameAndPort / approve / PasswordAuthenticator.Challenge and the real connection
// start-up against a scripted peer, on all combinations of the finite domains plus generated strings, and
// writes op lines + implementation answers for comparison with the Lean model (lean/Model/TlsAuth.lean).
package main

import (
	"bytes"
	"crypto/ecdsa"
	"crypto/elliptic"
	"crypto/rand"
	"crypto/tls"
	"crypto/x509"
	"crypto/x509/pkix"
	"encoding/pem"
	"fmt"
	"io"
	"math/big"
	"net"
	"os"
	"path/filepath"
	"regexp"
	"strconv"
	"strings"
	"time"

	"github.com/gocql/gocql"
	"verifharness/vh"
)

// ---------- throw-away PKI in a temp dir

type pki struct {
	dir                                       string
	caPEM, certPEM, keyPEM, cert2PEM, key2PEM []byte
	otherCert                                 *x509.Certificate
	tlsCert                                   tls.Certificate
}

func mkCert(cn string) (certPEM, keyPEM []byte, cert *x509.Certificate) {
	k, err := ecdsa.GenerateKey(elliptic.P256(), rand.Reader)
	if err != nil {
		panic(err)
	}
	tpl := &x509.Certificate{
		SerialNumber: big.NewInt(time.Now().UnixNano()), Subject: pkix.Name{CommonName: cn},
		NotBefore: time.Now().Add(-time.Hour), NotAfter: time.Now().Add(24 * time.Hour),
		KeyUsage: x509.KeyUsageDigitalSignature | x509.KeyUsageCertSign, IsCA: true, BasicConstraintsValid: true,
		DNSNames: []string{cn},
	}
	der, err := x509.CreateCertificate(rand.Reader, tpl, tpl, &k.PublicKey, k)
	if err != nil {
		panic(err)
	}
	kb, err := x509.MarshalECPrivateKey(k)
	if err != nil {
		panic(err)
	}
	cert, _ = x509.ParseCertificate(der)
	return pem.EncodeToMemory(&pem.Block{Type: "CERTIFICATE", Bytes: der}), pem.EncodeToMemory(&pem.Block{Type: "EC PRIVATE KEY", Bytes: kb}), cert
}

func newPKI() *pki {
	dir, err := os.MkdirTemp("", "verif-c20-")
	if err != nil {
		panic(err)
	}
	p := &pki{dir: dir}
	p.caPEM, _, _ = mkCert("verif-ca")
	p.certPEM, p.keyPEM, _ = mkCert("verif-client")
	p.cert2PEM, p.key2PEM, p.otherCert = mkCert("verif-other")
	p.tlsCert, err = tls.X509KeyPair(p.cert2PEM, p.key2PEM)
	if err != nil {
		panic(err)
	}
	w := func(name string, b []byte) {
		if err := os.WriteFile(filepath.Join(dir, name), b, 0o600); err != nil {
			panic(err)
		}
	}
	w("ca.pem", p.caPEM)
	w("cert.pem", p.certPEM)
	w("key.pem", p.keyPEM)
	w("cert2.pem", p.cert2PEM)
	w("key2.pem", p.key2PEM)
	w("garbage.pem", []byte("this is not a PEM file\n"))
	w("empty.pem", nil)
	w("badblock.pem", []byte("-----BEGIN CERTIFICATE-----\nAAAA\n-----END CERTIFICATE-----\n"))
	os.Mkdir(filepath.Join(dir, "adir"), 0o700)
	return p
}

// path of the file standing for a state token (`valid`, `unreadable/missing`, …); which = ca|cert|key
func (p *pki) path(which, st string) string {
	j := func(n string) string { return filepath.Join(p.dir, n) }
	switch st {
	case "absent":
		return ""
	case "valid":
		return j(which + ".pem")
	case "unreadable/missing":
		return j("does-not-exist.pem")
	case "unreadable/dir":
		return j("adir")
	case "unparsable/garbage":
		return j("garbage.pem")
	case "unparsable/empty":
		return j("empty.pem")
	case "unparsable/badblock":
		return j("badblock.pem")
	case "unparsable/keyfile": // a well-formed PEM file of the wrong kind
		if which == "key" {
			return j("cert.pem")
		}
		return j("key.pem")
	case "foreign": // well-formed half of ANOTHER pair
		return j(which + "2.pem")
	}
	panic("bad file state " + st)
}

var thePKI *pki

// ---------- documented tables

var rowRe = regexp.MustCompile(`^\s*//\s*(Config is nil|false|true)\s*\|\s*(true|false)\s*\|\s*(verify host|do not verify host)\s*$`)

func docTable(file string) map[string]string {
	b, err := os.ReadFile(filepath.Join(gocql.VerifSourceDir(), file))
	if err != nil {
		panic(err)
	}
	t := map[string]string{}
	for _, l := range strings.Split(string(b), "\n") {
		m := rowRe.FindStringSubmatch(l)
		if m == nil {
			continue
		}
		c := m[1]
		if c == "Config is nil" {
			c = "nil"
		}
		res := "verify"
		if m[3] != "verify host" {
			res = "noverify"
		}
		k := c + " " + m[2]
		if old, ok := t[k]; ok && old != res {
			res = "conflict"
		}
		t[k] = res
	}
	return t
}

// ---------- scripted CQL peer for the start-up handshake

const (
	opError, opStartup, opReady, opAuthenticate, opOptions, opSupported = 0x00, 0x01, 0x02, 0x03, 0x05, 0x06
	opResult, opAuthChallenge, opAuthResponse, opAuthSuccess            = 0x08, 0x0E, 0x0F, 0x10
)

func frameFor(tok string) (byte, []byte) {
	switch {
	case tok == "sup":
		return opSupported, []byte{0, 0}
	case tok == "rdy":
		return opReady, nil
	case tok == "chal":
		return opAuthChallenge, []byte{0, 0, 0, 1, 'x'}
	case tok == "succ":
		return opAuthSuccess, []byte{0xff, 0xff, 0xff, 0xff}
	case tok == "err":
		msg := "bad credentials"
		b := []byte{0, 0, 0x01, 0x00, 0, byte(len(msg))}
		return opError, append(b, msg...)
	case tok == "other":
		return opResult, []byte{0, 0, 0, 1}
	case strings.HasPrefix(tok, "chal:"), strings.HasPrefix(tok, "succ:"):
		d, err := vh.UnHex(tok[5:])
		if err != nil {
			panic("bad payload")
		}
		b := []byte{byte(len(d) >> 24), byte(len(d) >> 16), byte(len(d) >> 8), byte(len(d))}
		if tok[0] == 'c' {
			return opAuthChallenge, append(b, d...)
		}
		return opAuthSuccess, append(b, d...)
	case strings.HasPrefix(tok, "auth:"):
		cls, err := vh.UnHex(tok[5:])
		if err != nil || len(cls) > 65535 {
			panic("bad class")
		}
		b := []byte{byte(len(cls) >> 8), byte(len(cls))}
		return opAuthenticate, append(b, cls...)
	}
	panic("bad frame token " + tok)
}

func classify(err error) string {
	if err == nil {
		return "ready"
	}
	m := err.Error()
	switch {
	case strings.Contains(m, errAuthenticator.Error()):
		return "err:authenticator"
	case strings.Contains(m, errAuthSuccess.Error()):
		return "err:auth-success"
	case strings.Contains(m, errProvider.Error()):
		return "err:provider"
	case strings.Contains(m, "Can't use both Authenticator and AuthProvider"):
		return "err:both"
	case strings.Contains(m, "x509:") || strings.Contains(m, "tls:"):
		return "err:tls-verify"
	case strings.Contains(m, "Unknown type of response to startup frame"):
		return "err:protocol"
	case strings.Contains(m, "authentication required"):
		return "err:auth-required"
	case strings.Contains(m, "unexpected authenticator"):
		return "err:unapproved"
	case strings.Contains(m, "unknown frame response during authentication"):
		return "err:auth-frame"
	case strings.Contains(m, "the authenticator provided no challenger"):
		return "err:no-challenger"
	}
	if _, ok := err.(gocql.RequestError); ok || strings.Contains(m, "bad credentials") {
		return "err:server"
	}
	if err == io.EOF || strings.Contains(m, "closed pipe") || strings.Contains(m, "EOF") {
		return "err:closed"
	}
	return "err:other:" + strings.ReplaceAll(m, " ", "_")
}

// allNone: no connection of a sessauth answer carries a token
func allNone(a string) bool {
	return strings.Count(a, "tok=") == strings.Count(a, "tok=none")
}

func parseList(s string) []string {
	if s == "none" {
		return nil
	}
	var l []string
	for _, h := range strings.Split(s, ",") {
		b, err := vh.UnHex(h)
		if err != nil {
			panic("bad hex")
		}
		l = append(l, string(b))
	}
	return l
}

func mustHex(s string) []byte {
	b, err := vh.UnHex(s)
	if err != nil {
		panic("bad hex")
	}
	return b
}

// ---------- ops

func tlsOp(w []string) string {
	cfgTok, ehv, ca, cert, key, spare := w[1], w[2] == "1", w[3], w[4], w[5], w[6] == "1"
	p := thePKI
	o := &gocql.SslOptions{EnableHostVerification: ehv, CaPath: p.path("ca", ca), CertPath: p.path("cert", cert), KeyPath: p.path("key", key)}
	var user *tls.Config
	var pool *x509.CertPool
	nCerts := 0
	if cfgTok != "nil" {
		// I<0|1>S<0|1>R<0|1>C<n>
		if len(cfgTok) < 8 {
			panic("bad cfg")
		}
		user = &tls.Config{InsecureSkipVerify: cfgTok[1] == '1'}
		if cfgTok[3] == '1' {
			user.ServerName = "sn.example"
		}
		if cfgTok[5] == '1' {
			pool = x509.NewCertPool()
			pool.AddCert(p.otherCert)
			user.RootCAs = pool
		}
		n, err := strconv.Atoi(cfgTok[7:])
		if err != nil {
			panic("bad cfg")
		}
		nCerts = n
		c := nCerts
		if spare {
			c += 2
		}
		user.Certificates = make([]tls.Certificate, nCerts, c)
		for i := range user.Certificates {
			user.Certificates[i] = p.tlsCert
		}
		o.Config = user
	}
	var before tls.Config
	poolBefore := 0
	if user != nil {
		before = *user.Clone()
		if pool != nil {
			poolBefore = len(pool.Subjects())
		}
	}
	optsBefore := *o
	got, err := gocql.VerifSetupTLSConfig(o)
	var res string
	if err != nil {
		m := err.Error()
		switch {
		case strings.Contains(m, "unable to open CA certs"):
			res = "err:ca-open"
		case strings.Contains(m, "failed parsing or CA certs"):
			res = "err:ca-parse"
		case strings.Contains(m, "unable to load X509 key pair"):
			res = "err:keypair"
		default:
			res = "err:other"
		}
		if got != nil {
			res += "+config"
		}
	} else {
		b := func(x bool) string {
			if x {
				return "1"
			}
			return "0"
		}
		res = fmt.Sprintf("ok insecure=%s sn=%s rootcas=%s certs=%d", b(got.InsecureSkipVerify), vh.Hex([]byte(got.ServerName)), b(got.RootCAs != nil), len(got.Certificates))
		if got == user {
			res += " ALIAS:result-is-caller-config"
		}
	}
	// aliasing: the caller's own objects after the call
	poolSt, backing := "none", "clean"
	if *o != optsBefore {
		res += " ALIAS:SslOptions-modified"
	}
	if user != nil {
		if user.InsecureSkipVerify != before.InsecureSkipVerify || user.ServerName != before.ServerName ||
			len(user.Certificates) != len(before.Certificates) || user.RootCAs != before.RootCAs {
			res += " ALIAS:caller-config-fields-modified"
		}
		if pool != nil {
			poolSt = "same"
			if len(pool.Subjects()) != poolBefore {
				poolSt = "grew"
			}
		}
		full := user.Certificates[:cap(user.Certificates)]
		for i := nCerts; i < len(full); i++ {
			if full[i].Certificate != nil {
				backing = "written"
			}
		}
	}
	return res + " callerpool=" + poolSt + " backing=" + backing
}

func exec(op string) (res string) {
	defer func() {
		if r := recover(); r != nil {
			res = fmt.Sprintf("crash:%v", r)
		}
	}()
	w := strings.Fields(op)
	if len(w) == 0 {
		return "bad-op"
	}
	switch w[0] {
	case "dialplan", "dialsec":
		return dialOp(w)
	case "tlshist":
		return tlsHistOp(w)
	case "tokalias":
		return tokAliasOp(w)
	case "tokpar":
		return tokParOp(w)
	case "tls":
		if len(w) != 7 {
			return "bad-op"
		}
		return tlsOp(w)
	case "sni":
		cfg := &tls.Config{InsecureSkipVerify: w[1] == "1", ServerName: string(mustHex(w[2]))}
		before := *cfg.Clone()
		got := gocql.VerifTLSConfigForAddr(cfg, string(mustHex(w[3])))
		if cfg.InsecureSkipVerify != before.InsecureSkipVerify || cfg.ServerName != before.ServerName {
			return "ALIAS:caller-config-modified"
		}
		if got.InsecureSkipVerify != cfg.InsecureSkipVerify {
			return "insecure-changed"
		}
		cl := "1"
		if got == cfg {
			cl = "0"
		}
		return vh.Hex([]byte(got.ServerName)) + " cloned=" + cl
	case "join":
		port, err := strconv.Atoi(string(mustHex(w[2])))
		if err != nil {
			return "bad-op"
		}
		return vh.Hex([]byte(gocql.VerifHostnameAndPort(string(mustHex(w[1])), net.IPv4(10, 0, 0, 1), port)))
	case "approve":
		return fmt.Sprint(gocql.VerifApprove(string(mustHex(w[1])), parseList(w[2])))
	case "challenge":
		p := gocql.PasswordAuthenticator{Username: string(mustHex(w[1])), Password: string(mustHex(w[2])), AllowedAuthenticators: parseList(w[3])}
		resp, next, err := p.Challenge(mustHex(w[4]))
		if err != nil {
			if resp != nil {
				return "err+token"
			}
			return "err"
		}
		if next != nil {
			return "unexpected-challenger"
		}
		return vh.Hex(resp)
	// ---- property oracles
	case "verify":
		o := &gocql.SslOptions{EnableHostVerification: w[2] == "true"}
		if w[1] != "nil" {
			o.Config = &tls.Config{InsecureSkipVerify: w[1] == "true"}
		}
		c, err := gocql.VerifSetupTLSConfig(o)
		if err != nil {
			return "err"
		}
		if c.InsecureSkipVerify {
			return "noverify"
		}
		return "verify"
	case "untouched":
		if len(w) != 7 {
			return "bad-op"
		}
		a := tlsOp(w)
		var l []string
		if strings.Contains(a, "ALIAS:") {
			l = append(l, "fields")
		}
		if strings.Contains(a, "callerpool=grew") {
			l = append(l, "pool")
		}
		if strings.Contains(a, "backing=written") {
			l = append(l, "backing")
		}
		if len(l) == 0 {
			return "untouched"
		}
		return "MODIFIED:" + strings.Join(l, "+")
	case "badfile":
		p := thePKI
		_, err := gocql.VerifSetupTLSConfig(&gocql.SslOptions{EnableHostVerification: true,
			CaPath: p.path("ca", w[1]), CertPath: p.path("cert", w[2]), KeyPath: p.path("key", w[3])})
		if err != nil {
			return "error"
		}
		return "config"
	case "snihost":
		port, err := strconv.Atoi(string(mustHex(w[2])))
		if err != nil {
			return "bad-op"
		}
		addr := gocql.VerifHostnameAndPort(string(mustHex(w[1])), net.IPv4(10, 0, 0, 1), port)
		c := gocql.VerifTLSConfigForAddr(&tls.Config{}, addr)
		return vh.Hex([]byte(c.ServerName))
	case "doc":
		t := docTable(w[1])
		if r, ok := t[w[2]+" "+w[3]]; ok {
			return r
		}
		return "missing"
	}
	return "bad-op"
}

// ---------- generators

var fileStates = map[string][]string{
	"ca":   {"absent", "valid", "unreadable/missing", "unreadable/dir", "unparsable/garbage", "unparsable/empty", "unparsable/badblock", "unparsable/keyfile"},
	"cert": {"absent", "valid", "unreadable/missing", "unreadable/dir", "unparsable/garbage", "unparsable/empty", "unparsable/keyfile", "foreign"},
	"key":  {"absent", "valid", "unreadable/missing", "unreadable/dir", "unparsable/garbage", "unparsable/empty", "unparsable/keyfile", "foreign"},
}

var defaults []string

func genClass(r *vh.Rng) string {
	d := defaults[r.Intn(len(defaults))]
	switch r.Intn(10) {
	case 0:
		return ""
	case 1: // prefix / suffix / case variants of an approved name
		switch r.Intn(6) {
		case 0:
			return d[:len(d)-1]
		case 1:
			return d + "x"
		case 2:
			return strings.ToUpper(d)
		case 3:
			return " " + d
		case 4:
			return d + "\x00"
		default:
			return d[1:]
		}
	case 2:
		return "org.apache.cassandra.auth.AllowAllAuthenticator"
	case 3:
		return "com.evil.auth.Harvester"
	case 4:
		return string(r.Bytes(1 + r.Intn(12)))
	case 5:
		return "org.apache.cassandra.auth.PässwordAuthenticator"
	default:
		return d
	}
}

func genCred(r *vh.Rng) []byte {
	switch r.Intn(8) {
	case 0:
		return nil
	case 1:
		return []byte("cassandra")
	case 2:
		return []byte("pässwörd-密码-🔑")
	case 3:
		return r.Bytes(1 + r.Intn(20))
	case 4:
		return []byte{0}
	case 5:
		return []byte("a\x00b")
	case 6:
		return bytes.Repeat([]byte("x"), 300)
	default:
		b := r.Bytes(1 + r.Intn(12))
		for i := range b {
			b[i] = b[i]%94 + 33
		}
		return b
	}
}

func genAllowed(r *vh.Rng, cls string) string {
	switch r.Intn(6) {
	case 0, 1:
		return "none"
	case 2:
		return vh.Hex([]byte(cls))
	case 3:
		return vh.Hex([]byte("com.example.Custom")) + "," + vh.Hex([]byte(cls))
	case 4:
		return vh.Hex([]byte("com.example.Custom"))
	default:
		return vh.Hex([]byte("com.example.Custom")) + "," + vh.Hex([]byte(defaults[r.Intn(len(defaults))]))
	}
}

func genHost(r *vh.Rng) (string, string) {
	switch r.Intn(9) {
	case 0:
		return "cassandra-1.example.com", "name"
	case 1:
		return fmt.Sprintf("%d.%d.%d.%d", r.Intn(256), r.Intn(256), r.Intn(256), r.Intn(256)), "ipv4"
	case 2:
		return "::1", "ipv6"
	case 3:
		return fmt.Sprintf("2001:db8::%x:%x", r.Intn(65536), r.Intn(65536)), "ipv6"
	case 4:
		return "fe80::1%eth0", "ipv6-zone"
	case 5:
		return "", "empty"
	case 6:
		return "höst.example", "non-ascii"
	case 7:
		return "[::1]", "bracketed"
	default:
		return "localhost", "name"
	}
}

// ---------- generators of authenticator configurations and server scripts

func genCustom(r *vh.Rng) string {
	n := [...]int{0, 1, 1, 2, 2, 3}[r.Intn(6)]
	var rs []string
	for i := 0; i < n; i++ {
		resp := r.Bytes(r.Intn(5))
		f, l := "0", "0"
		if r.Intn(7) == 0 {
			f = "1"
		}
		if r.Intn(4) == 0 {
			l = "1"
		}
		rs = append(rs, vh.Hex(resp)+"."+f+l)
	}
	rounds := "none"
	if n > 0 {
		rounds = strings.Join(rs, ",")
	}
	sf := "0"
	if r.Intn(4) == 0 {
		sf = "1"
	}
	return "cu:" + rounds + ":" + sf
}

func genPw(r *vh.Rng, cls string) string {
	return "pw:" + vh.Hex(genCred(r)) + ":" + vh.Hex(genCred(r)) + ":" + genAllowed(r, cls)
}

// an authenticator (never none)
func genAuthImpl(r *vh.Rng, cls string) string {
	if r.Intn(3) == 0 {
		return genCustom(r)
	}
	return genPw(r, cls)
}

// what a provider returns for one host
func genProvRes(r *vh.Rng, cls string) string {
	switch r.Intn(8) {
	case 0, 1:
		return "nil"
	case 2:
		return "err"
	case 3:
		return genAuthImpl(r, cls) + "+err"
	default:
		return genAuthImpl(r, cls)
	}
}

// a provider table over hosts 1..3 (+ default); `force` (if not "") is the result for host h
func genProvider(r *vh.Rng, cls string, h int, force string) string {
	var es []string
	explicit := r.Intn(3) != 0 // the dialled host has its own entry / falls under the default
	for k := 1; k <= 3; k++ {
		if k == h {
			if explicit {
				res := force
				if res == "" {
					res = genProvRes(r, cls)
				}
				es = append(es, fmt.Sprintf("%d=%s", k, res))
			}
			continue
		}
		if r.Bool() {
			es = append(es, fmt.Sprintf("%d=%s", k, genProvRes(r, cls)))
		}
	}
	if !explicit {
		res := force
		if res == "" {
			res = genProvRes(r, cls)
		}
		es = append(es, "*="+res)
	} else if r.Bool() {
		es = append(es, "*="+genProvRes(r, cls))
	}
	if len(es) == 0 {
		es = append(es, "*=nil")
	}
	return strings.Join(es, "/")
}

// host, static Authenticator, AuthProvider
func genConn(r *vh.Rng, cls string) string {
	h := 1 + r.Intn(3)
	static, prov := "none", "-"
	switch r.Intn(10) {
	case 0: // nothing configured
	case 1, 2: // static only
		static = genAuthImpl(r, cls)
	case 3: // both (NewSession refuses it; Conn.init lets the provider decide)
		static = genAuthImpl(r, cls)
		prov = genProvider(r, cls, h, "")
	case 4, 5: // provider without credentials for the dialled host
		prov = genProvider(r, cls, h, "nil")
	default:
		prov = genProvider(r, cls, h, "")
	}
	return fmt.Sprintf("host=%d static=%s prov=%s", h, static, prov)
}

// a configuration WITHOUT credentials for the dialled host
func genNoCred(r *vh.Rng, cls string) string {
	h := 1 + r.Intn(3)
	prov := "-"
	if r.Intn(4) != 0 {
		prov = genProvider(r, cls, h, "nil")
	}
	return fmt.Sprintf("host=%d static=none prov=%s", h, prov)
}

// password / no credentials / provider error for the dialled host, never both Authenticator and AuthProvider
func genPwConn(r *vh.Rng, cls string) string {
	h := 1 + r.Intn(3)
	switch r.Intn(6) {
	case 0:
		return fmt.Sprintf("host=%d static=%s prov=-", h, genPw(r, cls))
	case 1:
		return fmt.Sprintf("host=%d static=none prov=%s", h, genProvider(r, cls, h, "nil"))
	case 2:
		return fmt.Sprintf("host=%d static=none prov=%s", h, genProvider(r, cls, h, []string{"err", genPw(r, cls) + "+err"}[r.Intn(2)]))
	default:
		return fmt.Sprintf("host=%d static=none prov=%s", h, genProvider(r, cls, h, genPw(r, cls)))
	}
}

// a distinctive secret: <prefix>-<10 random characters>, sometimes with a space, a quote or a non-ASCII character
func genSecret(r *vh.Rng, pfx string) []byte {
	const al = "abcdefghijklmnopqrstuvwxyz0123456789"
	b := []byte(pfx + "-")
	for i := 0; i < 10; i++ {
		b = append(b, al[r.Intn(len(al))])
	}
	switch r.Intn(6) {
	case 0:
		b = append(b, " \"x"...)
	case 1:
		b = append(b, "\xc3\xa9"...)
	}
	return b
}

// a configuration WITH credentials for the dialled host (password or caller-supplied tokens), all of them distinctive;
// never both Authenticator and AuthProvider
func genLeakConn(r *vh.Rng, cls string) string {
	h := 1 + r.Intn(3)
	auth := "pw:" + vh.Hex(genSecret(r, "usr")) + ":" + vh.Hex(genSecret(r, "pwd")) + ":" + genAllowed(r, cls)
	if r.Intn(4) == 0 {
		n := 1 + r.Intn(3)
		rs := make([]string, n)
		for i := range rs {
			l := "0"
			if i == n-1 && r.Bool() {
				l = "1"
			}
			rs[i] = vh.Hex(genSecret(r, "tok")) + ".0" + l
		}
		auth = "cu:" + strings.Join(rs, ",") + ":" + []string{"0", "0", "1"}[r.Intn(3)]
	}
	if r.Bool() {
		return fmt.Sprintf("host=%d static=%s prov=-", h, auth)
	}
	return fmt.Sprintf("host=%d static=none prov=%s", h, genProvider(r, cls, h, auth))
}

func genChal(r *vh.Rng) string {
	if r.Intn(3) == 0 {
		return "chal"
	}
	return "chal:" + vh.Hex(r.Bytes(r.Intn(6)))
}

func genSucc(r *vh.Rng) string {
	if r.Intn(2) == 0 {
		return "succ"
	}
	return "succ:" + vh.Hex(r.Bytes(r.Intn(6)))
}

// server script around an AUTHENTICATE for cls: challenge rounds and every kind of ending
func genAuthScript(r *vh.Rng, cls string) []string {
	script := []string{"sup", "auth:" + vh.Hex([]byte(cls))}
	k := [...]int{0, 0, 0, 1, 1, 2, 3}[r.Intn(7)]
	for i := 0; i < k; i++ {
		script = append(script, genChal(r))
	}
	switch r.Intn(9) {
	case 0:
	case 1:
		script = append(script, "rdy")
	case 2:
		script = append(script, "err")
	case 3:
		script = append(script, "other")
	case 4:
		script = append(script, "auth:"+vh.Hex([]byte(cls)))
	case 5:
		script = append(script, genSucc(r), "rdy")
	default:
		script = append(script, genSucc(r))
	}
	return script
}

func genScript(r *vh.Rng, cls string) []string {
	switch r.Intn(8) {
	case 0:
		return [][]string{{"sup", "rdy"}, {"sup"}, {"rdy"}, {"sup", "succ"}, {"sup", "other"}, {"succ"}, {}, {"sup", "err"}, {"sup", "chal"}, {"sup", "sup"}}[r.Intn(10)]
	case 1:
		frames := []string{"sup", "rdy", "chal", "succ", "err", "other", "auth:" + vh.Hex([]byte(cls))}
		script := make([]string, r.Intn(5))
		for i := range script {
			script[i] = frames[r.Intn(len(frames))]
		}
		return script
	default:
		return genAuthScript(r, cls)
	}
}

// a caller-supplied authenticator and a server script that fit together: k challenge rounds answered, then success
func genCoherent(r *vh.Rng, cls string) (string, []string) {
	k := r.Intn(4)
	var rs []string
	for i := 0; i <= k; i++ {
		fl := "00"
		if i == k && r.Bool() {
			fl = "01"
		}
		rs = append(rs, vh.Hex(r.Bytes(1+r.Intn(4)))+"."+fl)
	}
	sf := "0"
	if r.Intn(5) == 0 {
		sf = "1"
	}
	script := []string{"sup", "auth:" + vh.Hex([]byte(cls))}
	for i := 0; i < k; i++ {
		script = append(script, genChal(r))
	}
	return "cu:" + strings.Join(rs, ",") + ":" + sf, append(script, genSucc(r))
}

// end-to-end TLS scenario arguments: <cfg> <ehv> <ca> <auth> <class> <certA> <certB> <dial>…
func genTLSArgs(r *vh.Rng) string {
	cfg := "nil"
	if r.Intn(4) != 0 {
		cfg = fmt.Sprintf("I%dS%dR%d", r.Intn(2), [...]int{0, 0, 1}[r.Intn(3)], r.Intn(2))
	}
	ca := []string{"absent", "valid", "valid"}[r.Intn(3)]
	cls := defaults[r.Intn(len(defaults))]
	if r.Intn(6) == 0 {
		cls = genClass(r)
	}
	auth := genPw(r, cls)
	if r.Intn(8) == 0 {
		auth = "none"
	}
	kinds := []string{"good", "good", "good", "poolgood", "poolgood", "peer", "other", "rogue"}
	dialKinds := []string{"a:n", "b:n", "a:n", "b:n", "a:i", "b:i"}
	n := 1 + r.Intn(3)
	dials := make([]string, n)
	for i := range dials {
		dials[i] = dialKinds[r.Intn(len(dialKinds))]
	}
	if n >= 2 && r.Bool() { // both nodes by name through the one session configuration
		dials[0], dials[1] = "a:n", "b:n"
		if r.Bool() {
			dials[0], dials[1] = "b:n", "a:n"
		}
	}
	return fmt.Sprintf("%s %d %s %s %s %s %s %s", cfg, r.Intn(2), ca, auth, vh.Hex([]byte(cls)),
		kinds[r.Intn(len(kinds))], kinds[r.Intn(len(kinds))], strings.Join(dials, " "))
}

// ---------- several hosts, ONE session: per-host authenticators, each node advertising its own class, connections
// in every order (pool connections, control-connection dials, hosts re-dialled)

// genSess: `static=<auth> prov=<provider> n<h>=<class|rdy>… <p|c><h>…` and the kind of configuration.
// allowBoth: also configurations with Authenticator AND AuthProvider (NewSession refuses them; Conn.init does not).
func genSess(r *vh.Rng, allowBoth bool) (string, string) {
	k := 2 + r.Intn(3) // hosts 1..k
	// the class each host's OWN authenticator approves (its allow-list), and its credentials
	own := make([]string, k+1)
	for h := 1; h <= k; h++ {
		switch r.Intn(4) {
		case 0: // a built-in default class; the allow-list may then be empty (= the default list)
			own[h] = defaults[r.Intn(len(defaults))]
		case 1:
			own[h] = genClass(r)
		default:
			own[h] = fmt.Sprintf("org.example.auth.Authenticator%c", 'A'+h-1)
		}
	}
	isDefault := func(c string) bool {
		for _, d := range defaults {
			if d == c {
				return true
			}
		}
		return false
	}
	pwFor := func(h int) string {
		user, pass := []byte(fmt.Sprintf("user%d", h)), []byte(fmt.Sprintf("pw-%d-%x", h, r.Intn(256)))
		if r.Intn(5) == 0 {
			user, pass = genCred(r), genCred(r)
		}
		var allowed string
		switch x := r.Intn(6); {
		case x == 0 && isDefault(own[h]):
			allowed = "none"
		case x == 1: // its own class and another host's
			allowed = vh.Hex([]byte(own[h])) + "," + vh.Hex([]byte(own[1+r.Intn(k)]))
		case x == 2:
			allowed = vh.Hex([]byte("com.example.Custom")) + "," + vh.Hex([]byte(own[h]))
		default:
			allowed = vh.Hex([]byte(own[h]))
		}
		return "pw:" + vh.Hex(user) + ":" + vh.Hex(pass) + ":" + allowed
	}
	authFor := func(h int) string {
		if r.Intn(6) == 0 {
			return genCustom(r)
		}
		return pwFor(h)
	}
	static, prov, kind := "none", "-", ""
	mkProv := func() string {
		var es []string
		for h := 1; h <= k; h++ {
			switch x := r.Intn(12); {
			case x == 0:
				es = append(es, fmt.Sprintf("%d=nil", h))
			case x == 1:
				es = append(es, fmt.Sprintf("%d=err", h))
			case x == 2:
				es = append(es, fmt.Sprintf("%d=%s+err", h, authFor(h)))
			case x == 3: // no entry: the default applies
			default:
				es = append(es, fmt.Sprintf("%d=%s", h, authFor(h)))
			}
		}
		if r.Intn(3) == 0 || len(es) == 0 {
			es = append(es, "*="+[]string{"nil", "err", authFor(1 + r.Intn(k))}[r.Intn(3)])
		}
		return strings.Join(es, "/")
	}
	switch x := r.Intn(12); {
	case x == 0:
		kind = "neither"
	case x <= 2:
		kind, static = "static", authFor(1+r.Intn(k))
	case x == 3 && allowBoth:
		kind, static, prov = "both", authFor(1+r.Intn(k)), mkProv()
	case x == 4: // a provider that hands out the SAME authenticator for every host
		kind, prov = "provider-constant", "*="+authFor(1+r.Intn(k))
	default:
		kind, prov = "provider-per-host", mkProv()
	}
	var ws []string
	for h := 1; h <= k; h++ {
		var cls string
		switch r.Intn(8) {
		case 0:
			ws = append(ws, fmt.Sprintf("n%d=rdy", h))
			continue
		case 1, 2: // a class that (only) ANOTHER host's authenticator approves
			cls = own[1+(h+r.Intn(k-1))%k]
		case 3: // a class on nobody's list
			cls = []string{"com.evil.auth.Harvester", "org.apache.cassandra.auth.AllowAllAuthenticator", ""}[r.Intn(3)]
		case 4:
			cls = defaults[r.Intn(len(defaults))]
		default:
			cls = own[h]
		}
		ws = append(ws, fmt.Sprintf("n%d=%s", h, vh.Hex([]byte(cls))))
	}
	n := 2 + r.Intn(5)
	first := 1 + r.Intn(k)
	for i := 0; i < n; i++ {
		h := 1 + r.Intn(k)
		switch i {
		case 0:
			h = first
		case 1: // another host right after the first
			h = 1 + (first+r.Intn(k-1))%k
		}
		via := "p"
		if r.Intn(4) == 0 {
			via = "c"
		}
		ws = append(ws, fmt.Sprintf("%s%d", via, h))
	}
	return fmt.Sprintf("static=%s prov=%s %s", static, prov, strings.Join(ws, " ")), kind
}

// ---------- cases

type pending struct {
	op    string
	ans   string
	class func(ans string) string
}

func main() {
	mode, tier, path := vh.Args()
	if mode == "child" {
		childMain(path)
		return
	}
	thePKI = newPKI()
	defer os.RemoveAll(thePKI.dir)
	defaults = gocql.VerifDefaultApprovedAuthenticators()
	var cases []*pending
	var slowCase *pending
	// answers: ops that reach driver goroutines are run afterwards, in child processes
	resolve := func() {
		var idx []int
		var ops []string
		for i, c := range cases {
			if isChildOp(c.op) {
				idx = append(idx, i)
				ops = append(ops, c.op)
			}
		}
		res, answered := runScenarios(ops)
		for k, rw := range res {
			if !answered[k] {
				// say so in the stream: the model's answer to `slowrun` is that no scenario waits
				for j := 0; j < k; j++ {
					if res[j].slow || strings.HasPrefix(res[j].fatal, "hang:") {
						slowCase = &pending{op: "slowrun " + ops[j], ans: "scenario-exceeded-15s:" + res[j].outcome + res[j].fatal,
							class: func(string) string { return "slowrun" }}
						break
					}
				}
				// the campaign was cut short (scenarios sat out the driver's own time-outs): keep the answered prefix
				fmt.Fprintf(os.Stderr, "c20: %d slow scenarios, case stream cut at case %d of %d\n", maxSlow, idx[k], len(cases))
				cases = cases[:idx[k]]
				break
			}
			cases[idx[k]].ans = format(ops[k], rw)
		}
		if scratch != "" {
			os.RemoveAll(scratch)
		}
	}
	if mode == "replay" {
		for _, l := range vh.ReadLines(path) {
			c := &pending{op: l}
			if !isChildOp(l) {
				c.ans = exec(l)
			}
			cases = append(cases, c)
		}
		resolve()
		for _, c := range cases {
			fmt.Println(c.ans)
		}
		if slowCase != nil {
			fmt.Println(slowCase.ans)
		}
		return
	}
	r := vh.NewRng(vh.EnvSeed())
	out := vh.NewOut(path)
	mult, hm := 1, 4 // hm: multiplier of the handshake scenarios (cheap: run in batches in child processes)
	if tier == "thorough" {
		mult, hm = 30, 60
	}
	// add records a case; in-process ops are answered at once (the answer is returned), child ops later ("")
	add := func(op string, class func(ans string) string) string {
		c := &pending{op: op, class: class}
		if !isChildOp(op) {
			c.ans = exec(op)
		}
		cases = append(cases, c)
		return c.ans
	}
	fixed := func(cl string) func(string) string { return func(string) string { return cl } }
	// documented tables: all three copies, the whole domain
	for _, f := range []string{"doc.go", "conn.go", "connectionpool.go"} {
		for _, c := range []string{"nil", "false", "true"} {
			for _, e := range []string{"false", "true"} {
				add("doc "+f+" "+c+" "+e, fixed("doc/"+f))
			}
		}
	}
	// property oracles (first in the stream: the check driver keeps the first 50 disagreements)
	for _, c := range []string{"nil", "false", "true"} {
		for _, e := range []string{"false", "true"} {
			add("verify "+c+" "+e, fixed("oracle/verify"))
		}
	}
	for _, ca := range fileStates["ca"] {
		for _, cert := range fileStates["cert"] {
			for _, key := range fileStates["key"] {
				add("badfile "+ca+" "+cert+" "+key, func(a string) string { return "oracle/badfile/" + a })
			}
		}
	}
	for _, cfg := range []string{"I0S0R0C0", "I1S0R0C0", "I0S1R0C1", "I1S1R0C1", "I0S0R1C0", "I1S0R1C1", "I1S1R1C0"} {
		for _, ehv := range []string{"0", "1"} {
			for _, files := range [][3]string{{"absent", "absent", "absent"}, {"valid", "absent", "absent"}, {"valid", "valid", "valid"},
				{"absent", "valid", "valid"}, {"unparsable/garbage", "valid", "valid"}, {"valid", "valid", "foreign"}} {
				for _, spare := range []string{"0", "1"} {
					add(strings.Join([]string{"untouched", cfg, ehv, files[0], files[1], files[2], spare}, " "),
						func(a string) string { return "oracle/" + a })
				}
			}
		}
	}
	first := func(a string) string { return strings.Fields(a)[0] }
	tokOrNone := func(pfx string) func(string) string {
		return func(a string) string {
			if strings.HasPrefix(a, "token:") {
				return pfx + "token"
			}
			return pfx + first(a)
		}
	}
	for i := 0; i < 150*hm; i++ {
		cls := genClass(r)
		tail := [][]string{{}, {"succ"}, {"rdy"}, {"err"}, {"other"}, {"succ", "rdy"}, {"chal"}}[r.Intn(7)]
		script := append([]string{"sup", "auth:" + vh.Hex([]byte(cls))}, tail...)
		if r.Intn(6) == 0 {
			script = [][]string{{"sup", "rdy"}, {"sup"}, {"rdy"}, {"sup", "succ"}, {"sup", "other"}, {"succ"}}[r.Intn(6)]
		}
		add("hsnoauth "+strings.Join(script, " "), func(a string) string { return "oracle/hsnoauth/" + first(a) })
		al := genAllowed(r, cls)
		add("disclose pw:"+vh.Hex(genCred(r))+":"+vh.Hex(genCred(r))+":"+al+" "+vh.Hex([]byte(cls)), tokOrNone("oracle/disclose/"))
		host, hc := genHost(r)
		if host != "" {
			add("snihost "+vh.Hex([]byte(host))+" "+vh.Hex([]byte(fmt.Sprint(1+r.Intn(65535)))), fixed("oracle/snihost/"+hc))
		}
		// configurations without credentials for the dialled host (nothing configured / provider hands out none)
		cfg := genNoCred(r, cls)
		sc := genScript(r, cls)
		if i%2 == 0 {
			sc = script
		}
		pk := "noprovider"
		if !strings.HasSuffix(cfg, "prov=-") {
			pk = "provider-nil"
		}
		add(strings.TrimSpace("nocred "+cfg+" "+strings.Join(sc, " ")), func(a string) string { return "oracle/nocred/" + pk + "/" + first(a) })
		// per-host password credentials
		add("disclose2 "+genPwConn(r, cls)+" "+vh.Hex([]byte(cls)), tokOrNone("oracle/disclose2/"))
	}
	// several hosts through ONE session: what every node receives is decided by ITS host's own authenticator
	for i := 0; i < 150*hm; i++ {
		args, kind := genSess(r, false)
		add("sessauth "+args, func(a string) string {
			tok, no := strings.Contains(a, "tok=") && !allNone(a), strings.Contains(a, "tok=none")
			switch {
			case strings.HasPrefix(a, "crash:") || strings.HasPrefix(a, "hang:"):
				return "oracle/sessauth/" + kind + "/" + first(a)
			case tok && no:
				return "oracle/sessauth/" + kind + "/some-hosts-get-tokens"
			case tok:
				return "oracle/sessauth/" + kind + "/all-get-tokens"
			}
			return "oracle/sessauth/" + kind + "/no-tokens"
		})
	}
	// NewSession: Authenticator and AuthProvider are mutually exclusive
	for i := 0; i < 12*hm; i++ {
		cls := genClass(r)
		h := 1 + r.Intn(3)
		static, prov := "none", "-"
		if i%4 >= 2 {
			static = genAuthImpl(r, cls)
		}
		if i%2 == 1 {
			prov = genProvider(r, cls, h, "")
		}
		// (scripts without AUTH_CHALLENGE: the known fatal input of the challenge loop is not this op's subject)
		sc := [][]string{{"sup", "rdy"}, {"sup", "auth:" + vh.Hex([]byte(cls)), "succ"}, {"sup", "auth:" + vh.Hex([]byte(cls))}, {}, {"sup", "err"}}[r.Intn(5)]
		add(strings.TrimSpace(fmt.Sprintf("sesscfg host=%d static=%s prov=%s ", h, static, prov)+strings.Join(sc, " ")),
			func(a string) string { return "oracle/sesscfg/" + first(a) })
	}
	// property monitors on the observed trace (never both Authenticator and AuthProvider: NewSession refuses that)
	for i := 0; i < 500*hm; i++ {
		cls := genClass(r)
		cfg := genConn(r, cls)
		for !strings.Contains(cfg, "static=none") && !strings.HasSuffix(cfg, "prov=-") {
			cfg = genConn(r, cls)
		}
		sc := genScript(r, cls)
		if i%4 == 0 {
			var a string
			a, sc = genCoherent(r, cls)
			h := 1 + r.Intn(3)
			cfg = fmt.Sprintf("host=%d static=%s prov=-", h, a)
			if r.Bool() {
				cfg = fmt.Sprintf("host=%d static=none prov=%s", h, genProvider(r, cls, h, a))
			}
		}
		kind, _ := credentialsFor(parseScenario("mon " + cfg))
		add(strings.TrimSpace("mon "+cfg+" "+strings.Join(sc, " ")), func(a string) string { return "oracle/mon/" + kind + "/" + first(a) })
	}
	// "only after TLS verification as configured": real TLS endpoints, the session's own dialer, several hosts
	for i := 0; i < 100*hm; i++ {
		args := genTLSArgs(r)
		add("tlscred "+args, func(a string) string {
			switch {
			case strings.Contains(a, "cred=1") && strings.Contains(a, "proceeded=0"):
				return "oracle/tlscred/mixed"
			case strings.Contains(a, "cred=1"):
				return "oracle/tlscred/disclosed"
			case strings.Contains(a, "proceeded=1"):
				return "oracle/tlscred/proceeded"
			}
			return "oracle/tlscred/refused"
		})
	}
	// credentials never show up in what the driver logs (the session's Logger) or reports (the returned error):
	// distinctive user names / passwords / caller-authenticator tokens, every kind of server answer, through the
	// public NewSession (control connection: logs) and Session.connect
	for i := 0; i < 120*hm; i++ {
		cls := genClass(r)
		if i%3 == 0 {
			cls = defaults[r.Intn(len(defaults))]
		}
		mode := []string{"ns", "cx"}[i%2]
		sc := genScript(r, cls)
		if i%4 < 2 {
			sc = genAuthScript(r, cls)
		}
		add(strings.TrimSpace("noleak "+mode+" "+genLeakConn(r, cls)+" "+strings.Join(sc, " ")), fixed("oracle/noleak/"+mode))
	}
	// HISTORIES in one process: sessions created one after the other from the same SslOptions / caller tls.Config /
	// paths with the values changed in between; Challenge calls whose tokens are all still held (back to back, and
	// real handshakes alive at once)
	for i := 0; i < 150*mult; i++ {
		add("tlshist "+genHist(r), func(a string) string {
			if strings.Contains(a, "error") {
				return "oracle/tlshist/with-errors"
			}
			if strings.Contains(a, "noverify") && strings.Contains(a, " verify") || strings.HasPrefix(a, "verify") && strings.Contains(a, "noverify") {
				return "oracle/tlshist/verdict-changes"
			}
			return "oracle/tlshist/same-verdict"
		})
	}
	for i := 0; i < 200*mult; i++ {
		add("tokalias "+genChalCalls(r, 2+r.Intn(4)), fixed("oracle/tokalias"))
	}
	for i := 0; i < 40*mult; i++ {
		add("tokpar "+genChalCalls(r, 2+r.Intn(3)), fixed("oracle/tokpar"))
	}
	// EVERY DIALER: with SslOpts, TLS on every connection the driver dials itself (caller's Dialer or its own), handed
	// on exactly when the documented table / expected name / CAs say so; several dials through the one shared config
	for i := 0; i < 200*mult; i++ {
		args, kind := genDialArgs(r, true)
		add("dialsec "+args, func(a string) string {
			switch {
			case strings.Contains(a, "proceeded=1") && strings.Contains(a, "proceeded=0"):
				return "oracle/dialsec/" + kind + "/mixed"
			case strings.Contains(a, "proceeded=1"):
				return "oracle/dialsec/" + kind + "/all-proceed"
			}
			return "oracle/dialsec/" + kind + "/all-refused"
		})
	}
	// setupTLSConfig: the whole finite domain of (config, EnableHostVerification) x file states
	cfgs := []string{"nil"}
	for _, i := range "01" {
		for _, s := range "01" {
			for _, rr := range "01" {
				for _, c := range []string{"0", "1"} {
					cfgs = append(cfgs, fmt.Sprintf("I%cS%cR%cC%s", i, s, rr, c))
				}
			}
		}
	}
	for _, cfg := range cfgs {
		for _, ehv := range []string{"0", "1"} {
			for _, ca := range fileStates["ca"] {
				for _, cert := range fileStates["cert"] {
					for _, key := range fileStates["key"] {
						// quick: full (cfg, ehv) x ca, key pairs sampled; thorough: everything
						caGood := ca == "absent" || ca == "valid"
						pairKnown := (cert == "absent" && key == "absent") || (cert == "valid" && key == "valid") || (cert == "foreign" && key == "foreign")
						if tier != "thorough" && !pairKnown && !(caGood && r.Intn(3) == 0) && r.Intn(16) != 0 {
							continue
						}
						spare := "0"
						if r.Bool() {
							spare = "1"
						}
						add(strings.Join([]string{"tls", cfg, ehv, ca, cert, key, spare}, " "), func(a string) string { return "tls/" + first(a) })
					}
				}
			}
		}
	}
	// server name rule
	for i := 0; i < 1500*mult; i++ {
		host, cls := genHost(r)
		port := fmt.Sprint(1 + r.Intn(65535))
		op := "join " + vh.Hex([]byte(host)) + " " + vh.Hex([]byte(port))
		addr := ":" + port
		if host != "" { // an empty hostname makes HostnameAndPort fall back to the connect address
			a := add(op, fixed("join/"+cls))
			addr = string(mustHex(a))
		}
		switch r.Intn(6) {
		case 0:
			addr = host // no port at all
		case 1:
			addr = host + ":"
		case 2:
			addr = string(r.Bytes(r.Intn(12)))
		}
		sn := "-"
		if r.Intn(3) == 0 {
			sn = vh.Hex([]byte("explicit.example"))
		}
		ins := "0"
		if r.Intn(3) == 0 {
			ins = "1"
		}
		add("sni "+ins+" "+sn+" "+vh.Hex([]byte(addr)), func(a string) string { return "sni/" + cls + "/" + a[strings.LastIndex(a, " ")+1:] })
	}
	// approve / Challenge
	for i := 0; i < 3000*mult; i++ {
		cls := genClass(r)
		al := genAllowed(r, cls)
		add("approve "+vh.Hex([]byte(cls))+" "+al, func(a string) string { return "approve/" + a })
		add("challenge "+vh.Hex(genCred(r))+" "+vh.Hex(genCred(r))+" "+al+" "+vh.Hex([]byte(cls)), func(a string) string {
			if a == "err" {
				return "challenge/err"
			}
			return "challenge/token"
		})
	}
	for _, d := range defaults {
		add("approve "+vh.Hex([]byte(d))+" none", fixed("approve/default-list"))
	}
	// start-up handshake against a scripted peer
	outcomeClass := func(pfx string) func(string) string {
		return func(a string) string {
			if i := strings.Index(a, ":"); i > 0 && (strings.HasPrefix(a, "crash:") || strings.HasPrefix(a, "hang:")) {
				return pfx + first(a)
			}
			return pfx + a[strings.LastIndex(a, "=")+1:]
		}
	}
	frames := []string{"sup", "rdy", "chal", "succ", "err", "other", "auth"}
	hs := func(auth string, script []string) {
		add(strings.TrimSpace("hs "+auth+" "+strings.Join(script, " ")), outcomeClass("hs/"))
	}
	mk := func(f string) string {
		if f == "auth" {
			return "auth:" + vh.Hex([]byte(genClass(r)))
		}
		return f
	}
	genAuth := func(cls string) string {
		switch r.Intn(6) {
		case 0, 1:
			return "none"
		case 2:
			return genCustom(r)
		}
		return genPw(r, cls)
	}
	// exhaustive scripts up to length 3 over the frame kinds (class names generated), all kinds of authenticator
	for rep := 0; rep < hm; rep++ {
		for l := 0; l <= 3; l++ {
			n := 1
			for i := 0; i < l; i++ {
				n *= len(frames)
			}
			for k := 0; k < n; k++ {
				if l == 3 && tier != "thorough" && r.Intn(4) != 0 {
					continue
				}
				script := make([]string, l)
				x := k
				cls := ""
				for i := range script {
					script[i] = mk(frames[x%len(frames)])
					if strings.HasPrefix(script[i], "auth:") {
						cls = string(mustHex(script[i][5:]))
					}
					x /= len(frames)
				}
				hs(genAuth(cls), script)
			}
		}
	}
	// the property's own scenario, many class names, challenge rounds
	for i := 0; i < 300*hm; i++ {
		cls := genClass(r)
		if i%6 == 0 {
			hs(genCoherent(r, cls))
			continue
		}
		hs(genAuth(cls), genAuthScript(r, cls))
	}
	// Conn.init: Authenticator / AuthProvider per host x server scripts, through the session's own connection config
	for i := 0; i < 700*hm; i++ {
		cls := genClass(r)
		if i%8 == 0 { // a working multi-round authenticator, configured statically or handed out by the provider
			a, sc := genCoherent(r, cls)
			h := 1 + r.Intn(3)
			cfg := fmt.Sprintf("host=%d static=%s prov=-", h, a)
			if r.Bool() {
				cfg = fmt.Sprintf("host=%d static=none prov=%s", h, genProvider(r, cls, h, a))
			}
			add("hsx "+cfg+" "+strings.Join(sc, " "), outcomeClass("hsx/"))
			continue
		}
		add(strings.TrimSpace("hsx "+genConn(r, cls)+" "+strings.Join(genScript(r, cls), " ")), outcomeClass("hsx/"))
	}
	// the full traces of every connection of a session with several hosts (incl. Authenticator AND AuthProvider)
	for i := 0; i < 150*hm; i++ {
		args, kind := genSess(r, true)
		add("sessx "+args, func(a string) string {
			if strings.HasPrefix(a, "crash:") || strings.HasPrefix(a, "hang:") {
				return "sessx/" + kind + "/" + first(a)
			}
			return "sessx/" + kind
		})
	}
	for i := 0; i < 100*hm; i++ {
		add("tlsx "+genTLSArgs(r), func(a string) string {
			if strings.Contains(a, "tls=fail") {
				return "tlsx/some-rejected"
			}
			return "tlsx/all-accepted"
		})
	}
	// the dial itself, every dialer configuration (HostDialer / Dialer / defaults x SslOpts), hosts without address
	// or port, failing TCP dials, IPv4 / IPv6, several dials through one session: model vs code
	for i := 0; i < 250*mult; i++ {
		args, kind := genDialArgs(r, false)
		add("dialplan "+args, func(a string) string {
			if strings.HasPrefix(a, "err:") {
				return "dialplan/" + kind + "/" + a
			}
			return "dialplan/" + kind
		})
	}
	// the public entry point: NewSession with a scripted HostDialer
	for i := 0; i < 120*hm; i++ {
		cls := genClass(r)
		add(strings.TrimSpace("newsession "+genConn(r, cls)+" "+strings.Join(genScript(r, cls), " ")), outcomeClass("newsession/"))
	}
	resolve()
	if slowCase != nil {
		cases = append(cases, slowCase)
	}
	for _, c := range cases {
		out.Case(c.op, c.ans, c.class(c.ans), true)
	}
	out.Close(nil)
}
