// Handshake scenarios run in CHILD PROCESSES: the start-up code runs on goroutines started by the driver
// (startupCoordinator.setupConn), so a panic there cannot be recovered — it kills the process. The harness therefore
// re-executes itself (`c20 child - <opsfile>`) for batches of scenarios; the child streams what it observes
// (requests the scripted peer received, AuthProvider calls, Authenticator calls, dials) line by line while the
// scenario runs, so that when the process dies the parent still has the complete observation up to the fatal step
// and the panic trace (stderr) names the gocql function that died: the answer is `crash:<function> …`.
package main

import (
	"encoding/base64"
	"encoding/hex"
	"bufio"
	"bytes"
	"context"
	"crypto/ecdsa"
	"crypto/elliptic"
	"crypto/rand"
	"crypto/tls"
	"crypto/x509"
	"crypto/x509/pkix"
	"encoding/pem"
	"errors"
	"fmt"
	"io"
	"log"
	"math/big"
	"net"
	"os"
	osexec "os/exec"
	"path/filepath"
	"regexp"
	"runtime"
	"strconv"
	"strings"
	"sync"
	"sync/atomic"
	"time"

	"github.com/gocql/gocql"
	"verifharness/vh"
)

// ops that reach driver goroutines
func isChildOp(op string) bool {
	switch strings.SplitN(op, " ", 2)[0] {
	case "hs", "hsnoauth", "disclose", "hsx", "newsession", "nocred", "disclose2", "sesscfg", "mon", "tlsx", "tlscred", "sessx", "sessauth", "noleak":
		return true
	}
	return false
}

// scenario time-outs: nothing in a scenario waits (the scripted peer answers or closes at once); these only bound a
// driver that is stuck. The watchdog dumps all goroutines and the parent reports `hang:<gocql function>`.
const (
	driverTimeout = 20 * time.Second
	watchdog      = 45 * time.Second
	slowScenario  = 15 * time.Second
	maxSlow       = 3 // after that many slow / hung scenarios no further child is started; the case stream is cut there
)

var slowSeen int32

var (
	errAuthenticator = errors.New("verif: authenticator failed")
	errAuthSuccess   = errors.New("verif: authenticator rejected success")
	errProvider      = errors.New("verif: provider failed")
)

// ---------- child side

var emitMu sync.Mutex

// emit writes one protocol line with a single write system call (nothing is buffered: the process may die at any time)
func emit(kind string, payload string) {
	emitMu.Lock()
	os.Stdout.Write([]byte(kind + " " + payload + "\n"))
	emitMu.Unlock()
}

type round struct {
	resp       []byte
	fail, last bool
}

// customAuth is a caller-supplied Authenticator: it answers the k-th Challenge call of its chain with rounds[k]
// and records every call made on it.
type customAuth struct {
	rounds      []round
	idx         int
	successFail bool
}

func (c *customAuth) Challenge(req []byte) ([]byte, gocql.Authenticator, error) {
	emit("C", "c:"+vh.Hex(req))
	next := &customAuth{rounds: c.rounds, idx: c.idx + 1, successFail: c.successFail}
	if c.idx >= len(c.rounds) {
		return []byte("exhausted"), next, errAuthenticator
	}
	r := c.rounds[c.idx]
	if r.fail {
		return r.resp, next, errAuthenticator // the token must NOT be sent
	}
	if r.last {
		return r.resp, nil, nil
	}
	return r.resp, next, nil
}

func (c *customAuth) Success(data []byte) error {
	emit("C", "s:"+vh.Hex(data))
	if c.successFail {
		return errAuthSuccess
	}
	return nil
}

// mkAuth: `none`, `pw:<user>:<pass>:<allowed>`, `cu:<resp>.<fail><last>,…|none:<successFails>`
func mkAuth(tok string) gocql.Authenticator {
	p := strings.Split(tok, ":")
	switch {
	case tok == "none":
		return nil
	case p[0] == "pw" && len(p) == 4:
		return gocql.PasswordAuthenticator{Username: string(mustHex(p[1])), Password: string(mustHex(p[2])), AllowedAuthenticators: parseList(p[3])}
	case p[0] == "cu" && len(p) == 3:
		c := &customAuth{successFail: p[2] == "1"}
		if p[1] != "none" {
			for _, rt := range strings.Split(p[1], ",") {
				q := strings.Split(rt, ".")
				if len(q) != 2 || len(q[1]) != 2 {
					panic("bad round " + rt)
				}
				c.rounds = append(c.rounds, round{resp: mustHex(q[0]), fail: q[1][0] == '1', last: q[1][1] == '1'})
			}
		}
		return c
	}
	panic("bad auth " + tok)
}

type provRes struct {
	auth gocql.Authenticator
	err  error
}

func hostID(h *gocql.HostInfo) (id string) {
	defer func() {
		if recover() != nil {
			id = "?"
		}
	}()
	if h == nil {
		return "nil"
	}
	ip := h.ConnectAddress().To4()
	if ip == nil || ip[0] != 10 || ip[1] != 0 || ip[2] != 0 {
		return "?"
	}
	return strconv.Itoa(int(ip[3]))
}

// mkProvider: `-` or `<host>=<res>/…/*=<res>`, res = nil | err | <auth> | <auth>+err
func mkProvider(tok string) func(*gocql.HostInfo) (gocql.Authenticator, error) {
	if tok == "-" {
		return nil
	}
	table := map[string]provRes{}
	for _, e := range strings.Split(tok, "/") {
		kv := strings.SplitN(e, "=", 2)
		if len(kv) != 2 {
			panic("bad provider " + tok)
		}
		var r provRes
		switch {
		case kv[1] == "nil":
		case kv[1] == "err":
			r.err = errProvider
		case strings.HasSuffix(kv[1], "+err"):
			r.auth, r.err = mkAuth(strings.TrimSuffix(kv[1], "+err")), errProvider
		default:
			r.auth = mkAuth(kv[1])
		}
		table[kv[0]] = r
	}
	return func(h *gocql.HostInfo) (gocql.Authenticator, error) {
		id := hostID(h)
		emit("P", id)
		r, ok := table[id]
		if !ok {
			r = table["*"]
		}
		return r.auth, r.err
	}
}

// tcpConn makes a net.Pipe end look like a TCP connection (the control connection reads the remote port off a
// *net.TCPAddr).
type tcpConn struct {
	net.Conn
	remote *net.TCPAddr
}

func (c tcpConn) RemoteAddr() net.Addr { return c.remote }

// scriptedDialer is a gocql.HostDialer (public API): every dial is recorded and gets a fresh scripted peer.
// With `once` only the first dial is served (and recorded): when the peer hangs up on an established control
// connection the driver re-dials in the background, at a moment that depends on scheduling — those attempts are
// refused without a trace.
type scriptedDialer struct {
	script []string
	byHost map[string][]string // if set: the script of the node at each host (hostID)
	once   bool
	mu     sync.Mutex
	dials  int
	wg     sync.WaitGroup
}

func (d *scriptedDialer) DialHost(ctx context.Context, host *gocql.HostInfo) (*gocql.DialedHost, error) {
	d.mu.Lock()
	d.dials++
	n := d.dials
	d.mu.Unlock()
	if d.once && n > 1 {
		return nil, errors.New("verif: only one dial is served")
	}
	emit("D", hostID(host))
	script := d.script
	if d.byHost != nil {
		var ok bool
		if script, ok = d.byHost[hostID(host)]; !ok {
			return nil, errors.New("verif: no node at " + hostID(host))
		}
	}
	cli, srv := net.Pipe()
	d.wg.Add(1)
	go func() {
		defer d.wg.Done()
		servePeer(srv, script)
	}()
	return &gocql.DialedHost{Conn: tcpConn{cli, &net.TCPAddr{IP: net.IPv4(10, 0, 0, 1), Port: 9042}}}, nil
}

// servePeer answers each handshake request with the next scripted frame and reports every request it received;
// it closes when the script is exhausted or when the client sends anything that is not part of the start-up
// (= the driver considers the connection established).
func servePeer(c net.Conn, script []string) {
	defer c.Close()
	for i := 0; ; i++ {
		var h [9]byte
		if _, err := io.ReadFull(c, h[:]); err != nil {
			return
		}
		n := int(uint32(h[5])<<24 | uint32(h[6])<<16 | uint32(h[7])<<8 | uint32(h[8]))
		body := make([]byte, n)
		if _, err := io.ReadFull(c, body); err != nil {
			return
		}
		switch h[4] {
		case opOptions:
			emit("S", "options")
		case opStartup:
			emit("S", "startup")
		case opAuthResponse:
			tok := "malformed"
			if len(body) >= 4 {
				l := int(int32(uint32(body[0])<<24 | uint32(body[1])<<16 | uint32(body[2])<<8 | uint32(body[3])))
				if l >= 0 && 4+l == len(body) {
					tok = vh.Hex(body[4:])
				}
			}
			emit("S", "authresp:"+tok)
		default:
			emit("X", fmt.Sprintf("op%d", h[4]))
			return
		}
		if i >= len(script) {
			return
		}
		op, rb := frameFor(script[i])
		out := []byte{0x84, 0, h[2], h[3], op, 0, 0, 0, 0}
		out[5], out[6], out[7], out[8] = byte(len(rb)>>24), byte(len(rb)>>16), byte(len(rb)>>8), byte(len(rb))
		if _, err := c.Write(append(out, rb...)); err != nil {
			return
		}
	}
}

// scenario = what one child op runs
type scenario struct {
	mode   string // startup (VerifStartup: ConnConfig.Authenticator directly) | connect (VerifConnect) | newsession | tls | sess
	tls    tlsScenario
	nodes  map[string][]string // sess: host → script of its node
	dials  []string            // sess: p<h> (pool connection) | c<h> (control-connection dial), in order
	host   int
	static string
	prov   string
	script []string
	leak   bool // noleak: the driver's logger output (L events) and the text of the returned error (E event) are recorded
}

func kv(w, key string) string {
	if !strings.HasPrefix(w, key+"=") {
		panic("bad op: want " + key + "= got " + w)
	}
	return w[len(key)+1:]
}

func parseScenario(op string) scenario {
	w := strings.Fields(op)
	switch w[0] {
	case "hs":
		return scenario{mode: "startup", static: w[1], prov: "-", script: w[2:]}
	case "hsnoauth":
		return scenario{mode: "startup", static: "none", prov: "-", script: w[1:]}
	case "disclose":
		return scenario{mode: "startup", static: w[1], prov: "-", script: []string{"sup", "auth:" + w[2], "succ"}}
	case "hsx", "nocred", "newsession", "sesscfg", "mon":
		h, err := strconv.Atoi(kv(w[1], "host"))
		if err != nil {
			panic("bad host")
		}
		m := "connect"
		if w[0] == "newsession" || w[0] == "sesscfg" {
			m = "newsession"
		}
		return scenario{mode: m, host: h, static: kv(w[2], "static"), prov: kv(w[3], "prov"), script: w[4:]}
	case "noleak":
		// <ns|cx> host=<k> static=<auth> prov=<provider> <frames…>
		h, err := strconv.Atoi(kv(w[2], "host"))
		if err != nil {
			panic("bad host")
		}
		m := map[string]string{"ns": "newsession", "cx": "connect"}[w[1]]
		if m == "" {
			panic("bad noleak mode " + w[1])
		}
		return scenario{mode: m, host: h, static: kv(w[3], "static"), prov: kv(w[4], "prov"), script: w[5:], leak: true}
	case "tlsx", "tlscred":
		// <cfg> <ehv> <ca> <auth> <class> <certA> <certB> <dial>…
		if len(w) < 9 {
			panic("bad tls op")
		}
		return scenario{mode: "tls", static: w[4], prov: "-", script: []string{"sup", "auth:" + w[5], "succ"},
			tls: tlsScenario{cfg: w[1], ehv: w[2] == "1", ca: w[3], certs: map[string]string{"a": w[6], "b": w[7]}, dials: w[8:]}}
	case "sessx", "sessauth":
		// static=<auth> prov=<provider> n<h>=<class hex|rdy>… <p|c><h>…
		sc := scenario{mode: "sess", static: kv(w[1], "static"), prov: kv(w[2], "prov"), nodes: map[string][]string{}}
		for _, x := range w[3:] {
			switch {
			case x[0] == 'n':
				e := strings.SplitN(x[1:], "=", 2)
				if len(e) != 2 {
					panic("bad node " + x)
				}
				if _, err := strconv.Atoi(e[0]); err != nil {
					panic("bad node " + x)
				}
				if e[1] == "rdy" {
					sc.nodes[e[0]] = []string{"sup", "rdy"}
				} else {
					sc.nodes[e[0]] = []string{"sup", "auth:" + e[1], "succ"}
				}
			case x[0] == 'p' || x[0] == 'c':
				if h, err := strconv.Atoi(x[1:]); err != nil || h < 1 || h > 254 {
					panic("bad dial " + x)
				}
				sc.dials = append(sc.dials, x)
			default:
				panic("bad sess word " + x)
			}
		}
		for _, d := range sc.dials {
			if sc.nodes[d[1:]] == nil {
				panic("dial without node " + d)
			}
		}
		return sc
	case "disclose2":
		h, err := strconv.Atoi(kv(w[1], "host"))
		if err != nil {
			panic("bad host")
		}
		return scenario{mode: "connect", host: h, static: kv(w[2], "static"), prov: kv(w[3], "prov"), script: []string{"sup", "auth:" + w[4], "succ"}}
	}
	panic("not a child op: " + op)
}

var discardLogger = log.New(io.Discard, "", 0)

// emitWriter: every write of the driver's logger becomes an L event
type emitWriter struct{}

func (emitWriter) Write(b []byte) (int, error) {
	emit("L", vh.Hex(b))
	return len(b), nil
}

func scenarioLogger(sc scenario) gocql.StdLogger {
	if sc.leak {
		return log.New(emitWriter{}, "", 0)
	}
	return discardLogger
}

// reportErr: the text of the error the caller gets (noleak scenarios)
func reportErr(sc scenario, err error) {
	if sc.leak && err != nil {
		emit("E", vh.Hex([]byte(fmt.Sprintf("%v | %+v | %#v", err, err, err))))
	}
}

// runScenario runs the real driver code; everything observable on the way is emitted, the result is the outcome class
func runScenario(sc scenario) (outcome string) {
	defer func() {
		if r := recover(); r != nil {
			outcome = "panic:" + strings.ReplaceAll(fmt.Sprint(r), " ", "_")
		}
	}()
	for _, f := range sc.script {
		frameFor(f) // validate before anything runs
	}
	for _, scr := range sc.nodes {
		for _, f := range scr {
			frameFor(f)
		}
	}
	switch sc.mode {
	case "sess":
		// ONE session configuration (Session.cfg, Session.connCfg = connConfig(&cfg)), several connections through it:
		// pool connections (Session.connect: the shared *ConnConfig) and control-connection dials
		// (controlConn.discoverProtocol: a copy of it), one after the other
		d := &scriptedDialer{byHost: sc.nodes}
		cfg := gocql.NewCluster("10.0.0.1")
		cfg.ProtoVersion, cfg.ConnectTimeout, cfg.Timeout = 4, driverTimeout, driverTimeout
		cfg.Logger = discardLogger
		cfg.HostDialer = d
		cfg.Authenticator = mkAuth(sc.static)
		cfg.AuthProvider = mkProvider(sc.prov)
		sess, err := gocql.VerifNewSess(cfg)
		if err != nil {
			return "err:config"
		}
		for _, dl := range sc.dials {
			h, _ := strconv.Atoi(dl[1:])
			emit("N", dl)
			var err error
			if dl[0] == 'p' {
				err = sess.Connect("", net.IPv4(10, 0, 0, byte(h)), 9042)
			} else {
				err = sess.ControlDial("", net.IPv4(10, 0, 0, byte(h)), 9042)
			}
			d.wg.Wait()
			emit("O", classify(err))
		}
		return "done"
	case "startup":
		cli, srv := net.Pipe()
		done := make(chan struct{})
		go func() { defer close(done); servePeer(srv, sc.script) }()
		err := gocql.VerifStartup(cli, mkAuth(sc.static), 4, driverTimeout)
		cli.Close()
		<-done
		return classify(err)
	case "connect":
		d := &scriptedDialer{script: sc.script}
		cfg := gocql.NewCluster("10.0.0.1")
		cfg.ProtoVersion, cfg.ConnectTimeout, cfg.Timeout = 4, driverTimeout, driverTimeout
		cfg.Logger = scenarioLogger(sc)
		cfg.HostDialer = d
		cfg.Authenticator = mkAuth(sc.static)
		cfg.AuthProvider = mkProvider(sc.prov)
		err := gocql.VerifConnect(cfg, "", net.IPv4(10, 0, 0, byte(sc.host)), 9042)
		d.wg.Wait()
		reportErr(sc, err)
		return classify(err)
	case "tls":
		return runTLS(sc)
	case "newsession":
		d := &scriptedDialer{script: sc.script, once: true}
		cfg := gocql.NewCluster(fmt.Sprintf("10.0.0.%d", sc.host))
		cfg.ProtoVersion, cfg.ConnectTimeout, cfg.Timeout = 4, driverTimeout, driverTimeout
		cfg.Logger = scenarioLogger(sc)
		cfg.DisableInitialHostLookup = true
		cfg.HostDialer = d
		cfg.Authenticator = mkAuth(sc.static)
		cfg.AuthProvider = mkProvider(sc.prov)
		s, err := gocql.NewSession(*cfg)
		if s != nil {
			s.Close()
		}
		d.wg.Wait()
		reportErr(sc, err)
		if err == nil {
			return "session"
		}
		return classify(err)
	}
	panic("bad mode")
}

func childMain(path string) {
	ops := vh.ReadLines(path)
	for i, op := range ops {
		emit("B", strconv.Itoa(i))
		t := time.AfterFunc(watchdog, func() {
			buf := make([]byte, 1<<22)
			n := runtime.Stack(buf, true)
			os.Stderr.Write([]byte("VERIF-HANG\n"))
			os.Stderr.Write(buf[:n])
			os.Exit(3)
		})
		start := time.Now()
		out := runScenario(parseScenario(op))
		t.Stop()
		emit("R", out)
		if time.Since(start) > slowScenario {
			// nothing in a scenario waits on the unchanged code; a driver that sits out its own time-outs would make
			// the campaign endless: hand back, the parent limits how many such scenarios it runs
			emit("Z", "slow")
			return
		}
	}
}

// ---------- parent side

// raw observation of one scenario
type raw struct {
	sent, prov, calls []string
	dials             int
	post              bool
	ev                []string // every event line of the scenario in order (multi-dial scenarios)
	outcome           string   // class of the returned error / "ready"; "" when the process died
	fatal             string   // "crash:<fn>" | "hang:<fn>" when the process died / hung in this scenario
	slow              bool     // the scenario took longer than slowScenario
}

var gocqlFrameRe = regexp.MustCompile(`^github\.com/gocql/gocql\.(.+)\(.*\)$`)

// fatalFrame: the first gocql function (not a verification hook) in the trace
func fatalFrame(stderr string) string {
	for _, l := range strings.Split(stderr, "\n") {
		m := gocqlFrameRe.FindStringSubmatch(strings.TrimSpace(l))
		if m == nil || strings.HasPrefix(m[1], "Verif") {
			continue
		}
		fn := m[1]
		if strings.HasPrefix(fn, "(") {
			if j := strings.Index(fn, ")."); j >= 0 {
				fn = fn[j+2:]
			}
		}
		return fn
	}
	return ""
}

// hangFrame: a gocql function some goroutine is blocked in (dump of all goroutines)
func hangFrame(stderr string) string {
	i := strings.Index(stderr, "VERIF-HANG")
	if i < 0 {
		return ""
	}
	return fatalFrame(stderr[i:])
}

var (
	scratchOnce sync.Once
	scratch     string
)

// scratchDir: one directory for everything the children write (removed by the parent at the end)
func scratchDir() string {
	scratchOnce.Do(func() {
		d, err := os.MkdirTemp("", "verif-c20-run-")
		if err != nil {
			panic(err)
		}
		scratch = d
	})
	return scratch
}

// runChild runs ops in one child process; it returns the observations of the scenarios that were started
// (the last one carries `fatal` if the process died in it).
func runChild(ops []string) []raw {
	self, err := os.Executable()
	if err != nil {
		panic(err)
	}
	f, err := os.CreateTemp(scratchDir(), "child-*.txt")
	if err != nil {
		panic(err)
	}
	f.WriteString(strings.Join(ops, "\n") + "\n")
	f.Close()
	ctx, cancel := context.WithTimeout(context.Background(), 30*time.Minute)
	defer cancel()
	cmd := osexec.CommandContext(ctx, self, "child", "-", f.Name())
	cmd.Env = append(os.Environ(), "VERIF_C20_TMP="+scratchDir())
	var stdout, stderr bytes.Buffer
	cmd.Stdout, cmd.Stderr = &stdout, &stderr
	runErr := cmd.Run()
	var res []raw
	var cur *raw
	finished, slowStop := false, false
	sc := bufio.NewScanner(&stdout)
	sc.Buffer(make([]byte, 1<<20), 1<<26)
	for sc.Scan() {
		l := sc.Text()
		if len(l) < 2 {
			continue
		}
		k, p := l[:1], l[2:]
		if cur != nil && k != "B" {
			cur.ev = append(cur.ev, l)
		}
		switch k {
		case "B":
			res = append(res, raw{})
			cur = &res[len(res)-1]
			finished = false
		case "S":
			cur.sent = append(cur.sent, p)
		case "P":
			cur.prov = append(cur.prov, p)
		case "C":
			cur.calls = append(cur.calls, p)
		case "D":
			cur.dials++
		case "X":
			cur.post = true
		case "R":
			cur.outcome = p
			finished = true
		case "Z":
			slowStop = true
			cur.slow = true
		}
	}
	if runErr == nil && finished && (len(res) == len(ops) || slowStop) {
		if slowStop {
			atomic.AddInt32(&slowSeen, 1)
		}
		return res
	}
	// the process died (or hung) in the scenario that was begun and not finished
	if cur == nil || finished {
		panic(fmt.Sprintf("c20 child failed outside a scenario: %v\n%s", runErr, stderr.String()))
	}
	se := stderr.String()
	if fn := hangFrame(se); strings.Contains(se, "VERIF-HANG") {
		if fn == "" {
			panic("c20 child: scenario exceeded the watchdog with no goroutine inside gocql:\n" + se)
		}
		cur.fatal = "hang:" + fn
		atomic.AddInt32(&slowSeen, 1)
	} else if fn := fatalFrame(se); fn != "" {
		cur.fatal = "crash:" + fn
	} else {
		panic(fmt.Sprintf("c20 child died without a gocql frame in its trace: %v\n%s", runErr, se))
	}
	return res
}

// runScenarios runs all ops in child processes (batched; a batch whose process dies is continued after the fatal
// scenario in a new process, and the fatal scenario is re-run alone to make sure it is the one that kills).
func runScenarios(ops []string) ([]raw, []bool) {
	const batch = 48
	const workers = 4
	res := make([]raw, len(ops))
	answered := make([]bool, len(ops))
	type job struct{ lo, hi int }
	jobs := make(chan job)
	var wg sync.WaitGroup
	for w := 0; w < workers; w++ {
		wg.Add(1)
		go func() {
			defer wg.Done()
			for j := range jobs {
				lo := j.lo
				for lo < j.hi && atomic.LoadInt32(&slowSeen) < maxSlow {
					got := runChild(ops[lo:j.hi])
					if len(got) == 0 {
						panic("c20 child: no scenario was started")
					}
					copy(res[lo:], got)
					last := lo + len(got) - 1
					if got[len(got)-1].fatal != "" && len(got) > 1 && !strings.HasPrefix(got[len(got)-1].fatal, "hang:") {
						// not alone in its process: confirm in a fresh one
						alone := runChild(ops[last : last+1])
						if alone[0].fatal == "" {
							alone[0].fatal = got[len(got)-1].fatal + "(only-after-other-scenarios)"
						}
						res[last] = alone[0]
					}
					for i := lo; i <= last; i++ {
						answered[i] = true
					}
					lo = last + 1
				}
			}
		}()
	}
	for lo := 0; lo < len(ops); lo += batch {
		hi := lo + batch
		if hi > len(ops) {
			hi = len(ops)
		}
		jobs <- job{lo, hi}
	}
	close(jobs)
	wg.Wait()
	return res, answered
}

func list(l []string) string {
	if len(l) == 0 {
		return "-"
	}
	return strings.Join(l, ",")
}

func credSent(r raw) string {
	for _, s := range r.sent {
		if strings.HasPrefix(s, "authresp") {
			return "1"
		}
	}
	return "0"
}

// format turns the raw observation into the op's canonical answer (same shapes as lean/Driver/C20.lean)
func format(op string, r raw) string {
	w := strings.Fields(op)
	if strings.HasPrefix(r.outcome, "panic:") {
		return "crash:caller:" + r.outcome[6:]
	}
	pre := ""
	if r.fatal != "" {
		pre = r.fatal + " "
	}
	outcome := r.outcome
	if w[0] == "newsession" || w[0] == "sesscfg" {
		// the session itself cannot be created against a peer that only knows the start-up: the connection counts
		// as established when the driver went on to use it
		if r.post {
			outcome = "ready"
		}
	}
	trace := func(withProv bool, prefix string) string {
		s := prefix + "sent=" + list(r.sent) + " calls=" + list(r.calls)
		if withProv {
			s += " prov=" + list(r.prov)
		}
		if r.fatal != "" {
			return r.fatal + " " + s
		}
		return s + " outcome=" + outcome
	}
	ready := "refused"
	if outcome == "ready" {
		ready = "ready"
	}
	switch w[0] {
	case "hs":
		return trace(false, "")
	case "hsx":
		return trace(true, "")
	case "newsession":
		p := "0"
		if r.post {
			p = "1"
		}
		return trace(true, fmt.Sprintf("dials=%d post=%s ", r.dials, p))
	case "sesscfg":
		if r.fatal != "" {
			return r.fatal
		}
		if outcome == "err:both" {
			return fmt.Sprintf("refused:both dials=%d", r.dials)
		}
		return fmt.Sprintf("accepted dials=%d", r.dials)
	case "mon":
		if r.fatal != "" {
			return r.fatal
		}
		return monitor(parseScenario(op), r)
	case "noleak":
		if r.fatal != "" {
			return r.fatal
		}
		return noLeak(parseScenario(op), r)
	case "tlsx", "tlscred":
		return formatTLS(w[0], r)
	case "sessx", "sessauth":
		return formatSess(w[0], r)
	case "hsnoauth":
		return pre + ready + " credentials-sent=" + credSent(r)
	case "nocred":
		return pre + ready + " credentials-sent=" + credSent(r) + " challenge-calls=" + strconv.Itoa(len(r.calls))
	case "disclose", "disclose2":
		for _, s := range r.sent {
			if strings.HasPrefix(s, "authresp:") {
				return pre + "token:" + s[len("authresp:"):]
			}
		}
		return pre + "none"
	}
	return "bad-op"
}

// ---------- property monitors on the observed trace of one connection attempt (op `mon`)

// credentialsFor: who supplies the credentials for the dialled host, as documented (AuthProvider = per-host factory,
// otherwise the static Authenticator): kind = none | err | pw | cu, tok = the authenticator token
func credentialsFor(sc scenario) (kind, tok string) {
	tok = sc.static
	if sc.prov != "-" {
		tok = "nil"
		dflt, found := "nil", false
		for _, e := range strings.Split(sc.prov, "/") {
			kv := strings.SplitN(e, "=", 2)
			if kv[0] == strconv.Itoa(sc.host) {
				tok, found = kv[1], true
			}
			if kv[0] == "*" {
				dflt = kv[1]
			}
		}
		if !found {
			tok = dflt
		}
	}
	switch {
	case tok == "err" || strings.HasSuffix(tok, "+err"):
		return "err", tok
	case tok == "nil" || tok == "none":
		return "none", tok
	}
	return tok[:2], tok
}

func chalPayload(f string) (string, bool) {
	if f == "chal" {
		return "78", true
	}
	if strings.HasPrefix(f, "chal:") {
		return f[5:], true
	}
	return "", false
}

func isPrefix(a, b []string) bool {
	if len(a) > len(b) {
		return false
	}
	for i := range a {
		if a[i] != b[i] {
			return false
		}
	}
	return true
}

// monitor returns `ok` or `VIOLATED:<clause>`; written from the property statement and the documented roles of
// Authenticator / AuthProvider, not from the driver's code.
func monitor(sc scenario, r raw) string {
	kind, tok := credentialsFor(sc)
	var tokens []string
	for _, s := range r.sent {
		if strings.HasPrefix(s, "authresp:") {
			tokens = append(tokens, s[len("authresp:"):])
		}
	}
	demanded := len(sc.script) >= 2 && sc.script[0] == "sup" && strings.HasPrefix(sc.script[1], "auth:")
	// the provider is asked exactly once, for the host being dialled; never when none is configured
	wantProv := "-"
	if sc.prov != "-" {
		wantProv = strconv.Itoa(sc.host)
	}
	if list(r.prov) != wantProv {
		return "VIOLATED:provider-calls=" + list(r.prov)
	}
	if kind == "err" {
		if len(r.sent) != 0 || len(r.calls) != 0 || r.outcome != "err:provider" {
			return "VIOLATED:provider-error-not-final"
		}
		return "ok"
	}
	// never an unauthenticated session
	if demanded && r.outcome == "ready" {
		succ := false
		for _, f := range sc.script[2:] {
			succ = succ || f == "succ" || strings.HasPrefix(f, "succ:")
		}
		if len(tokens) == 0 || !succ {
			return "VIOLATED:unauthenticated-session"
		}
	}
	switch kind {
	case "none":
		if len(tokens) != 0 || len(r.calls) != 0 {
			return "VIOLATED:credentials-without-authenticator"
		}
		if demanded && (r.outcome != "err:auth-required" || list(r.sent) != "options,startup") {
			return "VIOLATED:auth-demanded-without-credentials"
		}
		if r.outcome == "ready" && !(len(sc.script) >= 2 && sc.script[0] == "sup" && sc.script[1] == "rdy") {
			return "VIOLATED:ready-without-READY"
		}
	case "pw":
		p := strings.Split(tok, ":")
		allowed := parseList(p[3])
		if len(allowed) == 0 {
			allowed = defaults
		}
		okClass := false
		if demanded {
			cls := string(mustHex(sc.script[1][5:]))
			for _, a := range allowed {
				okClass = okClass || a == cls
			}
		}
		plain := vh.Hex(append(append(append([]byte{0}, mustHex(p[1])...), 0), mustHex(p[2])...))
		for _, t := range tokens {
			if !okClass || t != plain {
				return "VIOLATED:password-disclosure"
			}
		}
	case "cu":
		p := strings.Split(tok, ":")
		var resps []string
		if p[1] != "none" {
			for _, rt := range strings.Split(p[1], ",") {
				resps = append(resps, strings.Split(rt, ".")[0])
			}
		}
		if !isPrefix(tokens, resps) {
			return "VIOLATED:tokens-not-from-authenticator"
		}
		var reqs, want []string
		nsucc := 0
		for _, c := range r.calls {
			if strings.HasPrefix(c, "c:") {
				reqs = append(reqs, c[2:])
			} else {
				nsucc++
			}
		}
		if demanded {
			want = append(want, sc.script[1][5:])
			for _, f := range sc.script[2:] {
				d, ok := chalPayload(f)
				if !ok {
					break
				}
				want = append(want, d)
			}
		}
		if !isPrefix(reqs, want) {
			return "VIOLATED:challenge-requests"
		}
		if p[2] == "1" && nsucc > 0 && r.outcome == "ready" {
			return "VIOLATED:success-error-ignored"
		}
	}
	return "ok"
}

// ---------- end to end with TLS: real listeners on the loopback interface, the session's own dialer
// (connConfig → setupTLSConfig → defaultHostDialer.DialHost → WrapTLS → crypto/tls → Conn.init)

type tlsScenario struct {
	cfg   string            // nil | I<0|1>S<0|1>R<0|1>  (InsecureSkipVerify, ServerName "sn.example", RootCAs = {pool CA})
	ehv   bool              // EnableHostVerification
	ca    string            // CaPath: absent | valid (the file CA)
	certs map[string]string // node → certificate kind: good | poolgood | peer | other | rogue
	dials []string          // <node>:<n|i>  n = HostInfo has the node's name, i = no hostname (IP literal is used)
}

var nodeNames = map[string]string{"a": "node-a.verif.example", "b": "node-b.verif.example"}

const explicitServerName = "sn.example"

type tlsNode struct {
	id   string
	ln   net.Listener
	port int
	mu   sync.Mutex
	cert *tls.Certificate
	scr  []string
}

type tlsEnvT struct {
	caPath  string
	pool    *x509.CertPool
	nodes   map[string]*tlsNode
	certs   map[string]*tls.Certificate // "<node>/<kind>"
	pending sync.WaitGroup              // connections dialled by the driver and not yet finished on the server side
}

var tlsEnv *tlsEnvT

type signer struct {
	cert *x509.Certificate
	key  *ecdsa.PrivateKey
}

func mkCA(cn string) signer {
	k, err := ecdsa.GenerateKey(elliptic.P256(), rand.Reader)
	if err != nil {
		panic(err)
	}
	tpl := &x509.Certificate{SerialNumber: big.NewInt(time.Now().UnixNano()), Subject: pkix.Name{CommonName: cn},
		NotBefore: time.Now().Add(-time.Hour), NotAfter: time.Now().Add(24 * time.Hour),
		KeyUsage: x509.KeyUsageCertSign | x509.KeyUsageDigitalSignature, IsCA: true, BasicConstraintsValid: true}
	der, err := x509.CreateCertificate(rand.Reader, tpl, tpl, &k.PublicKey, k)
	if err != nil {
		panic(err)
	}
	c, _ := x509.ParseCertificate(der)
	return signer{c, k}
}

func mkLeaf(ca signer, dns []string, ips []net.IP) *tls.Certificate {
	k, err := ecdsa.GenerateKey(elliptic.P256(), rand.Reader)
	if err != nil {
		panic(err)
	}
	tpl := &x509.Certificate{SerialNumber: big.NewInt(time.Now().UnixNano()), Subject: pkix.Name{CommonName: "verif-node"},
		NotBefore: time.Now().Add(-time.Hour), NotAfter: time.Now().Add(24 * time.Hour),
		KeyUsage: x509.KeyUsageDigitalSignature, ExtKeyUsage: []x509.ExtKeyUsage{x509.ExtKeyUsageServerAuth},
		DNSNames: dns, IPAddresses: ips}
	der, err := x509.CreateCertificate(rand.Reader, tpl, ca.cert, &k.PublicKey, ca.key)
	if err != nil {
		panic(err)
	}
	return &tls.Certificate{Certificate: [][]byte{der}, PrivateKey: k}
}

func getTLSEnv() *tlsEnvT {
	if tlsEnv != nil {
		return tlsEnv
	}
	dir, err := os.MkdirTemp(os.Getenv("VERIF_C20_TMP"), "verif-c20-tls-") // the parent removes VERIF_C20_TMP
	if err != nil {
		panic(err)
	}
	e := &tlsEnvT{nodes: map[string]*tlsNode{}, certs: map[string]*tls.Certificate{}, pool: x509.NewCertPool()}
	ca, poolCA, rogue := mkCA("verif-file-ca"), mkCA("verif-pool-ca"), mkCA("verif-rogue-ca")
	e.caPath = filepath.Join(dir, "ca.pem")
	if err := os.WriteFile(e.caPath, pem.EncodeToMemory(&pem.Block{Type: "CERTIFICATE", Bytes: ca.cert.Raw}), 0o600); err != nil {
		panic(err)
	}
	e.pool.AddCert(poolCA.cert) // the caller's own RootCAs know ANOTHER CA than the CaPath file
	lo := []net.IP{net.IPv4(127, 0, 0, 1)}
	for id, other := range map[string]string{"a": "b", "b": "a"} {
		e.certs[id+"/good"] = mkLeaf(ca, []string{nodeNames[id], explicitServerName}, lo)
		e.certs[id+"/peer"] = mkLeaf(ca, []string{nodeNames[other], explicitServerName}, lo)
		e.certs[id+"/other"] = mkLeaf(ca, []string{"other.verif.example"}, nil)
		e.certs[id+"/poolgood"] = mkLeaf(poolCA, []string{nodeNames[id], explicitServerName}, lo)
		e.certs[id+"/rogue"] = mkLeaf(rogue, []string{nodeNames[id], explicitServerName}, lo)
		ln, err := net.Listen("tcp", "127.0.0.1:0")
		if err != nil {
			panic(err)
		}
		n := &tlsNode{id: id, ln: ln, port: ln.Addr().(*net.TCPAddr).Port}
		e.nodes[id] = n
		go func() {
			for {
				c, err := ln.Accept()
				if err != nil {
					return
				}
				go e.handle(n, c)
			}
		}()
	}
	tlsEnv = e
	return e
}

func (e *tlsEnvT) handle(n *tlsNode, c net.Conn) {
	defer e.pending.Done()
	defer c.Close()
	n.mu.Lock()
	cert, scr := n.cert, n.scr
	n.mu.Unlock()
	// a client that does not speak TLS at all is served in the clear, so that what it would disclose is observed
	c.SetDeadline(time.Now().Add(driverTimeout))
	br := bufio.NewReader(c)
	if b, err := br.Peek(1); err != nil {
		emit("T", "fail")
		return
	} else if b[0] != 0x16 {
		emit("T", "plain")
		c.SetDeadline(time.Time{})
		servePeer(peekedConn{c, br}, scr)
		return
	}
	tc := tls.Server(peekedConn{c, br}, &tls.Config{MinVersion: tls.VersionTLS12, SessionTicketsDisabled: true,
		GetCertificate: func(h *tls.ClientHelloInfo) (*tls.Certificate, error) {
			emit("I", vh.Hex([]byte(h.ServerName)))
			return cert, nil
		}})
	tc.SetDeadline(time.Now().Add(driverTimeout))
	if err := tc.Handshake(); err != nil {
		emit("T", "fail")
		return
	}
	emit("T", "ok")
	tc.SetDeadline(time.Time{})
	servePeer(tc, scr)
	tc.Close()
}

type peekedConn struct {
	net.Conn
	r io.Reader
}

func (p peekedConn) Read(b []byte) (int, error) { return p.r.Read(b) }

// countingDialer is the ClusterConfig.Dialer: a plain TCP dial that is announced to the environment first, so that
// the scenario can wait for the server side of every connection the driver opened.
type countingDialer struct {
	e *tlsEnvT
	d net.Dialer
}

func (cd *countingDialer) DialContext(ctx context.Context, network, addr string) (net.Conn, error) {
	cd.e.pending.Add(1)
	c, err := cd.d.DialContext(ctx, network, addr)
	if err != nil {
		cd.e.pending.Done()
	}
	return c, err
}

func runTLS(sc scenario) string {
	e := getTLSEnv()
	t := sc.tls
	for id, n := range e.nodes {
		c := e.certs[id+"/"+t.certs[id]]
		if c == nil {
			panic("bad cert kind " + t.certs[id])
		}
		n.mu.Lock()
		n.cert, n.scr = c, sc.script
		n.mu.Unlock()
	}
	o := &gocql.SslOptions{EnableHostVerification: t.ehv}
	switch t.ca {
	case "absent":
	case "valid":
		o.CaPath = e.caPath
	default:
		panic("bad ca " + t.ca)
	}
	if t.cfg != "nil" {
		if len(t.cfg) != 6 {
			panic("bad cfg " + t.cfg)
		}
		o.Config = &tls.Config{InsecureSkipVerify: t.cfg[1] == '1'}
		if t.cfg[3] == '1' {
			o.Config.ServerName = explicitServerName
		}
		if t.cfg[5] == '1' {
			o.Config.RootCAs = e.pool.Clone() // (setupTLSConfig may append CaPath to the caller's pool: KF-C20-1)
		}
	}
	cfg := gocql.NewCluster("127.0.0.1")
	cfg.ProtoVersion, cfg.ConnectTimeout, cfg.Timeout = 4, driverTimeout, driverTimeout
	cfg.Logger = discardLogger
	cfg.SslOpts = o
	cfg.Dialer = &countingDialer{e: e, d: net.Dialer{Timeout: driverTimeout}}
	cfg.Authenticator = mkAuth(sc.static)
	sess, err := gocql.VerifNewSess(cfg)
	if err != nil {
		return "err:tlsconfig"
	}
	for _, d := range t.dials {
		p := strings.Split(d, ":")
		n := e.nodes[p[0]]
		if n == nil || len(p) != 2 {
			panic("bad dial " + d)
		}
		hostname := ""
		if p[1] == "n" {
			hostname = nodeNames[p[0]]
		}
		emit("N", d)
		err := sess.Connect(hostname, net.IPv4(127, 0, 0, 1), n.port)
		e.pending.Wait()
		emit("O", classify(err))
	}
	return "done"
}

// formatTLS: per dial `<dial> sni=… tls=… sent=… outcome=…` (tlsx) or `<dial> proceeded=… cred=…` (tlscred)
func formatTLS(op string, r raw) string {
	if r.fatal != "" {
		return r.fatal
	}
	if r.outcome != "done" {
		return r.outcome
	}
	type dial struct {
		name, sni, tls, outcome string
		sent                    []string
	}
	var ds []*dial
	for _, l := range r.ev {
		k, p := l[:1], l[2:]
		if k == "N" {
			ds = append(ds, &dial{name: p, sni: "none", tls: "none"})
			continue
		}
		if len(ds) == 0 {
			continue
		}
		d := ds[len(ds)-1]
		switch k {
		case "I":
			d.sni = p
		case "T":
			d.tls = p
		case "S":
			d.sent = append(d.sent, p)
		case "O":
			d.outcome = p
		}
	}
	var out []string
	for _, d := range ds {
		if op == "tlsx" {
			out = append(out, fmt.Sprintf("%s sni=%s tls=%s sent=%s outcome=%s", d.name, d.sni, d.tls, list(d.sent), d.outcome))
			continue
		}
		proceeded, cred := "0", "0"
		if len(d.sent) > 0 {
			proceeded = "1"
		}
		if d.tls == "plain" {
			proceeded = "IN-THE-CLEAR"
		}
		for _, s := range d.sent {
			if strings.HasPrefix(s, "authresp") {
				cred = "1"
			}
		}
		out = append(out, fmt.Sprintf("%s proceeded=%s cred=%s", d.name, proceeded, cred))
	}
	return strings.Join(out, " | ")
}

// formatSess: per connection of the session `<dial> sent=… calls=… prov=… outcome=…` (sessx) or
// `<dial> prov=… tok=<first AUTH_RESPONSE token the node received | none> ready|refused` (sessauth)
func formatSess(op string, r raw) string {
	if r.fatal != "" {
		return r.fatal
	}
	if r.outcome != "done" {
		return r.outcome
	}
	type dial struct {
		name, outcome     string
		sent, calls, prov []string
	}
	var ds []*dial
	for _, l := range r.ev {
		k, p := l[:1], l[2:]
		if k == "N" {
			ds = append(ds, &dial{name: p})
			continue
		}
		if len(ds) == 0 {
			continue
		}
		d := ds[len(ds)-1]
		switch k {
		case "S":
			d.sent = append(d.sent, p)
		case "C":
			d.calls = append(d.calls, p)
		case "P":
			d.prov = append(d.prov, p)
		case "O":
			d.outcome = p
		}
	}
	var out []string
	for _, d := range ds {
		if op == "sessx" {
			out = append(out, fmt.Sprintf("%s sent=%s calls=%s prov=%s outcome=%s", d.name, list(d.sent), list(d.calls), list(d.prov), d.outcome))
			continue
		}
		tok := "none"
		for _, s := range d.sent {
			if strings.HasPrefix(s, "authresp:") {
				tok = s[len("authresp:"):]
				break
			}
		}
		ready := "refused"
		if d.outcome == "ready" {
			ready = "ready"
		}
		out = append(out, fmt.Sprintf("%s prov=%s tok=%s %s", d.name, list(d.prov), tok, ready))
	}
	return strings.Join(out, " | ")
}

// ---------- credentials never show up in what the driver logs or reports (op `noleak`)

var pwRe = regexp.MustCompile(`pw:([0-9a-f-]+):([0-9a-f-]+):`)
var cuRe = regexp.MustCompile(`cu:([0-9a-f.,-]+)[:|]`)

// secrets: the distinctive user names, passwords and caller-authenticator tokens anywhere in the configuration
// (the dialled host's and the other hosts')
func secrets(sc scenario) [][]byte {
	var out [][]byte
	addHex := func(h string) {
		// only the distinctive ones (genSecret): a user name like "cassandra" legitimately occurs in the class names
		// the SERVER sends, which the driver's errors quote
		if b := mustHex(h); len(b) >= 14 && (bytes.HasPrefix(b, []byte("usr-")) || bytes.HasPrefix(b, []byte("pwd-")) || bytes.HasPrefix(b, []byte("tok-"))) {
			out = append(out, b)
		}
	}
	for _, src := range []string{sc.static, sc.prov} {
		for _, m := range pwRe.FindAllStringSubmatch(src, -1) {
			addHex(m[1])
			addHex(m[2])
		}
		for _, m := range cuRe.FindAllStringSubmatch(src, -1) {
			for _, rd := range strings.Split(m[1], ",") {
				if i := strings.Index(rd, "."); i > 0 {
					addHex(rd[:i])
				}
			}
		}
	}
	return out
}

// renderings of a secret a careless Printf would produce
func renderings(b []byte) map[string]string {
	dec := make([]string, len(b))
	for i, x := range b {
		dec[i] = strconv.Itoa(int(x))
	}
	return map[string]string{
		"raw":    string(b),
		"hex":    hex.EncodeToString(b),
		"HEX":    strings.ToUpper(hex.EncodeToString(b)),
		"base64": base64.StdEncoding.EncodeToString(b),
		"bytes":  strings.Join(dec, " "),
		"quoted": strings.Trim(strconv.Quote(string(b)), `"`),
	}
}

// noLeak: `clean` iff no log line and no error text contains a credential in any rendering
func noLeak(sc scenario, r raw) string {
	type text struct{ where, s string }
	var texts []text
	for _, l := range r.ev {
		if len(l) > 2 && (l[0] == 'L' || l[0] == 'E') {
			texts = append(texts, text{map[byte]string{'L': "log", 'E': "error"}[l[0]], string(mustHex(l[2:]))})
		}
	}
	for _, sec := range secrets(sc) {
		rs := renderings(sec)
		for _, form := range []string{"raw", "quoted", "hex", "HEX", "base64", "bytes"} {
			for _, t := range texts {
				if strings.Contains(t.s, rs[form]) {
					return "LEAK:" + t.where + ":" + form + ":" + vh.Hex([]byte(t.s))
				}
			}
		}
	}
	return "clean"
}
