// C18, round 9: body SIZES between the shaped bodies (up to 1 MiB) and the 256 MiB frames.
//
//	midrt <codec> <gen> <n>   a body of n bytes (gen = z zeros | p<k> period k | r<seed> incompressible)
//	                          through the real compressor and back. lz4: as op lz4rt — Encode succeeds, the
//	                          4-byte prefix is n, the raw block decoded by pierrec/lz4 called directly gives
//	                          the body, the wrapper's own Decode gives the body (C18_lz4_delivered); snappy:
//	                          Encode, Decode, equal (the trusted-base hypothesis, as op hyp).
//
// Sizes: m * 2^j (m in {1,3,5,7}, 1 MiB .. 128 MiB) and their neighbours (-1, +1, +/- up to 64 KiB): where
// 32-bit arithmetic on lengths (times small constants), size classes of allocators and the codecs' own
// block / window boundaries change. The model answers through the length only.
package main

import (
	"bytes"
	"encoding/binary"
	"fmt"
	"runtime/debug"

	"github.com/gocql/gocql"
	"github.com/gocql/gocql/lz4"
	plz4 "github.com/pierrec/lz4/v4"
	"verifharness/vh"
)

func execMidrt(codec, gen string, n int) (res string) {
	defer func() {
		if r := recover(); r != nil {
			res = fmt.Sprintf("crash:%v", r)
		}
		bigCache.body = nil
		debug.FreeOSMemory()
	}()
	body := bigBody(gen, n)
	if codec == "snappy" {
		c := gocql.SnappyCompressor{}
		z, err := c.Encode(body)
		if err != nil {
			return "encode-error"
		}
		d, err := c.Decode(z)
		if err != nil || !bytes.Equal(d, body) {
			return "NOT-roundtrip"
		}
		return "roundtrip"
	}
	enc, err := lz4.LZ4Compressor{}.Encode(body)
	if err != nil {
		return "encode-error"
	}
	if len(enc) < 4 {
		return "short-output"
	}
	blockOK := true
	if len(body) > 0 {
		dst := make([]byte, len(body))
		m, err := plz4.UncompressBlock(enc[4:], dst)
		blockOK = err == nil && bytes.Equal(dst[:m], body)
	}
	dec, err := lz4.LZ4Compressor{}.Decode(enc)
	return fmt.Sprintf("ok prefix=%d block=%v dec=%v", binary.BigEndian.Uint32(enc), blockOK, err == nil && bytes.Equal(dec, body))
}

// the round sizes: m * 2^j MiB-range values, 1 MiB .. 128 MiB
func midBases() []int {
	var out []int
	for _, m := range []int{1, 3, 5, 7} {
		for j := uint(20); j <= 27; j++ {
			if v := m << j; v <= 128<<20 {
				out = append(out, v)
			}
		}
	}
	return out
}

func midDelta(r *vh.Rng, sign int) int {
	switch r.Intn(3) {
	case 0:
		if sign > 0 {
			return 0
		}
		return -1
	case 1:
		return sign
	}
	return sign * (2 + r.Intn(65535))
}

func midGen(r *vh.Rng, incompressible bool) string {
	if incompressible {
		return fmt.Sprintf("r%d", r.Intn(1000))
	}
	return []string{"z", "p3", "p251", "p4099"}[r.Intn(4)]
}

// genMid: the ops of one run. quick: 8 round sizes drawn without replacement; per size an incompressible
// lz4 body just above and just below it, and one more case (snappy or lz4, two in three compressible).
// thorough: every round size, both codecs, both contents, above and below.
func genMid(r *vh.Rng, tier string) [][2]string {
	bases := midBases()
	for i := len(bases) - 1; i > 0; i-- { // permutation from the one PRNG
		j := r.Intn(i + 1)
		bases[i], bases[j] = bases[j], bases[i]
	}
	var ops [][2]string
	add := func(codec, gen string, n int, cls string) {
		ops = append(ops, [2]string{fmt.Sprintf("midrt %s %s %d", codec, gen, n), "midrt/" + codec + "/" + cls})
	}
	if tier != "thorough" {
		for _, b := range bases[:8] {
			add("lz4", midGen(r, true), b+midDelta(r, 1), "incompressible/above")
			add("lz4", midGen(r, true), b+midDelta(r, -1), "incompressible/below")
			codec := compNames[1+r.Intn(2)]
			inc := r.Intn(3) == 0
			cls := "compressible"
			if inc {
				cls = "incompressible"
			}
			add(codec, midGen(r, inc), b+midDelta(r, []int{1, -1}[r.Intn(2)]), cls+"/either")
		}
		return ops
	}
	for _, b := range bases {
		for _, codec := range compNames[1:] {
			for _, inc := range []bool{true, false} {
				cls := "compressible"
				if inc {
					cls = "incompressible"
				}
				add(codec, midGen(r, inc), b+midDelta(r, 1), cls+"/above")
				add(codec, midGen(r, inc), b+midDelta(r, -1), cls+"/below")
			}
		}
	}
	return ops
}
