// C18, round 9: compressed responses at the 256 MiB boundary through the REAL receive path.
//
//	rxbig <codec> <flag> <gen> <n> <plen> <dec>
//	        a real Conn (real startup over net.Pipe, compression negotiated; v4), one QUERY through
//	        Conn.exec; the peer answers with a RESULT frame whose body is n bytes (gen = z zeros |
//	        p<k> period | r<seed> incompressible): flag 1 = compressed by an INDEPENDENT encoder of the
//	        codec (plen = the payload's length, dec = oklen:<n>), flag 0 = plain (plen = n, dec = none).
//	        Answer: what the caller of exec holds (length, bytes equal to the body) or its error, then
//	        whether the connection still serves a small request.
//
// The limit is on the COMPRESSED length (readFrame compares head.length): a payload of up to 256 MiB may
// decode to more than 256 MiB and is delivered; a payload over the limit is discarded whole, the caller
// gets ErrFrameTooBig and the connection lives. The model answers through lengths only (readLen,
// C18_read_by_length; the dispatch to the waiting call: C18_recv_transparent / C18_recv_compressed_error).
package main

import (
	"bytes"
	"fmt"
	"runtime/debug"
	"time"

	"github.com/gocql/gocql"
	"github.com/gocql/gocql/lz4"
	"verifharness/vh"
)

func rxbigPayload(codec string, flag byte, gen string, n int) []byte {
	body := bigBody(gen, n)
	if flag&1 == 0 {
		return body
	}
	return indepEncode(codec, body)
}

func execRxbig(codec string, flag byte, gen string, n int) (res string) {
	defer func() {
		bigCache.body = nil
		debug.FreeOSMemory()
	}()
	var comp gocql.Compressor = gocql.SnappyCompressor{}
	if codec == "lz4" {
		comp = lz4.LZ4Compressor{} // without the harness guard: these prefixes legitimately declare 256 MiB
	}
	// body and payload first: the connection's heartbeat starts one second after the startup
	body := bigBody(gen, n)
	payload := rxbigPayload(codec, flag, gen, n)
	fc, err := openFlightConnWith(comp)
	if err != nil {
		return "dial-error:" + errClass(err)
	}
	defer fc.close()
	type result struct {
		p   *gocql.VerifC18dPending
		err error
	}
	ask := func(kind string) (chan result, srvFrame, bool) {
		ch := make(chan result, 1)
		go func() {
			p, err := gocql.VerifC18dExec(fc.conn, kind, "SELECT v FROM t", 10*time.Minute)
			ch <- result{p, err}
		}()
		for {
			select {
			case f := <-fc.reqs:
				if f.op == 0x05 {
					// Conn.heartBeat's OPTIONS (one second after the startup, then every second): answered,
					// never taken for the request of the scenario
					writeSrvFrame(fc.srv, 0, 0x06, f.stream, supportedBody([]kv{{"COMPRESSION", []string{"snappy", "lz4"}}}))
					continue
				}
				return ch, f, true
			case <-time.After(watchdog):
				dumpGoroutines("rxbig: the peer did not read the request")
				return ch, srvFrame{}, false
			}
		}
	}
	ch, f, ok := ask("query")
	if !ok {
		return "timeout"
	}
	// the response: header and payload written by the peer, independent of gocql
	h := []byte{0x84, flag, byte(uint16(f.stream) >> 8), byte(f.stream), 0x08,
		byte(len(payload) >> 24), byte(len(payload) >> 16), byte(len(payload) >> 8), byte(len(payload))}
	go func() {
		fc.srv.Write(h)
		fc.srv.Write(payload)
	}()
	var first string
	select {
	case r := <-ch:
		if r.err != nil {
			first = "resp=" + classify(r.err)
		} else {
			got := r.p.Body()
			first = fmt.Sprintf("resp=ok:len=%d,same=%v", len(got), bytes.Equal(got, body))
		}
	case <-time.After(4 * watchdog):
		dumpGoroutines("rxbig: the caller did not return")
		return "timeout"
	}
	// does the connection still serve a request?
	ch2, f2, ok := ask("register")
	if !ok {
		return first + " dead"
	}
	writeSrvFrame(fc.srv, 0, 0x02, f2.stream, nil)
	select {
	case r := <-ch2:
		if r.err != nil {
			return first + " dead:" + errClass(r.err)
		}
		return first + " alive"
	case <-time.After(watchdog):
		return first + " dead:timeout"
	}
}

var rxbigClasses = []string{"decodes-over-limit", "payload-under-limit", "payload-over-limit", "plain-at-limit", "plain-over-limit"}

func genRxbig(r *vh.Rng, class string) (string, string) {
	codec := compNames[1+r.Intn(2)]
	flag := byte(1)
	gen := "z"
	n := 0
	switch class {
	case "decodes-over-limit": // a small payload that decodes to MORE than the frame limit
		n = maxFrame + 1 + r.Intn(5000)
		gen = []string{"z", "p3", "p251"}[r.Intn(3)]
	case "payload-under-limit": // incompressible, the compressed payload still fits
		n = maxFrame - 2*1024*1024 - r.Intn(1000)
		gen = fmt.Sprintf("r%d", r.Intn(1000))
	case "payload-over-limit": // incompressible within the codec's expansion of the limit
		n = maxFrame - r.Intn(2000)
		gen = fmt.Sprintf("r%d", r.Intn(1000))
	case "plain-at-limit":
		n = maxFrame - r.Intn(2)
		flag = 0
	default: // plain-over-limit
		n = maxFrame + 1 + r.Intn(3)
		flag = 0
	}
	plen := n
	dec := "none"
	if flag == 1 {
		plen = len(rxbigPayload(codec, flag, gen, n))
		dec = fmt.Sprintf("oklen:%d", n)
	}
	return fmt.Sprintf("rxbig %s %d %s %d %d %s", codec, flag, gen, n, plen, dec), "rxbig/" + class + "/" + codec
}
