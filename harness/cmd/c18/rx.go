// Compressed / compression-flagged frames on EVERY receive path of a real connection (op `rx`) and
// negotiation over HISTORIES of connections to one host (ops `negoh`, `negos`).
//
// rx:    one real connection over net.Pipe against a scripted peer: the two responses of the
//
//	handshake and then frames on a stream with a waiting call, on stream -1 (EVENT), on the
//	reserved streams 0 / -2 and on a stream nobody waits on — each with or without the compression
//	flag, the payload plain / encoded by the configured codec / by the other one / corrupt /
//	cut. Observed per frame: what the waiting call got, which event reached the session, whether
//	the connection lives (a ping) or with which error it was closed.
//
// negoh: several connections, one after the other or side by side, to ONE HostInfo; the node changes
//
//	what it advertises between connections. Observed per connection, on the peer's side:
//	OPTIONS sent?, the COMPRESSION value of STARTUP, the flag of a later request.
//
// A crash of the reader goroutine kills the process: these ops run in a WORKER child process (same
// binary, `worker`); the parent answers `crash:child-died:…` and starts a new worker.
// All waiting is on events; the only clocks are watchdogs (30 s in the worker, 120 s around it).
package main

import (
	"bufio"
	"bytes"
	"context"
	"encoding/binary"
	"fmt"
	"io"
	"net"
	"os"
	osexec "os/exec"
	"sort"
	"strings"
	"sync"
	"time"

	"github.com/gocql/gocql"
	"github.com/golang/snappy"
	"verifharness/vh"
)

// ---------- worker child ----------

type workerProc struct {
	cmd    *osexec.Cmd
	in     io.WriteCloser
	out    *bufio.Reader
	stderr *bytes.Buffer
}

var worker *workerProc

func workerMain() {
	sc := bufio.NewScanner(os.Stdin)
	sc.Buffer(make([]byte, 1<<20), 1<<28)
	w := bufio.NewWriter(os.Stdout)
	for sc.Scan() {
		fmt.Fprintln(w, execLocal(sc.Text()))
		w.Flush()
	}
}

func startWorker() (*workerProc, error) {
	exe, err := os.Executable()
	if err != nil {
		exe = os.Args[0]
	}
	cmd := osexec.Command(exe, "worker")
	cmd.Env = append(os.Environ(), "GOTRACEBACK=single")
	in, err := cmd.StdinPipe()
	if err != nil {
		return nil, err
	}
	out, err := cmd.StdoutPipe()
	if err != nil {
		return nil, err
	}
	se := &bytes.Buffer{}
	cmd.Stderr = se
	if err := cmd.Start(); err != nil {
		return nil, err
	}
	return &workerProc{cmd: cmd, in: in, out: bufio.NewReaderSize(out, 1<<20), stderr: se}, nil
}

func stopWorker() {
	if worker != nil {
		worker.in.Close()
		worker.cmd.Wait()
		worker = nil
	}
}

// childExec runs one op in the worker process; the death of the worker is the answer `crash:child-died:…`
func childExec(op string) string {
	if worker == nil {
		w, err := startWorker()
		if err != nil {
			return "worker-start-failed:" + err.Error()
		}
		worker = w
	}
	w := worker
	if _, err := io.WriteString(w.in, op+"\n"); err != nil {
		return workerDied(w)
	}
	type lineRes struct {
		s   string
		err error
	}
	ch := make(chan lineRes, 1)
	go func() {
		s, err := w.out.ReadString('\n')
		ch <- lineRes{s, err}
	}()
	select {
	case r := <-ch:
		if r.err != nil {
			return workerDied(w)
		}
		return strings.TrimRight(r.s, "\n")
	case <-time.After(120 * time.Second):
		w.cmd.Process.Kill()
		w.cmd.Wait()
		worker = nil
		os.Stderr.Write(w.stderr.Bytes())
		return "timeout:worker"
	}
}

func workerDied(w *workerProc) string {
	w.in.Close()
	w.cmd.Wait()
	worker = nil
	why := "no-panic-line"
	for _, l := range strings.Split(w.stderr.String(), "\n") {
		if strings.HasPrefix(l, "panic:") || strings.HasPrefix(l, "fatal error:") {
			why = l
			break
		}
	}
	if i := strings.Index(why, "[recovered]"); i >= 0 {
		why = why[:i]
	}
	why = strings.ReplaceAll(strings.TrimSpace(why), " ", "_")
	if len(why) > 90 {
		why = why[:90]
	}
	return "crash:child-died:" + why
}

// execLocal: the ops of this file on the real code, in THIS process (the worker)
func execLocal(op string) (res string) {
	defer func() {
		if r := recover(); r != nil {
			res = fmt.Sprintf("crash:%v", r)
		}
	}()
	w := strings.Fields(op)
	if len(w) == 0 {
		return "bad-op"
	}
	switch w[0] {
	case "rx":
		if len(w) < 5 {
			return "bad-op"
		}
		return execRx(w[1], w[2], w[3], w[4], w[5:])
	case "negoh":
		if len(w) < 2 {
			return "bad-op"
		}
		return execNegoh(w[1], w[2:])
	case "negos":
		if len(w) < 3 {
			return "bad-op"
		}
		return execNegos(w[1], atoi(w[2]), w[3:])
	case "negom":
		if len(w) < 4 {
			return "bad-op"
		}
		return execNegom(w[1], atoi(w[2]), atoi(w[3]), w[4:])
	}
	return "bad-op"
}

// ---------- frame descriptors ----------

// frameD = <flag>/<payload hex>/<decres>; decres = what an independent decoder of the CONFIGURED codec
// says about the payload (`ok:<hex>` | `err` | `none` when no codec is configured)
type frameD struct {
	flag    byte
	payload []byte
}

func parseFrameD(s string) (frameD, bool) {
	p := strings.Split(s, "/")
	if len(p) != 3 {
		return frameD{}, false
	}
	b, err := vh.UnHex(p[1])
	if err != nil {
		return frameD{}, false
	}
	return frameD{flag: byte(atoi(p[0])), payload: b}, true
}

func rxErrClass(err error) string {
	m := err.Error()
	switch {
	case strings.Contains(m, "no compressor available"):
		return "err:noCompressor"
	case strings.Contains(m, "snappy") || strings.Contains(m, "lz4") || strings.Contains(m, "harness guard"):
		return "err:codec"
	case strings.Contains(m, "received unexpected frame on stream"):
		return "proto"
	case strings.Contains(m, "connection closed") || strings.Contains(m, "closed pipe") || m == "EOF":
		return "connclosed"
	}
	if len(m) > 70 {
		m = m[:70]
	}
	return "other:" + strings.ReplaceAll(m, " ", "_")
}

// ---------- the scripted peer of one connection ----------

type rxPeer struct {
	cli, srv   net.Conn
	sup        []kv
	sD, rD     frameD // how SUPPORTED and READY are sent
	reqs       chan srvFrame
	done       chan struct{}
	mu         sync.Mutex
	optSeen    bool
	optFlags   byte
	startFlags byte
	startComp  string
	started    bool
}

func newRxPeer(sup []kv, sD, rD frameD) *rxPeer {
	p := &rxPeer{sup: sup, sD: sD, rD: rD, reqs: make(chan srvFrame, 16), done: make(chan struct{}), startComp: "-"}
	p.cli, p.srv = net.Pipe()
	go p.serve()
	return p
}

func (p *rxPeer) serve() {
	defer close(p.done)
	for {
		f, err := readSrvFrame(p.srv)
		if err != nil {
			return
		}
		p.mu.Lock()
		started := p.started
		p.mu.Unlock()
		switch {
		case !started && f.op == 0x05:
			p.mu.Lock()
			p.optSeen, p.optFlags = true, f.flags
			p.mu.Unlock()
			p.srv.Write(respWire(p.sD.flag, int(uint16(f.stream)), 0x06, p.sD.payload))
		case !started && f.op == 0x01:
			p.mu.Lock()
			p.started, p.startFlags = true, f.flags
			if f.flags&1 == 0 {
				if c, ok := parseStringMap(f.body)["COMPRESSION"]; ok {
					p.startComp = c
				}
			} else {
				p.startComp = "compressed-startup"
			}
			p.mu.Unlock()
			p.srv.Write(respWire(p.rD.flag, int(uint16(f.stream)), 0x02, p.rD.payload))
		case f.op == 0x05:
			// Conn.heartBeat sends OPTIONS one second after the startup (the scenarios never do, once
			// started): answered here, never taken for a request of the scenario — a scenario that takes
			// longer than a second on a loaded machine must not change its answer
			p.srv.Write(respWire(0, int(uint16(f.stream)), 0x06, supportedBody(p.sup)))
		default:
			p.reqs <- f
		}
	}
}

func (p *rxPeer) close() {
	p.cli.Close()
	p.srv.Close()
	select {
	case <-p.done:
	case <-time.After(watchdog):
		dumpGoroutines("rx peer goroutine did not end")
	}
}

// ---------- one live connection of a scenario ----------

type rxConn struct {
	peer     *rxPeer
	conn     *gocql.Conn
	closedCh chan error
	closed   bool
}

func dialRx(env *gocql.VerifC18eEnv, codec string, peer *rxPeer) (*rxConn, error) {
	rc := &rxConn{peer: peer, closedCh: make(chan error, 4)}
	conn, err := env.Dial(peer.cli, compressor(codec), 4, 10*time.Minute, func(err error) {
		select {
		case rc.closedCh <- err:
		default:
		}
	})
	if err != nil {
		return nil, err
	}
	rc.conn = conn
	return rc, nil
}

type rxCall struct {
	ret  chan struct{}
	pend *gocql.VerifC18dPending
	err  error
}

func (rc *rxConn) register() *rxCall {
	c := &rxCall{ret: make(chan struct{})}
	go func() {
		defer close(c.ret)
		c.pend, c.err = gocql.VerifC18dExec(rc.conn, "register", "E", 10*time.Minute)
	}()
	return c
}

// request: a REGISTER call; the peer answers it with the frame d (opcode READY). Returns what the call got.
func (rc *rxConn) request(d frameD) string {
	c := rc.register()
	select {
	case sf := <-rc.peer.reqs:
		rc.peer.srv.Write(respWire(d.flag, int(uint16(sf.stream)), 0x02, d.payload))
	case <-c.ret:
	case <-time.After(watchdog):
		dumpGoroutines("rx: request never reached the peer")
		return "timeout"
	}
	select {
	case <-c.ret:
	case <-time.After(watchdog):
		dumpGoroutines("rx: response sent, the client call did not return")
		return "timeout"
	}
	if c.err != nil {
		return rxErrClass(c.err)
	}
	return "ok:" + canon(c.pend.Body())
}

// live: a ping (REGISTER answered by a plain READY): `alive`, or `closed:<class of the closing error>`
func (rc *rxConn) live() string {
	if r := rc.request(frameD{}); r == "ok:-" {
		return "alive"
	} else if r == "timeout" {
		return "timeout"
	}
	rc.closed = true
	select {
	case err := <-rc.closedCh:
		if err == nil {
			return "closed:nil"
		}
		return "closed:" + strings.TrimPrefix(rxErrClass(err), "err:")
	case <-time.After(watchdog):
		dumpGoroutines("rx: ping failed but the connection's error handler was never called")
		return "closed:no-handler-call"
	}
}

// eventWire encodes an event body by hand: [string type][string change][inet]
func eventBody(typ, change string, ip []byte, port int) []byte {
	var b bytes.Buffer
	putString(&b, typ)
	putString(&b, change)
	b.WriteByte(byte(len(ip)))
	b.Write(ip)
	binary.Write(&b, binary.BigEndian, int32(port))
	return b.Bytes()
}

func eventsSeen(env *gocql.VerifC18eEnv) string {
	evs := env.TakeEvents()
	if len(evs) == 0 {
		return "-"
	}
	var out []string
	for _, e := range evs {
		f := strings.Split(e, "/")
		if len(f) != 4 {
			out = append(out, "other")
			continue
		}
		ip, err := vh.UnHex(f[2])
		if err != nil {
			out = append(out, "other")
			continue
		}
		out = append(out, vh.Hex(eventBody(f[0], f[1], ip, atoi(f[3]))))
	}
	return strings.Join(out, "+")
}

func execRx(codec, sup, sArg, rArg string, steps []string) string {
	sD, ok1 := parseFrameD(strings.TrimPrefix(sArg, "S="))
	rD, ok2 := parseFrameD(strings.TrimPrefix(rArg, "R="))
	if !ok1 || !ok2 {
		return "bad-op"
	}
	env := gocql.VerifC18eNewEnv()
	peer := newRxPeer(parseSupported(sup), sD, rD)
	defer peer.close()
	var ans []string
	rc, err := dialRx(env, codec, peer)
	if err != nil {
		ans = append(ans, "dial="+rxErrClass(err))
		for range steps {
			ans = append(ans, "nodial")
		}
		return strings.Join(ans, " ")
	}
	defer rc.conn.Close()
	peer.mu.Lock()
	ans = append(ans, fmt.Sprintf("dial=ok:opt=%d:startup=%s:sflag=%d:kept=%v", peer.optFlags&1, peer.startComp, peer.startFlags&1,
		gocql.VerifC18CompressorName(rc.conn) != ""))
	peer.mu.Unlock()
	for _, st := range steps {
		ans = append(ans, rxStep(env, rc, st))
	}
	return strings.Join(ans, " ")
}

func rxStep(env *gocql.VerifC18eEnv, rc *rxConn, st string) (res string) {
	defer func() {
		if r := recover(); r != nil {
			res = fmt.Sprintf("crash:%v", r)
		}
	}()
	if rc.closed {
		return "gone"
	}
	if st == "p" {
		return rc.live()
	}
	i := strings.IndexByte(st, '=')
	if i < 1 {
		return "bad-step"
	}
	d, ok := parseFrameD(st[i+1:])
	if !ok {
		return "bad-step"
	}
	switch {
	case st[:i] == "q":
		r := rc.request(d)
		return "resp=" + r + "," + rc.live()
	case st[:i] == "e":
		if _, err := rc.peer.srv.Write(respWire(d.flag, 0xffff, 0x0C, d.payload)); err != nil {
			return "peer-write-failed"
		}
		l := rc.live()
		return "ev=" + eventsSeen(env) + "," + l
	case st[0] == 's':
		stream := atoi(st[1:i])
		if _, err := rc.peer.srv.Write(respWire(d.flag, int(uint16(int16(stream))), 0x02, d.payload)); err != nil {
			return "peer-write-failed"
		}
		return rc.live()
	}
	return "bad-step"
}

// ---------- op negoh: a history of connections to one HostInfo ----------

func execNegoh(codec string, steps []string) string {
	env := gocql.VerifC18eNewEnv()
	var conns []*rxConn
	defer func() {
		for _, rc := range conns {
			if rc != nil {
				rc.conn.Close()
				rc.peer.close()
			}
		}
	}()
	var ans []string
	for _, st := range steps {
		ans = append(ans, negohStep(env, codec, &conns, st))
	}
	return strings.Join(ans, " ")
}

func negohStep(env *gocql.VerifC18eEnv, codec string, conns *[]*rxConn, st string) (res string) {
	defer func() {
		if r := recover(); r != nil {
			res = fmt.Sprintf("crash:%v", r)
		}
	}()
	if st == "" {
		return "bad-step"
	}
	switch st[0] {
	case 'x':
		k := atoi(st[1:])
		if k < 0 || k >= len(*conns) || (*conns)[k] == nil {
			return "bad-step"
		}
		rc := (*conns)[k]
		rc.conn.Close()
		rc.peer.close()
		(*conns)[k] = nil
		return "ok"
	case 'o':
		sup := parseSupported(st[1:])
		peer := newRxPeer(sup, frameD{payload: supportedBody(sup)}, frameD{})
		rc, err := dialRx(env, codec, peer)
		if err != nil {
			peer.close()
			*conns = append(*conns, nil)
			return "dial=" + rxErrClass(err)
		}
		*conns = append(*conns, rc)
		return observeConn(rc, codec)
	}
	return "bad-step"
}

// observeConn: what the peer saw of the handshake, then one REGISTER request on the connection
func observeConn(rc *rxConn, codec string) string {
	c := rc.register()
	qflag, bodyOK := byte(9), false
	select {
	case sf := <-rc.peer.reqs:
		qflag = sf.flags & 1
		body := sf.body
		if qflag == 1 {
			if codec == "none" {
				body = nil
			} else if d, err := indepDecode(codec, body); err == nil {
				body = d
			} else {
				body = nil
			}
		}
		bodyOK = bytes.Equal(body, []byte{0, 1, 0, 1, 'E'})
		rc.peer.srv.Write(respWire(0, int(uint16(sf.stream)), 0x02, nil))
	case <-c.ret:
	case <-time.After(watchdog):
		dumpGoroutines("negoh: request never reached the peer")
		return "timeout"
	}
	select {
	case <-c.ret:
	case <-time.After(watchdog):
		dumpGoroutines("negoh: client call did not return")
		return "timeout"
	}
	p := rc.peer
	p.mu.Lock()
	defer p.mu.Unlock()
	opt := 0
	if p.optSeen {
		opt = 1
	}
	body := "ok"
	if !bodyOK {
		body = "bad"
	}
	res := fmt.Sprintf("opt=%d,startup=%s,kept=%v,qflag=%d,body=%s", opt, p.startComp, gocql.VerifC18CompressorName(rc.conn) != "", qflag, body)
	if p.optFlags&1 != 0 || p.startFlags&1 != 0 || c.err != nil {
		res += ",ANOMALY"
	}
	return res
}

// ---------- generators ----------

var rxLists = []string{"", "snappy", "lz4", "snappy,lz4", "lz4,snappy", "deflate", "snappy,lz4,deflate", "Snappy", "zstd"}

func genSup(r *vh.Rng) string {
	var parts []string
	if r.Intn(5) != 0 {
		parts = append(parts, "CQL_VERSION=3.4.5")
	}
	switch r.Intn(8) {
	case 0: // no COMPRESSION key
	case 1:
		parts = append(parts, "COMPRESSION="+rxLists[r.Intn(len(rxLists))], "COMPRESSION="+rxLists[r.Intn(len(rxLists))])
	default:
		parts = append(parts, "COMPRESSION="+rxLists[r.Intn(len(rxLists))])
	}
	if len(parts) == 0 {
		return "-"
	}
	return strings.Join(parts, ";")
}

// specNegotiated: the specification's side of negotiation (last COMPRESSION entry wins, exact name)
func specNegotiated(codec, sup string) bool {
	if codec == "none" {
		return false
	}
	var list []string
	for _, e := range parseSupported(sup) {
		if e.k == "COMPRESSION" {
			list = e.v
		}
	}
	for _, x := range list {
		if x == codec {
			return true
		}
	}
	return false
}

func otherCodec(c string) string {
	if c == "snappy" {
		return "lz4"
	}
	return "snappy"
}

// decresFor: what an independent decoder of the configured codec says about the payload
func decresFor(codec string, payload []byte) string {
	if codec == "none" {
		return "none"
	}
	d, err := indepDecode(codec, payload)
	if err != nil {
		return "err"
	}
	return "ok:" + vh.Hex(d)
}

// lz4Safe: the lz4 payloads whose answer is deterministic (see KF-C18-1) and small to allocate
func lz4Safe(payload []byte) bool {
	if len(payload) < 4 {
		return true
	}
	n := binary.BigEndian.Uint32(payload)
	if n == 0 {
		return true
	}
	return n <= 1<<20 && lz4Complete(payload[4:])
}

// genPayload: (flag, payload, class) for a frame whose plaintext is body. mustMean: the frame's body
// has a MEANING to the receiver (event, SUPPORTED): then a payload that decodes to something else than
// body is not generated.
func genPayload(r *vh.Rng, codec string, body []byte, mustMean bool) (byte, []byte, string) {
	enc := codec
	if enc == "none" {
		enc = []string{"snappy", "lz4"}[r.Intn(2)]
	}
	var flag byte
	var payload []byte
	cls := ""
	switch r.Intn(10) {
	case 0, 1:
		flag, payload, cls = 0, body, "plain"
	case 2, 3, 4:
		flag, payload, cls = 1, indepEncode(enc, body), "valid"
	case 5:
		flag, payload, cls = 1, indepEncode(otherCodec(enc), body), "other-codec"
	case 6:
		payload = indepEncode(enc, body)
		if len(payload) > 0 {
			payload[r.Intn(len(payload))] ^= byte(1 << uint(r.Intn(8)))
		}
		flag, cls = 1, "bitflip"
	case 7:
		payload = indepEncode(enc, body)
		payload = payload[:r.Intn(len(payload)+1)]
		flag, cls = 1, "cut"
	case 8:
		flag, payload, cls = 1, r.Bytes(r.Intn(12)), "garbage"
	default:
		if mustMean {
			flag, payload, cls = 1, body, "flag-on-plain"
		} else if r.Bool() {
			flag, payload, cls = 1, body, "flag-on-plain"
		} else {
			flag, payload, cls = 0, indepEncode(enc, body), "compressed-unflagged"
		}
	}
	// keep away from the layout-dependent lz4 inputs (both codecs may be asked: the configured one decodes)
	if n, err := snappy.DecodedLen(payload); flag == 1 && codec == "snappy" && err == nil && n > 1<<20 {
		flag, payload, cls = 1, []byte{0xff}, "short" // no gigabyte allocations in the worker
	}
	if flag == 1 && codec == "lz4" && !lz4Safe(payload) {
		flag, payload, cls = 1, []byte{0, 0, 1}, "short"
	}
	if mustMean && flag == 1 && codec != "none" {
		if d, err := indepDecode(codec, payload); err == nil && !bytes.Equal(d, body) {
			flag, payload, cls = 1, []byte{0, 0, 1}, "short"
		}
	}
	return flag, payload, cls
}

func dStr(codec string, flag byte, payload []byte) string {
	return fmt.Sprintf("%d/%s/%s", flag, vh.Hex(payload), decresFor(codec, payload))
}

func genEventBody(r *vh.Rng) []byte {
	typ := []string{"STATUS_CHANGE", "TOPOLOGY_CHANGE"}[r.Intn(2)]
	change := []string{"UP", "DOWN"}[r.Intn(2)]
	if typ == "TOPOLOGY_CHANGE" {
		change = []string{"NEW_NODE", "REMOVED_NODE", "MOVED_NODE"}[r.Intn(3)]
	}
	ip := r.Bytes(4)
	if r.Intn(4) == 0 {
		ip = r.Bytes(16)
	}
	return eventBody(typ, change, ip, 1+r.Intn(65000))
}

func rxBody(r *vh.Rng) []byte {
	n := []int{0, 0, 1, 3, 4, 5, 16, 17, 60, 64, 100, 200}[r.Intn(12)]
	switch r.Intn(4) {
	case 0:
		return make([]byte, n)
	case 1:
		return bytes.Repeat([]byte{byte(r.Intn(256)), 0x41}, n/2+1)[:n]
	case 2:
		return expand(heldBodyOrDash(r, n))
	}
	return r.Bytes(n)
}

func heldBodyOrDash(r *vh.Rng, n int) string {
	if n == 0 {
		return "-"
	}
	return fmt.Sprintf("cat:t%d.%d", r.Intn(1<<30), n)
}

func genRx(r *vh.Rng) (string, string) {
	codec := compNames[r.Intn(3)]
	sup := genSup(r)
	if r.Intn(3) == 0 && codec != "none" { // make sure "negotiated" is frequent
		sup = "COMPRESSION=" + []string{codec, "snappy,lz4", "lz4,snappy"}[r.Intn(3)]
	}
	nego := specNegotiated(codec, sup)
	supBody := supportedBody(parseSupported(sup))
	sFlag, sPayload, sCls := byte(0), supBody, "plain"
	rFlag, rPayload, rCls := byte(0), []byte{}, "plain"
	hs := "hs-plain"
	switch r.Intn(12) {
	case 0:
		sFlag, sPayload, sCls = genPayload(r, codec, supBody, true)
		hs = "hs-S-" + sCls
	case 1:
		rFlag, rPayload, rCls = genPayload(r, codec, []byte{}, true)
		hs = "hs-R-" + rCls
	}
	_ = rCls
	toks := []string{"rx", codec, sup, "S=" + dStr(codec, sFlag, sPayload), "R=" + dStr(codec, rFlag, rPayload)}
	n := 1 + r.Intn(5)
	if hs != "hs-plain" {
		n = 1 + r.Intn(2)
	}
	path := ""
	for i := 0; i < n; i++ {
		switch r.Intn(10) {
		case 0, 1, 2, 3:
			f, p, c := genPayload(r, codec, rxBody(r), false)
			toks = append(toks, "q="+dStr(codec, f, p))
			path += "q" + c[:1]
		case 4, 5, 6:
			f, p, c := genPayload(r, codec, genEventBody(r), true)
			toks = append(toks, "e="+dStr(codec, f, p))
			path += "e" + c[:1]
		case 7:
			f, p, c := genPayload(r, codec, rxBody(r), false)
			toks = append(toks, fmt.Sprintf("s%d=%s", []int{0, -2, -3}[r.Intn(3)], dStr(codec, f, p)))
			path += "z" + c[:1]
		case 8:
			f, p, c := genPayload(r, codec, rxBody(r), false)
			toks = append(toks, fmt.Sprintf("s%d=%s", []int{300, 77, 32000}[r.Intn(3)], dStr(codec, f, p)))
			path += "u" + c[:1]
		default:
			toks = append(toks, "p")
		}
	}
	return strings.Join(toks, " "), fmt.Sprintf("rx/%s/nego=%v/%s", codec, nego, hs)
}

func genNegoh(r *vh.Rng) (string, string) {
	codec := compNames[r.Intn(3)]
	if r.Intn(4) != 0 {
		codec = compNames[1+r.Intn(2)]
	}
	n := 2 + r.Intn(4)
	toks := []string{"negoh", codec}
	open := []int{}
	changes := 0
	prev := ""
	for i := 0; i < n; i++ {
		var sup string
		switch r.Intn(6) {
		case 0:
			sup = genSup(r)
		case 1:
			sup = "COMPRESSION=" + codec // advertised
		case 2:
			sup = "COMPRESSION=" + otherCodec(codec) // removed
		case 3:
			sup = "CQL_VERSION=3.4.5" // key absent
		case 4:
			sup = "COMPRESSION=snappy,lz4"
		default:
			sup = prev // unchanged
			if sup == "" {
				sup = "COMPRESSION=" + codec
			}
		}
		if prev != "" && specNegotiated(codec, sup) != specNegotiated(codec, prev) {
			changes++
		}
		prev = sup
		toks = append(toks, "o"+sup)
		open = append(open, i)
		if len(open) > 0 && r.Intn(2) == 0 { // reconnect: an earlier connection goes away; else side by side (pool)
			j := r.Intn(len(open))
			toks = append(toks, fmt.Sprintf("x%d", open[j]))
			open = append(open[:j], open[j+1:]...)
		}
	}
	return strings.Join(toks, " "), fmt.Sprintf("negoh/%s/conns%d/changes%d", codec, n, changes)
}

// ---------- op negos: the same through a real Session (pool fill / refill) ----------
//
// negos <codec> <numconns> <step>…: a real Session (host pool of numconns connections, no control
// connection) whose HostDialer is the scripted node. Steps: `a<sup>` the node advertises <sup> from now
// on · `s` the session is created (the pool fills) · `k<i>` the node drops the i-th live connection (in
// the order of establishment): the pool refills. After `s` and `k` the answer lists, for the live
// connections, what the node saw: classes `[opt=…,startup=…,kept=…,qflag=…]x<count>`, negotiated first.

type negosNode struct {
	mu    sync.Mutex
	sup   []kv
	peers []*rxPeer
}

func (n *negosNode) DialHost(ctx context.Context, host *gocql.HostInfo) (*gocql.DialedHost, error) {
	n.mu.Lock()
	defer n.mu.Unlock()
	peer := newRxPeer(n.sup, frameD{payload: supportedBody(n.sup)}, frameD{})
	n.peers = append(n.peers, peer)
	return &gocql.DialedHost{Conn: peer.cli, DisableCoalesce: true}, nil
}

// livePeers: the peers whose connection is in the session's pool now, in the order of establishment
func (n *negosNode) livePeers(conns []*gocql.Conn) []*rxPeer {
	n.mu.Lock()
	defer n.mu.Unlock()
	var out []*rxPeer
	for _, p := range n.peers {
		select {
		case <-p.done:
			continue
		default:
		}
		p.mu.Lock()
		st := p.started
		p.mu.Unlock()
		if st {
			out = append(out, p)
		}
	}
	return out
}

func execNegos(codec string, numConns int, steps []string) string {
	if numConns < 1 || numConns > 4 {
		return "bad-op"
	}
	node := &negosNode{}
	var sess *gocql.Session
	defer func() {
		if sess != nil {
			sess.Close()
		}
		node.mu.Lock()
		peers := append([]*rxPeer{}, node.peers...)
		node.mu.Unlock()
		for _, p := range peers {
			p.close()
		}
	}()
	// settle: wait (on the condition, nudging the pool) until the pool holds numConns connections
	settle := func() ([]*gocql.Conn, bool) {
		deadline := time.Now().Add(watchdog)
		for {
			conns := gocql.VerifC18eSessionConns(sess, true)
			open := true
			for _, c := range conns {
				if c.Closed() { // lost, not yet removed by the pool, while its replacement is being established
					open = false
				}
			}
			if open && len(conns) == numConns && len(node.livePeers(conns)) == numConns {
				return conns, true
			}
			if time.Now().After(deadline) {
				dumpGoroutines("negos: the pool did not reach its size")
				return conns, false
			}
			time.Sleep(time.Millisecond)
		}
	}
	observe := func() string {
		conns, ok := settle()
		if !ok {
			return fmt.Sprintf("timeout:live=%d", len(conns))
		}
		// one REGISTER request on every connection of the pool, seen by its peer
		count := map[string]int{}
		peers := node.livePeers(conns)
		for _, c := range conns {
			call := &rxCall{ret: make(chan struct{})}
			go func(c *gocql.Conn) {
				defer close(call.ret)
				call.pend, call.err = gocql.VerifC18dExec(c, "register", "E", 10*time.Minute)
			}(c)
			// the request arrives at exactly one of the live peers (or the call returns with an error)
			var got *rxPeer
			var sf srvFrame
			deadline := time.Now().Add(watchdog)
			failed := false
			for got == nil && !failed {
				for _, p := range peers {
					select {
					case f := <-p.reqs:
						got, sf = p, f
					default:
					}
					if got != nil {
						break
					}
				}
				if got != nil {
					break
				}
				select {
				case <-call.ret:
					failed = true
				default:
					if time.Now().After(deadline) {
						dumpGoroutines("negos: request never reached a peer")
						return "timeout"
					}
					time.Sleep(200 * time.Microsecond)
				}
			}
			if got == nil {
				return "request-failed:" + rxErrClass(call.err)
			}
			qflag := sf.flags & 1
			body := sf.body
			if qflag == 1 && codec != "none" {
				if d, err := indepDecode(codec, body); err == nil {
					body = d
				}
			}
			got.srv.Write(respWire(0, int(uint16(sf.stream)), 0x02, nil))
			select {
			case <-call.ret:
			case <-time.After(watchdog):
				dumpGoroutines("negos: client call did not return")
				return "timeout"
			}
			got.mu.Lock()
			opt := 0
			if got.optSeen {
				opt = 1
			}
			obs := fmt.Sprintf("opt=%d,startup=%s,kept=%v,qflag=%d", opt, got.startComp, gocql.VerifC18CompressorName(c) != "", qflag)
			if !bytes.Equal(body, []byte{0, 1, 0, 1, 'E'}) || got.optFlags&1 != 0 || got.startFlags&1 != 0 || call.err != nil {
				obs += ",ANOMALY"
			}
			got.mu.Unlock()
			count[obs]++
		}
		var keys []string
		for k := range count {
			keys = append(keys, k)
		}
		sort.Slice(keys, func(i, j int) bool { // negotiated first, then by text
			a, b := strings.Contains(keys[i], "kept=true"), strings.Contains(keys[j], "kept=true")
			if a != b {
				return a
			}
			return keys[i] < keys[j]
		})
		out := fmt.Sprintf("live=%d", len(conns))
		for _, k := range keys {
			out += fmt.Sprintf(":[%s]x%d", k, count[k])
		}
		return out
	}
	var ans []string
	for _, st := range steps {
		switch {
		case st == "":
			ans = append(ans, "bad-step")
		case st[0] == 'a':
			node.mu.Lock()
			node.sup = parseSupported(st[1:])
			node.mu.Unlock()
			ans = append(ans, "ok")
		case st == "s" && sess == nil:
			var err error
			sess, err = gocql.VerifC18eSession(node, compressor(codec), numConns, 10*time.Minute)
			if err != nil {
				sess = nil
				ans = append(ans, "session-"+rxErrClass(err))
				continue
			}
			ans = append(ans, observe())
		case st[0] == 'k' && sess != nil:
			conns, ok := settle()
			peers := node.livePeers(conns)
			k := atoi(st[1:])
			if !ok || k < 0 || k >= len(peers) {
				ans = append(ans, "bad-step")
				continue
			}
			peers[k].srv.Close()
			select {
			case <-peers[k].done:
			case <-time.After(watchdog):
				dumpGoroutines("negos: peer goroutine did not end")
			}
			// the pool notices the loss (reader goroutine -> closeWithError -> HandleError) and refills
			ans = append(ans, observe())
		default:
			ans = append(ans, "bad-step")
		}
	}
	return strings.Join(ans, " ")
}

func genNegos(r *vh.Rng) (string, string) {
	codec := compNames[1+r.Intn(2)]
	if r.Intn(6) == 0 {
		codec = "none"
	}
	nc := 1 + r.Intn(3)
	advs := []string{"COMPRESSION=" + codec, "COMPRESSION=" + otherCodec(codec), "CQL_VERSION=3.4.5", "COMPRESSION=snappy,lz4", "CQL_VERSION=3.4.5;COMPRESSION="}
	toks := []string{"negos", codec, fmt.Sprint(nc), "a" + advs[r.Intn(len(advs))], "s"}
	n := 1 + r.Intn(3)
	for i := 0; i < n; i++ {
		if r.Intn(4) != 0 {
			toks = append(toks, "a"+advs[r.Intn(len(advs))])
		}
		toks = append(toks, fmt.Sprintf("k%d", r.Intn(nc)))
	}
	return strings.Join(toks, " "), fmt.Sprintf("negos/%s/pool%d/refills%d", codec, nc, n)
}
