// Harness for C18 (compression transparent and only as negotiated): runs the REAL framer
// (finish / readHeader / readFrame), the real request builders, the real snappy and lz4 compressors
// and the real connection startup over an in-memory pipe; writes op lines + implementation answers
// for comparison with the Lean model (lean/Model/Compress.lean).
//
// The compressor is a PARAMETER of the model: each op line carries, next to the input, the value the
// real codec returned for the one call the framer makes (`ok:<hex>` | `err` | `none`); the model
// computes everything else (flag handling, header, length patch, lz4 prefix, negotiation).
package main

import (
	"bytes"
	"encoding/binary"
	"errors"
	"fmt"
	"io"
	"net"
	"os"
	"strconv"
	"strings"
	"time"

	"github.com/gocql/gocql"
	"github.com/gocql/gocql/lz4"
	plz4 "github.com/pierrec/lz4/v4"
	"verifharness/vh"
)

// ---------- byte-string arguments ----------

func mixByte(seed uint64, i int) byte {
	z := (seed + uint64(i)) * 0x9E3779B97F4A7C15
	z ^= z >> 32
	z *= 0xBF58476D1CE4E5B9
	z ^= z >> 29
	return byte(z)
}

var vocab = [][]byte{[]byte("SELECT "), []byte("FROM "), []byte("system.local "), []byte("WHERE "),
	[]byte("key=? "), []byte("AND "), {0, 0, 0, 4}}

// segExpand appends one segment of a body SHAPE to out (see lean/Driver/C18.lean for the grammar):
// h<hex> | z<n> | r<seed>.<n> | p<hex>.<n> | c<dist>.<n> | t<seed>.<n>
func segExpand(out []byte, seg string) []byte {
	if seg == "" {
		panic("bad segment")
	}
	f := strings.Split(seg[1:], ".")
	num := func(x string) int {
		n, err := strconv.ParseUint(x, 10, 63)
		if err != nil {
			panic("bad segment " + seg)
		}
		return int(n)
	}
	switch {
	case seg[0] == 'h' && len(f) == 1:
		b, err := vh.UnHex(f[0])
		if err != nil {
			panic("bad segment " + seg)
		}
		return append(out, b...)
	case seg[0] == 'z' && len(f) == 1:
		return append(out, make([]byte, num(f[0]))...)
	case seg[0] == 'r' && len(f) == 2:
		sd, n := uint64(num(f[0])), num(f[1])
		for i := 0; i < n; i++ {
			out = append(out, mixByte(sd, i))
		}
		return out
	case seg[0] == 'p' && len(f) == 2:
		pat, err := vh.UnHex(f[0])
		if err != nil || len(pat) == 0 {
			panic("bad segment " + seg)
		}
		n := num(f[1])
		for i := 0; i < n; i++ {
			out = append(out, pat[i%len(pat)])
		}
		return out
	case seg[0] == 'c' && len(f) == 2:
		d, n := num(f[0]), num(f[1])
		for i := 0; i < n; i++ {
			var x byte
			if d >= 1 && d <= len(out) {
				x = out[len(out)-d]
			}
			out = append(out, x)
		}
		return out
	case seg[0] == 't' && len(f) == 2:
		sd, n := uint64(num(f[0])), num(f[1])
		stop := len(out) + n
		for k := 0; len(out) < stop; k++ {
			out = append(out, vocab[int(mixByte(sd, k))%7]...)
		}
		return out[:stop]
	}
	panic("bad segment " + seg)
}

func catExpand(segs string) []byte {
	out := []byte{}
	if segs == "-" {
		return out
	}
	for _, seg := range strings.Split(segs, ",") {
		out = segExpand(out, seg)
	}
	return out
}

// expand parses `-` | hex | rep:<hexpattern>:<n> | mix:<seed>:<n> | cat:<segs> | emb:<segs>:<hex0>:…:<hexk>
func expand(s string) []byte {
	p := strings.Split(s, ":")
	switch {
	case len(p) == 2 && p[0] == "cat":
		return catExpand(p[1])
	case len(p) >= 3 && p[0] == "emb":
		blob := catExpand(p[1])
		out := []byte{}
		for i, h := range p[2:] {
			b, err := vh.UnHex(h)
			if err != nil {
				panic("bad bytes arg")
			}
			if i > 0 {
				out = append(out, blob...)
			}
			out = append(out, b...)
		}
		return out
	case len(p) == 3 && p[0] == "rep":
		pat, err := vh.UnHex(p[1])
		n, err2 := strconv.Atoi(p[2])
		if err != nil || err2 != nil || len(pat) == 0 {
			panic("bad bytes arg")
		}
		b := make([]byte, n)
		for i := range b {
			b[i] = pat[i%len(pat)]
		}
		return b
	case len(p) == 3 && p[0] == "mix":
		sd, err := strconv.ParseUint(p[1], 10, 64)
		n, err2 := strconv.Atoi(p[2])
		if err != nil || err2 != nil {
			panic("bad bytes arg")
		}
		b := make([]byte, n)
		for i := range b {
			b[i] = mixByte(sd, i)
		}
		return b
	}
	b, err := vh.UnHex(s)
	if err != nil {
		panic("bad hex")
	}
	return b
}

func fnv(b []byte) uint64 {
	h := uint64(0xcbf29ce484222325)
	for _, x := range b {
		h = (h ^ uint64(x)) * 0x100000001b3
	}
	return h
}

func canon(b []byte) string {
	if len(b) <= 256 {
		return vh.Hex(b)
	}
	return fmt.Sprintf("len=%d,fnv=%016x", len(b), fnv(b))
}

func resStr(b []byte, err error) string {
	if err != nil {
		return "err"
	}
	return "ok:" + vh.Hex(b)
}

// ---------- compressors ----------

// named wraps a compressor under another Name() (negotiation is by name only)
type named struct {
	gocql.Compressor
	name string
}

func (n named) Name() string { return n.name }

// guardLZ4 is the real lz4 compressor, except that Decode refuses inputs whose 4-byte prefix declares
// more than 128 MiB: the real Decode would allocate that much up front (the harness must survive a
// mutated prefix; no generated input reaches the guard on the unchanged code).
type guardLZ4 struct{ lz4.LZ4Compressor }

func (g guardLZ4) Decode(data []byte) ([]byte, error) {
	if len(data) >= 4 && binary.BigEndian.Uint32(data) > 1<<27 {
		return nil, fmt.Errorf("harness guard: lz4 prefix declares %d bytes", binary.BigEndian.Uint32(data))
	}
	return g.LZ4Compressor.Decode(data)
}

func compressor(name string) gocql.Compressor {
	switch name {
	case "none", "-":
		return nil
	case "snappy":
		return gocql.SnappyCompressor{}
	case "lz4":
		return guardLZ4{}
	}
	return named{gocql.SnappyCompressor{}, name}
}

// safeEncode: Encode called by a GENERATOR (to learn the codec's answer for the model): a panic inside
// the codec becomes an error here; the ops themselves report it (crash:...)
func safeEncode(c gocql.Compressor, b []byte) (z []byte, err error) {
	defer func() {
		if r := recover(); r != nil {
			z, err = nil, fmt.Errorf("panic: %v", r)
		}
	}()
	return c.Encode(b)
}

func classify(err error) string {
	if err == nil {
		return "ok"
	}
	m := err.Error()
	switch {
	case errors.Is(err, gocql.ErrFrameTooBig):
		return "err:tooBig"
	case strings.Contains(m, "no compressor available"):
		return "err:noCompressor"
	case strings.Contains(m, "unable to read frame body"), strings.Contains(m, "trying to discard frame"),
		err == io.EOF, err == io.ErrUnexpectedEOF:
		return "err:shortRead"
	case strings.Contains(m, "can not be less than 0"):
		return "err:negLength"
	case strings.Contains(m, "unsupported protocol response version"):
		return "err:badVersion"
	}
	return "err:codec"
}

func headSize(version byte) int {
	if version&0x7f > 2 {
		return 9
	}
	return 8
}

func atoi(s string) int {
	n, err := strconv.Atoi(s)
	if err != nil {
		panic("bad int " + s)
	}
	return n
}

// ---------- in-memory server for the negotiation op ----------

type srvFrame struct {
	flags, op byte
	stream    int16
	body      []byte
}

func readSrvFrame(r io.Reader) (srvFrame, error) {
	var h [9]byte
	if _, err := io.ReadFull(r, h[:]); err != nil {
		return srvFrame{}, err
	}
	n := binary.BigEndian.Uint32(h[5:])
	b := make([]byte, n)
	if _, err := io.ReadFull(r, b); err != nil {
		return srvFrame{}, err
	}
	return srvFrame{flags: h[1], op: h[4], stream: int16(binary.BigEndian.Uint16(h[2:])), body: b}, nil
}

func writeSrvFrame(w io.Writer, flags, op byte, stream int16, body []byte) error {
	h := []byte{0x84, flags, byte(uint16(stream) >> 8), byte(stream), op, 0, 0, 0, 0}
	binary.BigEndian.PutUint32(h[5:], uint32(len(body)))
	_, err := w.Write(append(h, body...))
	return err
}

func putString(b *bytes.Buffer, s string) {
	binary.Write(b, binary.BigEndian, uint16(len(s)))
	b.WriteString(s)
}

type kv struct {
	k string
	v []string
}

func parseSupported(s string) []kv {
	if s == "-" {
		return nil
	}
	var out []kv
	for _, e := range strings.Split(s, ";") {
		p := strings.SplitN(e, "=", 2)
		var v []string
		if len(p) == 2 && p[1] != "" {
			v = strings.Split(p[1], ",")
		}
		out = append(out, kv{p[0], v})
	}
	return out
}

// independent parse of a [string map] body (STARTUP options)
func parseStringMap(b []byte) map[string]string {
	m := map[string]string{}
	if len(b) < 2 {
		return m
	}
	n := int(binary.BigEndian.Uint16(b))
	b = b[2:]
	rd := func() string {
		l := int(binary.BigEndian.Uint16(b))
		s := string(b[2 : 2+l])
		b = b[2+l:]
		return s
	}
	for i := 0; i < n; i++ {
		k := rd()
		m[k] = rd()
	}
	return m
}

func nego(name, sup string) string {
	comp := compressor(name)
	cli, srv := net.Pipe()
	defer cli.Close()
	defer srv.Close()
	type seen struct {
		optFlags, startFlags, regFlags byte
		startComp                      string
		regBodyOK                      bool
		anomalies                      []string
	}
	st := &seen{startComp: "-"}
	done := make(chan struct{})
	compressedReply := make(chan bool, 4)
	go func() {
		defer close(done)
		for {
			f, err := readSrvFrame(srv)
			if err != nil {
				return
			}
			switch f.op {
			case 0x05: // OPTIONS -> SUPPORTED
				st.optFlags = f.flags
				if len(f.body) != 0 {
					st.anomalies = append(st.anomalies, "options-body")
				}
				var b bytes.Buffer
				m := parseSupported(sup)
				binary.Write(&b, binary.BigEndian, uint16(len(m)))
				for _, e := range m {
					putString(&b, e.k)
					binary.Write(&b, binary.BigEndian, uint16(len(e.v)))
					for _, x := range e.v {
						putString(&b, x)
					}
				}
				writeSrvFrame(srv, 0, 0x06, f.stream, b.Bytes())
			case 0x01: // STARTUP -> READY
				st.startFlags = f.flags
				if f.flags&1 == 0 {
					if c, ok := parseStringMap(f.body)["COMPRESSION"]; ok {
						st.startComp = c
					}
				}
				writeSrvFrame(srv, 0, 0x02, f.stream, nil)
			case 0x0B: // REGISTER -> READY, compressed on demand
				st.regFlags = f.flags
				body := f.body
				if f.flags&1 == 1 && comp != nil {
					d, err := comp.Decode(body)
					if err != nil {
						st.anomalies = append(st.anomalies, "register-undecodable")
					}
					body = d
				}
				// [string list] with one event "E"
				st.regBodyOK = bytes.Equal(body, []byte{0, 1, 0, 1, 'E'})
				if <-compressedReply {
					z, _ := gocql.SnappyCompressor{}.Encode(nil)
					if comp != nil {
						z, _ = comp.Encode(nil)
					}
					writeSrvFrame(srv, 1, 0x02, f.stream, z)
				} else {
					writeSrvFrame(srv, 0, 0x02, f.stream, nil)
				}
			default:
				st.anomalies = append(st.anomalies, fmt.Sprintf("op%d", f.op))
				writeSrvFrame(srv, 0, 0x02, f.stream, nil)
			}
		}
	}()
	conn, err := gocql.VerifC18Dial(cli, comp, 4)
	if err != nil {
		return "dial-error:" + err.Error()
	}
	kept := gocql.VerifC18CompressorName(conn)
	compressedReply <- false
	_, err1 := gocql.VerifC18Register(conn, "E")
	qflag := st.regFlags & 1
	compressedReply <- true
	_, err2 := gocql.VerifC18Register(conn, "E")
	compressedReply <- false
	_, err3 := gocql.VerifC18Register(conn, "E")
	conn.Close()
	cli.Close()
	select {
	case <-done:
	case <-time.After(5 * time.Second):
		st.anomalies = append(st.anomalies, "server-stuck")
	}
	if st.optFlags&1 != 0 {
		st.anomalies = append(st.anomalies, "options-compressed")
	}
	if st.startFlags&1 != 0 {
		st.anomalies = append(st.anomalies, "startup-compressed")
	}
	if !st.regBodyOK {
		st.anomalies = append(st.anomalies, "register-body")
	}
	if err1 != nil {
		st.anomalies = append(st.anomalies, "register1:"+err1.Error())
	}
	if (kept != "") != (kept == name && name != "-") {
		st.anomalies = append(st.anomalies, "kept-name")
	}
	res := fmt.Sprintf("kept=%v startup=%s qflag=%d cresp=%s alive=%v", kept != "", st.startComp, qflag, classify(err2), err3 == nil)
	if len(st.anomalies) > 0 {
		res += " ANOMALY:" + strings.Join(st.anomalies, ",")
	}
	return res
}

// ---------- one op on the real code ----------

func exec(op string) (res string) {
	if os.Getenv("VERIF_C18_SLOW") != "" { // diagnostics only: which ops take long (stderr)
		t0 := time.Now()
		defer func() {
			if d := time.Since(t0); d > time.Second {
				l := op
				if len(l) > 300 {
					l = l[:300]
				}
				fmt.Fprintf(os.Stderr, "slow op %v: %s => %.200s\n", d, l, res)
			}
		}()
	}
	defer func() {
		if r := recover(); r != nil {
			res = fmt.Sprintf("crash:%v", r)
		}
	}()
	w := strings.Fields(op)
	if len(w) == 0 {
		return "bad-op"
	}
	switch w[0] {
	case "req", "rt":
		// req kind comp ver extra stream body encres stmtHex blob
		kind, comp, ver, extra, stream := w[1], compressor(w[2]), byte(atoi(w[3])), atoi(w[4]), atoi(w[5])
		stmt, blob := string(expand(w[8])), expand(w[9])
		out, err := gocql.VerifC18Build(kind, ver, comp, extra&2 != 0, extra&4 != 0, stream, stmt, blob)
		if err != nil {
			return classify(err)
		}
		if w[0] == "req" {
			return "ok:" + canon(out)
		}
		flags, _, _, length, body, err := gocql.VerifC18Read(ver, comp, out)
		if err != nil {
			return "read-" + classify(err)
		}
		want := expand(w[6])
		return fmt.Sprintf("ok flag=%d len=%d same=%v body=%s", flags&1, length, bytes.Equal(body, want), canon(body))
	case "raw":
		// raw comp ver extra hdrflags op stream body encres
		comp, ver, extra, hf, o, stream := compressor(w[1]), byte(atoi(w[2])), byte(atoi(w[3])), byte(atoi(w[4])), byte(atoi(w[5])), atoi(w[6])
		out, err := gocql.VerifC18Raw(ver, comp, extra, hf, o, stream, expand(w[7]))
		if err != nil {
			return classify(err)
		}
		return "ok:" + canon(out)
	case "read":
		// read comp ver wire decin decres
		comp, ver := compressor(w[1]), byte(atoi(w[2]))
		flags, stream, o, length, body, err := gocql.VerifC18Read(ver, comp, expand(w[3]))
		if err != nil {
			return classify(err)
		}
		return fmt.Sprintf("ok:flags=%d,stream=%d,op=%d,len=%d,body=%s", flags, stream, o, length, canon(body))
	case "lz4enc":
		out, err := lz4.LZ4Compressor{}.Encode(expand(w[1]))
		if err != nil {
			return "err"
		}
		return "ok:" + canon(out)
	case "lz4rt":
		// what an independent reader of Cassandra's lz4 framing sees: prefix + raw block, decoded with
		// pierrec/lz4 called directly; then the wrapper's own Decode
		body := expand(w[1])
		enc, err := lz4.LZ4Compressor{}.Encode(body)
		if err != nil {
			return "encode-error"
		}
		if len(enc) < 4 {
			return "short-output"
		}
		blockOK := true // a reader does not call the block decoder for a zero prefix
		if len(body) > 0 {
			dst := make([]byte, len(body))
			n, err := plz4.UncompressBlock(enc[4:], dst)
			blockOK = err == nil && bytes.Equal(dst[:n], body)
		}
		dec, err := guardLZ4{}.Decode(enc)
		return fmt.Sprintf("ok prefix=%d block=%v dec=%v", binary.BigEndian.Uint32(enc), blockOK, err == nil && bytes.Equal(dec, body))
	case "lz4dst":
		// the destination Encode hands to CompressBlock: capacity of the result minus the 4 prefix bytes
		out, err := lz4.LZ4Compressor{}.Encode(make([]byte, atoi(w[1])))
		if err != nil {
			return "err"
		}
		return fmt.Sprintf("dst=%d", cap(out)-4)
	case "lz4dec":
		out, err := guardLZ4{}.Decode(expand(w[1]))
		if err != nil {
			return "err"
		}
		return "ok:" + canon(out)
	case "hyp":
		c := compressor(w[1])
		b := expand(w[2])
		z, err := c.Encode(b)
		if err != nil {
			return "encode-error"
		}
		d, err := c.Decode(z)
		if err != nil || !bytes.Equal(d, b) {
			return "NOT-roundtrip"
		}
		return "roundtrip"
	case "lz4blk":
		return execLz4blk(expand(w[1]), atoi(w[2]))
	case "lz4brt":
		return execLz4blk(expand(w[2]), len(expand(w[1])))
	case "snapdec":
		return execSnapdec(expand(w[1]))
	case "snaprt":
		z := expand(w[2])
		a := execSnapdec(z)
		if strings.HasPrefix(a, "ok:") {
			a += fmt.Sprintf(" dom=%v", snapInDomain(z))
		}
		return a
	case "big", "bigx":
		return execBig(w)
	case "midrt":
		return execMidrt(w[1], w[2], atoi(w[3]))
	case "rxbig":
		return execRxbig(w[1], byte(atoi(w[2])), w[3], atoi(w[4]))
	case "nego":
		return nego(w[1], w[2])
	case "rx", "negoh", "negos":
		// a crash on the reader goroutine of a connection kills the process: run in the worker child
		return childExec(op)
	case "senderr":
		return execSenderr(w[1], w[2:])
	case "negom":
		// a real Session with reader goroutines: in the worker child like negos
		return childExec(op)
	case "held":
		return execHeld(w[1], w[2:])
	case "flight":
		return execFlight(w[1], w[2], w[3:])
	}
	return "bad-op"
}

// ---------- generators ----------

var sizes = []int{0, 0, 1, 2, 3, 4, 5, 7, 8, 15, 16, 17, 31, 32, 63, 64, 65, 100, 127, 128, 129, 255, 256, 257, 1000}
var bigSizes = []int{4095, 4096, 4097, 65535, 65536, 65537}

// lz4Complete tells whether an LZ4 block parses structurally without running off its end. The amd64
// decoder of pierrec/lz4 v4.1.8 reads past the end of a block that stops inside a length run (see
// the report: truncated lz4 body accepted with layout-dependent output), so such inputs have no
// deterministic answer and are reported, not diffed.
func lz4Complete(src []byte) bool {
	i := 0
	for {
		if i >= len(src) {
			return false
		}
		tok := src[i]
		i++
		ll := int(tok >> 4)
		if ll == 15 {
			for {
				if i >= len(src) {
					return false
				}
				b := src[i]
				i++
				ll += int(b)
				if b != 255 {
					break
				}
			}
		}
		if i+ll > len(src) {
			return false
		}
		i += ll
		if i == len(src) {
			return true
		}
		if i+2 > len(src) {
			return false
		}
		i += 2
		if tok&15 == 15 {
			for {
				if i >= len(src) {
					return false
				}
				b := src[i]
				i++
				if b != 255 {
					break
				}
			}
		}
	}
}

// genBodyS: a shape (see genShape) one time in four, else genBody
func genBodyS(r *vh.Rng, maxN, shapeMax int) (string, string) {
	if r.Intn(4) == 0 {
		if shapeMax > maxN {
			shapeMax = maxN
		}
		return genShape(r, shapeMax, threshLens(17), lateLs)
	}
	return genBody(r, maxN)
}

// genBody returns a byte-string ARGUMENT (hex or descriptor) and a content class
func genBody(r *vh.Rng, maxN int) (string, string) {
	n := sizes[r.Intn(len(sizes))]
	switch r.Intn(24) {
	case 0:
		n = bigSizes[r.Intn(len(bigSizes))]
	case 1, 2, 3, 4:
		n = r.Intn(3000)
	}
	if n > maxN {
		n = r.Intn(maxN + 1)
	}
	switch r.Intn(5) {
	case 0:
		return vh.Hex(r.Bytes(n)), "random"
	case 1:
		return vh.Hex(make([]byte, n)), "zeros"
	case 2:
		pat := r.Bytes(1 + r.Intn(7))
		if n == 0 {
			return "-", "repetitive"
		}
		return fmt.Sprintf("rep:%s:%d", vh.Hex(pat), n), "repetitive"
	case 3:
		words := []string{"SELECT ", "FROM ", "system.local ", "WHERE ", "key=? ", "AND ", "\x00\x00\x00\x04"}
		var sb strings.Builder
		for sb.Len() < n {
			sb.WriteString(words[r.Intn(len(words))])
		}
		return vh.Hex([]byte(sb.String()[:n])), "text"
	default:
		if n == 0 {
			return "-", "mix"
		}
		return fmt.Sprintf("mix:%d:%d", r.Intn(1000000), n), "mix"
	}
}

// ---------- body SHAPES (the dimension the codecs' internals are sensitive to) ----------

// lengths on both sides of the codecs' internal thresholds: lz4 minMatch 4, the 5/12/13/14-byte end
// rules (mfLimit), the token nibble 15 and the 0xFF length-run boundaries 15+255k, the 64 KiB offset
// limit; snappy literal tags 60/61, 256/257, copy lengths 4..11 / 64, offsets 2048 / 65536, block size
// 64 KiB; every power of two +-1 up to maxPow
func threshLens(maxPow uint) []int {
	l := []int{0, 3, 4, 5, 6, 11, 12, 13, 14, 15, 16, 18, 19, 20, 59, 60, 61, 62, 64, 65, 67, 68, 269, 270, 271, 524, 525, 526, 779, 780, 781}
	for k := uint(0); k <= maxPow; k++ {
		l = append(l, 1<<k-1, 1<<k, 1<<k+1)
	}
	return l
}

var distances = []int{1, 2, 3, 4, 8, 255, 256, 2047, 2048, 4095, 4096, 4097, 65534, 65535, 65536, 65537, 70000}

func segRandom(r *vh.Rng, n int) string { return fmt.Sprintf("r%d.%d", r.Intn(1<<30), n) }

// genSeg draws one segment of length n; kind: 0 random run, 1 zero run, 2 short-period repetition,
// 3 copy of an earlier window at one of the distances, 4 text-like
func genSeg(r *vh.Rng, kind, n int) (string, string) {
	switch kind {
	case 0:
		return segRandom(r, n), "R"
	case 1:
		return fmt.Sprintf("z%d", n), "Z"
	case 2:
		return fmt.Sprintf("p%s.%d", vh.Hex(r.Bytes(1+r.Intn(7))), n), "P"
	case 3:
		return fmt.Sprintf("c%d.%d", distances[r.Intn(len(distances))], n), "C"
	}
	return fmt.Sprintf("t%d.%d", r.Intn(1<<30), n), "T"
}

// lateMatch: incompressible run of L bytes, then a short match of m bytes (kind k), then a random tail.
// Both codecs emit the run as ONE literal whose length field costs ~L/255 (lz4) bytes: the shapes sit
// on both sides of "what the late match saves vs what the literal run costs".
var lateKinds = []string{"z", "c1", "c4", "c255", "c4096", "c65535", "c65536", "c65537", "start", "start+64"}

func lateMatch(r *vh.Rng, L int, kind string, m, tail int) string {
	var match string
	switch kind {
	case "z":
		match = fmt.Sprintf("z%d", m)
	case "start":
		match = fmt.Sprintf("c%d.%d", L, m)
	case "start+64":
		d := L - 64
		if d < 1 {
			d = 1
		}
		match = fmt.Sprintf("c%d.%d", d, m)
	default:
		match = fmt.Sprintf("%s.%d", kind, m)
	}
	return fmt.Sprintf("cat:%s,%s,%s", segRandom(r, L), match, segRandom(r, tail))
}

// lz4's cost of a literal run of L bytes beyond the bytes themselves (token + length bytes)
func litOverhead(L int) int {
	if L < 15 {
		return 1
	}
	return 2 + (L-15)/255
}

var lateLs = []int{1024, 2048, 4096, 4400, 5000, 8192, 12000, 16384, 32768, 50000, 65535, 65536, 65537, 70000, 120000}

// lateRest: candidate values of m+tail around the literal-run overhead of L, fractions of it (other buffer
// strategies have other break-even points), and a few absolute ones
func lateRest(L int) []int {
	o := litOverhead(L)
	return []int{8, 14, 20, o / 4, o / 2, 3 * o / 4, o - 8, o - 2, o - 1, o, o + 1, o + 2, o + 8, 2*o + 5, L/128 + 16}
}

func genLate(r *vh.Rng, Ls []int) (string, string) {
	L := Ls[r.Intn(len(Ls))]
	if r.Intn(3) == 0 {
		L += r.Intn(257) - 128
	}
	rest := lateRest(L)
	mt := rest[r.Intn(len(rest))]
	tail := []int{0, 0, 1, 2, 3, 5, 12, 13, 14}[r.Intn(9)]
	m := mt - tail
	if m < 4 {
		m, tail = 4+r.Intn(8), r.Intn(4)
	}
	return lateMatch(r, L, lateKinds[r.Intn(len(lateKinds))], m, tail), "late-match"
}

// genShape returns a `cat:` descriptor of at most maxN bytes and its shape class
func genShape(r *vh.Rng, maxN int, lens []int, Ls []int) (string, string) {
	pick := func() int {
		for i := 0; i < 8; i++ {
			n := lens[r.Intn(len(lens))]
			if r.Intn(4) == 0 {
				n += r.Intn(9) - 4
			}
			if n >= 0 && n <= maxN {
				return n
			}
		}
		return r.Intn(maxN + 1)
	}
	switch r.Intn(10) {
	case 0, 1, 2:
		if maxN >= 1400 {
			var ok []int
			for _, L := range Ls {
				if L+L/100+300 <= maxN {
					ok = append(ok, L)
				}
			}
			return genLate(r, ok)
		}
		fallthrough
	case 3: // expansion: incompressible, every threshold length (compressed larger than plain)
		return "cat:" + segRandom(r, pick()), "expansion"
	case 4: // one class alone at a threshold length
		k := r.Intn(5)
		sg, c := genSeg(r, k, pick())
		if k == 3 {
			sg, c = segRandom(r, 1+r.Intn(300))+","+sg, "RC"
		}
		return "cat:" + sg, "single-" + c
	case 5: // exact period p: p random bytes, then a copy at distance p
		p := distances[r.Intn(len(distances))]
		n := pick()
		if p > maxN {
			p = 1 + r.Intn(maxN+1)
		}
		if p+n > maxN {
			n = maxN - p
		}
		return fmt.Sprintf("cat:%s,c%d.%d", segRandom(r, p), p, n), "period"
	}
	// concatenation of 2..6 segments of all classes
	k := 2 + r.Intn(5)
	var segs []string
	cls := ""
	total := 0
	for i := 0; i < k; i++ {
		n := pick()
		if i > 0 && r.Intn(2) == 0 {
			n = []int{0, 1, 3, 4, 5, 8, 12, 13, 14, 15, 16, 20, 60, 61, 64, 65}[r.Intn(16)]
		}
		if total+n > maxN {
			n = maxN - total
		}
		total += n
		sg, c := genSeg(r, r.Intn(5), n)
		segs = append(segs, sg)
		cls += c
	}
	_ = cls
	return "cat:" + strings.Join(segs, ","), fmt.Sprintf("concat%d", k)
}

// embed writes `plain` (a request body made by a real builder around the value `blob` = expand(blobArg))
// as an emb: descriptor; plain hex when the value is short or not found
func embed(plain, blob []byte, blobArg string) string {
	if len(blob) < 64 || !strings.HasPrefix(blobArg, "cat:") {
		return vh.Hex(plain)
	}
	parts := bytes.Split(plain, blob)
	if len(parts) < 2 {
		return vh.Hex(plain)
	}
	d := "emb:" + strings.TrimPrefix(blobArg, "cat:")
	for _, p := range parts {
		d += ":" + vh.Hex(p)
	}
	if !bytes.Equal(expand(d), plain) {
		return vh.Hex(plain)
	}
	return d
}

// encArg renders the result of the one Encode call for the model: the bytes, or only their number when
// the answer depends on nothing else (op rt) and the bytes are many
func encArg(b []byte, err error, lenOnly bool) string {
	if err == nil && lenOnly && len(b) > 1024 {
		return fmt.Sprintf("oklen:%d", len(b))
	}
	return resStr(b, err)
}

func sizeClass(n int) string {
	switch {
	case n == 0:
		return "0"
	case n < 64:
		return "<64"
	case n < 4096:
		return "<4K"
	case n < 65536:
		return "<64K"
	case n <= 1<<20:
		return "<=1M"
	}
	return ">1M"
}

var kinds = []string{"startup", "options", "query", "prepare", "execute", "batch", "register", "auth"}
var compNames = []string{"none", "snappy", "lz4"}

// reqOp builds a `req`/`rt` op line (nil if the plain build itself fails, e.g. payload under v3)
func reqOp(word, kind, comp string, ver byte, extra, stream int, stmt []byte, blobArg string) (string, bool) {
	if extra&4 != 0 && (ver&0x7f < 4 || !(kind == "query" || kind == "prepare" || kind == "execute" || kind == "batch")) {
		extra &^= 4
	}
	plain, err := func() (b []byte, err error) {
		defer func() {
			if r := recover(); r != nil {
				err = fmt.Errorf("panic %v", r)
			}
		}()
		return gocql.VerifC18Build(kind, ver, nil, extra&2 != 0, extra&4 != 0, stream, string(stmt), expand(blobArg))
	}()
	if err != nil {
		return "", false
	}
	body := plain[headSize(ver):]
	encres := "none"
	if c := compressor(comp); c != nil && kind != "startup" && kind != "options" {
		z, err := safeEncode(c, body)
		encres = encArg(z, err, word == "rt")
	}
	return fmt.Sprintf("%s %s %s %d %d %d %s %s %s %s", word, kind, comp, ver, extra, stream, embed(body, expand(blobArg), blobArg), encres, vh.Hex(stmt), blobArg), true
}

func main() {
	if len(os.Args) >= 2 && os.Args[1] == "worker" {
		workerMain()
		return
	}
	mode, tier, path := vh.Args()
	defer stopWorker()
	if mode == "replay" {
		for _, l := range vh.ReadLines(path) {
			fmt.Println(exec(l))
		}
		return
	}
	r := vh.NewRng(vh.EnvSeed())
	out := vh.NewOut(path)
	mult := 1
	if tier == "thorough" {
		mult = 12
	}
	streams := []int{0, 1, 2, 127, 128, 255, 256, 32767, -1}

	// 000. compressed frames on every receive path of a real connection; negotiation over histories of
	//      connections to one host (rx.go; run in a worker child process)
	for i := 0; i < 260*mult; i++ {
		op, cls := genRx(r)
		out.Case(op, exec(op), cls, true)
	}
	for i := 0; i < 140*mult; i++ {
		op, cls := genNegoh(r)
		out.Case(op, exec(op), cls, true)
	}
	nNegos := 40 * mult
	if nNegos > 240 {
		nNegos = 240
	}
	for i := 0; i < nNegos; i++ {
		op, cls := genNegos(r)
		out.Case(op, exec(op), cls, true)
	}

	// 000a. negotiation per connection across the hosts of one session (hosts.go; worker child)
	nNegom := 40 * mult
	if nNegom > 240 {
		nNegom = 240
	}
	for i := 0; i < nNegom; i++ {
		op, cls := genNegom(r)
		out.Case(op, exec(op), cls, true)
	}

	// 000b. compressor errors on the send path of a real connection, every request kind (send.go)
	nSend := 150 * mult
	if nSend > 900 {
		nSend = 900
	}
	for i := 0; i < nSend; i++ {
		op, cls := genSenderr(r)
		out.Case(op, exec(op), cls, true)
	}

	// 00. ownership of the buffers that cross the compressor boundary: held results (codec level, framer
	//     level) and responses in flight on real connections (see held.go)
	for i := 0; i < 700*mult; i++ {
		op, cls := genHeld(r, i%10 == 0)
		out.Case(op, exec(op), cls, true)
	}
	nFlight := 160 * mult
	if nFlight > 1200 {
		nFlight = 1200
	}
	for i := 0; i < nFlight; i++ {
		op, cls := genFlight(r)
		out.Case(op, exec(op), cls, true)
	}

	// 0. body SHAPES, spec-backed ops first (the check keeps the first 50 disagreements only)
	maxPow, shapeMax := uint(17), 1<<17+1
	Ls := lateLs
	if tier == "thorough" {
		maxPow, shapeMax = 20, 1<<20+1
		Ls = append(append([]int{}, lateLs...), 131072, 200000, 262144, 1<<20-600)
	}
	lens := threshLens(maxPow)
	// 0a. the trusted-base hypothesis on shapes: Encode succeeds and Decode(Encode x) = x, both codecs.
	//     A fixed grid of the late-match family (no dependence on the seed except the random bytes) ...
	for _, L := range Ls {
		for _, kind := range lateKinds {
			for _, mt := range lateRest(L) {
				for _, tail := range []int{0, 3, 13} {
					m := mt - tail
					if m < 4 {
						continue
					}
					bodyArg := lateMatch(r, L, kind, m, tail)
					for _, comp := range compNames[1:] {
						op := fmt.Sprintf("hyp %s %s", comp, bodyArg)
						out.Case(op, exec(op), "hyp/"+comp+"/late-match-grid", true)
					}
				}
			}
		}
	}
	//     ... and drawn shapes
	for i := 0; i < 1500*mult; i++ {
		bodyArg, cls := genShape(r, shapeMax, lens, Ls)
		comp := compNames[1+r.Intn(2)]
		op := fmt.Sprintf("hyp %s %s", comp, bodyArg)
		out.Case(op, exec(op), "hyp/"+comp+"/"+cls, true)
	}
	// 0b. the lz4 wrapper seen by an independent reader (prefix + raw block), on shapes
	for i := 0; i < 1500*mult; i++ {
		bodyArg, cls := genShape(r, shapeMax, lens, Ls)
		op := "lz4rt " + bodyArg
		out.Case(op, exec(op), "lz4rt/"+cls, true)
	}
	// 0c. shaped values through the real builders and the real reader
	for i := 0; i < 1200*mult; i++ {
		blobArg, cls := genShape(r, shapeMax, lens, Ls)
		if i%2 == 1 {
			blobArg, cls = genLate(r, Ls)
		}
		kind := []string{"query", "execute", "batch", "auth"}[r.Intn(4)]
		comp := compNames[1+r.Intn(2)]
		if r.Intn(12) == 0 {
			comp = "none"
		}
		ver := byte(1 + r.Intn(5))
		extra := []int{0, 0, 2, 4, 6}[r.Intn(5)]
		stmt := []byte("SELECT * FROM t WHERE k = ?")[:r.Intn(28)]
		op, ok := reqOp("rt", kind, comp, ver, extra, streams[r.Intn(len(streams))], stmt, blobArg)
		if !ok {
			out.Dist["skipped-build"]++
			continue
		}
		out.Case(op, exec(op), fmt.Sprintf("rt-shape/%s/%s", comp, cls), true)
	}

	// 1. every request kind x version x compressor x tracing/payload: real builders
	for rep := 0; rep < 2*mult; rep++ {
		for _, kind := range kinds {
			for ver := byte(1); ver <= 5; ver++ {
				for _, comp := range compNames {
					for extra := 0; extra < 8; extra += 2 {
						blobArg, _ := genBody(r, 5000)
						stmt := []byte("SELECT * FROM t WHERE k = ?")[:r.Intn(28)]
						word := "req"
						if r.Intn(3) == 0 {
							word = "rt"
						}
						op, ok := reqOp(word, kind, comp, ver, extra, streams[r.Intn(len(streams))], stmt, blobArg)
						if !ok {
							out.Dist["skipped-build"]++
							continue
						}
						out.Case(op, exec(op), fmt.Sprintf("%s/%s/%s/v%d", word, kind, comp, ver), true)
					}
				}
			}
		}
	}

	// 2. raw finish: arbitrary header flags / framer flags / opcodes, bodies of every class
	for i := 0; i < 2500*mult; i++ {
		comp := compNames[r.Intn(3)]
		ver := byte(1 + r.Intn(5))
		if r.Intn(20) == 0 {
			ver |= 0x80
		}
		extra := []int{0, 2, 4, 6, 0x10, 0xfe}[r.Intn(6)]
		hf := r.Intn(256)
		switch r.Intn(4) {
		case 0:
			hf = 0
		case 1:
			hf = 1
		case 2:
			hf = extra | 1
		}
		if comp == "none" && r.Intn(10) != 0 {
			hf &^= 1 // the panic path only now and then
		}
		maxN := 70000
		if i%200 == 0 {
			maxN = 1 << 20
		}
		bodyArg, cls := genBodyS(r, maxN, 1<<15+1)
		if i%200 == 0 {
			bodyArg, cls = fmt.Sprintf("rep:%s:%d", vh.Hex(r.Bytes(1+r.Intn(40))), 1<<20-r.Intn(3)), "repetitive"
			if i%400 == 0 {
				bodyArg, cls = fmt.Sprintf("mix:%d:%d", r.Intn(1000), 1<<20), "mix"
			}
		}
		body := expand(bodyArg)
		encres := "none"
		if c := compressor(comp); c != nil && hf&1 == 1 {
			encres = resStr(safeEncode(c, body))
		}
		op := fmt.Sprintf("raw %s %d %d %d %d %d %s %s", comp, ver, extra, hf, r.Intn(256), streams[r.Intn(len(streams))], bodyArg, encres)
		out.Case(op, exec(op), fmt.Sprintf("raw/%s/flag%d/%s/%s", comp, hf&1, cls, sizeClass(len(body))), true)
	}

	// 3. read: frames as a server would send them: valid, truncated, wrong flag, corrupt payload
	for i := 0; i < 3000*mult; i++ {
		comp := compNames[r.Intn(3)]
		ver := byte(1 + r.Intn(5))
		bodyArg, _ := genBodyS(r, 70000, 1<<13+1)
		body := expand(bodyArg)
		sender := compNames[1+r.Intn(2)]
		if comp != "none" {
			sender = comp
		}
		compressed := r.Intn(3) != 0
		payload := body
		flags := byte(r.Intn(256)) &^ 1
		if r.Bool() {
			flags = 0
		}
		if compressed {
			var err error
			if payload, err = safeEncode(compressor(sender), body); err != nil {
				out.Dist["read/sender-encode-error-skipped"]++ // reported by the spec-backed ops (hyp, rt, lz4rt)
				continue
			}
			flags |= 1
		}
		mut := "valid"
		switch r.Intn(8) {
		case 0:
			if len(payload) > 0 {
				payload = append([]byte{}, payload...)
				payload[r.Intn(len(payload))] ^= byte(1 << uint(r.Intn(8)))
				mut = "bitflip"
			}
		case 1:
			if len(payload) > 0 {
				payload = payload[:r.Intn(len(payload))]
				mut = "cut-payload"
			}
		case 2:
			payload = r.Bytes(r.Intn(12))
			mut = "garbage"
		}
		if sender == "lz4" && compressed && len(payload) >= 4 && !lz4Complete(payload[4:]) {
			out.Dist["read/lz4-truncated-block-skipped"]++
			continue
		}
		// the lz4 wrapper allocates whatever the 4-byte prefix declares (up to 4 GiB): keep mutated
		// prefixes below 64 KiB so that the harness itself stays small (observation, see report)
		if sender == "lz4" && mut != "valid" && len(payload) >= 2 {
			payload = append([]byte{}, payload...)
			payload[0], payload[1] = 0, 0
		}
		// response header written independently of gocql
		wire := []byte{ver | 0x80, flags}
		stream := r.Intn(65536)
		if ver > 2 {
			wire = append(wire, byte(stream>>8), byte(stream))
		} else {
			wire = append(wire, byte(stream))
		}
		length := uint32(len(payload))
		switch r.Intn(30) {
		case 0:
			length = 0x80000000 | uint32(r.Intn(1000))
			mut = "neg-length"
		case 1:
			length = 256*1024*1024 + 1 + uint32(r.Intn(1000))
			mut = "too-big"
		case 2:
			length += 1 + uint32(r.Intn(5))
			mut = "length-beyond"
		}
		wire = append(wire, byte(r.Intn(256)), byte(length>>24), byte(length>>16), byte(length>>8), byte(length))
		wire = append(wire, payload...)
		switch r.Intn(25) {
		case 0:
			wire = wire[:r.Intn(len(wire)+1)]
			mut = "cut-wire"
		case 1:
			wire[0] = byte(r.Intn(256))
			mut = "version-byte"
		case 2:
			wire = append(wire, r.Bytes(1+r.Intn(20))...)
			mut = "trailing"
		}
		// the one Decode call the framer may make: on wire[hs : hs+len]
		decin, decres := "-", "none"
		hs := headSize(wireVersion(wire))
		if c := compressor(comp); c != nil && len(wire) >= hs {
			l := int(int32(binary.BigEndian.Uint32(wire[hs-4:])))
			if l >= 0 && l <= 256*1024*1024 && len(wire)-hs >= l && wire[1]&1 == 1 {
				raw := wire[hs : hs+l]
				decin = vh.Hex(raw)
				decres = func() (s string) {
					defer func() {
						if recover() != nil {
							s = "none"
						}
					}()
					return resStr(c.Decode(raw))
				}()
			}
		}
		op := fmt.Sprintf("read %s %d %s %s %s", comp, ver, vh.Hex(wire), decin, decres)
		a := exec(op)
		cls := a
		if strings.HasPrefix(a, "ok") {
			cls = "ok"
		}
		out.Case(op, a, fmt.Sprintf("read/%s/flag%d/%s/%s", comp, flags&1, mut, cls), true)
	}

	// 4. lz4 wrapper against pierrec/lz4 called independently
	for i := 0; i < 1500*mult; i++ {
		maxN := 70000
		if i%300 == 0 {
			maxN = 1 << 20
		}
		bodyArg, cls := genBodyS(r, maxN, 1<<16+1)
		body := expand(bodyArg)
		var cc plz4.Compressor
		buf := make([]byte, plz4.CompressBlockBound(len(body)))
		n, err := cc.CompressBlock(body, buf)
		op := fmt.Sprintf("lz4enc %s %s", bodyArg, resStr(buf[:n], err))
		out.Case(op, exec(op), "lz4enc/"+cls+"/"+sizeClass(len(body)), true)
	}
	for i := 0; i < 2500*mult; i++ {
		bodyArg, _ := genBodyS(r, 70000, 1<<13+1)
		body := expand(bodyArg)
		data, err := safeEncode(lz4.LZ4Compressor{}, body)
		if err != nil || len(data) < 4 {
			out.Dist["lz4dec/encode-error-skipped"]++ // reported by the spec-backed ops (hyp, rt, lz4rt)
			continue
		}
		if len(data) >= 4 && binary.BigEndian.Uint32(data) > 1<<27 {
			data[0], data[1] = 0, 0
		}
		mut := "valid"
		switch r.Intn(10) {
		case 0:
			data = data[:r.Intn(len(data)+1)]
			mut = "cut"
		case 1:
			data = append([]byte{}, data...)
			data[r.Intn(len(data))] ^= byte(1 << uint(r.Intn(8)))
			if len(data) >= 4 && binary.BigEndian.Uint32(data) > 1<<26 {
				data[0], data[1] = 0, 0
			}
			mut = "bitflip"
		case 2:
			data = r.Bytes(r.Intn(8))
			if len(data) >= 4 {
				data[0], data[1] = 0, 0
			}
			mut = "garbage"
		case 3:
			d := int(binary.BigEndian.Uint32(data)) + r.Intn(9) - 4
			if d < 0 {
				d = 0
			}
			data = append([]byte{}, data...)
			binary.BigEndian.PutUint32(data, uint32(d))
			mut = "prefix-off"
		case 4:
			data = append([]byte{0, 0, 0, 0}, r.Bytes(r.Intn(6))...)
			mut = "prefix-zero"
		}
		if len(data) > 4 && binary.BigEndian.Uint32(data) != 0 && !lz4Complete(data[4:]) {
			out.Dist["lz4dec/truncated-block-skipped"]++
			continue
		}
		blockres := "none"
		if len(data) >= 4 && binary.BigEndian.Uint32(data) != 0 {
			dst := make([]byte, binary.BigEndian.Uint32(data))
			n, err := plz4.UncompressBlock(data[4:], dst)
			if err != nil {
				blockres = "err"
			} else {
				blockres = "ok:" + vh.Hex(dst[:n])
			}
		}
		op := fmt.Sprintf("lz4dec %s %s", vh.Hex(data), blockres)
		a := exec(op)
		cls := "err"
		if strings.HasPrefix(a, "ok") {
			cls = "ok"
		}
		out.Case(op, a, "lz4dec/"+mut+"/"+cls, true)
	}

	// 5. the trusted-base hypothesis itself, sampled: Decode(Encode(x)) = x
	for i := 0; i < 1500*mult; i++ {
		maxN := 70000
		if i%100 == 0 {
			maxN = 1 << 20
		}
		bodyArg, cls := genBody(r, maxN)
		comp := compNames[1+r.Intn(2)]
		op := fmt.Sprintf("hyp %s %s", comp, bodyArg)
		out.Case(op, exec(op), "hyp/"+comp+"/"+cls, bodyArg != "-")
	}
	if tier == "thorough" {
		// 32 MiB once per codec, through the real builder + reader and through the model
		for _, comp := range []string{"snappy", "lz4"} {
			op := fmt.Sprintf("hyp %s rep:%s:%d", comp, vh.Hex(r.Bytes(37)), 32<<20)
			out.Case(op, exec(op), "hyp/"+comp+"/32MiB", true)
		}
		bodyArg := fmt.Sprintf("rep:%s:%d", vh.Hex(r.Bytes(23)), 32<<20)
		z, err := safeEncode(gocql.SnappyCompressor{}, expand(bodyArg))
		op := fmt.Sprintf("raw snappy 4 0 1 7 5 %s %s", bodyArg, resStr(z, err))
		out.Case(op, exec(op), "raw/snappy/32MiB", true)
	}

	// 6. negotiation: the real startup over an in-memory pipe against a scripted server
	names := []string{"-", "snappy", "lz4", "deflate", "LZ4", "snap"}
	lists := []string{"", "snappy", "lz4", "snappy,lz4", "lz4,snappy", "deflate", "snappy,lz4,deflate", "Snappy", "lz", "lz4x,xlz4", "zstd"}
	nNego := 150 * mult
	if nNego > 1500 {
		nNego = 1500
	}
	for i := 0; i < nNego; i++ {
		name := names[r.Intn(len(names))]
		var parts []string
		if r.Intn(6) != 0 {
			parts = append(parts, "CQL_VERSION=3.4.5")
		}
		switch r.Intn(8) {
		case 0: // no COMPRESSION key at all
		case 1: // duplicate key: the last one wins in the Go map
			parts = append(parts, "COMPRESSION="+lists[r.Intn(len(lists))], "COMPRESSION="+lists[r.Intn(len(lists))])
		default:
			parts = append(parts, "COMPRESSION="+lists[r.Intn(len(lists))])
		}
		if r.Bool() {
			parts = append(parts, "PROTOCOL_VERSIONS=3/v3,4/v4")
		}
		sup := strings.Join(parts, ";")
		if sup == "" {
			sup = "-"
		}
		op := fmt.Sprintf("nego %s %s", name, sup)
		a := exec(op)
		out.Case(op, a, "nego/"+strings.Fields(a)[0], true)
	}
	// 6b. snappy as a concrete codec: the real Decode against the block format's decoder in Lean, on
	//     valid / mutated / hand-made element streams; the real Encode's output decoded by that decoder
	for i := 0; i < 1500*mult; i++ {
		op, cls := genSnapdec(r, lens)
		if op == "" {
			out.Dist[cls]++
			continue
		}
		out.Case(op, exec(op), cls, true)
	}
	snapMax, nBrt := 1<<15+1, 500
	if tier == "thorough" {
		snapMax, nBrt = 1<<16+1, 3000 // the encoder's output is on the op line: keep ops.txt in the tens of MB
	}
	for i := 0; i < nBrt; i++ {
		op, cls := genSnaprt(r, snapMax, lens, lateLs[:9])
		out.Case(op, exec(op), cls, true)
	}
	// 6b'. the LZ4 block format: pierrec's UncompressBlock against the format's decoder in Lean on
	//      structurally complete blocks; CompressBlock's output decoded by that decoder
	for i := 0; i < 1500*mult; i++ {
		op, cls := genLz4blk(r, lens)
		if op == "" {
			out.Dist[cls]++
			continue
		}
		out.Case(op, exec(op), cls, true)
	}
	for i := 0; i < nBrt; i++ {
		op, cls := genLz4brt(r, snapMax, lens, lateLs[:9])
		if op == "" {
			out.Dist[cls]++
			continue
		}
		out.Case(op, exec(op), cls, true)
	}
	// 6b''. body sizes between the shaped bodies and the 256 MiB frames (mid.go)
	for _, oc := range genMid(r, tier) {
		out.Case(oc[0], exec(oc[0]), oc[1], true)
	}
	// 6c. frames at the 256 MiB limit (the model answers through lengths only)
	bigClasses := []string{"sender-too-big", "over"}
	if tier == "thorough" {
		bigClasses = []string{"sender-too-big", "sender-too-big", "at-limit-plain", "at-limit-compressible", "at-limit-compressible",
			"near-limit-incompressible", "near-limit-incompressible", "over", "over", "over"}
	}
	for _, c := range bigClasses {
		op, ans, cls := genBig(r, c)
		out.Case(op, ans, cls, true)
	}
	// 6d. compressed responses at the 256 MiB boundary through the real receive path of a connection
	rxbigRun := []string{rxbigClasses[r.Intn(len(rxbigClasses))]}
	if tier == "thorough" {
		rxbigRun = append(append([]string{}, rxbigClasses...), "decodes-over-limit", "payload-over-limit", "payload-under-limit")
	}
	for _, c := range rxbigRun {
		op, cls := genRxbig(r, c)
		out.Case(op, exec(op), cls, true)
	}
	// 7. the destination lz4 Encode hands to the block encoder (model vs code; last: a tie, not an input)
	for _, n := range threshLens(maxPow) {
		op := fmt.Sprintf("lz4dst %d", n)
		out.Case(op, exec(op), "lz4dst", true)
	}
	out.Close(nil)
}

func wireVersion(w []byte) byte {
	if len(w) == 0 {
		return 4
	}
	return w[0]
}
