// C18, round 8: compressor errors on the SEND path of a real connection, every request kind.
//
//	senderr <codec> <step>…   a real Conn over net.Pipe (real startup, compression negotiated against a
//	                          scripted peer; codec none: no compressor) whose compressor is the real
//	                          snappy / lz4 behind a switch that makes Encode refuse the next body.
//	  <kind>/<f|s>/<blob>     one request through Conn.exec (real builder); f = Encode refuses
//	  +<kind>/<blob>          the same, but the peer withholds its answer: the call stays in flight
//	  r                       the peer answers everything it withheld; the callers return
//
// Per step: what the caller got, how many Encode calls ran, stream ids taken / calls registered on the
// connection afterwards (relative to the idle connection), and the frames the peer has read since the
// last answer — opcode / compress bit / payload decoded by an INDEPENDENT decoder equal to the body the
// same builder makes without a compressor. Every wait is on an event (the peer has read a frame, a
// caller returned); the watchdog answers `timeout`.
package main

import (
	"bytes"
	"errors"
	"fmt"
	"net"
	"strings"
	"sync"
	"sync/atomic"
	"time"

	"github.com/gocql/gocql"
	"verifharness/vh"
)

var errEncodeRefused = errors.New("verif: compressor refuses this body")

type switchComp struct {
	inner gocql.Compressor
	fail  *int32
	calls *int32
}

func (s switchComp) Name() string { return s.inner.Name() }
func (s switchComp) Encode(b []byte) ([]byte, error) {
	atomic.AddInt32(s.calls, 1)
	if atomic.LoadInt32(s.fail) != 0 {
		return nil, errEncodeRefused
	}
	return s.inner.Encode(b)
}
func (s switchComp) Decode(b []byte) ([]byte, error) { return s.inner.Decode(b) }

type sendPeer struct {
	cli, srv net.Conn
	done     chan struct{}
	mu       sync.Mutex
	seen     []srvFrame    // requests read after the handshake, not yet reported
	read     chan struct{} // one token per request read
	withhold int32         // the next request is not answered until release
	held     []srvFrame
}

func sendReply(w net.Conn, f srvFrame) {
	switch f.op {
	case 0x05:
		writeSrvFrame(w, 0, 0x06, f.stream, supportedBody([]kv{{"COMPRESSION", []string{"snappy", "lz4"}}}))
	case 0x0B:
		writeSrvFrame(w, 0, 0x02, f.stream, nil)
	case 0x0F:
		writeSrvFrame(w, 0, 0x10, f.stream, []byte{0xff, 0xff, 0xff, 0xff})
	default:
		writeSrvFrame(w, 0, 0x08, f.stream, []byte{0, 0, 0, 1})
	}
}

func openSendPeer() *sendPeer {
	p := &sendPeer{done: make(chan struct{}), read: make(chan struct{}, 64)}
	p.cli, p.srv = net.Pipe()
	go func() {
		defer close(p.done)
		started := false
		for {
			f, err := readSrvFrame(p.srv)
			if err != nil {
				return
			}
			switch {
			case !started && f.op == 0x05:
				writeSrvFrame(p.srv, 0, 0x06, f.stream, supportedBody([]kv{{"COMPRESSION", []string{"snappy", "lz4"}}, {"CQL_VERSION", []string{"3.4.5"}}}))
			case !started && f.op == 0x01:
				started = true
				writeSrvFrame(p.srv, 0, 0x02, f.stream, nil)
			default:
				p.mu.Lock()
				p.seen = append(p.seen, f)
				hold := atomic.CompareAndSwapInt32(&p.withhold, 1, 0)
				if hold {
					p.held = append(p.held, f)
				}
				p.mu.Unlock()
				p.read <- struct{}{}
				if !hold {
					sendReply(p.srv, f)
				}
			}
		}
	}()
	return p
}

func (p *sendPeer) close(c *gocql.Conn) {
	if c != nil {
		c.Close()
	}
	p.cli.Close()
	p.srv.Close()
	select {
	case <-p.done:
	case <-time.After(watchdog):
		dumpGoroutines("senderr: peer goroutine did not end")
	}
}

// takeSeen: the frames read since the last answer, rendered against the plain body of `kind`
func (p *sendPeer) takeSeen(codec string, plain []byte) string {
	p.mu.Lock()
	fs := p.seen
	p.seen = nil
	p.mu.Unlock()
	var parts []string
	for _, f := range fs {
		payload := f.body
		verdict := "same"
		if f.flags&1 == 1 {
			if codec == "none" {
				verdict = "flag-without-codec"
			} else if d, err := indepDecode(codec, payload); err != nil {
				verdict = "undecodable"
			} else {
				payload = d
			}
		}
		if verdict == "same" && !bytes.Equal(payload, plain) {
			verdict = "diff"
		}
		parts = append(parts, fmt.Sprintf("%d/%d/%s", f.op, f.flags&1, verdict))
	}
	return "wire=[" + strings.Join(parts, ";") + "]"
}

func sendErrClass(err error) string {
	if errors.Is(err, errEncodeRefused) {
		return "err:codec"
	}
	return "err:other:" + errClass(err)
}

const sendStmt = "SELECT v FROM ks.t WHERE k = ?"

func execSenderr(codec string, steps []string) (res string) {
	var fail, calls int32
	var comp gocql.Compressor
	if codec != "none" {
		comp = switchComp{inner: compressor(codec), fail: &fail, calls: &calls}
	}
	p := openSendPeer()
	conn, err := gocql.VerifC18dDial(p.cli, comp, 4, 10*time.Minute)
	if err != nil {
		p.close(nil)
		return "dial-error:" + errClass(err)
	}
	defer p.close(conn)
	avail0, calls0 := gocql.VerifC18fHeld(conn)
	held := func() string {
		a, c := gocql.VerifC18fHeld(conn)
		return fmt.Sprintf("held=%d,calls=%d", avail0-a, c-calls0)
	}
	type result struct {
		op  byte
		err error
	}
	var pend []chan result
	var out []string
	for _, st := range steps {
		if st == "r" {
			p.mu.Lock()
			hs := p.held
			p.held = nil
			p.mu.Unlock()
			for _, f := range hs {
				sendReply(p.srv, f)
			}
			okAll := true
			for _, ch := range pend {
				select {
				case r := <-ch:
					if r.err != nil {
						okAll = false
					}
				case <-time.After(watchdog):
					dumpGoroutines("senderr: a pending call did not return")
					return strings.Join(append(out, "timeout"), " ")
				}
			}
			n := len(pend)
			pend = nil
			a := fmt.Sprintf("released=%d,%s", n, held())
			if !okAll {
				a += ",pending-call-failed"
			}
			out = append(out, a)
			continue
		}
		pending := strings.HasPrefix(st, "+")
		var kind, fl, blobArg string
		if pending {
			w := strings.Split(st[1:], "/")
			kind, fl, blobArg = w[0], "s", w[1]
		} else {
			w := strings.Split(st, "/")
			kind, fl, blobArg = w[0], w[1], w[2]
		}
		blob := expand(blobArg)
		plainWire, err := gocql.VerifC18Build(kind, 4, nil, false, false, 1, sendStmtFor(kind, blob), blobFor(kind, blob))
		if err != nil {
			return strings.Join(append(out, "harness-build-error"), " ")
		}
		plain := plainWire[9:]
		atomic.StoreInt32(&calls, 0)
		if fl == "f" {
			atomic.StoreInt32(&fail, 1)
		} else {
			atomic.StoreInt32(&fail, 0)
		}
		ch := make(chan result, 1)
		if pending {
			atomic.StoreInt32(&p.withhold, 1)
		}
		go func() {
			op, err := gocql.VerifC18fExec(conn, kind, sendStmt, blob, 10*time.Minute)
			ch <- result{op, err}
		}()
		if pending {
			select {
			case <-p.read:
			case r := <-ch:
				atomic.StoreInt32(&p.withhold, 0)
				out = append(out, fmt.Sprintf("%s,enc=%d,%s", sendErrClass(r.err), atomic.LoadInt32(&calls), held()))
				continue
			case <-time.After(watchdog):
				dumpGoroutines("senderr: the peer did not read a request")
				return strings.Join(append(out, "timeout"), " ")
			}
			pend = append(pend, ch)
			out = append(out, fmt.Sprintf("sent,enc=%d,%s,%s", atomic.LoadInt32(&calls), held(), p.takeSeen(codec, plain)))
			continue
		}
		select {
		case r := <-ch:
			atomic.StoreInt32(&fail, 0)
			if r.err != nil {
				out = append(out, fmt.Sprintf("%s,enc=%d,%s", sendErrClass(r.err), atomic.LoadInt32(&calls), held()))
				continue
			}
			// drain the read tokens of this step (one per frame the peer has read)
			for {
				select {
				case <-p.read:
					continue
				default:
				}
				break
			}
			out = append(out, fmt.Sprintf("ok,enc=%d,%s,%s", atomic.LoadInt32(&calls), held(), p.takeSeen(codec, plain)))
		case <-time.After(watchdog):
			dumpGoroutines("senderr: a call did not return")
			return strings.Join(append(out, "timeout"), " ")
		}
	}
	return strings.Join(out, " ")
}

// the arguments VerifC18Build needs to make the SAME body VerifC18fExec's builder makes
func sendStmtFor(kind string, blob []byte) string {
	switch kind {
	case "prepare", "register":
		return sendStmt + string(blob)
	}
	return sendStmt
}

func blobFor(kind string, blob []byte) []byte {
	switch kind {
	case "prepare", "register", "options":
		return nil
	}
	return blob
}

var sendKinds = []string{"query", "prepare", "execute", "batch", "register", "auth", "options"}

func sendBlob(r *vh.Rng) string {
	n := []int{0, 1, 3, 16, 60, 61, 255, 300, 1000, 4096, 5000}[r.Intn(11)]
	return heldBodyOrDash(r, n)
}

func genSenderr(r *vh.Rng) (string, string) {
	codec := []string{"snappy", "lz4", "snappy", "lz4", "none"}[r.Intn(5)]
	var steps []string
	pending := 0
	fails := 0
	n := 2 + r.Intn(7)
	for i := 0; i < n; i++ {
		kind := sendKinds[r.Intn(len(sendKinds))]
		switch {
		case pending < 3 && r.Intn(5) == 0:
			steps = append(steps, fmt.Sprintf("+%s/%s", kind, sendBlob(r)))
			pending++
		case pending > 0 && r.Intn(4) == 0:
			steps = append(steps, "r")
			pending = 0
		default:
			fl := "s"
			if r.Intn(5) < 2 {
				fl = "f"
				fails++
			}
			steps = append(steps, fmt.Sprintf("%s/%s/%s", kind, fl, sendBlob(r)))
		}
	}
	if pending > 0 {
		steps = append(steps, "r")
	}
	steps = append(steps, "register/s/-") // the fence: whatever a failed request leaked is read before it
	cls := "no-failure"
	if fails > 0 {
		cls = "with-failures"
	}
	return "senderr " + codec + " " + strings.Join(steps, " "), "senderr/" + codec + "/" + cls
}
