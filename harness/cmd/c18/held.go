// Ownership / aliasing of the buffers that cross the compressor boundary (ops `held`, `flight`).
//
// held:   keep K earlier results of Encode / Decode / readFrame alive, run further codec calls (any
//
//	number, any sizes, either codec, this or another goroutine), let the caller scribble over its
//	input buffers, then compare every held result byte-exact with what the specification says
//	that call returns (the Lean heap machine answers: the value is independent of later ops).
//
// flight: the same through real connections: compression negotiated with a scripted peer, 2-4
//
//	responses in flight on one or two connections, consumers (Iter.Scan, SUPPORTED map, raw
//	body) reading in permuted order after later responses were received and decoded.
//
// All waiting is on events (request read by the peer, exec returned), never on elapsed time; the only
// clocks are watchdogs of 30 s that answer `timeout` (with a goroutine dump on stderr).
package main

import (
	"bytes"
	"encoding/binary"
	"fmt"
	"io"
	"net"
	"os"
	"runtime"
	"runtime/pprof"
	"strings"
	"time"

	"github.com/gocql/gocql"
	"github.com/golang/snappy"
	plz4 "github.com/pierrec/lz4/v4"
	"verifharness/vh"
)

const watchdog = 30 * time.Second

// ---------- encoders / decoders that do not go through gocql's Compressor implementations ----------

func baseCodec(name string) string {
	if i := strings.IndexByte(name, '.'); i >= 0 {
		return name[:i]
	}
	return name
}

func indepEncode(codec string, body []byte) []byte {
	switch baseCodec(codec) {
	case "snappy":
		return snappy.Encode(nil, body)
	case "lz4":
		buf := make([]byte, 4+plz4.CompressBlockBound(len(body)))
		var cc plz4.Compressor
		n, err := cc.CompressBlock(body, buf[4:])
		if err != nil {
			panic("harness: independent lz4 encoder: " + err.Error())
		}
		binary.BigEndian.PutUint32(buf, uint32(len(body)))
		return buf[:4+n]
	}
	panic("harness: unknown codec " + codec)
}

func indepDecode(codec string, z []byte) ([]byte, error) {
	switch baseCodec(codec) {
	case "snappy":
		return snappy.Decode(nil, z)
	case "lz4":
		if len(z) < 4 {
			return nil, fmt.Errorf("short")
		}
		n := binary.BigEndian.Uint32(z)
		if n == 0 {
			return []byte{}, nil
		}
		if n > 1<<27 {
			return nil, fmt.Errorf("prefix %d", n)
		}
		dst := make([]byte, n)
		m, err := plz4.UncompressBlock(z[4:], dst)
		if err != nil {
			return nil, err
		}
		if m != int(n) {
			// Cassandra's framing: the prefix IS the uncompressed length (its own decompressor demands
			// exactly that many bytes); since the repair of KF-C18-1 gocql's wrapper says the same
			return nil, fmt.Errorf("block decodes to %d bytes, prefix says %d", m, n)
		}
		return dst[:m], nil
	}
	panic("harness: unknown codec " + codec)
}

// two long-lived instances per codec plus a new one per call: "same or other compressor instance"
var instances = map[string]gocql.Compressor{}

func instance(name string) gocql.Compressor {
	if !strings.Contains(name, ".") {
		return compressor(name)
	}
	if c, ok := instances[name]; ok {
		return c
	}
	c := compressor(baseCodec(name))
	instances[name] = c
	return c
}

func respWire(flags byte, stream int, op byte, payload []byte) []byte {
	w := []byte{0x84, flags, byte(stream >> 8), byte(stream), op, 0, 0, 0, 0}
	binary.BigEndian.PutUint32(w[5:], uint32(len(payload)))
	return append(w, payload...)
}

func withProcs(procs string, f func() string) string {
	if procs == "1" {
		old := runtime.GOMAXPROCS(1)
		defer runtime.GOMAXPROCS(old)
	}
	return f()
}

// ---------- op held ----------

type heldSlot struct {
	codec, dir string
	in, inOrig []byte // the caller's input buffer, and a private copy of what it passed
	res        []byte // the slice the call returned (NOT copied: that is the point)
}

// callBoundary runs one crossing of the compressor boundary on the real code
func callBoundary(codec, dir string, in []byte) (res []byte, err error) {
	defer func() {
		if r := recover(); r != nil {
			res, err = nil, fmt.Errorf("panic: %v", r)
		}
	}()
	c := instance(codec)
	switch dir {
	case "enc":
		return c.Encode(in)
	case "dec":
		return c.Decode(in)
	case "rd", "ru":
		_, _, _, _, body, err := gocql.VerifC18Read(4, c, in)
		return body, err
	}
	return nil, fmt.Errorf("bad dir")
}

func heldInput(codec, dir string, slot int, body []byte) []byte {
	switch dir {
	case "enc":
		return append([]byte{}, body...)
	case "dec":
		return indepEncode(codec, body)
	case "rd":
		return respWire(1, slot%32768, 8, indepEncode(codec, body))
	case "ru":
		return respWire(0, slot%32768, 8, body)
	}
	panic("bad dir " + dir)
}

func execHeld(procs string, toks []string) string {
	return withProcs(procs, func() string {
		slots := map[int]*heldSlot{}
		var ans []string
		for _, tok := range toks {
			ans = append(ans, heldStep(slots, tok))
		}
		return strings.Join(ans, " ")
	})
}

func heldStep(slots map[int]*heldSlot, tok string) (res string) {
	defer func() {
		if r := recover(); r != nil {
			res = fmt.Sprintf("crash:%v", r)
		}
	}()
	if tok == "" {
		return "bad-step"
	}
	f := strings.Split(tok[1:], "/")
	switch tok[0] {
	case 'h', 'g', 'x', 'y':
		if len(f) != 4 {
			return "bad-step"
		}
		slot := 1000000
		if tok[0] == 'h' || tok[0] == 'g' {
			slot = atoi(f[0])
		}
		codec, dir := f[1], f[2]
		in := heldInput(codec, dir, slot, expand(f[3]))
		s := &heldSlot{codec: codec, dir: dir, in: in, inOrig: append([]byte{}, in...)}
		var err error
		if tok[0] == 'g' || tok[0] == 'y' {
			done := make(chan struct{})
			go func() {
				defer close(done)
				s.res, err = callBoundary(codec, dir, in)
			}()
			<-done
		} else {
			s.res, err = callBoundary(codec, dir, in)
		}
		delete(slots, slot)
		if err != nil {
			return "err"
		}
		if tok[0] == 'h' || tok[0] == 'g' {
			slots[slot] = s
		}
		return "ok"
	case 'c':
		k := atoi(f[0])
		s := slots[k]
		if s == nil {
			return fmt.Sprintf("s%d=none", k)
		}
		if s.dir == "enc" {
			d, err := indepDecode(s.codec, s.res)
			if err != nil {
				return fmt.Sprintf("s%d=undecodable", k)
			}
			return fmt.Sprintf("s%d=%s", k, canon(d))
		}
		return fmt.Sprintf("s%d=%s", k, canon(s.res))
	case 'i':
		k := atoi(f[0])
		s := slots[k]
		if s == nil {
			return fmt.Sprintf("in%d=none", k)
		}
		if bytes.Equal(s.in, s.inOrig) {
			return fmt.Sprintf("in%d=same", k)
		}
		return fmt.Sprintf("in%d=changed", k)
	case 'm':
		if len(f) != 3 {
			return "bad-step"
		}
		x, err := vh.UnHex(f[2])
		if err != nil || len(x) != 1 {
			return "bad-step"
		}
		if s := slots[atoi(f[0])]; s != nil && len(s.in) > 0 {
			s.in[atoi(f[1])%len(s.in)] ^= x[0]
		}
		return "ok"
	case 'd':
		delete(slots, atoi(f[0]))
		return "ok"
	}
	return "bad-step"
}

// ---------- op flight: real connections against a scripted peer with compression negotiated ----------

type flightConn struct {
	cli, srv net.Conn
	conn     *gocql.Conn
	reqs     chan srvFrame // requests the peer has read after startup
	done     chan struct{}
}

func dumpGoroutines(why string) {
	fmt.Fprintf(os.Stderr, "c18 harness watchdog: %s\n", why)
	pprof.Lookup("goroutine").WriteTo(os.Stderr, 2)
}

func supportedBody(m []kv) []byte {
	var b bytes.Buffer
	binary.Write(&b, binary.BigEndian, uint16(len(m)))
	for _, e := range m {
		putString(&b, e.k)
		binary.Write(&b, binary.BigEndian, uint16(len(e.v)))
		for _, x := range e.v {
			putString(&b, x)
		}
	}
	return b.Bytes()
}

func openFlightConn(codec string) (*flightConn, error) {
	return openFlightConnWith(compressor(codec))
}

func openFlightConnWith(comp gocql.Compressor) (*flightConn, error) {
	fc := &flightConn{reqs: make(chan srvFrame, 16), done: make(chan struct{})}
	fc.cli, fc.srv = net.Pipe()
	go func() {
		defer close(fc.done)
		started := false
		for {
			f, err := readSrvFrame(fc.srv)
			if err != nil {
				return
			}
			switch {
			case !started && f.op == 0x05:
				writeSrvFrame(fc.srv, 0, 0x06, f.stream, supportedBody([]kv{{"COMPRESSION", []string{"snappy", "lz4"}}, {"CQL_VERSION", []string{"3.4.5"}}}))
			case !started && f.op == 0x01:
				started = true
				writeSrvFrame(fc.srv, 0, 0x02, f.stream, nil)
			default:
				fc.reqs <- f
			}
		}
	}()
	conn, err := gocql.VerifC18dDial(fc.cli, comp, 4, 10*time.Minute)
	if err != nil {
		fc.close()
		return nil, err
	}
	fc.conn = conn
	return fc, nil
}

func (fc *flightConn) close() {
	if fc.conn != nil {
		fc.conn.Close()
	}
	fc.cli.Close()
	fc.srv.Close()
	select {
	case <-fc.done:
	case <-time.After(watchdog):
		dumpGoroutines("peer goroutine did not end")
	}
}

// chunks splits b into n consecutive parts (sizes differ by at most one)
func chunks(b []byte, n int) [][]byte {
	out := make([][]byte, n)
	for i := 0; i < n; i++ {
		out[i] = b[i*len(b)/n : (i+1)*len(b)/n]
	}
	return out
}

// flightRespBody: the response body the peer sends for (kind, n, body)
func flightRespBody(kind string, n int, body []byte) (op byte, out []byte) {
	var b bytes.Buffer
	switch kind {
	case "rows": // RESULT/Rows, one blob column, n rows: the chunks of body
		binary.Write(&b, binary.BigEndian, int32(2))
		binary.Write(&b, binary.BigEndian, int32(1)) // global tables spec
		binary.Write(&b, binary.BigEndian, int32(1)) // one column
		putString(&b, "k")
		putString(&b, "t")
		putString(&b, "v")
		binary.Write(&b, binary.BigEndian, uint16(3)) // blob
		binary.Write(&b, binary.BigEndian, int32(n))
		for _, c := range chunks(body, n) {
			binary.Write(&b, binary.BigEndian, int32(len(c)))
			b.Write(c)
		}
		return 0x08, b.Bytes()
	case "opt": // SUPPORTED, key K with n values: the chunks of body
		var vals []string
		for _, c := range chunks(body, n) {
			vals = append(vals, string(c))
		}
		return 0x06, supportedBody([]kv{{"A", []string{"x"}}, {"K", vals}})
	}
	return 0x06, body // raw: the consumer looks at the body bytes only
}

type flightReq struct {
	kind   string
	n      int
	body   []byte
	fc     *flightConn
	stream int16
	ret    chan struct{} // closed when the client's call returned
	iter   *gocql.Iter
	pend   *gocql.VerifC18dPending
	err    error
}

func errClass(err error) string {
	m := err.Error()
	if len(m) > 60 {
		m = m[:60]
	}
	return "err:" + strings.ReplaceAll(m, " ", "_")
}

func execFlight(codec, procs string, toks []string) string {
	return withProcs(procs, func() string {
		conns := map[int]*flightConn{}
		reqs := map[int]*flightReq{}
		defer func() {
			for _, fc := range conns {
				fc.close()
			}
			for _, rq := range reqs {
				select {
				case <-rq.ret:
				case <-time.After(watchdog):
					dumpGoroutines("client call did not return after its connection was closed")
				}
			}
		}()
		var ans []string
		for _, tok := range toks {
			ans = append(ans, flightStep(codec, conns, reqs, tok))
		}
		return strings.Join(ans, " ")
	})
}

func flightStep(codec string, conns map[int]*flightConn, reqs map[int]*flightReq, tok string) (res string) {
	defer func() {
		if r := recover(); r != nil {
			res = fmt.Sprintf("crash:%v", r)
		}
	}()
	if tok == "" {
		return "bad-step"
	}
	f := strings.Split(tok[1:], "/")
	switch tok[0] {
	case 'q': // q<id>/<conn>/<kind>/<n>/<body>
		if len(f) != 5 {
			return "bad-step"
		}
		id, ci := atoi(f[0]), atoi(f[1])
		fc := conns[ci]
		if fc == nil {
			var err error
			if fc, err = openFlightConn(codec); err != nil {
				return "dial-" + errClass(err)
			}
			conns[ci] = fc
			if gocql.VerifC18CompressorName(fc.conn) != codec {
				return "compression-not-negotiated"
			}
		}
		rq := &flightReq{kind: f[2], n: atoi(f[3]), body: expand(f[4]), fc: fc, ret: make(chan struct{})}
		reqs[id] = rq
		go func() {
			defer close(rq.ret)
			defer func() {
				if r := recover(); r != nil {
					rq.err = fmt.Errorf("panic: %v", r)
				}
			}()
			switch rq.kind {
			case "rows":
				rq.iter = gocql.VerifC18dQuery(fc.conn, "SELECT v FROM k.t", 10*time.Minute)
			case "opt":
				rq.pend, rq.err = gocql.VerifC18dExec(fc.conn, "options", "", 10*time.Minute)
			default:
				rq.pend, rq.err = gocql.VerifC18dExec(fc.conn, "register", "E", 10*time.Minute)
			}
		}()
	nextReq:
		select {
		case sf := <-fc.reqs:
			if sf.op == 0x05 && rq.kind != "opt" {
				// Conn.heartBeat's OPTIONS (one second after the startup; a scenario on a loaded machine
				// may take that long): answered, not taken for the request of this step
				writeSrvFrame(fc.srv, 0, 0x06, sf.stream, supportedBody([]kv{{"A", []string{"x"}}}))
				goto nextReq
			}
			rq.stream = sf.stream
			// what the peer decodes is what the client encoded: the request body through the
			// independent decoder (OPTIONS is never compressed and has no body)
			body := sf.body
			if sf.flags&1 == 1 {
				var err error
				if body, err = indepDecode(codec, body); err != nil {
					return "request-undecodable"
				}
			}
			want := map[string][]byte{"rows": []byte("SELECT v FROM k.t"), "opt": {}}[rq.kind]
			if want == nil {
				want = []byte{0, 1, 0, 1, 'E'}
			}
			if (rq.kind == "opt") != (sf.flags&1 == 0) || !bytes.Contains(body, want) || (rq.kind == "opt" && len(body) != 0) {
				return "request-corrupt"
			}
			return "ok"
		case <-rq.ret:
			return "returned-before-response"
		case <-time.After(watchdog):
			dumpGoroutines("request " + tok + " never reached the peer")
			return "timeout"
		}
	case 'r': // r<id>/<z|p>
		if len(f) != 2 {
			return "bad-step"
		}
		rq := reqs[atoi(f[0])]
		if rq == nil {
			return "bad-step"
		}
		op, body := flightRespBody(rq.kind, rq.n, rq.body)
		flags := byte(0)
		if f[1] == "z" {
			flags, body = 1, indepEncode(codec, body)
		}
		if _, err := rq.fc.srv.Write(respWire(flags, int(uint16(rq.stream)), op, body)); err != nil {
			return "peer-write-" + errClass(err)
		}
		select {
		case <-rq.ret:
		case <-time.After(watchdog):
			dumpGoroutines("response " + tok + " was sent, the client call did not return")
			return "timeout"
		}
		if rq.err != nil {
			return errClass(rq.err)
		}
		return "ok"
	case 'p': // p<id>
		id := atoi(f[0])
		rq := reqs[id]
		if rq == nil {
			return "bad-step"
		}
		select {
		case <-rq.ret:
		default:
			return fmt.Sprintf("p%d=not-received", id)
		}
		if rq.err != nil {
			return fmt.Sprintf("p%d=%s", id, errClass(rq.err))
		}
		var got []byte
		n := 0
		switch rq.kind {
		case "rows":
			var v []byte
			for rq.iter.Scan(&v) {
				got = append(got, v...)
				n++
			}
			if err := rq.iter.Close(); err != nil {
				return fmt.Sprintf("p%d=%s,n=%d", id, errClass(err), n)
			}
		case "opt":
			m, err := rq.pend.Supported()
			if err != nil {
				return fmt.Sprintf("p%d=%s", id, errClass(err))
			}
			for _, v := range m["K"] {
				got = append(got, v...)
				n++
			}
			if len(m) != 2 || len(m["A"]) != 1 || m["A"][0] != "x" {
				return fmt.Sprintf("p%d=other-keys-wrong", id)
			}
		default:
			got, n = rq.pend.Body(), rq.n
		}
		return fmt.Sprintf("p%d=%s,n=%d", id, canon(got), n)
	}
	return "bad-step"
}

var _ = io.EOF

// ---------- generators ----------

// relSize: a size related to an earlier one: smaller, equal, larger, tiny, unrelated
func relSize(r *vh.Rng, base int) int {
	switch r.Intn(9) {
	case 0:
		return base
	case 1:
		return base - 1 - r.Intn(4)
	case 2:
		return base + 1 + r.Intn(4)
	case 3:
		return base / 2
	case 4:
		return base * 2
	case 5:
		return r.Intn(8)
	case 6:
		return r.Intn(base + 1)
	case 7:
		return base + r.Intn(base+64)
	}
	return sizes[r.Intn(len(sizes))]
}

// heldBody: a body of exactly n bytes of one of the content classes (descriptor, no spaces)
func heldBody(r *vh.Rng, n int) string {
	if n <= 0 {
		return "-"
	}
	switch r.Intn(6) {
	case 0:
		return fmt.Sprintf("cat:z%d", n)
	case 1:
		return fmt.Sprintf("cat:p%s.%d", vh.Hex(r.Bytes(1+r.Intn(7))), n)
	case 2:
		return fmt.Sprintf("cat:t%d.%d", r.Intn(1<<30), n)
	case 3:
		if n >= 8 {
			return fmt.Sprintf("cat:%s,c%d.%d", segRandom(r, n/4), 1+r.Intn(n/4), n-n/4)
		}
	case 4:
		if n <= 64 {
			return vh.Hex(r.Bytes(n))
		}
	}
	return "cat:" + segRandom(r, n)
}

var heldBases = []int{1, 3, 4, 16, 17, 60, 64, 100, 255, 256, 1000, 1024, 4096, 5000, 65535, 65536, 70000}

func genHeld(r *vh.Rng, big bool) (string, string) {
	codecs := []string{"snappy", "lz4"}
	main := codecs[r.Intn(2)]
	mixed := r.Intn(3) == 0
	pick := func() string {
		c := main
		if mixed && r.Bool() {
			c = codecs[r.Intn(2)]
		}
		if r.Intn(3) == 0 {
			c += ".1"
		}
		return c
	}
	dirs := []string{"dec", "dec", "dec", "enc", "enc", "rd", "rd", "ru"}
	mainDir := dirs[r.Intn(len(dirs))]
	dir := func() string {
		if r.Intn(3) == 0 {
			return dirs[r.Intn(len(dirs))]
		}
		return mainDir
	}
	base := heldBases[r.Intn(len(heldBases)-4)]
	if big {
		base = heldBases[r.Intn(len(heldBases))]
	}
	size := func() int {
		n := relSize(r, base)
		if n < 0 {
			n = 0
		}
		if n > 150000 {
			n = 150000
		}
		return n
	}
	var toks []string
	k := 1 + r.Intn(4) // K earlier results kept alive
	live := []int{}
	mutated := map[int]bool{}
	hold := func(slot int) {
		t := "h"
		if r.Intn(5) == 0 {
			t = "g"
		}
		n := size()
		if len(live) == 0 {
			n = base
		}
		toks = append(toks, fmt.Sprintf("%s%d/%s/%s/%s", t, slot, pick(), dir(), heldBody(r, n)))
		found := false
		for _, s := range live {
			found = found || s == slot
		}
		if !found {
			live = append(live, slot)
		}
		delete(mutated, slot)
	}
	for i := 0; i < k; i++ {
		hold(i)
	}
	rounds := 1 + r.Intn(3)
	for rd := 0; rd < rounds; rd++ {
		// later calls: any number, any sizes, results dropped or kept in further slots
		for j, m := 0, 1+r.Intn(5); j < m; j++ {
			switch r.Intn(8) {
			case 0, 1, 2:
				t := "x"
				if r.Intn(4) == 0 {
					t = "y"
				}
				toks = append(toks, fmt.Sprintf("%s/%s/%s/%s", t, pick(), dir(), heldBody(r, size())))
			case 3, 4:
				hold(k + r.Intn(4))
			case 5:
				s := live[r.Intn(len(live))]
				if !mutated[s] {
					mutated[s] = true
					toks = append(toks, fmt.Sprintf("m%d/%d/%02x", s, r.Intn(1<<16), 1+r.Intn(255)))
				}
			case 6:
				toks = append(toks, fmt.Sprintf("i%d", live[r.Intn(len(live))]))
			case 7:
				if len(live) > 1 && r.Intn(3) == 0 {
					s := live[len(live)-1]
					live = live[:len(live)-1]
					toks = append(toks, fmt.Sprintf("d%d", s))
				} else {
					hold(live[r.Intn(len(live))]) // a slot is re-used: the old result is let go
				}
			}
		}
		// every held result is compared, in a permuted order
		perm := append([]int{}, live...)
		for i := len(perm) - 1; i > 0; i-- {
			j := r.Intn(i + 1)
			perm[i], perm[j] = perm[j], perm[i]
		}
		for _, s := range perm {
			toks = append(toks, fmt.Sprintf("c%d", s))
			if r.Intn(4) == 0 {
				toks = append(toks, fmt.Sprintf("i%d", s))
			}
		}
	}
	procs := "1"
	if r.Intn(4) == 0 {
		procs = "0"
	}
	cls := fmt.Sprintf("held/%s/%s/K%d", main, mainDir, k)
	if mixed {
		cls = fmt.Sprintf("held/mixed/%s/K%d", mainDir, k)
	}
	return "held " + procs + " " + strings.Join(toks, " "), cls
}

func genFlight(r *vh.Rng) (string, string) {
	codec := []string{"snappy", "lz4"}[r.Intn(2)]
	nreq := 2 + r.Intn(3)
	nconn := 1 + r.Intn(2)
	base := heldBases[r.Intn(len(heldBases)-4)]
	var toks []string
	kinds := []string{"rows", "rows", "opt", "raw"}
	for id := 1; id <= nreq; id++ {
		kind := kinds[r.Intn(len(kinds))]
		size := base
		if id > 1 {
			size = relSize(r, base)
		}
		if size < 0 {
			size = 0
		}
		if size > 60000 {
			size = 60000
		}
		n := []int{1, 1, 2, 3, 7}[r.Intn(5)]
		if r.Intn(12) == 0 {
			n = 0
		}
		if n == 0 {
			size = 0
		}
		toks = append(toks, fmt.Sprintf("q%d/%d/%s/%d/%s", id, r.Intn(nconn), kind, n, heldBody(r, size)))
	}
	// responses in a permuted order; consumers read in a permuted order; the consumer of the first
	// response reads only after the later ones were received and decoded
	order := make([]int, nreq)
	for i := range order {
		order[i] = i + 1
	}
	for i := nreq - 1; i > 0; i-- {
		j := r.Intn(i + 1)
		order[i], order[j] = order[j], order[i]
	}
	var early []int
	for i, id := range order {
		mode := "z"
		if r.Intn(6) == 0 {
			mode = "p"
		}
		toks = append(toks, fmt.Sprintf("r%d/%s", id, mode))
		if i > 0 && r.Intn(4) == 0 { // some consumer reads in between
			early = append(early, id)
			toks = append(toks, fmt.Sprintf("p%d", id))
		}
	}
	cons := append([]int{}, order...)
	for i := nreq - 1; i > 0; i-- {
		j := r.Intn(i + 1)
		cons[i], cons[j] = cons[j], cons[i]
	}
	for _, id := range cons {
		skip := false
		for _, e := range early {
			skip = skip || e == id
		}
		if !skip {
			toks = append(toks, fmt.Sprintf("p%d", id))
		}
	}
	procs := "1"
	if r.Intn(4) == 0 {
		procs = "0"
	}
	return fmt.Sprintf("flight %s %s %s", codec, procs, strings.Join(toks, " ")), fmt.Sprintf("flight/%s/conns%d/inflight%d", codec, nconn, nreq)
}
