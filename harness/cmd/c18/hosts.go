// C18, round 9: compression negotiated per connection across the HOSTS of one session.
//
//	negom <codec> <numconns> <nhosts> <step>…   a real Session (NewSession, round-robin policy, one pool of
//	                          numconns connections per host, no control connection) over nhosts contact
//	                          points 127.0.0.(1+h); every host is a scripted node with its OWN SUPPORTED set
//	  a<h>=<sup>              host h advertises <sup> from now on (on connections made later)
//	  s                       the session starts; every host's pool fills
//	  k<h>/<i>                the node drops the i-th live connection of host h (order of establishment);
//	                          the pool of that host refills
//
// After `s` / `k`: one REGISTER request on every pooled connection, seen by its node. Per host, the
// connections' observations by class: OPTIONS seen, the STARTUP's COMPRESSION value, conn.compressor
// kept, compress bit of the request (payload decoded independently = the plain REGISTER body).
package main

import (
	"bytes"
	"context"
	"fmt"
	"sort"
	"strings"
	"sync"
	"time"

	"github.com/gocql/gocql"
	"verifharness/vh"
)

type negomCluster struct {
	mu    sync.Mutex
	sup   [][]kv      // per host
	peers [][]*rxPeer // per host, in order of establishment
}

func (n *negomCluster) hostOf(addr string) int {
	// 127.0.0.(1+h)
	i := strings.LastIndexByte(addr, '.')
	if i < 0 {
		return -1
	}
	return atoi(addr[i+1:]) - 1
}

func (n *negomCluster) DialHost(ctx context.Context, host *gocql.HostInfo) (*gocql.DialedHost, error) {
	h := n.hostOf(host.ConnectAddress().String())
	n.mu.Lock()
	defer n.mu.Unlock()
	if h < 0 || h >= len(n.sup) {
		return nil, fmt.Errorf("verif: unknown host %v", host.ConnectAddress())
	}
	sup := n.sup[h]
	peer := newRxPeer(sup, frameD{payload: supportedBody(sup)}, frameD{})
	n.peers[h] = append(n.peers[h], peer)
	return &gocql.DialedHost{Conn: peer.cli, DisableCoalesce: true}, nil
}

// live peers of host h (started, not ended), in order of establishment
func (n *negomCluster) live(h int) []*rxPeer {
	n.mu.Lock()
	defer n.mu.Unlock()
	var out []*rxPeer
	for _, p := range n.peers[h] {
		select {
		case <-p.done:
			continue
		default:
		}
		p.mu.Lock()
		st := p.started
		p.mu.Unlock()
		if st {
			out = append(out, p)
		}
	}
	return out
}

func execNegom(codec string, numConns, nHosts int, steps []string) string {
	if numConns < 1 || numConns > 3 || nHosts < 1 || nHosts > 4 {
		return "bad-op"
	}
	cl := &negomCluster{sup: make([][]kv, nHosts), peers: make([][]*rxPeer, nHosts)}
	var addrs []string
	for h := 0; h < nHosts; h++ {
		addrs = append(addrs, fmt.Sprintf("127.0.0.%d", 1+h))
	}
	var sess *gocql.Session
	defer func() {
		if sess != nil {
			sess.Close()
		}
		cl.mu.Lock()
		var all []*rxPeer
		for _, ps := range cl.peers {
			all = append(all, ps...)
		}
		cl.mu.Unlock()
		for _, p := range all {
			p.close()
		}
	}()
	// settle: wait (on the condition, nudging the pools) until every host's pool holds numConns connections
	settle := func() (map[int][]*gocql.Conn, bool) {
		deadline := time.Now().Add(watchdog)
		for {
			conns := gocql.VerifC18eSessionConns(sess, true)
			by := map[int][]*gocql.Conn{}
			ok := true
			for _, c := range conns {
				h := cl.hostOf(gocql.VerifC18gConnHost(c))
				by[h] = append(by[h], c)
				if c.Closed() {
					// a lost connection the pool has not removed yet, while its replacement is already
					// being established: not settled
					ok = false
				}
			}
			for h := 0; h < nHosts; h++ {
				if len(by[h]) != numConns || len(cl.live(h)) != numConns {
					ok = false
				}
			}
			if ok {
				return by, true
			}
			if time.Now().After(deadline) {
				dumpGoroutines("negom: the pools did not reach their size")
				return by, false
			}
			time.Sleep(time.Millisecond)
		}
	}
	observeHost := func(h int, conns []*gocql.Conn) string {
		count := map[string]int{}
		peers := cl.live(h)
		for _, c := range conns {
			call := &rxCall{ret: make(chan struct{})}
			go func(c *gocql.Conn) {
				defer close(call.ret)
				call.pend, call.err = gocql.VerifC18dExec(c, "register", "E", 10*time.Minute)
			}(c)
			var got *rxPeer
			var sf srvFrame
			deadline := time.Now().Add(watchdog)
			failed := false
			for got == nil && !failed {
				for _, p := range peers {
					select {
					case f := <-p.reqs:
						got, sf = p, f
					default:
					}
					if got != nil {
						break
					}
				}
				if got != nil {
					break
				}
				select {
				case <-call.ret:
					failed = true
				default:
					if time.Now().After(deadline) {
						dumpGoroutines("negom: request never reached a node of its host")
						return "timeout"
					}
					time.Sleep(200 * time.Microsecond)
				}
			}
			if got == nil {
				return "request-failed:" + rxErrClass(call.err)
			}
			qflag := sf.flags & 1
			body := sf.body
			if qflag == 1 && codec != "none" {
				if d, err := indepDecode(codec, body); err == nil {
					body = d
				}
			}
			got.srv.Write(respWire(0, int(uint16(sf.stream)), 0x02, nil))
			select {
			case <-call.ret:
			case <-time.After(watchdog):
				dumpGoroutines("negom: client call did not return")
				return "timeout"
			}
			got.mu.Lock()
			opt := 0
			if got.optSeen {
				opt = 1
			}
			obs := fmt.Sprintf("opt=%d,startup=%s,kept=%v,qflag=%d", opt, got.startComp, gocql.VerifC18CompressorName(c) != "", qflag)
			if !bytes.Equal(body, []byte{0, 1, 0, 1, 'E'}) || got.optFlags&1 != 0 || got.startFlags&1 != 0 || call.err != nil {
				obs += ",ANOMALY"
			}
			got.mu.Unlock()
			count[obs]++
		}
		var keys []string
		for k := range count {
			keys = append(keys, k)
		}
		sort.Slice(keys, func(i, j int) bool { // negotiated first, then by text
			a, b := strings.Contains(keys[i], "kept=true"), strings.Contains(keys[j], "kept=true")
			if a != b {
				return a
			}
			return keys[i] < keys[j]
		})
		out := fmt.Sprintf("live=%d", len(conns))
		for _, k := range keys {
			out += fmt.Sprintf(":[%s]x%d", k, count[k])
		}
		return out
	}
	observe := func() string {
		by, ok := settle()
		if !ok {
			return "timeout:pools"
		}
		var parts []string
		for h := 0; h < nHosts; h++ {
			parts = append(parts, fmt.Sprintf("h%d:%s", h, observeHost(h, by[h])))
		}
		return strings.Join(parts, "|")
	}
	var ans []string
	for _, st := range steps {
		switch {
		case st == "":
			ans = append(ans, "bad-step")
		case st[0] == 'a':
			i := strings.IndexByte(st, '=')
			if i < 0 {
				ans = append(ans, "bad-step")
				continue
			}
			h := atoi(st[1:i])
			if h < 0 || h >= nHosts {
				ans = append(ans, "bad-step")
				continue
			}
			cl.mu.Lock()
			cl.sup[h] = parseSupported(st[i+1:])
			cl.mu.Unlock()
			ans = append(ans, "ok")
		case st == "s" && sess == nil:
			var err error
			sess, err = gocql.VerifC18gSession(cl, compressor(codec), numConns, 10*time.Minute, addrs...)
			if err != nil {
				sess = nil
				ans = append(ans, "session-"+rxErrClass(err))
				continue
			}
			ans = append(ans, observe())
		case st[0] == 'k' && sess != nil:
			w := strings.Split(st[1:], "/")
			if len(w) != 2 {
				ans = append(ans, "bad-step")
				continue
			}
			h, i := atoi(w[0]), atoi(w[1])
			if _, ok := settle(); !ok || h < 0 || h >= nHosts {
				ans = append(ans, "bad-step")
				continue
			}
			peers := cl.live(h)
			if i < 0 || i >= len(peers) {
				ans = append(ans, "bad-step")
				continue
			}
			peers[i].srv.Close()
			select {
			case <-peers[i].done:
			case <-time.After(watchdog):
				dumpGoroutines("negom: node goroutine did not end")
			}
			ans = append(ans, observe())
		default:
			ans = append(ans, "bad-step")
		}
	}
	return strings.Join(ans, " ")
}

func genNegom(r *vh.Rng) (string, string) {
	codec := compNames[1+r.Intn(2)]
	if r.Intn(8) == 0 {
		codec = "none"
	}
	nc := 1 + r.Intn(2)
	nh := 2 + r.Intn(3)
	advs := []string{"COMPRESSION=" + codec, "COMPRESSION=" + otherCodec(codec), "CQL_VERSION=3.4.5", "COMPRESSION=snappy,lz4", "CQL_VERSION=3.4.5;COMPRESSION="}
	toks := []string{"negom", codec, fmt.Sprint(nc), fmt.Sprint(nh)}
	// the hosts differ: host 0 lists the codec two times in three, some other host does not
	for h := 0; h < nh; h++ {
		a := advs[r.Intn(len(advs))]
		if h == 0 && r.Intn(3) != 0 {
			a = advs[0]
		}
		if h == 1 && r.Intn(3) != 0 {
			a = advs[1+r.Intn(2)]
		}
		toks = append(toks, fmt.Sprintf("a%d=%s", h, a))
	}
	toks = append(toks, "s")
	n := r.Intn(3)
	for i := 0; i < n; i++ {
		h := r.Intn(nh)
		if r.Intn(3) != 0 {
			toks = append(toks, fmt.Sprintf("a%d=%s", h, advs[r.Intn(len(advs))]))
		}
		toks = append(toks, fmt.Sprintf("k%d/%d", r.Intn(nh), r.Intn(nc)))
	}
	return strings.Join(toks, " "), fmt.Sprintf("negom/%s/hosts%d/pool%d/refills%d", codec, nh, nc, n)
}
