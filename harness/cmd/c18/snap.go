// C18, round 8: snappy as a second concrete codec, and frames at the 256 MiB limit.
//
//	snapdec <data>        gocql.SnappyCompressor.Decode on arbitrary bytes; the model answers with the
//	                      snappy block FORMAT's decoder written in Lean (Model/CompressSnappy.lean)
//	snaprt <body> <z>     z = what golang/snappy's Encode produced for body (computed by the generator):
//	                      the real Decode of z; the model decodes z with the format's decoder and demands
//	                      the body
//	big|bigx <comp> <ver> <hflag> <bodyLen> <gen> <enc> <dec>
//	                      a frame with a body of bodyLen bytes (gen = z zeros | p<k> period k | r<seed>
//	                      incompressible) through the real writeHeader/finish, then the real
//	                      readHeader/readFrame; enc/dec = oklen:<n> | err | none: what the real codec
//	                      answered for the one Encode / Decode call, as a LENGTH (the model works on
//	                      lengths only: C18_finish_by_length, C18_read_by_length). Spec-backed
//	                      (C18_delivered: delivered, or the sender gets ErrFrameTooBig — also when the
//	                      compressor expands the body over the limit: C18_expanded_over_limit_refused).
package main

import (
	"bytes"
	"encoding/binary"
	"fmt"
	"runtime/debug"

	"github.com/gocql/gocql"
	"github.com/gocql/gocql/lz4"
	"github.com/golang/snappy"
	plz4 "github.com/pierrec/lz4/v4"
	"verifharness/vh"
)

const maxFrame = 256 * 1024 * 1024

// ---------- snappy ----------

func execSnapdec(data []byte) string {
	out, err := gocql.SnappyCompressor{}.Decode(data)
	if err != nil {
		return "err"
	}
	return "ok:" + canon(out)
}

// snapDeclared: the uvarint prefix of a block, -1 when there is none
func snapDeclared(data []byte) int64 {
	v, n := binary.Uvarint(data)
	if n <= 0 {
		return -1
	}
	if v > 1<<40 {
		return 1 << 40
	}
	return int64(v)
}

// an element stream made by hand: every tag kind and every literal-length encoding, offsets mostly
// inside what has been produced, sometimes 0 / beyond; declared length = produced, or off
func genSnapElems(r *vh.Rng) ([]byte, string) {
	var el []byte
	d := 0
	bad := false
	n := 1 + r.Intn(8)
	for i := 0; i < n; i++ {
		kind := r.Intn(4)
		if d == 0 && r.Intn(10) != 0 {
			kind = 0
		}
		switch kind {
		case 0:
			l := []int{1, 2, 3, 59, 60, 61, 62, 100, 255, 256, 257, 300, 1 + r.Intn(70)}[r.Intn(13)]
			enc := 0 // shortest
			if r.Intn(4) == 0 {
				enc = 1 + r.Intn(4) // a longer encoding than needed: legal
			}
			x := l - 1
			switch {
			case enc == 0 && x < 60:
				el = append(el, byte(x<<2))
			case enc <= 1 && x < 256:
				el = append(el, 60<<2, byte(x))
			case enc <= 2:
				el = append(el, 61<<2, byte(x), byte(x>>8))
			case enc == 3:
				el = append(el, 62<<2, byte(x), byte(x>>8), byte(x>>16))
			default:
				el = append(el, 63<<2, byte(x), byte(x>>8), byte(x>>16), byte(x>>24))
			}
			lit := r.Bytes(l)
			if r.Intn(25) == 0 && l > 1 {
				lit = lit[:r.Intn(l)] // runs past the input unless more elements follow
				bad = true
			}
			el = append(el, lit...)
			d += l
		case 1:
			l := 4 + r.Intn(8)
			off := 1 + r.Intn(2047)
			if d > 0 && r.Intn(8) != 0 {
				off = 1 + r.Intn(minInt(d, 2047))
			}
			if r.Intn(30) == 0 {
				off = 0
			}
			if off == 0 || off > d {
				bad = true
			}
			el = append(el, byte(1|(l-4)<<2|(off>>8)<<5), byte(off))
			d += l
		case 2:
			l := 1 + r.Intn(64)
			off := 1 + r.Intn(65535)
			if d > 0 && r.Intn(8) != 0 {
				off = 1 + r.Intn(minInt(d, 65535))
			}
			if r.Intn(30) == 0 {
				off = 0
			}
			if off == 0 || off > d {
				bad = true
			}
			el = append(el, byte(2|(l-1)<<2), byte(off), byte(off>>8))
			d += l
		default:
			l := 1 + r.Intn(64)
			off := 1 + r.Intn(1<<20)
			if d > 0 && r.Intn(8) != 0 {
				off = 1 + r.Intn(d)
			}
			if r.Intn(30) == 0 {
				off = []int{0, 1 << 31, 1<<32 - 1}[r.Intn(3)]
			}
			if off == 0 || off > d {
				bad = true
			}
			el = append(el, byte(3|(l-1)<<2), byte(off), byte(off>>8), byte(off>>16), byte(off>>24))
			d += l
		}
	}
	decl := d
	cls := "elems-consistent"
	switch r.Intn(6) {
	case 0:
		decl = d + 1 + r.Intn(5)
		cls = "elems-overdeclared"
	case 1:
		if d > 0 {
			decl = d - 1 - r.Intn(minInt(d, 5))
			if decl < 0 {
				decl = 0
			}
			cls = "elems-underdeclared"
		}
	}
	if r.Intn(20) == 0 && len(el) > 0 {
		el = el[:r.Intn(len(el))]
		cls = "elems-cut"
	}
	if bad {
		cls += "-bad"
	}
	var p [10]byte
	k := binary.PutUvarint(p[:], uint64(decl))
	return append(append([]byte{}, p[:k]...), el...), cls
}

func minInt(a, b int) int {
	if a < b {
		return a
	}
	return b
}

func genSnapdec(r *vh.Rng, lens []int) (string, string) {
	var data []byte
	cls := ""
	if r.Intn(3) == 0 {
		data, cls = genSnapElems(r)
	} else {
		bodyArg, _ := genShape(r, 1<<13+1, lens, []int{1024, 2048, 4096, 5000})
		body := expand(bodyArg)
		data = snappy.Encode(nil, body)
		cls = "valid"
		switch r.Intn(9) {
		case 0:
			if len(data) > 0 {
				data[r.Intn(len(data))] ^= byte(1 << uint(r.Intn(8)))
				cls = "bitflip"
			}
		case 1:
			data = data[:r.Intn(len(data)+1)]
			cls = "cut"
		case 2:
			data = r.Bytes(r.Intn(12))
			cls = "garbage"
		case 3:
			// the same elements under another declared length
			_, k := binary.Uvarint(data)
			nd := len(body) + r.Intn(9) - 4
			if nd < 0 {
				nd = 0
			}
			var p [10]byte
			pk := binary.PutUvarint(p[:], uint64(nd))
			data = append(append([]byte{}, p[:pk]...), data[k:]...)
			cls = "prefix-off"
		case 4:
			data = append(data, r.Bytes(1+r.Intn(6))...)
			cls = "trailing"
		case 5:
			// a length prefix that never ends / overflows
			data = append(bytes.Repeat([]byte{0x80 | byte(r.Intn(128))}, 1+r.Intn(11)), data...)
			cls = "prefix-long"
		}
	}
	// the real Decode allocates whatever the prefix declares (up to 4 GiB): keep the harness small
	if snapDeclared(data) > 1<<20 {
		return "", "snapdec/declared-over-1MiB-skipped"
	}
	arg := vh.Hex(data)
	if len(data) == 0 {
		arg = "-"
	}
	return "snapdec " + arg, "snapdec/" + cls
}

func genSnaprt(r *vh.Rng, shapeMax int, lens []int, Ls []int) (string, string) {
	bodyArg, cls := genShape(r, shapeMax, lens, Ls)
	z := snappy.Encode(nil, expand(bodyArg))
	return fmt.Sprintf("snaprt %s %s", bodyArg, vh.Hex(z)), "snaprt/" + cls
}

// ---------- frames at the size limit ----------

type bigKey struct {
	gen string
	n   int
}

// the last big body and what the codecs said about it (the generator and the op run the same calls)
var bigCache struct {
	key  bigKey
	body []byte
}

func bigBody(gen string, n int) []byte {
	k := bigKey{gen, n}
	if bigCache.body != nil && bigCache.key == k {
		return bigCache.body
	}
	bigCache.body = nil
	b := make([]byte, n)
	switch gen[0] {
	case 'p':
		p := atoi(gen[1:])
		if p < 1 {
			p = 1
		}
		for i := 0; i < p && i < n; i++ {
			b[i] = byte(i * 37)
		}
		for i := p; i < n; i += copy(b[i:], b[:i]) { // doubling copy: same bytes as b[i] = byte(i % p * 37)
		}
	case 'r':
		x := uint64(atoi(gen[1:]))*0x9E3779B97F4A7C15 + 0x1234567
		i := 0
		for ; i+8 <= n; i += 8 {
			x ^= x << 13
			x ^= x >> 7
			x ^= x << 17
			binary.LittleEndian.PutUint64(b[i:], x)
		}
		for ; i < n; i++ {
			x ^= x << 13
			x ^= x >> 7
			x ^= x << 17
			b[i] = byte(x)
		}
	}
	bigCache.key, bigCache.body = k, b
	return b
}

func lenRes(b []byte, err error) string {
	if err != nil {
		return "err"
	}
	return fmt.Sprintf("oklen:%d", len(b))
}

// bigRun: the real build, then the real read; also what the codec answered (for the op line)
func bigRun(compName string, ver, hflag byte, gen string, n int) (ans, enc, dec string) {
	defer func() {
		if r := recover(); r != nil {
			ans = fmt.Sprintf("crash:%v", r)
		}
		debug.FreeOSMemory()
	}()
	enc, dec = "none", "none"
	comp := compressor(compName)
	if compName == "lz4" {
		comp = lz4.LZ4Compressor{} // without the harness guard: these prefixes legitimately declare 256 MiB
	}
	body := bigBody(gen, n)
	wire, err := gocql.VerifC18Raw(ver, comp, 0, hflag, 7, 1, body)
	hs := headSize(ver)
	if err != nil {
		if comp != nil && hflag&1 == 1 && hs+n <= maxFrame {
			// the buffer fitted: finish got as far as the compressor; what it answered, for the op line
			enc = lenRes(comp.Encode(body))
		}
		return "build=" + classify(err), enc, dec
	}
	if comp != nil && hflag&1 == 1 {
		enc = fmt.Sprintf("oklen:%d", len(wire)-hs)
	}
	field := binary.BigEndian.Uint32(wire[hs-4:])
	ans = fmt.Sprintf("build=ok:len=%d,field=%d", len(wire), field)
	wire[0] |= 0x80 // as a response
	_, _, _, _, got, err := gocql.VerifC18Read(ver, comp, wire)
	if err != nil {
		return ans + " read=" + classify(err), enc, dec
	}
	if comp != nil && hflag&1 == 1 {
		dec = fmt.Sprintf("oklen:%d", len(got))
	}
	return fmt.Sprintf("%s read=ok:len=%d,same=%v", ans, len(got), bytes.Equal(got, body)), enc, dec
}

func execBig(w []string) string {
	ans, _, _ := bigRun(w[1], byte(atoi(w[2])), byte(atoi(w[3])), w[5], atoi(w[4]))
	bigCache.body = nil
	return ans
}

// genBig makes one op at the limit and its answer (one run of the real code serves both)
func genBig(r *vh.Rng, class string) (op, ans, cls string) {
	ver := byte(3 + r.Intn(3))
	if class != "over" && r.Intn(4) == 0 {
		ver = byte(1 + r.Intn(2))
	}
	hs := headSize(ver)
	comp := compNames[1+r.Intn(2)]
	hflag := byte(1)
	gen := "z"
	n := 0
	switch class {
	case "sender-too-big": // the uncompressed buffer is over the limit: finish refuses, nothing is compressed
		n = maxFrame - hs + 1 + []int{0, 1, 1000}[r.Intn(3)]
		comp = compNames[r.Intn(3)]
		if comp == "none" || r.Bool() {
			hflag = 0
		}
	case "at-limit-plain": // the largest frame there is, uncompressed
		n = maxFrame - hs - []int{0, 1}[r.Intn(2)]
		hflag = 0
		if r.Bool() {
			comp = "none"
		}
	case "at-limit-compressible":
		n = maxFrame - hs - r.Intn(3)
		gen = []string{"z", "p3", "p251"}[r.Intn(3)]
	case "near-limit-incompressible": // the compressed form still fits
		n = maxFrame - hs - 2*1024*1024 - r.Intn(1000)
		gen = fmt.Sprintf("r%d", r.Intn(1000))
	default: // "over": within the codec's expansion of the limit
		n = maxFrame - hs - r.Intn(2000)
		gen = fmt.Sprintf("r%d", r.Intn(1000))
	}
	ans, enc, dec := bigRun(comp, ver, hflag, gen, n)
	// since the repair of KF-C18-2 the bodies the compressor expands over the limit are spec-backed too
	// (C18_delivered: delivered, or the sender gets ErrFrameTooBig); `bigx` is kept for old replays only
	word := "big"
	bigCache.body = nil
	return fmt.Sprintf("%s %s %d %d %d %s %s %s", word, comp, ver, hflag, n, gen, enc, dec), ans, word + "/" + class + "/" + comp
}

// ---------- the LZ4 block format ----------
//
//	lz4blk <block> <n>      pierrec's UncompressBlock(block, make([]byte, n)) on structurally complete
//	                        blocks (valid, mutated, hand-made sequences); the model answers with the LZ4
//	                        block FORMAT's decoder written in Lean (Model/CompressLz4Block.lean)
//	lz4brt <body> <block>   block = what pierrec's CompressBlock produced for body (destination = the
//	                        bound); the model decodes it with the format's decoder and demands the body

func execLz4blk(block []byte, n int) string {
	dst := make([]byte, n)
	m, err := plz4.UncompressBlock(block, dst)
	if err != nil {
		return "err"
	}
	if m < 0 || m > n {
		return fmt.Sprintf("bad-count:%d", m)
	}
	return "ok:" + canon(dst[:m])
}

func lz4Block(body []byte) []byte {
	var cc plz4.Compressor
	buf := make([]byte, plz4.CompressBlockBound(len(body)))
	n, err := cc.CompressBlock(body, buf)
	if err != nil {
		return nil
	}
	return buf[:n]
}

func putLz4Len(b []byte, m int) []byte {
	for m >= 255 {
		b = append(b, 255)
		m -= 255
	}
	return append(b, byte(m))
}

// hand-made sequences: literal lengths and match lengths on both sides of the nibble limit 15 and of
// the extension steps 15+255k, offsets mostly inside the output so far, sometimes 0 / beyond
func genLz4Seqs(r *vh.Rng) ([]byte, int, string) {
	var b []byte
	d := 0
	bad := false
	lens := []int{0, 1, 2, 14, 15, 16, 30, 269, 270, 271, 524, 525}
	n := 1 + r.Intn(6)
	for i := 0; i < n; i++ {
		ll := lens[r.Intn(len(lens))]
		if d == 0 && ll == 0 {
			ll = 1 + r.Intn(20)
		}
		last := i == n-1
		if last && ll == 0 {
			ll = 1 + r.Intn(8) // a last sequence without literals is the one ending the amd64 decoder rejects (lz4EndRules)
		}
		ml := 0
		if !last {
			ml = lens[r.Intn(len(lens))]
		}
		tok := byte(0)
		if ll >= 15 {
			tok = 0xF0
		} else {
			tok = byte(ll << 4)
		}
		if !last {
			if ml >= 15 {
				tok |= 15
			} else {
				tok |= byte(ml)
			}
		}
		b = append(b, tok)
		if ll >= 15 {
			b = putLz4Len(b, ll-15)
		}
		b = append(b, r.Bytes(ll)...)
		d += ll
		if last {
			break
		}
		off := 1 + r.Intn(65535)
		if d > 0 && r.Intn(8) != 0 {
			off = 1 + r.Intn(minInt(d, 65535))
		}
		if r.Intn(25) == 0 {
			off = 0
		}
		if off == 0 || off > d {
			bad = true
		}
		b = append(b, byte(off), byte(off>>8))
		if ml >= 15 {
			b = putLz4Len(b, ml-15)
		}
		d += ml + 4
	}
	cls := "seqs"
	if bad {
		cls = "seqs-bad"
	}
	return b, d, cls
}

func genLz4blk(r *vh.Rng, lens []int) (string, string) {
	var block []byte
	n := 0
	cls := ""
	if r.Intn(3) == 0 {
		block, n, cls = genLz4Seqs(r)
	} else {
		bodyArg, _ := genShape(r, 1<<13+1, lens, []int{1024, 2048, 4096, 5000})
		body := expand(bodyArg)
		block = lz4Block(body)
		n = len(body)
		cls = "valid"
		switch r.Intn(6) {
		case 0:
			if len(block) > 0 {
				block[r.Intn(len(block))] ^= byte(1 << uint(r.Intn(8)))
				cls = "bitflip"
			}
		case 1:
			block = block[:r.Intn(len(block)+1)]
			cls = "cut"
		case 2:
			block = r.Bytes(r.Intn(12))
			cls = "garbage"
		}
	}
	switch r.Intn(8) {
	case 0:
		n += 1 + r.Intn(9)
		cls += "/dst-longer"
	case 1:
		n -= 1 + r.Intn(9)
		if n < 0 {
			n = 0
		}
		cls += "/dst-shorter"
	default:
		cls += "/dst-exact"
	}
	if len(block) > 0 && !lz4Complete(block) {
		return "", "lz4blk/truncated-block-skipped" // KF-C18-1: no deterministic answer
	}
	if lz4ZeroOffset(block) {
		return "", "lz4blk/zero-offset-skipped" // proposed KF-C18-3: the amd64 decoder accepts a match offset of 0
	}
	if !lz4EndRules(block) {
		return "", "lz4blk/last-sequence-without-literals-skipped" // the amd64 decoder rejects exactly these, the format's decoder accepts them
	}
	if n == 0 && len(block) > 0 {
		return "", "lz4blk/empty-destination-skipped" // lz4.go never calls the decoder for a zero prefix
	}
	arg := vh.Hex(block)
	if len(block) == 0 {
		arg = "-"
	}
	return fmt.Sprintf("lz4blk %s %d", arg, n), "lz4blk/" + cls
}

func genLz4brt(r *vh.Rng, shapeMax int, lens []int, Ls []int) (string, string) {
	bodyArg, cls := genShape(r, shapeMax, lens, Ls)
	body := expand(bodyArg)
	block := lz4Block(body)
	if len(body) == 0 || len(block) == 0 {
		return "", "lz4brt/empty-skipped"
	}
	return fmt.Sprintf("lz4brt %s %s", bodyArg, vh.Hex(block)), "lz4brt/" + cls
}

// lz4ZeroOffset tells whether a structurally complete block has a sequence whose match offset is 0
// (a format error that pierrec/lz4 v4.1.8's amd64 decoder does not report: proposed KF-C18-3).
func lz4ZeroOffset(src []byte) bool {
	i := 0
	for i < len(src) {
		tok := src[i]
		i++
		ll := int(tok >> 4)
		if ll == 15 {
			for i < len(src) {
				b := src[i]
				i++
				ll += int(b)
				if b != 255 {
					break
				}
			}
		}
		i += ll
		if i+2 > len(src) {
			return false
		}
		if src[i] == 0 && src[i+1] == 0 {
			return true
		}
		i += 2
		if tok&15 == 15 {
			for i < len(src) {
				b := src[i]
				i++
				if b != 255 {
					break
				}
			}
		}
	}
	return false
}

// lz4EndRules tells whether a structurally complete block ends as pierrec/lz4 v4.1.8's amd64 decoder
// demands: its LAST sequence has at least one literal. Measured (round 9, blocks of 1/14/20 literals + a
// match of 4..30 bytes + k last literals, and literal-only blocks): the assembly decoder answers an error
// exactly when the last sequence's literal length is 0 — a lone token `00`, or a block that ends with a
// token right after a match — and agrees with the format's decoder (and the library's pure-Go decoder,
// which accepts those too) for k = 1..4 last literals and for a last match closer than 12 bytes to the
// end, i.e. it does NOT enforce the encoder-side rules "last 5 bytes are literals" / "last match starts
// 12 bytes before the end". No conforming encoder emits a last sequence without literals.
func lz4EndRules(src []byte) bool {
	if len(src) == 0 {
		return true
	}
	i := 0
	for i < len(src) {
		tok := src[i]
		i++
		ll := int(tok >> 4)
		if ll == 15 {
			for i < len(src) {
				b := src[i]
				i++
				ll += int(b)
				if b != 255 {
					break
				}
			}
		}
		i += ll
		if i >= len(src) {
			return ll >= 1
		}
		i += 2
		if tok&15 == 15 {
			for i < len(src) {
				b := src[i]
				i++
				if b != 255 {
					break
				}
			}
		}
	}
	return false
}

// snapInDomain tells whether a block is `uvarint ‖ elements` with every element in the domain of
// C18_snappy_decodes_any_stream: literals of 1..65536 bytes under their SHORTEST header (tag / 60 / 61),
// 1-byte-offset copies exactly when 4 <= length <= 11 and offset < 2048, 2-byte-offset copies otherwise;
// no 4-byte-offset copy, no 3- or 4-byte literal length. (What golang/snappy's emitLiteral / emitCopy write.)
func snapInDomain(z []byte) bool {
	_, k := binary.Uvarint(z)
	if k <= 0 {
		return false
	}
	s := k
	for s < len(z) {
		tag := z[s]
		switch tag & 3 {
		case 0:
			x := int(tag >> 2)
			hdr := 1
			switch {
			case x < 60:
			case x == 60:
				if s+2 > len(z) {
					return false
				}
				x = int(z[s+1])
				hdr = 2
				if x < 60 {
					return false
				}
			case x == 61:
				if s+3 > len(z) {
					return false
				}
				x = int(z[s+1]) | int(z[s+2])<<8
				hdr = 3
				if x < 256 {
					return false
				}
			default:
				return false
			}
			if x+1 > 65536 || s+hdr+x+1 > len(z) {
				return false
			}
			s += hdr + x + 1
		case 1:
			if s+2 > len(z) {
				return false
			}
			s += 2 // length 4..11 and offset < 2048 by construction of the tag
		case 2:
			if s+3 > len(z) {
				return false
			}
			l := 1 + int(tag>>2)
			off := int(z[s+1]) | int(z[s+2])<<8
			if l >= 4 && l <= 11 && off < 2048 {
				return false // the 1-byte-offset form applies
			}
			s += 3
		default:
			return false
		}
	}
	return true
}
