// Concurrent (speculative) executions of ONE statement: quiescence detection, the answer barrier that completes
// the attempts of all outstanding executions at the same instant, the attempt-accounting observer, and the
// speculative-policy wrapper that tells the harness whether the executor consulted the policy at all.
//
// Verdicts are taken on counts read at QUIESCENCE (no execution goroutine of the executor is alive: decided from the
// goroutine dump, not from a clock); the only clocks shape the schedule (how long answers are held back).
package main

import (
	"bytes"
	"context"
	"errors"
	"fmt"
	"runtime"
	"sort"
	"strings"
	"sync"
	"sync/atomic"
	"time"

	"github.com/gocql/gocql"
	"verifharness/memcluster"
	"verifharness/sess"
	"verifharness/vh"
)

// ---------------------------------------------------------------- quiescence

// every execution (`go q.run(...)`) is started by queryExecutor.executeQuery or queryExecutor.speculate, and these
// start nothing else: a goroutine created by a queryExecutor method is an execution that has not returned yet
var execMarker = []byte("created by github.com/gocql/gocql.(*queryExecutor).")

func liveExecutions() int {
	buf := make([]byte, 1<<20)
	for {
		n := runtime.Stack(buf, true)
		if n < len(buf) {
			return bytes.Count(buf[:n], execMarker)
		}
		buf = make([]byte, 2*len(buf))
	}
}

// waitQuiescent waits until at most `base` execution goroutines are alive. It gives up only after two windows
// (20 s, then 25 s) in which `progress` did not move, with a goroutine dump (the executions are then stuck inside
// the driver).
func waitQuiescent(base int, progress func() int64, what string) bool {
	pause := 50 * time.Microsecond
	for window := 0; window < 2; {
		p0 := progress()
		dl := time.Now().Add([]time.Duration{20 * time.Second, 25 * time.Second}[window])
		for time.Now().Before(dl) {
			if liveExecutions() <= base {
				return true
			}
			time.Sleep(pause)
			if pause < 2*time.Millisecond {
				pause *= 2
			}
		}
		if progress() != p0 {
			window = 0 // still moving: not stuck
		} else {
			window++
		}
	}
	dumpGoroutines("executions of the statement still alive, no progress in 45 s: " + what)
	return false
}

// settle: before a scenario that counts executions, let the executions of earlier scenarios end; what is still
// alive after that (never expected) is the baseline
func settle() int {
	dl := time.Now().Add(5 * time.Second)
	for {
		n := liveExecutions()
		if n == 0 || time.Now().After(dl) {
			return n
		}
		time.Sleep(time.Millisecond)
	}
}

// ---------------------------------------------------------------- observers

// idxRec records the attempt number every attempt was given (ObservedQuery.Attempt / ObservedBatch.Attempt)
type idxRec struct {
	mu  sync.Mutex
	idx []int
}

func (o *idxRec) add(i int) {
	o.mu.Lock()
	o.idx = append(o.idx, i)
	o.mu.Unlock()
}
func (o *idxRec) ObserveQuery(_ context.Context, q gocql.ObservedQuery) { o.add(q.Attempt) }
func (o *idxRec) ObserveBatch(_ context.Context, b gocql.ObservedBatch) { o.add(b.Attempt) }

// ranges renders the multiset of attempt numbers as maximal runs of consecutive distinct values, sorted:
// "0-57" = every number 0..57 exactly once; "0-12,12-57" = 12 was given twice; "none" = no attempt observed
func (o *idxRec) ranges() string {
	o.mu.Lock()
	v := append([]int{}, o.idx...)
	o.mu.Unlock()
	if len(v) == 0 {
		return "none"
	}
	sort.Ints(v)
	var parts []string
	lo := v[0]
	for i := 1; i <= len(v); i++ {
		if i == len(v) || v[i] != v[i-1]+1 {
			parts = append(parts, fmt.Sprintf("%d-%d", lo, v[i-1]))
			if i < len(v) {
				lo = v[i]
			}
		}
		if len(parts) >= 6 { // a witness, not the whole list
			parts = append(parts, "more")
			break
		}
	}
	return strings.Join(parts, ",")
}

// ---------------------------------------------------------------- speculative policy wrapper

// watchSP delegates to the built-in policy and remembers that the executor asked it
type watchSP struct {
	inner     gocql.SpeculativeExecutionPolicy
	consulted int32
}

func (w *watchSP) Attempts() int {
	atomic.StoreInt32(&w.consulted, 1)
	return w.inner.Attempts()
}
func (w *watchSP) Delay() time.Duration {
	atomic.StoreInt32(&w.consulted, 1)
	return w.inner.Delay()
}

// ---------------------------------------------------------------- the answer barrier

// barrier holds the answers of the requests that arrive and lets ALL of them go at the same instant, as soon as as
// many are held as were released the last time (initially: as many as executions are started), or when nothing
// has arrived for `quiet` (some executions have ended meanwhile)
type barrier struct {
	mu       sync.Mutex
	gate     chan struct{}
	held     int
	expected int
	kick     chan struct{}
	stop     chan struct{}
	wg       sync.WaitGroup
	stopped  bool
	rounds   int
	multi    int // rounds that released two or more answers together
}

func newBarrier(expected int) *barrier {
	if expected < 1 {
		expected = 1
	}
	return &barrier{gate: make(chan struct{}), expected: expected, kick: make(chan struct{}, 1), stop: make(chan struct{})}
}

func (b *barrier) arrive(reply func()) {
	b.mu.Lock()
	if b.stopped {
		// the scenario is over (a request written by an execution that was cancelled meanwhile): answer at once
		b.mu.Unlock()
		reply()
		return
	}
	g := b.gate
	b.held++
	b.wg.Add(1) // under the lock: never concurrently with the Wait that follows the stop
	b.mu.Unlock()
	go func() {
		defer b.wg.Done()
		<-g
		reply()
	}()
	select {
	case b.kick <- struct{}{}:
	default:
	}
}

func (b *barrier) release() { b.releaseAnd(false) }

func (b *barrier) releaseAnd(stop bool) {
	b.mu.Lock()
	if stop {
		b.stopped = true
	}
	if b.held == 0 {
		b.mu.Unlock()
		return
	}
	g := b.gate
	b.gate = make(chan struct{})
	b.expected = b.held
	b.rounds++
	if b.held > 1 {
		b.multi++
	}
	b.held = 0
	b.mu.Unlock()
	runtime.Gosched() // let the goroutine of the last arrival reach the gate
	close(g)
}

func (b *barrier) loop(quiet time.Duration, done chan struct{}) {
	defer close(done)
	t := time.NewTimer(quiet)
	defer t.Stop()
	for {
		select {
		case <-b.stop:
			b.releaseAnd(true)
			return
		case <-b.kick:
			b.mu.Lock()
			full := b.held >= b.expected
			b.mu.Unlock()
			if full {
				b.release()
			}
			if !t.Stop() {
				select {
				case <-t.C:
				default:
				}
			}
			t.Reset(quiet)
		case <-t.C:
			b.release()
			t.Reset(quiet)
		}
	}
}

// ---------------------------------------------------------------- speculative executions that retry

type specrScn struct {
	kind   string // q | bl | bu | bc
	idem   string // per-entry idempotence flags (all 1: the statement is speculated)
	policy string
	a      int // speculative attempts
	nhosts int
	mode   string // p: every answer after its own small pause; b: barrier (all outstanding answers at once); i: at once
	obs    bool   // an observer is attached (statement level)
	fates  []string
}

// runSpecRetry: idempotent statement, speculative policy with a tiny delay, retry policy, every host answers every
// request with an error: the executions retry concurrently, reading and bumping the ONE attempt counter of the
// statement. Whatever the interleaving, at quiescence: the total number of requests stays within lim + executions
// (Lean: C13_shared_counter_budget), every request that reached a server has been counted (Attempts() >= requests;
// Attempts() - requests <= executions: attempts that found the context cancelled), and the attempts were numbered
// 0,1,2,… without gap or repetition for the observer (Lean: C13_shared_attempts_numbered). Returns the trace op.
func runSpecRetry(c specrScn, r *vh.Rng) string {
	base := settle()
	var ips []string
	for i := 1; i <= c.nhosts; i++ {
		ips = append(ips, fmt.Sprintf("10.0.0.%d", i))
	}
	cl := memcluster.NewCluster(4, ips...)
	var nreq, nrep int64
	var wg sync.WaitGroup
	var pmu sync.Mutex
	perHost := map[string]int{}
	over := false // the scenario is being wound up (guarded by pmu)
	pauses := make([]time.Duration, 64)
	for i := range pauses {
		pauses[i] = time.Duration(r.Intn(1500)) * time.Microsecond
	}
	e := maxExecutions(true, c.a)
	if e > c.nhosts {
		e = c.nhosts
	}
	var bar *barrier
	barDone := make(chan struct{})
	if c.mode == "b" {
		bar = newBarrier(e)
		go bar.loop(3*time.Millisecond, barDone)
	}
	for ip, n := range cl.Nodes {
		ip := ip
		n.Handle = func(req *memcluster.Request) {
			k := int(atomic.AddInt64(&nreq, 1)) - 1
			pmu.Lock()
			perHost[ip]++
			pmu.Unlock()
			f := c.fates[k%len(c.fates)]
			reply := func() {
				if op, body, ok := fateBody(f); ok {
					req.Conn.Reply(req.Stream, op, body)
				}
				atomic.AddInt64(&nrep, 1)
			}
			switch c.mode {
			case "b":
				bar.arrive(reply)
			case "i":
				reply()
			default:
				pmu.Lock()
				late := over
				if !late {
					wg.Add(1) // under the lock: never concurrently with the Wait at the end of the scenario
				}
				pmu.Unlock()
				if late {
					reply() // a request written by an execution that was cancelled meanwhile
					return
				}
				go func() {
					defer wg.Done()
					time.Sleep(pauses[k%len(pauses)])
					reply()
				}()
			}
		}
	}
	cfg := sess.Config(cl, 4, ips...)
	cfg.Timeout = 20 * time.Second
	pol := &scriptPolicy{hosts: map[string]*gocql.HostInfo{}, order: append([]string{}, ips...)}
	cfg.PoolConfig.HostSelectionPolicy = pol
	s, err := cfg.CreateSession()
	if err != nil {
		return "fatal:" + err.Error()
	}
	defer s.Close()
	if !sess.WaitConns(s, c.nhosts, 20*time.Second) {
		return "fatal:connections not established"
	}
	delay := time.Duration(100+r.Intn(900)) * time.Microsecond
	if c.mode != "p" {
		delay = time.Duration(20+r.Intn(200)) * time.Microsecond
	}
	st := specStmt(s, c.kind, c.idem, &gocql.SimpleSpeculativeExecution{NumAttempts: c.a, TimeoutDelay: delay}, makePolicy(c.policy))
	var rec *idxRec
	if c.obs {
		rec = &idxRec{}
		if st.q != nil {
			st.q = st.q.Observer(rec)
		} else {
			st.b = st.b.Observer(rec)
		}
	}
	obsTok := "off"
	if c.obs {
		obsTok = "on"
	}
	head := fmt.Sprintf("specr %s %s %s %d %d %s %s", c.kind, c.idem, c.policy, c.a, c.nhosts, c.mode, obsTok)
	errc := make(chan error, 1)
	go func() { errc <- st.exec("e") }()
	var resErr error
	select {
	case resErr = <-errc:
	case <-time.After(watchdog):
		dumpGoroutines("speculative statement with retries: no result after " + watchdog.String())
		atomic.AddInt64(&hung, 1)
		return fmt.Sprintf("%s %d 0 hang 0 -", head, atomic.LoadInt64(&nreq))
	}
	// executions that were not cancelled with the result (a batch's are not) finish their retries: wait until no
	// execution goroutine is left
	quiescent := waitQuiescent(base, func() int64 { return atomic.LoadInt64(&nreq) + atomic.LoadInt64(&nrep) }, head)
	if bar != nil {
		close(bar.stop)
		<-barDone
		bar.wg.Wait()
	}
	pmu.Lock()
	over = true
	pmu.Unlock()
	wg.Wait()
	if !quiescent {
		atomic.AddInt64(&hung, 1)
		return fmt.Sprintf("%s %d 0 hang 0 -", head, atomic.LoadInt64(&nreq))
	}
	result := "ok"
	switch {
	case resErr == nil:
	case resErr == gocql.ErrNoConnections:
		result = "noconn"
	case resErr == gocql.ErrUnknownRetryType:
		result = "unknownrt"
	default:
		result = fmt.Sprintf("err%d", errKind(resErr))
	}
	most := 0
	pmu.Lock()
	for _, v := range perHost {
		if v > most {
			most = v
		}
	}
	pmu.Unlock()
	obsInfo := "-"
	if rec != nil {
		obsInfo = rec.ranges()
	}
	if bar != nil {
		atomic.AddInt64(&barRounds, int64(bar.rounds))
		atomic.AddInt64(&barMulti, int64(bar.multi))
	}
	atomic.AddInt64(&concAttempts, int64(st.attempts()))
	return fmt.Sprintf("%s %d %d %s %d %s", head, atomic.LoadInt64(&nreq), most, result, st.attempts(), obsInfo)
}

// statistics of the concurrent runs (evidence only)
var barRounds, barMulti, concAttempts int64

// ---------------------------------------------------------------- speculative executions, event-ordered

// runSpec: every host HOLDS the request it receives. The harness waits (without deciding anything on it) until
// the executions the policy allows have reached servers — for a statement that must NOT be speculated: until a
// speculation window has passed in which the extra executions of a wrongly speculated statement would arrive
// (long if the executor was seen asking the speculative policy, which it has no reason to do for such a statement) —
// then lets exactly one host answer: that answer must be the caller's result; afterwards every other held request is
// answered too, and at quiescence the number of requests must not exceed the executions allowed. Returns the trace op.
func runSpec(kind, idem string, a int, nhosts int, allGone bool, r *vh.Rng) string {
	base := settle()
	var ips []string
	for i := 1; i <= nhosts; i++ {
		ips = append(ips, fmt.Sprintf("10.0.0.%d", i))
	}
	cl := memcluster.NewCluster(4, ips...)
	var mu sync.Mutex
	type held struct {
		ip  string
		req *memcluster.Request
	}
	var arrived []held
	var answered int64
	released := -1 // index in arrived of the request answered first; later arrivals are answered at once
	arrival := make(chan struct{}, 64)
	reply := func(h held) {
		if kind == "q" {
			h.req.Conn.Reply(h.req.Stream, memcluster.OpResult, memcluster.RowsBody(
				[]memcluster.Col{{Name: "h", Type: memcluster.TVarchar}}, [][][]byte{{[]byte(h.ip)}}, nil, false))
		} else {
			h.req.Conn.Reply(h.req.Stream, memcluster.OpResult, memcluster.VoidBody())
		}
		atomic.AddInt64(&answered, 1)
	}
	flush := false
	for ip, n := range cl.Nodes {
		ip := ip
		n.Handle = func(req *memcluster.Request) {
			mu.Lock()
			arrived = append(arrived, held{ip, req})
			now := flush
			mu.Unlock()
			if now {
				reply(held{ip, req})
			}
			select {
			case arrival <- struct{}{}:
			default:
			}
		}
	}
	cfg := sess.Config(cl, 4, ips...)
	cfg.Timeout = 20 * time.Second
	pol := &scriptPolicy{hosts: map[string]*gocql.HostInfo{}, order: append([]string{}, ips...)}
	cfg.PoolConfig.HostSelectionPolicy = pol
	s, err := cfg.CreateSession()
	if err != nil {
		return "fatal:" + err.Error()
	}
	defer s.Close()
	if !sess.WaitConns(s, nhosts, 20*time.Second) {
		return "fatal:connections not established"
	}
	hosts := nhosts
	if allGone {
		for _, n := range cl.Nodes {
			n.DialHook = func(*memcluster.Node, int) error { return errors.New("memcluster: host unreachable") }
		}
		for k := 0; k < 10000 && len(gocql.VerifSessionConns(s)) > 0; k++ {
			for _, sc := range allServerConns(cl) {
				sc.Close()
			}
			time.Sleep(2 * time.Millisecond)
		}
		if len(gocql.VerifSessionConns(s)) > 0 {
			return "fatal:connections did not go away"
		}
		hosts = 0
	}
	delay := time.Duration(1+r.Intn(3)) * time.Millisecond
	if !specIdempotent(idem) {
		delay = time.Duration(50+r.Intn(500)) * time.Microsecond
	}
	sp := &watchSP{inner: &gocql.SimpleSpeculativeExecution{NumAttempts: a, TimeoutDelay: delay}}
	st := specStmt(s, kind, idem, sp, nil)
	errc := make(chan error, 1)
	var got string
	go func() {
		if st.q != nil {
			errc <- st.q.Scan(&got) // the row names the host that answered
		} else {
			errc <- st.exec("e")
		}
	}()
	// on the unchanged code exactly min(want, hosts) requests arrive; when want > hosts the execution that finds
	// the shared iterator exhausted delivers ErrNoConnections by itself
	want := maxExecutions(specIdempotent(idem), a)
	// a statement that must not be speculated: the executions a wrong speculation would add
	rogue := 1 + a
	if rogue > hosts {
		rogue = hosts
	}
	// wait for the executions to reach the servers (or for a result that needs no answer); the wait only shapes
	// the schedule, no verdict depends on it
	var resErr error
	haveRes := false
	grace := time.After(2 * time.Second)
	var window <-chan time.Time
wait:
	for {
		mu.Lock()
		n := len(arrived)
		mu.Unlock()
		if want > 1 && n >= want {
			break
		}
		if want == 1 && n >= 1 {
			if rogue <= 1 || n >= rogue {
				break
			}
			if window == nil {
				if atomic.LoadInt32(&sp.consulted) != 0 {
					window = grace // the executor is speculating: its further executions will arrive
				} else {
					window = time.After(3*delay + time.Millisecond)
				}
			}
		}
		select {
		case resErr = <-errc:
			haveRes = true
			break wait
		case <-arrival:
		case <-grace:
			break wait
		case <-window:
			break wait
		}
	}
	relName := "none"
	if !haveRes {
		mu.Lock()
		var first *held
		if len(arrived) > 0 {
			released = r.Intn(len(arrived))
			first = &arrived[released]
			relName = first.ip
		}
		mu.Unlock()
		if first != nil {
			reply(*first)
		}
		select {
		case resErr = <-errc:
		case <-time.After(watchdog):
			dumpGoroutines("speculative statement: no result after " + watchdog.String())
			mu.Lock()
			n := len(arrived)
			mu.Unlock()
			atomic.AddInt64(&hung, 1)
			return fmt.Sprintf("spec %s %s %d %d %d 0 %s hang", kind, idem, a, hosts, n, relName)
		}
	}
	result := ""
	switch {
	case resErr == nil:
		// the only answer any server had given when the statement returned is the released one
		result = relName
		if st.q != nil {
			result = got
		}
	case resErr == gocql.ErrNoConnections:
		// an execution that found the shared host iterator exhausted completed first
		result = "noconn"
	default:
		return fmt.Sprintf("fatal:%v kind=%s idem=%v a=%d nhosts=%d conns=%d pool=%v", resErr, kind, idem, a, hosts, len(gocql.VerifSessionConns(s)), gocql.VerifPoolState(s))
	}
	// the statement has its result: answer everything else that is or will be held, let the executions end
	mu.Lock()
	flush = true
	rest := append([]held{}, arrived...)
	mu.Unlock()
	for i, h := range rest {
		if i != released {
			reply(h)
		}
	}
	if !waitQuiescent(base, func() int64 {
		mu.Lock()
		defer mu.Unlock()
		return int64(len(arrived)) + atomic.LoadInt64(&answered)
	}, "spec "+kind+" "+idem) {
		atomic.AddInt64(&hung, 1)
		return fmt.Sprintf("spec %s %s %d %d %d 0 %s hang", kind, idem, a, hosts, len(rest), relName)
	}
	mu.Lock()
	n := len(arrived)
	perHost, most := map[string]int{}, 0
	for _, h := range arrived {
		perHost[h.ip]++
		if perHost[h.ip] > most {
			most = perHost[h.ip]
		}
	}
	mu.Unlock()
	return fmt.Sprintf("spec %s %s %d %d %d %d %s %s", kind, idem, a, hosts, n, most, relName, result)
}
