// The statement's metrics, exactly: every attempt's ObservedQuery/ObservedBatch (Attempt, Start, End, per-host
// Metrics) is recorded, and after every execution of the statement object Attempts() and Latency(); the op line is
// that history, the Lean side recomputes every number from the attempts' hosts and latencies alone
// (theorem C13_metrics_exact).
package main

import (
	"context"
	"fmt"
	"strings"
	"sync"
	"sync/atomic"
	"time"

	"github.com/gocql/gocql"
	"verifharness/memcluster"
	"verifharness/sess"
	"verifharness/vh"
)

type metObs struct {
	mu   sync.Mutex
	recs []string
	idx  map[string]int
	kept []interface{ get() (int, int64) } // the Metrics values handed over, read again when the statement is done
}

func (o *metObs) add(attempt int, start, end time.Time, h *gocql.HostInfo, m interface{ get() (int, int64) }) {
	o.mu.Lock()
	defer o.mu.Unlock()
	hi := 0
	if h != nil {
		hi = o.idx[h.ConnectAddress().String()]
	}
	a, t := m.get()
	o.recs = append(o.recs, fmt.Sprintf("%d:%d:%d:%d:%d", hi, end.Sub(start).Nanoseconds(), a, t, attempt))
	o.kept = append(o.kept, m)
}

// final: every record followed by what the Metrics value handed to the observer reads NOW (it is documented as a
// snapshot: later attempts must not show in it)
func (o *metObs) final() []string {
	o.mu.Lock()
	defer o.mu.Unlock()
	out := make([]string, len(o.recs))
	for i, r := range o.recs {
		a, t := o.kept[i].get()
		out[i] = fmt.Sprintf("%s:%d:%d", r, a, t)
	}
	return out
}

type hm struct {
	a *int
	t *int64
}

func (h hm) get() (int, int64) { return *h.a, *h.t }

func (o *metObs) ObserveQuery(_ context.Context, q gocql.ObservedQuery) {
	o.add(q.Attempt, q.Start, q.End, q.Host, hm{&q.Metrics.Attempts, &q.Metrics.TotalLatency})
}
func (o *metObs) ObserveBatch(_ context.Context, b gocql.ObservedBatch) {
	o.add(b.Attempt, b.Start, b.End, b.Host, hm{&b.Metrics.Attempts, &b.Metrics.TotalLatency})
}

// runMet returns the trace op: met <kind> <records h:latency:hostAttempts:hostTotal:attempt:hostAttemptsReadLater:hostTotalReadLater,...> <per execution count:Latency():Attempts(),...>
func runMet(kind string, nhosts, reps int, table string, limit int, r *vh.Rng) string {
	var ips []string
	obs := &metObs{idx: map[string]int{}}
	for i := 1; i <= nhosts; i++ {
		ip := fmt.Sprintf("10.0.0.%d", i)
		ips = append(ips, ip)
		obs.idx[ip] = i
	}
	cl := memcluster.NewCluster(4, ips...)
	var nreq int64
	fates := make([]string, 64)
	pauses := make([]time.Duration, 64)
	for i := range fates {
		fates[i] = []string{"e1", "e2", "e4", "e5", "e7", "e9", "e9", "ok"}[r.Intn(8)]
		pauses[i] = time.Duration(r.Intn(400)) * time.Microsecond
	}
	for _, n := range cl.Nodes {
		n.Handle = func(req *memcluster.Request) {
			k := int(atomic.AddInt64(&nreq, 1)) - 1
			go func() {
				time.Sleep(pauses[k%64])
				if f := fates[k%64]; f == "ok" {
					req.Conn.Reply(req.Stream, memcluster.OpResult, memcluster.VoidBody())
				} else if op, body, ok := fateBody(f); ok {
					req.Conn.Reply(req.Stream, op, body)
				}
			}()
		}
	}
	cfg := sess.Config(cl, 4, ips...)
	cfg.Timeout = 20 * time.Second
	cfg.PoolConfig.HostSelectionPolicy = &scriptPolicy{hosts: map[string]*gocql.HostInfo{}, order: append([]string{}, ips...)}
	s, err := cfg.CreateSession()
	if err != nil {
		return "fatal:" + err.Error()
	}
	defer s.Close()
	if !sess.WaitConns(s, nhosts, 20*time.Second) {
		return "fatal:connections not established"
	}
	st := specStmt(s, kind, "1", nil, &tablePolicy{limit: limit, table: table})
	if st.q != nil {
		st.q = st.q.SetSpeculativeExecutionPolicy(&gocql.NonSpeculativeExecution{}).Observer(obs)
	} else {
		st.b = st.b.SpeculativeExecutionPolicy(&gocql.NonSpeculativeExecution{}).Observer(obs)
	}
	var ends []string
	for i := 0; i < reps; i++ {
		st.exec("e")
		obs.mu.Lock()
		n := len(obs.recs)
		obs.mu.Unlock()
		ends = append(ends, fmt.Sprintf("%d:%d:%d", n, st.latency(), st.attempts()))
	}
	recs := "-"
	if fin := obs.final(); len(fin) > 0 {
		recs = strings.Join(fin, ",")
	}
	return fmt.Sprintf("met %s %s %s", kind, recs, strings.Join(ends, ","))
}

func metOps(r *vh.Rng, out *vh.Out, n int) {
	for i := 0; i < n; i++ {
		kind := []string{"q", "bl", "bu", "bc"}[i%4]
		tbl := make([]byte, 10)
		for j := range tbl {
			tbl[j] = "rrrnnt"[r.Intn(6)]
		}
		op := runMet(kind, 1+r.Intn(4), 1+r.Intn(3), string(tbl), r.Intn(9), r)
		if strings.HasPrefix(op, "fatal") {
			println("c13:", op)
			continue
		}
		out.Case(op, "accept", "met/"+kind, true)
	}
}
