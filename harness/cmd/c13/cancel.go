// Speculative executions with CANCELLATION AT EVERY POINT, stepped one micro-step at a time.
//
// Every execution of the statement (`go q.run`) is stopped at the three places the public API lets a caller stop it:
//   - its first call of the host iterator (a HostSelectionPolicy whose NextHost blocks): not launched yet,
//   - the server (every host holds the request): an attempt is in flight,
//   - SelectedHost.Mark, which the executor calls after every attempt and before it asks the retry policy: the
//     attempt has been counted, the decision has not been taken.
// The harness then takes one step at a time — launch an execution, answer the held request of one (success or a
// scripted error), let one take its retry decision, cancel the caller's context — and records what it observes
// after each: a request arriving at a host, an attempt that reached no server (the observer reports it, no host
// saw it), the execution ending, the caller getting its result. With the result the executor cancels its derived
// context: the requests still in flight are given a grace period to come back with the context's error (that only
// shapes the schedule: which came back is recorded, the others are answered by their hosts and recorded as that).
// The op line is the observed history; the Lean machine (Model/ExecutorConc.lean `stepC`) replays it step by step.
package main

import (
	"context"
	"errors"
	"fmt"
	"runtime"
	"strings"
	"sync"
	"sync/atomic"
	"time"

	"github.com/gocql/gocql"
	"verifharness/memcluster"
	"verifharness/sess"
	"verifharness/vh"
)

func goid() int64 {
	var b [64]byte
	n := runtime.Stack(b[:], false)
	var id int64
	fmt.Sscanf(string(b[:n]), "goroutine %d ", &id)
	return id
}

type cEvent struct {
	kind    string // arrive | host | obs | mark | req
	gid     int64
	host    string
	err     error
	attempt int
	gate    chan struct{}
	req     *memcluster.Request
}

// gatePolicy: hosts in a fixed order from ONE iterator per Pick; the first NextHost call of every goroutine and
// every Mark wait for the harness
type gatePolicy struct {
	*scriptPolicy
	ev   chan cEvent
	free int32
	gmu  sync.Mutex
	seen map[int64]bool
}

// hostSeq: the one sequence of hosts behind a NextHost function
type hostSeq struct {
	p  *gatePolicy
	mu sync.Mutex
	i  int
}

func (q *hostSeq) next() string {
	q.mu.Lock()
	defer q.mu.Unlock()
	if q.i < len(q.p.order) {
		q.i++
		return q.p.order[q.i-1]
	}
	return ""
}

// gateSel: a selected host. The FIRST host an execution is handed is resolved lazily: NextHost returns at once (the
// executor serialises the calls of NextHost with a mutex: an execution waiting inside it would block the others),
// and the execution waits for the harness in its first Info() call — the first thing `do` does with a selected
// host — and takes the next host of the sequence only when it is let go. When the sequence is exhausted by then,
// Info() is nil: the executor asks NextHost again, gets nil and ends as it does with an exhausted iterator.
type gateSel struct {
	p    *gatePolicy
	q    *hostSeq
	lazy bool
	once sync.Once
	h    *gocql.HostInfo
}

func (s *gateSel) Info() *gocql.HostInfo {
	if s.lazy {
		s.once.Do(func() {
			g := goid()
			if atomic.LoadInt32(&s.p.free) == 0 {
				gate := make(chan struct{})
				s.p.ev <- cEvent{kind: "arrive", gid: g, gate: gate}
				<-gate
			}
			ip := s.q.next()
			if atomic.LoadInt32(&s.p.free) == 0 {
				s.p.ev <- cEvent{kind: "host", gid: g, host: ip}
			}
			if ip != "" {
				s.h = s.p.host(ip)
			}
		})
	}
	return s.h
}
func (s *gateSel) Mark(error) {
	if atomic.LoadInt32(&s.p.free) != 0 || s.h == nil {
		return
	}
	g := make(chan struct{})
	s.p.ev <- cEvent{kind: "mark", gid: goid(), gate: g}
	<-g
}

func (p *gatePolicy) Pick(gocql.ExecutableQuery) gocql.NextHost {
	q := &hostSeq{p: p}
	return func() gocql.SelectedHost {
		g := goid()
		p.gmu.Lock()
		first := !p.seen[g]
		p.seen[g] = true
		p.gmu.Unlock()
		if first {
			return &gateSel{p: p, q: q, lazy: true}
		}
		ip := q.next()
		if atomic.LoadInt32(&p.free) == 0 {
			p.ev <- cEvent{kind: "host", gid: g, host: ip}
		}
		if ip == "" {
			return nil
		}
		return &gateSel{p: p, q: q, h: p.host(ip)}
	}
}

// attempt observer: which goroutine made the attempt, its number and its error
type gateObs struct {
	p *gatePolicy
}

func (o *gateObs) rec(attempt int, h *gocql.HostInfo, err error) {
	if atomic.LoadInt32(&o.p.free) != 0 {
		return
	}
	ip := ""
	if h != nil {
		ip = h.ConnectAddress().String()
	}
	o.p.ev <- cEvent{kind: "obs", gid: goid(), attempt: attempt, host: ip, err: err}
}
func (o *gateObs) ObserveQuery(_ context.Context, q gocql.ObservedQuery) { o.rec(q.Attempt, q.Host, q.Err) }
func (o *gateObs) ObserveBatch(_ context.Context, b gocql.ObservedBatch) { o.rec(b.Attempt, b.Host, b.Err) }

type speccScn struct {
	kind   string
	idem   string
	policy string
	a      int
	nhosts int
	ctx    bool     // the statement carries a cancelable context
	pre    bool     // … which is cancelled BEFORE the statement is executed
	dl     bool     // … which ends by its deadline (context.DeadlineExceeded) instead of being cancelled
	early  bool     // long speculative delay, stepping starts as soon as the main execution is there: the result (or the
	// end of the context) finds the executor still waiting for its ticker, the other executions are never started
	plan   []string // steps tried first (skipped when not enabled): L<i> C<i>:<fate> D<i> X
	okPct  int      // how often a held request is answered with success
	xPct   int      // how often (per step) the caller's context is cancelled
	cons   int      // the statement's consistency level
	mask   string   // per offered host: 1 usable, 0 a SelectedHost without HostInfo, c a known host whose pool has no connection ("" = all usable)
}

const (
	cIdle = iota
	cFlight
	cCounted
	cDone
)

type cExec struct {
	gid      int64
	state    int
	gate     chan struct{}
	host     string // host of the attempt in flight / last attempted
	pending  string // host the iterator has just handed to it
	held     *memcluster.Request
	lastRes  string
	answered bool // the harness has answered the request in flight
	reqCons  int  // consistency level of the request in flight
}

// runSpecCancel returns the trace op: specc <kind> <idem> <policy> <a> <nhosts> <events> <requests> <Attempts()> <attempt numbers>
func runSpecCancel(c speccScn, r *vh.Rng) string {
	base := settle()
	var ips, order []string
	hostIdx := map[string]int{}
	mask := c.mask
	if mask == "" {
		mask = strings.Repeat("1", c.nhosts)
	}
	usable := 0
	spare := map[string]bool{}
	for i := 1; i <= c.nhosts; i++ {
		ip := fmt.Sprintf("10.0.0.%d", i)
		order = append(order, ip)
		hostIdx[ip] = i
		switch mask[i-1] {
		case '1':
			ips = append(ips, ip)
			usable++
		case 'c':
			ips = append(ips, ip)
			spare[ip] = true
		}
	}
	// one more host, reachable but never offered: the session can be created whatever the mask
	const anchor = "10.0.0.250"
	ips = append(ips, anchor)
	cl := memcluster.NewCluster(4, ips...)
	for ip := range spare {
		cl.Nodes[ip].DialHook = func(*memcluster.Node, int) error { return errors.New("memcluster: host unreachable") }
	}
	ev := make(chan cEvent, 4096)
	pol := &gatePolicy{scriptPolicy: &scriptPolicy{hosts: map[string]*gocql.HostInfo{}, order: order}, ev: ev, seen: map[int64]bool{}}
	var nreq int64
	for ip, n := range cl.Nodes {
		ip := ip
		n.Handle = func(req *memcluster.Request) {
			atomic.AddInt64(&nreq, 1)
			if atomic.LoadInt32(&pol.free) != 0 {
				req.Conn.Reply(req.Stream, memcluster.OpResult, memcluster.VoidBody())
				return
			}
			ev <- cEvent{kind: "req", host: ip, req: req}
		}
	}
	cfg := sess.Config(cl, 4, ips...)
	cfg.Timeout = 20 * time.Second
	cfg.PoolConfig.HostSelectionPolicy = pol
	cfg.ConvictionPolicy = &lenient{spare: spare}
	s, err := cfg.CreateSession()
	if err != nil {
		return "fatal:" + err.Error()
	}
	defer s.Close()
	if !sess.WaitConns(s, usable+1, 20*time.Second) {
		return "fatal:connections not established"
	}
	for ip := range spare {
		for k := 0; k < 20000 && pol.host(ip) == nil; k++ {
			time.Sleep(100 * time.Microsecond)
		}
		if pol.host(ip) == nil {
			return "fatal:host without connection not known to the policy"
		}
	}
	delay := time.Duration(20+r.Intn(200)) * time.Microsecond
	if c.early {
		delay = 150 * time.Millisecond
	}
	st := specStmt(s, c.kind, c.idem, &gocql.SimpleSpeculativeExecution{NumAttempts: c.a, TimeoutDelay: delay}, makePolicy(c.policy))
	rec := &idxRec{}
	obs := &gateObs{p: pol}
	both := &teeObs{a: rec, b: obs}
	var cancel context.CancelFunc = func() {}
	ctx := context.Background()
	if c.ctx && c.dl {
		d := newDeadlineCtx()
		ctx, cancel = d, d.expire
	} else if c.ctx {
		ctx, cancel = context.WithCancel(ctx)
	}
	defer cancel()
	if st.q != nil {
		st.q = st.q.Consistency(gocql.Consistency(c.cons))
	} else {
		st.b.SetConsistency(gocql.Consistency(c.cons))
	}
	if st.q != nil {
		st.q = st.q.Observer(both)
		if c.ctx {
			st.q = st.q.WithContext(ctx)
		}
	} else {
		st.b = st.b.Observer(both)
		if c.ctx {
			st.b = st.b.WithContext(ctx)
		}
	}
	ctxTok := "-"
	if c.ctx {
		ctxTok = "c"
	}
	if c.ctx && c.pre {
		ctxTok = "p"
	}
	if c.ctx && c.dl {
		ctxTok += "d"
	}
	head := fmt.Sprintf("specc %s %s %s %d %s %s %d", c.kind, c.idem, c.policy, c.a, mask, ctxTok, c.cons)
	var exs []*cExec
	byGid := map[int64]*cExec{}
	var events []string
	haveRes := false
	cancelled := false
	if c.ctx && c.pre {
		// the context is done before the executor starts: it still launches the main execution and returns the
		// context's error without waiting for it; the speculative executions are launched only if the ticker wins
		cancel()
		cancelled = true
		events = append(events, "X")
	}
	errc := make(chan error, 1)
	go func() { errc <- st.exec("e") }()
	var heldAfterEnd []*memcluster.Request
	idx := func(x *cExec) int {
		for i, y := range exs {
			if y == x {
				return i
			}
		}
		return -1
	}
	plan := append([]string{}, c.plan...)
	var spont []string // completions nobody asked for, in the order observed
	flushSpont := func() {
		events = append(events, spont...)
		spont = nil
	}
	// handle one observation
	handle := func(e cEvent) {
		switch e.kind {
		case "arrive":
			x := &cExec{gid: e.gid, state: cIdle, gate: e.gate}
			exs = append(exs, x)
			byGid[e.gid] = x
		case "host":
			if x := byGid[e.gid]; x != nil {
				x.pending = e.host
			}
		case "req":
			var x *cExec
			for _, y := range exs {
				if y.state != cDone && y.state != cFlight && (y.pending == e.host || (y.pending == "" && y.host == e.host)) {
					x = y
				}
			}
			if x == nil {
				// a request nobody is known to have sent: keep it, the count at the end tells
				heldAfterEnd = append(heldAfterEnd, e.req)
				events = append(events, fmt.Sprintf("?s%d", hostIdx[e.host]))
				return
			}
			x.state, x.held, x.host, x.pending, x.answered, x.reqCons = cFlight, e.req, e.host, "", false, e.req.Consistency
		case "obs":
			if x := byGid[e.gid]; x != nil {
				x.lastRes = resTok(e.err)
				if x.lastRes == "ctx" {
					x.lastRes = "l"
				}
				if x.pending != "" { // an attempt on a freshly handed host that reached no server
					x.host, x.pending = x.pending, ""
				}
			}
		case "mark":
			if x := byGid[e.gid]; x != nil {
				x.gate = e.gate
				if x.state == cFlight {
					x.held = nil
					if !x.answered {
						// the request in flight came back although its host has not answered it
						spont = append(spont, fmt.Sprintf("c%d:%s", idx(x), x.lastRes))
					}
				}
				x.state = cCounted
			}
		}
	}
	drain := func() {
		for {
			select {
			case e := <-ev:
				handle(e)
			default:
				return
			}
		}
	}
	live := func() int { return liveExecutions() - base }
	// wait until cond holds (events are handled as they come); false after the patience has run out
	await := func(patience time.Duration, cond func() bool) bool {
		dl := time.Now().Add(patience)
		pause := 20 * time.Microsecond
		for {
			drain()
			if cond() {
				return true
			}
			if time.Now().After(dl) {
				return false
			}
			select {
			case e := <-ev:
				handle(e)
			case <-time.After(pause):
				if pause < time.Millisecond {
					pause *= 2
				}
			}
		}
	}
	resTokOf := func(err error) string {
		switch {
		case err == nil:
			return "ok"
		case err == gocql.ErrNoConnections:
			return "noconn"
		case err == gocql.ErrUnknownRetryType:
			return "unknownrt"
		case err == context.Canceled || err == context.DeadlineExceeded:
			return "l"
		}
		return fmt.Sprintf("e%d", errKind(err))
	}
	takeResult := func(patience time.Duration) bool {
		if haveRes {
			return true
		}
		select {
		case err := <-errc:
			haveRes = true
			events = append(events, "R:"+resTokOf(err))
			return true
		case <-time.After(patience):
			return false
		}
	}
	// the step taken on execution x is over when it has a request in flight, or has made an attempt that reached no
	// server and waits in Mark, or has ended
	stepOutcome := func(x *cExec) string {
		before := live()
		g := x.gate
		x.gate = nil
		x.state = -1
		close(g)
		ended := false
		ok := await(10*time.Second, func() bool {
			if x.state == cFlight || x.state == cCounted {
				return true
			}
			if live() < before {
				drain()
				if x.state == cFlight || x.state == cCounted {
					return true
				}
				ended = true
				return true
			}
			return false
		})
		switch {
		case !ok:
			x.state = cDone
			return "hang"
		case ended:
			x.state = cDone
			return "e"
		case x.state == cFlight:
			return fmt.Sprintf("s%d@%d", hostIdx[x.host], x.reqCons)
		}
		// an attempt that no server saw: let the execution go on; on a context that is done it ends now
		res := x.lastRes
		before = live()
		g = x.gate
		x.gate, x.state = nil, -1
		close(g)
		more := ""
		await(10*time.Second, func() bool {
			if x.state == cFlight || x.state == cCounted {
				more = "+"
				return true
			}
			if live() < before {
				drain()
				if x.state == cFlight || x.state == cCounted {
					more = "+"
				}
				return true
			}
			return false
		})
		if more == "" {
			x.state = cDone
		}
		if res == "l" {
			return "d" + more
		}
		return "a" + res + more
	}
	reply := func(x *cExec, fate string) {
		req := x.held
		if fate == "ok" {
			req.Conn.Reply(req.Stream, memcluster.OpResult, memcluster.VoidBody())
		} else if op, body, ok := fateBody(fate); ok {
			req.Conn.Reply(req.Stream, op, body)
		}
	}
	// answer the held request of x and wait until its attempt has been counted (it waits in Mark)
	complete := func(x *cExec, fate string) {
		x.answered = true
		reply(x, fate)
		if await(10*time.Second, func() bool { return x.state == cCounted }) {
			events = append(events, fmt.Sprintf("C%d:%s", idx(x), x.lastRes))
		} else {
			events = append(events, fmt.Sprintf("C%d:hang", idx(x)))
			x.state = cDone
		}
	}
	fates := []string{"e1", "e2", "e3", "e4", "e5", "e6", "e7", "e9"}
	pickFate := func() string {
		if r.Intn(100) < c.okPct {
			return "ok"
		}
		return fates[r.Intn(len(fates))]
	}
	// after the caller has its result / its context is done: the requests in flight come back with the context's
	// error if the cancellation reaches them; give them a moment (schedule shaping only), then let the hosts answer
	// the others, one at a time
	settleFlight := func() {
		drain()
		flushSpont()
		var fl []*cExec
		for _, y := range exs {
			if y.state == cFlight {
				fl = append(fl, y)
			}
		}
		if len(fl) == 0 {
			return
		}
		await(100*time.Millisecond, func() bool {
			for _, y := range fl {
				if y.state == cFlight {
					return false
				}
			}
			return true
		})
		flushSpont()
		for _, y := range fl {
			if y.state == cFlight {
				fate := pickFate()
				if len(plan) > 0 && strings.HasPrefix(plan[0], fmt.Sprintf("C%d:", idx(y))) {
					fate = strings.SplitN(plan[0], ":", 2)[1]
					plan = plan[1:]
				}
				complete(y, fate)
			}
		}
	}

	// the executions the policy allows arrive at their first NextHost call (main at once, the others on the ticker)
	want := maxExecutions(specIdempotent(c.idem), c.a)
	if cancelled || c.early {
		want = 1
	}
	await(2*time.Second, func() bool { return len(exs) >= want })
	if !c.early {
		await(3*delay+time.Millisecond, func() bool { return len(exs) > maxExecutions(specIdempotent(c.idem), c.a) }) // one more than allowed would show up now
	}
	steps := 0
	for steps < 200 {
		drain()
		flushSpont()
		if !haveRes {
			select {
			case err := <-errc:
				haveRes = true
				events = append(events, "R:"+resTokOf(err))
				settleFlight()
				continue
			default:
			}
		}
		// enabled steps
		var en []string
		for i, x := range exs {
			switch x.state {
			case cIdle:
				en = append(en, fmt.Sprintf("L%d", i))
			case cFlight:
				en = append(en, fmt.Sprintf("C%d", i))
			case cCounted:
				en = append(en, fmt.Sprintf("D%d", i))
			}
		}
		if len(en) == 0 {
			break
		}
		step := ""
		for step == "" && len(plan) > 0 {
			p := plan[0]
			plan = plan[1:]
			if p == "X" {
				if c.ctx && !cancelled {
					step = p
				}
				continue
			}
			for _, e := range en {
				if e == strings.SplitN(p, ":", 2)[0] {
					step = p
				}
			}
		}
		if step == "" {
			if c.ctx && !cancelled && r.Intn(100) < c.xPct {
				step = "X"
			} else {
				step = en[r.Intn(len(en))]
			}
		}
		steps++
		if step == "X" {
			cancelled = true
			cancel()
			events = append(events, "X")
			if !takeResult(10 * time.Second) {
				events = append(events, "R:hang")
				break
			}
			settleFlight()
			continue
		}
		var i int
		fmt.Sscanf(step[1:], "%d", &i)
		x := exs[i]
		switch step[0] {
		case 'L', 'D':
			out := stepOutcome(x)
			events = append(events, fmt.Sprintf("%c%d:%s", step[0], i, out))
			if out == "hang" {
				steps = 1000
				break
			}
			if out == "e" && !haveRes {
				// an execution has returned: the caller gets its result
				if takeResult(10 * time.Second) {
					settleFlight()
				} else {
					events = append(events, "R:hang")
					steps = 1000
				}
			}
		case 'C':
			fate := ""
			if f := strings.SplitN(step, ":", 2); len(f) == 2 {
				fate = f[1]
			} else {
				fate = pickFate()
			}
			complete(x, fate)
		}
	}
	if steps >= 200 {
		events = append(events, "overrun")
	}
	// wind up: nothing is gated or held any more
	atomic.StoreInt32(&pol.free, 1)
	finish := func() {
		drain()
		for _, x := range exs {
			if x.gate != nil {
				close(x.gate)
				x.gate = nil
			}
			if x.state == cFlight && x.held != nil {
				x.held.Conn.Reply(x.held.Stream, memcluster.OpResult, memcluster.VoidBody())
				x.held = nil
			}
		}
		for _, q := range heldAfterEnd {
			q.Conn.Reply(q.Stream, memcluster.OpResult, memcluster.VoidBody())
		}
		heldAfterEnd = nil
	}
	finish()
	flushSpont()
	if !haveRes {
		select {
		case err := <-errc:
			events = append(events, "R:"+resTokOf(err))
		case <-time.After(watchdog):
			events = append(events, "R:hang")
			atomic.AddInt64(&hung, 1)
		}
	}
	quiet := false
	for k := 0; k < 400 && !quiet; k++ {
		finish()
		quiet = liveExecutions() <= base
		if !quiet {
			time.Sleep(time.Duration(50*(k+1)) * time.Microsecond)
		}
	}
	if !quiet && !waitQuiescent(base, func() int64 { finish(); return atomic.LoadInt64(&nreq) }, head) {
		atomic.AddInt64(&hung, 1)
		events = append(events, "stuck")
	}
	events = append(events, fmt.Sprintf("A%d", len(exs)))
	return fmt.Sprintf("%s %s %d %d %s %d", head, strings.Join(events, ","), atomic.LoadInt64(&nreq), st.attempts(), rec.ranges(), st.consistency())
}

// kfBatchLoser (proposed finding KF-C13-2): a logged batch, two executions in flight, the first is answered: the
// caller has its result. The second execution's request is answered with an error afterwards: does the batch reach
// a further host?
func kfBatchLoser() string {
	r := vh.NewRng(1)
	op := runSpecCancel(speccScn{kind: "bl", idem: "1", policy: "simple:2", a: 1, nhosts: 3,
		plan: []string{"L0", "L1", "C0:ok", "D0", "C1:e9", "D1"}, okPct: 100, cons: 1}, r)
	f := strings.Fields(op)
	if len(f) < 9 {
		return op
	}
	after, n := false, 0
	for _, t := range strings.Split(f[8], ",") {
		if strings.HasPrefix(t, "R:") {
			after = true
		} else if after && strings.Contains(t, ":s") {
			n++
		}
	}
	return fmt.Sprintf("sent-after-result=%d", n)
}

// teeObs hands every observation to two observers
type teeObs struct {
	a *idxRec
	b *gateObs
}

func (t *teeObs) ObserveQuery(ctx context.Context, q gocql.ObservedQuery) {
	t.a.ObserveQuery(ctx, q)
	t.b.ObserveQuery(ctx, q)
}
func (t *teeObs) ObserveBatch(ctx context.Context, b gocql.ObservedBatch) {
	t.a.ObserveBatch(ctx, b)
	t.b.ObserveBatch(ctx, b)
}

// speccGrid: the same scenarios for every seed and tier — every statement kind x the points at which the
// cancellation finds the other executions (request in flight, attempt counted and decision pending, not launched),
// by the winner's result or by the caller's context, before and after the result
func speccGrid() []speccScn {
	var out []speccScn
	plans := [][]string{
		{"L0", "L1", "L2", "C0:ok", "D0"},                      // the losers have requests in flight
		{"L0", "L1", "C1:e1", "C0:ok", "D0", "D1", "L2"},        // one loser counted (Retry pending), one not launched
		{"L0", "L1", "C1:e9", "C0:ok", "D0", "L2", "D1"},        // one loser counted (RetryNextHost pending), one not launched
		{"L0", "L1", "L2", "X"},                                 // the caller cancels, three requests in flight
		{"L0", "C0:e1", "D0", "L1", "C1:e9", "X", "L2"},         // the caller cancels: in flight after a Retry, counted, not launched
		{"L0", "L1", "L2", "C0:ok", "D0", "X"},                  // the caller cancels after it has its result
		{"L0", "L1", "L2", "C0:e2", "D0"},                       // Rethrow from the first execution is the result
		{"L0", "C0:e9", "D0", "C0:e9", "D0", "L1", "C1:ok", "D1"}, // the second execution wins after the first has walked on
	}
	for ki, kind := range []string{"q", "bl", "bu", "bc"} {
		for pi, p := range plans {
			c := speccScn{kind: kind, idem: "1", a: 2, nhosts: 5 + (ki+pi)%2, ctx: true, dl: (ki+pi)%3 == 1, plan: p, okPct: 20, xPct: 0, cons: consCodes[(ki+pi)%len(consCodes)]}
			if kind != "q" {
				c.idem = strings.Repeat("1", 1+(ki+pi)%4)
			}
			// kinds: 1 Retry, 2 Rethrow, 4 Rethrow, 5 Retry, 7 Retry, 9 RetryNextHost
			c.policy = []string{"custom:6:urtutrurun", "down:4.6.1.2.10", "custom:4:urtutrurun"}[(ki+pi)%3]
			out = append(out, c)
		}
		// the result / the end of the context comes while the executor still waits for its ticker
		out = append(out, speccScn{kind: kind, idem: "1", a: 2, nhosts: 3, ctx: true, early: true, policy: "simple:2", plan: []string{"L0", "C0:ok", "D0"}, okPct: 20, cons: 1})
		out = append(out, speccScn{kind: kind, idem: "1", a: 2, nhosts: 3, ctx: true, early: true, policy: "simple:2", plan: []string{"L0", "X"}, okPct: 20, cons: 1})
		// the context is done before the statement is executed
		out = append(out, speccScn{kind: kind, idem: "1", a: 2, nhosts: 3, ctx: true, pre: true, policy: "simple:2", okPct: 20, cons: 4})
	}
	return out
}

func genSpecc(r *vh.Rng) speccScn {
	c := speccScn{kind: []string{"q", "bl", "bu", "bc"}[r.Intn(4)], idem: "1", a: 1 + r.Intn(3), nhosts: 1 + r.Intn(6),
		cons: consCodes[r.Intn(len(consCodes))], ctx: r.Intn(3) > 0, pre: r.Intn(8) == 0, dl: r.Intn(3) == 0, early: r.Intn(6) == 0, okPct: []int{0, 15, 30, 60}[r.Intn(4)], xPct: []int{0, 4, 10}[r.Intn(3)]}
	if c.kind != "q" {
		c.idem = strings.Repeat("1", 1+r.Intn(5))
	}
	switch r.Intn(6) {
	case 0:
		c.policy = "none"
	case 1:
		c.policy = fmt.Sprintf("simple:%d", r.Intn(4))
	case 2, 3:
		var lv []string
		for n := 1 + r.Intn(4); n > 0; n-- {
			lv = append(lv, fmt.Sprint(consCodes[r.Intn(len(consCodes))]))
		}
		c.policy = "down:" + strings.Join(lv, ".")
	default:
		tbl := make([]byte, 10)
		for i := range tbl {
			tbl[i] = "rrnnntiu"[r.Intn(8)]
		}
		c.policy = fmt.Sprintf("custom:%d:%s", r.Intn(7), tbl)
	}
	// a third of the runs: some of the offered hosts are not usable (no HostInfo / no connection)
	if r.Intn(3) == 0 {
		m := make([]byte, c.nhosts)
		for i := range m {
			m[i] = "1111100cc"[r.Intn(9)]
		}
		c.mask = string(m)
	}
	// sometimes every execution is launched before anything else happens
	if r.Intn(2) == 0 {
		for i := 0; i <= c.a; i++ {
			c.plan = append(c.plan, fmt.Sprintf("L%d", i))
		}
	}
	return c
}
