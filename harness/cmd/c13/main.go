// Harness for C13 (retries, idempotence, speculative execution): a real Session on the in-memory
// cluster with several scripted hosts, a scripted host-selection policy (public interface) that offers
// the hosts in a chosen order, per-attempt fates scripted by a global attempt counter, built-in and
// table-driven retry policies. Observed: which host received each attempt, in order, and the final
// error class; compared with the Lean model of queryExecutor.do.
package main

import (
	"context"
	"errors"
	"fmt"
	"os"
	"strings"
	"sync"
	"sync/atomic"
	"time"

	"github.com/gocql/gocql"
	"verifharness/memcluster"
	"verifharness/sess"
	"verifharness/vh"
)

type scriptPolicy struct {
	mu    sync.Mutex
	hosts map[string]*gocql.HostInfo
	order []string
}

func (p *scriptPolicy) AddHost(h *gocql.HostInfo) {
	p.mu.Lock()
	p.hosts[h.ConnectAddress().String()] = h
	p.mu.Unlock()
}
func (p *scriptPolicy) RemoveHost(h *gocql.HostInfo)              {}
func (p *scriptPolicy) HostUp(h *gocql.HostInfo)                  { p.AddHost(h) }
func (p *scriptPolicy) HostDown(h *gocql.HostInfo)                {}
func (p *scriptPolicy) SetPartitioner(string)                     {}
func (p *scriptPolicy) KeyspaceChanged(gocql.KeyspaceUpdateEvent) {}
func (p *scriptPolicy) Init(*gocql.Session)                       {}
func (p *scriptPolicy) IsLocal(*gocql.HostInfo) bool              { return true }

type sel struct{ h *gocql.HostInfo }

func (s sel) Info() *gocql.HostInfo { return s.h }
func (s sel) Mark(error)            {}

func (p *scriptPolicy) Pick(gocql.ExecutableQuery) gocql.NextHost {
	i := 0
	return func() gocql.SelectedHost {
		p.mu.Lock()
		defer p.mu.Unlock()
		for i < len(p.order) {
			h := p.hosts[p.order[i]]
			i++
			if h != nil {
				return sel{h}
			}
			// a host the session never learned about cannot be offered; the model line lists it as conn=0
			return sel{nil}
		}
		return nil
	}
}

type tablePolicy struct {
	limit int
	table string // retry type per error kind: r t i n u
}

func (t *tablePolicy) Attempt(q gocql.RetryableQuery) bool { return q.Attempts() <= t.limit }
func (t *tablePolicy) GetRetryType(err error) gocql.RetryType {
	k := errKind(err)
	c := byte('u')
	if k >= 0 && k < len(t.table) {
		c = t.table[k]
	}
	switch c {
	case 'r':
		return gocql.Retry
	case 't':
		return gocql.Rethrow
	case 'i':
		return gocql.Ignore
	case 'n':
		return gocql.RetryNextHost
	}
	return gocql.RetryType(99)
}

// errKind maps an error to the model's error kinds (Model/Executor.lean).
func errKind(err error) int {
	var un *gocql.RequestErrUnavailable
	var wt *gocql.RequestErrWriteTimeout
	var rt *gocql.RequestErrReadTimeout
	switch {
	case errors.As(err, &un):
		if un.Alive > 0 {
			return 1
		}
		return 2
	case errors.As(err, &wt):
		switch wt.WriteType {
		case "SIMPLE", "BATCH", "COUNTER":
			if wt.Received > 0 {
				return 3
			}
			return 4
		case "UNLOGGED_BATCH":
			return 5
		}
		return 6
	case errors.As(err, &rt):
		return 7
	case err == gocql.ErrTimeoutNoResponse:
		return 8
	case err == gocql.ErrConnectionClosed:
		return 10
	}
	return 9
}

func fateBody(k int) (byte, []byte, bool) {
	switch k {
	case 1:
		return memcluster.OpError, memcluster.ErrorBody(memcluster.ErrUnavailable, "unavailable", memcluster.UnavailableExtra(1, 2, 1)), true
	case 2:
		return memcluster.OpError, memcluster.ErrorBody(memcluster.ErrUnavailable, "unavailable", memcluster.UnavailableExtra(1, 2, 0)), true
	case 3:
		return memcluster.OpError, memcluster.ErrorBody(memcluster.ErrWriteTO, "wt", memcluster.WriteTimeoutExtra(1, 1, 2, "SIMPLE")), true
	case 4:
		return memcluster.OpError, memcluster.ErrorBody(memcluster.ErrWriteTO, "wt", memcluster.WriteTimeoutExtra(1, 0, 2, "BATCH")), true
	case 5:
		return memcluster.OpError, memcluster.ErrorBody(memcluster.ErrWriteTO, "wt", memcluster.WriteTimeoutExtra(1, 0, 2, "UNLOGGED_BATCH")), true
	case 6:
		return memcluster.OpError, memcluster.ErrorBody(memcluster.ErrWriteTO, "wt", memcluster.WriteTimeoutExtra(1, 0, 2, "CAS")), true
	case 7:
		return memcluster.OpError, memcluster.ErrorBody(memcluster.ErrReadTO, "rt", memcluster.ReadTimeoutExtra(1, 1, 2, 0)), true
	case 8:
		return 0, nil, false // never answered: driver timeout
	default:
		return memcluster.OpError, memcluster.ErrorBody(memcluster.ErrOverloaded, "overloaded", nil), true
	}
}

type doScenario struct {
	policy   string
	hosts    []string // "id:up:conn" ; ip = 10.0.0.<id>
	outcomes []string // o | l | e<k>
	idem     bool
}

func (d doScenario) op() string {
	h, o := "-", "-"
	if len(d.hosts) > 0 {
		h = strings.Join(d.hosts, ",")
	}
	if len(d.outcomes) > 0 {
		o = strings.Join(d.outcomes, ",")
	}
	return fmt.Sprintf("do %s %s %s", d.policy, h, o)
}

func parseDo(op string) doScenario {
	w := strings.Fields(op)
	d := doScenario{policy: w[1]}
	if w[2] != "-" {
		d.hosts = strings.Split(w[2], ",")
	}
	if w[3] != "-" {
		d.outcomes = strings.Split(w[3], ",")
	}
	return d
}

func runDo(d doScenario) string {
	var ips, order []string
	dead := map[string]bool{}
	for _, h := range d.hosts {
		p := strings.Split(h, ":")
		ip := "10.0.0." + p[0]
		order = append(order, ip)
		if p[1] == "1" && p[2] == "1" {
			ips = append(ips, ip)
		} else {
			dead[ip] = true
		}
	}
	all := append([]string{}, order...)
	if len(all) == 0 {
		all = []string{"10.0.0.250"}
		dead["10.0.0.250"] = true
	}
	cl := memcluster.NewCluster(4, all...)
	var attempt int64
	var amu sync.Mutex
	var seen []string
	var cancel context.CancelFunc
	var sessMu sync.Mutex
	var theSession *gocql.Session
	for ip, n := range cl.Nodes {
		ip, n := ip, n
		if dead[ip] {
			n.DialHook = func(*memcluster.Node, int) error { return errors.New("memcluster: host unreachable") }
		}
		n.Handle = func(req *memcluster.Request) {
			k := int(atomic.AddInt64(&attempt, 1)) - 1
			amu.Lock()
			seen = append(seen, strings.TrimPrefix(ip, "10.0.0."))
			amu.Unlock()
			f := "o"
			if k < len(d.outcomes) {
				f = d.outcomes[k]
			}
			switch {
			case f == "o":
				req.Conn.Reply(req.Stream, memcluster.OpResult, memcluster.VoidBody())
			case f == "l":
				cancel() // the caller's context ends while the attempt is in flight; no answer
			case f == "e10":
				// the connection carrying the attempt is closed locally (e.g. node reported DOWN) while the
				// request is outstanding: the frame HAS been written, exec returns ErrConnectionClosed
				sessMu.Lock()
				ss := theSession
				sessMu.Unlock()
				if ss != nil {
					for _, c := range gocql.VerifSessionConns(ss) {
						if strings.HasPrefix(c.Address(), ip+":") {
							go c.Close()
						}
					}
				}
			default:
				var kind int
				fmt.Sscanf(f, "e%d", &kind)
				if op, body, ok := fateBody(kind); ok {
					req.Conn.Reply(req.Stream, op, body)
				}
			}
		}
	}
	cfg := sess.Config(cl, 4, all...)
	cfg.Timeout = 40 * time.Millisecond
	cfg.ConnectTimeout = 300 * time.Millisecond
	pol := &scriptPolicy{hosts: map[string]*gocql.HostInfo{}, order: order}
	cfg.PoolConfig.HostSelectionPolicy = pol
	s, err := cfg.CreateSession()
	if err != nil {
		if len(ips) == 0 {
			return "attempts=- final=noconn" // no host reachable: the session cannot even be created
		}
		return "fatal:" + err.Error()
	}
	defer s.Close()
	sessMu.Lock()
	theSession = s
	sessMu.Unlock()
	sess.WaitConns(s, len(ips), time.Second)
	var ctx context.Context
	ctx, cancel = context.WithCancel(context.Background())
	defer cancel()
	q := s.Query("PING c13").WithContext(ctx).Consistency(gocql.One)
	if d.idem {
		q = q.Idempotent(true)
	}
	switch {
	case d.policy == "none":
	case strings.HasPrefix(d.policy, "simple:"):
		var n int
		fmt.Sscanf(d.policy, "simple:%d", &n)
		q = q.RetryPolicy(&gocql.SimpleRetryPolicy{NumRetries: n})
	case strings.HasPrefix(d.policy, "exp:"):
		var n int
		fmt.Sscanf(d.policy, "exp:%d", &n)
		q = q.RetryPolicy(&gocql.ExponentialBackoffRetryPolicy{NumRetries: n, Min: time.Millisecond, Max: 2 * time.Millisecond})
	case strings.HasPrefix(d.policy, "down:"):
		var n int
		fmt.Sscanf(d.policy, "down:%d", &n)
		lv := make([]gocql.Consistency, n)
		for i := range lv {
			lv[i] = gocql.One
		}
		q = q.RetryPolicy(&gocql.DowngradingConsistencyRetryPolicy{ConsistencyLevelsToTry: lv})
	case strings.HasPrefix(d.policy, "custom:"):
		p := strings.Split(d.policy, ":")
		var n int
		fmt.Sscan(p[1], &n)
		q = q.RetryPolicy(&tablePolicy{limit: n, table: p[2]})
	}
	err = q.Exec()
	fin := ""
	switch {
	case err == nil:
		fin = "ok"
	case err == context.Canceled || err == context.DeadlineExceeded:
		fin = "logical"
	case err == gocql.ErrNoConnections:
		fin = "noconn"
	case err == gocql.ErrUnknownRetryType:
		fin = "unknownrt"
	default:
		fin = fmt.Sprintf("err%d", errKind(err))
	}
	amu.Lock()
	at := "-"
	if len(seen) > 0 {
		at = strings.Join(seen, ",")
	}
	amu.Unlock()
	return fmt.Sprintf("attempts=%s final=%s", at, fin)
}

// runSpec: speculative execution. Every host answers after `delay`; returns the trace op.
func allServerConns(cl *memcluster.Cluster) []*memcluster.ServerConn {
	var out []*memcluster.ServerConn
	for _, n := range cl.Nodes {
		out = append(out, n.ServerConns()...)
	}
	return out
}

func runSpec(idem bool, a int, nhosts int, allGone bool, r *vh.Rng) string {
	var ips []string
	for i := 1; i <= nhosts; i++ {
		ips = append(ips, fmt.Sprintf("10.0.0.%d", i))
	}
	cl := memcluster.NewCluster(4, ips...)
	var nreq int64
	var fmu sync.Mutex
	first := ""
	var wg sync.WaitGroup
	for ip, n := range cl.Nodes {
		ip := ip
		delay := time.Duration(8+r.Intn(25)) * time.Millisecond
		n.Handle = func(req *memcluster.Request) {
			atomic.AddInt64(&nreq, 1)
			wg.Add(1)
			go func() {
				defer wg.Done()
				time.Sleep(delay)
				fmu.Lock()
				if first == "" {
					first = ip
				}
				fmu.Unlock()
				req.Conn.Reply(req.Stream, memcluster.OpResult, memcluster.RowsBody(
					[]memcluster.Col{{Name: "h", Type: memcluster.TVarchar}}, [][][]byte{{[]byte(ip)}}, nil, false))
			}()
		}
	}
	cfg := sess.Config(cl, 4, ips...)
	cfg.Timeout = 500 * time.Millisecond
	order := append([]string{}, ips...)
	pol := &scriptPolicy{hosts: map[string]*gocql.HostInfo{}, order: order}
	cfg.PoolConfig.HostSelectionPolicy = pol
	s, err := cfg.CreateSession()
	if err != nil {
		return "fatal:" + err.Error()
	}
	defer s.Close()
	sess.WaitConns(s, nhosts, time.Second)
	if allGone {
		for _, n := range cl.Nodes {
			n.DialHook = func(*memcluster.Node, int) error { return errors.New("memcluster: host unreachable") }
		}
		for k := 0; k < 200 && len(gocql.VerifSessionConns(s)) > 0; k++ {
			for _, sc := range allServerConns(cl) {
				sc.Close()
			}
			time.Sleep(2 * time.Millisecond)
		}
		nhosts = 0
	}
	q := s.Query("PING spec").Idempotent(idem).SetSpeculativeExecutionPolicy(
		&gocql.SimpleSpeculativeExecution{NumAttempts: a, TimeoutDelay: 3 * time.Millisecond})
	var got string
	errc := make(chan error, 1)
	go func() { errc <- q.Scan(&got) }()
	err = nil
	select {
	case err = <-errc:
	case <-time.After(5 * time.Second):
		i := 0
		if idem {
			i = 1
		}
		return fmt.Sprintf("spec %d %d %d %d none hang", i, a, nhosts, atomic.LoadInt64(&nreq))
	}
	if err != nil {
		if err != gocql.ErrNoConnections {
			return fmt.Sprintf("fatal:%v idem=%v a=%d nhosts=%d conns=%d pool=%v", err, idem, a, nhosts, len(gocql.VerifSessionConns(s)), gocql.VerifPoolState(s))
		}
		// an execution that found the shared host iterator exhausted completed first
		got = "noconn"
	}
	wg.Wait()
	time.Sleep(10 * time.Millisecond)
	fmu.Lock()
	f := first
	fmu.Unlock()
	i := 0
	if idem {
		i = 1
	}
	if f == "" {
		f = "none"
	}
	return fmt.Sprintf("spec %d %d %d %d %s %s", i, a, nhosts, atomic.LoadInt64(&nreq), f, got)
}

func exec(op string) string {
	w := strings.Fields(op)
	switch w[0] {
	case "do":
		return runDo(parseDo(op))
	case "spec":
		return "accept"
	case "kf-d10":
		// SimpleRetryPolicy{1}, query NOT marked idempotent, first attempt fails: is the write sent again?
		d := doScenario{policy: "simple:1", hosts: []string{"1:1:1", "2:1:1"}, outcomes: []string{"e9", "e9"}, idem: false}
		return strings.Fields(runDo(d))[0]
	}
	return "bad-op"
}

func main() {
	mode, tier, path := vh.Args()
	if mode == "replay" {
		for _, l := range vh.ReadLines(path) {
			fmt.Println(exec(l))
		}
		return
	}
	r := vh.NewRng(vh.EnvSeed())
	out := vh.NewOut(path)
	runs := 800
	if tier == "thorough" {
		runs = 12000
	}
	kinds := []string{"e1", "e2", "e3", "e4", "e5", "e6", "e7", "e8", "e9"}
	scen := make([]doScenario, runs)
	for i := range scen {
		d := doScenario{idem: r.Bool()}
		switch r.Intn(7) {
		case 0:
			d.policy = "none"
		case 1:
			d.policy = fmt.Sprintf("simple:%d", r.Intn(4))
		case 2:
			d.policy = fmt.Sprintf("exp:%d", r.Intn(3))
		case 3, 4:
			d.policy = fmt.Sprintf("down:%d", r.Intn(4))
		default:
			tbl := make([]byte, 10)
			for j := range tbl {
				tbl[j] = "rtinnnru"[r.Intn(8)]
			}
			d.policy = fmt.Sprintf("custom:%d:%s", r.Intn(5), tbl)
		}
		nh := r.Intn(5)
		for j := 1; j <= nh; j++ {
			up := 1
			if r.Intn(4) == 0 {
				up = 0
			}
			d.hosts = append(d.hosts, fmt.Sprintf("%d:%d:%d", j, up, up))
		}
		no := r.Intn(6)
		for j := 0; j < no; j++ {
			switch r.Intn(10) {
			case 0:
				d.outcomes = append(d.outcomes, "o")
			case 1:
				d.outcomes = append(d.outcomes, "l")
			default:
				d.outcomes = append(d.outcomes, kinds[r.Intn(len(kinds))])
			}
		}
		if r.Intn(6) == 0 && !strings.HasPrefix(d.policy, "custom") {
			d.outcomes = append(d.outcomes, "e10")
		}
		scen[i] = d
	}
	results := make([]string, runs)
	var wgr sync.WaitGroup
	sem := make(chan struct{}, 12)
	for i := range scen {
		wgr.Add(1)
		sem <- struct{}{}
		go func(i int) {
			defer wgr.Done()
			defer func() { <-sem }()
			results[i] = runDo(scen[i])
		}(i)
	}
	wgr.Wait()
	for i, d := range scen {
		if strings.HasPrefix(results[i], "fatal") {
			fmt.Fprintln(os.Stderr, "c13:", d.op(), results[i])
		}
		out.Case(d.op(), results[i], "do/"+strings.SplitN(d.policy, ":", 2)[0], len(d.hosts) > 0)
	}
	for i := 0; i < runs/40; i++ {
		idem := r.Intn(3) > 0
		op := runSpec(idem, r.Intn(4), 1+r.Intn(4), r.Intn(5) == 0, r)
		if strings.HasPrefix(op, "fatal") {
			fmt.Fprintln(os.Stderr, "c13:", op)
			os.Exit(3)
		}
		cls := "spec/nonidem"
		if idem {
			cls = "spec/idem"
		}
		out.Case(op, "accept", cls, true)
	}
	out.Close(nil)
}
