// Harness for C13 (retries, idempotence, speculative execution): a real Session on the in-memory
// cluster with several scripted hosts, a scripted host-selection policy (public interface) that offers
// the hosts in a chosen order, per-request fates scripted by a global request counter, built-in and
// table-driven retry policies. The executor is driven through the PUBLIC API with both statement kinds
// (*Query via Session.Query(...).Exec/Iter, *Batch logged/unlogged/counter via Session.ExecuteBatch; batches
// from Session.NewBatch and from the deprecated package-level NewBatch), with and without observers (session
// level, statement level), retry policy at session or statement level, speculative policy, idempotence flag,
// context kinds (none, cancelable, deadline, already done), initial consistency, and re-execution of the same
// statement object. Observed: which host received each request with which consistency, in order;
// Attempts()/Latency()/GetConsistency() of the statement afterwards; what the observer was told per attempt
// (attempt number, host, error class, per-host attempt metrics); the final error class. Compared with the
// Lean model of queryExecutor.do and of the attempt accounting.
//
// All decisions are event-ordered: servers answer (or cancel the context, or close the connection) when the
// request arrives; speculative runs hold every request until the harness releases one. The only clocks are the
// driver's own request timeout for the "never answered" fate (3 s, at most one per scenario) and watchdogs.
//
// Idempotence is a flag per QUERY and per BATCH ENTRY (op field: one 0/1 per entry, every position pattern of 0..5
// entries): a statement that is not idempotent must run as one execution whatever speculative policy it carries —
// in `ex` such statements also get a policy whose delay elapses at once (the trace must still be the plain retry
// loop's), in `spec` the single request is held while a wrongly started speculation would bring more (conc.go).
// Concurrent executions of one statement (conc.go: `spec`, `specr`) are judged on counts read at quiescence; the
// answers of all outstanding executions are released at the same instant (barrier) or at once, so that attempts of
// several executions complete — and are counted — together.
package main

import (
	"context"
	"errors"
	"fmt"
	"os"
	"runtime"
	"strings"
	"sync"
	"sync/atomic"
	"time"

	"github.com/gocql/gocql"
	"verifharness/memcluster"
	"verifharness/sess"
	"verifharness/vh"
)

const watchdog = 30 * time.Second

// hung counts statements that produced no result within the watchdog; once one has, the scenarios not yet started
// are skipped (the violation is already established and every further hang costs a full watchdog period).
var hung int64

// ---------------------------------------------------------------- scripted host selection policy

type scriptPolicy struct {
	mu    sync.Mutex
	hosts map[string]*gocql.HostInfo
	order []string
	ups   map[string]int // HostUp notifications per host (the session's handleNodeConnected has run)
	// mark, if set, is called from SelectedHost.Mark: the executor calls it after every attempt, before it
	// consults the retry policy — the point at which the scripted environment changes are made
	mark func(error)
}

func (p *scriptPolicy) AddHost(h *gocql.HostInfo) {
	p.mu.Lock()
	p.hosts[h.ConnectAddress().String()] = h
	p.mu.Unlock()
}
func (p *scriptPolicy) RemoveHost(h *gocql.HostInfo) {}
func (p *scriptPolicy) HostUp(h *gocql.HostInfo) {
	p.AddHost(h)
	p.mu.Lock()
	if p.ups == nil {
		p.ups = map[string]int{}
	}
	p.ups[h.ConnectAddress().String()]++
	p.mu.Unlock()
}
func (p *scriptPolicy) upCount(ip string) int {
	p.mu.Lock()
	defer p.mu.Unlock()
	return p.ups[ip]
}
func (p *scriptPolicy) host(ip string) *gocql.HostInfo {
	p.mu.Lock()
	defer p.mu.Unlock()
	return p.hosts[ip]
}
func (p *scriptPolicy) HostDown(h *gocql.HostInfo)                {}
func (p *scriptPolicy) SetPartitioner(string)                     {}
func (p *scriptPolicy) KeyspaceChanged(gocql.KeyspaceUpdateEvent) {}
func (p *scriptPolicy) Init(*gocql.Session)                       {}
func (p *scriptPolicy) IsLocal(*gocql.HostInfo) bool              { return true }

// lenient is a ConvictionPolicy (public interface) that does not convict the hosts in `spare`: such a host stays
// "up" although every dial fails, so its pool exists but has no connection.
type lenient struct {
	mu    sync.Mutex
	spare map[string]bool
}

func (l *lenient) AddFailure(_ error, h *gocql.HostInfo) bool {
	l.mu.Lock()
	defer l.mu.Unlock()
	return !l.spare[h.ConnectAddress().String()]
}
func (l *lenient) setSpare(ip string) {
	l.mu.Lock()
	l.spare[ip] = true
	l.mu.Unlock()
}
func (l *lenient) Reset(*gocql.HostInfo) {}

type sel struct {
	h *gocql.HostInfo
	p *scriptPolicy
}

func (s sel) Info() *gocql.HostInfo { return s.h }
func (s sel) Mark(err error) {
	if s.p.mark != nil {
		s.p.mark(err)
	}
}

func (p *scriptPolicy) Pick(gocql.ExecutableQuery) gocql.NextHost {
	i := 0
	return func() gocql.SelectedHost {
		p.mu.Lock()
		defer p.mu.Unlock()
		for i < len(p.order) {
			h := p.hosts[p.order[i]]
			i++
			if h != nil {
				return sel{h, p}
			}
			// not a host of the cluster: a SelectedHost without HostInfo (the model line lists it as up=0)
			return sel{nil, p}
		}
		return nil
	}
}

// ---------------------------------------------------------------- table-driven retry policy

type tablePolicy struct {
	limit int
	table string // retry type per error kind: r t i n u
}

func (t *tablePolicy) Attempt(q gocql.RetryableQuery) bool { return q.Attempts() <= t.limit }
func (t *tablePolicy) GetRetryType(err error) gocql.RetryType {
	k := errKind(err)
	c := byte('u')
	if k >= 0 && k < len(t.table) {
		c = t.table[k]
	}
	switch c {
	case 'r':
		return gocql.Retry
	case 't':
		return gocql.Rethrow
	case 'i':
		return gocql.Ignore
	case 'n':
		return gocql.RetryNextHost
	}
	return gocql.RetryType(99)
}

// errKind maps an error to the model's error kinds (Model/Executor.lean).
func errKind(err error) int {
	var un *gocql.RequestErrUnavailable
	var wt *gocql.RequestErrWriteTimeout
	var rt *gocql.RequestErrReadTimeout
	switch {
	case errors.As(err, &un):
		if un.Alive > 0 {
			return 1
		}
		return 2
	case errors.As(err, &wt):
		switch wt.WriteType {
		case "SIMPLE", "BATCH", "COUNTER":
			if wt.Received > 0 {
				return 3
			}
			return 4
		case "UNLOGGED_BATCH":
			return 5
		}
		return 6
	case errors.As(err, &rt):
		return 7
	case err == gocql.ErrTimeoutNoResponse:
		return 8
	case err == gocql.ErrConnectionClosed:
		return 10
	}
	return 9
}

// errIdent: which request's error this is (the scripted servers end the error message with #<request number>);
// "?" for an error made by the driver itself (no answer, connection closed).
func errIdent(err error) string {
	var re gocql.RequestError
	if errors.As(err, &re) {
		if m := re.Message(); strings.LastIndex(m, "#") >= 0 {
			return m[strings.LastIndex(m, "#")+1:]
		}
	}
	return "?"
}

// resTok renders an attempt's error the way the model renders a Res.
func resTok(err error) string {
	switch {
	case err == nil:
		return "ok"
	case err == context.Canceled || err == context.DeadlineExceeded:
		return "ctx"
	}
	return fmt.Sprintf("e%d", errKind(err))
}

// fateBody: the server's answer for a fate token e<kind>[variant]; variants of one kind differ in fields the
// built-in policies must treat alike.
func fateBody(f string) (byte, []byte, bool) { return fateBodyMsg(f, "") }

// fateBodyMsg: the same with `suffix` appended to the error message (the harness puts the request number there:
// which attempt's error the caller finally holds is then visible in the error itself).
func fateBodyMsg(f string, suffix string) (byte, []byte, bool) {
	op, body, ok := fateBody0(f)
	if !ok || suffix == "" || len(body) < 6 {
		return op, body, ok
	}
	// ERROR body = [int code][string message]…: rewrite the message
	n := int(body[4])<<8 | int(body[5])
	msg := string(body[6:6+n]) + suffix
	out := append([]byte{}, body[:4]...)
	out = append(out, byte(len(msg)>>8), byte(len(msg)))
	out = append(out, msg...)
	return op, append(out, body[6+n:]...), true
}

func fateBody0(f string) (byte, []byte, bool) {
	wt := func(recv int, typ string) (byte, []byte, bool) {
		return memcluster.OpError, memcluster.ErrorBody(memcluster.ErrWriteTO, "wt", memcluster.WriteTimeoutExtra(1, recv, 2, typ)), true
	}
	switch f {
	case "e1":
		return memcluster.OpError, memcluster.ErrorBody(memcluster.ErrUnavailable, "unavailable", memcluster.UnavailableExtra(1, 2, 1)), true
	case "e1b":
		return memcluster.OpError, memcluster.ErrorBody(memcluster.ErrUnavailable, "unavailable", memcluster.UnavailableExtra(4, 3, 2)), true
	case "e2":
		return memcluster.OpError, memcluster.ErrorBody(memcluster.ErrUnavailable, "unavailable", memcluster.UnavailableExtra(1, 2, 0)), true
	case "e3":
		return wt(1, "SIMPLE")
	case "e3b":
		return wt(2, "COUNTER")
	case "e3c":
		return wt(1, "BATCH")
	case "e4":
		return wt(0, "BATCH")
	case "e4b":
		return wt(0, "SIMPLE")
	case "e4c":
		return wt(0, "COUNTER")
	case "e5":
		return wt(0, "UNLOGGED_BATCH")
	case "e5b":
		return wt(1, "UNLOGGED_BATCH")
	case "e6":
		return wt(0, "CAS")
	case "e6b":
		return wt(1, "BATCH_LOG")
	case "e7":
		return memcluster.OpError, memcluster.ErrorBody(memcluster.ErrReadTO, "rt", memcluster.ReadTimeoutExtra(1, 1, 2, 0)), true
	case "e7b":
		return memcluster.OpError, memcluster.ErrorBody(memcluster.ErrReadTO, "rt", memcluster.ReadTimeoutExtra(4, 0, 2, 1)), true
	case "e8":
		return 0, nil, false // never answered: driver timeout
	case "e9b":
		return memcluster.OpError, memcluster.ErrorBody(memcluster.ErrServer, "server error", nil), true
	case "e9c":
		return memcluster.OpError, memcluster.ErrorBody(memcluster.ErrBootstrap, "bootstrapping", nil), true
	default:
		return memcluster.OpError, memcluster.ErrorBody(memcluster.ErrOverloaded, "overloaded", nil), true
	}
}

var fateTokens = []string{"e1", "e1b", "e2", "e3", "e3b", "e3c", "e4", "e4b", "e4c", "e5", "e5b", "e6", "e6b", "e7", "e7b", "e9", "e9b", "e9c"}

// ---------------------------------------------------------------- observers, contexts

type recorder struct {
	mu   sync.Mutex
	recs []string
}

func (r *recorder) add(attempt int, host *gocql.HostInfo, err error, hostAttempts int) {
	h := "?"
	if host != nil {
		h = strings.TrimPrefix(host.ConnectAddress().String(), "10.0.0.")
	}
	r.mu.Lock()
	r.recs = append(r.recs, fmt.Sprintf("%d:%s:%s:%d", attempt, h, resTok(err), hostAttempts))
	r.mu.Unlock()
}
func (r *recorder) ObserveQuery(_ context.Context, o gocql.ObservedQuery) {
	ha := -1
	if o.Metrics != nil {
		ha = o.Metrics.Attempts
	}
	r.add(o.Attempt, o.Host, o.Err, ha)
}
func (r *recorder) ObserveBatch(_ context.Context, o gocql.ObservedBatch) {
	ha := -1
	if o.Metrics != nil {
		ha = o.Metrics.Attempts
	}
	r.add(o.Attempt, o.Host, o.Err, ha)
}
func (r *recorder) take() []string {
	r.mu.Lock()
	defer r.mu.Unlock()
	out := r.recs
	r.recs = nil
	return out
}

// deadlineCtx is a context whose deadline "passes" when the harness says so (event-ordered, no clock).
type deadlineCtx struct {
	done chan struct{}
	mu   sync.Mutex
	err  error
}

func newDeadlineCtx() *deadlineCtx                   { return &deadlineCtx{done: make(chan struct{})} }
func (c *deadlineCtx) Deadline() (time.Time, bool)   { return time.Time{}, false }
func (c *deadlineCtx) Done() <-chan struct{}         { return c.done }
func (c *deadlineCtx) Value(interface{}) interface{} { return nil }
func (c *deadlineCtx) Err() error {
	c.mu.Lock()
	defer c.mu.Unlock()
	return c.err
}
func (c *deadlineCtx) expire() {
	c.mu.Lock()
	if c.err == nil {
		c.err = context.DeadlineExceeded
		close(c.done)
	}
	c.mu.Unlock()
}

// ---------------------------------------------------------------- scenario

type scenario struct {
	kind   string // q | bl | bu | bc
	ctor   string // s: Session.Query / Session.NewBatch ; n: package-level NewBatch (no session defaults)
	policy string
	polAt  string // s: session level ; q: statement level ; o: statement level over a session-level decoy
	obs    string // - | s | q | o
	idem   string // query: 0 | 1 | D | F (session default true: unset / set to false on the statement); batch: one 0/1 per entry in order, "-" = no entries (idempotent iff every entry is)
	sp     string // - | K : SimpleSpeculativeExecution{K, 1h} | Kf : SimpleSpeculativeExecution{K, 1µs} (non-idempotent statements only)
	ctx    string // - | c | d | p | pd
	cons   int    // initial consistency
	api    string // e: Exec / ExecuteBatch ; i: Iter().Close()
	reps   int    // how often the same statement object is executed
	// "id:up:conn", ip = 10.0.0.<id>: 1:1 reachable; 1:0 unreachable and not convicted, 1:c unreachable and convicted (either way:
	// up, pool without a connection — without a control connection a conviction cannot mark the host down); 1:f rejected by
	// the HostFilter yet offered by the policy (up, no pool); 0:0 the policy offers a SelectedHost without HostInfo
	hosts    []string
	outcomes []string // o | l | e<k>[variant] | e10
	// environment script: <when><act><host id>; when = i (before the first execution) or the number of the request
	// after whose attempt (in SelectedHost.Mark, i.e. before the retry decision) it happens; act = d host marked DOWN,
	// u marked UP, r pool removed from the session's pool map, c pool closed, k the node's connections are cut and
	// it refuses new ones (pool left without a connection), a pool re-created and connected (the session marks the
	// host UP). Only on hosts the session knows (id:1:…); a only on id:1:1.
	env []string
}

type envTok struct {
	init  bool
	after int
	act   byte
	host  int
}

func parseEnvTok(t string) (envTok, bool) {
	var e envTok
	i := 0
	if strings.HasPrefix(t, "i") {
		e.init, i = true, 1
	} else {
		for i < len(t) && t[i] >= '0' && t[i] <= '9' {
			i++
		}
		if i == 0 {
			return e, false
		}
		fmt.Sscan(t[:i], &e.after)
	}
	if i >= len(t)-1 {
		return e, false
	}
	e.act = t[i]
	for _, c := range t[i+1:] {
		if c < '0' || c > '9' {
			return e, false
		}
	}
	fmt.Sscan(t[i+1:], &e.host)
	return e, strings.IndexByte("durckax", e.act) >= 0
}

func (d scenario) op() string {
	h, o := "-", "-"
	if len(d.hosts) > 0 {
		h = strings.Join(d.hosts, ",")
	}
	if len(d.outcomes) > 0 {
		o = strings.Join(d.outcomes, ",")
	}
	e := "-"
	if len(d.env) > 0 {
		e = strings.Join(d.env, ",")
	}
	return fmt.Sprintf("ex %s %s %s %s %s %s %s %s %d %s %d %s %s %s", d.kind, d.ctor, d.policy, d.polAt, d.obs, d.idem, d.sp, d.ctx,
		d.cons, d.api, d.reps, h, o, e)
}

func parseEx(op string) (scenario, bool) {
	w := strings.Fields(op)
	if len(w) != 14 && len(w) != 15 {
		return scenario{}, false
	}
	d := scenario{kind: w[1], ctor: w[2], policy: w[3], polAt: w[4], obs: w[5], idem: w[6], sp: w[7], ctx: w[8], api: w[10]}
	fmt.Sscan(w[9], &d.cons)
	fmt.Sscan(w[11], &d.reps)
	if w[12] != "-" {
		d.hosts = strings.Split(w[12], ",")
	}
	if w[13] != "-" {
		d.outcomes = strings.Split(w[13], ",")
	}
	if len(w) == 15 && w[14] != "-" {
		d.env = strings.Split(w[14], ",")
		for _, t := range d.env {
			if _, ok := parseEnvTok(t); !ok {
				return scenario{}, false
			}
		}
	}
	return d, true
}

func makePolicy(p string) gocql.RetryPolicy {
	switch {
	case strings.HasPrefix(p, "simple:"):
		var n int
		fmt.Sscanf(p, "simple:%d", &n)
		return &gocql.SimpleRetryPolicy{NumRetries: n}
	case strings.HasPrefix(p, "exp:"):
		var n int
		fmt.Sscanf(p, "exp:%d", &n)
		return &gocql.ExponentialBackoffRetryPolicy{NumRetries: n, Min: time.Millisecond, Max: 2 * time.Millisecond}
	case strings.HasPrefix(p, "down:"):
		var lv []gocql.Consistency
		if l := strings.TrimPrefix(p, "down:"); l != "-" {
			for _, s := range strings.Split(l, ".") {
				var c int
				fmt.Sscan(s, &c)
				lv = append(lv, gocql.Consistency(c))
			}
		}
		return &gocql.DowngradingConsistencyRetryPolicy{ConsistencyLevelsToTry: lv}
	case strings.HasPrefix(p, "custom:"):
		f := strings.Split(p, ":")
		var n int
		fmt.Sscan(f[1], &n)
		return &tablePolicy{limit: n, table: f[2]}
	}
	return nil
}

// stmt is the statement under test behind the part of the public API that *Query and *Batch share.
type stmt struct {
	q *gocql.Query
	b *gocql.Batch
	s *gocql.Session
}

func (x *stmt) exec(api string) error {
	if x.q != nil {
		if api == "i" {
			return x.q.Iter().Close()
		}
		return x.q.Exec()
	}
	return x.s.ExecuteBatch(x.b)
}
func (x *stmt) attempts() int {
	if x.q != nil {
		return x.q.Attempts()
	}
	return x.b.Attempts()
}
func (x *stmt) latency() int64 {
	if x.q != nil {
		return x.q.Latency()
	}
	return x.b.Latency()
}
func (x *stmt) consistency() int {
	if x.q != nil {
		return int(x.q.GetConsistency())
	}
	return int(x.b.GetConsistency())
}

func batchType(kind string) gocql.BatchType {
	switch kind {
	case "bu":
		return gocql.UnloggedBatch
	case "bc":
		return gocql.CounterBatch
	}
	return gocql.LoggedBatch
}

// buildStmt applies the scenario's statement-level settings through the public setters.
func buildStmt(s *gocql.Session, d scenario, ctx context.Context, stmtObs *recorder) *stmt {
	var sp gocql.SpeculativeExecutionPolicy
	if d.sp != "-" {
		var k int
		fmt.Sscan(strings.TrimSuffix(d.sp, "f"), &k)
		// K: the delay never elapses: an idempotent statement takes the speculative code path (executions as
		// goroutines, results channel) with the main execution only. Kf ("fast", only on statements that are NOT
		// idempotent): the delay elapses at once — the statement must not be speculated, so the executor never gets
		// to start the timer; if it did, K more executions would be under way before the first answer is back
		sp = &gocql.SimpleSpeculativeExecution{NumAttempts: k, TimeoutDelay: time.Hour}
		if strings.HasSuffix(d.sp, "f") {
			sp = &gocql.SimpleSpeculativeExecution{NumAttempts: k, TimeoutDelay: time.Microsecond}
		}
	}
	if d.kind == "q" {
		q := s.Query("PING c13")
		if ctx != nil {
			q = q.WithContext(ctx)
		}
		q = q.Consistency(gocql.Consistency(d.cons))
		if d.idem == "1" {
			q = q.Idempotent(true)
		}
		if d.idem == "F" {
			q = q.Idempotent(false) // over the session's DefaultIdempotence = true
		}
		if d.polAt != "s" {
			q = q.RetryPolicy(makePolicy(d.policy))
		}
		if d.obs == "q" || d.obs == "o" {
			q = q.Observer(stmtObs)
		}
		if sp != nil {
			q = q.SetSpeculativeExecutionPolicy(sp)
		}
		return &stmt{q: q, s: s}
	}
	var b *gocql.Batch
	if d.ctor == "n" {
		b = gocql.NewBatch(batchType(d.kind))
	} else {
		b = s.NewBatch(batchType(d.kind))
	}
	if ctx != nil {
		b = b.WithContext(ctx)
	}
	b.SetConsistency(gocql.Consistency(d.cons))
	for i, f := range entryFlags(d.idem) {
		b.Query(fmt.Sprintf("UPDATE c13 SET v = %d WHERE k = %d", i, i))
		b.Entries[i].Idempotent = f
	}
	if d.polAt != "s" {
		b = b.RetryPolicy(makePolicy(d.policy))
	}
	if d.obs == "q" || d.obs == "o" {
		b = b.Observer(stmtObs)
	}
	if sp != nil {
		b = b.SpeculativeExecutionPolicy(sp)
	}
	return &stmt{b: b, s: s}
}

// wireKind: what kind of statement the server received.
func wireKind(req *memcluster.Request) string {
	switch req.Op {
	case memcluster.OpQuery:
		return "q"
	case memcluster.OpBatch:
		if req.Frame.Flags&0x04 == 0 && len(req.Frame.Body) > 0 {
			switch req.Frame.Body[0] {
			case 0:
				return "bl"
			case 1:
				return "bu"
			case 2:
				return "bc"
			}
		}
		return "b?"
	}
	return fmt.Sprintf("op%d", req.Op)
}

func dumpGoroutines(why string) {
	buf := make([]byte, 1<<20)
	n := runtime.Stack(buf, true)
	fmt.Fprintf(os.Stderr, "c13: %s; goroutines:\n%s\n", why, buf[:n])
}

func runEx(d scenario) (answer string) {
	defer func() {
		if e := recover(); e != nil {
			answer = fmt.Sprintf("crash:%v", e)
		}
	}()
	var ips, order, known []string
	dead, spare, filtered := map[string]bool{}, map[string]bool{}, map[string]bool{}
	spec := map[string]string{} // ip -> "1:1" | "1:0" | "1:c" | "1:f" of the hosts the session knows
	for _, h := range d.hosts {
		p := strings.Split(h, ":")
		ip := "10.0.0." + p[0]
		order = append(order, ip)
		if p[1] != "1" {
			continue // not a host of the cluster: the policy will offer a SelectedHost whose Info() is nil
		}
		if _, dup := spec[ip]; !dup {
			spec[ip] = p[1] + ":" + p[2]
		}
		known = append(known, ip)
		switch p[2] {
		case "1":
			ips = append(ips, ip)
		case "f":
			filtered[ip] = true
		case "0":
			dead[ip], spare[ip] = true, true
		default:
			dead[ip] = true
		}
	}
	// one more host, reachable but never offered by the host selection policy: the session can always be created,
	// also when none (or none reachable) of the scripted hosts exist
	const anchor = "10.0.0.250"
	all := append(append([]string{}, known...), anchor)
	cl := memcluster.NewCluster(4, all...)
	var reqNo int64
	var amu sync.Mutex
	var seen []string
	cancelCtx := func() {}
	var sessMu sync.Mutex
	var theSession *gocql.Session
	closedByHarness := map[*gocql.Conn]bool{} // fate e10: such a connection stays listed in its pool
	slow := false
	for _, f := range d.outcomes {
		if f == "e8" {
			slow = true
		}
	}
	refuse := map[string]*int32{} // per node: dials are refused while non-zero
	for ip, n := range cl.Nodes {
		ip, n := ip, n
		flag := new(int32)
		refuse[ip] = flag
		if dead[ip] {
			*flag = 1
		}
		n.DialHook = func(*memcluster.Node, int) error {
			if atomic.LoadInt32(flag) != 0 {
				return errors.New("memcluster: host unreachable")
			}
			return nil
		}
		n.Handle = func(req *memcluster.Request) {
			k := int(atomic.AddInt64(&reqNo, 1)) - 1
			tok := fmt.Sprintf("%s@%d", strings.TrimPrefix(ip, "10.0.0."), req.Consistency)
			if wk := wireKind(req); wk != d.kind {
				tok += "!" + wk
			}
			amu.Lock()
			seen = append(seen, tok)
			amu.Unlock()
			f := "o"
			if k < len(d.outcomes) {
				f = d.outcomes[k]
			}
			switch {
			case f == "o":
				req.Conn.Reply(req.Stream, memcluster.OpResult, memcluster.VoidBody())
			case f == "l":
				cancelCtx() // the caller's context ends while the request is in flight; no answer
			case f == "e10":
				// the connection carrying the request is closed locally (e.g. node reported DOWN) while the
				// request is outstanding: the frame HAS been written, exec returns ErrConnectionClosed
				sessMu.Lock()
				ss := theSession
				sessMu.Unlock()
				if ss != nil {
					for _, c := range gocql.VerifSessionConns(ss) {
						if strings.HasPrefix(c.Address(), ip+":") {
							sessMu.Lock()
							closedByHarness[c] = true
							sessMu.Unlock()
							go c.Close()
						}
					}
				}
			default:
				if op, body, ok := fateBodyMsg(f, fmt.Sprintf("#%d", k)); ok {
					req.Conn.Reply(req.Stream, op, body)
				}
			}
		}
	}
	cfg := sess.Config(cl, 4, all...)
	cfg.Timeout = 20 * time.Second
	if slow {
		cfg.Timeout = 3 * time.Second // the "never answered" fate ends by the driver's own timer
	}
	cfg.ConnectTimeout = 2 * time.Second
	cfg.DefaultIdempotence = d.kind == "q" && (d.idem == "D" || d.idem == "F")
	pol := &scriptPolicy{hosts: map[string]*gocql.HostInfo{}, order: order}
	cfg.PoolConfig.HostSelectionPolicy = pol
	conv := &lenient{spare: spare}
	cfg.ConvictionPolicy = conv
	if len(filtered) > 0 {
		cfg.HostFilter = gocql.HostFilterFunc(func(h *gocql.HostInfo) bool {
			if filtered[h.ConnectAddress().String()] {
				pol.AddHost(h) // the session gives this host no pool; the scripted policy offers it all the same
				return false
			}
			return true
		})
	}
	sessObs, stmtObs := &recorder{}, &recorder{}
	switch d.polAt {
	case "s":
		cfg.RetryPolicy = makePolicy(d.policy)
	case "o":
		cfg.RetryPolicy = &gocql.SimpleRetryPolicy{NumRetries: 7} // decoy: the statement-level setting must win
	}
	if d.obs == "s" || d.obs == "o" {
		cfg.QueryObserver = sessObs
		cfg.BatchObserver = sessObs
	}
	s, err := cfg.CreateSession()
	if err != nil {
		return "fatal:" + err.Error()
	}
	defer s.Close()
	sessMu.Lock()
	theSession = s
	sessMu.Unlock()
	if !sess.WaitConns(s, len(ips)+1, 20*time.Second) {
		return "fatal:connections not established"
	}
	// the session marks a host UP (again) some time after its first connection: wait for that to have happened
	// for every reachable host before the scenario starts changing host states (event wait, no verdict on it)
	waitFor := func(what string, cond func() bool) bool {
		dl := time.Now().Add(watchdog)
		for !cond() {
			if time.Now().After(dl) {
				dumpGoroutines("environment step not completed after " + watchdog.String() + " (" + what + "): " + d.op())
				return false
			}
			time.Sleep(200 * time.Microsecond)
		}
		return true
	}
	for _, ip := range append(append([]string{}, ips...), anchor) {
		ip := ip
		if !waitFor("host up "+ip, func() bool { return pol.upCount(ip) > 0 }) {
			return "fatal:host never reported up"
		}
	}
	var envToks []envTok
	for _, t := range d.env {
		e, _ := parseEnvTok(t)
		envToks = append(envToks, e)
	}
	envFailed := int32(0)
	applyEnv := func(e envTok) {
		if e.act == 'x' {
			// the statement's context ends here: between the attempt and the retry decision
			if !e.init {
				cancelCtx()
			}
			return
		}
		ip := fmt.Sprintf("10.0.0.%d", e.host)
		sp, ok := spec[ip]
		if !ok {
			return // not a host the session knows: nothing to change
		}
		h := pol.host(ip)
		if h == nil {
			return
		}
		switch e.act {
		case 'd':
			gocql.VerifC13SetHostState(h, false)
		case 'u':
			gocql.VerifC13SetHostState(h, true)
		case 'r':
			gocql.VerifC13RemovePool(s, h)
		case 'c':
			gocql.VerifC13ClosePool(s, h)
		case 'k':
			// the node goes away: no new connections, the existing ones are reset; the conviction policy spares the
			// host, so the session keeps it (UP, pool without a connection)
			conv.setSpare(ip)
			atomic.StoreInt32(refuse[ip], 1)
			for _, sc := range cl.Nodes[ip].ServerConns() {
				sc.Close()
			}
			if !waitFor("connections of "+ip+" gone", func() bool {
				if gocql.VerifC13PoolConns(s, h) <= 0 {
					return true
				}
				sessMu.Lock()
				defer sessMu.Unlock()
				for _, c := range gocql.VerifSessionConns(s) {
					if strings.HasPrefix(c.Address(), ip+":") && !closedByHarness[c] {
						return false
					}
				}
				return true
			}) {
				atomic.StoreInt32(&envFailed, 1)
			}
		case 'a':
			if sp != "1:1" {
				return
			}
			atomic.StoreInt32(refuse[ip], 0)
			n0 := pol.upCount(ip)
			gocql.VerifC13RemovePool(s, h)
			gocql.VerifC13AddPool(s, h) // connects synchronously, then tells the session (asynchronously) that the host is up
			if !waitFor("host up again "+ip, func() bool { return pol.upCount(ip) > n0 }) {
				atomic.StoreInt32(&envFailed, 1)
			}
		}
	}
	for _, e := range envToks {
		if e.init {
			applyEnv(e)
		}
	}
	var marked int64 // requests seen at the previous Mark
	pol.mark = func(error) {
		cur := atomic.LoadInt64(&reqNo)
		if cur == marked {
			return // the attempt did not reach a server (context already done)
		}
		marked = cur
		for _, e := range envToks {
			if !e.init && int64(e.after) == cur-1 {
				applyEnv(e)
			}
		}
	}
	var ctx context.Context
	ctxErrName := "canceled"
	switch d.ctx {
	case "c", "p":
		c, cf := context.WithCancel(context.Background())
		defer cf()
		ctx, cancelCtx = c, cf
	case "d", "pd":
		c := newDeadlineCtx()
		ctx, cancelCtx = c, c.expire
		ctxErrName = "deadline"
	}
	if d.ctx == "p" || d.ctx == "pd" {
		cancelCtx()
	}
	st := buildStmt(s, d, ctx, stmtObs)
	effObs, decoyObs := (*recorder)(nil), (*recorder)(nil)
	switch {
	case d.obs == "q":
		effObs = stmtObs
	case d.obs == "o":
		effObs, decoyObs = stmtObs, sessObs
	case d.obs == "s" && d.ctor == "s":
		effObs = sessObs
	case d.obs == "s":
		decoyObs = sessObs // package-level NewBatch copies no session defaults
	}
	var parts []string
	anySent := false
	for rep := 0; rep < d.reps; rep++ {
		errc := make(chan error, 1)
		go func() {
			defer func() {
				if e := recover(); e != nil {
					errc <- fmt.Errorf("crash:%v", e)
				}
			}()
			errc <- st.exec(d.api)
		}()
		select {
		case err = <-errc:
		case <-time.After(watchdog):
			if atomic.AddInt64(&hung, 1) == 1 {
				dumpGoroutines("no result after " + watchdog.String() + ": " + d.op())
			}
			return strings.Join(append(parts, "hang"), " | ")
		}
		fin := ""
		switch {
		case err == nil:
			fin = "ok"
		case err == context.Canceled:
			fin = "canceled"
		case err == context.DeadlineExceeded:
			fin = "deadline"
		case err == gocql.ErrNoConnections:
			fin = "noconn"
		case err == gocql.ErrUnknownRetryType:
			fin = "unknownrt"
		case strings.HasPrefix(err.Error(), "crash:"):
			return err.Error()
		default:
			fin = fmt.Sprintf("err%d#%s", errKind(err), errIdent(err))
		}
		if (fin == "canceled" || fin == "deadline") && fin != ctxErrName {
			fin += "!" // not the error of the statement's own context
		}
		amu.Lock()
		sent := "-"
		if len(seen) > 0 {
			sent = strings.Join(seen, ",")
			anySent = true
		}
		seen = nil
		amu.Unlock()
		n := st.attempts()
		lat := "+"
		switch l := st.latency(); {
		case n == 0 && l == 0:
			lat = "0"
		case n == 0:
			lat = "nonzero-without-attempts"
		case !anySent:
			lat = "?" // only attempts that never left the client: their duration may round to zero
		case l <= 0:
			lat = "0"
		}
		obs := "off"
		if effObs != nil {
			obs = "-"
			if r := effObs.take(); len(r) > 0 {
				obs = strings.Join(r, ",")
			}
		}
		if decoyObs != nil {
			if r := decoyObs.take(); len(r) > 0 {
				obs += "!decoy:" + strings.Join(r, ",")
			}
		}
		parts = append(parts, fmt.Sprintf("sent=%s n=%d lat=%s cons=%d obs=%s final=%s", sent, n, lat, st.consistency(), obs, fin))
	}
	if atomic.LoadInt32(&envFailed) != 0 {
		return "fatal:environment step not completed"
	}
	return strings.Join(parts, " | ")
}

// ---------------------------------------------------------------- speculative execution, event-ordered

func allServerConns(cl *memcluster.Cluster) []*memcluster.ServerConn {
	var out []*memcluster.ServerConn
	for _, n := range cl.Nodes {
		out = append(out, n.ServerConns()...)
	}
	return out
}

func maxExecutions(idem bool, a int) int {
	if !idem || a == 0 {
		return 1
	}
	return 1 + a
}

// specStmt builds an idempotent-or-not statement of the given kind with a speculative policy and retry policy.
func specStmt(s *gocql.Session, kind string, idem string, sp gocql.SpeculativeExecutionPolicy, rp gocql.RetryPolicy) *stmt {
	if kind == "q" {
		return &stmt{s: s, q: s.Query("PING spec").Idempotent(idem == "1").SetSpeculativeExecutionPolicy(sp).RetryPolicy(rp)}
	}
	b := s.NewBatch(batchType(kind))
	for i, f := range entryFlags(idem) {
		b.Query(fmt.Sprintf("UPDATE spec SET v = %d WHERE k = %d", i, i))
		b.Entries[i].Idempotent = f
	}
	return &stmt{s: s, b: b.SpeculativeExecutionPolicy(sp).RetryPolicy(rp)}
}

// entryFlags: the idempotence flag of every entry of a batch, from the scenario's pattern (one 0/1 per entry, in
// order; "-" = a batch without entries)
func entryFlags(idem string) []bool {
	var out []bool
	for _, c := range idem {
		if c == '0' || c == '1' {
			out = append(out, c == '1')
		}
		// a query in a session whose ClusterConfig.DefaultIdempotence is true: D = no statement-level setting,
		// F = Idempotent(false) on the statement
		if c == 'D' || c == 'F' {
			out = append(out, c == 'D')
		}
	}
	return out
}

// specIdempotent: what the documentation says about the statement (a query: its flag; a batch: every entry is).
// Used to choose scenarios and to shape schedules only; the verdicts come from the Lean model, which computes the
// same from the pattern in the op line.
func specIdempotent(idem string) bool {
	for _, f := range entryFlags(idem) {
		if !f {
			return false
		}
	}
	return true
}

// ---------------------------------------------------------------- ops

func exec(op string) string {
	w := strings.Fields(op)
	if len(w) == 0 {
		return "bad-op"
	}
	switch w[0] {
	case "ex":
		if d, ok := parseEx(op); ok {
			return runEx(d)
		}
	case "spec", "specr", "specc", "met":
		return "accept"
	case "rt":
		if len(w) == 3 {
			return runRT(w)
		}
	case "att":
		if len(w) == 4 {
			return runAtt(w)
		}
	case "kf-down-unlogged":
		// UNLOGGED_BATCH write timeout that no replica acknowledged: what does the policy answer, what does its doc say
		return "code=" + rtName((&gocql.DowngradingConsistencyRetryPolicy{}).GetRetryType(errOf("wt:UNLOGGED_BATCH:0:1"))) + " documented=rethrow"
	case "kf-batch-loser":
		return kfBatchLoser()
	case "kf-d10":
		// SimpleRetryPolicy{1}, query NOT marked idempotent, first attempt fails: is the write sent again?
		d := scenario{kind: "q", ctor: "s", policy: "simple:1", polAt: "q", obs: "-", idem: "0", sp: "-", ctx: "-", cons: 1, api: "e", reps: 1,
			hosts: []string{"1:1:1", "2:1:1"}, outcomes: []string{"e9", "e9"}}
		var hs []string
		for _, t := range strings.Split(strings.TrimPrefix(strings.Fields(runEx(d))[0], "sent="), ",") {
			hs = append(hs, strings.SplitN(t, "@", 2)[0])
		}
		return "attempts=" + strings.Join(hs, ",")
	}
	return "bad-op"
}

var consCodes = []int{0, 1, 2, 3, 4, 5, 6, 7, 10}

func genPolicy(r *vh.Rng) string {
	switch r.Intn(8) {
	case 0:
		return "none"
	case 1, 2:
		return fmt.Sprintf("simple:%d", r.Intn(4))
	case 3:
		return fmt.Sprintf("exp:%d", r.Intn(3))
	case 4, 5:
		n := r.Intn(4)
		if n == 0 {
			return "down:-"
		}
		lv := make([]string, n)
		for i := range lv {
			lv[i] = fmt.Sprint(consCodes[r.Intn(len(consCodes))])
		}
		return "down:" + strings.Join(lv, ".")
	}
	tbl := make([]byte, 11)
	for j := range tbl {
		tbl[j] = "rtinnnru"[r.Intn(8)]
	}
	return fmt.Sprintf("custom:%d:%s", r.Intn(5), tbl)
}

// genPattern: the idempotence flags of a batch's entries: 0..5 entries; all idempotent, none, or any mixture (the
// non-idempotent entries anywhere: first, middle, last)
func genPattern(r *vh.Rng) string {
	n := 1 + r.Intn(5)
	switch r.Intn(8) {
	case 0:
		return strings.Repeat("0", n)
	case 1, 2, 3:
		return strings.Repeat("1", n)
	case 4:
		if r.Intn(4) == 0 {
			return "-" // a batch without entries (vacuously idempotent)
		}
	}
	b := make([]byte, n)
	for i := range b {
		b[i] = "0111"[r.Intn(4)]
	}
	return string(b)
}

// allPatterns: every pattern of 1..5 entries, in a fixed order, preceded by the empty batch
func allPatterns() []string {
	out := []string{"-"}
	for n := 1; n <= 5; n++ {
		for v := 0; v < 1<<uint(n); v++ {
			b := make([]byte, n)
			for i := range b {
				b[i] = '0' + byte(v>>uint(i)&1)
			}
			out = append(out, string(b))
		}
	}
	return out
}

// idemGrid: every batch whose entries are not all idempotent (every position pattern of 1..5 entries) and the
// non-idempotent query, each with a speculative policy whose delay elapses at once, a retry policy and failing
// hosts — the same scenarios for every seed and tier. Such a statement runs as ONE execution: the requests, counters
// and observer records are exactly those of the plain retry loop.
func idemGrid() []scenario {
	var out []scenario
	pols := []struct {
		policy string
		fates  []string
	}{
		{"none", []string{"e9"}},
		{"simple:2", []string{"e9", "e2", "o"}},
		{"down:2.1", []string{"e7", "e9", "e1"}},
		{"custom:3:rrrrrrrrrrr", []string{"e9", "e4", "e7", "o"}},
		{"exp:1", []string{"e9b", "e9"}},
	}
	kinds := []string{"bl", "bu", "bc"}
	n := 0
	add := func(kind, idem string) {
		x := pols[n%len(pols)]
		d := scenario{kind: kind, ctor: "s", policy: x.policy, polAt: []string{"q", "s"}[n/2%2], obs: []string{"-", "q", "s"}[n%3],
			idem: idem, sp: fmt.Sprintf("%df", 1+n%3), ctx: "-", cons: 4, api: "e", reps: 1 + n/3%2, outcomes: x.fates,
			hosts: []string{"1:1:1", "2:1:1", "3:1:1", "4:1:1", "5:1:1"}}
		out = append(out, d)
		n++
	}
	for _, p := range allPatterns() {
		if !specIdempotent(p) {
			add(kinds[n%3], p)
		}
	}
	add("q", "0")
	add("q", "F") // Idempotent(false) over a session default of true
	add("q", "0")
	add("q", "F") // Idempotent(false) over a session default of true
	add("q", "0")
	add("q", "F") // Idempotent(false) over a session default of true
	return out
}

func genScenario(r *vh.Rng) scenario {
	d := scenario{kind: []string{"q", "q", "bl", "bu", "bc"}[r.Intn(5)], ctor: "s", api: "e", reps: 1}
	if d.kind == "q" {
		if r.Intn(3) == 0 {
			d.api = "i"
		}
		d.idem = []string{"0", "1", "0", "1", "D", "F"}[r.Intn(6)]
	} else {
		if r.Intn(6) == 0 {
			d.ctor = "n"
		}
		d.idem = genPattern(r)
	}
	d.policy = genPolicy(r)
	d.polAt = []string{"s", "s", "q", "q", "q", "o"}[r.Intn(6)]
	d.obs = []string{"-", "-", "-", "s", "q", "q", "o"}[r.Intn(7)]
	d.sp = []string{"-", "-", "-", "0", "1", "2"}[r.Intn(6)]
	if !specIdempotent(d.idem) {
		// not to be speculated whatever the policy says: also with a delay that elapses at once
		d.sp = []string{"-", "-", "0", "1", "2", "1f", "2f", "3f", "1f", "0f"}[r.Intn(10)]
	}
	d.ctx = []string{"-", "-", "c", "c", "c", "d", "d", "p", "pd"}[r.Intn(9)]
	d.cons = consCodes[r.Intn(len(consCodes))]
	specPath := specIdempotent(d.idem) && (d.sp == "1" || d.sp == "2")
	if specPath && (d.ctx == "p" || d.ctx == "pd") {
		// with the context done before the start the executor returns ctx.Err() without waiting for its
		// execution goroutine: what that goroutine gets to do is a race, so it is not predicted here
		d.ctx = "c"
	}
	nh := r.Intn(7)
	for j := 1; j <= nh; j++ {
		st := "1:1"
		switch r.Intn(16) {
		case 0:
			st = "0:0"
		case 1:
			st = "1:c"
		case 2:
			st = "1:0"
		case 3:
			st = "1:f"
		}
		d.hosts = append(d.hosts, fmt.Sprintf("%d:%s", j, st))
	}
	no := r.Intn(9)
	stubborn := r.Intn(3) == 0 // one failure kind throughout: runs into the policy's budget
	one := fateTokens[r.Intn(len(fateTokens))]
	for j := 0; j < no; j++ {
		switch x := r.Intn(12); {
		case x == 0 && !stubborn:
			d.outcomes = append(d.outcomes, "o")
		case x == 1 && (d.ctx == "c" || d.ctx == "d") && !specPath:
			d.outcomes = append(d.outcomes, "l")
		case stubborn:
			d.outcomes = append(d.outcomes, one)
		default:
			d.outcomes = append(d.outcomes, fateTokens[r.Intn(len(fateTokens))])
		}
	}
	custom := strings.HasPrefix(d.policy, "custom")
	switch r.Intn(24) {
	case 0:
		if no > 0 { // one request is never answered (driver timeout)
			d.outcomes[r.Intn(no)] = "e8"
		}
	case 1, 2, 3:
		if !custom {
			// the connection dies under the last scripted request; what the pool does next is not scripted,
			// so nothing may retry on that host and the statement is not executed again
			d.outcomes = append(d.outcomes, "e10")
		}
	}
	if n := len(d.outcomes); (n == 0 || d.outcomes[n-1] != "e10") && r.Intn(4) == 0 {
		d.reps = 2
	}
	return d
}

// genEnv adds an environment script to a generated scenario: hosts change state / lose or regain their pool between
// one attempt and the executor's next look at them. With `focus` the scenario is bent towards the situations in
// which that matters most: few hosts, a policy that answers Retry (same host) for the failures scripted.
func genEnv(r *vh.Rng, d *scenario, focus bool) {
	if focus {
		nh := 1 + r.Intn(3)
		d.hosts = nil
		for j := 1; j <= nh; j++ {
			st := "1:1"
			if r.Intn(12) == 0 {
				st = []string{"1:0", "1:c", "1:f", "0:0"}[r.Intn(4)]
			}
			d.hosts = append(d.hosts, fmt.Sprintf("%d:%s", j, st))
		}
		retryFates := []string{"e1", "e1b", "e5", "e5b", "e7", "e7b"}
		switch r.Intn(3) {
		case 0:
			lv := make([]string, 1+r.Intn(4))
			for i := range lv {
				lv[i] = fmt.Sprint(consCodes[r.Intn(len(consCodes))])
			}
			d.policy = "down:" + strings.Join(lv, ".")
		case 1:
			tbl := make([]byte, 11)
			for j := range tbl {
				tbl[j] = "rrrrnnti"[r.Intn(8)]
			}
			d.policy = fmt.Sprintf("custom:%d:%s", 1+r.Intn(5), tbl)
			retryFates = fateTokens
		}
		e10 := len(d.outcomes) > 0 && d.outcomes[len(d.outcomes)-1] == "e10"
		for j := range d.outcomes {
			if d.outcomes[j] != "l" && d.outcomes[j] != "e10" && d.outcomes[j] != "e8" && r.Intn(4) != 0 {
				d.outcomes[j] = retryFates[r.Intn(len(retryFates))]
			}
		}
		if e10 && strings.HasPrefix(d.policy, "custom") {
			d.outcomes = d.outcomes[:len(d.outcomes)-1] // see genScenario: a lost connection is never followed by a same-host retry
		}
	}
	if len(d.hosts) == 0 {
		return
	}
	span := len(d.outcomes)
	if span > 4 {
		span = 4
	}
	if span < 1 {
		span = 1
	}
	for j, ne := 0, 1+r.Intn(4); j < ne; j++ {
		when := fmt.Sprint(r.Intn(span))
		if r.Intn(6) == 0 {
			when = "i"
		}
		d.env = append(d.env, fmt.Sprintf("%s%c%d", when, "dddurrcckkaa"[r.Intn(12)], 1+r.Intn(len(d.hosts))))
	}
	if r.Intn(3) == 0 {
		// everything goes away at once after one request
		when := fmt.Sprint(r.Intn(span))
		act := "drck"[r.Intn(4)]
		for j := range d.hosts {
			d.env = append(d.env, fmt.Sprintf("%s%c%d", when, act, j+1))
		}
	}
}

// cancelGrid: the statement's context ends between an attempt and the retry decision x every retry decision x
// statement kinds, observed or not, once or twice executed — the same scenarios for every seed and tier
func cancelGrid() []scenario {
	var out []scenario
	kinds := []string{"q", "bl", "bu", "bc"}
	n := 0
	for _, x := range []struct {
		policy string
		fates  []string
	}{
		{"down:2.1", []string{"e7", "e7b", "e1"}},          // Retry on the same host
		{"down:3.2.1", []string{"e9", "e5", "e9c"}},        // next host, Retry, next host
		{"custom:4:nnnnnnnnnnn", []string{"e9", "e2", "e4"}}, // next host
		{"custom:4:ttttttttttt", []string{"e9"}},           // Rethrow: the caller gets the error, not the context's
		{"custom:4:iiiiiiiiiii", []string{"e3"}},
		{"custom:4:uuuuuuuuuuu", []string{"e3"}},
		{"simple:3", []string{"e9", "e2", "e9b"}},
		{"simple:0", []string{"e9"}},
		{"exp:2", []string{"e9", "e9b"}},
		{"none", []string{"e9"}},
	} {
		for at := 0; at <= 1; at++ {
			for nh := 1; nh <= 2; nh++ {
				d := scenario{kind: kinds[n%4], ctor: "s", policy: x.policy, polAt: []string{"q", "s"}[n/4%2], obs: []string{"-", "q", "s"}[n%3],
					idem: "1", sp: "-", ctx: []string{"c", "d"}[n%2], cons: 4, api: "e", reps: 1 + n/2%2, outcomes: x.fates,
					env: []string{fmt.Sprintf("%dx0", at)}}
				if d.kind != "q" {
					d.idem = strings.Repeat("1", 1+n%3)
				}
				for h := 1; h <= nh; h++ {
					d.hosts = append(d.hosts, fmt.Sprintf("%d:1:1", h))
				}
				out = append(out, d)
				n++
			}
		}
	}
	return out
}

// envGrid: every way a host becomes unusable x every retry decision x 1..3 hosts x where it strikes, after the
// scripted failures (later requests would succeed) — the same scenarios for every seed and tier.
func envGrid() []scenario {
	var out []scenario
	type pf struct {
		policy string
		fates  []string
	}
	kinds := []string{"q", "bl", "bu", "bc"}
	n := 0
	for _, act := range "drck" {
		back := "a"
		if act == 'd' {
			back = "u"
		}
		for _, x := range []pf{
			{"down:2.1", []string{"e9", "e7"}},          // next host, then Retry
			{"down:6.1", []string{"e7b"}},               // Retry after the only attempt
			{"down:3.2.1", []string{"e1", "e5", "e9c"}}, // Retry, Retry, next host
			{"custom:4:rrrrrrrrrrr", []string{"e9", "e4"}},
			{"custom:4:nnnnnnnrnnn", []string{"e9b", "e7"}},
			{"simple:3", []string{"e9", "e2"}},
			{"exp:2", []string{"e9", "e9b"}},
			{"custom:4:ttttttttttt", []string{"e9"}},
			{"custom:4:iiiiiiiiiii", []string{"e3"}},
			{"none", []string{"e9"}},
		} {
			for nh := 1; nh <= 3; nh++ {
				last := len(x.fates) - 1
				var envs [][]string
				var all, others []string
				for h := 1; h <= nh; h++ {
					all = append(all, fmt.Sprintf("%d%c%d", last, act, h))
					if h > 1 {
						others = append(others, fmt.Sprintf("0%c%d", act, h))
					}
				}
				envs = append(envs, all)                                                                       // nothing usable is left
				envs = append(envs, []string{fmt.Sprintf("%d%c1", last, act)})                                 // the first host goes
				envs = append(envs, []string{fmt.Sprintf("%d%c%d", last, act, nh)})                            // the last host goes
				envs = append(envs, append([]string{fmt.Sprintf("i%c1", act), "0" + back + "1"}, others...))   // gone at first, back later: no way back
				envs = append(envs, append(append([]string{}, all...), fmt.Sprintf("%d%s%d", last, back, nh))) // gone and back at once
				for _, env := range envs {
					d := scenario{kind: kinds[n%4], ctor: "s", policy: x.policy, polAt: []string{"q", "s"}[n/4%2], obs: []string{"-", "q", "s"}[n%3],
						idem: "1", sp: "-", ctx: "-", cons: 4, api: "e", reps: 1 + n/2%2, outcomes: x.fates, env: env}
					if d.kind != "q" {
						d.idem = strings.Repeat("1", 1+n%3)
					}
					for h := 1; h <= nh; h++ {
						d.hosts = append(d.hosts, fmt.Sprintf("%d:1:1", h))
					}
					out = append(out, d)
					n++
				}
			}
		}
	}
	return out
}

// budgetGrid: every statement kind x observer placement x policy placement x policy family, with more usable hosts
// and more consecutive failures than any budget allows — the same scenarios for every seed and tier.
func budgetGrid() []scenario {
	var out []scenario
	hosts := []string{"1:1:1", "2:1:1", "3:1:1", "4:1:1", "5:1:1", "6:1:1"}
	type pf struct {
		policy string
		fate   string
	}
	for _, kind := range []string{"q", "bl", "bu", "bc"} {
		for _, obs := range []string{"-", "s", "q"} {
			for _, polAt := range []string{"s", "q"} {
				for _, x := range []pf{
					{"none", "e9"}, {"simple:0", "e9"}, {"simple:1", "e2"}, {"simple:3", "e9b"}, {"exp:2", "e9c"},
					{"down:-", "e7"}, {"down:4.1", "e7"}, {"down:6.10.0", "e1"}, {"down:2", "e5"}, {"down:3.1", "e9"},
					{"custom:2:rrrrrrrrrrr", "e9"}, {"custom:3:nnnnnnnnnnn", "e4"},
				} {
					d := scenario{kind: kind, ctor: "s", policy: x.policy, polAt: polAt, obs: obs, idem: "1", sp: "-", ctx: "-", cons: 4, api: "e",
						reps: 1, hosts: hosts}
					for i := 0; i < 7; i++ {
						d.outcomes = append(d.outcomes, x.fate)
					}
					if kind != "q" {
						d.idem = strings.Repeat("1", 1+len(out)%4)
					}
					if kind != "q" && obs == "s" && polAt == "s" {
						d.reps = 2 // the second execution finds the budget used up: exactly one more request
					}
					out = append(out, d)
				}
			}
		}
	}
	return out
}

func main() {
	if len(os.Args) > 1 && os.Args[1] == "probe" {
		probe()
		return
	}
	mode, tier, path := vh.Args()
	if mode == "replay" {
		for _, l := range vh.ReadLines(path) {
			fmt.Println(exec(l))
		}
		return
	}
	r := vh.NewRng(vh.EnvSeed())
	out := vh.NewOut(path)
	runs := 1600
	if tier == "thorough" {
		runs = 24000
	}
	scen := append(append(append(budgetGrid(), envGrid()...), idemGrid()...), cancelGrid()...)
	for i := 0; i < runs; i++ {
		d := genScenario(r)
		// a third of the scenarios run in a changing environment, half of those bent towards same-host retries
		if x := r.Intn(6); x < 2 {
			genEnv(r, &d, x == 0)
		}
		// a third of the statements whose context can end: it ends between an attempt and its retry decision
		if (d.ctx == "c" || d.ctx == "d") && !(specIdempotent(d.idem) && (d.sp == "1" || d.sp == "2")) && r.Intn(3) == 0 {
			d.env = append(d.env, fmt.Sprintf("%dx0", r.Intn(len(d.outcomes)+1)))
		}
		scen = append(scen, d)
	}
	results := make([]string, len(scen))
	var wgr sync.WaitGroup
	sem := make(chan struct{}, 12)
	for i := range scen {
		wgr.Add(1)
		sem <- struct{}{}
		go func(i int) {
			defer wgr.Done()
			defer func() { <-sem }()
			if atomic.LoadInt64(&hung) == 0 {
				results[i] = runEx(scen[i])
			}
		}(i)
	}
	wgr.Wait()
	for i, d := range scen {
		if results[i] == "" {
			continue // skipped after a hang
		}
		if strings.HasPrefix(results[i], "fatal") {
			fmt.Fprintln(os.Stderr, "c13:", d.op(), results[i])
		}
		cls := "ex/" + d.kind + "/" + strings.SplitN(d.policy, ":", 2)[0]
		if d.obs == "-" || (d.obs == "s" && d.ctor == "n") {
			cls += "/unobserved"
		} else {
			cls += "/observed"
		}
		if len(d.env) > 0 {
			cls += "/env"
		}
		out.Case(d.op(), results[i], cls, len(d.hosts) > 0)
	}
	policyOps(r, out)
	metOps(r, out, metRuns(tier))
	kinds := []string{"q", "bl", "bu", "bc"}
	type specScn struct {
		kind, idem string
		a, nhosts  int
		gone       bool
	}
	// every entry pattern of 0..5 entries (and both kinds of query) under a speculative policy — for every seed and tier
	var specs []specScn
	for i, p := range allPatterns() {
		specs = append(specs, specScn{kinds[1+i%3], p, 1 + i%3, 2 + i/3%4, false})
	}
	for i := 0; i < 6; i++ {
		specs = append(specs, specScn{"q", fmt.Sprint(i % 2), 1 + i/2, 2 + i%3, false})
	}
	for i := 0; i < runs/64; i++ {
		c := specScn{kinds[r.Intn(len(kinds))], []string{"0", "1", "1", "1"}[r.Intn(4)], r.Intn(4), 1 + r.Intn(5), r.Intn(6) == 0}
		if c.kind != "q" {
			c.idem = genPattern(r)
		}
		specs = append(specs, c)
	}
	for _, c := range specs {
		if atomic.LoadInt64(&hung) != 0 {
			break
		}
		op := runSpec(c.kind, c.idem, c.a, c.nhosts, c.gone, r)
		if strings.HasPrefix(op, "fatal") {
			fmt.Fprintln(os.Stderr, "c13:", op)
			os.Exit(3)
		}
		cls := "spec/" + c.kind + "/not-idempotent"
		if specIdempotent(c.idem) {
			cls = "spec/" + c.kind + "/idempotent"
		}
		out.Case(op, "accept", cls, true)
	}
	grid := specrGrid()
	for i := 0; i < len(grid)+specrRuns(tier) && atomic.LoadInt64(&hung) == 0; i++ {
		var c specrScn
		if i < len(grid) {
			c = grid[i]
		} else {
			c = genSpecr(r, i-len(grid))
		}
		op := runSpecRetry(c, r)
		if strings.HasPrefix(op, "fatal") {
			fmt.Fprintln(os.Stderr, "c13:", op)
			os.Exit(3)
		}
		out.Case(op, "accept", "specr/"+c.kind+"/"+strings.SplitN(c.policy, ":", 2)[0]+"/"+c.mode, true)
	}
	// speculative executions stepped one micro-step at a time, cancellation at every point: a fixed grid for every
	// seed, then random schedules
	cgrid := speccGrid()
	for i := 0; i < len(cgrid)+speccRuns(tier) && atomic.LoadInt64(&hung) == 0; i++ {
		var c speccScn
		if i < len(cgrid) {
			c = cgrid[i]
		} else {
			c = genSpecc(r)
		}
		op := runSpecCancel(c, r)
		if strings.HasPrefix(op, "fatal") {
			fmt.Fprintln(os.Stderr, "c13:", op)
			os.Exit(3)
		}
		out.Case(op, "accept", "specc/"+c.kind+"/"+strings.SplitN(c.policy, ":", 2)[0], true)
	}
	out.Close(map[string]interface{}{"concurrent_attempts_counted": atomic.LoadInt64(&concAttempts),
		"barrier_rounds": atomic.LoadInt64(&barRounds), "barrier_rounds_releasing_several_answers": atomic.LoadInt64(&barMulti)})
}

func metRuns(tier string) int {
	if tier == "thorough" {
		return 1200
	}
	return 80
}

func speccRuns(tier string) int {
	if tier == "thorough" {
		return 900
	}
	return 60
}

func specrRuns(tier string) int {
	if tier == "thorough" {
		return 1200
	}
	return 120
}

// specrGrid: every statement kind x observer attached or not x barrier / at-once answers, several executions and a
// long sequence of same-host retries on the shared counter — the same scenarios for every seed and tier
func specrGrid() []specrScn {
	var out []specrScn
	n := 0
	for _, kind := range []string{"q", "bl", "bu", "bc"} {
		for _, obs := range []bool{true, false} {
			for _, mode := range []string{"b", "i"} {
				c := specrScn{kind: kind, idem: "1", obs: obs, mode: mode, a: 2 + n%4, fates: []string{"e1", "e9", "e7", "e2"}}
				if kind != "q" {
					c.idem = strings.Repeat("1", 1+n%5)
				}
				lim := 300 + 40*(n%5)
				if mode == "i" {
					lim *= 3
				}
				c.policy = fmt.Sprintf("custom:%d:rrrrrrrrrrr", lim)
				c.nhosts = 1 + c.a + n%2
				out = append(out, c)
				n++
			}
		}
	}
	return out
}

// genSpecr: a speculated statement whose executions all fail and retry. Modes: p = every answer after its own small
// pause; b = barrier: the answers of ALL outstanding executions are released at the same instant, round after round;
// i = answered at once (the executions hammer the shared counter as fast as they can).
func genSpecr(r *vh.Rng, i int) specrScn {
	c := specrScn{kind: []string{"q", "bl", "bu", "bc"}[r.Intn(4)], idem: "1", obs: r.Intn(2) == 0}
	if c.kind != "q" {
		c.idem = strings.Repeat("1", 1+r.Intn(5))
	}
	c.mode = []string{"p", "b", "b", "i"}[i%4]
	if c.mode == "p" {
		c.a = 1 + r.Intn(3)
	} else {
		c.a = 1 + r.Intn(5)
	}
	e := 1 + c.a
	big := c.mode != "p"
	pick := r.Intn(4)
	if big {
		pick = r.Intn(6) // half of the barrier / at-once runs: long retry sequences on the shared counter
	}
	switch pick {
	case 0:
		n := r.Intn(3)
		if big {
			n = r.Intn(7)
		}
		c.policy, c.fates = fmt.Sprintf("simple:%d", n), []string{"e9", "e2", "e9b"}
		c.nhosts = n + e + r.Intn(2) // sometimes one host short of what the budget allows
	case 1:
		n := r.Intn(3)
		c.policy, c.fates = fmt.Sprintf("exp:%d", n), []string{"e9"}
		c.nhosts = n + e + r.Intn(2)
	case 2:
		n := 1 + r.Intn(3)
		if big {
			n = 1 + r.Intn(8)
		}
		c.policy, c.fates = "down:"+strings.Repeat("1.", n-1)+"1", []string{"e1", "e7", "e9", "e5"} // Retry (same host) and RetryNextHost
		c.nhosts = e + 1 + (n+3)/4 + r.Intn(2)
	default:
		switch c.mode {
		case "p":
			c.policy, c.fates = fmt.Sprintf("custom:%d:%s", r.Intn(4), "nrnrnrnrnrn"), []string{"e1", "e9", "e7", "e2"}
			c.nhosts = 7 + r.Intn(3)
		case "b":
			// mostly Retry on the same host: round after round, every execution completes an attempt at the same
			// instant; with the occasional RetryNextHost the executions also drain the shared iterator
			c.policy, c.fates = fmt.Sprintf("custom:%d:%s", 50+r.Intn(550), []string{"rrrrrrrrrrr", "rrrrrrrrrnr"}[r.Intn(2)]), []string{"e1", "e9", "e7", "e2", "e4"}
			c.nhosts = e + 2 + r.Intn(3)
		default:
			c.policy, c.fates = fmt.Sprintf("custom:%d:%s", 100+r.Intn(900), "rrrrrrrrrrr"), []string{"e1", "e9", "e7", "e2"}
			c.nhosts = e + r.Intn(2)
		}
	}
	if c.nhosts < 2 {
		c.nhosts = 2
	}
	if c.nhosts > 14 {
		c.nhosts = 14
	}
	return c
}

// probe: development aid (not used by ./check): run the concurrent scenarios only and print their traces
func probe() {
	r := vh.NewRng(vh.EnvSeed())
	n := 120
	if len(os.Args) > 2 {
		fmt.Sscan(os.Args[2], &n)
	}
	t0 := time.Now()
	if len(os.Args) > 3 && os.Args[3] == "cancel" {
		g := speccGrid()
		for i := 0; i < len(g)+n; i++ {
			var c speccScn
			if i < len(g) {
				c = g[i]
			} else {
				c = genSpecc(r)
			}
			t := time.Now()
			op := runSpecCancel(c, r)
			fmt.Printf("%6.1fms %s\n", float64(time.Since(t).Microseconds())/1000, op)
		}
		return
	}
	for i := 0; i < n; i++ {
		c := genSpecr(r, i)
		t := time.Now()
		op := runSpecRetry(c, r)
		fmt.Printf("%6.1fms %s\n", float64(time.Since(t).Microseconds())/1000, op)
		if i%2 == 0 {
			kind := []string{"q", "bl", "bu", "bc"}[r.Intn(4)]
			idem := []string{"0", "1"}[r.Intn(2)]
			if kind != "q" {
				idem = genPattern(r)
			}
			t = time.Now()
			op = runSpec(kind, idem, r.Intn(4), 1+r.Intn(5), r.Intn(6) == 0, r)
			fmt.Printf("%6.1fms %s\n", float64(time.Since(t).Microseconds())/1000, op)
		}
	}
	fmt.Printf("total %v attempts=%d rounds=%d multi=%d\n", time.Since(t0), concAttempts, barRounds, barMulti)
}
