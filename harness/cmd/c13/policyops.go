// The built-in retry policies called DIRECTLY on error values and attempt counts (public API: RetryPolicy.Attempt,
// RetryPolicy.GetRetryType): every write-type string x acknowledgements, live replicas, read timeouts, other errors
// (also a wrapped timeout error: GetRetryType switches on the dynamic type), every Attempts() around the budget.
package main

import (
	"context"
	"errors"
	"fmt"
	"strings"
	"time"

	"github.com/gocql/gocql"
	"verifharness/vh"
)

var writeTypes = []string{"SIMPLE", "BATCH", "COUNTER", "UNLOGGED_BATCH", "BATCH_LOG", "CAS", "VIEW", "CDC", "simple", "", "XYZ"}

func rtName(t gocql.RetryType) string {
	switch t {
	case gocql.Retry:
		return "retry"
	case gocql.RetryNextHost:
		return "nexthost"
	case gocql.Ignore:
		return "ignore"
	case gocql.Rethrow:
		return "rethrow"
	}
	return fmt.Sprintf("unknown:%d", t)
}

func policyOf(p string) gocql.RetryPolicy {
	switch {
	case p == "down":
		return &gocql.DowngradingConsistencyRetryPolicy{}
	case p == "simple":
		return &gocql.SimpleRetryPolicy{}
	case p == "exp":
		return &gocql.ExponentialBackoffRetryPolicy{Min: time.Microsecond, Max: 2 * time.Microsecond}
	case strings.HasPrefix(p, "exp:"):
		var n int
		fmt.Sscanf(p, "exp:%d", &n)
		return &gocql.ExponentialBackoffRetryPolicy{NumRetries: n, Min: time.Microsecond, Max: 2 * time.Microsecond}
	}
	return makePolicy(p)
}

// errOf builds the error value of a token: un:<required>:<alive> | wt:<TYPE>:<received>:<blockfor> |
// rto:<received>:<blockfor>:<datapresent> | other:<name>
func errOf(tok string) error {
	f := strings.Split(tok, ":")
	num := func(i int) int {
		var n int
		if i < len(f) {
			fmt.Sscan(f[i], &n)
		}
		return n
	}
	switch f[0] {
	case "un":
		return &gocql.RequestErrUnavailable{Consistency: gocql.Quorum, Required: num(1), Alive: num(2)}
	case "wt":
		return &gocql.RequestErrWriteTimeout{Consistency: gocql.Quorum, WriteType: f[1], Received: num(2), BlockFor: num(3)}
	case "rto":
		return &gocql.RequestErrReadTimeout{Consistency: gocql.Quorum, Received: num(1), BlockFor: num(2), DataPresent: byte(num(3))}
	}
	switch f[1] {
	case "wrapped-wt":
		return fmt.Errorf("attempt failed: %w", &gocql.RequestErrWriteTimeout{WriteType: "SIMPLE", Received: 1, BlockFor: 2})
	case "wrapped-rto":
		return fmt.Errorf("attempt failed: %w", &gocql.RequestErrReadTimeout{Received: 1, BlockFor: 2})
	case "wrapped-un":
		return fmt.Errorf("attempt failed: %w", &gocql.RequestErrUnavailable{Required: 2, Alive: 1})
	case "noresponse":
		return gocql.ErrTimeoutNoResponse
	case "connclosed":
		return gocql.ErrConnectionClosed
	case "nostreams":
		return gocql.ErrNoStreams
	case "writefailure":
		return &gocql.RequestErrWriteFailure{WriteType: "SIMPLE", Received: 1, BlockFor: 2, NumFailures: 1}
	case "readfailure":
		return &gocql.RequestErrReadFailure{Received: 1, BlockFor: 2, NumFailures: 1}
	case "unprepared":
		return &gocql.RequestErrUnprepared{}
	case "nil":
		return nil
	}
	return errors.New("some other error")
}

// fakeQ: a RetryableQuery with a given attempt count
type fakeQ struct {
	attempts int
	cons     gocql.Consistency
	sets     int
}

func (q *fakeQ) Attempts() int                      { return q.attempts }
func (q *fakeQ) SetConsistency(c gocql.Consistency) { q.cons = c; q.sets++ }
func (q *fakeQ) GetConsistency() gocql.Consistency  { return q.cons }
func (q *fakeQ) Context() context.Context           { return context.Background() }

// rt <policy> <error token>  →  the retry type
func runRT(w []string) (ans string) {
	defer func() {
		if r := recover(); r != nil {
			ans = fmt.Sprintf("crash:%v", r)
		}
	}()
	return rtName(policyOf(w[1]).GetRetryType(errOf(w[2])))
}

// att <policy> <Attempts()> <consistency before>  →  <answer> cons=<consistency after> sets=<SetConsistency calls>
func runAtt(w []string) (ans string) {
	defer func() {
		if r := recover(); r != nil {
			ans = fmt.Sprintf("crash:%v", r)
		}
	}()
	q := &fakeQ{}
	var c int
	fmt.Sscan(w[2], &q.attempts)
	fmt.Sscan(w[3], &c)
	q.cons = gocql.Consistency(c)
	ok := policyOf(w[1]).Attempt(q)
	return fmt.Sprintf("%v cons=%d sets=%d", ok, int(q.cons), q.sets)
}

func policyOps(r *vh.Rng, out *vh.Out) {
	var ops []string
	// exhaustive: every write type x acknowledgements 0..2; live replicas 0..2; read timeouts; other errors
	for _, p := range []string{"down", "simple", "exp"} {
		for _, wt := range writeTypes {
			if wt == "" {
				continue // an empty token cannot be written into an op line
			}
			for rc := 0; rc <= 2; rc++ {
				ops = append(ops, fmt.Sprintf("rt %s wt:%s:%d:%d", p, wt, rc, 2))
			}
		}
		for alive := 0; alive <= 2; alive++ {
			ops = append(ops, fmt.Sprintf("rt %s un:%d:%d", p, 2, alive))
		}
		for rc := 0; rc <= 2; rc++ {
			for dp := 0; dp <= 1; dp++ {
				ops = append(ops, fmt.Sprintf("rt %s rto:%d:2:%d", p, rc, dp))
			}
		}
		for _, o := range []string{"wrapped-wt", "wrapped-rto", "wrapped-un", "noresponse", "connclosed", "nostreams", "writefailure", "readfailure", "unprepared", "plain"} {
			ops = append(ops, "rt "+p+" other:"+o)
		}
	}
	for i := 0; i < 200; i++ {
		ops = append(ops, fmt.Sprintf("rt down wt:%s:%d:%d", writeTypes[r.Intn(len(writeTypes)-2)], r.Intn(5), 1+r.Intn(4)))
		ops = append(ops, fmt.Sprintf("rt down un:%d:%d", 1+r.Intn(4), r.Intn(4)))
	}
	// Attempt: every count around the budget, level lists of length 0..4
	for n := 0; n <= 4; n++ {
		lv := make([]string, n)
		for i := range lv {
			lv[i] = fmt.Sprint(consCodes[r.Intn(len(consCodes))])
		}
		down := "down:-"
		if n > 0 {
			down = "down:" + strings.Join(lv, ".")
		}
		for a := 0; a <= n+2; a++ {
			c0 := consCodes[r.Intn(len(consCodes))]
			ops = append(ops, fmt.Sprintf("att %s %d %d", down, a, c0), fmt.Sprintf("att simple:%d %d %d", n, a, c0), fmt.Sprintf("att exp:%d %d %d", n, a, c0))
		}
	}
	for _, op := range ops {
		w := strings.Fields(op)
		ans := ""
		if w[0] == "rt" {
			ans = runRT(w)
		} else {
			ans = runAtt(w)
		}
		out.Case(op, ans, w[0]+"/"+strings.SplitN(w[1], ":", 2)[0], true)
	}
}
