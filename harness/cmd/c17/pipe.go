// Conducted schedules of the connect pipeline: a conductor holds every step of every connection attempt
// (dial, OPTIONS, STARTUP, AUTH_RESPONSE rounds, USE) at the in-memory peer and lets exactly one thing happen
// at a time — an attempt advances or fails, a pool connection breaks, the host is removed / added again, its
// pool is closed, a query picks from the pool, the session is closed — waiting for the observable effect of
// each action (an event, never a delay) before the next. After each action the registered pool's state, the
// number of open sockets and the connections held by closed pools are recorded; the Lean model (Model/Pipe.lean)
// predicts the same line from the same actions. Monitors (pool bound, no open socket outside an open pool,
// closed pools empty, nothing open and no goroutine inside gocql after Session.Close) go to a `pipeobs` line.
package main

import (
	"bytes"
	"errors"
	"fmt"
	"net"
	"os"
	"runtime"
	"runtime/pprof"
	"sort"
	"strconv"
	"strings"
	"sync"
	"sync/atomic"
	"time"

	"github.com/gocql/gocql"
	"verifharness/memcluster"
	"verifharness/sess"
	"verifharness/vh"
)

const watchdogFull = 20 * time.Second

// failures counts watchdog expiries and leaks of this run: once two scenarios have failed that way the run has
// failed anyway (it will be reported) and the scenarios not yet started are skipped, so that a broken tree is
// reported in a minute or two instead of after hundreds of watchdog periods. Every recorded observation is made
// under the full watchdog.
var failures int64

// tieStalls counts conducted scenarios in which an expected effect did not show up within the watchdog.
var tieStalls int64

func wd() time.Duration { return watchdogFull }

type pipeCfg struct {
	size int
	ks   bool
	auth int    // AUTH_RESPONSE rounds (0 = the server answers STARTUP with READY)
	rm   string // how `down` removes the host: down (status event) | remove (ring refresh) | sethosts
	cerr int    // transports whose Close() reports an error (after closing): 0 none, 1 all, 2 those with an odd id
}

// cerrSel: which connections of a scenario have the close-error fault.
func cerrSel(mode int) func(id int) bool {
	switch mode {
	case 1:
		return func(int) bool { return true }
	case 2:
		return func(id int) bool { return id%2 == 1 }
	}
	return nil
}

func (c pipeCfg) String() string {
	k := 0
	if c.ks {
		k = 1
	}
	return fmt.Sprintf("size=%d ks=%d auth=%d rm=%s cerr=%d", c.size, k, c.auth, c.rm, c.cerr)
}

// verifAuth answers every challenge and stays the challenger (any number of AUTH_CHALLENGE rounds).
type verifAuth struct{}

func (verifAuth) Challenge(req []byte) ([]byte, gocql.Authenticator, error) {
	return []byte("\x00u\x00p"), verifAuth{}, nil
}
func (verifAuth) Success(data []byte) error { return nil }

// noConviction: a fill that fails on an empty pool does not remove the host by itself (conducted schedules
// remove hosts only by explicit actions; the scripted-fate scenarios keep the default policy).
type noConviction struct{}

func (noConviction) AddFailure(error, *gocql.HostInfo) bool { return false }
func (noConviction) Reset(*gocql.HostInfo)                  {}

type mpool struct {
	h        *gocql.VerifHostPool
	inflight map[int]bool
	sync     int // id of the synchronous first attempt of the current filler (0 = none)
	rest     int // attempts the filler starts after the synchronous one returned nil
	active   bool
}

type conductor struct {
	cfg      pipeCfg
	label    string
	cl       *memcluster.Cluster
	node     *memcluster.Node
	g        *gate
	s        *gocql.Session
	host     *gocql.HostInfo
	ip       net.IP
	pools    []*mpool
	cur      *mpool
	owner    map[int]*mpool
	lastID   int
	closed   bool // Session.Close was called (and has returned)
	closing  bool // Session.Close is held between policyConnPool.Close() and s.cancel() (shold … sfin)
	heldDeb  *gocql.VerifDebouncer
	closeRet chan struct{}
	authFail int32 // the next call of the per-host AuthProvider returns an error
	lateAdd  int   // pools found registered after policyConnPool.Close() (must stay 0: addHost finds the pool map closed)
	hostConns int  // open sockets of the host at the drained quiescent point of a degraded scenario
	violated bool  // a monitor has already seen a definite violation: the remaining waits are short
	degraded bool
	adopted  bool // connects nobody predicted were adopted

	maxConns, orphans, closedConns int64
	stall                          string
	stopSampler                    chan struct{}
	samplerDone                    sync.WaitGroup
	pmu                            sync.Mutex // protects pools for the sampler
}

func (c *conductor) waitFor(what string, cond func() bool) bool {
	limit := wd()
	if c.degraded {
		// an expected effect was already missing once in this scenario (or in many before it): the prediction
		// is off, the schedule is played to its end without long waits and only the monitors that hold in every
		// state (bound, closed pools empty) and the final ones (after Session.Close, full watchdog) are kept.
		limit = 250 * time.Millisecond
	}
	if patient(limit, cond) {
		return true
	}
	if !c.degraded {
		c.degraded = true
		c.stall = what
		atomic.AddInt64(&tieStalls, 1)
		os.WriteFile(dumpPath("stall", c.label), []byte(what+"\n"+stacks()), 0o644)
	}
	return false
}

func (c *conductor) cliConn(id int) *memcluster.ClientConn {
	c.g.mu.Lock()
	defer c.g.mu.Unlock()
	if a := c.g.atts[id]; a != nil && a.sc != nil {
		return a.sc.Cli
	}
	return nil
}

func (c *conductor) connID(nc net.Conn) int {
	c.g.mu.Lock()
	defer c.g.mu.Unlock()
	for id, a := range c.g.atts {
		if a.sc != nil && net.Conn(a.sc.Cli) == nc {
			return id
		}
	}
	return 0
}

func inPool(h *gocql.VerifHostPool, cc *memcluster.ClientConn) bool {
	for _, nc := range h.NetConns() {
		if nc == net.Conn(cc) {
			return true
		}
	}
	return false
}

func (c *conductor) addPool(h *gocql.VerifHostPool) *mpool {
	p := &mpool{h: h, inflight: map[int]bool{}}
	c.pmu.Lock()
	c.pools = append(c.pools, p)
	c.pmu.Unlock()
	return p
}

// expect waits until n new attempts have arrived at the peer (held at their dial) and attributes them to p.
func (c *conductor) expect(p *mpool, n int) {
	for i := 0; i < n; i++ {
		id := c.lastID + 1
		if !c.waitFor(fmt.Sprintf("arrival of attempt %d", id), func() bool { st, _ := c.g.held(id); return st == stDial }) {
			return
		}
		c.lastID = id
		c.owner[id] = p
		p.inflight[id] = true
	}
}

// trigger: something called pool.fill() (Pick on a short pool, HandleError, addHost).
func (c *conductor) willFill(p *mpool) bool {
	if p == nil || p.active {
		return false
	}
	conns, size, closed, _ := p.h.State()
	return !closed && conns < size
}

// fillBarrier: a trigger that is expected to do nothing has still started a `go pool.fill()`; wait until that
// goroutine has taken its decision (no labelled goroutine that has not run yet or is inside fill itself), so that
// it cannot take it later in a different state.
func (c *conductor) fillBarrier() {
	c.waitFor("pending fill() calls decide", profiled(func() bool { return pendingFills(c.label) == 0 }))
}

// profiled wraps a condition that takes a goroutine profile (a stop-the-world operation): it is evaluated at most
// every 2 ms, so that several scenarios polling at once do not starve the goroutines they are waiting for.
func profiled(cond func() bool) func() bool {
	var last time.Time
	return func() bool {
		if !last.IsZero() && time.Since(last) < 2*time.Millisecond {
			return false
		}
		ok := cond()
		last = time.Now()
		return ok
	}
}

func (c *conductor) trigger(p *mpool) {
	if !c.willFill(p) {
		c.fillBarrier()
		return
	}
	conns, size, _, _ := p.h.State()
	p.active = true
	if conns == 0 {
		p.rest = size - 1
		c.expect(p, 1)
		p.sync = c.lastID
	} else {
		c.expect(p, size-conns)
	}
}

func (c *conductor) settle(p *mpool) {
	if p.active && len(p.inflight) == 0 && p.sync == 0 {
		c.waitFor("filling stops", func() bool { _, _, _, f := p.h.State(); return !f })
		p.active = false
	}
}

// resolved: attempt id is over (connect returned nil: appended, or closed because the pool was closed; or an error).
func (c *conductor) resolved(id int, success bool) {
	p := c.owner[id]
	if p == nil {
		return
	}
	delete(p.inflight, id)
	if id == p.sync {
		p.sync = 0
		n := p.rest
		p.rest = 0
		if success && n > 0 {
			c.expect(p, n)
		}
	}
	c.settle(p)
}

func (c *conductor) inflight() []int {
	var ids []int
	for _, p := range c.pools {
		for id := range p.inflight {
			ids = append(ids, id)
		}
	}
	sortInts(ids)
	return ids
}

// poolConnIDs: attempt ids of the connections in the registered pool, ascending.
func (c *conductor) poolConnIDs() []int {
	if c.cur == nil {
		return nil
	}
	var ids []int
	for _, nc := range c.cur.h.NetConns() {
		ids = append(ids, c.connID(nc))
	}
	sortInts(ids)
	return ids
}

func (c *conductor) openSockets() int { return openSockets(c.node) }

// adoptUnexpected: connects nobody predicted (more dials than the single filler of a pool may start). The
// prediction is off from here on (degraded mode); the surplus connects are driven like the others so that what
// they do to the pool is seen by the monitors (a pool above its size).
func (c *conductor) adoptUnexpected() {
	m := c.g.maxID()
	if m <= c.lastID {
		return
	}
	if !c.degraded {
		c.degraded = true
		c.stall = fmt.Sprintf("unexpected connect attempts %d..%d", c.lastID+1, m)
		atomic.AddInt64(&tieStalls, 1)
	}
	c.adopted = true
	p := c.cur
	if p == nil && len(c.pools) > 0 {
		p = c.pools[len(c.pools)-1]
	}
	for id := c.lastID + 1; id <= m; id++ {
		c.owner[id] = p
		p.inflight[id] = true
		p.active = true
	}
	c.lastID = m
}

// observe: the registered pool, the open sockets, the connections held by closed pools; updates the monitors.
func (c *conductor) observe() string {
	c.adoptUnexpected()
	cur := "-"
	if c.cur != nil {
		n, _, x, f := c.cur.h.State()
		cur = fmt.Sprintf("c%dx%df%d", n, b2i(x), b2i(f))
	}
	cc := 0
	var inOpen []net.Conn
	for _, p := range c.pools {
		n, _, x, _ := p.h.State()
		if x {
			cc += n
		} else if p == c.cur {
			inOpen = append(inOpen, p.h.NetConns()...) // only the registered pool counts as "an open pool"
		}
		if int64(n) > atomic.LoadInt64(&c.maxConns) {
			atomic.StoreInt64(&c.maxConns, int64(n))
		}
	}
	if int64(cc) > atomic.LoadInt64(&c.closedConns) {
		atomic.StoreInt64(&c.closedConns, int64(cc))
	}
	// orphans: open sockets that are neither in an open pool nor the socket of an attempt still in flight
	orph := 0
	fl := map[net.Conn]bool{}
	for _, id := range c.inflight() {
		if cl := c.cliConn(id); cl != nil {
			fl[net.Conn(cl)] = true
		}
	}
	for _, cl := range c.node.ClientConns() {
		if cl.IsClosed() || fl[net.Conn(cl)] {
			continue
		}
		found := false
		for _, nc := range inOpen {
			if nc == net.Conn(cl) {
				found = true
			}
		}
		if !found {
			orph++
		}
	}
	if int64(orph) > c.orphans && !c.degraded {
		c.orphans = int64(orph)
	}
	// the helper goroutines of setupConn: two per connect that is inside its handshake, none for any other
	// (a finished handshake's reporters must be gone: polled, they need a moment to notice)
	want := 0
	for _, id := range c.inflight() {
		if st, _ := c.g.held(id); st == stOpt || st == stSt || st == stAu {
			want += 2
		}
	}
	hs := want
	if !c.degraded {
		c.waitFor("reporter goroutines of finished handshakes are gone", profiled(func() bool { hs = hsReporters(c.label); return hs == want }))
	}
	return fmt.Sprintf("%s:%d:%d:%d", cur, c.openSockets(), cc, hs)
}

func b2i(b bool) int {
	if b {
		return 1
	}
	return 0
}

// sampler: between the quiescent points the pools are sampled for the bound and for "a closed pool is empty".
func (c *conductor) sampler() {
	defer c.samplerDone.Done()
	for {
		select {
		case <-c.stopSampler:
			return
		default:
		}
		c.pmu.Lock()
		ps := append([]*mpool(nil), c.pools...)
		c.pmu.Unlock()
		for _, p := range ps {
			n, _, x, _ := p.h.State()
			if int64(n) > atomic.LoadInt64(&c.maxConns) {
				atomic.StoreInt64(&c.maxConns, int64(n))
			}
			if x && int64(n) > atomic.LoadInt64(&c.closedConns) {
				atomic.StoreInt64(&c.closedConns, int64(n))
			}
		}
		time.Sleep(100 * time.Microsecond)
	}
}

// act performs one action; false = the action does not apply in the current state (skipped, not recorded).
func (c *conductor) act(a string) bool {
	kind, id := splitAct(a)
	switch kind {
	case "ok":
		st, seq := c.g.held(id)
		if st == "" || c.owner[id] == nil || !c.owner[id].inflight[id] {
			return false
		}
		c.g.release(id, fOK)
		res := 0
		c.waitFor(fmt.Sprintf("effect of ok%d (held at %s)", id, st), func() bool {
			if _, s2 := c.g.held(id); s2 > seq {
				return true
			}
			cl := c.cliConn(id)
			if cl == nil {
				return false
			}
			if cl.IsClosed() {
				res = 1
				return true
			}
			if inPool(c.owner[id].h, cl) {
				res = 2
				return true
			}
			return false
		})
		if res != 0 {
			c.resolved(id, true)
		}
	case "failE", "failR":
		st, _ := c.g.held(id)
		if st == "" || c.owner[id] == nil || !c.owner[id].inflight[id] {
			return false
		}
		k := fError
		if kind == "failR" {
			k = fReset
		}
		c.g.release(id, k)
		if st != stDial {
			c.waitFor(fmt.Sprintf("socket of failed attempt %d closed", id), func() bool { return c.cliConn(id).IsClosed() })
		}
		c.resolved(id, false)
	case "failA":
		// a failure BEFORE the first round trip: the dial of attempt id succeeds, the per-host AuthProvider then
		// returns an error (Conn.init): the socket just dialled must be closed, connect() fails
		st, _ := c.g.held(id)
		if st != stDial || c.owner[id] == nil || !c.owner[id].inflight[id] {
			return false
		}
		atomic.StoreInt32(&c.authFail, 1)
		c.g.release(id, fOK)
		c.waitFor(fmt.Sprintf("socket of attempt %d (AuthProvider error) closed", id), func() bool {
			cc := c.cliConn(id)
			return atomic.LoadInt32(&c.authFail) == 0 && cc != nil && cc.IsClosed()
		})
		atomic.StoreInt32(&c.authFail, 0)
		c.resolved(id, false)
	case "err":
		if c.cur == nil {
			return false
		}
		cl := c.cliConn(id)
		if cl == nil || !inPool(c.cur.h, cl) {
			return false
		}
		c.g.mu.Lock()
		sc := c.g.atts[id].sc
		c.g.mu.Unlock()
		sc.Close()
		p := c.cur
		c.waitFor(fmt.Sprintf("broken connection %d removed and closed", id), func() bool { return cl.IsClosed() && !inPool(p.h, cl) })
		c.trigger(p)
	case "pick":
		if c.cur == nil {
			return false
		}
		c.cur.h.Pick()
		c.trigger(c.cur)
	case "burst": // several fill triggers at once: goroutines released together call Pick
		if c.cur == nil {
			return false
		}
		burstPicks(c, c.cur.h)
		c.trigger(c.cur)
		c.fillBarrier() // every one of the started fill() calls has decided
	case "down":
		if c.cur == nil {
			return false
		}
		p := c.cur
		conns := p.h.NetConns()
		switch c.cfg.rm {
		case "remove":
			gocql.VerifRemoveHost(c.s, c.host)
		case "sethosts":
			gocql.VerifPoolSetHosts(c.s, c.host)
		default:
			gocql.VerifNodeDown(c.s, c.host)
		}
		c.cur = nil
		c.waitPoolClosed(p, conns)
	case "pclose":
		if c.cur == nil {
			return false
		}
		p := c.cur
		conns := p.h.NetConns()
		p.h.Close()
		c.waitPoolClosed(p, conns)
	case "up", "ups", "upp":
		if c.closed {
			return false
		}
		n := 1
		if kind != "up" {
			if id < 2 || id > 4 {
				return false
			}
			n = id
		}
		wasNil := c.cur == nil
		var doneCnt int64
		if c.closing {
			// inside Session.Close, after policyConnPool.Close(): addHost finds the pool map closed — every caller
			// returns, no pool is registered, no connect starts
			c.concurrentAdd(n, kind == "upp", &doneCnt)
			c.waitFor(fmt.Sprintf("%d addHost callers returned from the closed pool map", n), func() bool {
				return int(atomic.LoadInt64(&doneCnt)) >= n || c.g.maxID() > c.lastID
			})
			if h := gocql.VerifHostPools(c.s)[c.ip.String()]; h != nil && (c.cur == nil || !c.cur.h.Same(h)) {
				// a pool nobody will close: followed like any other pool, so that the monitors see what it holds
				// when Session.Close has returned
				c.cur = c.addPool(h)
				c.lateAdd++
			}
			c.fillBarrier()
			return true
		}
		c.concurrentAdd(n, kind == "upp", &doneCnt)
		// how many of the callers return at once: all, except the one whose fill() dials the first connection of an
		// empty pool synchronously
		want := n
		if wasNil || func() bool { cn, _, cl, _ := c.cur.h.State(); return c.willFill(c.cur) && cn == 0 && !cl }() {
			want = n - 1
		}
		if wasNil {
			var h *gocql.VerifHostPool
			c.waitFor("pool of the added host registered", func() bool { h = gocql.VerifHostPools(c.s)[c.ip.String()]; return h != nil })
			if h == nil {
				return true
			}
			c.cur = c.addPool(h)
		}
		c.trigger(c.cur)
		c.waitFor(fmt.Sprintf("%d of %d addHost callers returned", want, n), func() bool {
			return int(atomic.LoadInt64(&doneCnt)) >= want || c.g.maxID() > c.lastID
		})
		if n > 1 {
			c.fillBarrier()
		}
	case "shold":
		if c.closed || c.closing {
			return false
		}
		c.heldDeb = gocql.VerifSessionRingRefresher(c.s)
		c.heldDeb.Lock()
		c.closeRet = make(chan struct{})
		go func() { c.s.Close(); close(c.closeRet) }()
		p := c.cur
		var conns []net.Conn
		if p != nil {
			conns = p.h.NetConns()
		}
		c.cur = nil
		c.closing = true
		c.waitFor("Session.Close has closed the pools and stands at the ring refresher's stop()", profiled(func() bool {
			return gocql.VerifPoolCount(c.s) == 0 && labelledIn(c.label, ".(*refreshDebouncer).stop") == 1
		}))
		if p != nil {
			c.waitPoolClosed(p, conns)
		}
	case "sfin":
		if !c.closing || c.closed {
			return false
		}
		c.sessionClose()
	case "sclose":
		c.sessionClose()
	default:
		return false
	}
	return true
}

func (c *conductor) waitPoolClosed(p *mpool, conns []net.Conn) {
	c.waitFor("pool closed and its connections closed", func() bool {
		if _, _, x, _ := p.h.State(); !x {
			return false
		}
		for _, nc := range conns {
			if !nc.(*memcluster.ClientConn).IsClosed() {
				return false
			}
		}
		return true
	})
}

// sessionClose: Session.Close; every attempt in flight is aborted by the session context (a dial still held
// at the peer is refused now); then every socket must be closed and every filler must have stopped.
func (c *conductor) sessionClose() {
	if c.closed {
		return
	}
	c.closed = true
	done := c.closeRet
	if c.closing {
		c.heldDeb.Unlock() // Session.Close goes on: ringRefresher.stop(), s.cancel()
	} else {
		done = make(chan struct{})
		go func(done chan struct{}) { c.s.Close(); close(done) }(done)
		c.cur = nil
	}
	returned := false
	c.waitFor("Session.Close returns", func() bool {
		select {
		case <-done:
			returned = true
		default:
		}
		return returned
	})
	c.g.releaseAllDials()
	ids := c.inflight()
	c.waitFor("sockets of aborted attempts closed", func() bool {
		for _, id := range ids {
			if cl := c.cliConn(id); cl != nil && !cl.IsClosed() {
				return false
			}
		}
		return true
	})
	for _, id := range ids {
		p := c.owner[id]
		delete(p.inflight, id)
		if p.sync == id {
			p.sync, p.rest = 0, 0
		}
	}
	for _, p := range c.pools {
		c.settle(p)
	}
}

// concurrentAdd: n callers of the session's entry points that end in policyConnPool.addHost (ring refresh:
// addHostIfMissing + startPoolFill; reconnect ticker: pool.addHost; UP event / control connection: startPoolFill) at
// once. park = false: released from a spin barrier. park = true: the interleaving is pinned with the locks addHost
// itself takes — all callers are parked in front of the pool map's mutex, then (whoever is past the lookup) on the
// HostInfo mutex (HostInfo.Port() inside newHostConnPool's argument list), then let go.
func (c *conductor) concurrentAdd(n int, park bool, doneCnt *int64) {
	call := func(k int) {
		switch k % 3 {
		case 0:
			gocql.VerifAddHost(c.s, c.host)
		case 1:
			gocql.VerifPoolAddHost(c.s, c.host)
		default:
			gocql.VerifStartPoolFill(c.s, c.host)
		}
		atomic.AddInt64(doneCnt, 1)
	}
	if n == 1 {
		go call(0)
		return
	}
	if !park {
		var flag int32
		var ready sync.WaitGroup
		for k := 0; k < n; k++ {
			ready.Add(1)
			go func(k int) {
				ready.Done()
				for i := 0; atomic.LoadInt32(&flag) == 0; i++ {
					if i&0xfffff == 0xfffff {
						runtime.Gosched()
					}
				}
				call(k)
			}(k)
		}
		ready.Wait()
		atomic.StoreInt32(&flag, 1)
		return
	}
	gocql.VerifPoolMapLock(c.s)
	for k := 0; k < n; k++ {
		go call(k)
	}
	c.waitFor("addHost callers parked on the pool map", profiled(func() bool {
		return labelledBoth(c.label, ".(*policyConnPool).", "sync.(*RWMutex)") == n
	}))
	gocql.VerifHostInfoLock(c.host)
	gocql.VerifPoolMapUnlock(c.s)
	// a stable picture (three equal snapshots): every caller is parked on the HostInfo, on the pool map behind the
	// caller that holds it, or has returned
	last, same := "", 0
	c.waitFor("addHost callers parked again", profiled(func() bool {
		sig := callerSignature(c.label)
		if sig == last {
			same++
		} else {
			last, same = sig, 0
		}
		// … and somebody got past the pool map: a caller stands at the HostInfo (inside newHostConnPool's arguments,
		// or in policy.AddHost after its addHost returned) or has returned — of two or more callers at most one can be
		// held in the synchronous dial of a fill instead
		return same >= 2 && (int(atomic.LoadInt64(doneCnt)) > 0 || labelledBoth(c.label, ".(*HostInfo).", "sync.(*RWMutex)") > 0)
	}))
	gocql.VerifHostInfoUnlock(c.host)
}

func splitAct(a string) (string, int) {
	i := len(a)
	for i > 0 && a[i-1] >= '0' && a[i-1] <= '9' {
		i--
	}
	n, _ := strconv.Atoi(a[i:])
	return a[:i], n
}

// chooser proposes the next action from what is observable now (nil = the fixed action list of a replay).
type chooser func(c *conductor, step int) string

// runPipe runs one conducted schedule; returns the `pipe` op line, the implementation's answer to it, and the
// `pipeobs` line.
func runPipe(label string, cfg pipeCfg, fixed []string, choose chooser, maxActs int) (op, impl, obsLine string) {
	withLabel(label, func() { op, impl, obsLine = runPipeLabelled(label, cfg, fixed, choose, maxActs) })
	return
}

func runPipeLabelled(label string, cfg pipeCfg, fixed []string, choose chooser, maxActs int) (string, string, string) {
	ipS := "10.0.0.1"
	cl := memcluster.NewCluster(4, ipS)
	node := cl.Nodes[ipS]
	ks := ""
	if cfg.ks {
		ks = "ks"
	}
	g := newGate(ks, cfg.auth)
	g.auto[1] = true // the connection NewSession waits for
	g.cerr = cerrSel(cfg.cerr)
	g.install(node)
	node.Handle = func(req *memcluster.Request) {
		req.Conn.Reply(req.Stream, memcluster.OpResult, memcluster.VoidBody())
	}
	gc := sess.Config(cl, 4, ipS)
	gc.NumConns = cfg.size
	gc.Keyspace = ks
	gc.Timeout = 120 * time.Second // never fires: conducted schedules have no timing
	gc.ConnectTimeout = 120 * time.Second
	gc.ConvictionPolicy = noConviction{}
	c := &conductor{cfg: cfg, label: label, cl: cl, node: node, g: g, ip: net.ParseIP(ipS), owner: map[int]*mpool{},
		lastID: 1, stopSampler: make(chan struct{})}
	// the per-host authenticator factory (ClusterConfig.AuthProvider): fails when the conductor says so
	gc.AuthProvider = func(*gocql.HostInfo) (gocql.Authenticator, error) {
		if atomic.CompareAndSwapInt32(&c.authFail, 1, 0) {
			return nil, errors.New("verif: AuthProvider has no credentials for this host")
		}
		return verifAuth{}, nil
	}
	s, err := gc.CreateSession()
	if err != nil {
		return "", "fatal:" + err.Error(), ""
	}
	c.s = s
	c.host = gocql.VerifHostByIP(s, c.ip)
	h := gocql.VerifHostPools(s)[ipS]
	if h == nil || c.host == nil {
		s.Close()
		return "", "fatal:no pool after NewSession", ""
	}
	c.cur = c.addPool(h)
	startDegraded := atomic.LoadInt64(&tieStalls) >= 6
	c.degraded = startDegraded
	c.samplerDone.Add(1)
	go c.sampler()
	// the initial fill: the synchronous connection (attempt 1) is in the pool, size-1 attempts are being dialled
	c.cur.active = true
	c.expect(c.cur, cfg.size-1)
	c.settle(c.cur)
	var acts, states []string
	states = append(states, c.observe())
	skips := 0
	drained := false
	for i := 0; !c.closed; i++ {
		a := ""
		if choose != nil {
			if len(acts) >= maxActs || skips > 40 {
				a = "sclose"
			} else {
				a = choose(c, i)
			}
		} else {
			if i >= len(fixed) {
				break
			}
			a = fixed[i]
		}
		if a == "" {
			a = "sclose"
		}
		if a == "sclose" && c.closing {
			a = "sfin"
		}
		if (a == "sclose" || a == "shold" || a == "sfin") && c.adopted && !drained {
			// surplus connects were adopted: before the session is closed every connect in flight is answered
			// step by step until it is over, so that the monitors see what the surplus does to the pool
			drained = true
			for n := 0; n < 200; n++ {
				fl := c.inflight()
				if len(fl) == 0 {
					break
				}
				progressed := false
				for _, id := range fl {
					if c.act(fmt.Sprintf("ok%d", id)) {
						progressed = true
						acts = append(acts, fmt.Sprintf("ok%d", id))
						states = append(states, c.observe())
					}
				}
				if !progressed {
					break
				}
			}
			// the bound per HOST, across all pool objects: with nothing held at the peer and no connect() running,
			// every open socket of the host is an established connection of some pool object of the session
			if c.waitFor("no connect() in progress after the drain", profiled(func() bool {
				return len(c.g.heldIDs()) == 0 && labelledIn(c.label, ".(*hostConnPool).connect") == 0
			})) {
				c.hostConns = c.openSockets()
				if c.hostConns > cfg.size {
					c.violated = true
				}
			}
		}
		was := c.stall
		if !c.act(a) {
			skips++
			if choose == nil {
				acts = append(acts, a)
				states = append(states, "skip")
			}
			continue
		}
		skips = 0
		acts = append(acts, a)
		st := c.observe()
		if was == "" && c.stall != "" {
			st = "stall:" + strings.ReplaceAll(c.stall, " ", "_")
		}
		states = append(states, st)
	}
	// whatever happened: leave nothing held, close the session, then the final monitors
	c.sessionClose()
	c.g.releaseAllDials()
	wdEnd := wd()
	if c.violated {
		wdEnd = time.Second // a definite violation was already seen: what follows is only recorded
	}
	// a pool registered by an addHost inside Session.Close: its connections are reported apart (lateopen) AND counted
	// in afterclose — nothing may be open after Session.Close
	lateOpen := func() int {
		if c.lateAdd == 0 || c.cur == nil {
			return 0
		}
		n := 0
		for _, nc := range c.cur.h.NetConns() {
			if !nc.(*memcluster.ClientConn).IsClosed() {
				n++
			}
		}
		return n
	}
	after, late := 0, 0
	if c.lateAdd > 0 {
		wdEnd = time.Second // a pool registered after policyConnPool.Close(): nothing will close it, no point in waiting
	}
	patient(wdEnd, func() bool { late = lateOpen(); after = c.openSockets(); return after == 0 })
	close(c.stopSampler)
	c.samplerDone.Wait()
	if after > 0 {
		atomic.AddInt64(&failures, 1)
	}
	leaked, fns, raw := waitNoGocqlGoroutines(label, wdEnd)
	if c.lateAdd > 0 && c.cur != nil {
		c.cur.h.Close() // the harness closes what Session.Close left behind (after the monitors have looked)
	}
	if leaked > 0 {
		atomic.AddInt64(&failures, 1)
		os.WriteFile(dumpPath("leak", label), []byte(raw), 0o644)
	}
	sched := strings.Join(acts, ",")
	if sched == "" {
		sched = "-"
	}
	op := fmt.Sprintf("pipe %s : %s", cfg, strings.Join(acts, " "))
	impl := strings.Join(states, ";")
	if startDegraded {
		op, impl = "", "" // no prediction line: the scenario was played without waiting for the predicted effects
	}
	// stalled=0 always here: a conducted action whose expected effect does not show up is a disagreement with the
	// model's prediction (the `pipe` line ends in stall:…), not by itself a fact about the property; what the
	// property says is checked by the monitors after the scenario was wound up.
	obs := fmt.Sprintf("pipeobs kind=A %s maxconns=%d orphans=%d closedconns=%d hostconns=%d afterclose=%d leaked=%d stack=%s stalled=0 lateadd=%d lateopen=%d sched=%s",
		cfg, atomic.LoadInt64(&c.maxConns), c.orphans, atomic.LoadInt64(&c.closedConns), c.hostConns, after, leaked, fns, c.lateAdd, late, sched)
	return op, impl, obs
}

// labelledBoth: goroutines labelled sc=<label> that have a frame containing a AND a frame containing b.
func labelledBoth(label, a, b string) int {
	var buf bytes.Buffer
	pprof.Lookup("goroutine").WriteTo(&buf, 1)
	want := `"sc":"` + label + `"`
	n := 0
	for _, blk := range profileBlocks(buf.String()) {
		lines := strings.Split(blk, "\n")
		if len(lines) < 2 {
			continue
		}
		cnt := 0
		for _, ch := range lines[0] {
			if ch < '0' || ch > '9' {
				break
			}
			cnt = cnt*10 + int(ch-'0')
		}
		labelled, ha, hb := false, false, false
		for _, l := range lines[1:] {
			if strings.HasPrefix(l, "# labels:") {
				labelled = strings.Contains(l, want)
				continue
			}
			if strings.Contains(l, a) {
				ha = true
			}
			if strings.Contains(l, b) {
				hb = true
			}
		}
		if labelled && ha && hb {
			n += cnt
		}
	}
	return n
}

// callerSignature: for every labelled goroutine that runs one of the addHost entry points, its innermost gocql
// function (sorted, with multiplicities).
func callerSignature(label string) string {
	var buf bytes.Buffer
	pprof.Lookup("goroutine").WriteTo(&buf, 1)
	want := `"sc":"` + label + `"`
	var sig []string
	for _, blk := range profileBlocks(buf.String()) {
		lines := strings.Split(blk, "\n")
		if len(lines) < 2 {
			continue
		}
		cnt := 0
		for _, ch := range lines[0] {
			if ch < '0' || ch > '9' {
				break
			}
			cnt = cnt*10 + int(ch-'0')
		}
		labelled, caller := false, false
		inner := ""
		for _, l := range lines[1:] {
			if strings.HasPrefix(l, "# labels:") {
				labelled = strings.Contains(l, want)
				continue
			}
			f := strings.Fields(l)
			if len(f) < 3 {
				continue
			}
			if strings.Contains(f[2], ".(*policyConnPool).addHost") {
				caller = true
			}
			if inner == "" && strings.HasPrefix(f[2], gocqlPrefix) {
				inner = f[2]
				if i := strings.LastIndex(inner, "+0x"); i > 0 {
					inner = inner[:i]
				}
			}
		}
		if labelled && caller {
			sig = append(sig, fmt.Sprintf("%dx%s", cnt, inner))
		}
	}
	sort.Strings(sig)
	return strings.Join(sig, ",")
}

// ---- generation of conducted schedules

func stagesOf(cfg pipeCfg) []string {
	st := []string{stDial, stOpt, stSt}
	for i := 0; i < cfg.auth; i++ {
		st = append(st, stAu)
	}
	if cfg.ks {
		st = append(st, stUse)
	}
	return st
}

// genChooser: advance one attempt to a chosen step (0..all steps answered but the last), let one "meanwhile"
// event happen, then a random tail; every schedule ends with Session.Close.
func genChooser(r *vh.Rng, cfg pipeCfg) chooser {
	nst := len(stagesOf(cfg))
	depth := r.Intn(nst) // how many steps of the target attempt are answered before the event
	if r.Intn(3) == 0 {
		depth = nst - 1 // the attempt waits for its last answer (the USE reply when a keyspace is configured)
	}
	mean := []string{"down", "down", "down+up", "down+up", "sclose", "sclose", "pclose", "err", "failother", "pick", "up", "none", "burst"}[r.Intn(13)]
	phase := 0
	target := 0
	done := 0
	var queue []string
	// one schedule in eight starts by making the pool short and idle (every connect in flight fails) and then
	// lets several fill triggers arrive at once
	shortBurst := r.Intn(8) == 0
	// addHost: one caller, or 2..4 concurrent callers (spin barrier / parked on the locks addHost takes)
	upTok := func() string {
		switch r.Intn(4) {
		case 0:
			return fmt.Sprintf("ups%d", 2+r.Intn(3))
		case 1:
			return fmt.Sprintf("upp%d", 2+r.Intn(3))
		}
		return "up"
	}
	// one schedule in five holds Session.Close between policyConnPool.Close() and s.cancel() and lets things happen there
	window := r.Intn(5) == 0
	winLeft := -1
	// how an attempt fails: ERROR frame / reset at the step it waits for (a refused dial), or — an attempt still at its
	// dial, every second time — the dial succeeds and the per-host AuthProvider then returns an error
	failTok := func(c *conductor, id int) string {
		if st, _ := c.g.held(id); st == stDial && r.Intn(2) == 0 {
			return "failA" + strconv.Itoa(id)
		}
		return []string{"failE", "failR"}[r.Intn(2)] + strconv.Itoa(id)
	}
	inner := func(c *conductor, step int) string { return "" }
	choose := func(c *conductor, step int) string {
		if c.closing {
			if winLeft < 0 {
				winLeft = r.Intn(6)
			}
			if winLeft == 0 {
				return "sfin"
			}
			winLeft--
			fl := c.inflight()
			x := r.Intn(100)
			switch {
			case x < 35:
				return upTok()
			case x < 70 && len(fl) > 0:
				return fmt.Sprintf("ok%d", fl[r.Intn(len(fl))])
			case x < 80 && len(fl) > 0:
				return failTok(c, fl[r.Intn(len(fl))])
			case x < 90 && c.cur != nil:
				return []string{"pick", "down", "burst"}[r.Intn(3)]
			}
			if len(fl) > 0 {
				return fmt.Sprintf("ok%d", fl[0])
			}
			return upTok()
		}
		a := inner(c, step)
		if a == "up" {
			a = upTok()
		}
		if a == "sclose" && window {
			a = "shold"
		}
		return a
	}
	inner = func(c *conductor, step int) string {
		if len(queue) > 0 {
			a := queue[0]
			queue = queue[1:]
			return a
		}
		fl := c.inflight()
		pc := c.poolConnIDs()
		if shortBurst {
			if len(fl) > 0 {
				return failTok(c, fl[0])
			}
			shortBurst = false
			if c.willFill(c.cur) {
				return "burst"
			}
		}
		if phase == 2 && c.willFill(c.cur) && r.Intn(5) < 2 {
			return "burst" // a short idle pool: the moment several triggers at once matter
		}
		switch phase {
		case 0: // get an attempt in flight
			if len(fl) == 0 {
				phase0 := []string{}
				if len(pc) > 0 {
					phase0 = append(phase0, fmt.Sprintf("err%d", pc[r.Intn(len(pc))]))
				}
				if c.cur != nil {
					phase0 = append(phase0, "down")
				} else {
					phase0 = append(phase0, "up")
				}
				return phase0[r.Intn(len(phase0))]
			}
			target = fl[r.Intn(len(fl))]
			phase = 1
			fallthrough
		case 1:
			if done < depth && c.owner[target] != nil && c.owner[target].inflight[target] {
				done++
				if r.Intn(8) == 0 && len(fl) > 1 { // now and then another attempt moves first
					o := fl[r.Intn(len(fl))]
					if o != target {
						done--
						return fmt.Sprintf("ok%d", o)
					}
				}
				return fmt.Sprintf("ok%d", target)
			}
			phase = 2
			switch mean {
			case "down+up":
				queue = append(queue, "up")
				return "down"
			case "err":
				if len(pc) > 0 {
					return fmt.Sprintf("err%d", pc[r.Intn(len(pc))])
				}
				return "down"
			case "failother":
				for _, o := range fl {
					if o != target {
						return failTok(c, o)
					}
				}
				return "pick"
			case "none":
				return fmt.Sprintf("ok%d", target)
			}
			return mean
		}
		// the random tail
		if len(fl) == 0 && c.cur == nil && r.Intn(3) == 0 {
			return "sclose"
		}
		x := r.Intn(100)
		switch {
		case x < 58 && len(fl) > 0:
			return fmt.Sprintf("ok%d", fl[r.Intn(len(fl))])
		case x < 68 && len(fl) > 0:
			return failTok(c, fl[r.Intn(len(fl))])
		case x < 76:
			if c.cur != nil {
				return "down"
			}
			return "up"
		case x < 84:
			return "up"
		case x < 89 && len(pc) > 0:
			return fmt.Sprintf("err%d", pc[r.Intn(len(pc))])
		case x < 94:
			if c.cur != nil {
				return []string{"pick", "burst"}[r.Intn(2)]
			}
			return "up"
		case x < 96 && c.cur != nil:
			return "pclose"
		case x < 98:
			return "sclose"
		}
		if len(fl) > 0 {
			return fmt.Sprintf("ok%d", fl[0])
		}
		return "up"
	}
	return choose
}

func genPipeCfg(r *vh.Rng) pipeCfg {
	cfg := pipeCfg{size: 1 + r.Intn(4), ks: r.Intn(10) < 7, rm: []string{"down", "remove", "sethosts"}[r.Intn(3)]}
	switch r.Intn(4) {
	case 0:
		cfg.auth = 1
	case 1:
		cfg.auth = 2
	}
	// the fault point `the transport's Close() returns an error` (Conn.Close then calls back into the pool's
	// HandleError on the closing goroutine): every third schedule on all connections, every sixth on the odd ones
	switch r.Intn(6) {
	case 0, 1:
		cfg.cerr = 1
	case 2:
		cfg.cerr = 2
	}
	return cfg
}

func parsePipeCfg(ws []string) (pipeCfg, bool) {
	cfg := pipeCfg{rm: "down"}
	seen := 0
	for _, w := range ws {
		kv := strings.SplitN(w, "=", 2)
		if len(kv) != 2 {
			continue
		}
		n, _ := strconv.Atoi(kv[1])
		switch kv[0] {
		case "size":
			cfg.size = n
			seen++
		case "ks":
			cfg.ks = n == 1
		case "auth":
			cfg.auth = n
		case "rm":
			cfg.rm = kv[1]
		case "cerr":
			cfg.cerr = n
		}
	}
	return cfg, seen == 1 && cfg.size >= 1 && cfg.size <= 8
}

// burstPicks: n goroutines (not more than half of the processors, so that all of them really run at the same time)
// spin on one flag and fire the moment it flips: several fill() calls of different origins start within nanoseconds —
// Pick (`go pool.fill()`), the reconnect ticker's policyConnPool.addHost and an UP event's startPoolFill (both find
// the registered pool and call pool.fill() themselves; the one whose fill dials the first connection of an empty pool
// synchronously returns only when that dial is answered, so the addHost callers are not waited for here).
func burstPicks(c *conductor, h *gocql.VerifHostPool) {
	n := runtime.GOMAXPROCS(0) / 2
	if n > 8 {
		n = 8
	}
	if n < 2 {
		n = 2
	}
	var ready, done sync.WaitGroup
	var flag int32
	for i := 0; i < n; i++ {
		ready.Add(1)
		i := i
		if i%4 != 1 && i%4 != 3 {
			done.Add(1)
		}
		go func() {
			ready.Done()
			for k := 0; atomic.LoadInt32(&flag) == 0; k++ {
				if k&0xfffff == 0xfffff {
					runtime.Gosched()
				}
			}
			switch i % 4 {
			case 1:
				gocql.VerifPoolAddHost(c.s, c.host)
			case 3:
				gocql.VerifStartPoolFill(c.s, c.host)
			default:
				h.Pick()
				done.Done()
			}
		}()
	}
	ready.Wait()
	atomic.StoreInt32(&flag, 1)
	done.Wait()
}
