// Session.Close against the control connection (control.go): real Sessions WITH a control connection on the in-memory
// cluster's scripted control plane. A conductor breaks the control connection, lets the heartbeat goroutine find it
// broken (its first timer: 1 s) and run c.reconnect(), holds that reconnect attempt at every round trip (dial, OPTIONS,
// STARTUP, system.local, REGISTER, the ring refresh's system.local and system.peers), calls Session.Close at a chosen
// point and lets the round trips go one at a time. After every action the heartbeat goroutine (in its loop / inside
// reconnect / gone), the closer (not started / blocked in controlConn.close / returned), the `reconnecting` flag and the
// state word are recorded; the Lean model (Model/PoolCtl.lean) predicts the same line from the same actions (op `ctl`).
// Monitors (op `ctlobs`): Session.Close returns, the heartbeat goroutine is gone, no goroutine of the scenario is left
// inside gocql, no socket is open, a query fails with ErrSessionClosed.
package main

import (
	"context"
	"errors"
	"fmt"
	"io/ioutil"
	"log"
	"net"
	"os"
	"strings"
	"sync"
	"sync/atomic"
	"time"

	"github.com/gocql/gocql"
	"verifharness/memcluster"
	"verifharness/sess"
	"verifharness/vh"
)

type ctlStep struct {
	what string
	ch   chan bool
}

// ctlPeer is the HostDialer of a control-connection scenario: the in-memory cluster behind a switch
// (pass / refuse every dial / hold every dial and every frame of a connection dialled while holding).
type ctlPeer struct {
	cl      *memcluster.Cluster
	mu      sync.Mutex
	mode    int // 0 pass, 1 refuse, 2 hold
	parked  []*ctlStep
	nParked int
	refused int
	gated   map[*memcluster.ClientConn]bool
}

func (p *ctlPeer) setMode(m int) {
	p.mu.Lock()
	p.mode = m
	p.mu.Unlock()
}

// park blocks until the conductor releases the step (true: goes on, false: fails) or ctx ends.
func (p *ctlPeer) park(ctx context.Context, what string) (bool, error) {
	st := &ctlStep{what: what, ch: make(chan bool, 1)}
	p.mu.Lock()
	p.parked = append(p.parked, st)
	p.nParked++
	p.mu.Unlock()
	var done <-chan struct{}
	if ctx != nil {
		done = ctx.Done()
	}
	select {
	case ok := <-st.ch:
		return ok, nil
	case <-done:
		p.mu.Lock()
		for i, x := range p.parked {
			if x == st {
				p.parked = append(p.parked[:i], p.parked[i+1:]...)
				break
			}
		}
		p.mu.Unlock()
		return false, ctx.Err()
	}
}

func (p *ctlPeer) counts() (parked, total, refused int) {
	p.mu.Lock()
	defer p.mu.Unlock()
	return len(p.parked), p.nParked, p.refused
}

// release lets the oldest parked step go.
func (p *ctlPeer) release(ok bool) bool {
	p.mu.Lock()
	if len(p.parked) == 0 {
		p.mu.Unlock()
		return false
	}
	st := p.parked[0]
	p.parked = p.parked[1:]
	p.mu.Unlock()
	st.ch <- ok
	return true
}

func (p *ctlPeer) releaseAll() {
	for p.release(true) {
	}
}

func (p *ctlPeer) DialHost(ctx context.Context, host *gocql.HostInfo) (*gocql.DialedHost, error) {
	p.mu.Lock()
	mode := p.mode
	if mode == 1 {
		p.refused++
	}
	p.mu.Unlock()
	switch mode {
	case 1:
		return nil, errors.New("memcluster: connection refused")
	case 2:
		ok, err := p.park(ctx, "dial")
		if err != nil {
			return nil, err
		}
		if !ok {
			return nil, errors.New("memcluster: connection refused")
		}
	}
	dh, err := p.cl.DialHost(ctx, host)
	if err == nil && mode == 2 {
		if cc, isCli := dh.Conn.(*memcluster.ClientConn); isCli {
			p.mu.Lock()
			p.gated[cc] = true
			p.mu.Unlock()
		}
	}
	return dh, err
}

func (p *ctlPeer) frameHook(sc *memcluster.ServerConn, f *memcluster.Frame) bool {
	p.mu.Lock()
	hold := p.mode == 2 && p.gated[sc.Cli]
	p.mu.Unlock()
	if !hold {
		return false
	}
	what := "frame"
	switch f.Op {
	case memcluster.OpOptions:
		what = "opt"
	case memcluster.OpStartup:
		what = "st"
	case memcluster.OpRegister:
		what = "reg"
	case memcluster.OpQuery:
		what = "query"
	}
	if ok, _ := p.park(nil, what); !ok {
		sc.Close()
		return true
	}
	return false // the node's regular answer (handshake) / the control plane's (system tables)
}

const (
	hbFrame     = ".(*controlConn).heartBeat"
	reconnFrame = ".(*controlConn).reconnect"
	ctlCloseFr  = ".(*controlConn).close"
)

type ctlConductor struct {
	label    string
	p        *ctlPeer
	cp       *memcluster.ControlPlane
	s        *gocql.Session
	closeRet chan struct{}
	hbOwned  bool // the heartbeat goroutine is inside the reconnect attempt being conducted
	otherOwned bool // the control connection's reader goroutine is
	k        int  // round trips of that attempt seen so far
	stall    string
}

func (c *ctlConductor) waitFor(what string, cond func() bool) bool {
	limit := wd()
	if c.stall != "" {
		limit = 250 * time.Millisecond
	}
	if patient(limit, profiled(cond)) {
		return true
	}
	if c.stall == "" {
		c.stall = what
		atomic.AddInt64(&tieStalls, 1)
		os.WriteFile(dumpPath("stall", c.label), []byte(what+"\n"+stacks()), 0o644)
	}
	return false
}

func (c *ctlConductor) closeReturned() bool {
	if c.closeRet == nil {
		return false
	}
	select {
	case <-c.closeRet:
		return true
	default:
		return false
	}
}

func (c *ctlConductor) observe() string {
	hb := "S"
	if labelledIn(c.label, hbFrame) == 0 {
		hb = "X"
	} else if labelledBoth(c.label, hbFrame, reconnFrame) > 0 {
		hb = "R"
	}
	cl := "I"
	if c.closeRet != nil {
		switch {
		case c.closeReturned():
			cl = "D"
		case labelledIn(c.label, ctlCloseFr) > 0:
			cl = "S"
		default:
			cl = "?"
		}
	}
	st, rc, _, _ := gocql.VerifControlState(c.s)
	return fmt.Sprintf("h%sc%sr%ds%d", hb, cl, rc, st)
}

// reconnectOver: nobody is inside controlConn.reconnect any more.
func (c *ctlConductor) reconnectOver() bool {
	_, rc, _, _ := gocql.VerifControlState(c.s)
	return rc == 0 && labelledIn(c.label, reconnFrame) == 0
}

// settled: what a finished reconnect / a started Close leads to has happened (the closer returned and the heartbeat
// goroutine is gone, or the closer is parked behind a heartbeat goroutine that is inside reconnect).
func (c *ctlConductor) closeSettled() bool {
	if c.closeRet == nil {
		return true
	}
	if c.closeReturned() {
		return labelledIn(c.label, hbFrame) == 0
	}
	return labelledIn(c.label, ctlCloseFr) > 0 && labelledBoth(c.label, hbFrame, reconnFrame) > 0
}

func (c *ctlConductor) act(a string) bool {
	switch {
	case a == "drop":
		// the server resets the control connection while nothing can be dialled: the connection's reader runs
		// controlConn.HandleError -> reconnect(), which fails on every host and on the contact points
		if c.closeRet != nil || c.hbOwned {
			return false
		}
		c.p.setMode(1)
		_, _, r0 := c.p.counts()
		if !c.cp.DropControl() {
			return false
		}
		c.waitFor("drop: the reader's reconnect attempt is over", func() bool {
			_, _, r := c.p.counts()
			_, _, live, _ := gocql.VerifControlState(c.s)
			return r > r0 && !live && c.reconnectOver()
		})
		return true
	case strings.HasPrefix(a, "hbfail"):
		// the heartbeat goroutine's next OPTIONS fails on the broken connection: it runs reconnect(), held at its dial
		if c.closeRet != nil || c.hbOwned {
			return false
		}
		if _, _, live, _ := gocql.VerifControlState(c.s); live {
			return false
		}
		c.p.setMode(2)
		c.waitFor("hbfail: the heartbeat goroutine is inside reconnect, its dial held", func() bool {
			n, _, _ := c.p.counts()
			return n == 1 && labelledBoth(c.label, hbFrame, reconnFrame) > 0
		})
		c.hbOwned = true
		c.k = 1
		return true
	case a == "rel":
		if !c.hbOwned {
			return false
		}
		_, t0, _ := c.p.counts()
		if !c.p.release(true) {
			return false
		}
		over := false
		c.waitFor("rel: the next round trip is held or the reconnect is over", func() bool {
			n, t, _ := c.p.counts()
			if n == 1 && t == t0+1 {
				return true
			}
			if n == 0 && c.reconnectOver() && c.closeSettled() {
				over = true
				return true
			}
			return false
		})
		if over {
			c.hbOwned = false
			c.p.setMode(0) // heartbeats of the new control connection are answered
		} else {
			c.k++
		}
		return true
	case strings.HasPrefix(a, "dropo"):
		// the server resets the control connection while dials are held: the connection's reader goroutine runs
		// controlConn.HandleError -> reconnect() and owns the attempt, held at its dial
		if c.closeRet != nil || c.hbOwned || c.otherOwned {
			return false
		}
		c.p.setMode(2)
		if !c.cp.DropControl() {
			return false
		}
		c.waitFor("dropo: the reader's reconnect attempt is held at its dial", func() bool {
			n, _, _ := c.p.counts()
			return n == 1 && labelledIn(c.label, reconnFrame) > 0
		})
		c.otherOwned = true
		c.k = 1
		return true
	case a == "relo":
		if !c.otherOwned {
			return false
		}
		_, t0, _ := c.p.counts()
		if !c.p.release(true) {
			return false
		}
		over := false
		c.waitFor("relo: the next round trip is held or the reconnect is over", func() bool {
			n, t, _ := c.p.counts()
			if n == 1 && t == t0+1 {
				return true
			}
			if n == 0 && c.reconnectOver() {
				over = true
				return true
			}
			return false
		})
		if over {
			c.otherOwned = false
			c.p.setMode(0)
		} else {
			c.k++
		}
		return true
	case a == "close":
		if c.closeRet != nil {
			return false
		}
		c.closeRet = make(chan struct{})
		go func() { c.s.Close(); close(c.closeRet) }()
		c.waitFor("close: Session.Close returned or is parked in controlConn.close", c.closeSettled)
		if c.otherOwned {
			// Session.Close went through: its cancel() ends the reader's reconnect attempt (the connection being set up
			// lives on the session context); what the peer still holds of it is stale
			c.waitFor("close: the reader's reconnect attempt is over", c.reconnectOver)
			c.otherOwned = false
			c.p.setMode(0)
			c.p.releaseAll()
		}
		return true
	}
	return false
}

// sessCfgNoControl: a session without a control connection of its own behind the switchable dialer.
func sessCfgNoControl(cl *memcluster.Cluster, p *ctlPeer) *gocql.ClusterConfig {
	cfg := sess.Config(cl, 4, "10.0.0.1")
	cfg.HostDialer = p
	return cfg
}

func ctlRow(ip string, local bool) memcluster.SysRow {
	row := memcluster.SysRow{"release_version": "3.11.4", "schema_version": "11111111-1111-1111-1111-111111111111",
		"host_id": "22222222-2222-2222-2222-2222222222" + ip[len(ip)-1:] + "1", "rpc_address": ip, "data_center": "dc1", "rack": "r1",
		"tokens": []string{"100" + ip[len(ip)-1:]}}
	if local {
		row["key"] = "local"
		row["bootstrapped"] = "COMPLETED"
		row["cluster_name"] = "memcluster"
		row["cql_version"] = "3.4.4"
		row["native_protocol_version"] = "4"
		row["partitioner"] = "org.apache.cassandra.dht.Murmur3Partitioner"
		row["broadcast_address"] = ip
		row["listen_address"] = ip
	} else {
		row["peer"] = ip
	}
	return row
}

func runCtl(label string, fixed []string, r *vh.Rng) (op, impl, obs string) {
	withLabel(label, func() { op, impl, obs = runCtlLabelled(label, fixed, r) })
	return
}

// genCtlActs: Close at every point of a reconnect owned by the heartbeat goroutine (before any round trip was
// answered … after the last), Close with the heartbeat goroutine in its select (after a failed reconnect of the
// connection's reader, or on an untouched session), Close after a completed reconnect.
func genCtlActs(r *vh.Rng) []string {
	switch r.Intn(10) {
	case 0:
		return []string{"close"}
	case 1:
		return []string{"drop", "close"}
	}
	if r.Intn(3) == 0 {
		// a reconnect owned by the connection's reader goroutine, Session.Close after 0..7 of its round trips (8: after it)
		acts := []string{"dropo"}
		for i, n := 0, r.Intn(9); i < n; i++ {
			acts = append(acts, "relo")
		}
		return append(acts, "close")
	}
	acts := []string{"drop", "hbfail"}
	at := r.Intn(9) // rels before Close (more than the attempt has: Close after the reconnect)
	for i := 0; i < at; i++ {
		acts = append(acts, "rel")
	}
	acts = append(acts, "close")
	for i := 0; i < 10; i++ {
		acts = append(acts, "rel")
	}
	return acts
}

func runCtlLabelled(label string, fixed []string, r *vh.Rng) (string, string, string) {
	ip := "10.0.0.1"
	cl := memcluster.NewCluster(4, ip)
	cp := memcluster.NewControlPlane(cl)
	cp.Local = func(node string) memcluster.SysRow { return ctlRow(node, true) }
	cp.Peers = func(string) []memcluster.SysRow { return nil }
	p := &ctlPeer{cl: cl, gated: map[*memcluster.ClientConn]bool{}}
	cl.Nodes[ip].FrameHook = p.frameHook
	cfg := gocql.NewCluster(ip)
	cfg.ProtoVersion = 4
	cfg.HostDialer = p
	cfg.NumConns = 1
	cfg.Timeout = 120 * time.Second // never fires: conducted
	cfg.ConnectTimeout = 120 * time.Second
	cfg.ReconnectInterval = 0
	cfg.WriteCoalesceWaitTime = 0
	cfg.Logger = log.New(ioutil.Discard, "", 0)
	cfg.PoolConfig.HostSelectionPolicy = gocql.RoundRobinHostPolicy()
	cfg.Consistency = gocql.One
	cfg.ReconnectionPolicy = &gocql.ConstantReconnectionPolicy{MaxRetries: 1, Interval: time.Millisecond}
	cfg.ConvictionPolicy = noConviction{}
	cfg.Events.DisableSchemaEvents = true
	cfg.Events.DisableTopologyEvents = true
	s, err := createSession(cfg)
	if err != nil {
		return "", "fatal:" + err.Error(), ""
	}
	c := &ctlConductor{label: label, p: p, cp: cp, s: s}
	acts := fixed
	if acts == nil {
		acts = genCtlActs(r)
	}
	var done, states []string
	states = append(states, c.observe())
	for _, a := range acts {
		hadK := c.hbOwned
		if !c.act(a) {
			if fixed != nil {
				done = append(done, a)
				states = append(states, "skip")
			}
			continue
		}
		_ = hadK
		done = append(done, a)
		st := c.observe()
		if c.stall != "" {
			st = "stall:" + strings.ReplaceAll(c.stall, " ", "_")
			states = append(states, st)
			break
		}
		states = append(states, st)
	}
	// wind up: Session.Close (if the schedule had none), nothing held any more; then the monitors
	if c.closeRet == nil {
		c.closeRet = make(chan struct{})
		go func() { c.s.Close(); close(c.closeRet) }()
	}
	c.p.setMode(0)
	c.p.releaseAll()
	closeret := 1
	if !closedWithin(c.closeRet, wd()) {
		closeret = 0
		atomic.AddInt64(&failures, 1)
		os.WriteFile(dumpPath("hang", label), []byte(stacks()), 0o644)
	}
	wdEnd := wd()
	if closeret == 0 {
		wdEnd = time.Second
	}
	hbleft := 0
	if !patient(wdEnd, profiled(func() bool { return labelledIn(label, hbFrame) == 0 })) {
		hbleft = labelledIn(label, hbFrame)
	}
	qe := "other"
	if closeret == 1 {
		if err := s.Query("PING after").Exec(); err == gocql.ErrSessionClosed {
			qe = "closed"
		} else if err == nil {
			qe = "nil"
		}
	}
	open := 0
	patient(wdEnd, func() bool { open = openSockets(cl.Nodes[ip]); return open == 0 })
	leaked, fns, raw := waitNoGocqlGoroutines(label, wdEnd)
	if leaked > 0 {
		atomic.AddInt64(&failures, 1)
		os.WriteFile(dumpPath("leak", label), []byte(raw), 0o644)
	}
	// the number of round trips the conducted reconnect attempt had is known now
	for i, a := range done {
		if strings.HasPrefix(a, "hbfail") {
			k := c.k
			if fixed != nil && c.k == 0 {
				k = 0
			}
			done[i] = fmt.Sprintf("hbfail%d", k)
		}
		if strings.HasPrefix(a, "dropo") {
			done[i] = "dropo7" // dial, OPTIONS, STARTUP, system.local, REGISTER, the ring refresh's system.local and system.peers
		}
	}
	sched := strings.Join(done, ",")
	if sched == "" {
		sched = "-"
	}
	op := "ctl : " + strings.Join(done, " ")
	impl := strings.Join(states, ";")
	obs := fmt.Sprintf("ctlobs closeret=%d hbleft=%d leaked=%d stack=%s open=%d queryerr=%s sched=%s", closeret, hbleft, leaked, fns, open, qe, sched)
	return op, impl, obs
}

// ctlMonitorsOf: the observation part of a ctlobs line.
func ctlMonitorsOf(line string) string {
	var out []string
	for _, w := range strings.Fields(line) {
		for _, k := range []string{"closeret=", "hbleft=", "leaked=", "open=", "queryerr="} {
			if strings.HasPrefix(w, k) {
				out = append(out, w)
			}
		}
	}
	return strings.Join(out, " ")
}

// runCtlUnit: a controlConn of its own (createControlConn through the hook, never connected) on a session whose
// dials are all refused; `first` says whose first instruction runs first: "close" = controlConn.close() before the
// heartbeat goroutine's CAS (a `go c.heartBeat()` that is scheduled late), "hb" = the heartbeat goroutine first.
// Answer: the same state letters as a `ctl` line (heartbeat goroutine S = running / X = returned; closer D; reconnecting; state).
func runCtlUnit(first string) string {
	cl := memcluster.NewCluster(4, "10.0.0.1")
	cl.Nodes["10.0.0.1"].Handle = func(req *memcluster.Request) {
		req.Conn.Reply(req.Stream, memcluster.OpResult, memcluster.VoidBody())
	}
	p := &ctlPeer{cl: cl, gated: map[*memcluster.ClientConn]bool{}}
	cfg := sessCfgNoControl(cl, p)
	s, err := createSession(cfg)
	if err != nil {
		return "fatal:" + err.Error()
	}
	defer s.Close()
	p.setMode(1)
	h := gocql.VerifNewControlConn(s)
	hbDone := make(chan struct{})
	clDone := make(chan struct{})
	if first == "close" {
		go func() { h.Close(); close(clDone) }()
		if !closedWithin(clDone, wd()) {
			return "hNcSr0s0"
		}
		go func() { h.HeartBeat(); close(hbDone) }()
	} else {
		go func() { h.HeartBeat(); close(hbDone) }()
		patient(wd(), func() bool { return h.State() == 1 })
		go func() { h.Close(); close(clDone) }()
		if !closedWithin(clDone, wd()) {
			return fmt.Sprintf("hScSr0s%d", h.State())
		}
	}
	// the heartbeat goroutine returns at once when it was told to (or finds the state not Starting); one that is still
	// running 300 ms later is in its loop (first timer: 1 s)
	hb := "S"
	if closedWithin(hbDone, 300*time.Millisecond) {
		hb = "X"
	}
	return fmt.Sprintf("h%scDr0s%d", hb, h.State())
}

// runRetry: the retry loop of hostConnPool.connect() under a reconnection policy with GetMaxRetries() = n. A size-1
// pool is emptied by a server-side reset of its connection; the refill's attempts get the scripted fates
// (o connects, t fails with a retryable error, p with a *net.OpError that is not Temporary(); beyond the list: o).
// Recorded at quiescence: attempts made, len(pool.conns), nil entries, and what Pick does.
func runRetry(label string, n int, fates string) (line string) {
	withLabel(label, func() { line = runRetryLabelled(label, n, fates) })
	return
}

func runRetryLabelled(label string, n int, fates string) string {
	ip := "10.0.0.1"
	cl := memcluster.NewCluster(4, ip)
	node := cl.Nodes[ip]
	node.Handle = func(req *memcluster.Request) {
		req.Conn.Reply(req.Stream, memcluster.OpResult, memcluster.VoidBody())
	}
	var mu sync.Mutex
	armed := false
	base := 0
	pol := &gocql.ConstantReconnectionPolicy{MaxRetries: 1, Interval: time.Millisecond}
	node.DialHook = func(_ *memcluster.Node, id int) error {
		mu.Lock()
		defer mu.Unlock()
		if !armed {
			return nil
		}
		i := id - base - 1
		if fates != "-" && i >= 0 && i < len(fates) {
			switch fates[i] {
			case 't':
				return errors.New("memcluster: connection refused (retryable)")
			case 'p':
				return &net.OpError{Op: "dial", Net: "tcp", Err: errors.New("memcluster: network is unreachable")}
			}
		}
		return nil
	}
	cfg := sess.Config(cl, 4, ip)
	cfg.ReconnectionPolicy = pol
	cfg.ConvictionPolicy = noConviction{}
	cfg.Timeout = 120 * time.Second
	s, err := createSession(cfg)
	if err != nil {
		return "fatal:" + err.Error()
	}
	defer func() {
		defer func() { recover() }()
		s.Close()
	}()
	h := gocql.VerifHostPools(s)[ip]
	if h == nil || !patient(wd(), func() bool { c, _, _, f := h.State(); return c == 1 && !f }) {
		return "fatal:no pool connection after NewSession"
	}
	mu.Lock()
	armed = true
	base = node.NumDials()
	pol.MaxRetries = n
	mu.Unlock()
	scs := node.ServerConns()
	scs[len(scs)-1].Close()
	// the refill is over: (n = 0) the nil entry is there, or an attempt was made and AFTERWARDS the pool is seen not
	// filling (`filling` is set before the first attempt of a fill and cleared after its last; evaluated in this order)
	patient(wd(), func() bool {
		if h.NilConns() > 0 {
			return true
		}
		if node.NumDials() <= base {
			return false
		}
		_, _, _, f := h.State()
		return !f
	})
	dials := node.NumDials() - base
	conns, _, _, _ := h.State()
	nils := h.NilConns()
	res := "err"
	if nils > 0 {
		res = "nil"
	} else if conns == 1 {
		res = "conn"
	}
	mu.Lock()
	armed = false // whatever Pick starts connects
	mu.Unlock()
	pick := func() (r string) {
		defer func() {
			if x := recover(); x != nil {
				r = "nilderef"
				if !strings.Contains(fmt.Sprint(x), "nil pointer") {
					r = "panic"
				}
			}
		}()
		if h.Pick() {
			return "ok"
		}
		return "none"
	}()
	return fmt.Sprintf("res=%s dials=%d conns=%d nil=%d pick=%s", res, dials, conns, nils, pick)
}
