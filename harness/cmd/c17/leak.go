// Goroutine-leak monitor: every scenario runs under a pprof goroutine label (inherited by every goroutine
// the driver starts on its behalf); after Session.Close no goroutine carrying the scenario's label may
// still be inside a function of github.com/gocql/gocql.
package main

import (
	"bytes"
	"context"
	"fmt"
	"os"
	"runtime/pprof"
	"sort"
	"strings"
	"time"
)

const gocqlPrefix = "github.com/gocql/gocql"

// dumpDir: where goroutine dumps of stalls and leaks go (the run's output directory).
var dumpDir = os.TempDir()

func dumpPath(kind, label string) string {
	return fmt.Sprintf("%s/c17_%s_%s.txt", dumpDir, kind, label)
}

// profileBlocks splits a debug=1 goroutine profile into its stack blocks; the header line ("goroutine profile:
// total N") that precedes the first block is dropped, so that every block starts with its "<count> @ ..." line.
func profileBlocks(text string) []string {
	blks := strings.Split(text, "\n\n")
	for i, blk := range blks {
		blk = strings.TrimSpace(blk)
		if strings.HasPrefix(blk, "goroutine profile:") {
			if j := strings.Index(blk, "\n"); j >= 0 {
				blk = blk[j+1:]
			} else {
				blk = ""
			}
		}
		blks[i] = blk
	}
	return blks
}

// withLabel runs f on a fresh goroutine labelled sc=<label> and waits for it.
func withLabel(label string, f func()) {
	done := make(chan struct{})
	go func() {
		defer close(done)
		pprof.SetGoroutineLabels(pprof.WithLabels(context.Background(), pprof.Labels("sc", label)))
		f()
	}()
	<-done
}

// gocqlGoroutines returns the number of goroutines labelled sc=<label> that have a frame inside gocql,
// the sorted set of their innermost gocql functions, and the raw profile blocks (for the goroutine dump).
func gocqlGoroutines(label string) (int, []string, string) {
	var b bytes.Buffer
	pprof.Lookup("goroutine").WriteTo(&b, 1)
	want := `"sc":"` + label + `"`
	n := 0
	seen := map[string]bool{}
	var raw []string
	for _, blk := range profileBlocks(b.String()) {
		lines := strings.Split(strings.TrimSpace(blk), "\n")
		if len(lines) < 2 {
			continue
		}
		cnt := 0
		for _, c := range lines[0] {
			if c < '0' || c > '9' {
				break
			}
			cnt = cnt*10 + int(c-'0')
		}
		labelled := false
		inner := ""
		for _, l := range lines[1:] {
			if strings.HasPrefix(l, "# labels:") {
				labelled = strings.Contains(l, want)
				continue
			}
			f := strings.Fields(l)
			if len(f) < 3 || inner != "" {
				continue
			}
			fn := f[2]
			if strings.HasPrefix(fn, gocqlPrefix) {
				if i := strings.LastIndex(fn, "+0x"); i > 0 {
					fn = fn[:i]
				}
				fn = strings.TrimPrefix(fn, gocqlPrefix)
				fn = strings.TrimPrefix(fn, ".")
				inner = fn
			}
		}
		if labelled && inner != "" {
			n += cnt
			seen[inner] = true
			raw = append(raw, blk)
		}
	}
	var fns []string
	for f := range seen {
		fns = append(fns, f)
	}
	sort.Strings(fns)
	return n, fns, strings.Join(raw, "\n\n")
}

// waitNoGocqlGoroutines polls until no labelled goroutine is inside gocql (event: the set becomes empty) or
// the watchdog expires; the wall clock decides nothing but when to give up and report what is still there.
func waitNoGocqlGoroutines(label string, watchdog time.Duration) (int, string, string) {
	n, fns, raw := 0, []string(nil), ""
	last := time.Time{}
	if patient(watchdog, func() bool {
		if !last.IsZero() && time.Since(last) < 5*time.Millisecond {
			return false // a goroutine profile stops the world: not more often than every 5 ms
		}
		n, fns, raw = gocqlGoroutines(label)
		last = time.Now()
		return n == 0
	}) {
		return 0, "-", ""
	}
	return n, strings.Join(fns, ","), raw
}

// pendingFills: labelled goroutines that have not run yet (no frames) or whose innermost gocql frame is
// hostConnPool.fill itself (about to take, or blocked before, its closed/filling/size decision).
func pendingFills(label string) int {
	var b bytes.Buffer
	pprof.Lookup("goroutine").WriteTo(&b, 1)
	want := `"sc":"` + label + `"`
	n := 0
	for _, blk := range profileBlocks(b.String()) {
		lines := strings.Split(strings.TrimSpace(blk), "\n")
		if len(lines) < 2 {
			continue
		}
		labelled := false
		frames := 0
		inner := ""
		for _, l := range lines[1:] {
			if strings.HasPrefix(l, "# labels:") {
				labelled = strings.Contains(l, want)
				continue
			}
			f := strings.Fields(l)
			if len(f) < 3 {
				continue
			}
			frames++
			if inner == "" && strings.HasPrefix(f[2], gocqlPrefix) {
				inner = f[2]
			}
		}
		if !labelled {
			continue
		}
		if frames == 0 || strings.HasPrefix(inner, gocqlPrefix+".(*hostConnPool).fill+") {
			n++
		}
	}
	return n
}

// hsReporters: labelled goroutines that run one of the two helper goroutines of startupCoordinator.setupConn
// (the frame reader and the OPTIONS/STARTUP/auth writer).
func hsReporters(label string) int {
	var b bytes.Buffer
	pprof.Lookup("goroutine").WriteTo(&b, 1)
	want := `"sc":"` + label + `"`
	n := 0
	for _, blk := range profileBlocks(b.String()) {
		lines := strings.Split(strings.TrimSpace(blk), "\n")
		if len(lines) < 2 {
			continue
		}
		cnt := 0
		for _, c := range lines[0] {
			if c < '0' || c > '9' {
				break
			}
			cnt = cnt*10 + int(c-'0')
		}
		labelled, helper := false, false
		for _, l := range lines[1:] {
			if strings.HasPrefix(l, "# labels:") {
				labelled = strings.Contains(l, want)
			} else if strings.Contains(l, ".(*startupCoordinator).setupConn.func") {
				helper = true
			}
		}
		if labelled && helper {
			n += cnt
		}
	}
	return n
}
