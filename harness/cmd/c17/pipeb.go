// Scripted-fate scenarios of the connect pipeline (no prediction, monitors only): every attempt has a fate for
// each of its steps (prompt / slow / never / ERROR / reset / held until a triggered event is over), ConnectTimeout
// and Timeout are short so that "never" means an expiry at that step, query traffic keeps triggering fills, the
// default conviction policy removes a host whose fill fails on an empty pool, and events (host removed, removed
// and added again, pool closed, Session.Close, a pool connection reset) fire when a chosen attempt reaches a
// chosen step. The verdict never depends on time: after the traffic stopped the harness polls for quiescence
// (watchdog 20 s) and then checks what is left.
package main

import (
	"errors"
	"fmt"
	"net"
	"os"
	"strings"
	"sync"
	"sync/atomic"
	"time"

	"github.com/gocql/gocql"
	"verifharness/memcluster"
	"verifharness/sess"
	"verifharness/vh"
)

type bFate struct {
	stall   int // index of the step that does not get its prompt regular answer (-1: none)
	kind    int // fNever, fError, fReset, fSlow, fHold
	slowAt  int // index of an earlier step answered slowly (-1: none)
	trigger string
}

func runPipeB(label string, bseed uint64) (obsLine string) {
	// NewSession has to get its first connection within the scenario's short ConnectTimeout: on a starved machine
	// that can fail without any fault of the driver; the scenario is then set up again
	for try := 0; try < 5; try++ {
		withLabel(fmt.Sprintf("%s.%d", label, try), func() { obsLine = runPipeBLabelled(fmt.Sprintf("%s.%d", label, try), bseed) })
		if !strings.HasPrefix(obsLine, "fatal:") {
			break
		}
	}
	return
}

func runPipeBLabelled(label string, bseed uint64) string {
	r := vh.NewRng(bseed)
	cfg := pipeCfg{size: 1 + r.Intn(4), ks: r.Intn(10) < 7, rm: []string{"down", "remove", "sethosts"}[r.Intn(3)]}
	switch r.Intn(4) {
	case 0:
		cfg.auth = 1
	case 1:
		cfg.auth = 2
	}
	hosts := 1 + r.Intn(2)
	if hosts > 1 && cfg.rm == "down" {
		cfg.rm = "remove" // a DOWN event is resolved through the ring's node-to-node index, ambiguous for configured hosts
	}
	ct := time.Duration(100+r.Intn(80)) * time.Millisecond
	stages := stagesOf(cfg)
	var ips []string
	for i := 1; i <= hosts; i++ {
		ips = append(ips, fmt.Sprintf("10.0.0.%d", i))
	}
	cl := memcluster.NewCluster(4, ips...)
	ks := ""
	if cfg.ks {
		ks = "ks"
	}
	var s *gocql.Session
	sessReady := make(chan struct{})
	var evMu sync.Mutex
	evN, evStop := 0, false
	var closedByEvent int32
	gates := map[string]*gate{}
	nTrig := 0
	for hi, ip := range ips {
		ip := ip
		node := cl.Nodes[ip]
		g := newGate(ks, cfg.auth)
		g.auto[1] = true
		g.cerr = cerrSel(int(bseed % 3)) // one scenario in three: every transport's Close reports an error, one in three: the odd ones
		gates[ip] = g
		hr := vh.NewRng(bseed*31 + uint64(hi) + 1)
		fates := map[int]*bFate{}
		for id := 2; id <= 14; id++ {
			f := &bFate{stall: -1, slowAt: -1}
			if hr.Intn(100) >= 30 {
				f.stall = hr.Intn(len(stages))
				if hr.Intn(3) == 0 {
					f.stall = len(stages) - 1
				}
				f.kind = []int{fNever, fNever, fNever, fError, fReset, fSlow, fHold, fHold}[hr.Intn(8)]
				if f.stall > 0 && hr.Intn(10) < 6 {
					f.slowAt = hr.Intn(f.stall)
				}
				if f.kind == fHold || hr.Intn(4) == 0 {
					f.trigger = []string{"down", "down+up", "sclose", "pclose", "reset", "down"}[hr.Intn(6)]
					nTrig++
				}
			}
			fates[id] = f
		}
		g.fate = func(id int, stage string, idx int) (int, time.Duration) {
			f := fates[id]
			if f == nil {
				return fOK, 0
			}
			switch {
			case idx == f.slowAt:
				return fSlow, ct * 35 / 100
			case idx == f.stall:
				if f.kind == fSlow {
					return fSlow, ct * 45 / 100
				}
				if stage == stDial && (f.kind == fNever || f.kind == fReset) {
					return f.kind, ct / 2
				}
				return f.kind, 0
			}
			return fOK, 0
		}
		g.onArr = func(id int, stage string, idx int) {
			f := fates[id]
			if f == nil || f.trigger == "" {
				return
			}
			if idx != f.stall {
				return
			}
			trig := f.trigger
			evMu.Lock()
			if evStop { // the scenario is being wound up: no more events, a held step is just answered
				evMu.Unlock()
				if f.kind == fHold {
					go g.release(id, fOK)
				}
				return
			}
			evN++
			evMu.Unlock()
			go func() {
				defer func() { evMu.Lock(); evN--; evMu.Unlock() }()
				<-sessReady
				if s == nil {
					return
				}
				host := gocql.VerifHostByIP(s, net.ParseIP(ip))
				h := gocql.VerifHostPools(s)[ip]
				switch trig {
				case "down", "down+up":
					if host != nil {
						switch cfg.rm {
						case "remove":
							gocql.VerifRemoveHost(s, host)
						case "sethosts":
							gocql.VerifPoolSetHosts(s, host)
						default:
							gocql.VerifNodeDown(s, host)
						}
						if h != nil {
							waitUntil(func() bool { _, _, x, _ := h.State(); return x })
						}
						if trig == "down+up" {
							gocql.VerifAddHost(s, host)
						}
					}
				case "pclose":
					if h != nil {
						h.Close()
					}
				case "sclose":
					atomic.StoreInt32(&closedByEvent, 1)
					s.Close()
				case "reset":
					for _, sc := range cl.Nodes[ip].ServerConns() {
						if sc.ID != id {
							sc.Close()
							break
						}
					}
				}
				if f.kind == fHold {
					g.release(id, fOK)
				}
			}()
		}
		g.install(node)
		node.Handle = func(req *memcluster.Request) {
			req.Conn.Reply(req.Stream, memcluster.OpResult, memcluster.VoidBody())
		}
	}
	gc := sess.Config(cl, 4, ips...)
	gc.NumConns = cfg.size
	gc.Keyspace = ks
	gc.Timeout = ct + 30*time.Millisecond
	gc.ConnectTimeout = ct
	if cfg.auth > 0 {
		gc.Authenticator = verifAuth{}
	}
	if bseed%5 < 2 {
		// a per-host AuthProvider that fails for some attempts only (every third call; never the first: NewSession)
		var calls int32
		gc.Authenticator = nil
		gc.AuthProvider = func(*gocql.HostInfo) (gocql.Authenticator, error) {
			if n := atomic.AddInt32(&calls, 1); n%3 == 0 {
				return nil, errors.New("verif: AuthProvider has no credentials for this host")
			}
			return verifAuth{}, nil
		}
	}
	var err error
	s, err = gc.CreateSession()
	if err != nil {
		s = nil
		close(sessReady)
		return "fatal:" + err.Error()
	}
	close(sessReady)
	// sampler over every pool that was ever seen registered
	var pmu sync.Mutex
	var pools []*gocql.VerifHostPool
	var maxConns, closedConns int64
	collect := func() {
		for _, h := range gocql.VerifHostPools(s) {
			known := false
			pmu.Lock()
			for _, k := range pools {
				if k.Same(h) {
					known = true
				}
			}
			if !known {
				pools = append(pools, h)
			}
			pmu.Unlock()
		}
	}
	sample := func() {
		collect()
		pmu.Lock()
		ps := append([]*gocql.VerifHostPool(nil), pools...)
		pmu.Unlock()
		for _, p := range ps {
			n, _, x, _ := p.State()
			if int64(n) > atomic.LoadInt64(&maxConns) {
				atomic.StoreInt64(&maxConns, int64(n))
			}
			if x && int64(n) > atomic.LoadInt64(&closedConns) {
				atomic.StoreInt64(&closedConns, int64(n))
			}
		}
	}
	stop := make(chan struct{})
	var bg sync.WaitGroup
	bg.Add(1)
	go func() {
		defer bg.Done()
		for {
			select {
			case <-stop:
				return
			default:
			}
			sample()
			time.Sleep(100 * time.Microsecond)
		}
	}()
	tstop := make(chan struct{})
	var twg sync.WaitGroup
	for w := 0; w < 3; w++ {
		twg.Add(1)
		go func() {
			defer twg.Done()
			for {
				select {
				case <-tstop:
					return
				default:
				}
				s.Query("PING c17").Exec()
				time.Sleep(400 * time.Microsecond)
			}
		}()
	}
	time.Sleep(2*ct + 60*time.Millisecond)
	close(tstop)
	twg.Wait()
	evMu.Lock()
	evStop = true
	evMu.Unlock()
	waitUntil(func() bool { evMu.Lock(); defer evMu.Unlock(); return evN == 0 })
	// quiescence: no pool is filling and every open socket is a connection of an open pool
	orphans := 0
	if !patient(wd(), func() bool {
		sample()
		pmu.Lock()
		ps := append([]*gocql.VerifHostPool(nil), pools...)
		pmu.Unlock()
		filling := false
		var inOpen []net.Conn
		reg := gocql.VerifHostPools(s)
		for _, p := range ps {
			_, _, x, f := p.State()
			if f {
				filling = true
			}
			registered := false
			for _, q := range reg {
				if q.Same(p) {
					registered = true
				}
			}
			if !x && registered {
				inOpen = append(inOpen, p.NetConns()...) // only a registered pool counts as "an open pool"
			}
		}
		orphans = 0
		for _, n := range cl.Nodes {
			for _, cc := range n.ClientConns() {
				if cc.IsClosed() {
					continue
				}
				found := false
				for _, nc := range inOpen {
					if nc == net.Conn(cc) {
						found = true
					}
				}
				if !found {
					orphans++
				}
			}
		}
		return !filling && orphans == 0
	}) {
		if orphans == 0 {
			orphans = -1 // a filler that never stops
		}
		atomic.AddInt64(&failures, 1)
		os.WriteFile(dumpPath("stall", label), []byte("no quiescence\n"+stacks()), 0o644)
	}
	stalled := 0
	if orphans < 0 {
		stalled, orphans = 1, 0
	}
	cdone := make(chan struct{})
	go func() { s.Close(); close(cdone) }()
	if !closedWithin(cdone, wd()) {
		atomic.AddInt64(&failures, 1)
		stalled = 1
		os.WriteFile(dumpPath("stall", label), []byte("Session.Close hangs\n"+stacks()), 0o644)
	}
	for _, g := range gates {
		g.releaseAllDials()
	}
	after := 0
	patient(wd(), func() bool {
		after = 0
		for _, n := range cl.Nodes {
			after += openSockets(n)
		}
		return after == 0
	})
	close(stop)
	bg.Wait()
	if after > 0 {
		atomic.AddInt64(&failures, 1)
	}
	leaked, fns, raw := waitNoGocqlGoroutines(label, wd())
	if leaked > 0 {
		atomic.AddInt64(&failures, 1)
		os.WriteFile(dumpPath("leak", label), []byte(raw), 0o644)
	}
	_ = strings.Join
	return fmt.Sprintf("pipeobs kind=B %s maxconns=%d orphans=%d closedconns=%d afterclose=%d leaked=%d stack=%s stalled=%d sched=bseed:%d,hosts:%d,ct:%d,triggers:%d",
		cfg, atomic.LoadInt64(&maxConns), orphans, atomic.LoadInt64(&closedConns), after, leaked, fns, stalled, bseed, hosts, ct/time.Millisecond, nTrig)
}

func waitUntil(cond func() bool) bool { return patient(wd(), cond) }
