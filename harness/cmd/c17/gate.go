// The in-memory peer of the connect pipeline: every step between dial and pool append of every connection
// attempt (dial, OPTIONS, STARTUP, AUTH_RESPONSE rounds, USE <keyspace>) arrives at a gate and is either
// answered by a scripted fate or held until the conductor decides what happens to it.
package main

import (
	"errors"
	"strings"
	"sync"
	"time"

	"verifharness/memcluster"
)

const (
	stDial = "dial"
	stOpt  = "opt"
	stSt   = "st"
	stAu   = "au"
	stUse  = "use"
)

// what the peer does with one step of one attempt
const (
	fOK    = iota // the regular answer, at once
	fSlow         // the regular answer after `delay`
	fNever        // no answer, ever
	fError        // an ERROR frame (dial: connection refused)
	fReset        // the server closes the connection (dial: connection refused after `delay`)
	fHold         // held until the conductor / a trigger releases it
)

type att struct {
	id      int
	stage   string // the step whose request has arrived and is not answered yet ("" = none)
	seq     int    // number of held arrivals so far
	n       int    // number of pipeline steps seen so far (dial = step 0)
	sc      *memcluster.ServerConn
	f       *memcluster.Frame
	dialCh  chan error
	auLeft  int
	seenOpt bool
}

type gate struct {
	mu         sync.Mutex
	atts       map[int]*att
	ks         string
	authRounds int
	// fate scripts a step; nil = hold everything except the attempts in `auto`
	// (ord = how many steps of this attempt came before: dial 0, OPTIONS 1, STARTUP 2, ...)
	fate  func(id int, stage string, ord int) (int, time.Duration)
	auto  map[int]bool
	onArr func(id int, stage string, ord int) // called (outside the lock) on every held or scripted arrival
	// cerr: the transport of connection id reports an error from Close() (after having closed), as tls.Conn.Close does
	// when its close_notify cannot be written; nil = never
	cerr func(id int) bool
}

// errCloseNotify is what a transport with the close-error fault returns from Close.
var errCloseNotify = errors.New("memcluster: close_notify could not be written")

// closeErrEvery installs the close-error fault on a node without a gate: connection id reports an error from
// Close() when sel(id).
func closeErrEvery(n *memcluster.Node, sel func(id int) bool) {
	prev := n.OnConn
	n.OnConn = func(sc *memcluster.ServerConn) {
		if sel(sc.ID) {
			sc.Cli.SetCloseErr(errCloseNotify)
		}
		if prev != nil {
			prev(sc)
		}
	}
}

func newGate(ks string, authRounds int) *gate {
	return &gate{atts: map[int]*att{}, ks: ks, authRounds: authRounds, auto: map[int]bool{}}
}

func (g *gate) get(id int) *att {
	a := g.atts[id]
	if a == nil {
		a = &att{id: id}
		g.atts[id] = a
	}
	return a
}

func (g *gate) install(n *memcluster.Node) {
	n.DialHook = g.dialHook
	n.OnConn = func(sc *memcluster.ServerConn) {
		g.mu.Lock()
		g.get(sc.ID).sc = sc
		ce := g.cerr
		g.mu.Unlock()
		if ce != nil && ce(sc.ID) {
			sc.Cli.SetCloseErr(errCloseNotify)
		}
	}
	n.FrameHook = g.frameHook
}

func (g *gate) decide(id int, stage string, ord int) (int, time.Duration) {
	if g.auto[id] {
		return fOK, 0
	}
	if g.fate != nil {
		return g.fate(id, stage, ord)
	}
	return fHold, 0
}

func (g *gate) dialHook(_ *memcluster.Node, id int) error {
	g.mu.Lock()
	a := g.get(id)
	ord := a.n
	a.n++
	k, d := g.decide(id, stDial, ord)
	if k == fHold {
		a.stage = stDial
		a.seq++
		a.dialCh = make(chan error, 1)
	}
	ch := a.dialCh
	cb := g.onArr
	g.mu.Unlock()
	if cb != nil && !g.auto[id] {
		cb(id, stDial, ord)
	}
	switch k {
	case fHold:
		return <-ch
	case fSlow:
		time.Sleep(d)
	case fError:
		return errors.New("memcluster: connection refused")
	case fReset, fNever:
		time.Sleep(d)
		return errors.New("memcluster: connection timed out")
	}
	return nil
}

func (g *gate) frameHook(sc *memcluster.ServerConn, f *memcluster.Frame) bool {
	stage := ""
	switch f.Op {
	case memcluster.OpOptions:
		stage = stOpt
	case memcluster.OpStartup:
		stage = stSt
	case memcluster.OpAuthResponse:
		stage = stAu
	case memcluster.OpQuery:
		r := &memcluster.R{B: f.Body}
		if strings.HasPrefix(r.LongString(), "USE ") {
			stage = stUse
		}
	}
	if stage == "" {
		return false
	}
	g.mu.Lock()
	a := g.get(sc.ID)
	a.sc = sc
	if stage == stOpt {
		if a.seenOpt { // a heart beat of an established connection
			g.mu.Unlock()
			return false
		}
		a.seenOpt = true
	}
	if a.n == 0 {
		a.n = 1 // the dial was not gated (should not happen)
	}
	ord := a.n
	a.n++
	k, d := g.decide(sc.ID, stage, ord)
	a.f = f
	if k == fHold {
		a.stage = stage
		a.seq++
	}
	cb := g.onArr
	auto := g.auto[sc.ID]
	g.mu.Unlock()
	if cb != nil && !auto {
		cb(sc.ID, stage, ord)
	}
	switch k {
	case fOK:
		g.answer(a, stage, f, true)
	case fSlow:
		go func() { time.Sleep(d); g.answer(a, stage, f, true) }()
	case fError:
		g.answer(a, stage, f, false)
	case fReset:
		sc.Close()
	}
	return true
}

// answer sends the regular reply of that step (ok) or an ERROR frame.
func (g *gate) answer(a *att, stage string, f *memcluster.Frame, ok bool) {
	sc := a.sc
	if !ok {
		sc.Reply(f.Stream, memcluster.OpError, memcluster.ErrorBody(0x0000, "verif: scripted server error", nil))
		return
	}
	switch stage {
	case stOpt:
		w := &memcluster.W{}
		w.StringMultiMap(map[string][]string{"CQL_VERSION": {"3.0.0"}})
		sc.Reply(f.Stream, memcluster.OpSupported, w.B)
	case stSt:
		if g.authRounds > 0 {
			g.mu.Lock()
			a.auLeft = g.authRounds
			g.mu.Unlock()
			w := &memcluster.W{}
			w.String("org.apache.cassandra.auth.PasswordAuthenticator")
			sc.Reply(f.Stream, memcluster.OpAuthenticate, w.B)
		} else {
			sc.Reply(f.Stream, memcluster.OpReady, nil)
		}
	case stAu:
		g.mu.Lock()
		a.auLeft--
		left := a.auLeft
		g.mu.Unlock()
		w := &memcluster.W{}
		if left > 0 {
			w.Bytes([]byte("again"))
			sc.Reply(f.Stream, memcluster.OpAuthChallenge, w.B)
		} else {
			w.Bytes(nil)
			sc.Reply(f.Stream, memcluster.OpAuthSuccess, w.B)
		}
	case stUse:
		w := &memcluster.W{}
		w.Int(3) // RESULT kind Set_keyspace
		w.String(g.ks)
		sc.Reply(f.Stream, memcluster.OpResult, w.B)
	}
}

// held returns the step attempt id is held at ("" if none) and its arrival counter.
func (g *gate) held(id int) (string, int) {
	g.mu.Lock()
	defer g.mu.Unlock()
	a := g.atts[id]
	if a == nil {
		return "", 0
	}
	return a.stage, a.seq
}

// release answers the held step of attempt id: ok = the regular answer, otherwise how it fails
// (fError: ERROR frame / dial error; fReset: the server closes the connection).
func (g *gate) release(id int, kind int) bool {
	g.mu.Lock()
	a := g.atts[id]
	if a == nil || a.stage == "" {
		g.mu.Unlock()
		return false
	}
	stage, f, ch := a.stage, a.f, a.dialCh
	a.stage = ""
	g.mu.Unlock()
	if stage == stDial {
		if kind == fOK {
			ch <- nil
		} else {
			ch <- errors.New("memcluster: connection refused")
		}
		return true
	}
	switch kind {
	case fOK:
		g.answer(a, stage, f, true)
	case fError:
		g.answer(a, stage, f, false)
	case fReset:
		a.sc.Close()
	}
	return true
}

// releaseAllDials fails every dial still held (so that no goroutine of the driver stays inside DialHost).
func (g *gate) releaseAllDials() {
	g.mu.Lock()
	var ids []int
	for id, a := range g.atts {
		if a.stage == stDial {
			ids = append(ids, id)
		}
	}
	g.mu.Unlock()
	for _, id := range ids {
		g.release(id, fError)
	}
}

// maxID is the highest attempt id the peer has seen.
func (g *gate) maxID() int {
	g.mu.Lock()
	defer g.mu.Unlock()
	m := 0
	for id := range g.atts {
		if id > m {
			m = id
		}
	}
	return m
}

// heldIDs lists the attempts currently held, ascending.
func (g *gate) heldIDs() []int {
	g.mu.Lock()
	defer g.mu.Unlock()
	var ids []int
	for id, a := range g.atts {
		if a.stage != "" {
			ids = append(ids, id)
		}
	}
	sortInts(ids)
	return ids
}

func sortInts(a []int) {
	for i := 1; i < len(a); i++ {
		for j := i; j > 0 && a[j-1] > a[j]; j-- {
			a[j-1], a[j] = a[j], a[j-1]
		}
	}
}
