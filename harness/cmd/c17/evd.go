// The event debouncers (events.go: node and schema events) against stop() / Session.Close at each program point of
// the flusher: conducted schedules on a real eventDebouncer — debounce() calls, the debounce timer made to expire by
// hand, somebody slow inside e.mu (the harness holds the mutex: the flusher that has chosen its timer branch waits in
// front of it), stop() — whose every intermediate state the Lean model (Model/PoolCtl.lean, EvDeb) predicts (op `evd`);
// the same schedules on a Session's own node / schema debouncer with Session.Close in the place of stop() (op
// `evdsess`, monitors only); racing rounds (op `evdrace`). Monitors: stop() / Session.Close returns, the flusher exits,
// nothing of the scenario is left inside gocql.
package main

import (
	"fmt"
	"os"
	"strings"
	"sync"
	"sync/atomic"
	"time"

	"github.com/gocql/gocql"
	"verifharness/memcluster"
	"verifharness/sess"
	"verifharness/vh"
)

const (
	evFlusherFrame = ".(*eventDebouncer).flusher"
	evStopFrame    = ".(*eventDebouncer).stop"
	semFrame       = "SemacquireMutex"
)

// evm mirrors the Lean model's macro steps (Driver/C17.lean evdMacro) so that the conductor knows which effect of an
// action to wait for; what is RECORDED is what the real goroutines are seen doing.
type evm struct {
	held, armed, fired bool
	flusherHolds       bool
	events, cb         int
	f, s               byte // f: S L F X   s: I S C D
}

func (m *evm) can(a string) bool {
	switch a {
	case "deb", "hlock":
		return !m.held && !m.flusherHolds
	case "fire":
		return m.armed
	case "hunlock":
		return m.held
	case "stop":
		return m.s == 'I'
	}
	return false
}

func (m *evm) settle() {
	for i := 0; i < 8; i++ {
		switch {
		case m.f == 'S' && m.fired:
			m.f, m.fired = 'L', false
		case m.f == 'L' && !m.held:
			m.f, m.flusherHolds = 'F', true
		case m.f == 'F':
			if m.events > 0 {
				m.cb++
			}
			m.events, m.f, m.flusherHolds = 0, 'S', false
		case m.f == 'S' && m.s == 'S':
			m.f, m.s = 'X', 'C'
		case m.s == 'C':
			m.s = 'D'
		default:
			return
		}
	}
}

func (m *evm) apply(a string) {
	switch a {
	case "deb":
		m.armed = true
		m.events++
	case "fire":
		m.armed, m.fired = false, true
	case "hlock":
		m.held = true
	case "hunlock":
		m.held = false
	case "stop":
		m.s = 'S'
	}
	m.settle()
}

func (m *evm) show() string { return fmt.Sprintf("f%cs%cc%d", m.f, m.s, m.cb) }

// genEvdActs: random valid schedules; one in three starts from the patterns in which stop() meets a flusher that is
// (or is about to be) committed to its timer branch while somebody else is inside e.mu.
func genEvdActs(r *vh.Rng) []string {
	m := &evm{f: 'S', s: 'I'}
	var acts []string
	add := func(a string) bool {
		if !m.can(a) {
			return false
		}
		m.apply(a)
		acts = append(acts, a)
		return true
	}
	switch r.Intn(6) {
	case 0:
		for _, a := range []string{"deb", "hlock", "stop", "fire", "hunlock"} {
			add(a)
		}
	case 1:
		for _, a := range []string{"deb", "hlock", "fire", "stop", "hunlock"} {
			add(a)
		}
	}
	n := 3 + r.Intn(8)
	for i := 0; i < n*4 && len(acts) < n; i++ {
		add([]string{"deb", "deb", "fire", "fire", "hlock", "hunlock", "stop"}[r.Intn(7)])
	}
	add("hunlock")
	add("stop")
	add("hunlock")
	return acts
}

// returns: a call into the debouncer that takes e.mu (debounce, Lock) is made on a goroutine of its own and waited for
// with the watchdog: on a tree in which stop() sits on the mutex it never comes back, and the conductor must not hang.
func returns(limit time.Duration, f func()) bool {
	ch := make(chan struct{})
	go func() { f(); close(ch) }()
	return closedWithin(ch, limit)
}

func runEvd(label string, fixed []string, r *vh.Rng) (op, impl, obs string) {
	withLabel(label, func() { op, impl, obs = runEvdLabelled(label, fixed, r) })
	return
}

func runEvdLabelled(label string, fixed []string, r *vh.Rng) (string, string, string) {
	d := gocql.VerifNewEventDebouncer()
	m := &evm{f: 'S', s: 'I'}
	var stopRet chan struct{}
	observe := func() string {
		f := byte('S')
		if labelledIn(label, evFlusherFrame) == 0 {
			f = 'X'
		} else if labelledBoth(label, evFlusherFrame, semFrame) > 0 {
			f = 'L'
		}
		s := byte('I')
		if stopRet != nil {
			select {
			case <-stopRet:
				s = 'D'
			default:
				switch {
				case labelledBoth(label, evStopFrame, semFrame) > 0:
					s = 'M' // stop() waits for e.mu
				case labelledIn(label, evStopFrame) > 0:
					s = 'S'
				default:
					s = '?'
				}
			}
		}
		return fmt.Sprintf("f%cs%cc%d", f, s, d.Callbacks())
	}
	acts := fixed
	if acts == nil {
		acts = genEvdActs(r)
	}
	var done, states []string
	first := ""
	patient(wd(), profiled(func() bool { first = observe(); return first == m.show() })) // the flusher goroutine has started
	states = append(states, first)
	stalled := false
	held := false
	for _, a := range acts {
		if !m.can(a) {
			if fixed != nil {
				done = append(done, a)
				states = append(states, "skip")
			}
			continue
		}
		blocked := false
		limit := wd()
		if stalled {
			limit = 250 * time.Millisecond
		}
		switch a {
		case "deb":
			blocked = !returns(limit, func() { d.Debounce(); d.Postpone() })
		case "fire":
			d.Fire()
		case "hlock":
			blocked = !returns(limit, d.Lock)
			held = !blocked
		case "hunlock":
			d.Unlock()
			held = false
		case "stop":
			stopRet = make(chan struct{})
			go func() { d.Stop(); close(stopRet) }()
		}
		if blocked {
			// e.mu is never released: nothing more can be conducted
			atomic.AddInt64(&tieStalls, 1)
			os.WriteFile(dumpPath("stall", label), []byte(a+": the call does not return\n"+stacks()), 0o644)
			done = append(done, a)
			states = append(states, "stall:"+a+"-does-not-return")
			break
		}
		m.apply(a)
		want := m.show()
		got := ""
		if !patient(limit, profiled(func() bool { got = observe(); return got == want })) && !stalled {
			stalled = true
			atomic.AddInt64(&tieStalls, 1)
			os.WriteFile(dumpPath("stall", label), []byte(a+": want "+want+" got "+got+"\n"+stacks()), 0o644)
		}
		done = append(done, a)
		states = append(states, got)
	}
	// wind up: nobody inside e.mu, stop() called; then the monitors
	if held {
		d.Unlock()
	}
	if stopRet == nil {
		stopRet = make(chan struct{})
		go func() { d.Stop(); close(stopRet) }()
	}
	stopret := 1
	if !closedWithin(stopRet, wd()) {
		stopret = 0
		atomic.AddInt64(&failures, 1)
		os.WriteFile(dumpPath("hang", label), []byte(stacks()), 0o644)
	}
	wdEnd := wd()
	if stopret == 0 {
		wdEnd = time.Second
	}
	left := 0
	if !patient(wdEnd, profiled(func() bool { return labelledIn(label, evFlusherFrame) == 0 })) {
		left = labelledIn(label, evFlusherFrame)
	}
	leaked, _, _ := waitNoGocqlGoroutines(label, wdEnd)
	sched := strings.Join(done, ",")
	if sched == "" {
		sched = "-"
	}
	return "evd : " + strings.Join(done, " "), strings.Join(states, ";"),
		fmt.Sprintf("evdobs stopret=%d flusherleft=%d leaked=%d sched=%s", stopret, left, leaked, sched)
}

// runEvdSess: the schedule on a Session's own node / schema event debouncer, Session.Close in the place of stop().
func runEvdSess(label, which string, acts []string) (line string) {
	withLabel(label, func() { line = runEvdSessLabelled(label, which, acts) })
	return
}

func runEvdSessLabelled(label, which string, acts []string) string {
	cl := memcluster.NewCluster(4, "10.0.0.1")
	cl.Nodes["10.0.0.1"].Handle = func(req *memcluster.Request) {
		req.Conn.Reply(req.Stream, memcluster.OpResult, memcluster.VoidBody())
	}
	cfg := sess.Config(cl, 4, "10.0.0.1")
	s, err := createSession(cfg)
	if err != nil {
		return "fatal:" + err.Error()
	}
	node, schema := gocql.VerifSessionEventDebouncers(s)
	d := node
	if which == "schema" {
		d = schema
	}
	m := &evm{f: 'S', s: 'I'}
	var closeRet chan struct{}
	held := false
	closeret := -1
	var done []string
	for _, a := range acts {
		if !m.can(a) || closeret == 0 {
			continue
		}
		prevF := m.f
		wasHeld := held
		blocked := false
		switch a {
		case "deb":
			blocked = !returns(wd(), func() { d.Debounce(); d.Postpone() })
		case "fire":
			d.Fire()
		case "hlock":
			blocked = !returns(wd(), d.Lock)
			held = !blocked
		case "hunlock":
			d.Unlock()
			held = false
		case "stop":
			closeRet = make(chan struct{})
			go func() { s.Close(); close(closeRet) }()
		}
		if blocked {
			done = append(done, a)
			break
		}
		m.apply(a)
		done = append(done, a)
		// the effect the model predicts is waited for (an event); what does not come is left to the monitors
		if (a == "fire" && !wasHeld && prevF == 'S') || (a == "hunlock" && prevF == 'L') {
			// the flusher took its timer branch and has flushed: the buffer is empty again
			if !returns(wd(), func() {
				for d.Buffered() != 0 {
					time.Sleep(50 * time.Microsecond)
				}
			}) {
				break
			}
		}
		if m.f == 'L' && prevF != 'L' {
			patient(wd(), profiled(func() bool { return labelledBoth(label, evFlusherFrame, semFrame) > 0 }))
		}
		if closeRet != nil && closeret < 0 {
			if m.s == 'S' {
				patient(wd(), profiled(func() bool { return labelledIn(label, evStopFrame) > 0 }))
			} else if m.s == 'D' {
				if closedWithin(closeRet, wd()) {
					closeret = 1
				} else {
					closeret = 0
				}
			}
		}
	}
	if held {
		d.Unlock()
	}
	if closeRet == nil {
		closeRet = make(chan struct{})
		go func() { s.Close(); close(closeRet) }()
	}
	if closeret < 0 {
		closeret = 0
		if closedWithin(closeRet, wd()) {
			closeret = 1
		}
	}
	wdEnd := wd()
	qe := "other"
	if closeret == 0 {
		atomic.AddInt64(&failures, 1)
		os.WriteFile(dumpPath("hang", label), []byte(stacks()), 0o644)
		wdEnd = time.Second
	} else if err := s.Query("PING after").Exec(); err == gocql.ErrSessionClosed {
		qe = "closed"
	} else if err == nil {
		qe = "nil"
	}
	leaked, fns, raw := waitNoGocqlGoroutines(label, wdEnd)
	if leaked > 0 {
		atomic.AddInt64(&failures, 1)
		os.WriteFile(dumpPath("leak", label), []byte(raw), 0o644)
	}
	sched := strings.Join(done, ",")
	if sched == "" {
		sched = "-"
	}
	return fmt.Sprintf("evdsess which=%s closeret=%d leaked=%d stack=%s queryerr=%s sched=%s", which, closeret, leaked, fns, qe, sched)
}

// evdRace: rounds in which stop() is released from a spin barrier together with the release of e.mu (the flusher,
// already committed to its timer branch, waits in front of it), the timer's expiry and debounce() calls.
func evdRace(label string, rounds int, r *vh.Rng) (line string) {
	withLabel(label, func() { line = evdRaceLabelled(label, rounds, r) })
	return
}

func evdRaceLabelled(label string, rounds int, r *vh.Rng) string {
	hung := 0
	for i := 0; i < rounds && hung < 3; i++ {
		d := gocql.VerifNewEventDebouncer()
		d.Debounce()
		locked := i%2 == 0
		if locked {
			d.Lock()
			d.Fire()
			for t0 := time.Now(); time.Since(t0) < time.Duration(10+r.Intn(150))*time.Microsecond; {
			}
		}
		nDeb := r.Intn(3)
		parties := int32(2 + nDeb)
		var gate int32
		var wg sync.WaitGroup
		arrive := func() {
			atomic.AddInt32(&gate, 1)
			for atomic.LoadInt32(&gate) < parties {
			}
		}
		stopRet := make(chan struct{})
		wg.Add(1)
		go func() {
			defer wg.Done()
			arrive()
			if locked {
				d.Unlock()
			} else {
				d.Fire()
			}
		}()
		go func() { arrive(); d.Stop(); close(stopRet) }()
		for k := 0; k < nDeb; k++ {
			wg.Add(1)
			go func() { defer wg.Done(); arrive(); d.Debounce() }()
		}
		if !closedWithin(stopRet, wd()) {
			hung++
			atomic.AddInt64(&failures, 1)
			os.WriteFile(dumpPath("hang", label), []byte(stacks()), 0o644)
			continue
		}
		wg.Wait()
	}
	left := 0
	limit := wd()
	if hung > 0 {
		limit = time.Second
	}
	if !patient(limit, profiled(func() bool { return labelledIn(label, evFlusherFrame) == 0 })) {
		left = labelledIn(label, evFlusherFrame)
	}
	return fmt.Sprintf("evdrace rounds=%d hung=%d flusherleft=%d", rounds, hung, left)
}

func evdMonitorsOf(line string) string {
	var out []string
	for _, w := range strings.Fields(line) {
		for _, k := range []string{"stopret=", "flusherleft=", "leaked=", "closeret=", "queryerr="} {
			if strings.HasPrefix(w, k) {
				out = append(out, w)
			}
		}
	}
	return strings.Join(out, " ")
}
