// Harness for C17 (pools stay within bounds; a session always closes): real Sessions on the in-memory
// cluster with scripted dial outcomes (fast failure, slow success, success), server-side connection resets
// (error callbacks → refill), query traffic (Pick-triggered fills), and Session.Close — single, repeated,
// concurrent, with queries in flight. A monitor goroutine samples the pools and the sockets.
package main

import (
	"errors"
	"fmt"
	"os"
	"runtime"
	"strconv"
	"strings"
	"sync"
	"sync/atomic"
	"time"

	"github.com/gocql/gocql"
	"verifharness/memcluster"
	"verifharness/sess"
	"verifharness/vh"
)

type poolScenario struct {
	size     int
	hosts    int
	dialFate []int // per dial index (per host): 0 ok, 1 fail fast, 2 slow ok, 3 slow fail
	resets   int   // number of server-side resets during the run
	cerr     int   // transports whose Close() reports an error: 0 none, 1 all, 2 odd ids
	millis   int
	seed     uint64
}

func openSockets(n *memcluster.Node) int {
	c := 0
	for _, cc := range n.ClientConns() {
		if !cc.IsClosed() {
			c++
		}
	}
	return c
}

func runPool(sc poolScenario) (string, string) {
	var ips []string
	for i := 1; i <= sc.hosts; i++ {
		ips = append(ips, fmt.Sprintf("10.0.0.%d", i))
	}
	cl := memcluster.NewCluster(4, ips...)
	for _, n := range cl.Nodes {
		n := n
		n.Handle = func(req *memcluster.Request) {
			req.Conn.Reply(req.Stream, memcluster.OpResult, memcluster.VoidBody())
		}
		n.DialHook = func(_ *memcluster.Node, id int) error {
			f := 0
			if id-1 < len(sc.dialFate) {
				f = sc.dialFate[id-1]
			}
			switch f {
			case 1:
				return errors.New("memcluster: connection refused")
			case 2:
				time.Sleep(time.Duration(150+id%3*40) * time.Millisecond)
			case 3:
				time.Sleep(60 * time.Millisecond)
				return errors.New("memcluster: connection timed out")
			}
			return nil
		}
		if sel := cerrSel(sc.cerr); sel != nil {
			closeErrEvery(n, sel)
		}
	}
	cfg := sess.Config(cl, 4, ips...)
	cfg.NumConns = sc.size
	cfg.Timeout = 300 * time.Millisecond
	s, err := createSession(cfg)
	if err != nil {
		return "fatal:" + err.Error(), "fatal"
	}
	var maxConns, maxOpen int64
	stop := make(chan struct{})
	var mwg sync.WaitGroup
	mwg.Add(1)
	go func() {
		defer mwg.Done()
		for {
			select {
			case <-stop:
				return
			default:
			}
			for _, st := range gocql.VerifPoolState(s) {
				if int64(st[0]) > atomic.LoadInt64(&maxConns) {
					atomic.StoreInt64(&maxConns, int64(st[0]))
				}
			}
			for _, n := range cl.Nodes {
				if o := int64(openSockets(n)); o > atomic.LoadInt64(&maxOpen) {
					atomic.StoreInt64(&maxOpen, o)
				}
			}
			time.Sleep(100 * time.Microsecond)
		}
	}()
	// traffic: every Pick on a short pool triggers `go pool.fill()`
	var twg sync.WaitGroup
	tstop := make(chan struct{})
	for w := 0; w < 4; w++ {
		twg.Add(1)
		go func() {
			defer twg.Done()
			for {
				select {
				case <-tstop:
					return
				default:
				}
				s.Query("PING c17").Exec()
				time.Sleep(300 * time.Microsecond)
			}
		}()
	}
	r := vh.NewRng(sc.seed)
	deadline := time.Now().Add(time.Duration(sc.millis) * time.Millisecond)
	resets := sc.resets
	for time.Now().Before(deadline) {
		time.Sleep(time.Duration(5+r.Intn(40)) * time.Millisecond)
		if resets > 0 {
			resets--
			// connection loss reported to the pool through the conn's error handler
			n := cl.Nodes[ips[r.Intn(len(ips))]]
			scs := n.ServerConns()
			if len(scs) > 0 {
				scs[r.Intn(len(scs))].Close()
			}
		}
	}
	// let the pools settle: every lost connection must have been replaced
	final := -1
	// an event (every pool full, no filler) is waited for, not a duration
	if patient(watchdogFull, func() bool {
		ok := true
		for _, st := range gocql.VerifPoolState(s) {
			if st[0] != sc.size || st[3] != 0 {
				ok = false
			}
		}
		return ok && len(gocql.VerifPoolState(s)) == sc.hosts
	}) {
		final = sc.size
	}
	if final < 0 {
		final = 0
		for _, st := range gocql.VerifPoolState(s) {
			if st[0] > final {
				final = st[0]
			}
		}
		if final == sc.size {
			final = sc.size - 1 // some host pool is short
		}
	}
	close(tstop)
	twg.Wait()
	cdone := make(chan struct{})
	go func() { s.Close(); close(cdone) }()
	if !closedWithin(cdone, watchdogFull) {
		atomic.AddInt64(&failures, 1)
		return "fatal:Session.Close hangs " + stacks(), "fatal"
	}
	// slow dials still in flight finish and must close their connection: polled (the slowest scripted dial takes
	// 230 ms), the watchdog only ends the wait when something stays open
	after := 0
	time.Sleep(250 * time.Millisecond)
	patient(watchdogFull, func() bool {
		after = 0
		for _, n := range cl.Nodes {
			after += openSockets(n)
		}
		return after == 0
	})
	close(stop)
	mwg.Wait()
	return fmt.Sprintf("poolobs size=%d maxconns=%d maxopen=%d final=%d afterclose=%d", sc.size,
		atomic.LoadInt64(&maxConns), atomic.LoadInt64(&maxOpen), final, after), fmt.Sprintf("pool/size%d", sc.size)
}

func stacks() string {
	buf := make([]byte, 1<<20)
	return string(buf[:runtime.Stack(buf, true)])
}

// runClose: Session.Close called by `closers` goroutines at once while queries are in flight.
func runClose(closers int, inflight int, cerr int, r *vh.Rng) string {
	cl := memcluster.NewCluster(4, "10.0.0.1", "10.0.0.2")
	for _, n := range cl.Nodes {
		if sel := cerrSel(cerr); sel != nil {
			closeErrEvery(n, sel)
		}
		n.Handle = func(req *memcluster.Request) {
			if strings.Contains(req.Stmt, "never") {
				return
			}
			req.Conn.Reply(req.Stream, memcluster.OpResult, memcluster.VoidBody())
		}
	}
	cfg := sess.Config(cl, 4, "10.0.0.1", "10.0.0.2")
	cfg.NumConns = 2
	cfg.Timeout = 5 * time.Second
	s, err := createSession(cfg)
	if err != nil {
		return "fatal:" + err.Error()
	}
	sess.WaitConns(s, 4, time.Second)
	var qwg sync.WaitGroup
	for i := 0; i < inflight; i++ {
		qwg.Add(1)
		go func(i int) {
			defer qwg.Done()
			stmt := "PING ok"
			if i%2 == 0 {
				stmt = "PING never"
			}
			s.Query(stmt).Exec()
		}(i)
	}
	time.Sleep(time.Duration(r.Intn(3000)) * time.Microsecond)
	var panics int64
	var ready, cwg sync.WaitGroup
	start := make(chan struct{})
	ready.Add(closers)
	for i := 0; i < closers; i++ {
		cwg.Add(1)
		go func() {
			defer cwg.Done()
			defer func() {
				if x := recover(); x != nil {
					atomic.AddInt64(&panics, 1)
				}
			}()
			ready.Done()
			<-start
			s.Close()
		}()
	}
	ready.Wait()
	close(start)
	done := make(chan struct{})
	go func() { cwg.Wait(); qwg.Wait(); close(done) }()
	returned := 1
	if !closedWithin(done, watchdogFull) {
		returned = 0
		atomic.AddInt64(&failures, 1)
		os.WriteFile(dumpPath("hang", "sessclose"), []byte(stacks()), 0o644)
		// Session.Close hangs: the run has failed; what follows is not waited for any more
		return fmt.Sprintf("sessclose returned=0 panics=%d again=0 queryerr=other open=0", atomic.LoadInt64(&panics))
	}
	again := 0
	adone := make(chan struct{})
	go func() {
		defer func() { recover(); close(adone) }()
		s.Close()
	}()
	if closedWithin(adone, watchdogFull) {
		again = 1
	}
	qe := "other"
	if err := s.Query("PING after").Exec(); err == gocql.ErrSessionClosed {
		qe = "closed"
	} else if err == nil {
		qe = "nil"
	}
	time.Sleep(20 * time.Millisecond)
	open := 0
	for _, n := range cl.Nodes {
		open += openSockets(n)
	}
	return fmt.Sprintf("sessclose returned=%d panics=%d again=%d queryerr=%s open=%d", returned, atomic.LoadInt64(&panics), again, qe, open)
}

// closeRace: many rounds of 4 closers released from a spin barrier on a fresh, idle session; reports the
// worst observation as one sessclose line.
func closeRace(rounds int) string {
	cl := memcluster.NewCluster(4, "10.0.0.1")
	var panics, notReturned int64
	for i := 0; i < rounds; i++ {
		cfg := sess.Config(cl, 4, "10.0.0.1")
		s, err := createSession(cfg)
		if err != nil {
			return "fatal:" + err.Error()
		}
		var gate int32
		var cwg sync.WaitGroup
		for c := 0; c < 4; c++ {
			cwg.Add(1)
			go func() {
				defer cwg.Done()
				defer func() {
					if x := recover(); x != nil {
						atomic.AddInt64(&panics, 1)
					}
				}()
				atomic.AddInt32(&gate, 1)
				for atomic.LoadInt32(&gate) < 4 {
				}
				s.Close()
			}()
		}
		done := make(chan struct{})
		go func() { cwg.Wait(); close(done) }()
		if !closedWithin(done, watchdogFull) {
			atomic.AddInt64(&notReturned, 1)
		}
	}
	ret := 1
	if notReturned > 0 {
		ret = 0
	}
	return fmt.Sprintf("sessclose returned=%d panics=%d again=1 queryerr=closed open=0", ret, atomic.LoadInt64(&panics))
}

// monitorsOf: the observation part of a pipeobs line (what the monitors saw), without the schedule.
func monitorsOf(line string) string {
	var out []string
	for _, w := range strings.Fields(line) {
		for _, k := range []string{"maxconns=", "orphans=", "closedconns=", "hostconns=", "afterclose=", "leaked=", "stack=", "stalled=", "lateadd=", "lateopen="} {
			if strings.HasPrefix(w, k) {
				out = append(out, w)
			}
		}
	}
	return strings.Join(out, " ")
}

// debMonitorsOf: the observation part of a debobs line.
func debMonitorsOf(line string) string {
	var out []string
	for _, w := range strings.Fields(line) {
		for _, k := range []string{"waiters=", "stranded=", "late=", "stopret=", "exited="} {
			if strings.HasPrefix(w, k) {
				out = append(out, w)
			}
		}
	}
	return strings.Join(out, " ")
}

var replayN int

// exec (replay): the conducted schedules and the scripted-fate scenarios are run again on the real code.
func exec(op string) string {
	w := strings.Fields(op)
	replayN++
	atomic.StoreInt64(&failures, 0) // every replayed line stands alone
	atomic.StoreInt64(&tieStalls, 0)
	label := fmt.Sprintf("r%d", replayN)
	switch w[0] {
	case "poolobs", "debrace", "sessclose", "debwait":
		return "accept"
	case "deb":
		if len(w) < 2 || w[1] != ":" {
			return "bad-op"
		}
		_, impl, _ := runDeb(label, append([]string{}, w[2:]...), nil, 0)
		return impl
	case "debobs":
		for _, x := range w {
			if strings.HasPrefix(x, "sched=") {
				var acts []string
				if x != "sched=-" {
					acts = strings.Split(strings.TrimPrefix(x, "sched="), ",")
				}
				_, _, fresh := runDeb(label, append([]string{}, acts...), nil, 0)
				if debMonitorsOf(fresh) == debMonitorsOf(op) {
					return "accept"
				}
				return "observed-now:" + strings.ReplaceAll(debMonitorsOf(fresh), " ", ",")
			}
		}
		return "bad-op"
	case "sessref":
		pend, parked := -1, -1
		for _, x := range w {
			if strings.HasPrefix(x, "pending=") {
				pend, _ = strconv.Atoi(strings.TrimPrefix(x, "pending="))
			}
			if strings.HasPrefix(x, "parked=") {
				parked, _ = strconv.Atoi(strings.TrimPrefix(x, "parked="))
			}
		}
		if pend < 0 || parked < 0 {
			return "bad-op"
		}
		fresh := runSessRef(label, pend, parked == 1)
		if fresh == op {
			return "accept"
		}
		return "observed-now:" + strings.ReplaceAll(fresh, " ", ",")
	case "ctl":
		if len(w) < 2 || w[1] != ":" {
			return "bad-op"
		}
		_, impl, _ := runCtl(label, append([]string{}, w[2:]...), nil)
		return impl
	case "evd":
		if len(w) < 2 || w[1] != ":" {
			return "bad-op"
		}
		_, impl, _ := runEvd(label, append([]string{}, w[2:]...), nil)
		return impl
	case "evdrace":
		return "accept"
	case "evdobs", "evdsess":
		which := "node"
		for _, x := range w {
			if strings.HasPrefix(x, "which=") {
				which = strings.TrimPrefix(x, "which=")
			}
			if strings.HasPrefix(x, "sched=") {
				var acts []string
				if x != "sched=-" {
					acts = strings.Split(strings.TrimPrefix(x, "sched="), ",")
				}
				fresh := ""
				if w[0] == "evdobs" {
					_, _, fresh = runEvd(label, append([]string{}, acts...), nil)
				} else {
					fresh = runEvdSess(label, which, acts)
				}
				if evdMonitorsOf(fresh) == evdMonitorsOf(op) {
					return "accept"
				}
				return "observed-now:" + strings.ReplaceAll(evdMonitorsOf(fresh), " ", ",")
			}
		}
		return "bad-op"
	case "retry":
		n, fates := -1, ""
		for _, x := range w[1:] {
			if strings.HasPrefix(x, "n=") {
				n, _ = strconv.Atoi(strings.TrimPrefix(x, "n="))
			}
			if strings.HasPrefix(x, "fates=") {
				fates = strings.TrimPrefix(x, "fates=")
			}
		}
		if n < 0 || fates == "" {
			return "bad-op"
		}
		return runRetry(label, n, fates)
	case "retryobs":
		return "accept"
	case "ctlunit":
		if len(w) != 3 {
			return "bad-op"
		}
		return runCtlUnit(w[1])
	case "ctlobs":
		for _, x := range w {
			if strings.HasPrefix(x, "sched=") {
				var acts []string
				if x != "sched=-" {
					acts = strings.Split(strings.TrimPrefix(x, "sched="), ",")
				}
				_, _, fresh := runCtl(label, append([]string{}, acts...), nil)
				if ctlMonitorsOf(fresh) == ctlMonitorsOf(op) {
					return "accept"
				}
				return "observed-now:" + strings.ReplaceAll(ctlMonitorsOf(fresh), " ", ",")
			}
		}
		return "bad-op"
	case "model", "hsmodel", "pipemodel":
		return "(model only)"
	case "pipe":
		cfg, ok := parsePipeCfg(w[1:])
		i := 0
		for i < len(w) && w[i] != ":" {
			i++
		}
		if !ok || i == len(w) {
			return "bad-op"
		}
		_, impl, _ := runPipe(label, cfg, w[i+1:], nil, 0)
		return impl
	case "pipeobs":
		fresh := ""
		for _, x := range w {
			if strings.HasPrefix(x, "sched=bseed:") {
				bs, _ := strconv.ParseUint(strings.Split(strings.TrimPrefix(x, "sched=bseed:"), ",")[0], 10, 64)
				fresh = runPipeB(label, bs)
			} else if strings.HasPrefix(x, "sched=cseed:") {
				cs, _ := strconv.ParseUint(strings.Split(strings.TrimPrefix(x, "sched=cseed:"), ",")[0], 10, 64)
				fresh = runPipeC(label, cs)
			} else if strings.HasPrefix(x, "sched=") {
				cfg, ok := parsePipeCfg(w[1:])
				if !ok {
					return "bad-op"
				}
				var acts []string
				if x != "sched=-" {
					acts = strings.Split(strings.TrimPrefix(x, "sched="), ",")
				}
				_, _, fresh = runPipe(label, cfg, acts, nil, 0)
			}
		}
		if fresh == "" {
			return "bad-op"
		}
		if monitorsOf(fresh) == monitorsOf(op) {
			return "accept"
		}
		return "observed-now:" + strings.ReplaceAll(monitorsOf(fresh), " ", ",")
	}
	return "bad-op"
}

func main() {
	mode, tier, path := vh.Args()
	if mode == "replay" {
		for _, l := range vh.ReadLines(path) {
			fmt.Println(exec(l))
		}
		return
	}
	r := vh.NewRng(vh.EnvSeed())
	out := vh.NewOut(path)
	dumpDir = path
	mult := 1
	if tier == "thorough" {
		mult = 12
	}
	t0 := time.Now()
	phases := map[string]interface{}{}
	lap := func(what string) {
		phases[what] = fmt.Sprintf("%.1fs", time.Since(t0).Seconds())
		if os.Getenv("VERIF_C17_TIMING") != "" {
			fmt.Fprintf(os.Stderr, "c17 phase %s: %.1fs\n", what, time.Since(t0).Seconds())
		}
		t0 = time.Now()
	}
	// 2. pools (scenarios run in parallel, output in generation order)
	np := 24 * mult
	scen := make([]poolScenario, np)
	for i := range scen {
		sc := poolScenario{size: 1 + r.Intn(4), hosts: 1 + r.Intn(2), resets: r.Intn(5), millis: 250 + r.Intn(250), seed: r.U64()}
		nd := 4 + r.Intn(10)
		for j := 0; j < nd; j++ {
			f := 0
			switch r.Intn(6) {
			case 0:
				f = 1
			case 1:
				f = 2
			case 2:
				f = 3
			}
			if j == 0 {
				f = 0 // the first dial of a host succeeds, otherwise the session may not start
			}
			sc.dialFate = append(sc.dialFate, f)
		}
		if i%3 == 0 { // the pattern that exposes a filler that stops early: one fast failure next to a slow success
			sc.size = 3 + r.Intn(2)
			sc.dialFate = []int{0, 1, 2, 0, 0, 0, 0, 0, 0}
			if r.Bool() {
				sc.dialFate = []int{0, 2, 1, 0, 0, 0, 0, 0, 0}
			}
			sc.hosts = 1
			sc.resets = 0
			sc.millis = 450
		}
		sc.cerr = (i / 3) % 3
		scen[i] = sc
	}
	res := make([][2]string, np)
	var wg sync.WaitGroup
	sem := make(chan struct{}, 8)
	for i := range scen {
		wg.Add(1)
		sem <- struct{}{}
		go func(i int) {
			defer wg.Done()
			defer func() { <-sem }()
			if atomic.LoadInt64(&failures) >= 2 {
				return // the run has failed (it will be reported): scenarios not yet started are skipped
			}
			a, b := runPool(scen[i])
			res[i] = [2]string{a, b}
		}(i)
	}
	wg.Wait()
	for i := range res {
		if res[i][0] == "" {
			continue
		}
		if strings.HasPrefix(res[i][0], "fatal") {
			os.WriteFile(path+"/fatal.txt", []byte(res[i][0]), 0o644)
			out.Case("sessclose returned=0 panics=0 again=0 queryerr=other open=0", "accept", "fatal", true)
			continue
		}
		out.Case(res[i][0], "accept", res[i][1], true)
	}
	lap("pools")
	// 3. Session.Close: concurrent closers, queries in flight
	for i := 0; i < 40*mult && atomic.LoadInt64(&failures) < 2; i++ {
		op := runClose(1+r.Intn(4), r.Intn(8), i%3, r)
		if strings.HasPrefix(op, "fatal") {
			fmt.Fprintln(os.Stderr, op)
			os.Exit(3)
		}
		out.Case(op, "accept", []string{"sessclose", "sessclose/transport-Close-errors", "sessclose/transport-Close-errors-odd"}[i%3], true)
	}
	if atomic.LoadInt64(&failures) < 2 {
		op := closeRace(400 * mult)
		if strings.HasPrefix(op, "fatal") {
			fmt.Fprintln(os.Stderr, op)
			os.Exit(3)
		}
		out.Case(op, "accept", "sessclose/race", true)
	}
	lap("sessclose")
	// 4. the connect pipeline: conducted schedules (model-predicted) and scripted-fate scenarios (monitors)
	nA, nB, nC := 200*mult, 48*mult, 80*mult
	type pres struct{ op, impl, obs string }
	pr := make([]pres, nA+nB+nC)
	aseeds := make([]uint64, nA+nB+nC)
	for i := range aseeds {
		aseeds[i] = r.U64()
	}
	var pwg sync.WaitGroup
	psem := make(chan struct{}, 8)
	for i := range pr {
		pwg.Add(1)
		psem <- struct{}{}
		go func(i int) {
			defer pwg.Done()
			defer func() { <-psem }()
			if atomic.LoadInt64(&failures) >= 2 {
				return
			}
			if i < nA {
				ar := vh.NewRng(aseeds[i])
				cfg := genPipeCfg(ar)
				op, impl, obs := runPipe(fmt.Sprintf("a%d", i), cfg, nil, genChooser(ar, cfg), 14+ar.Intn(14))
				pr[i] = pres{op, impl, obs}
			} else if i < nA+nB {
				pr[i] = pres{obs: runPipeB(fmt.Sprintf("b%d", i), aseeds[i]%1000000007)}
			} else {
				pr[i] = pres{obs: runPipeC(fmt.Sprintf("c%d", i), aseeds[i]%1000000007)}
			}
		}(i)
	}
	pwg.Wait()
	for i := range pr {
		if pr[i].obs == "" && pr[i].impl == "" {
			continue // skipped: the run had already failed
		}
		if strings.HasPrefix(pr[i].impl, "fatal") || strings.HasPrefix(pr[i].obs, "fatal") {
			fmt.Fprintln(os.Stderr, pr[i].impl, pr[i].obs)
			os.Exit(3)
		}
		if i < nA {
			if pr[i].op != "" {
				w := strings.Fields(pr[i].op)
				out.Case(pr[i].op, pr[i].impl, "pipe/"+w[1]+"/"+w[2], true)
			}
			cls := "pipeobs/A"
			if strings.Contains(pr[i].op, " shold ") {
				cls = "pipeobs/A/Session.Close-held-before-cancel"
				if w := strings.SplitN(pr[i].op, " shold ", 2); strings.Contains(" "+w[1], " up") {
					cls = "pipeobs/A/addHost-inside-Session.Close"
				}
			}
			out.Case(pr[i].obs, "accept", cls, true)
		} else if i < nA+nB {
			out.Case(pr[i].obs, "accept", "pipeobs/B", true)
		} else {
			cls := "pipeobs/C"
			if strings.Contains(pr[i].obs, "sclose+") {
				cls = "pipeobs/C/addHost-racing-Session.Close"
			}
			out.Case(pr[i].obs, "accept", cls, true)
		}
	}
	lap("pipeline")
	phases["kindC_slowest_ms"] = atomic.LoadInt64(&slowestC)
	phases["kindC_park_unstable"] = atomic.LoadInt64(&parkUnstable)
	// 6. the refreshDebouncer with pending waiters: conducted schedules, racing rounds, Session.refreshRing callers
	// pending across Session.Close
	extra := map[string]int{}
	nD := 300 * mult
	for i := 0; i < nD && atomic.LoadInt64(&failures) < 2; i++ {
		dr := vh.NewRng(r.U64())
		op, impl, obs := runDeb(fmt.Sprintf("d%d", i), nil, dr, 4+dr.Intn(9))
		cls := "deb/early"
		if !strings.Contains(obs, " late=0 ") {
			cls = "deb/refreshNow-after-the-flusher-returned"
		}
		out.Case(op, impl, cls, true)
		out.Case(obs, "accept", "debobs", true)
	}
	{
		line, st := debRaceRounds("dw", 400*mult, vh.NewRng(r.U64()))
		for k, v := range st {
			extra[k] += v
		}
		out.Case(line, "accept", "debwait", true)
	}
	for i := 0; i < 24*mult && atomic.LoadInt64(&failures) < 2; i++ {
		pend, parked := r.Intn(4), i%4 != 3
		line := runSessRef(fmt.Sprintf("sr%d", i), pend, parked)
		if strings.HasPrefix(line, "fatal") {
			fmt.Fprintln(os.Stderr, line)
			os.Exit(3)
		}
		out.Case(line, "accept", fmt.Sprintf("sessref/parked%d/pending%d", b2i(parked), pend), true)
	}
	extra["deb/refreshes-of-a-timer-that-survived-the-flusher's-drain-let-through"] = int(atomic.LoadInt64(&staleTimerRefreshes))
	lap("debwaiters")
	// 7. Session.Close against the control connection: conducted reconnects of the heartbeat goroutine
	{
		nK := 36 * mult
		type kres struct{ op, impl, obs string }
		kr := make([]kres, nK)
		kseeds := make([]uint64, nK)
		for i := range kseeds {
			kseeds[i] = r.U64()
		}
		var kwg sync.WaitGroup
		ksem := make(chan struct{}, 12)
		for i := range kr {
			kwg.Add(1)
			ksem <- struct{}{}
			go func(i int) {
				defer kwg.Done()
				defer func() { <-ksem }()
				if atomic.LoadInt64(&failures) >= 2 {
					return
				}
				op, impl, obs := runCtl(fmt.Sprintf("k%d", i), nil, vh.NewRng(kseeds[i]))
				kr[i] = kres{op, impl, obs}
			}(i)
		}
		kwg.Wait()
		for i := range kr {
			if kr[i].obs == "" && kr[i].impl == "" {
				continue
			}
			if strings.HasPrefix(kr[i].impl, "fatal") {
				fmt.Fprintln(os.Stderr, kr[i].impl)
				os.Exit(3)
			}
			cls := "ctl/close-with-heartbeat-in-select"
			if strings.Contains(kr[i].op, "dropo") {
				cls = fmt.Sprintf("ctl/close-racing-reader-reconnect/after-%d-round-trips", strings.Count(kr[i].op, " relo"))
			} else if strings.Contains(kr[i].op, "hbfail") {
				w := strings.SplitN(kr[i].op, " close", 2)
				cls = fmt.Sprintf("ctl/close-inside-heartbeat-reconnect/after-%d-round-trips", strings.Count(w[0], " rel"))
			}
			out.Case(kr[i].op, kr[i].impl, cls, true)
			out.Case(kr[i].obs, "accept", "ctlobs", true)
		}
		// the order of the FIRST instructions of the heartbeat goroutine and of controlConn.close() (a goroutine's start
		// cannot be delayed inside a real Session: a controlConn of its own through the hook)
		out.Case("ctlunit hb close", runCtlUnit("hb"), "ctlunit/heartbeat-started-first", true)
		out.Case("ctlunit close hb", runCtlUnit("close"), "ctlunit/close-before-the-heartbeat-goroutine-runs", true)
		lap("controlconn")
		// 8. the reconnection policy's retry loop inside hostConnPool.connect(): GetMaxRetries() 0..4, scripted attempt fates
		for i := 0; i < 16*mult && atomic.LoadInt64(&failures) < 2; i++ {
			n := r.Intn(5)
			if i < 5 {
				n = i
			}
			fates := ""
			for j, m := 0, r.Intn(5); j < m; j++ {
				fates += string("ottp"[r.Intn(4)])
			}
			if fates == "" {
				fates = "-"
			}
			line := runRetry(fmt.Sprintf("rt%d", i), n, fates)
			if strings.HasPrefix(line, "fatal") {
				fmt.Fprintln(os.Stderr, line)
				os.Exit(3)
			}
			out.Case(fmt.Sprintf("retry n=%d fates=%s", n, fates), line, fmt.Sprintf("retry/maxretries%d", n), true)
			if n >= 1 { // n = 0 is what C17_connect_conn_or_error_partial excludes (KF-C17-5)
				var d, z int
				var rs, pk string
				fmt.Sscanf(strings.NewReplacer("res=", "", "dials=", "", "conns=", "", "nil=", "", "pick=", "").Replace(line), "%s %d %d %d %s", &rs, &d, new(int), &z, &pk)
				out.Case(fmt.Sprintf("retryobs n=%d dials=%d nil=%d pick=%s", n, d, z, pk), "accept", "retryobs", true)
			}
		}
		lap("retry")
	}
	// 9. the event debouncers: stop() / Session.Close against the flusher at each of its program points
	{
		nE, nS := 60*mult, 16*mult
		type eres struct{ op, impl, obs string }
		er := make([]eres, nE+nS)
		eseeds := make([]uint64, nE+nS)
		for i := range eseeds {
			eseeds[i] = r.U64()
		}
		var ewg sync.WaitGroup
		esem := make(chan struct{}, 8)
		for i := range er {
			ewg.Add(1)
			esem <- struct{}{}
			go func(i int) {
				defer ewg.Done()
				defer func() { <-esem }()
				if atomic.LoadInt64(&failures) >= 2 {
					return
				}
				if i < nE {
					op, impl, obs := runEvd(fmt.Sprintf("e%d", i), nil, vh.NewRng(eseeds[i]))
					er[i] = eres{op, impl, obs}
				} else {
					which := []string{"node", "schema"}[i%2]
					er[i] = eres{obs: runEvdSess(fmt.Sprintf("es%d", i), which, genEvdActs(vh.NewRng(eseeds[i])))}
				}
			}(i)
		}
		ewg.Wait()
		for i := range er {
			if er[i].obs == "" {
				continue
			}
			if strings.HasPrefix(er[i].obs, "fatal") {
				fmt.Fprintln(os.Stderr, er[i].obs)
				os.Exit(3)
			}
			cls := "stop-with-flusher-in-select"
			if strings.Contains(er[i].obs, "hlock,stop,fire") || strings.Contains(er[i].obs, "hlock,fire,stop") || strings.Contains(er[i].obs, "fire,hlock,stop") {
				cls = "stop-with-flusher-committed-to-timer-branch"
			}
			if i < nE {
				out.Case(er[i].op, er[i].impl, "evd/"+cls, true)
				out.Case(er[i].obs, "accept", "evdobs", true)
			} else {
				out.Case(er[i].obs, "accept", "evdsess/"+cls, true)
			}
		}
		if atomic.LoadInt64(&failures) < 2 {
			out.Case(evdRace("er", 300*mult, vh.NewRng(r.U64())), "accept", "evdrace", true)
		}
		lap("eventdebouncers")
	}
	// 1. debouncer stop races (the defect repaired by the fix commit must not come back). Run LAST: each round
	// left a goroutine parked on a listener nobody served any more (refreshNow after stop) on a tree without the fix
	// commit for KF-C17-2, and thousands of parked goroutines make every goroutine profile of the pipeline monitors slow.
	rounds := 3000 * mult
	// stop() must return: waited for with the patient watchdog (a frozen process cannot expire it); a tree in which
	// it hangs is reported after 3 hung rounds
	stopReturned := func(done <-chan struct{}) bool { return closedWithin(done, watchdogFull) }
	h := gocql.VerifRefreshDebouncerRaceW(rounds, 3, stopReturned)
	out.Case(fmt.Sprintf("debrace refresh rounds=%d hung=%d", rounds, h), "accept", "debrace/refresh", true)
	h = gocql.VerifEventDebouncerRaceW(rounds, 3, stopReturned)
	out.Case(fmt.Sprintf("debrace event rounds=%d hung=%d", rounds, h), "accept", "debrace/event", true)
	lap("debrace")
	// 5. model-only sanity lines (documented examples of the machine)
	out.Case("model 2 fillStart dialOk dialFail fillStop fillStart connError dialOk fillStop fillStart close dialOk", "conns=0 pending=0 filling=true closed=true opened=0", "model", true)
	out.Case("hsmodel code ctxFire cLeave cRet wRet wEsc rErr rEsc", "r=done w=done c=ret cancelled=1 buf=0", "model", true)
	out.Case("hsmodel code wRet wSend cRet rEnd", "r=done w=done c=ret cancelled=1 buf=0", "model", true)
	out.Case("hsmodel buf ctxFire cLeave cRet wRet wSend rErr", "r=send w=done c=ret cancelled=1 buf=1", "model", true)
	out.Case("hsmodel buf ctxFire cLeave cRet wRet wSend rErr rSend", "stuck", "model", true)
	out.Close(map[string]interface{}{"harness_phase_wall": phases, "class_counts": extra})
}
