// The refreshDebouncer with PENDING WAITERS: conducted schedules on the real refreshDebouncer (the refresh function
// is held by the harness, so the conductor knows where the flusher is), racing rounds (stop ∥ refreshNow ∥ debounce
// released from a barrier while a refresh is held), and Session.refreshRing callers pending across Session.Close on a
// real Session. EVERY waiter must be released (a result or a closed channel) — also one that calls refreshNow() after
// stop() or after the flusher has returned (it gets a closed channel from the call itself); whether a waiter is stranded
// for good is decided by events (the flusher goroutine is gone and the pending broadcaster still has listeners), never
// by a delay.
package main

import (
	"bytes"
	"errors"
	"fmt"
	"os"
	"runtime"
	"runtime/pprof"
	"strings"
	"sync"
	"sync/atomic"
	"time"

	"github.com/gocql/gocql"
	"verifharness/memcluster"
	"verifharness/sess"
	"verifharness/vh"
)

// labelledIn: number of goroutines labelled sc=<label> that have a frame whose function contains `frame`.
func labelledIn(label, frame string) int {
	var b bytes.Buffer
	pprof.Lookup("goroutine").WriteTo(&b, 1)
	want := `"sc":"` + label + `"`
	n := 0
	for _, blk := range profileBlocks(b.String()) {
		lines := strings.Split(strings.TrimSpace(blk), "\n")
		if len(lines) < 2 {
			continue
		}
		cnt := 0
		for _, c := range lines[0] {
			if c < '0' || c > '9' {
				break
			}
			cnt = cnt*10 + int(c-'0')
		}
		labelled, hit := false, false
		for _, l := range lines[1:] {
			if strings.HasPrefix(l, "# labels:") {
				labelled = strings.Contains(l, want)
			} else if strings.Contains(l, frame) {
				hit = true
			}
		}
		if labelled && hit {
			n += cnt
		}
	}
	return n
}

const flusherFrame = ".(*refreshDebouncer).flusher"

var errScripted = errors.New("verif: scripted refresh error")

// refreshes let through because a debounce() raced the flusher's timer drain (see debConductor.mStaleTimer)
var staleTimerRefreshes int64

// one waiter of a debouncer schedule
type dwaiter struct {
	ch    <-chan error
	state byte // p pending, r result nil, e result error, c closed
	late  bool // registered after the flusher was seen gone (counted; judged like every other waiter)
}

func (w *dwaiter) poll() byte {
	if w.state != 'p' {
		return w.state
	}
	select {
	case err, ok := <-w.ch:
		switch {
		case !ok:
			w.state = 'c'
		case err != nil:
			w.state = 'e'
		default:
			w.state = 'r'
		}
	default:
	}
	return w.state
}

// debConductor drives one real refreshDebouncer; the fields below `mirror` are what the conductor expects (so that
// it knows which event to wait for), the recorded line is what it observes.
type debConductor struct {
	label   string
	me      int // id of the scenario's goroutine (creator of the flusher)
	d       *gocql.VerifDebouncer
	entered int64
	release chan error
	fins    int64
	ws      []*dwaiter
	stall   string

	// mirror
	mStopped, mRefreshing, mToken, mTimer, mExited bool
	mPend, mCur                                    []int
	mHasPend                                       bool
	mExp                                           []byte
	// a debounce() called while the flusher is inside the refresh function re-arms the timer; if that timer fires
	// while the flusher, back from the refresh, is between its timer.Stop() and its non-blocking drain of timer.C
	// (timer-channel semantics of modules with a go directive < 1.23: Stop() does not wait for a send in progress),
	// the value survives the drain and the flusher runs ONE refresh nobody is waiting for. The model has no such
	// step; the conductor lets that refresh through (at most one per such debounce) and goes on waiting.
	mStaleTimer int
}

func (c *debConductor) flusherGone() bool { return labelledIn(c.label, flusherFrame) == 0 }

// flusherParkedInSelect: the flusher goroutine (created by this scenario's goroutine inside newRefreshDebouncer) is
// parked in its select, not merely on its way there and not made ready by anything.
func (c *debConductor) flusherParkedInSelect() bool {
	st := statesOf(flusherFrame, c.me)
	return len(st) == 1 && st[0] == "select"
}

// mirrorSettle: the flusher runs until it is held inside the refresh function or has returned.
func (c *debConductor) mirrorSettle() {
	if c.mRefreshing || c.mExited {
		return
	}
	if !(c.mToken || c.mTimer || c.mStopped) {
		return
	}
	if c.mStopped {
		for _, w := range c.mPend {
			c.mExp[w] = 'c'
		}
		c.mPend, c.mHasPend, c.mTimer, c.mExited = nil, false, false, true
		return
	}
	c.mToken, c.mTimer = false, false
	c.mCur, c.mPend, c.mHasPend = c.mPend, nil, false
	c.mRefreshing = true
}

// cheap: what can be seen without a goroutine profile — is the flusher inside the refresh function, and the waiters.
func (c *debConductor) cheap() (bool, string) {
	var sb strings.Builder
	for _, w := range c.ws {
		sb.WriteByte(w.poll())
	}
	return atomic.LoadInt64(&c.entered) > c.fins, sb.String()
}

func (c *debConductor) observe() string {
	ref, ws := c.cheap()
	f := "sel"
	if ref {
		f = "ref"
	} else if c.flusherGone() {
		f = "exit"
		_, ws = c.cheap() // whatever the flusher released on its way out is visible now
	}
	return f + ":" + ws
}

func (c *debConductor) expected() string {
	f := "sel"
	if c.mRefreshing {
		f = "ref"
	} else if c.mExited {
		f = "exit"
	}
	return f + ":" + string(c.mExp)
}

// await waits for the expected observation (an event). A waiter the mirror expects released is given up early only
// when it is stranded for good: the flusher goroutine is gone and the pending broadcaster still has listeners.
func (c *debConductor) await() string {
	want := c.expected()
	got := ""
	stranded := false
	var lastProf time.Time
	throttle := func() bool { // goroutine profiles stop the world: not more often than every 300 us
		if !lastProf.IsZero() && time.Since(lastProf) < 300*time.Microsecond {
			return false
		}
		lastProf = time.Now()
		return true
	}
	cond := func() bool {
		ref, ws := c.cheap()
		if ref && !c.mRefreshing && !c.mExited && c.mStaleTimer > 0 && ws == string(c.mExp) {
			c.mStaleTimer--
			c.fins++
			c.release <- nil
			atomic.AddInt64(&staleTimerRefreshes, 1)
			return false
		}
		if ref == c.mRefreshing && ws == string(c.mExp) {
			if ref {
				got = "ref:" + ws
				return true
			}
			if !throttle() {
				return false
			}
			got = c.observe()
			return got == want
		}
		// not (yet) what is expected. Decided early only by an event after which nobody can release a waiter any more:
		// the flusher has passed its release point — it is inside the NEXT refresh, it has returned, or (nothing being
		// ready for it) it is parked in its select again — and a second look still shows the waiter pending.
		if throttle() {
			settled := false
			switch {
			case c.mRefreshing:
				settled = ref
			case c.mExited:
				settled = !ref && c.flusherGone()
			default:
				settled = !ref && c.flusherParkedInSelect()
			}
			if settled {
				if ref2, ws2 := c.cheap(); ref2 != c.mRefreshing || ws2 != string(c.mExp) {
					got = c.observe()
					stranded = true
					return true
				}
			}
		}
		return false
	}
	if patient(watchdogFull, cond) {
		if stranded && c.stall == "" {
			c.stall = "stranded"
			os.WriteFile(dumpPath("stranded", c.label), []byte(want+" expected, observed "+got+"\n"+stacks()), 0o644)
		}
		return got
	}
	got = c.observe()
	if c.stall == "" {
		c.stall = "watchdog"
		os.WriteFile(dumpPath("stall", c.label), []byte(want+" expected, observed "+got+"\n"+stacks()), 0o644)
	}
	return got
}

func (c *debConductor) act(a string) bool {
	switch a {
	case "now":
		late := c.flusherGoneForSure()
		ch := c.d.RefreshNow()
		id := len(c.ws)
		c.ws = append(c.ws, &dwaiter{ch: ch, state: 'p', late: late})
		if c.mStopped {
			// refreshNow() on a stopped debouncer: a closed channel from the call itself, wherever the flusher is
			c.mExp = append(c.mExp, 'c')
			break
		}
		c.mExp = append(c.mExp, 'p')
		if !c.mHasPend {
			c.mHasPend, c.mToken = true, true
			c.mPend = []int{id}
		} else {
			c.mPend = append(c.mPend, id)
		}
	case "deb":
		c.d.Debounce()
		if !c.mStopped {
			c.mTimer = true
			if c.mRefreshing {
				c.mStaleTimer = 1
			}
		}
	case "stop":
		done := make(chan struct{})
		go func() { c.d.Stop(); close(done) }()
		if !closedWithin(done, watchdogFull) {
			c.stall = "stop-hung"
			os.WriteFile(dumpPath("hang", c.label), []byte("refreshDebouncer.stop\n"+stacks()), 0o644)
			return true
		}
		c.mStopped = true
	case "fin", "finE":
		if !c.mRefreshing {
			return false
		}
		var err error
		st := byte('r')
		if a == "finE" {
			err, st = errScripted, 'e'
		}
		c.fins++
		c.release <- err
		for _, w := range c.mCur {
			c.mExp[w] = st
		}
		c.mCur, c.mRefreshing = nil, false
	default:
		return false
	}
	c.mirrorSettle()
	return true
}

// flusherGoneForSure: the mirror says the flusher has returned and the profile agrees.
func (c *debConductor) flusherGoneForSure() bool { return c.mExited && c.flusherGone() }

// runDeb: one conducted schedule on a fresh refreshDebouncer. `fixed` = replay of given actions; otherwise the chooser
// draws them. Every schedule is wound up: a held refresh is released, the debouncer is stopped.
func runDeb(label string, fixed []string, r *vh.Rng, maxActs int) (op, impl, obs string) {
	withLabel(label, func() { op, impl, obs = runDebLabelled(label, fixed, r, maxActs) })
	return
}

func runDebLabelled(label string, fixed []string, r *vh.Rng, maxActs int) (string, string, string) {
	c := &debConductor{label: label, me: goid(), release: make(chan error)}
	c.d = gocql.VerifNewRefreshDebouncer(100*time.Microsecond, func() error {
		atomic.AddInt64(&c.entered, 1)
		return <-c.release
	})
	// newRefreshDebouncer creates its timer running and stops it right away: with an interval this short the timer may
	// have fired in between (old timer-channel semantics: the value stays in the channel), and the flusher then starts
	// with a refresh nobody asked for. It is let through before the schedule starts (event: the flusher is parked in
	// its select with nothing ready).
	patient(watchdogFull, profiled(func() bool {
		if atomic.LoadInt64(&c.entered) > c.fins {
			c.fins++
			c.release <- nil
			return false
		}
		return c.flusherParkedInSelect() && atomic.LoadInt64(&c.entered) == c.fins
	}))
	var acts, states []string
	states = append(states, c.await())
	do := func(a string) {
		if c.stall != "" {
			return
		}
		if !c.act(a) {
			if fixed != nil {
				acts = append(acts, a)
				states = append(states, "skip")
			}
			return
		}
		acts = append(acts, a)
		states = append(states, c.await())
	}
	if fixed != nil {
		for _, a := range fixed {
			do(a)
		}
	} else {
		for len(acts) < maxActs && c.stall == "" {
			x := r.Intn(100)
			switch {
			case x < 38:
				do("now")
			case x < 46:
				do("deb")
			case x < 76:
				if c.mRefreshing {
					do([]string{"fin", "fin", "finE"}[r.Intn(3)])
				} else {
					do("now")
				}
			case x < 90:
				do("stop")
			default:
				if c.mExited {
					do("now") // a refreshNow after the flusher returned
				} else {
					do("deb")
				}
			}
		}
		// wind up: release the held refresh(es), stop
		for i := 0; i < 4 && c.mRefreshing && c.stall == ""; i++ {
			do("fin")
		}
		if !c.mStopped {
			do("stop")
		}
		for i := 0; i < 4 && c.mRefreshing && c.stall == ""; i++ {
			do("fin")
		}
	}
	// a schedule that stalled leaves nothing held
	if atomic.LoadInt64(&c.entered) > c.fins {
		go func() {
			for {
				select {
				case c.release <- nil:
				case <-time.After(time.Second):
					return
				}
			}
		}()
	}
	stopret, exited := 1, 0
	if c.stall == "stop-hung" {
		stopret = 0
	}
	if c.stall != "" {
		atomic.AddInt64(&failures, 1)
		if !c.mStopped && c.stall != "stop-hung" {
			go c.d.Stop() // a stalled schedule is wound up too
		}
	}
	if c.mStopped || c.stall != "" {
		if patient(watchdogFull, profiled(c.flusherGone)) {
			exited = 1
		}
	} else {
		exited = 1 // never stopped (a replayed prefix): nothing to say
	}
	// the debouncer was stopped and its flusher has returned (waited for above): a waiter whose channel is still
	// pending now will never be released, whenever it was registered
	stranded, late := 0, 0
	for _, w := range c.ws {
		st := w.poll()
		if w.late {
			late++
		}
		if st == 'p' && (c.mStopped || c.stall != "") {
			stranded++
		}
	}
	sched := strings.Join(acts, ",")
	if sched == "" {
		sched = "-"
	}
	op := "deb : " + strings.Join(acts, " ")
	impl := strings.Join(states, ";")
	obs := fmt.Sprintf("debobs waiters=%d stranded=%d late=%d stopret=%d exited=%d sched=%s",
		len(c.ws), stranded, late, stopret, exited, sched)
	return op, impl, obs
}

// debRaceRounds: per round a fresh debouncer; optionally a first refresh held inside the refresh function; 0..3 waiters
// registered BEFORE stop is called (early: they must be released whatever happens); then stop ∥ 0..2 more refreshNow ∥
// debounce released together from a spin barrier; the held refresh is released before, with or after them. Waiters
// never released — early ones and racing ones, on whichever side of stop() / of the flusher's return they registered —,
// stop() calls that hang and flushers that do not return are counted.
func debRaceRounds(label string, rounds int, r *vh.Rng) (line string, stats map[string]int) {
	withLabel(label, func() { line, stats = debRaceLabelled(label, rounds, r) })
	return
}

func debRaceLabelled(label string, rounds int, r *vh.Rng) (string, map[string]int) {
	stats := map[string]int{}
	early, stranded, stophung, racing, racingStranded := 0, 0, 0, 0, 0
	type round struct {
		d       *gocql.VerifDebouncer
		earlyW  []*dwaiter
		racingW []*dwaiter
		mu      sync.Mutex
	}
	var all []*round
	for i := 0; i < rounds && stophung < 3; i++ {
		var entered int64
		release := make(chan struct{})
		hold := r.Intn(4) != 0
		rd := &round{}
		rd.d = gocql.VerifNewRefreshDebouncer(time.Hour, func() error {
			atomic.AddInt64(&entered, 1)
			if hold {
				<-release
			}
			return nil
		})
		all = append(all, rd)
		nEarly := r.Intn(4)
		if hold {
			// the first request is picked up by the flusher, which is then held inside the refresh function
			rd.earlyW = append(rd.earlyW, &dwaiter{ch: rd.d.RefreshNow(), state: 'p'})
			if !patient(watchdogFull, func() bool { return atomic.LoadInt64(&entered) > 0 }) {
				stophung++ // the flusher never ran: reported like a hang
				continue
			}
		}
		for k := 0; k < nEarly; k++ {
			rd.earlyW = append(rd.earlyW, &dwaiter{ch: rd.d.RefreshNow(), state: 'p'})
		}
		nRace := r.Intn(3)
		withDeb := r.Intn(3) == 0
		relMode := r.Intn(3) // 0: released before the racers, 1: with them, 2: after stop returned
		n := 1 + nRace
		if withDeb {
			n++
		}
		if relMode == 1 && hold {
			n++
		}
		if relMode == 0 && hold {
			close(release)
		}
		var flag int32
		var ready, done sync.WaitGroup
		spin := func(f func()) {
			ready.Add(1)
			done.Add(1)
			go func() {
				defer done.Done()
				ready.Done()
				for k := 0; atomic.LoadInt32(&flag) == 0; k++ {
					if k&0xfffff == 0xfffff {
						runtime.Gosched()
					}
				}
				f()
			}()
		}
		stopDone := make(chan struct{})
		spin(func() { rd.d.Stop(); close(stopDone) })
		for k := 0; k < nRace; k++ {
			spin(func() {
				w := &dwaiter{ch: rd.d.RefreshNow(), state: 'p'}
				rd.mu.Lock()
				rd.racingW = append(rd.racingW, w)
				rd.mu.Unlock()
			})
		}
		if withDeb {
			spin(rd.d.Debounce)
		}
		if relMode == 1 && hold {
			spin(func() { close(release) })
		}
		ready.Wait()
		atomic.StoreInt32(&flag, 1)
		if !closedWithin(stopDone, watchdogFull) {
			stophung++
			os.WriteFile(dumpPath("hang", label), []byte("refreshDebouncer.stop\n"+stacks()), 0o644)
		}
		if relMode == 2 && hold {
			close(release)
		}
		done.Wait()
		early += len(rd.earlyW)
		racing += len(rd.racingW)
		stats[fmt.Sprintf("debwait/hold%d/early%d/race%d", b2i(hold), len(rd.earlyW), nRace)]++
	}
	// every flusher must have returned (event: none of this label is left), then every waiter must be released
	flusherLeft := 0
	if !patient(watchdogFull, profiled(func() bool { flusherLeft = labelledIn(label, flusherFrame); return flusherLeft == 0 })) {
		os.WriteFile(dumpPath("leak", label), []byte("refreshDebouncer.flusher\n"+stacks()), 0o644)
	}
	for _, rd := range all {
		for _, w := range rd.earlyW {
			if w.poll() == 'p' {
				stranded++
			}
		}
		for _, w := range rd.racingW {
			if w.poll() == 'p' {
				racingStranded++
			}
		}
	}
	stats["debwait/racing-waiters"] = racing
	stats["debwait/racing-waiters-never-released"] = racingStranded
	return fmt.Sprintf("debwait rounds=%d early=%d racing=%d stranded=%d stophung=%d flusherleft=%d", rounds, early, racing,
		stranded+racingStranded, stophung, flusherLeft), stats
}

// runSessRef: a real Session (no control connection: its ring refresh fails at once with errNoControl). The refresh
// function is parked on the ring describer's mutex, Session.refreshRing callers queue up behind it (0..3 of them on a
// second, pending broadcaster), Session.Close runs, the refresh is let go. Every caller must return and no goroutine
// of the scenario may be left inside gocql.
func runSessRef(label string, pendingCallers int, parked bool) (line string) {
	withLabel(label, func() { line = runSessRefLabelled(label, pendingCallers, parked) })
	return
}

func runSessRefLabelled(label string, pending int, parked bool) string {
	cl := memcluster.NewCluster(4, "10.0.0.1")
	node := cl.Nodes["10.0.0.1"]
	node.Handle = func(req *memcluster.Request) {
		req.Conn.Reply(req.Stream, memcluster.OpResult, memcluster.VoidBody())
	}
	cfg := sess.Config(cl, 4, "10.0.0.1")
	cfg.NumConns = 2
	s, err := createSession(cfg)
	if err != nil {
		return "fatal:" + err.Error()
	}
	d := gocql.VerifSessionRingRefresher(s)
	me := goid()
	var returned int64
	call := func() {
		go func() {
			gocql.VerifSessionRefreshRing(s)
			atomic.AddInt64(&returned, 1)
		}()
	}
	callers := 0
	if parked {
		gocql.VerifRingDescriberLock(s)
		call()
		callers++
		// the flusher has taken the request over (no broadcaster pending, no token) and sits in the refresh function
		if !patient(watchdogFull, profiled(func() bool {
			_, l, tok := d.State()
			return l == -1 && !tok && labelledIn(label, ".(*ringDescriber).GetHosts") == 1
		})) {
			gocql.VerifRingDescriberUnlock(s)
			s.Close()
			return "fatal:the ring refresh was not started " + stacks()
		}
	}
	for i := 0; i < pending; i++ {
		call()
		callers++
	}
	if parked && pending > 0 {
		if !patient(watchdogFull, func() bool { _, l, _ := d.State(); return l == pending }) {
			gocql.VerifRingDescriberUnlock(s)
			s.Close()
			return "fatal:refreshRing callers did not register " + stacks()
		}
	}
	cdone := make(chan struct{})
	go func() { s.Close(); close(cdone) }()
	closeret := 1
	if !closedWithin(cdone, watchdogFull) {
		closeret = 0
		atomic.AddInt64(&failures, 1)
		os.WriteFile(dumpPath("hang", label), []byte("Session.Close\n"+stacks()), 0o644)
	}
	if parked {
		gocql.VerifRingDescriberUnlock(s)
	}
	// event: every caller has returned and nothing of the scenario is left inside gocql — or the flusher is gone with
	// listeners still pending on its broadcaster and exactly these callers still inside Session.refreshRing (stranded
	// for good). Callers that were not parked race Session.Close: whichever side of stop() / of the flusher's return
	// they register on, they must return too (a refreshNow on a stopped debouncer hands out a closed channel).
	leaked, fns, raw := 0, "-", ""
	strandedForGood := false
	var lastProf time.Time
	ok := patient(watchdogFull, func() bool {
		if !lastProf.IsZero() && time.Since(lastProf) < 500*time.Microsecond {
			return false
		}
		lastProf = time.Now()
		ret := int(atomic.LoadInt64(&returned))
		var f []string
		leaked, f, raw = gocqlGoroutines(label)
		fns = strings.Join(f, ",")
		if leaked == 0 {
			fns = "-"
			return ret == callers
		}
		// stranded for good: the flusher has returned and every caller that has not returned is still BLOCKED in its
		// channel receive inside Session.refreshRing (a caller whose channel was closed is runnable, not blocked)
		if labelledIn(label, flusherFrame) == 0 {
			if k := blockedInChanReceive(".(*Session).refreshRing", me); k > 0 && ret+k == callers && k == leaked {
				if _, l, _ := d.State(); parked || l == k {
					// parked: every caller registered before Close. Not parked: the callers raced Session.Close; those
					// still listening are on a broadcaster nobody will stop (registered after the flusher had returned)
					fns = "(*Session).refreshRing"
					strandedForGood = true
					return true
				}
			}
		}
		return false
	})
	if !ok || strandedForGood {
		os.WriteFile(dumpPath("leak", label), []byte(raw), 0o644)
		atomic.AddInt64(&failures, 1)
	}
	return fmt.Sprintf("sessref pending=%d parked=%d waiters=%d returned=%d closeret=%d leaked=%d stack=%s open=%d", pending, b2i(parked), callers,
		int(atomic.LoadInt64(&returned)), closeret, leaked, fns, openSockets(node))
}

// statesOf: the scheduler states ("select", "chan receive", "runnable", "sync.Mutex.Lock", …, as printed in the runtime's
// stack dump) of the goroutines created by goroutine `creator` that have a frame whose function contains `frame`.
// A goroutine parked in a select / channel receive that has been made ready is listed as runnable.
func statesOf(frame string, creator int) []string {
	var out []string
	by := fmt.Sprintf(" in goroutine %d\n", creator)
	for _, blk := range strings.Split(stacks(), "\n\n") {
		blk += "\n"
		lines := strings.SplitN(blk, "\n", 2)
		if len(lines) < 2 || !strings.Contains(lines[1], frame) || !strings.Contains(lines[1], by) {
			continue
		}
		i, j := strings.Index(lines[0], "["), strings.LastIndex(lines[0], "]")
		if i < 0 || j < i {
			continue
		}
		st := lines[0][i+1 : j]
		if k := strings.Index(st, ","); k >= 0 {
			st = st[:k]
		}
		out = append(out, st)
	}
	return out
}

func blockedInChanReceive(frame string, creator int) int {
	n := 0
	for _, st := range statesOf(frame, creator) {
		if st == "chan receive" {
			n++
		}
	}
	return n
}

// goid: the id of the calling goroutine (from its own stack header).
func goid() int {
	buf := make([]byte, 64)
	buf = buf[:runtime.Stack(buf, false)]
	id := 0
	for _, ch := range strings.TrimPrefix(string(buf), "goroutine ") {
		if ch < '0' || ch > '9' {
			break
		}
		id = id*10 + int(ch-'0')
	}
	return id
}
