// Waiting for events without trusting the wall clock alone.
package main

import (
	"runtime"
	"time"

	"github.com/gocql/gocql"
)

// createSession: NewSession needs its first connection within ConnectTimeout; on a starved machine that can fail
// without any fault of the driver, so it is tried a few times (the scenario proper starts afterwards).
func createSession(cfg *gocql.ClusterConfig) (s *gocql.Session, err error) {
	for try := 0; try < 5; try++ {
		if s, err = cfg.CreateSession(); err == nil {
			return s, nil
		}
		time.Sleep(20 * time.Millisecond)
	}
	return nil, err
}

// patient polls cond until it holds. It gives up only when BOTH the watchdog time has passed AND the loop itself
// has been awake for a minimum number of polls (limit / 4 ms polls of >= 1 ms each): time during which the whole
// process (or machine) was frozen — VM pause, swap storm, SIGSTOP, extreme CPU starvation — buys no polls, so a
// freeze cannot make the watchdog expire while the goroutines waited for had no chance to run either.
func patient(limit time.Duration, cond func() bool) bool {
	start := time.Now()
	minPolls := int(limit / (4 * time.Millisecond))
	for i := 0; ; i++ {
		if cond() {
			return true
		}
		if i >= minPolls && time.Since(start) >= limit {
			return false
		}
		switch {
		case i < 100:
			runtime.Gosched() // most events are there within microseconds
		case i < 300:
			time.Sleep(50 * time.Microsecond)
		default:
			time.Sleep(time.Millisecond)
		}
	}
}

// closedWithin: ch is closed (an operation returned) before a patient watchdog gives up.
func closedWithin(ch <-chan struct{}, limit time.Duration) bool {
	return patient(limit, func() bool {
		select {
		case <-ch:
			return true
		default:
			return false
		}
	})
}
