// Waiting for events without trusting the wall clock alone.
package main

import (
	"runtime"
	"time"
)

// patient polls cond until it holds. It gives up only when BOTH the watchdog time has passed AND the loop itself
// has been awake for a minimum number of polls (limit / 4 ms polls of >= 1 ms each): time during which the whole
// process (or machine) was frozen — VM pause, swap storm, SIGSTOP, extreme CPU starvation — buys no polls, so a
// freeze cannot make the watchdog expire while the goroutines waited for had no chance to run either.
func patient(limit time.Duration, cond func() bool) bool {
	start := time.Now()
	minPolls := int(limit / (4 * time.Millisecond))
	for i := 0; ; i++ {
		if cond() {
			return true
		}
		if i >= minPolls && time.Since(start) >= limit {
			return false
		}
		switch {
		case i < 100:
			runtime.Gosched() // most events are there within microseconds
		case i < 300:
			time.Sleep(50 * time.Microsecond)
		default:
			time.Sleep(time.Millisecond)
		}
	}
}

// closedWithin: ch is closed (an operation returned) before a patient watchdog gives up.
func closedWithin(ch <-chan struct{}, limit time.Duration) bool {
	return patient(limit, func() bool {
		select {
		case <-ch:
			return true
		default:
			return false
		}
	})
}
