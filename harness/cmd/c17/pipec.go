// CONCURRENT pool-level operations on one host (no prediction, monitors only): rounds of 2..4 operations released
// together — the session's entry points that end in policyConnPool.addHost (ring refresh, reconnect ticker, UP event),
// removeHost (pool level, DOWN event, SetHosts), a burst of Picks, a server-side reset of a pool connection
// (HandleError → fill), hostConnPool.Close, and (last round) Session.Close — from a spin barrier, or parked first on
// the pool map's mutex and then on the HostInfo mutex (the locks these operations take themselves) and let go. The peer
// answers every connect step by itself (some slowly, so that connects are in flight while the next operations run).
// After every round the harness waits for quiescence (an event: every caller returned, nothing of the scenario inside
// a hostConnPool / policyConnPool method or a handshake, nothing held at the peer) and then looks: every open socket
// of the host must be a connection of the REGISTERED, open pool (at most NumConns) — a connection of any other pool
// object is an orphan; a closed pool holds nothing. After Session.Close nothing may be open, no pool may be registered
// and no goroutine may be left inside gocql — whatever addHost raced the Close.
package main

import (
	"fmt"
	"net"
	"os"
	"runtime"
	"strings"
	"sync"
	"sync/atomic"
	"time"

	"github.com/gocql/gocql"
	"verifharness/memcluster"
	"verifharness/sess"
	"verifharness/vh"
)

type cScen struct {
	label string
	s     *gocql.Session
	node  *memcluster.Node
	g     *gate
	host  *gocql.HostInfo
	ip    net.IP
	size  int
	seen  []*gocql.VerifHostPool

	maxConns, orphans, closedConns, hostConns int
	stall                                     string
}

func (c *cScen) registered() *gocql.VerifHostPool { return gocql.VerifHostPools(c.s)[c.ip.String()] }

func (c *cScen) note(h *gocql.VerifHostPool) {
	if h == nil {
		return
	}
	for _, o := range c.seen {
		if o.Same(h) {
			return
		}
	}
	c.seen = append(c.seen, h)
}

// quiet: nothing of the scenario is on its way any more.
func (c *cScen) quiet() bool {
	if len(c.g.heldIDs()) != 0 || pendingFills(c.label) != 0 {
		return false
	}
	for _, f := range []string{".(*hostConnPool).", ".(*policyConnPool).", ".(*startupCoordinator).", ".(*Session).connect", ".(*Session).handleNode"} {
		if labelledIn(c.label, f) != 0 {
			return false
		}
	}
	return true
}

func (c *cScen) waitQuiet(what string) bool {
	if patient(watchdogFull, profiled(c.quiet)) {
		return true
	}
	if c.stall == "" {
		c.stall = what
		atomic.AddInt64(&failures, 1)
		os.WriteFile(dumpPath("stall", c.label), []byte(what+"\n"+stacks()), 0o644)
	}
	return false
}

// look: the monitors at a quiescent point; returns the open connections of the registered pool.
func (c *cScen) look() (lateOpen int) {
	reg := c.registered()
	c.note(reg)
	var regConns []net.Conn
	if reg != nil {
		n, _, closed, _ := reg.State()
		if !closed {
			regConns = reg.NetConns()
		}
		if n > c.maxConns {
			c.maxConns = n
		}
	}
	for _, h := range c.seen {
		n, _, closed, _ := h.State()
		if n > c.maxConns {
			c.maxConns = n
		}
		if closed && n > c.closedConns {
			c.closedConns = n
		}
	}
	open, orph := 0, 0
	for _, cl := range c.node.ClientConns() {
		if cl.IsClosed() {
			continue
		}
		open++
		found := false
		for _, nc := range regConns {
			if nc == net.Conn(cl) {
				found = true
			}
		}
		if !found {
			orph++
		}
	}
	if open > c.hostConns {
		c.hostConns = open
	}
	if orph > c.orphans {
		c.orphans = orph
	}
	return open - orph
}

type cOp struct {
	name string
	f    func()
}

func (c *cScen) ops(r *vh.Rng, names []string) []cOp {
	var out []cOp
	for _, nm := range names {
		switch nm {
		case "add0":
			out = append(out, cOp{nm, func() { gocql.VerifAddHost(c.s, c.host) }})
		case "add1":
			out = append(out, cOp{nm, func() { gocql.VerifPoolAddHost(c.s, c.host) }})
		case "add2":
			out = append(out, cOp{nm, func() { gocql.VerifStartPoolFill(c.s, c.host) }})
		case "rm":
			out = append(out, cOp{nm, func() { gocql.VerifPoolRemoveHost(c.s, c.host) }})
		case "down":
			out = append(out, cOp{nm, func() { gocql.VerifNodeDown(c.s, c.host) }})
		case "sethosts":
			out = append(out, cOp{nm, func() { gocql.VerifPoolSetHosts(c.s, c.host) }})
		case "picks":
			h := c.registered()
			out = append(out, cOp{nm, func() {
				for i := 0; h != nil && i < 4; i++ {
					h.Pick()
				}
			}})
		case "reset":
			// a pool connection is reset by the server: HandleError removes it and starts a fill
			h := c.registered()
			var victim *memcluster.ServerConn
			if h != nil {
				if ncs := h.NetConns(); len(ncs) > 0 {
					want := ncs[r.Intn(len(ncs))]
					for _, sc := range c.node.ServerConns() {
						if net.Conn(sc.Cli) == want {
							victim = sc
						}
					}
				}
			}
			out = append(out, cOp{nm, func() {
				if victim == nil {
					return
				}
				victim.Close()
				patient(watchdogFull, func() bool { return victim.Cli.IsClosed() })
			}})
		case "pclose":
			h := c.registered()
			out = append(out, cOp{nm, func() {
				if h != nil {
					h.Close()
				}
			}})
		case "sclose":
			out = append(out, cOp{nm, func() { c.s.Close() }})
		}
	}
	return out
}

// round runs the operations together. mode 0: spin barrier; 1: parked on the pool map's mutex, then on the HostInfo
// mutex; 2: parked on the pool map's mutex only.
func (c *cScen) round(ops []cOp, mode int) bool {
	var done sync.WaitGroup
	all := make(chan struct{})
	switch mode {
	case 0:
		var flag int32
		var ready sync.WaitGroup
		for _, op := range ops {
			ready.Add(1)
			done.Add(1)
			go func(f func()) {
				defer done.Done()
				ready.Done()
				for i := 0; atomic.LoadInt32(&flag) == 0; i++ {
					if i&0xfffff == 0xfffff {
						runtime.Gosched()
					}
				}
				f()
			}(op.f)
		}
		ready.Wait()
		atomic.StoreInt32(&flag, 1)
	default:
		stable := func() {
			last, same := "?", 0
			if !patient(2*time.Second, profiled(func() bool {
				sig := scenarioSignature(c.label)
				if sig == last {
					same++
				} else {
					last, same = sig, 0
				}
				return same >= 2
			})) {
				atomic.AddInt64(&parkUnstable, 1) // only how well the interleaving was pinned, never a verdict
			}
		}
		gocql.VerifPoolMapLock(c.s)
		for _, op := range ops {
			done.Add(1)
			go func(f func()) { defer done.Done(); f() }(op.f)
		}
		stable()
		if mode == 1 {
			gocql.VerifHostInfoLock(c.host)
			gocql.VerifPoolMapUnlock(c.s)
			stable()
			gocql.VerifHostInfoUnlock(c.host)
		} else {
			gocql.VerifPoolMapUnlock(c.s)
		}
	}
	go func() { done.Wait(); close(all) }()
	if !closedWithin(all, watchdogFull) {
		if c.stall == "" {
			c.stall = "operations did not return"
			atomic.AddInt64(&failures, 1)
			os.WriteFile(dumpPath("hang", c.label), []byte(stacks()), 0o644)
		}
		return false
	}
	return true
}

// scenarioSignature: the innermost gocql function of every labelled goroutine that is inside gocql (sorted, with
// multiplicities) — equal signatures in consecutive profiles = the parked callers have stopped moving.
func scenarioSignature(label string) string {
	_, _, raw := gocqlGoroutines(label)
	var sig []string
	for _, blk := range strings.Split(raw, "\n\n") {
		lines := strings.Split(blk, "\n")
		if len(lines) < 2 {
			continue
		}
		inner := ""
		for _, l := range lines[1:] {
			f := strings.Fields(l)
			if len(f) >= 3 && strings.HasPrefix(f[2], gocqlPrefix) {
				inner = f[2]
				break
			}
		}
		sig = append(sig, strings.Fields(lines[0])[0]+"x"+inner)
	}
	return strings.Join(sig, ",")
}

// parkUnstable counts lock-parked rounds whose callers were not seen standing still within 2 s; slowestC is the longest
// kind-C scenario in milliseconds (diagnostics in stats.json).
var parkUnstable, slowestC int64

func runPipeC(label string, cseed uint64) (obsLine string) {
	t0 := time.Now()
	withLabel(label, func() { obsLine = runPipeCLabelled(label, cseed) })
	for {
		ms, old := time.Since(t0).Milliseconds(), atomic.LoadInt64(&slowestC)
		if ms <= old || atomic.CompareAndSwapInt64(&slowestC, old, ms) {
			break
		}
	}
	if os.Getenv("VERIF_C17_TIMING") != "" && time.Since(t0) > time.Second {
		fmt.Fprintf(os.Stderr, "c17 slow kind C scenario %s: %.1fs %s\n", label, time.Since(t0).Seconds(), obsLine)
	}
	return
}

func runPipeCLabelled(label string, cseed uint64) string {
	r := vh.NewRng(cseed)
	cfg := pipeCfg{size: 1 + r.Intn(3), ks: r.Intn(2) == 0, rm: "mixed"}
	ipS := "10.0.0.1"
	cl := memcluster.NewCluster(4, ipS)
	node := cl.Nodes[ipS]
	ks := ""
	if cfg.ks {
		ks = "ks"
	}
	g := newGate(ks, 0)
	g.cerr = cerrSel(int(cseed % 3)) // the close-error fault of the transports (all / odd ids / none)
	g.auto[1] = true
	fr := vh.NewRng(cseed*977 + 5)
	var fmu sync.Mutex
	g.fate = func(id int, stage string, ord int) (int, time.Duration) {
		fmu.Lock()
		defer fmu.Unlock()
		if fr.Intn(4) == 0 {
			return fSlow, time.Duration(200+fr.Intn(1500)) * time.Microsecond
		}
		return fOK, 0
	}
	g.install(node)
	node.Handle = func(req *memcluster.Request) {
		req.Conn.Reply(req.Stream, memcluster.OpResult, memcluster.VoidBody())
	}
	gc := sess.Config(cl, 4, ipS)
	gc.NumConns = cfg.size
	gc.Keyspace = ks
	gc.Timeout = 120 * time.Second
	gc.ConnectTimeout = 120 * time.Second
	gc.ConvictionPolicy = noConviction{}
	s, err := createSession(gc)
	if err != nil {
		return "fatal:" + err.Error()
	}
	c := &cScen{label: label, s: s, node: node, g: g, ip: net.ParseIP(ipS), size: cfg.size}
	c.host = gocql.VerifHostByIP(s, c.ip)
	if c.host == nil {
		s.Close()
		return "fatal:no host after NewSession"
	}
	var sched []string
	closed := false
	nRounds := 3 + r.Intn(4)
	adds := []string{"add0", "add1", "add2"}
	rms := []string{"rm", "down", "sethosts", "rm"}
	others := []string{"picks", "reset", "picks", "pclose"}
	for i := 0; i < nRounds && c.stall == ""; i++ {
		if !c.waitQuiet("quiescence before a round") {
			break
		}
		c.look()
		k := 2 + r.Intn(3)
		var names []string
		last := i == nRounds-1
		switch r.Intn(5) {
		case 0: // the same trigger family several times: addHost × addHost
			for j := 0; j < k; j++ {
				names = append(names, adds[r.Intn(3)])
			}
			if c.registered() != nil && r.Intn(3) > 0 {
				// … for a host that has no pool yet
				c.round(c.ops(r, []string{"rm"}), 0)
				sched = append(sched, "0:rm")
				c.waitQuiet("quiescence after the removal")
				c.look()
			}
		case 1: // addHost × removeHost (× removeHost)
			names = append(names, adds[r.Intn(3)], rms[r.Intn(4)])
			for j := 2; j < k; j++ {
				names = append(names, append(adds, rms...)[r.Intn(7)])
			}
		case 2: // fill triggers of different origins: HostUp-fill × HandleError-fill × Pick × reconnect
			names = append(names, adds[r.Intn(3)], []string{"reset", "picks"}[r.Intn(2)])
			for j := 2; j < k; j++ {
				names = append(names, append(adds, others...)[r.Intn(6)])
			}
		default:
			for j := 0; j < k; j++ {
				names = append(names, append(append(adds, rms...), others...)[r.Intn(11)])
			}
		}
		if last && r.Intn(2) == 0 {
			// addHost × Session.Close
			names = append([]string{"sclose"}, names[:1+r.Intn(len(names))]...)
			closed = true
		}
		mode := r.Intn(3)
		if closed {
			mode = 0 // Session.Close takes the pool map's mutex itself and keeps it while it closes the pools
		}
		sched = append(sched, fmt.Sprintf("%d:%s", mode, strings.Join(names, "+")))
		c.round(c.ops(r, names), mode)
	}
	if c.stall == "" {
		c.waitQuiet("quiescence after the last round")
		c.look()
	}
	lateAdd := 0
	if !closed {
		c.round(c.ops(r, []string{"sclose"}), 0)
	}
	late := 0
	quiet := c.waitQuiet("quiescence after Session.Close")
	regAfter := c.registered()
	wdEnd := watchdogFull
	if regAfter != nil {
		// registered after policyConnPool.Close(): only an addHost that raced Session.Close can have done that, and
		// nothing will close that pool — no point in waiting long for its connections to go away
		lateAdd = 1
		wdEnd = time.Second
	}
	after := 0
	patient(wdEnd, func() bool {
		late = 0
		if regAfter != nil {
			for _, nc := range regAfter.NetConns() {
				if !nc.(*memcluster.ClientConn).IsClosed() {
					late++
				}
			}
		}
		after = openSockets(node) // everything counts, the connections of a pool registered inside Session.Close too
		return after == 0
	})
	_ = quiet
	if after > 0 {
		atomic.AddInt64(&failures, 1)
	}
	for _, h := range c.seen {
		if n, _, x, _ := h.State(); x && n > c.closedConns {
			c.closedConns = n
		}
	}
	leaked, fns, raw := waitNoGocqlGoroutines(label, wdEnd)
	if regAfter != nil {
		regAfter.Close() // the harness closes what Session.Close left behind (after the monitors have looked)
	}
	if leaked > 0 {
		atomic.AddInt64(&failures, 1)
		os.WriteFile(dumpPath("leak", label), []byte(raw), 0o644)
	}
	stalled := 0
	if c.stall != "" {
		stalled = 1
	}
	return fmt.Sprintf("pipeobs kind=C %s maxconns=%d orphans=%d closedconns=%d hostconns=%d afterclose=%d leaked=%d stack=%s stalled=%d lateadd=%d lateopen=%d sched=cseed:%d,%s",
		cfg, c.maxConns, c.orphans, c.closedConns, c.hostConns, after, leaked, fns, stalled, lateAdd, late, cseed, strings.Join(sched, ","))
}
