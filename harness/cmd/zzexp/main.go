package main

import (
	"fmt"
	"net"
	"time"

	"github.com/gocql/gocql"
	"verifharness/memcluster"
	"verifharness/sess"
)

func open(n *memcluster.Node) int {
	c := 0
	for _, cc := range n.ClientConns() {
		if !cc.IsClosed() {
			c++
		}
	}
	return c
}

func main() {
	cl := memcluster.NewCluster(4, "10.0.0.1")
	n := cl.Nodes["10.0.0.1"]
	n.Handle = func(req *memcluster.Request) {
		req.Conn.Reply(req.Stream, memcluster.OpResult, memcluster.VoidBody())
	}
	cfg := sess.Config(cl, 4, "10.0.0.1")
	cfg.NumConns = 2
	s, err := cfg.CreateSession()
	if err != nil {
		panic(err)
	}
	sess.WaitConns(s, 2, time.Second)
	h := gocql.VerifHostByIP(s, net.ParseIP("10.0.0.1"))
	fmt.Println("open before close", open(n))
	d := gocql.VerifSessionRingRefresher(s)
	d.Lock()
	done := make(chan struct{})
	go func() { s.Close(); close(done) }()
	time.Sleep(100 * time.Millisecond)
	fmt.Println("open while close parked at ringRefresher.stop", open(n), gocql.VerifPoolState(s))
	gocql.VerifPoolAddHost(s, h)
	time.Sleep(300 * time.Millisecond)
	fmt.Println("open after addHost", open(n), gocql.VerifPoolState(s))
	d.Unlock()
	<-done
	time.Sleep(300 * time.Millisecond)
	fmt.Println("open after Close returned", open(n), gocql.VerifPoolState(s), s.Closed())
	fmt.Println(s.Query("x").Exec())
}
