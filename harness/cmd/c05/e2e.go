package main

import (
	"fmt"
	"os"
)

// e2eMain runs one end-to-end scenario in THIS process (the parent observes the exit status).
func e2eMain(args []string) {
	fmt.Fprintln(os.Stderr, "no e2e scenarios built in")
	os.Exit(3)
}
