// Harness for C05 (no bytes from the network can crash the application): generates type strings,
// (type, bytes) pairs, row bodies, frames and dispatch cells, runs the REAL gocql code on each with
// recover(), and writes op lines + canonical answers (`ok…`, `err`, `crash:<func>:<kind>`) for the
// line-by-line comparison with the Lean outcome models (vdrv C05).
package main

import (
	"fmt"
	"os"
	"strings"

	"verifharness/c05disp"
	"verifharness/c05frame"
	"verifharness/c05ts"
	"verifharness/c05val"
	"verifharness/vh"
)

type part struct {
	name string
	exec func(w []string) (string, bool)
	gen  func(r *vh.Rng, tier string, emit func(op, impl, class string, nontrivial bool))
}

var parts = []part{
	{"ts", c05ts.Exec, c05ts.Gen},
	{"frame", c05frame.Exec, c05frame.Gen},
	{"val", c05val.Exec, c05val.Gen},
	{"disp", c05disp.Exec, c05disp.Gen},
	{"ring", c05ts.RingExec, c05ts.RingGen},
}

func exec(op string) string {
	w := strings.Fields(op)
	if len(w) == 0 {
		return "bad-op"
	}
	for _, p := range parts {
		if a, mine := p.exec(w); mine {
			return a
		}
	}
	return "bad-op"
}

func main() {
	if len(os.Args) >= 3 && os.Args[1] == "e2e" && os.Args[2] == "deep" {
		c05frame.DeepChild(os.Args[3:])
		return
	}
	if len(os.Args) >= 2 && os.Args[1] == "e2e" {
		c05disp.E2EMain(os.Args[2:])
		return
	}
	mode, tier, path := vh.Args()
	if mode == "replay" {
		for _, l := range vh.ReadLines(path) {
			fmt.Println(exec(l))
		}
		return
	}
	seed := vh.EnvSeed()
	out := vh.NewOut(path)
	known := map[string]int{}
	for i, p := range parts {
		// one independent stream per part, all derived from VERIF_SEED
		r := vh.NewRng(seed*1000003 + uint64(i))
		p.gen(r, tier, func(op, impl, class string, nontrivial bool) {
			if strings.HasPrefix(impl, "crash:") {
				known[impl]++
			}
			out.Case(op, impl, class, nontrivial)
		})
	}
	extra := map[string]interface{}{"crash_answers_by_site": known, "skipped_huge_pk_count": c05frame.Skipped,
		"alloc_rows_max_ratio_permille": c05frame.AllocStats, "alloc_rows_skipped_zero_columns": c05frame.AllocSkippedZeroCols,
		"subprocess_notes": c05disp.Notes}
	for k, v := range c05val.Stats() {
		extra["val_"+k] = v
	}
	out.Close(extra)
}
