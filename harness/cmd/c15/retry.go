// Retry tier of the C15 harness (ops `rsess` / `rsessx`): FAULTS AT PAGE FETCHES x the executor's retry
// decisions. A real gocql.Session (1..3 scripted in-memory nodes sharing ONE positional script, round-robin
// host selection) runs one paged query whose RetryPolicy is scripted per attempt: every failure entry of the
// script carries the answer the policy gives when queryExecutor.do asks it about that failed attempt.
//
//	rsess v<2..5>[n<nodes>] <consumer> <prefetch> <pagesize> <q|x|xs|xd> <first> <policy> <script>
//	  script   as for `sess`; a failure may carry `/<d>`: s Attempt()=false (default), r Retry, n RetryNextHost,
//	           i Ignore, t Rethrow, u a RetryType that is none of the four; `V` = a RESULT of kind void
//	  policy   none | scr (scripted) | b<k> (scripted, Attempt = Attempts() <= k) | simple<k> (the real
//	           SimpleRetryPolicy) | down<k> (the real DowngradingConsistencyRetryPolicy with k levels);
//	           prefix C: set on the ClusterConfig instead of on the Query
//
// Answer: rows + final error at the application, the requests the nodes received (as for `sess`), and the
// value of Query.Attempts() at every RetryPolicy.Attempt call. `rsessx` = a script with a `V` entry (proposed
// known finding KF-C15-3: a page fetch answered with a non-rows RESULT ends the iteration normally):
// model-vs-code only.
package main

import (
	"context"
	"fmt"
	"strconv"
	"strings"
	"sync"
	"time"

	"github.com/gocql/gocql"
	"verifharness/memcluster"
	"verifharness/sess"
	"verifharness/vh"
)

type rreply struct {
	reply
	void bool
	dec  byte // 0 = not given
}

type rscen struct {
	op       string
	ver      int
	nodes    int
	consumer string
	prefetch string
	pageSize int
	kind     string
	first    []byte
	policy   string
	script   []rreply
}

func (r rreply) String() string {
	if r.void {
		return "V"
	}
	s := r.reply.String()
	if r.dec != 0 {
		s += "/" + string(r.dec)
	}
	return s
}

func (s rscen) String() string {
	sc := make([]string, len(s.script))
	for i, r := range s.script {
		sc[i] = r.String()
	}
	v := fmt.Sprintf("v%d", s.ver)
	if s.nodes > 1 {
		v += fmt.Sprintf("n%d", s.nodes)
	}
	return fmt.Sprintf("%s %s %s %s %d %s %s %s %s", s.op, v, s.consumer, s.prefetch, s.pageSize, s.kind, showState(s.first), s.policy, strings.Join(sc, ";"))
}

func parseRScen(op string) rscen {
	w := strings.Fields(op)
	if len(w) != 9 {
		panic("bad rsess op")
	}
	// the script grammar without decisions is the one of `sess`
	var plain []string
	var decs []byte
	var voids []bool
	for _, p := range strings.Split(w[8], ";") {
		d := byte(0)
		if i := strings.Index(p, "/"); i >= 0 {
			if len(p) != i+2 || !strings.HasPrefix(p, "E") || !strings.ContainsRune("srnitu", rune(p[i+1])) {
				panic("bad decision " + p)
			}
			d = p[i+1]
			p = p[:i]
		}
		if p == "V" {
			voids = append(voids, true)
			p = "-:."
		} else {
			voids = append(voids, false)
		}
		plain = append(plain, p)
		decs = append(decs, d)
	}
	b := parseScen(strings.Join([]string{"sess", w[1], w[2], w[3], w[4], w[5], w[6], strings.Join(plain, ";")}, " "))
	s := rscen{op: w[0], ver: b.ver, nodes: b.nodes, consumer: b.consumer, prefetch: b.prefetch, pageSize: b.pageSize, kind: b.kind,
		first: b.first, policy: w[7]}
	for i, r := range b.script {
		s.script = append(s.script, rreply{reply: r, void: voids[i], dec: decs[i]})
	}
	return s
}

// scriptedPolicy answers by the script entry the cluster served last: the requests of one paged query form a
// chain (one outstanding request at any time), so the failed attempt the executor asks about IS that entry.
type scriptedPolicy struct {
	mu     *sync.Mutex
	last   *int
	script []rreply
	budget int // -1 = none
	atts   *[]int
}

func (p *scriptedPolicy) dec() byte {
	p.mu.Lock()
	defer p.mu.Unlock()
	if *p.last < 0 || *p.last >= len(p.script) || p.script[*p.last].dec == 0 {
		return 's'
	}
	return p.script[*p.last].dec
}

func (p *scriptedPolicy) Attempt(q gocql.RetryableQuery) bool {
	a := q.Attempts()
	p.mu.Lock()
	*p.atts = append(*p.atts, a)
	p.mu.Unlock()
	if p.budget >= 0 && a > p.budget {
		return false
	}
	return p.dec() != 's'
}

func (p *scriptedPolicy) GetRetryType(error) gocql.RetryType {
	switch p.dec() {
	case 'r':
		return gocql.Retry
	case 'n':
		return gocql.RetryNextHost
	case 'i':
		return gocql.Ignore
	case 't':
		return gocql.Rethrow
	}
	return gocql.RetryType(7)
}

// recPolicy records Attempts() and delegates to a real policy of gocql.
type recPolicy struct {
	mu    *sync.Mutex
	inner gocql.RetryPolicy
	atts  *[]int
}

func (p *recPolicy) Attempt(q gocql.RetryableQuery) bool {
	a := q.Attempts()
	p.mu.Lock()
	*p.atts = append(*p.atts, a)
	p.mu.Unlock()
	return p.inner.Attempt(q)
}

func (p *recPolicy) GetRetryType(err error) gocql.RetryType { return p.inner.GetRetryType(err) }

var downLevels = []gocql.Consistency{gocql.Quorum, gocql.Two, gocql.Three, gocql.All}

func runRetry(sc rscen, driverTimeout time.Duration) (answer string, spurious bool) {
	defer func() {
		if r := recover(); r != nil {
			answer = fmt.Sprintf("crash:%v", r)
		}
	}()
	var ips []string
	for i := 1; i <= sc.nodes; i++ {
		ips = append(ips, fmt.Sprintf("10.0.0.%d", i))
	}
	cl := memcluster.NewCluster(sc.ver, ips...)
	var mu sync.Mutex
	var first string
	nreq := 0
	last := -1
	var atts []int
	var log []string
	unanswered := false
	ctx, cancel := context.WithCancel(context.Background())
	defer cancel()
	cols := []memcluster.Col{{Name: "v", Type: memcluster.TInt}}
	handle := func(req *memcluster.Request) {
		switch req.Op {
		case memcluster.OpPrepare:
			mu.Lock()
			if sc.nodes == 1 {
				log = append(log, "P")
			}
			mu.Unlock()
			req.Conn.Reply(req.Stream, memcluster.OpResult, memcluster.PreparedBody(sc.ver, preparedID,
				[]memcluster.Col{{Name: "id", Type: memcluster.TInt}}, []int{0}, cols))
		case memcluster.OpQuery, memcluster.OpExecute:
			skip := req.QFlags&0x02 != 0
			ident := fmt.Sprintf("%q %x %v c%d s%d f%x e%v", req.Stmt, req.PreparedID, req.Values, req.Consistency, req.Serial, req.QFlags&^0x08, req.ParseErr)
			mu.Lock()
			k := nreq
			nreq++
			if k == 0 {
				first = ident
			}
			same := "="
			if ident != first {
				same = "!"
			}
			name := "Q"
			if req.Op == memcluster.OpExecute {
				name = "X"
				if skip {
					name = "Xs"
				}
			}
			st, ps := ".", "."
			if req.QFlags&0x08 != 0 {
				st = vh.Hex(req.PageState)
			}
			if req.HasPageSize {
				ps = strconv.Itoa(int(req.PageSize))
			}
			log = append(log, fmt.Sprintf("%s%s:%s:%s", name, same, st, ps))
			var r rreply
			if k < len(sc.script) {
				r = sc.script[k]
			} else {
				r = rreply{reply: reply{fail: "exhausted"}}
			}
			last = k
			if r.fail == "t" || r.fail == "x" {
				unanswered = true
			}
			mu.Unlock()
			switch {
			case r.void:
				req.Conn.Reply(req.Stream, memcluster.OpResult, memcluster.VoidBody())
			case r.fail == "":
				rows := make([][][]byte, len(r.rows))
				for i, v := range r.rows {
					rows[i] = [][]byte{{byte(v >> 24), byte(v >> 16), byte(v >> 8), byte(v)}}
				}
				req.Conn.Reply(req.Stream, memcluster.OpResult, memcluster.RowsBody(cols, rows, r.state, skip))
			case r.fail == "s":
				var extra []byte
				switch r.code {
				case memcluster.ErrUnavailable:
					extra = memcluster.UnavailableExtra(1, 2, 1)
				case memcluster.ErrReadTO:
					extra = memcluster.ReadTimeoutExtra(1, 1, 2, 0)
				case memcluster.ErrWriteTO:
					extra = memcluster.WriteTimeoutExtra(1, 1, 2, "SIMPLE")
				}
				req.Conn.Reply(req.Stream, memcluster.OpError, memcluster.ErrorBody(int32(r.code), "scripted", extra))
			case r.fail == "u":
				req.Conn.Reply(req.Stream, memcluster.OpError, memcluster.ErrorBody(memcluster.ErrUnprepared, "unprepared", memcluster.UnpreparedExtra(preparedID)))
			case r.fail == "c":
				req.Conn.Close()
			case r.fail == "t":
			case r.fail == "x":
				cancel()
			default:
				req.Conn.Reply(req.Stream, memcluster.OpError, memcluster.ErrorBody(memcluster.ErrServer, "script exhausted", nil))
			}
		default:
			req.Conn.Reply(req.Stream, memcluster.OpResult, memcluster.VoidBody())
		}
	}
	for _, n := range cl.Nodes {
		n.Handle = handle
	}
	// the policy
	pname := strings.TrimPrefix(sc.policy, "C")
	onCluster := pname != sc.policy
	var pol gocql.RetryPolicy
	num := func(prefix string) int {
		n, err := strconv.Atoi(strings.TrimPrefix(pname, prefix))
		if err != nil || n < 0 || n > 4 {
			panic("bad policy " + sc.policy)
		}
		return n
	}
	switch {
	case pname == "none":
	case pname == "scr":
		pol = &scriptedPolicy{mu: &mu, last: &last, script: sc.script, budget: -1, atts: &atts}
	case strings.HasPrefix(pname, "simple"):
		pol = &recPolicy{mu: &mu, inner: &gocql.SimpleRetryPolicy{NumRetries: num("simple")}, atts: &atts}
	case strings.HasPrefix(pname, "down"):
		pol = &recPolicy{mu: &mu, inner: &gocql.DowngradingConsistencyRetryPolicy{ConsistencyLevelsToTry: downLevels[:num("down")]}, atts: &atts}
	case strings.HasPrefix(pname, "b"):
		pol = &scriptedPolicy{mu: &mu, last: &last, script: sc.script, budget: num("b"), atts: &atts}
	default:
		panic("bad policy " + sc.policy)
	}
	cfg := sess.Config(cl, sc.ver, ips...)
	cfg.Timeout = 20 * time.Second
	for _, r := range sc.script {
		if r.fail == "t" {
			cfg.Timeout = driverTimeout
		}
	}
	cfg.ConnectTimeout = 20 * time.Second
	cfg.WriteTimeout = 20 * time.Second
	cfg.DisableSkipMetadata = sc.kind == "xd"
	if onCluster && pol != nil {
		cfg.RetryPolicy = pol
	}
	s, err := cfg.CreateSession()
	if err != nil {
		return "fatal:" + err.Error(), true
	}
	defer s.Close()
	if sc.pageSize == 3 {
		s.SetPageSize(3)
	}
	if sc.prefetch == "0.5" {
		s.SetPrefetch(0.5)
	}
	if !sess.WaitConns(s, sc.nodes, 10*time.Second) {
		return "fatal:no connection", false
	}
	pf, err := strconv.ParseFloat(sc.prefetch, 64)
	if err != nil {
		return "bad-op", false
	}
	mkQuery := func() *gocql.Query {
		var q *gocql.Query
		switch sc.kind {
		case "q":
			q = s.Query(stmtPlain)
		case "x":
			q = s.Query(stmtPrepared, 7).NoSkipMetadata()
		case "xs", "xd":
			q = s.Query(stmtPrepared, 7)
		default:
			panic("bad kind")
		}
		if sc.pageSize != 5000 && sc.pageSize != 3 {
			q = q.PageSize(sc.pageSize)
		}
		if sc.prefetch != "0.25" && sc.prefetch != "0.5" {
			q = q.Prefetch(pf)
		}
		if !onCluster {
			if pol != nil {
				q = q.RetryPolicy(pol)
			} else {
				q = q.RetryPolicy(nil)
			}
		}
		return q.WithContext(ctx)
	}
	type result struct {
		rows []int
		err  error
		nilr bool
	}
	done := make(chan result, 1)
	go func() {
		var res result
		defer func() {
			if r := recover(); r != nil {
				res.err = fmt.Errorf("crash:%v", r)
			}
			done <- res
		}()
		drain := func(it *gocql.Iter) error {
			var v int
			for it.Scan(&v) {
				res.rows = append(res.rows, v)
			}
			return it.Close()
		}
		switch sc.consumer {
		case "scan":
			res.err = drain(mkQuery().Iter())
		case "scanner":
			scn := mkQuery().Iter().Scanner()
			for scn.Next() {
				var v int
				if e := scn.Scan(&v); e != nil {
					res.err = fmt.Errorf("scan-error:%v", e)
					return
				}
				res.rows = append(res.rows, v)
			}
			res.err = scn.Err()
		case "mapscan":
			it := mkQuery().Iter()
			for {
				m := map[string]interface{}{}
				if !it.MapScan(m) {
					break
				}
				res.rows = append(res.rows, m["v"].(int))
			}
			res.err = it.Close()
		case "slicemap":
			it := mkQuery().Iter()
			ms, e := it.SliceMap()
			if e != nil {
				res.nilr, res.err = true, e
				return
			}
			for _, m := range ms {
				res.rows = append(res.rows, m["v"].(int))
			}
			res.err = it.Close()
		case "manual":
			st := sc.first
			for {
				it := mkQuery().PageState(st).Iter()
				next := it.PageState()
				if e := drain(it); e != nil {
					res.err = e
					return
				}
				if len(next) == 0 {
					return
				}
				st = append([]byte{}, next...)
			}
		default:
			panic("bad consumer")
		}
	}()
	var res result
	select {
	case res = <-done:
	case <-time.After(60 * time.Second):
		return "hang", false
	}
	mu.Lock()
	l := strings.Join(log, ",")
	un := unanswered
	as := make([]string, len(atts))
	for i, a := range atts {
		as[i] = strconv.Itoa(a)
	}
	mu.Unlock()
	if l == "" {
		l = "-"
	}
	ec := errClass(res.err)
	if ec == "timeout" && !un {
		return "spurious-timeout", true
	}
	if strings.HasPrefix(ec, "other:") && strings.Contains(ec, "i/o_timeout") {
		return "spurious-" + ec, true
	}
	rows := showRows(res.rows)
	if res.nilr {
		rows = "nil"
	}
	at := "-"
	if len(as) > 0 {
		at = strings.Join(as, ",")
	}
	return fmt.Sprintf("rows=%s err=%s reqs=%s att=%s", rows, ec, l, at), false
}

func execRetry(op string) string {
	sc := parseRScen(op)
	timeouts := []time.Duration{80 * time.Millisecond, 250 * time.Millisecond, time.Second, 3 * time.Second, 8 * time.Second}
	// as in execSess: an answer ending in a driver timeout is confirmed with the next larger timer
	prev := ""
	for try := 0; ; try++ {
		a, spurious := runRetry(sc, timeouts[try])
		last := try == len(timeouts)-1
		if !spurious {
			if !strings.Contains(a, "err=timeout") || a == prev || last {
				return a
			}
			prev = a
			continue
		}
		if last {
			return a
		}
		spuriousRetryReruns.add()
	}
}

type counter struct {
	mu sync.Mutex
	n  int
}

func (c *counter) add() { c.mu.Lock(); c.n++; c.mu.Unlock() }
func (c *counter) get() int {
	c.mu.Lock()
	defer c.mu.Unlock()
	return c.n
}

var spuriousRetryReruns counter

// ---------- generation ----------

var retryDecs = []byte("rrrrnnnniitssu")

type rgen struct {
	r    *vh.Rng
	next int
}

func (g *rgen) rows(n int) []int32 {
	out := make([]int32, n)
	for i := range out {
		g.next++
		out[i] = int32(g.next)
	}
	return out
}

func (g *rgen) base() rscen {
	nodes := 1
	if g.r.Intn(5) < 2 {
		nodes = 2 + g.r.Intn(2)
	}
	return rscen{op: "rsess", ver: 2 + g.r.Intn(4), nodes: nodes, consumer: consumersS[g.r.Intn(len(consumersS))],
		prefetch: prefetches[g.r.Intn(len(prefetches))], pageSize: pageSizes[g.r.Intn(len(pageSizes))], kind: kinds[g.r.Intn(len(kinds))]}
}

func (g *rgen) policy() string {
	p := ""
	switch g.r.Intn(20) {
	case 0, 1:
		return "none"
	case 2, 3, 4, 5, 6, 7, 8, 9:
		p = "scr"
	case 10, 11, 12, 13:
		p = "b" + strconv.Itoa(g.r.Intn(3))
	case 14, 15, 16:
		p = "simple" + strconv.Itoa(g.r.Intn(3))
	default:
		p = "down" + strconv.Itoa(g.r.Intn(4))
	}
	if g.r.Intn(3) == 0 {
		p = "C" + p
	}
	return p
}

// closedOK: a connection loss is only scripted where what follows does not depend on WHEN the pool has
// re-established the connection: the decision about it ends the fetch, or there is one node and the
// decision is not Retry (RetryNextHost then finds no further host).
func closedOK(sc rscen, dec byte) bool {
	pname := strings.TrimPrefix(sc.policy, "C")
	switch {
	case pname == "none":
		return true
	case pname == "scr" || strings.HasPrefix(pname, "b"):
		if dec == 'r' {
			return false
		}
		return dec != 'n' || sc.nodes == 1
	}
	return sc.nodes == 1 // simple / down: closed -> RetryNextHost or stop
}

func (g *rgen) fault(sc rscen, usedT, usedC *bool) rreply {
	dec := retryDecs[g.r.Intn(len(retryDecs))]
	for try := 0; try < 8; try++ {
		switch g.r.Intn(14) {
		case 0:
			if !*usedT && g.r.Intn(3) == 0 {
				*usedT = true
				return rreply{reply: reply{fail: "t"}, dec: dec}
			}
		case 1, 2:
			if !*usedC && closedOK(sc, dec) {
				*usedC = true
				return rreply{reply: reply{fail: "c"}, dec: dec}
			}
		case 3:
			return rreply{reply: reply{fail: "x"}, dec: dec}
		case 4:
			if g.r.Intn(2) == 0 {
				return rreply{void: true}
			}
		case 5:
			return rreply{reply: reply{fail: "u"}}
		default:
			return rreply{reply: reply{fail: "s", code: srvCodes[g.r.Intn(len(srvCodes))]}, dec: dec}
		}
	}
	return rreply{reply: reply{fail: "s", code: srvCodes[g.r.Intn(len(srvCodes))]}, dec: dec}
}

func finishR(sc rscen) rscen {
	sc.op = "rsess"
	for _, r := range sc.script {
		if r.void {
			sc.op = "rsessx"
		}
	}
	return sc
}

func (g *rgen) random() rscen {
	sc := g.base()
	sc.policy = g.policy()
	g.next = 0
	if sc.consumer == "manual" && g.r.Intn(4) == 0 {
		sc.first = g.r.Bytes(1 + g.r.Intn(6))
	}
	np := 1 + g.r.Intn(5)
	usedT, usedC := false, false
	faultsAt := g.r.Intn(np) // the page whose fetch is certainly hit
	for p := 0; p < np; p++ {
		nf := 0
		if p == faultsAt {
			nf = 1 + g.r.Intn(3)
		} else if g.r.Intn(4) == 0 {
			nf = 1 + g.r.Intn(2)
		}
		for i := 0; i < nf; i++ {
			sc.script = append(sc.script, g.fault(sc, &usedT, &usedC))
		}
		n := g.r.Intn(4)
		if g.r.Intn(6) == 0 {
			n = 0
		}
		pg := rreply{reply: reply{rows: g.rows(n)}}
		if p < np-1 || g.r.Intn(10) == 0 {
			pg.state = append([]byte{byte(p + 1)}, g.r.Bytes(g.r.Intn(5))...)
		}
		sc.script = append(sc.script, pg)
	}
	return finishR(sc)
}

// exhaustive: a 3-page result, the fetch of page k in 1..3 fails once or twice, for every decision about the
// first failure and (where that one continues) every decision about the second, for every consumer; fault
// kinds, policy carrier, protocol version, nodes, prefetch and page size vary at random
func (g *rgen) exhaustive(emit func(rscen, string)) {
	decs := []byte("srnitu")
	kindsF := []reply{{fail: "s", code: 0x1200}, {fail: "s", code: 0x1100}, {fail: "s", code: 0x1000}, {fail: "s", code: 0x1001},
		{fail: "s", code: 0x0000}, {fail: "s", code: 0x2200}, {fail: "c"}, {fail: "x"}}
	for _, c := range consumersS {
		for k := 0; k < 3; k++ {
			for _, d1 := range decs {
				seconds := []byte{0}
				if d1 == 'r' || d1 == 'n' {
					seconds = append(seconds, decs...)
				}
				for _, d2 := range seconds {
					sc := g.base()
					sc.consumer = c
					sc.policy = "scr"
					if g.r.Intn(3) == 0 {
						sc.policy = "Cscr"
					}
					g.next = 0
					pick := func(d byte) rreply {
						for {
							f := kindsF[g.r.Intn(len(kindsF))]
							if f.fail == "c" && !closedOK(sc, d) {
								continue
							}
							return rreply{reply: f, dec: d}
						}
					}
					for p := 0; p < 3; p++ {
						if p == k {
							sc.script = append(sc.script, pick(d1))
							if d2 != 0 {
								f := pick(d2)
								if f.fail == "c" && sc.script[len(sc.script)-1].fail == "c" {
									f.reply = reply{fail: "s", code: 0x1200}
								}
								sc.script = append(sc.script, f)
							}
						}
						pg := rreply{reply: reply{rows: g.rows(1 + g.r.Intn(2))}}
						if p < 2 {
							pg.state = []byte{byte(p + 1), byte(g.r.Intn(256))}
						}
						sc.script = append(sc.script, pg)
					}
					d2c := byte('-')
					if d2 != 0 {
						d2c = d2
					}
					emit(finishR(sc), fmt.Sprintf("rsess-exh/%s/page%d/%c%c", c, k+1, d1, d2c))
				}
			}
		}
	}
}

func rscenClass(sc rscen) string {
	// the first fault that hits a fetch, which page it hits, and the decision scripted for it
	page, fault := 1, "nofault"
	for _, r := range sc.script {
		if r.void {
			fault = "void"
			break
		}
		if r.fail == "u" {
			continue
		}
		if r.fail != "" {
			fault = r.fail
			if r.fail == "s" {
				fault = fmt.Sprintf("s%04x", r.code)
			}
			d := r.dec
			if d == 0 {
				d = 's'
			}
			fault += "/" + string(d)
			break
		}
		if r.state == nil {
			break
		}
		page++
	}
	if page > 2 {
		page = 2
	}
	pol := strings.TrimRight(strings.TrimPrefix(sc.policy, "C"), "0123456789")
	return fmt.Sprintf("%s/%s/n%d/%s/page%d/%s", sc.op, sc.consumer, sc.nodes, pol, page, fault)
}

func retryTier(r *vh.Rng, out *vh.Out, tier string) map[string]interface{} {
	g := &rgen{r: r}
	type job struct {
		sc  rscen
		cls string
	}
	var jobs []job
	emit := func(sc rscen, cls string) { jobs = append(jobs, job{sc, cls}) }
	n := 2500
	if tier == "thorough" {
		n = 30000
	}
	g.exhaustive(emit)
	for i := 0; i < n; i++ {
		sc := g.random()
		emit(sc, rscenClass(sc))
	}
	res := make([]string, len(jobs))
	var wg sync.WaitGroup
	sem := make(chan struct{}, 24)
	for i := range jobs {
		wg.Add(1)
		sem <- struct{}{}
		go func(i int) {
			defer wg.Done()
			defer func() { <-sem }()
			journalStart(3000000+i, jobs[i].sc.String())
			res[i] = execRetry(jobs[i].sc.String())
			journalDone(3000000+i, res[i])
		}(i)
	}
	wg.Wait()
	for i, j := range jobs {
		out.Case(j.sc.String(), res[i], j.cls, true)
	}
	return map[string]interface{}{"retry_scenarios": len(jobs), "spurious_timeout_reruns_retry": spuriousRetryReruns.get()}
}
